import FoxModel.Lemmas.MachineRefine
/-
  lookupByDomain as the Go code runs it (Model/Machine: `hostKeyLoop`, `hostNodeEnd`, `hostAfter`, `hostBacktrack`)
  = `pick` of the enumerating hostname walk `hostWalk`; and `roots.lookup` of the machine = `Model.lookup`.
-/
namespace Fox.Model
open Fox Fox.Model.Machine

/-! ### unfolding `hostWalk` -/

theorem hostWalk_nil_nil (n : Node) (path ps) :
    hostWalk n [] [] path ps =
      (match n.children.find? (fun c => startsWithSlash c.key) with
       | some c => pathEvents c path ps
       | none => []) := by
  conv => lhs; unfold hostWalk
  all_goals (try rfl)

theorem hostWalk_nil_cons (n : Node) (b rest path ps) :
    hostWalk n [] (b :: rest) path ps =
      hostKids (.static b) n.children (b :: rest) path ps ++ hostKids .param n.children (b :: rest) path ps := by
  conv => lhs; unfold hostWalk
  all_goals (try rfl)

theorem hostWalk_tok_nil (n : Node) (t k' path ps) : hostWalk n (t :: k') [] path ps = [] := by
  cases t <;> (conv => lhs; unfold hostWalk) <;> (try rfl)

theorem hostWalk_lit (n : Node) (c k' b rest path ps) :
    hostWalk n (.lit c :: k') (b :: rest) path ps = if c = b then hostWalk n k' rest path ps else [] := by
  conv => lhs; unfold hostWalk
  all_goals (try rfl)

theorem hostWalk_param (n : Node) (nm k' b rest path ps) :
    hostWalk n (.param nm :: k') (b :: rest) path ps =
      if segEnd DOT (b :: rest) = 0 then []
      else hostWalk n k' ((b :: rest).drop (segEnd DOT (b :: rest))) path
        (ps ++ [(nm, (b :: rest).take (segEnd DOT (b :: rest)))]) := by
  conv => lhs; unfold hostWalk
  all_goals (try rfl)

theorem hostWalk_catch (n : Node) (nm k' host path ps) : hostWalk n (.catchAll nm :: k') host path ps = [] := by
  conv => lhs; unfold hostWalk
  all_goals (try rfl)

theorem hostKids_nil (sel host path ps) : hostKids sel [] host path ps = [] := by
  unfold hostKids; rfl

theorem hostKids_cons (sel c cs host path ps) :
    hostKids sel (c :: cs) host path ps =
      (if sel.matches c.key then hostWalk c c.key host path ps else []) ++ hostKids sel cs host path ps := by
  conv => lhs; unfold hostKids

theorem hostKids_none {cs : List Node} {sel : Sel} (h : ∀ x ∈ cs, sel.matches x.key = false) (host path ps) :
    hostKids sel cs host path ps = [] := by
  induction cs with
  | nil => exact hostKids_nil _ _ _ _
  | cons c cs ih =>
    rw [hostKids_cons, h c (by simp), ih (fun x hx => h x (List.mem_cons_of_mem _ hx))]
    rfl

theorem hostKids_find {cs : List Node} (hd : nodupB (kindsOf cs) = true) (sel : Sel) (host path ps) :
    hostKids sel cs host path ps =
      (match cs.find? (fun c => sel.matches c.key) with
       | some c => hostWalk c c.key host path ps
       | none => []) := by
  induction cs with
  | nil => rw [hostKids_nil]; rfl
  | cons c cs ih =>
    rw [hostKids_cons]
    cases hm : sel.matches c.key with
    | true =>
      have hk := (sel_matches_iff _ _).mp hm
      rw [hostKids_none (fun x hx => matches_false (nodup_others hd hk x hx))]
      simp [List.find?_cons, hm]
    | false =>
      rw [ih (nodup_tail hd)]
      simp [List.find?_cons, hm]

/-! ### unfolding the hostname machine -/

theorem hostKeyLoop_end {host : Bytes} {cm : Nat} (hp : host.drop cm = []) (path cur k pc R) :
    hostKeyLoop false host path cur k cm pc R = hostAfter false host path cur k cm R := by
  rw [hostKeyLoop]; simp only [hp]

theorem hostKeyLoop_keyEnd {host : Bytes} {cm : Nat} {b : UInt8} {rest : Bytes} (hp : host.drop cm = b :: rest) (path cur pc R) :
    hostKeyLoop false host path cur [] cm pc R = hostNodeEnd false host path cur cm pc b R := by
  rw [hostKeyLoop]; simp only [hp]

theorem hostKeyLoop_lit {host : Bytes} {cm : Nat} {b : UInt8} {rest : Bytes} (hp : host.drop cm = b :: rest) (path cur c k' pc R) :
    hostKeyLoop false host path cur (.lit c :: k') cm pc R =
      if c = b ∧ b ≠ LBR then hostKeyLoop false host path cur k' (cm + 1) pc R
      else hostAfter false host path cur (.lit c :: k') cm R := by
  rw [hostKeyLoop]; simp only [hp]

theorem hostKeyLoop_param {host : Bytes} {cm : Nat} {b : UInt8} {rest : Bytes} (hp : host.drop cm = b :: rest) (path cur nm k' pc R) :
    hostKeyLoop false host path cur (.param nm :: k') cm pc R =
      if segEnd DOT (b :: rest) = 0 then hostAfter false host path cur (.param nm :: k') cm R
      else hostKeyLoop false host path cur k' (cm + segEnd DOT (b :: rest)) (pc + 1)
        { R with params := R.params ++ [(nm, (b :: rest).take (segEnd DOT (b :: rest)))] } := by
  rw [hostKeyLoop]; simp only [hp]; rfl

theorem hostKeyLoop_catch {host : Bytes} {cm : Nat} {b : UInt8} {rest : Bytes} (hp : host.drop cm = b :: rest) (path cur nm k' pc R) :
    hostKeyLoop false host path cur (.catchAll nm :: k') cm pc R = hostAfter false host path cur (.catchAll nm :: k') cm R := by
  rw [hostKeyLoop]; simp only [hp]

theorem hostNodeEnd_eq (host path cur cm pc b R) :
    hostNodeEnd false host path cur cm pc b R =
      (match hostStaticChild cur b with
       | none =>
         (match paramChild cur with
          | some pc' => hostKeyLoop false host path pc' pc'.key cm pc R
          | none => hostAfter false host path cur [] cm R)
       | some sc => hostKeyLoop false host path sc sc.key cm pc { R with skipNds := pushParam cur cm pc R.skipNds }) := by
  rw [hostNodeEnd]
  split
  · rename_i hs; rw [hs]; simp only []
    split
    · rename_i pc' hpc; rw [hpc]
    · rename_i hpc; rw [hpc]
  · rename_i sc hs; rw [hs]

theorem hostAfter_eq (host path cur k cm R) :
    hostAfter false host path cur k cm R =
      if (host.drop cm).isEmpty && k.isEmpty then
        match cur.children.find? (fun c => firstByte c.key == SLASH) with
        | none => hostBacktrack false host path R
        | some c =>
          match lookupByPath c path [] with
          | .none => hostBacktrack false host path R
          | .found r sps true => hostBacktrack false host path (setTsr R (some r) (R.params ++ sps))
          | .found r sps false => .found r (R.params ++ sps) false
          | .bad => .bad
      else hostBacktrack false host path R := by
  rw [hostAfter]
  all_goals (try rfl)

theorem hostBacktrack_nil {R : Regs} (h : R.skipNds = []) (host path) : hostBacktrack false host path R = fin R.tsr := by
  rw [hostBacktrack]; split
  · cases ht : R.tsr with
    | none => rfl
    | some x => cases x; rfl
  · rename_i f st h'; rw [h] at h'; cases h'

theorem hostBacktrack_cons {R : Regs} {f : Frame} {st : List Frame} (h : R.skipNds = f :: st) (host path) :
    hostBacktrack false host path R = hostKeyLoop false host path f.child f.child.key f.pathIndex f.paramCnt
      { R with skipNds := st, params := R.params.take f.paramCnt } := by
  rw [hostBacktrack]; split
  · rename_i h'; rw [h] at h'; cases h'
  · rename_i f' st' h'; rw [h] at h'; cases h'; rfl

/-! ### the invariant -/

def hframeEvs (host path : Bytes) (params : Binds) (f : Frame) : List Ev :=
  hostWalk f.child f.child.key (host.drop f.pathIndex) path (params.take f.paramCnt)

def hstackEvs (host path : Bytes) : Binds → List Frame → List Ev
  | _, [] => []
  | params, f :: st => hframeEvs host path params f ++ hstackEvs host path (params.take f.paramCnt) st

theorem hstackEvs_append (host path) (params x : Binds) {st : List Frame} (hs : stackOk params.length st) :
    hstackEvs host path (params ++ x) st = hstackEvs host path params st := by
  cases st with
  | nil => rfl
  | cons f st =>
    simp only [hstackEvs, hframeEvs]
    rw [List.take_append_of_le_length hs.1]

/-- events of the analysis after the hostname `Walk` loop: the path lookup below the "/" child, if host and key are used up -/
def hpostEvs (host path : Bytes) (cur : Node) (k : List Tok) (cm : Nat) (ps : Binds) : List Ev :=
  if (host.drop cm).isEmpty && k.isEmpty then
    match cur.children.find? (fun c => startsWithSlash c.key) with
    | some c => pathEvents c path ps
    | none => []
  else []

structure HInv (cur : Node) (k : List Tok) (pc : Nat) (R : Regs) : Prop where
  kids : wfKids cur.children = true
  nodup : nodupB (kindsOf cur.children) = true
  key : keyOk k = true
  cnt : pc = R.params.length
  st : stackOk R.params.length R.skipNds

def Q1 (host path : Bytes) (cur : Node) (k : List Tok) (cm pc : Nat) (R : Regs) : Prop :=
  HInv cur k pc R →
  hostKeyLoop false host path cur k cm pc R =
    pickC R.tsr (hostWalk cur k (host.drop cm) path R.params ++ hstackEvs host path R.params R.skipNds)

def Q2 (host path : Bytes) (cur : Node) (cm pc : Nat) (b : UInt8) (R : Regs) : Prop :=
  HInv cur [] pc R → (∃ rest, host.drop cm = b :: rest) →
  hostNodeEnd false host path cur cm pc b R =
    pickC R.tsr (hostWalk cur [] (host.drop cm) path R.params ++ hstackEvs host path R.params R.skipNds)

def Q3 (host path : Bytes) (cur : Node) (k : List Tok) (cm : Nat) (R : Regs) : Prop :=
  wfKids cur.children = true → stackOk R.params.length R.skipNds →
  hostAfter false host path cur k cm R =
    pickC R.tsr (hpostEvs host path cur k cm R.params ++ hstackEvs host path R.params R.skipNds)

def Q4 (host path : Bytes) (R : Regs) : Prop :=
  stackOk R.params.length R.skipNds →
  hostBacktrack false host path R = pickC R.tsr (hstackEvs host path R.params R.skipNds)

theorem wfNode_hinv {c : Node} (h : wfNode c = true) {pc : Nat} {R : Regs} (hc : pc = R.params.length)
    (hs : stackOk R.params.length R.skipNds) : HInv c c.key pc R := by
  have h1 := wfNode_leafcond h
  have h2 : nodupB (kindsOf c.children) = true := by cases c with | mk k r cs => exact (wfNode_kids h).2.1
  exact ⟨h1.1, h2, wfNode_keyOk' h, hc, hs⟩

theorem keyOk_tail {t : Tok} {k : List Tok} (h : keyOk (t :: k) = true) : keyOk k = true :=
  keyOk_append_right (pre := [t]) h

theorem hpostEvs_mid {host : Bytes} {cm : Nat} {k : List Tok} (h : host.drop cm ≠ [] ∨ k ≠ []) (path cur ps) :
    hpostEvs host path cur k cm ps = [] := by
  unfold hpostEvs
  have : ((host.drop cm).isEmpty && k.isEmpty) = false := by
    rcases h with h | h
    · cases hd : host.drop cm with
      | nil => exact absurd hd h
      | cons => rfl
    · cases k with
      | nil => exact absurd rfl h
      | cons => simp
  rw [this]; rfl

/-! ### the cases -/

theorem d01 (host path cur k cm pc R) (hp : host.drop cm = []) (ih : Q3 host path cur k cm R) : Q1 host path cur k cm pc R := by
  intro hinv
  rw [hostKeyLoop_end hp, ih hinv.kids hinv.st, hp]
  congr 2
  unfold hpostEvs
  cases k with
  | nil => rw [hostWalk_nil_nil]; simp [hp]
  | cons t k' => rw [hostWalk_tok_nil]; simp

theorem d02 (host path cur cm pc R b rest) (hp : host.drop cm = b :: rest) (ih : Q2 host path cur cm pc b R) :
    Q1 host path cur [] cm pc R := by
  intro hinv
  rw [hostKeyLoop_keyEnd hp, ih hinv ⟨rest, hp⟩]

theorem d03 (host path cur cm pc R b rest) (hp : host.drop cm = b :: rest) (c : UInt8) (k' : List Tok)
    (hc : c = b ∧ b ≠ LBR) (ih : Q1 host path cur k' (cm + 1) pc R) : Q1 host path cur (Tok.lit c :: k') cm pc R := by
  intro hinv
  have hinv' : HInv cur k' pc R := ⟨hinv.kids, hinv.nodup, keyOk_tail hinv.key, hinv.cnt, hinv.st⟩
  rw [hostKeyLoop_lit hp, if_pos hc, ih hinv', hp, drop_add_of_drop hp 1, hostWalk_lit, if_pos hc.1]
  rfl

theorem d04 (host path cur cm pc R b rest) (hp : host.drop cm = b :: rest) (c : UInt8) (k' : List Tok)
    (hc : ¬ (c = b ∧ b ≠ LBR)) (ih : Q3 host path cur (Tok.lit c :: k') cm R) :
    Q1 host path cur (Tok.lit c :: k') cm pc R := by
  intro hinv
  have hne := keyOk_lit_ne hinv.key
  have hcb : ¬ c = b := by
    intro h; subst h; exact hc ⟨rfl, hne.2⟩
  rw [hostKeyLoop_lit hp, if_neg hc, ih hinv.kids hinv.st, hp, hostWalk_lit, if_neg hcb,
    hpostEvs_mid (Or.inr (by simp))]

theorem d05 (host path cur cm pc R b rest) (hp : host.drop cm = b :: rest) (nm : Bytes) (k' : List Tok)
    (h0 : segEnd DOT (b :: rest) = 0) (ih : Q3 host path cur (Tok.param nm :: k') cm R) :
    Q1 host path cur (Tok.param nm :: k') cm pc R := by
  intro hinv
  rw [hostKeyLoop_param hp, if_pos h0, ih hinv.kids hinv.st, hp, hostWalk_param, if_pos h0,
    hpostEvs_mid (Or.inr (by simp))]

theorem d06 (host path cur cm pc R b rest) (hp : host.drop cm = b :: rest) (nm : Bytes) (k' : List Tok)
    (h0 : ¬ segEnd DOT (b :: rest) = 0)
    (ih : Q1 host path cur k' (cm + segEnd DOT (b :: rest)) (pc + 1)
      { skipNds := R.skipNds, params := R.params ++ [(nm, List.take (segEnd DOT (b :: rest)) (b :: rest))], tsr := R.tsr }) :
    Q1 host path cur (Tok.param nm :: k') cm pc R := by
  intro hinv
  have hinv' : HInv cur k' (pc + 1)
      { skipNds := R.skipNds, params := R.params ++ [(nm, List.take (segEnd DOT (b :: rest)) (b :: rest))], tsr := R.tsr } :=
    ⟨hinv.kids, hinv.nodup, keyOk_tail hinv.key, by simp [hinv.cnt], stackOk_mono (by simp) hinv.st⟩
  rw [hostKeyLoop_param hp, if_neg h0, ih hinv', hp, drop_add_of_drop hp, hostWalk_param, if_neg h0]
  simp only []
  rw [hstackEvs_append _ _ _ _ hinv.st]

theorem d07 (host path cur cm pc R b rest) (hp : host.drop cm = b :: rest) (nm : Bytes) (k' : List Tok)
    (ih : Q3 host path cur (Tok.catchAll nm :: k') cm R) : Q1 host path cur (Tok.catchAll nm :: k') cm pc R := by
  intro hinv
  rw [hostKeyLoop_catch hp, ih hinv.kids hinv.st, hostWalk_catch, hpostEvs_mid (Or.inr (by simp))]

theorem hstackEvs_pushParam (host path) (cur : Node) (cm : Nat) (ps : Binds) (st : List Frame) :
    hstackEvs host path ps (pushParam cur cm ps.length st) =
      (match paramChild cur with | some c => hostWalk c c.key (host.drop cm) path ps | none => []) ++ hstackEvs host path ps st := by
  unfold pushParam
  cases paramChild cur with
  | none => rfl
  | some wc => simp [hstackEvs, hframeEvs, List.take_length]

theorem kids_child_wf {cur : Node} (hw : wfKids cur.children = true) {f : Node → Bool} {c : Node}
    (h : cur.children.find? f = some c) : wfNode c = true :=
  mem_wfKids hw (List.mem_of_find?_eq_some h)

theorem hostWalk_nodeEnd {cur : Node} (hnd : nodupB (kindsOf cur.children) = true) (b rest path ps) :
    hostWalk cur [] (b :: rest) path ps =
      hostKids (.static b) cur.children (b :: rest) path ps
      ++ (match paramChild cur with | some c => hostWalk c c.key (b :: rest) path ps | none => []) := by
  rw [hostWalk_nil_cons, hostKids_find hnd .param]; rfl

theorem d08 (host path cur cm pc b R) (hs : hostStaticChild cur b = none) (wc : Node) (hpc : paramChild cur = some wc)
    (ih : Q1 host path wc wc.key cm pc R) : Q2 host path cur cm pc b R := by
  intro hinv ⟨rest, hp⟩
  have hwc := kids_child_wf hinv.kids hpc
  rw [hostNodeEnd_eq, hs, hpc]
  simp only []
  rw [ih (wfNode_hinv hwc hinv.cnt hinv.st), hp, hostWalk_nodeEnd hinv.nodup, hpc]
  -- no static child of the byte `b`
  have : hostKids (.static b) cur.children (b :: rest) path R.params = [] := by
    apply hostKids_none
    intro x hx
    have hwx := mem_wfKids hinv.kids hx
    cases hm : (Sel.static b).matches x.key with
    | false => rfl
    | true =>
      exfalso
      have hf : (firstByte x.key == b) = true := by
        cases hk : x.key with
        | nil => rw [hk] at hm; simp [Sel.matches] at hm
        | cons t k' =>
          rw [hk] at hm
          cases t <;> simp_all [Sel.matches, firstByte]
      unfold hostStaticChild at hs
      have := List.find?_eq_none.mp hs x hx
      simp [hf] at this
  rw [this]; rfl

theorem d09 (host path cur cm pc b R) (hs : hostStaticChild cur b = none) (hpc : paramChild cur = none)
    (ih : Q3 host path cur [] cm R) : Q2 host path cur cm pc b R := by
  intro hinv ⟨rest, hp⟩
  rw [hostNodeEnd_eq, hs, hpc]
  simp only []
  rw [ih hinv.kids hinv.st, hp, hostWalk_nodeEnd hinv.nodup, hpc, hpostEvs_mid (Or.inl (by rw [hp]; simp))]
  have : hostKids (.static b) cur.children (b :: rest) path R.params = [] := by
    apply hostKids_none
    intro x hx
    cases hm : (Sel.static b).matches x.key with
    | false => rfl
    | true =>
      exfalso
      have hf : (firstByte x.key == b) = true := by
        cases hk : x.key with
        | nil => rw [hk] at hm; simp [Sel.matches] at hm
        | cons t k' =>
          rw [hk] at hm
          cases t <;> simp_all [Sel.matches, firstByte]
      unfold hostStaticChild at hs
      have := List.find?_eq_none.mp hs x hx
      simp [hf] at this
  rw [this]; rfl

end Fox.Model

namespace Fox.Model
open Fox Fox.Model.Machine

theorem firstByte_star {k : List Tok} (hk : keyOk k = true) (hne : k ≠ []) :
    (firstByte k == STAR) = Sel.catchAll.matches k := by
  cases k with
  | nil => exact absurd rfl hne
  | cons t k' =>
    cases t with
    | lit c =>
      simp only [keyOk, Bool.and_eq_true, bne_iff_ne] at hk
      simp only [firstByte, Sel.matches]
      simpa using hk.1.1
    | param n => simp only [firstByte, Sel.matches]; decide
    | catchAll n => simp [firstByte, Sel.matches]

theorem hostKids_static_special {cs : List Node} (hw : wfKids cs = true) {b : UInt8} (hb : b = LBR ∨ b = STAR) (host path ps) :
    hostKids (.static b) cs host path ps = [] := by
  apply hostKids_none
  intro x hx
  have hk := wfNode_keyOk' (mem_wfKids hw hx)
  cases hkey : x.key with
  | nil => rfl
  | cons t k' =>
    cases t with
    | lit c =>
      rw [hkey] at hk
      have := keyOk_lit_ne hk
      simp only [Sel.matches]
      rcases hb with hb | hb <;> subst hb
      · simpa using this.2
      · simpa using this.1
    | param n => rfl
    | catchAll n => rfl

/-- a block of events that is the image of a sub-lookup started with no parameters -/
theorem pickC_block (t : Cand) (ps : Binds) (E X : List Ev) :
    pickC t (E.map (Ev.pre ps) ++ X) =
      (match pickC none E with
       | .none => pickC t X
       | .found r sps true => pickC (orTsr t (r, ps ++ sps)) X
       | .found r sps false => .found r (ps ++ sps) false
       | .bad => .bad) := by
  rw [pickC_append, pick_map_pre]
  cases pickC none E with
  | none => rfl
  | bad => rfl
  | found r sps tsr => cases tsr <;> rfl

theorem d10 (host path cur cm pc b R) (sc : Node) (hs : hostStaticChild cur b = some sc)
    (ih : Q1 host path sc sc.key cm pc { skipNds := pushParam cur cm pc R.skipNds, params := R.params, tsr := R.tsr }) :
    Q2 host path cur cm pc b R := by
  intro hinv ⟨rest, hp⟩
  unfold hostStaticChild at hs
  have hsc := kids_child_wf hinv.kids hs
  have hst' : stackOk R.params.length (pushParam cur cm pc R.skipNds) := by
    unfold pushParam
    cases hpc : paramChild cur with
    | none => exact hinv.st
    | some x => exact ⟨by simp [hinv.cnt], kids_child_wf hinv.kids hpc, by rw [hinv.cnt]; exact hinv.st⟩
  rw [hostNodeEnd_eq]
  unfold hostStaticChild
  rw [hs]
  simp only []
  rw [ih (wfNode_hinv hsc hinv.cnt hst'), hp, hostWalk_nodeEnd hinv.nodup]
  simp only [hinv.cnt]
  rw [hstackEvs_pushParam, hp, List.append_assoc]
  by_cases hl : b = LBR
  · subst hl
    have hpc : paramChild cur = some sc := by
      unfold paramChild
      rw [← hs]
      apply find_congr
      intro x hx
      have hwx := mem_wfKids hinv.kids hx
      exact (firstByte_lbr (wfNode_keyOk' hwx) (wfNode_key_ne hwx)).symm
    rw [hostKids_static_special hinv.kids (Or.inl rfl), hpc]
    simp only [List.nil_append]
    exact pickC_dup _ _ _
  · by_cases hstar : b = STAR
    · subst hstar
      have hm : Sel.catchAll.matches sc.key = true := by
        have := List.find?_some hs
        rw [firstByte_star (wfNode_keyOk' hsc) (wfNode_key_ne hsc)] at this
        exact this
      have hempty : hostWalk sc sc.key (STAR :: rest) path R.params = [] := by
        cases hk : sc.key with
        | nil => rw [hk] at hm; simp [Sel.matches] at hm
        | cons t k' =>
          rw [hk] at hm
          cases t with
          | lit c => simp [Sel.matches] at hm
          | param n => simp [Sel.matches] at hm
          | catchAll n => exact hostWalk_catch _ _ _ _ _ _
      rw [hostKids_static_special hinv.kids (Or.inr rfl), hempty]
    · have hfind : cur.children.find? (fun c => (Sel.static b).matches c.key) = some sc := by
        rw [← hs]
        apply find_congr
        intro x hx
        have hwx := mem_wfKids hinv.kids hx
        exact (firstByte_of_kind (wfNode_keyOk' hwx) (wfNode_key_ne hwx) b hl hstar).symm
      rw [hostKids_find hinv.nodup, hfind]

theorem d11 (host path cur k cm R) (hc : ((host.drop cm).isEmpty && k.isEmpty) = true)
    (hf : cur.children.find? (fun c => firstByte c.key == SLASH) = none) (ih : Q4 host path R) : Q3 host path cur k cm R := by
  intro _ hst
  rw [hostAfter_eq, if_pos hc, hf]
  simp only []
  rw [ih hst]
  unfold hpostEvs
  rw [if_pos hc, ← find_slash, hf]
  rfl

theorem hostAfter_found {host path : Bytes} {cur : Node} {k : List Tok} {cm : Nat} {R : Regs}
    (hw : wfKids cur.children = true) (hc : ((host.drop cm).isEmpty && k.isEmpty) = true) {c : Node}
    (hf : cur.children.find? (fun c => firstByte c.key == SLASH) = some c) (X : List Ev) :
    pickC R.tsr (hpostEvs host path cur k cm R.params ++ X) =
      (match lookupByPath c path [] with
       | .none => pickC R.tsr X
       | .found r sps true => pickC (orTsr R.tsr (r, R.params ++ sps)) X
       | .found r sps false => .found r (R.params ++ sps) false
       | .bad => .bad) := by
  have hwc := kids_child_wf hw hf
  unfold hpostEvs
  rw [if_pos hc, ← find_slash, hf]
  simp only []
  have : pathEvents c path R.params = (pathEvents c path []).map (Ev.pre R.params) := by
    unfold pathEvents; exact walk_prefix _ _ _ _ _ _ _
  rw [this, pickC_block, lookupByPath_eq_pick hwc, pickC_none_eq_pick]

theorem d12 (host path cur k cm R) (hc : ((host.drop cm).isEmpty && k.isEmpty) = true) (c : Node)
    (hf : cur.children.find? (fun c => firstByte c.key == SLASH) = some c)
    (hres : lookupByPath c path [] = Result.none) (ih : Q4 host path R) : Q3 host path cur k cm R := by
  intro hw hst
  rw [hostAfter_eq, if_pos hc, hf]
  simp only [hres]
  rw [hostAfter_found hw hc hf, hres, ih hst]

theorem d13 (host path cur k cm R) (hc : ((host.drop cm).isEmpty && k.isEmpty) = true) (c : Node)
    (hf : cur.children.find? (fun c => firstByte c.key == SLASH) = some c) (r : Route) (sps : Binds)
    (hres : lookupByPath c path [] = Result.found r sps true)
    (ih : Q4 host path (setTsr R (some r) (R.params ++ sps))) : Q3 host path cur k cm R := by
  intro hw hst
  rw [hostAfter_eq, if_pos hc, hf]
  simp only [hres]
  rw [hostAfter_found hw hc hf, hres, ih (by simpa using hst), setTsr_tsr]
  simp

theorem d14 (host path cur k cm R) (hc : ((host.drop cm).isEmpty && k.isEmpty) = true) (c : Node)
    (hf : cur.children.find? (fun c => firstByte c.key == SLASH) = some c) (r : Route) (sps : Binds)
    (hres : lookupByPath c path [] = Result.found r sps false) : Q3 host path cur k cm R := by
  intro hw _
  rw [hostAfter_eq, if_pos hc, hf]
  simp only [hres]
  rw [hostAfter_found hw hc hf, hres]

theorem d15 (host path cur k cm R) (hc : ((host.drop cm).isEmpty && k.isEmpty) = true) (c : Node)
    (hf : cur.children.find? (fun c => firstByte c.key == SLASH) = some c)
    (hres : lookupByPath c path [] = Result.bad) : Q3 host path cur k cm R := by
  intro hw _
  rw [hostAfter_eq, if_pos hc, hf]
  simp only [hres]
  rw [hostAfter_found hw hc hf, hres]

theorem d16 (host path cur k cm R) (hc : ¬ ((host.drop cm).isEmpty && k.isEmpty) = true) (ih : Q4 host path R) :
    Q3 host path cur k cm R := by
  intro _ hst
  rw [hostAfter_eq, if_neg hc, ih hst]
  unfold hpostEvs
  rw [if_neg hc]; rfl

theorem d17 (host path R) (h : R.skipNds = []) : Q4 host path R := by
  intro _
  rw [hostBacktrack_nil h, h]; rfl

theorem d19 (host path R) (f : Frame) (st : List Frame) (h : R.skipNds = f :: st)
    (ih : Q1 host path f.child f.child.key f.pathIndex f.paramCnt
      { skipNds := st, params := List.take f.paramCnt R.params, tsr := R.tsr }) : Q4 host path R := by
  intro hst
  rw [h] at hst
  have hlen : (List.take f.paramCnt R.params).length = f.paramCnt := by
    rw [List.length_take]; exact Nat.min_eq_left hst.1
  rw [hostBacktrack_cons h, ih (wfNode_hinv hst.2.1 hlen.symm (by simp only [hlen]; exact hst.2.2)), h]
  rfl

theorem hostMachine_refines_all (host path : Bytes) :
    (∀ cur k cm pc R, Q1 host path cur k cm pc R) ∧
    (∀ cur cm pc b R, Q2 host path cur cm pc b R) ∧
    (∀ cur k cm R, Q3 host path cur k cm R) ∧
    (∀ R, Q4 host path R) := by
  apply hostKeyLoop.mutual_induct false host path (Q1 host path) (Q2 host path) (Q3 host path) (Q4 host path)
  · exact fun cur k cm pc R hp ih => d01 host path cur k cm pc R hp ih
  · exact fun cur cm pc R b rest hp ih => d02 host path cur cm pc R b rest hp ih
  · exact fun cur cm pc R b rest hp c k' hc ih => d03 host path cur cm pc R b rest hp c k' hc ih
  · exact fun cur cm pc R b rest hp c k' hc ih => d04 host path cur cm pc R b rest hp c k' hc ih
  · exact fun cur cm pc R b rest hp nm k' h0 ih => d05 host path cur cm pc R b rest hp nm k' h0 ih
  · exact fun cur cm pc R b rest hp nm k' h0 ih => d06 host path cur cm pc R b rest hp nm k' h0 ih
  · exact fun cur cm pc R b rest hp nm k' ih => d07 host path cur cm pc R b rest hp nm k' ih
  · exact fun cur cm pc b R hs wc hpc ih => d08 host path cur cm pc b R hs wc hpc ih
  · exact fun cur cm pc b R hs hpc ih => d09 host path cur cm pc b R hs hpc ih
  · exact fun cur cm pc b R sc hs ih => d10 host path cur cm pc b R sc hs ih
  · exact fun cur k cm R hc hf ih => d11 host path cur k cm R hc hf ih
  · exact fun cur k cm R hc c hf hres ih => d12 host path cur k cm R hc c hf hres ih
  · exact fun cur k cm R hc c hf r sps hres ih => d13 host path cur k cm R hc c hf r sps hres ih
  · exact fun cur k cm R hc c hf r sps hres => d14 host path cur k cm R hc c hf r sps hres
  · exact fun cur k cm R hc c hf hres => d15 host path cur k cm R hc c hf hres
  · exact fun cur k cm R hc ih => d16 host path cur k cm R hc ih
  · exact fun R h _ _ _ => d17 host path R h
  · exact fun R h _ => d17 host path R h
  · exact fun R f st h ih => d19 host path R f st h ih

/-- **lookupByDomain as the Go code runs it = `pick` of the enumerating hostname walk**, from any root whose children
    are well-formed with distinct kinds, for every non-empty host and every path -/
theorem lookupByDomain_eq_pick {root : Node} (hw : wfKids root.children = true)
    (hd : nodupB (kindsOf root.children) = true) (host path : Bytes) (hne : host ≠ []) :
    Machine.lookupByDomain root host path = pick (hostWalk root [] host path []) := by
  cases host with
  | nil => exact absurd rfl hne
  | cons b rest =>
    unfold Machine.lookupByDomain
    have hinv : HInv root [] 0 {} := ⟨hw, hd, rfl, rfl, trivial⟩
    simp only []
    rw [(hostMachine_refines_all (b :: rest) path).2.1 root 0 0 b {} hinv ⟨rest, rfl⟩, ← pickC_none_eq_pick]
    simp [hstackEvs]

end Fox.Model

namespace Fox.Model
open Fox Fox.Model.Machine

theorem wfRoot_of_methodRoot {rs : Roots} (hw : wfRoots rs = true) {m : Bytes} {root : Node}
    (h : methodRoot rs m = some root) : wfRoot root = true := by
  unfold methodRoot at h
  cases hf : rs.find? (fun x => x.1 == m) with
  | none => rw [hf] at h; cases h
  | some x =>
    rw [hf] at h
    simp only [Option.map_some, Option.some.injEq] at h
    subst h
    have hmem := List.mem_of_find?_eq_some hf
    simp only [wfRoots, Bool.and_eq_true, List.all_eq_true] at hw
    exact hw.1 x hmem

/-- **`roots.lookup` as the Go code runs it = the model the routing theorems are about**: on every well-formed forest
    (in particular after any history of Handle/Update/Delete/Truncate, `Fox.C02.C02_reachable_wf`), for every method,
    Host header and path, the state machines of lookupByDomain / lookupByPath with the staging of `roots.lookup`
    return exactly `Model.lookup`. -/
theorem machine_lookup_eq {rs : Roots} (hw : wfRoots rs = true) (m hostPort path : Bytes) :
    Machine.lookup rs m hostPort path = Model.lookup rs m hostPort path := by
  unfold Machine.lookup Model.lookup
  cases hr : methodRoot rs m with
  | none => rfl
  | some root =>
    have hroot := wfRoot_of_methodRoot hw hr
    simp only [wfRoot, Bool.and_eq_true] at hroot
    have hkids := hroot.2
    have hnd := hroot.1.2
    simp only []
    cases hcs : root.children with
    | nil => rfl
    | cons c0 cs =>
      simp only []
      rw [hcs] at hkids hnd
      have hpath : ∀ c, c ∈ c0 :: cs → Machine.lookupByPath c path [] = pick (pathEvents c path []) :=
        fun c hc => lookupByPath_eq_pick (mem_wfKids hkids hc) path []
      have hfind : (c0 :: cs).find? (fun c => firstByte c.key == SLASH) = (c0 :: cs).find? (fun c => startsWithSlash c.key) :=
        find_slash _
      have hbyPath : (match (c0 :: cs).find? (fun c => firstByte c.key == SLASH) with
            | some c => Machine.lookupByPath c path []
            | none => Result.none)
          = (match (c0 :: cs).find? (fun c => startsWithSlash c.key) with
            | some c => pick (pathEvents c path [])
            | none => Result.none) := by
        rw [hfind]
        cases hf : (c0 :: cs).find? (fun c => startsWithSlash c.key) with
        | none => rfl
        | some c => exact hpath c (List.mem_of_find?_eq_some hf)
      by_cases hone : (cs.isEmpty && firstByte c0.key == SLASH) = true
      · rw [if_pos hone]
        simp only [Bool.and_eq_true, List.isEmpty_iff] at hone
        obtain ⟨hcs', hsl⟩ := hone
        subst hcs'
        have hs : startsWithSlash c0.key = true := by rw [← firstByte_slash]; exact hsl
        simp only [List.find?_cons, hs, List.length_cons, List.length_nil, Nat.zero_add, beq_self_eq_true, Option.isSome_some,
          Bool.and_self, if_true]
        exact hpath c0 (by simp)
      · rw [if_neg hone]
        have hcond : ((c0 :: cs).length == 1 && ((c0 :: cs).find? (fun c => startsWithSlash c.key)).isSome) = false := by
          cases cs with
          | nil =>
            simp only [List.isEmpty_nil, Bool.true_and] at hone
            have : startsWithSlash c0.key = false := by
              rw [← firstByte_slash]; simpa using hone
            simp [List.find?_cons, this]
          | cons x xs => simp
        rw [hcond]
        simp only [Bool.false_eq_true, if_false]
        have hhost : (if (Spec.stripHostPort hostPort).isEmpty then Result.none
              else Machine.lookupByDomain root (Spec.stripHostPort hostPort) path)
            = (if Spec.stripHostPort hostPort == [] then Result.none
              else pick (hostWalk root [] (Spec.stripHostPort hostPort) path [])) := by
          rw [beq_nil_isEmpty]
          cases hh : (Spec.stripHostPort hostPort).isEmpty with
          | true => rfl
          | false =>
            simp only [Bool.false_eq_true, if_false]
            apply lookupByDomain_eq_pick (by rw [hcs]; exact hkids) (by rw [hcs]; exact hnd)
            intro h; rw [h] at hh; cases hh
        rw [hhost]
        generalize (if Spec.stripHostPort hostPort == [] then Result.none
              else pick (hostWalk root [] (Spec.stripHostPort hostPort) path [])) = bh
        cases bh with
        | none => exact hbyPath
        | found r ps tsr => rfl
        | bad => rfl

end Fox.Model
