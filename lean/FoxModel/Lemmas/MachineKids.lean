import FoxModel.Lemmas.MachineBasics
/-
  Child selection of the state machine (`staticChild`, `paramChild`, `wildChild`: the linear search over `childKeys`
  and the two precomputed indices) versus the enumeration of the children by kind in the walk, on nodes whose
  children have distinct kinds and well-formed keys.
-/
namespace Fox.Model
open Fox Fox.Model.Machine

theorem firstByte_slash (k : List Tok) : (firstByte k == SLASH) = startsWithSlash k := by
  cases k with
  | nil => decide
  | cons t k' =>
    cases t with
    | lit b => rfl
    | param n => simp only [firstByte, startsWithSlash]; decide
    | catchAll n => simp only [firstByte, startsWithSlash]; decide

theorem walkKids_none {cs : List Node} {sel : Sel} (h : ∀ x ∈ cs, sel.matches x.key = false) (pr es path ps) :
    walkKids sel cs pr es path ps = [] := by
  induction cs with
  | nil => exact walkKids_nil _ _ _ _ _
  | cons c cs ih =>
    rw [walkKids_cons, h c (by simp), ih (fun x hx => h x (List.mem_cons_of_mem _ hx))]
    rfl

/-- with distinct kinds, the children selected by a kind are the first (and only) child of that kind -/
theorem walkKids_find {cs : List Node} (hd : nodupB (kindsOf cs) = true) (sel : Sel) (pr es path ps) :
    walkKids sel cs pr es path ps =
      (match cs.find? (fun c => sel.matches c.key) with
       | some c => walk c [] c.key pr es path ps
       | none => []) := by
  induction cs with
  | nil => rw [walkKids_nil]; rfl
  | cons c cs ih =>
    rw [walkKids_cons]
    cases hm : sel.matches c.key with
    | true =>
      have hk := (sel_matches_iff _ _).mp hm
      have hn := walkKids_none (fun x hx => matches_false (nodup_others hd hk x hx)) pr es path ps
      rw [hn]
      simp [List.find?_cons, hm]
    | false =>
      rw [ih (nodup_tail hd)]
      simp [List.find?_cons, hm]

/-- first byte of a well-formed key versus its kind -/
theorem firstByte_of_kind {k : List Tok} (hk : keyOk k = true) (hne : k ≠ []) (b : UInt8) (hb : b ≠ LBR) (hs : b ≠ STAR) :
    (firstByte k == b) = (Sel.static b).matches k := by
  cases k with
  | nil => exact absurd rfl hne
  | cons t k' =>
    cases t with
    | lit c => simp [firstByte, Sel.matches]
    | param n =>
      simp only [firstByte, Sel.matches]
      have : (LBR == b) = false := by simpa using (fun h : LBR = b => hb h.symm)
      exact this
    | catchAll n =>
      simp only [firstByte, Sel.matches]
      have : (STAR == b) = false := by simpa using (fun h : STAR = b => hs h.symm)
      exact this

theorem firstByte_lbr {k : List Tok} (hk : keyOk k = true) (hne : k ≠ []) :
    (firstByte k == LBR) = Sel.param.matches k := by
  cases k with
  | nil => exact absurd rfl hne
  | cons t k' =>
    cases t with
    | lit c =>
      simp only [keyOk, Bool.and_eq_true, bne_iff_ne] at hk
      simp only [firstByte, Sel.matches]
      simpa using hk.1.2
    | param n => simp [firstByte, Sel.matches]
    | catchAll n => simp only [firstByte, Sel.matches]; decide

theorem wfNode_key_ne {c : Node} (h : wfNode c = true) : c.key ≠ [] := by
  cases c with
  | mk k r cs =>
    intro hk
    simp only [Node.key] at hk
    subst hk
    simp [wfNode] at h

theorem wfNode_keyOk' {c : Node} (h : wfNode c = true) : keyOk c.key = true := by
  cases c with
  | mk k r cs => exact wfNode_keyOk h

theorem find_congr {α} {f g : α → Bool} {l : List α} (h : ∀ x ∈ l, f x = g x) : l.find? f = l.find? g := by
  induction l with
  | nil => rfl
  | cons x xs ih =>
    simp only [List.find?_cons, h x (by simp)]
    rw [ih (fun y hy => h y (List.mem_cons_of_mem _ hy))]

/-- the static search for a byte that is neither '{' nor '*' finds the static child of that byte -/
theorem staticChild_static {n : Node} (hw : wfKids n.children = true) {b : UInt8} (hb : b ≠ LBR) (hs : b ≠ STAR) :
    staticChild n b = n.children.find? (fun c => (Sel.static b).matches c.key) := by
  unfold staticChild
  have : (b == STAR) = false := by simpa using hs
  rw [this]
  simp only [Bool.false_eq_true, if_false]
  apply find_congr
  intro x hx
  have hwx := mem_wfKids hw hx
  exact firstByte_of_kind (wfNode_keyOk' hwx) (wfNode_key_ne hwx) b hb hs

/-- for a path byte '{' the "static" search lands on the param child -/
theorem staticChild_lbr {n : Node} (hw : wfKids n.children = true) : staticChild n LBR = paramChild n := by
  unfold staticChild paramChild
  have : (LBR == STAR) = false := by decide
  rw [this]
  simp only [Bool.false_eq_true, if_false]
  apply find_congr
  intro x hx
  have hwx := mem_wfKids hw hx
  exact firstByte_lbr (wfNode_keyOk' hwx) (wfNode_key_ne hwx)

theorem staticChild_star (n : Node) : staticChild n STAR = none := by
  unfold staticChild; simp

/-- no child is selected as static for the bytes '{' and '*' in the walk -/
theorem walkKids_static_lbr {cs : List Node} (hw : wfKids cs = true) (pr es path ps) :
    walkKids (.static LBR) cs pr es path ps = [] := by
  apply walkKids_none
  intro x hx
  have hwx := mem_wfKids hw hx
  have hk := wfNode_keyOk' hwx
  cases hkey : x.key with
  | nil => rfl
  | cons t k' =>
    cases t with
    | lit c =>
      rw [hkey] at hk
      simp only [keyOk, Bool.and_eq_true, bne_iff_ne] at hk
      simp only [Sel.matches]
      simpa using hk.1.2
    | param n => rfl
    | catchAll n => rfl

end Fox.Model
