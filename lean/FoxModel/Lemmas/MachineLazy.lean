import FoxModel.Lemmas.MachineHost
/-
  The `lazy` flag of the matcher (Reverse, Iter.Reverse, Txn.Reverse, the Allow-header loops of ServeHTTP): a lazy lookup
  takes exactly the control flow of the recording one - same route, same trailing-slash flag - and records nothing.
-/
namespace Fox.Model
open Fox Fox.Model.Machine

/-! ### unfolding the machine, one control-flow edge per lemma -/

theorem keyLoop_end' {lz : Bool} {p : Bytes} {cm : Nat} (hp : p.drop cm = []) (cur pre k parent pc R) :
    keyLoop lz p cur pre k parent cm pc R = afterLoop lz p cur pre k parent cm R := by
  rw [keyLoop]; split
  · rfl
  · rename_i b rest h; rw [hp] at h; cases h

theorem keyLoop_keyEnd' {lz : Bool} {p : Bytes} {cm : Nat} {b : UInt8} {rest : Bytes} (hp : p.drop cm = b :: rest) (cur pre parent pc R) :
    keyLoop lz p cur pre [] parent cm pc R = nodeEnd lz p cur pre parent cm pc b rest R := by
  rw [keyLoop]; split
  · rename_i h; rw [hp] at h; cases h
  · rename_i b' rest' h; rw [hp] at h; cases h; rfl

theorem keyLoop_lit' {lz : Bool} {p : Bytes} {cm : Nat} {b : UInt8} {rest : Bytes} (hp : p.drop cm = b :: rest) (cur pre c k' parent pc R) :
    keyLoop lz p cur pre (.lit c :: k') parent cm pc R =
      if c = b ∧ b ≠ LBR ∧ b ≠ STAR then keyLoop lz p cur (pre ++ [.lit c]) k' parent (cm + 1) pc R
      else afterLoop lz p cur pre (.lit c :: k') parent cm R := by
  rw [keyLoop]; split
  · rename_i h; rw [hp] at h; cases h
  · rename_i b' rest' h; rw [hp] at h; cases h; rfl

theorem keyLoop_param' {lz : Bool} {p : Bytes} {cm : Nat} {b : UInt8} {rest : Bytes} (hp : p.drop cm = b :: rest) (cur pre nm k' parent pc R) :
    keyLoop lz p cur pre (.param nm :: k') parent cm pc R =
      if segEnd SLASH (b :: rest) = 0 then afterLoop lz p cur pre (.param nm :: k') parent cm R
      else keyLoop lz p cur (pre ++ [.param nm]) k' parent (cm + segEnd SLASH (b :: rest)) (inc lz pc)
          { R with params := rec lz R.params [(nm, (b :: rest).take (segEnd SLASH (b :: rest)))] } := by
  rw [keyLoop]; split
  · rename_i h; rw [hp] at h; cases h
  · rename_i b' rest' h; rw [hp] at h; cases h; rfl

theorem keyLoop_catch_leaf' {lz : Bool} {p : Bytes} {cm : Nat} {b : UInt8} {rest : Bytes} (hp : p.drop cm = b :: rest) {cur : Node}
    (hcs : cur.children = []) (pre nm parent pc R) :
    keyLoop lz p cur pre [.catchAll nm] parent cm pc R = ret cur.route (rec lz R.params [(nm, b :: rest)]) := by
  rw [keyLoop]; split
  · rename_i h; rw [hp] at h; cases h
  · rename_i b' rest' h; rw [hp] at h; cases h; simp only [hcs]

theorem keyLoop_catch_child' {lz : Bool} {p : Bytes} {cm : Nat} {b : UInt8} {rest : Bytes} (hp : p.drop cm = b :: rest) {cur c : Node}
    {tail : List Node} (hcs : cur.children = c :: tail) (pre nm parent pc R) :
    keyLoop lz p cur pre [.catchAll nm] parent cm pc R = infixLoop lz p cur (pre ++ [.catchAll nm]) [] nm parent c cm cm R := by
  rw [keyLoop]; split
  · rename_i h; rw [hp] at h; cases h
  · rename_i b' rest' h; rw [hp] at h; cases h; simp only [hcs]

theorem keyLoop_catch_infix' {lz : Bool} {p : Bytes} {cm : Nat} {b : UInt8} {rest : Bytes} (hp : p.drop cm = b :: rest)
    (cur pre nm t k'' parent pc R) :
    keyLoop lz p cur pre (.catchAll nm :: t :: k'') parent cm pc R =
      infixLoop lz p cur (pre ++ [.catchAll nm]) (t :: k'') nm parent (.mk (t :: k'') cur.route cur.children) cm cm R := by
  rw [keyLoop]; split
  · rename_i h; rw [hp] at h; cases h
  · rfl

theorem afterLoop_eq' {lz : Bool} (p cur pre k parent cm R) :
    afterLoop lz p cur pre k parent cm R =
      if cur.isLeaf && (p.drop cm).isEmpty && k.isEmpty then ret cur.route R.params
      else backtrack lz p (postTsr p cur pre k parent cm R) := by
  rw [afterLoop]

theorem backtrack_nil' {lz : Bool} {R : Regs} (h : R.skipNds = []) (p) : backtrack lz p R = fin R.tsr := by
  rw [backtrack]; split
  · cases ht : R.tsr with
    | none => rfl
    | some x => cases x; rfl
  · rename_i f st h'; rw [h] at h'; cases h'

theorem backtrack_cons' {lz : Bool} {R : Regs} {f : Frame} {st : List Frame} (h : R.skipNds = f :: st) (p) :
    backtrack lz p R = keyLoop lz p f.child [] f.child.key (some f.n) f.pathIndex f.paramCnt
      { R with skipNds := st, params := R.params.take f.paramCnt } := by
  rw [backtrack]; split
  · rename_i h'; rw [h] at h'; cases h'
  · rename_i f' st' h'; rw [h] at h'; cases h'; rfl

theorem infixTail_eq' {lz : Bool} (p cur pre k' nm parent startPath cm R) :
    infixTail lz p cur pre k' nm parent startPath cm R =
      if k' = [] then ret cur.route (rec lz R.params [(nm, p.drop startPath)])
      else if (p.drop startPath).head? = some SLASH then
        afterLoop lz p cur pre k' parent cm { R with params := rec lz R.params [(nm, p.drop startPath)] }
      else afterLoop lz p cur pre k' parent p.length { R with params := rec lz R.params [(nm, p.drop startPath)] } := by
  rw [infixTail]

theorem infixLoop_end' {lz : Bool} {p : Bytes} {cm : Nat} (hp : p.drop cm = []) (cur pre k' nm parent inode startPath R) :
    infixLoop lz p cur pre k' nm parent inode startPath cm R = infixTail lz p cur pre k' nm parent startPath cm R := by
  rw [infixLoop]; split
  · rfl
  · rename_i b rest h; rw [hp] at h; cases h

theorem infixLoop_step' {lz : Bool} {p : Bytes} {cm : Nat} {b : UInt8} {rest : Bytes} (hp : p.drop cm = b :: rest)
    (cur pre k' nm parent inode startPath R) :
    infixLoop lz p cur pre k' nm parent inode startPath cm R =
      if 0 < segEnd SLASH (b :: rest) ∧ segEnd SLASH (b :: rest) < (b :: rest).length then
        match keyLoop false (p.drop (cm + segEnd SLASH (b :: rest))) inode [] inode.key none 0 0 {} with
        | .none => infixLoop lz p cur pre k' nm parent inode startPath (cm + segEnd SLASH (b :: rest) + 1) R
        | .found r sps true =>
          infixLoop lz p cur pre k' nm parent inode startPath (cm + segEnd SLASH (b :: rest) + 1)
            (setTsr R (some r) (rec lz (rec lz R.params [(nm, (p.drop startPath).take (cm + segEnd SLASH (b :: rest) - startPath))]) sps))
        | .found r sps false =>
          .found r (rec lz (rec lz R.params [(nm, (p.drop startPath).take (cm + segEnd SLASH (b :: rest) - startPath))]) sps) false
        | .bad => .bad
      else infixTail lz p cur pre k' nm parent startPath cm R := by
  rw [infixLoop]; split
  · rename_i h; rw [hp] at h; cases h
  · rename_i b' rest' h; rw [hp] at h; cases h; rfl

theorem nodeEnd_eq' {lz : Bool} (p cur pre parent cm pc b rest R) :
    nodeEnd lz p cur pre parent cm pc b rest R =
      (match staticChild cur b with
       | none =>
         (match paramChild cur with
          | some pc' => keyLoop lz p pc' [] pc'.key (some cur) cm pc
              { earlyTsr cur cm b rest R with skipNds := pushWild cur cm pc (earlyTsr cur cm b rest R).skipNds }
          | none =>
            (match wildChild cur with
             | some wc => keyLoop lz p wc [] wc.key (some cur) cm pc (earlyTsr cur cm b rest R)
             | none => afterLoop lz p cur pre [] parent cm (earlyTsr cur cm b rest R)))
       | some sc => keyLoop lz p sc [] sc.key (some cur) cm pc
           { earlyTsr cur cm b rest R with
             skipNds := pushParam cur cm pc (pushWild cur cm pc (earlyTsr cur cm b rest R).skipNds) }) := by
  rw [nodeEnd]
  split
  · rename_i hs; rw [hs]; simp only []
    split
    · rename_i pc' hpc; rw [hpc]
    · rename_i hpc; rw [hpc]; simp only []
      split
      · rename_i wc hwc; rw [hwc]
      · rename_i hwc; rw [hwc]
  · rename_i sc hs; rw [hs]



/-! ### lazy and recording lookups take the same control flow -/

/-- a result without its parameters -/
def forget : Result → Result
  | .found r _ t => .found r [] t
  | x => x

def eraseF (f : Frame) : Frame := { f with paramCnt := 0 }

/-- two register files that differ only in what concerns the recorded parameters -/
def LSim (R R' : Regs) : Prop :=
  R.skipNds.map eraseF = R'.skipNds.map eraseF ∧ R.tsr.map (·.1) = R'.tsr.map (·.1)

theorem forget_ret (o : Option Route) (a b : Binds) : forget (ret o a) = forget (ret o b) := by
  cases o <;> rfl

theorem sim_setTsr {R R' : Regs} (hs : LSim R R') (o : Option Route) (a b : Binds) : LSim (setTsr R o a) (setTsr R' o b) := by
  refine ⟨by simpa using hs.1, ?_⟩
  rw [setTsr_tsr, setTsr_tsr]
  have h2 := hs.2
  cases o with
  | none => exact h2
  | some r =>
    cases h : R.tsr <;> cases h' : R'.tsr <;> simp_all [orTsr]

theorem sim_params {R R' : Regs} (hs : LSim R R') (a b : Binds) :
    LSim { R with params := a } { R' with params := b } := ⟨hs.1, hs.2⟩

theorem sim_fin {R R' : Regs} (hs : LSim R R') : forget (fin R.tsr) = forget (fin R'.tsr) := by
  have h2 := hs.2
  cases h : R.tsr with
  | none =>
    cases h' : R'.tsr with
    | none => rfl
    | some y => simp [h, h'] at h2
  | some x =>
    cases h' : R'.tsr with
    | none => simp [h, h'] at h2
    | some y =>
      obtain ⟨r, ps⟩ := x
      obtain ⟨r', ps'⟩ := y
      simp [h, h'] at h2
      subst h2; rfl

theorem map_erase_pushWild (cur : Node) (cm a b : Nat) {st st' : List Frame} (h : st.map eraseF = st'.map eraseF) :
    (pushWild cur cm a st).map eraseF = (pushWild cur cm b st').map eraseF := by
  unfold pushWild
  cases wildChild cur with
  | none => exact h
  | some wc => simp [eraseF, h]

theorem map_erase_pushParam (cur : Node) (cm a b : Nat) {st st' : List Frame} (h : st.map eraseF = st'.map eraseF) :
    (pushParam cur cm a st).map eraseF = (pushParam cur cm b st').map eraseF := by
  unfold pushParam
  cases paramChild cur with
  | none => exact h
  | some wc => simp [eraseF, h]

def L1 (lz : Bool) (p : Bytes) (cur : Node) (pre k : List Tok) (parent : Option Node) (cm pc : Nat) (R : Regs) : Prop :=
  lz = true → ∀ pc' R', LSim R R' →
    forget (keyLoop true p cur pre k parent cm pc R) = forget (keyLoop false p cur pre k parent cm pc' R')
def L2 (lz : Bool) (p : Bytes) (cur : Node) (pre k' : List Tok) (nm : Bytes) (parent : Option Node) (inode : Node)
    (startPath cm : Nat) (R : Regs) : Prop :=
  lz = true → ∀ R', LSim R R' →
    forget (infixLoop true p cur pre k' nm parent inode startPath cm R)
      = forget (infixLoop false p cur pre k' nm parent inode startPath cm R')
def L3 (lz : Bool) (p : Bytes) (cur : Node) (pre k' : List Tok) (nm : Bytes) (parent : Option Node)
    (startPath cm : Nat) (R : Regs) : Prop :=
  lz = true → ∀ R', LSim R R' →
    forget (infixTail true p cur pre k' nm parent startPath cm R) = forget (infixTail false p cur pre k' nm parent startPath cm R')
def L4 (lz : Bool) (p : Bytes) (cur : Node) (pre k : List Tok) (parent : Option Node) (cm : Nat) (R : Regs) : Prop :=
  lz = true → ∀ R', LSim R R' →
    forget (afterLoop true p cur pre k parent cm R) = forget (afterLoop false p cur pre k parent cm R')
def L5 (lz : Bool) (p : Bytes) (R : Regs) : Prop :=
  lz = true → ∀ R', LSim R R' → forget (backtrack true p R) = forget (backtrack false p R')
def L6 (lz : Bool) (p : Bytes) (cur : Node) (pre : List Tok) (parent : Option Node) (cm pc : Nat) (b : UInt8) (rest : Bytes)
    (R : Regs) : Prop :=
  lz = true → ∀ pc' R', LSim R R' →
    forget (nodeEnd true p cur pre parent cm pc b rest R) = forget (nodeEnd false p cur pre parent cm pc' b rest R')

theorem sim_nil {R R' : Regs} (hs : LSim R R') (h : R.skipNds = []) : R'.skipNds = [] := by
  have := hs.1; rw [h] at this
  cases h' : R'.skipNds with
  | nil => rfl
  | cons f st => rw [h'] at this; simp at this

theorem sim_cons {R R' : Regs} (hs : LSim R R') {f : Frame} {st : List Frame} (h : R.skipNds = f :: st) :
    ∃ f' st', R'.skipNds = f' :: st' ∧ f'.n = f.n ∧ f'.child = f.child ∧ f'.pathIndex = f.pathIndex ∧
      st.map eraseF = st'.map eraseF := by
  have := hs.1; rw [h] at this
  cases h' : R'.skipNds with
  | nil => rw [h'] at this; simp at this
  | cons f' st' =>
    rw [h'] at this
    simp only [List.map_cons, List.cons.injEq] at this
    refine ⟨f', st', rfl, ?_, ?_, ?_, this.2⟩
    · have := congrArg Frame.n this.1; simpa [eraseF] using this.symm
    · have := congrArg Frame.child this.1; simpa [eraseF] using this.symm
    · have := congrArg Frame.pathIndex this.1; simpa [eraseF] using this.symm

/-- a lazy lookup and a recording one walk the tree in lock step -/
theorem lazy_sim_all :
    (∀ lz p cur pre k parent cm pc R, L1 lz p cur pre k parent cm pc R) ∧
    (∀ lz p cur pre k' nm parent inode startPath cm R, L2 lz p cur pre k' nm parent inode startPath cm R) ∧
    (∀ lz p cur pre k' nm parent startPath cm R, L3 lz p cur pre k' nm parent startPath cm R) ∧
    (∀ lz p cur pre k parent cm R, L4 lz p cur pre k parent cm R) ∧
    (∀ lz p R, L5 lz p R) ∧
    (∀ lz p cur pre parent cm pc b rest R, L6 lz p cur pre parent cm pc b rest R) := by
  apply keyLoop.mutual_induct L1 L2 L3 L4 L5 L6
  · intro lz p cur pre k parent cm pc R hp ih hlz pc' R' hs; subst hlz
    rw [keyLoop_end' hp, keyLoop_end' hp]; exact ih rfl R' hs
  · intro lz p cur pre parent cm pc R b rest hp ih hlz pc' R' hs; subst hlz
    rw [keyLoop_keyEnd' hp, keyLoop_keyEnd' hp]; exact ih rfl pc' R' hs
  · intro lz p cur pre parent cm pc R b rest hp c k' hc ih hlz pc' R' hs; subst hlz
    rw [keyLoop_lit' hp, keyLoop_lit' hp, if_pos hc, if_pos hc]; exact ih rfl pc' R' hs
  · intro lz p cur pre parent cm pc R b rest hp c k' hc ih hlz pc' R' hs; subst hlz
    rw [keyLoop_lit' hp, keyLoop_lit' hp, if_neg hc, if_neg hc]; exact ih rfl R' hs
  · intro lz p cur pre parent cm pc R b rest hp nm k' h0 ih hlz pc' R' hs; subst hlz
    rw [keyLoop_param' hp, keyLoop_param' hp, if_pos h0, if_pos h0]; exact ih rfl R' hs
  · intro lz p cur pre parent cm pc R b rest hp nm k' h0 ih hlz pc' R' hs; subst hlz
    rw [keyLoop_param' hp, keyLoop_param' hp, if_neg h0, if_neg h0]
    exact ih rfl _ _ (sim_params hs _ _)
  · intro lz p cur pre parent cm pc R b rest hp nm hcs hlz pc' R' hs; subst hlz
    rw [keyLoop_catch_leaf' hp hcs, keyLoop_catch_leaf' hp hcs]; exact forget_ret _ _ _
  · intro lz p cur pre parent cm pc R b rest hp nm c tail hcs ih hlz pc' R' hs; subst hlz
    rw [keyLoop_catch_child' hp hcs, keyLoop_catch_child' hp hcs]; exact ih rfl R' hs
  · intro lz p cur pre parent cm pc R b rest hp nm t k'' ih hlz pc' R' hs; subst hlz
    rw [keyLoop_catch_infix' hp, keyLoop_catch_infix' hp]; exact ih rfl R' hs
  · intro lz p cur pre k' nm parent inode startPath cm R hp ih hlz R' hs; subst hlz
    rw [infixLoop_end' hp, infixLoop_end' hp]; exact ih rfl R' hs
  · intro lz p cur pre k' nm parent inode startPath cm R b rest hp hidx hres _ ih2 hlz R' hs; subst hlz
    rw [infixLoop_step' hp, infixLoop_step' hp, if_pos hidx, if_pos hidx]
    simp only [hres]
    exact ih2 rfl R' hs
  · intro lz p cur pre k' nm parent inode startPath cm R b rest hp hidx r sps hres _ ih2 hlz R' hs; subst hlz
    rw [infixLoop_step' hp, infixLoop_step' hp, if_pos hidx, if_pos hidx]
    simp only [hres]
    exact ih2 rfl _ (sim_setTsr hs _ _ _)
  · intro lz p cur pre k' nm parent inode startPath cm R b rest hp hidx r sps hres _ hlz R' hs; subst hlz
    rw [infixLoop_step' hp, infixLoop_step' hp, if_pos hidx, if_pos hidx]
    simp only [hres]
    rfl
  · intro lz p cur pre k' nm parent inode startPath cm R b rest hp hidx hres _ hlz R' hs; subst hlz
    rw [infixLoop_step' hp, infixLoop_step' hp, if_pos hidx, if_pos hidx]
    simp only [hres]
  · intro lz p cur pre k' nm parent inode startPath cm R b rest hp hc ih hlz R' hs; subst hlz
    rw [infixLoop_step' hp, infixLoop_step' hp, if_neg hc, if_neg hc]; exact ih rfl R' hs
  · intro lz p cur pre nm parent startPath cm R hlz R' hs; subst hlz
    rw [infixTail_eq', infixTail_eq', if_pos rfl, if_pos rfl]; exact forget_ret _ _ _
  · intro lz p cur pre k' nm parent startPath cm R hk hh ih hlz R' hs; subst hlz
    rw [infixTail_eq', infixTail_eq', if_neg hk, if_neg hk, if_pos hh, if_pos hh]
    exact ih rfl _ (sim_params hs _ _)
  · intro lz p cur pre k' nm parent startPath cm R hk hh ih hlz R' hs; subst hlz
    rw [infixTail_eq', infixTail_eq', if_neg hk, if_neg hk, if_neg hh, if_neg hh]
    exact ih rfl _ (sim_params hs _ _)
  · intro lz p cur pre k parent cm R h hlz R' hs; subst hlz
    rw [afterLoop_eq', afterLoop_eq', if_pos h, if_pos h]; exact forget_ret _ _ _
  · intro lz p cur pre k parent cm R h ih hlz R' hs; subst hlz
    rw [afterLoop_eq', afterLoop_eq', if_neg h, if_neg h]
    exact ih rfl _ (sim_setTsr hs _ _ _)
  · intro lz p R h r ps ht hlz R' hs; subst hlz
    rw [backtrack_nil' h, backtrack_nil' (sim_nil hs h)]; exact sim_fin hs
  · intro lz p R h ht hlz R' hs; subst hlz
    rw [backtrack_nil' h, backtrack_nil' (sim_nil hs h)]; exact sim_fin hs
  · intro lz p R f st h ih hlz R' hs; subst hlz
    obtain ⟨f', st', h', hn, hc, hpi, hst⟩ := sim_cons hs h
    rw [backtrack_cons' h, backtrack_cons' h', hn, hc, hpi]
    exact ih rfl _ _ ⟨hst, hs.2⟩
  · intro lz p cur pre parent cm pc b rest R; dsimp only; intro hs wc hpc ih hlz pc' R' hsim; subst hlz
    rw [nodeEnd_eq', nodeEnd_eq', hs, hpc]
    simp only []
    have he := sim_setTsr hsim (earlyCand cur cm b rest) R.params R'.params
    exact ih rfl pc' _ ⟨map_erase_pushWild cur cm pc pc' he.1, he.2⟩
  · intro lz p cur pre parent cm pc b rest R; dsimp only; intro hs hpc wc hwc ih hlz pc' R' hsim; subst hlz
    rw [nodeEnd_eq', nodeEnd_eq', hs, hpc, hwc]
    simp only []
    exact ih rfl pc' _ (sim_setTsr hsim _ _ _)
  · intro lz p cur pre parent cm pc b rest R; dsimp only; intro hs hpc hwc ih hlz pc' R' hsim; subst hlz
    rw [nodeEnd_eq', nodeEnd_eq', hs, hpc, hwc]
    simp only []
    exact ih rfl _ (sim_setTsr hsim _ _ _)
  · intro lz p cur pre parent cm pc b rest R; dsimp only; intro sc hs ih hlz pc' R' hsim; subst hlz
    rw [nodeEnd_eq', nodeEnd_eq', hs]
    simp only []
    have he := sim_setTsr hsim (earlyCand cur cm b rest) R.params R'.params
    exact ih rfl pc' _ ⟨map_erase_pushParam cur cm pc pc' (map_erase_pushWild cur cm pc pc' he.1), he.2⟩

/-- **Reverse, Iter.Reverse and the Allow-header loops select what ServeHTTP and Lookup select**: on any node, for any
    path, the lazy run of lookupByPath returns the route and the trailing-slash flag of the recording run. -/
theorem lookupByPath_lazy (target : Node) (path : Bytes) :
    forget (Machine.lookupByPath target path [] true) = forget (Machine.lookupByPath target path [] false) := by
  unfold Machine.lookupByPath
  exact lazy_sim_all.1 true path target [] target.key none 0 _ _ rfl _ _ ⟨rfl, rfl⟩

/-! ### unfolding the hostname machine -/

theorem hostKeyLoop_end' {lz : Bool} {host : Bytes} {cm : Nat} (hp : host.drop cm = []) (path cur k pc R) :
    hostKeyLoop lz host path cur k cm pc R = hostAfter lz host path cur k cm R := by
  rw [hostKeyLoop]; simp only [hp]

theorem hostKeyLoop_keyEnd' {lz : Bool} {host : Bytes} {cm : Nat} {b : UInt8} {rest : Bytes} (hp : host.drop cm = b :: rest) (path cur pc R) :
    hostKeyLoop lz host path cur [] cm pc R = hostNodeEnd lz host path cur cm pc b R := by
  rw [hostKeyLoop]; simp only [hp]

theorem hostKeyLoop_lit' {lz : Bool} {host : Bytes} {cm : Nat} {b : UInt8} {rest : Bytes} (hp : host.drop cm = b :: rest) (path cur c k' pc R) :
    hostKeyLoop lz host path cur (.lit c :: k') cm pc R =
      if c = b ∧ b ≠ LBR then hostKeyLoop lz host path cur k' (cm + 1) pc R
      else hostAfter lz host path cur (.lit c :: k') cm R := by
  rw [hostKeyLoop]; simp only [hp]

theorem hostKeyLoop_param' {lz : Bool} {host : Bytes} {cm : Nat} {b : UInt8} {rest : Bytes} (hp : host.drop cm = b :: rest) (path cur nm k' pc R) :
    hostKeyLoop lz host path cur (.param nm :: k') cm pc R =
      if segEnd DOT (b :: rest) = 0 then hostAfter lz host path cur (.param nm :: k') cm R
      else hostKeyLoop lz host path cur k' (cm + segEnd DOT (b :: rest)) (inc lz pc)
        { R with params := rec lz R.params [(nm, (b :: rest).take (segEnd DOT (b :: rest)))] } := by
  rw [hostKeyLoop]; simp only [hp]

theorem hostKeyLoop_catch' {lz : Bool} {host : Bytes} {cm : Nat} {b : UInt8} {rest : Bytes} (hp : host.drop cm = b :: rest) (path cur nm k' pc R) :
    hostKeyLoop lz host path cur (.catchAll nm :: k') cm pc R = hostAfter lz host path cur (.catchAll nm :: k') cm R := by
  rw [hostKeyLoop]; simp only [hp]

theorem hostNodeEnd_eq' {lz : Bool} (host path cur cm pc b R) :
    hostNodeEnd lz host path cur cm pc b R =
      (match hostStaticChild cur b with
       | none =>
         (match paramChild cur with
          | some pc' => hostKeyLoop lz host path pc' pc'.key cm pc R
          | none => hostAfter lz host path cur [] cm R)
       | some sc => hostKeyLoop lz host path sc sc.key cm pc { R with skipNds := pushParam cur cm pc R.skipNds }) := by
  rw [hostNodeEnd]
  split
  · rename_i hs; rw [hs]; simp only []
    split
    · rename_i pc' hpc; rw [hpc]
    · rename_i hpc; rw [hpc]
  · rename_i sc hs; rw [hs]

theorem hostAfter_eq' {lz : Bool} (host path cur k cm R) :
    hostAfter lz host path cur k cm R =
      if (host.drop cm).isEmpty && k.isEmpty then
        match cur.children.find? (fun c => firstByte c.key == SLASH) with
        | none => hostBacktrack lz host path R
        | some c =>
          match lookupByPath c path [] lz with
          | .none => hostBacktrack lz host path R
          | .found r sps true => hostBacktrack lz host path (setTsr R (some r) (rec lz R.params sps))
          | .found r sps false => .found r (rec lz R.params sps) false
          | .bad => .bad
      else hostBacktrack lz host path R := by
  rw [hostAfter]
  all_goals (try rfl)

theorem hostBacktrack_nil' {lz : Bool} {R : Regs} (h : R.skipNds = []) (host path) : hostBacktrack lz host path R = fin R.tsr := by
  rw [hostBacktrack]; split
  · cases ht : R.tsr with
    | none => rfl
    | some x => cases x; rfl
  · rename_i f st h'; rw [h] at h'; cases h'

theorem hostBacktrack_cons' {lz : Bool} {R : Regs} {f : Frame} {st : List Frame} (h : R.skipNds = f :: st) (host path) :
    hostBacktrack lz host path R = hostKeyLoop lz host path f.child f.child.key f.pathIndex f.paramCnt
      { R with skipNds := st, params := R.params.take f.paramCnt } := by
  rw [hostBacktrack]; split
  · rename_i h'; rw [h] at h'; cases h'
  · rename_i f' st' h'; rw [h] at h'; cases h'; rfl


def HM1 (host path : Bytes) (cur : Node) (k : List Tok) (cm pc : Nat) (R : Regs) : Prop :=
  ∀ pc' R', LSim R R' →
    forget (hostKeyLoop true host path cur k cm pc R) = forget (hostKeyLoop false host path cur k cm pc' R')
def M2h (host path : Bytes) (cur : Node) (cm pc : Nat) (b : UInt8) (R : Regs) : Prop :=
  ∀ pc' R', LSim R R' →
    forget (hostNodeEnd true host path cur cm pc b R) = forget (hostNodeEnd false host path cur cm pc' b R')
def M3h (host path : Bytes) (cur : Node) (k : List Tok) (cm : Nat) (R : Regs) : Prop :=
  ∀ R', LSim R R' → forget (hostAfter true host path cur k cm R) = forget (hostAfter false host path cur k cm R')
def M4h (host path : Bytes) (R : Regs) : Prop :=
  ∀ R', LSim R R' → forget (hostBacktrack true host path R) = forget (hostBacktrack false host path R')

theorem forget_found_iff {x y : Result} (h : forget x = forget y) :
    (x = .none ↔ y = .none) ∧ (x = .bad ↔ y = .bad) ∧
    (∀ r ps t, x = .found r ps t → ∃ ps', y = .found r ps' t) := by
  cases x <;> cases y <;> simp_all [forget]

theorem host_lazy_sim_all (host path : Bytes) :
    (∀ cur k cm pc R, HM1 host path cur k cm pc R) ∧ (∀ cur cm pc b R, M2h host path cur cm pc b R) ∧
    (∀ cur k cm R, M3h host path cur k cm R) ∧ (∀ R, M4h host path R) := by
  apply hostKeyLoop.mutual_induct true host path (HM1 host path) (M2h host path) (M3h host path) (M4h host path)
  · intro cur k cm pc R hp ih pc' R' hs
    rw [hostKeyLoop_end' hp, hostKeyLoop_end' hp]; exact ih R' hs
  · intro cur cm pc R b rest hp ih pc' R' hs
    rw [hostKeyLoop_keyEnd' hp, hostKeyLoop_keyEnd' hp]; exact ih pc' R' hs
  · intro cur cm pc R b rest hp c k' hc ih pc' R' hs
    rw [hostKeyLoop_lit' hp, hostKeyLoop_lit' hp, if_pos hc, if_pos hc]; exact ih pc' R' hs
  · intro cur cm pc R b rest hp c k' hc ih pc' R' hs
    rw [hostKeyLoop_lit' hp, hostKeyLoop_lit' hp, if_neg hc, if_neg hc]; exact ih R' hs
  · intro cur cm pc R b rest hp nm k' h0 ih pc' R' hs
    rw [hostKeyLoop_param' hp, hostKeyLoop_param' hp, if_pos h0, if_pos h0]; exact ih R' hs
  · intro cur cm pc R b rest hp nm k' h0 ih pc' R' hs
    rw [hostKeyLoop_param' hp, hostKeyLoop_param' hp, if_neg h0, if_neg h0]
    exact ih _ _ (sim_params hs _ _)
  · intro cur cm pc R b rest hp nm k' ih pc' R' hs
    rw [hostKeyLoop_catch' hp, hostKeyLoop_catch' hp]; exact ih R' hs
  · intro cur cm pc b R hs wc hpc ih pc' R' hsim
    rw [hostNodeEnd_eq', hostNodeEnd_eq', hs, hpc]; exact ih pc' R' hsim
  · intro cur cm pc b R hs hpc ih pc' R' hsim
    rw [hostNodeEnd_eq', hostNodeEnd_eq', hs, hpc]; exact ih R' hsim
  · intro cur cm pc b R sc hs ih pc' R' hsim
    rw [hostNodeEnd_eq', hostNodeEnd_eq', hs]
    exact ih pc' _ ⟨map_erase_pushParam cur cm pc pc' hsim.1, hsim.2⟩
  · intro cur k cm R hc hf ih R' hs
    rw [hostAfter_eq', hostAfter_eq', if_pos hc, if_pos hc, hf]; exact ih R' hs
  · intro cur k cm R hc c hf hres ih R' hs
    have hl := forget_found_iff (lookupByPath_lazy c path)
    have hres' : lookupByPath c path [] false = Result.none := hl.1.mp hres
    rw [hostAfter_eq', hostAfter_eq', if_pos hc, if_pos hc, hf]
    simp only [hres, hres']
    exact ih R' hs
  · intro cur k cm R hc c hf r sps hres ih R' hs
    obtain ⟨sps', hres'⟩ := (forget_found_iff (lookupByPath_lazy c path)).2.2 r sps true hres
    rw [hostAfter_eq', hostAfter_eq', if_pos hc, if_pos hc, hf]
    simp only [hres, hres']
    exact ih _ (sim_setTsr hs _ _ _)
  · intro cur k cm R hc c hf r sps hres R' hs
    obtain ⟨sps', hres'⟩ := (forget_found_iff (lookupByPath_lazy c path)).2.2 r sps false hres
    rw [hostAfter_eq', hostAfter_eq', if_pos hc, if_pos hc, hf]
    simp only [hres, hres']
    rfl
  · intro cur k cm R hc c hf hres R' hs
    have hres' : lookupByPath c path [] false = Result.bad := (forget_found_iff (lookupByPath_lazy c path)).2.1.mp hres
    rw [hostAfter_eq', hostAfter_eq', if_pos hc, if_pos hc, hf]
    simp only [hres, hres']
  · intro cur k cm R hc ih R' hs
    rw [hostAfter_eq', hostAfter_eq', if_neg hc, if_neg hc]; exact ih R' hs
  · intro R h r ps ht R' hs
    rw [hostBacktrack_nil' h, hostBacktrack_nil' (sim_nil hs h)]; exact sim_fin hs
  · intro R h ht R' hs
    rw [hostBacktrack_nil' h, hostBacktrack_nil' (sim_nil hs h)]; exact sim_fin hs
  · intro R f st h ih R' hs
    obtain ⟨f', st', h', hn, hc, hpi, hst⟩ := sim_cons hs h
    rw [hostBacktrack_cons' h, hostBacktrack_cons' h', hc, hpi]
    exact ih _ _ ⟨hst, hs.2⟩

theorem lookupByDomain_lazy (root : Node) (host path : Bytes) :
    forget (Machine.lookupByDomain root host path true) = forget (Machine.lookupByDomain root host path false) := by
  unfold Machine.lookupByDomain
  cases host with
  | nil => rfl
  | cons b rest => exact (host_lazy_sim_all (b :: rest) path).2.1 root 0 0 b {} 0 {} ⟨rfl, rfl⟩

/-- **the lazy `roots.lookup` (Reverse, Iter.Reverse, Txn.Reverse, the Allow-header loops of ServeHTTP) selects the route and
    the trailing-slash flag of the recording one (ServeHTTP, Lookup)**, on every forest, for every method, Host and path. -/
theorem machine_lookup_lazy (rs : Roots) (m hostPort path : Bytes) :
    forget (Machine.lookup rs m hostPort path true) = forget (Machine.lookup rs m hostPort path false) := by
  unfold Machine.lookup
  cases methodRoot rs m with
  | none => rfl
  | some root =>
    simp only []
    cases root.children with
    | nil => rfl
    | cons c0 cs =>
      simp only []
      split
      · exact lookupByPath_lazy c0 path
      · have hd := lookupByDomain_lazy root (Spec.stripHostPort hostPort) path
        have hp : forget (match (c0 :: cs).find? (fun c => firstByte c.key == SLASH) with
              | some c => Machine.lookupByPath c path [] true | none => Result.none)
            = forget (match (c0 :: cs).find? (fun c => firstByte c.key == SLASH) with
              | some c => Machine.lookupByPath c path [] false | none => Result.none) := by
          cases (c0 :: cs).find? (fun c => firstByte c.key == SLASH) with
          | none => rfl
          | some c => exact lookupByPath_lazy c path
        cases hh : (Spec.stripHostPort hostPort).isEmpty with
        | true => simp only [if_true]; exact hp
        | false =>
          simp only [Bool.false_eq_true, if_false]
          generalize Machine.lookupByDomain root (Spec.stripHostPort hostPort) path true = x at hd ⊢
          generalize Machine.lookupByDomain root (Spec.stripHostPort hostPort) path false = y at hd ⊢
          cases x with
          | none =>
            cases y with
            | none => exact hp
            | bad => simp [forget] at hd
            | found r ps t => simp [forget] at hd
          | bad => cases y <;> simp_all [forget]
          | found r ps t => cases y <;> simp_all [forget]


/-! ### a lazy lookup records nothing: whatever it returns is a truncation of what the buffer held -/

def IsTrunc (ps0 ps : Binds) : Prop := ∃ n, ps = ps0.take n

theorem isTrunc_take {ps0 ps : Binds} (h : IsTrunc ps0 ps) (n : Nat) : IsTrunc ps0 (ps.take n) := by
  obtain ⟨k, rfl⟩ := h
  exact ⟨min n k, by rw [List.take_take]⟩

def TruncRes (ps0 : Binds) : Result → Prop
  | .found _ ps _ => IsTrunc ps0 ps
  | _ => True

def TruncR (ps0 : Binds) (R : Regs) : Prop :=
  IsTrunc ps0 R.params ∧ (∀ r ps, R.tsr = some (r, ps) → IsTrunc ps0 ps)

theorem truncR_setTsr {ps0 : Binds} {R : Regs} (h : TruncR ps0 R) (o : Option Route) :
    TruncR ps0 (setTsr R o R.params) := by
  refine ⟨by simpa using h.1, ?_⟩
  intro r ps hr
  rw [setTsr_tsr] at hr
  cases o with
  | none => exact h.2 r ps hr
  | some r' =>
    cases ht : R.tsr with
    | some x => rw [ht] at hr; simp at hr; exact h.2 r ps (by rw [ht, hr])
    | none => rw [ht] at hr; simp at hr; rw [← hr.2]; exact h.1

theorem truncRes_ret {ps0 ps : Binds} (h : IsTrunc ps0 ps) (o : Option Route) : TruncRes ps0 (ret o ps) := by
  cases o <;> simp [ret, TruncRes, h]

/-- in lazy mode every function of the machine returns a truncation of the initial parameter buffer -/
theorem lazy_trunc_all (ps0 : Binds) :
    (∀ lz p cur pre k parent cm pc R, lz = true → TruncR ps0 R → TruncRes ps0 (keyLoop lz p cur pre k parent cm pc R)) ∧
    (∀ lz p cur pre k' nm parent inode startPath cm R, lz = true → TruncR ps0 R →
      TruncRes ps0 (infixLoop lz p cur pre k' nm parent inode startPath cm R)) ∧
    (∀ lz p cur pre k' nm parent startPath cm R, lz = true → TruncR ps0 R →
      TruncRes ps0 (infixTail lz p cur pre k' nm parent startPath cm R)) ∧
    (∀ lz p cur pre k parent cm R, lz = true → TruncR ps0 R → TruncRes ps0 (afterLoop lz p cur pre k parent cm R)) ∧
    (∀ lz p R, lz = true → TruncR ps0 R → TruncRes ps0 (backtrack lz p R)) ∧
    (∀ lz p cur pre parent cm pc b rest R, lz = true → TruncR ps0 R →
      TruncRes ps0 (nodeEnd lz p cur pre parent cm pc b rest R)) := by
  apply keyLoop.mutual_induct
    (fun lz p cur pre k parent cm pc R => lz = true → TruncR ps0 R → TruncRes ps0 (keyLoop lz p cur pre k parent cm pc R))
    (fun lz p cur pre k' nm parent inode startPath cm R => lz = true → TruncR ps0 R →
      TruncRes ps0 (infixLoop lz p cur pre k' nm parent inode startPath cm R))
    (fun lz p cur pre k' nm parent startPath cm R => lz = true → TruncR ps0 R →
      TruncRes ps0 (infixTail lz p cur pre k' nm parent startPath cm R))
    (fun lz p cur pre k parent cm R => lz = true → TruncR ps0 R → TruncRes ps0 (afterLoop lz p cur pre k parent cm R))
    (fun lz p R => lz = true → TruncR ps0 R → TruncRes ps0 (backtrack lz p R))
    (fun lz p cur pre parent cm pc b rest R => lz = true → TruncR ps0 R →
      TruncRes ps0 (nodeEnd lz p cur pre parent cm pc b rest R))
  · intro lz p cur pre k parent cm pc R hp ih hlz ht; rw [keyLoop_end' hp]; exact ih hlz ht
  · intro lz p cur pre parent cm pc R b rest hp ih hlz ht; rw [keyLoop_keyEnd' hp]; exact ih hlz ht
  · intro lz p cur pre parent cm pc R b rest hp c k' hc ih hlz ht; rw [keyLoop_lit' hp, if_pos hc]; exact ih hlz ht
  · intro lz p cur pre parent cm pc R b rest hp c k' hc ih hlz ht; rw [keyLoop_lit' hp, if_neg hc]; exact ih hlz ht
  · intro lz p cur pre parent cm pc R b rest hp nm k' h0 ih hlz ht; rw [keyLoop_param' hp, if_pos h0]; exact ih hlz ht
  · intro lz p cur pre parent cm pc R b rest hp nm k' h0 ih hlz ht
    rw [keyLoop_param' hp, if_neg h0]; subst hlz
    exact ih rfl ⟨ht.1, ht.2⟩
  · intro lz p cur pre parent cm pc R b rest hp nm hcs hlz ht
    rw [keyLoop_catch_leaf' hp hcs]; subst hlz; exact truncRes_ret ht.1 _
  · intro lz p cur pre parent cm pc R b rest hp nm c tail hcs ih hlz ht; rw [keyLoop_catch_child' hp hcs]; exact ih hlz ht
  · intro lz p cur pre parent cm pc R b rest hp nm t k'' ih hlz ht; rw [keyLoop_catch_infix' hp]; exact ih hlz ht
  · intro lz p cur pre k' nm parent inode startPath cm R hp ih hlz ht; rw [infixLoop_end' hp]; exact ih hlz ht
  · intro lz p cur pre k' nm parent inode startPath cm R b rest hp hidx hres _ ih2 hlz ht
    rw [infixLoop_step' hp, if_pos hidx]; simp only [hres]; exact ih2 hlz ht
  · intro lz p cur pre k' nm parent inode startPath cm R b rest hp hidx r sps hres _ ih2 hlz ht
    rw [infixLoop_step' hp, if_pos hidx]; simp only [hres]; subst hlz
    exact ih2 rfl (truncR_setTsr ht _)
  · intro lz p cur pre k' nm parent inode startPath cm R b rest hp hidx r sps hres _ hlz ht
    rw [infixLoop_step' hp, if_pos hidx]; simp only [hres]; subst hlz
    exact ht.1
  · intro lz p cur pre k' nm parent inode startPath cm R b rest hp hidx hres _ hlz ht
    rw [infixLoop_step' hp, if_pos hidx]; simp only [hres]; trivial
  · intro lz p cur pre k' nm parent inode startPath cm R b rest hp hc ih hlz ht
    rw [infixLoop_step' hp, if_neg hc]; exact ih hlz ht
  · intro lz p cur pre nm parent startPath cm R hlz ht
    rw [infixTail_eq', if_pos rfl]; subst hlz; exact truncRes_ret ht.1 _
  · intro lz p cur pre k' nm parent startPath cm R hk hh ih hlz ht
    rw [infixTail_eq', if_neg hk, if_pos hh]; subst hlz; exact ih rfl ⟨ht.1, ht.2⟩
  · intro lz p cur pre k' nm parent startPath cm R hk hh ih hlz ht
    rw [infixTail_eq', if_neg hk, if_neg hh]; subst hlz; exact ih rfl ⟨ht.1, ht.2⟩
  · intro lz p cur pre k parent cm R h hlz ht
    rw [afterLoop_eq', if_pos h]; exact truncRes_ret ht.1 _
  · intro lz p cur pre k parent cm R h ih hlz ht
    rw [afterLoop_eq', if_neg h]; exact ih hlz (truncR_setTsr ht _)
  · intro lz p R h r ps ht' hlz ht
    rw [backtrack_nil' h, ht']; exact ht.2 r ps ht'
  · intro lz p R h ht' hlz ht
    rw [backtrack_nil' h, ht']; trivial
  · intro lz p R f st h ih hlz ht
    rw [backtrack_cons' h]
    exact ih hlz ⟨isTrunc_take ht.1 _, ht.2⟩
  · intro lz p cur pre parent cm pc b rest R; dsimp only; intro hs wc hpc ih hlz ht
    rw [nodeEnd_eq', hs, hpc]
    have := truncR_setTsr ht (earlyCand cur cm b rest)
    exact ih hlz ⟨this.1, this.2⟩
  · intro lz p cur pre parent cm pc b rest R; dsimp only; intro hs hpc wc hwc ih hlz ht
    rw [nodeEnd_eq', hs, hpc, hwc]
    exact ih hlz (truncR_setTsr ht _)
  · intro lz p cur pre parent cm pc b rest R; dsimp only; intro hs hpc hwc ih hlz ht
    rw [nodeEnd_eq', hs, hpc, hwc]
    exact ih hlz (truncR_setTsr ht _)
  · intro lz p cur pre parent cm pc b rest R; dsimp only; intro sc hs ih hlz ht
    rw [nodeEnd_eq', hs]
    have := truncR_setTsr ht (earlyCand cur cm b rest)
    exact ih hlz ⟨this.1, this.2⟩

/-- **a lazy lookupByPath records nothing**: started on an emptied buffer (as every caller does) it reports no parameter;
    started on any buffer it reports a truncation of it - it never appends, and never re-slices beyond what it holds
    (`paramCnt` stays where it was, so every `(*c.params)[:skipped.paramCnt]` is a genuine truncation) -/
theorem lookupByPath_lazy_records_nothing (target : Node) (path : Bytes) :
    ∀ r ps t, Machine.lookupByPath target path [] true = .found r ps t → ps = [] := by
  intro r ps t h
  have := (lazy_trunc_all []).1 true path target [] target.key none 0 0 { params := [] } rfl ⟨⟨0, rfl⟩, by intro r ps h; cases h⟩
  unfold Machine.lookupByPath at h
  simp only [List.length_nil] at h
  rw [h] at this
  obtain ⟨n, hn⟩ := this
  simpa using hn

end Fox.Model
