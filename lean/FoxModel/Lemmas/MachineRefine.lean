import FoxModel.Lemmas.MachineKids
/-
  The state machine of `Model/Machine.lean` (the Go control flow of lookupByPath: registers, skipped-node stack,
  parameter buffer truncated on backtracking, first trailing-slash candidate kept, early return) computes `pick` of
  the enumerating walk of `Model/Lookup.lean` on every well-formed node.

  Invariant of a machine state: the answer of the machine is `pickC tsr (events still to explore)`, where the events
  still to explore are those of the walk at the current position followed by those of the skipped alternatives on the
  stack, each started with the parameters that the backtrack will restore.
-/
namespace Fox.Model
open Fox Fox.Model.Machine

/-- the events of one skipped alternative, once it is popped -/
def frameEvs (es : Bool) (p : Bytes) (params : Binds) (f : Frame) : List Ev :=
  walk f.child [] f.child.key f.n.route es (p.drop f.pathIndex) (params.take f.paramCnt)

/-- the events of the whole stack (top first); popping an entry truncates the parameters for the ones below -/
def stackEvs (es : Bool) (p : Bytes) : Binds → List Frame → List Ev
  | _, [] => []
  | params, f :: st => frameEvs es p params f ++ stackEvs es p (params.take f.paramCnt) st

/-- stack discipline: parameter counts do not increase towards the bottom and never exceed the buffer; the saved
    children are well-formed nodes -/
def stackOk : Nat → List Frame → Prop
  | _, [] => True
  | n, f :: st => f.paramCnt ≤ n ∧ wfNode f.child = true ∧ stackOk f.paramCnt st

theorem stackOk_mono {n m : Nat} (h : n ≤ m) {st : List Frame} (hs : stackOk n st) : stackOk m st := by
  cases st with
  | nil => trivial
  | cons f st => exact ⟨Nat.le_trans hs.1 h, hs.2.1, hs.2.2⟩

theorem stackEvs_append (es p) (params x : Binds) {st : List Frame} (hs : stackOk params.length st) :
    stackEvs es p (params ++ x) st = stackEvs es p params st := by
  cases st with
  | nil => rfl
  | cons f st =>
    simp only [stackEvs, frameEvs]
    rw [List.take_append_of_le_length hs.1]

theorem stackEvs_take (es p) (params : Binds) {st : List Frame} (hs : stackOk params.length st) :
    stackEvs es p (params.take params.length) st = stackEvs es p params st := by
  rw [List.take_length]

/-- candidate events -/
def candEvs (o : Option Route) (ps : Binds) : List Ev :=
  match o with
  | some r => [.tsr r ps]
  | none => []

def retEvs (o : Option Route) (ps : Binds) : List Ev :=
  match o with
  | some r => [.direct r ps]
  | none => [.bad]

theorem pickC_retEvs (t o ps X) : pickC t (retEvs o ps ++ X) = ret o ps := by
  cases o <;> rfl

theorem setTsr_tsr (R : Regs) (o : Option Route) (ps : Binds) :
    (setTsr R o ps).tsr = (match o with | some r => orTsr R.tsr (r, ps) | none => R.tsr) := by
  unfold setTsr
  cases h : R.tsr <;> cases o <;> simp [orTsr, h]

theorem pickC_candEvs (R : Regs) (o : Option Route) (ps : Binds) (X : List Ev) :
    pickC R.tsr (candEvs o ps ++ X) = pickC (setTsr R o ps).tsr X := by
  rw [setTsr_tsr]
  cases o <;> rfl

/-- what the analysis after the `Walk` loop contributes -/
def postEvs (p : Bytes) (cur : Node) (pre k : List Tok) (parent : Option Node) (cm : Nat) (ps : Binds) : List Ev :=
  if cur.isLeaf && (p.drop cm).isEmpty && k.isEmpty then retEvs cur.route ps
  else candEvs (postCand p cur pre k parent cm) ps

structure WalkInv (cur : Node) (pre k : List Tok) (cm pc : Nat) (R : Regs) : Prop where
  wf : wfNode cur = true
  key : pre ++ k = cur.key
  pos : pre ≠ [] → 0 < cm
  cnt : pc = R.params.length
  st : stackOk R.params.length R.skipNds

/-- events of the catch-all loop still to come when the machine is at `cm` (capture started at `startPath`) -/
def infixEvs (inode : Node) (nm : Bytes) (es : Bool) (p : Bytes) (startPath cm : Nat) (ps : Binds) : List Ev :=
  if cm = startPath then
    (match p.drop cm with
     | [] => []
     | b :: rest => if b = SLASH then [] else walkInfix inode nm [b] rest es ps)
  else walkInfix inode nm ((p.drop startPath).take (cm - startPath)) (p.drop cm) es ps

/-- what follows the catch-all loop -/
def tailEvs (p : Bytes) (cur : Node) (pre k' : List Tok) (nm : Bytes) (parent : Option Node) (startPath cm : Nat)
    (ps : Binds) : List Ev :=
  if k' = [] then retEvs cur.route (ps ++ [(nm, p.drop startPath)])
  else if (p.drop startPath).head? = some SLASH then postEvs p cur pre k' parent cm (ps ++ [(nm, p.drop startPath)])
  else postEvs p cur pre k' parent p.length (ps ++ [(nm, p.drop startPath)])

def P1 (p : Bytes) (cur : Node) (pre k : List Tok) (parent : Option Node) (cm pc : Nat) (R : Regs) : Prop :=
  WalkInv cur pre k cm pc R →
  keyLoop false p cur pre k parent cm pc R =
    pickC R.tsr (walk cur pre k (parentLeafRoute parent) (endsWithSlash p) (p.drop cm) R.params
      ++ stackEvs (endsWithSlash p) p R.params R.skipNds)

def P2 (p : Bytes) (cur : Node) (pre k' : List Tok) (nm : Bytes) (parent : Option Node) (inode : Node)
    (startPath cm : Nat) (R : Regs) : Prop :=
  wfNode inode = true → stackOk R.params.length R.skipNds → startPath ≤ cm →
  (cm ≠ startPath → ((p.drop startPath).take (cm - startPath)).getLast? = some SLASH) →
  ((p.drop startPath).head? = some SLASH → cm = startPath ∧ p.drop cm ≠ []) →
  infixLoop false p cur pre k' nm parent inode startPath cm R =
    pickC R.tsr (infixEvs inode nm (endsWithSlash p) p startPath cm R.params
      ++ (tailEvs p cur pre k' nm parent startPath cm R.params ++ stackEvs (endsWithSlash p) p R.params R.skipNds))

def P3 (p : Bytes) (cur : Node) (pre k' : List Tok) (nm : Bytes) (parent : Option Node)
    (startPath cm : Nat) (R : Regs) : Prop :=
  stackOk R.params.length R.skipNds →
  infixTail false p cur pre k' nm parent startPath cm R =
    pickC R.tsr (tailEvs p cur pre k' nm parent startPath cm R.params ++ stackEvs (endsWithSlash p) p R.params R.skipNds)

def P4 (p : Bytes) (cur : Node) (pre k : List Tok) (parent : Option Node) (cm : Nat) (R : Regs) : Prop :=
  stackOk R.params.length R.skipNds →
  afterLoop false p cur pre k parent cm R =
    pickC R.tsr (postEvs p cur pre k parent cm R.params ++ stackEvs (endsWithSlash p) p R.params R.skipNds)

def P5 (p : Bytes) (R : Regs) : Prop :=
  stackOk R.params.length R.skipNds →
  backtrack false p R = pickC R.tsr (stackEvs (endsWithSlash p) p R.params R.skipNds)

def P6 (p : Bytes) (cur : Node) (pre : List Tok) (parent : Option Node) (cm pc : Nat) (b : UInt8) (rest : Bytes)
    (R : Regs) : Prop :=
  WalkInv cur pre [] cm pc R → p.drop cm = b :: rest →
  nodeEnd false p cur pre parent cm pc b rest R =
    pickC R.tsr (walk cur pre [] (parentLeafRoute parent) (endsWithSlash p) (b :: rest) R.params
      ++ stackEvs (endsWithSlash p) p R.params R.skipNds)

end Fox.Model

namespace Fox.Model
open Fox Fox.Model.Machine

/-! ### unfolding the machine, one control-flow edge per lemma -/

theorem keyLoop_end {p : Bytes} {cm : Nat} (hp : p.drop cm = []) (cur pre k parent pc R) :
    keyLoop false p cur pre k parent cm pc R = afterLoop false p cur pre k parent cm R := by
  rw [keyLoop]; split
  · rfl
  · rename_i b rest h; rw [hp] at h; cases h

theorem keyLoop_keyEnd {p : Bytes} {cm : Nat} {b : UInt8} {rest : Bytes} (hp : p.drop cm = b :: rest) (cur pre parent pc R) :
    keyLoop false p cur pre [] parent cm pc R = nodeEnd false p cur pre parent cm pc b rest R := by
  rw [keyLoop]; split
  · rename_i h; rw [hp] at h; cases h
  · rename_i b' rest' h; rw [hp] at h; cases h; rfl

theorem keyLoop_lit {p : Bytes} {cm : Nat} {b : UInt8} {rest : Bytes} (hp : p.drop cm = b :: rest) (cur pre c k' parent pc R) :
    keyLoop false p cur pre (.lit c :: k') parent cm pc R =
      if c = b ∧ b ≠ LBR ∧ b ≠ STAR then keyLoop false p cur (pre ++ [.lit c]) k' parent (cm + 1) pc R
      else afterLoop false p cur pre (.lit c :: k') parent cm R := by
  rw [keyLoop]; split
  · rename_i h; rw [hp] at h; cases h
  · rename_i b' rest' h; rw [hp] at h; cases h; rfl

theorem keyLoop_param {p : Bytes} {cm : Nat} {b : UInt8} {rest : Bytes} (hp : p.drop cm = b :: rest) (cur pre nm k' parent pc R) :
    keyLoop false p cur pre (.param nm :: k') parent cm pc R =
      if segEnd SLASH (b :: rest) = 0 then afterLoop false p cur pre (.param nm :: k') parent cm R
      else keyLoop false p cur (pre ++ [.param nm]) k' parent (cm + segEnd SLASH (b :: rest)) (pc + 1)
          { R with params := R.params ++ [(nm, (b :: rest).take (segEnd SLASH (b :: rest)))] } := by
  rw [keyLoop]; split
  · rename_i h; rw [hp] at h; cases h
  · rename_i b' rest' h; rw [hp] at h; cases h; rfl

theorem keyLoop_catch_leaf {p : Bytes} {cm : Nat} {b : UInt8} {rest : Bytes} (hp : p.drop cm = b :: rest) {cur : Node}
    (hcs : cur.children = []) (pre nm parent pc R) :
    keyLoop false p cur pre [.catchAll nm] parent cm pc R = ret cur.route (R.params ++ [(nm, b :: rest)]) := by
  rw [keyLoop]; split
  · rename_i h; rw [hp] at h; cases h
  · rename_i b' rest' h; rw [hp] at h; cases h; simp only [hcs]; rfl

theorem keyLoop_catch_child {p : Bytes} {cm : Nat} {b : UInt8} {rest : Bytes} (hp : p.drop cm = b :: rest) {cur c : Node}
    {tail : List Node} (hcs : cur.children = c :: tail) (pre nm parent pc R) :
    keyLoop false p cur pre [.catchAll nm] parent cm pc R = infixLoop false p cur (pre ++ [.catchAll nm]) [] nm parent c cm cm R := by
  rw [keyLoop]; split
  · rename_i h; rw [hp] at h; cases h
  · rename_i b' rest' h; rw [hp] at h; cases h; simp only [hcs]

theorem keyLoop_catch_infix {p : Bytes} {cm : Nat} {b : UInt8} {rest : Bytes} (hp : p.drop cm = b :: rest)
    (cur pre nm t k'' parent pc R) :
    keyLoop false p cur pre (.catchAll nm :: t :: k'') parent cm pc R =
      infixLoop false p cur (pre ++ [.catchAll nm]) (t :: k'') nm parent (.mk (t :: k'') cur.route cur.children) cm cm R := by
  rw [keyLoop]; split
  · rename_i h; rw [hp] at h; cases h
  · rfl

theorem afterLoop_eq (p cur pre k parent cm R) :
    afterLoop false p cur pre k parent cm R =
      if cur.isLeaf && (p.drop cm).isEmpty && k.isEmpty then ret cur.route R.params
      else backtrack false p (postTsr p cur pre k parent cm R) := by
  rw [afterLoop]

theorem backtrack_nil {R : Regs} (h : R.skipNds = []) (p) : backtrack false p R = fin R.tsr := by
  rw [backtrack]; split
  · cases ht : R.tsr with
    | none => rfl
    | some x => cases x; rfl
  · rename_i f st h'; rw [h] at h'; cases h'

theorem backtrack_cons {R : Regs} {f : Frame} {st : List Frame} (h : R.skipNds = f :: st) (p) :
    backtrack false p R = keyLoop false p f.child [] f.child.key (some f.n) f.pathIndex f.paramCnt
      { R with skipNds := st, params := R.params.take f.paramCnt } := by
  rw [backtrack]; split
  · rename_i h'; rw [h] at h'; cases h'
  · rename_i f' st' h'; rw [h] at h'; cases h'; rfl

theorem infixTail_eq (p cur pre k' nm parent startPath cm R) :
    infixTail false p cur pre k' nm parent startPath cm R =
      if k' = [] then ret cur.route (R.params ++ [(nm, p.drop startPath)])
      else if (p.drop startPath).head? = some SLASH then
        afterLoop false p cur pre k' parent cm { R with params := R.params ++ [(nm, p.drop startPath)] }
      else afterLoop false p cur pre k' parent p.length { R with params := R.params ++ [(nm, p.drop startPath)] } := by
  rw [infixTail]; rfl

theorem infixLoop_end {p : Bytes} {cm : Nat} (hp : p.drop cm = []) (cur pre k' nm parent inode startPath R) :
    infixLoop false p cur pre k' nm parent inode startPath cm R = infixTail false p cur pre k' nm parent startPath cm R := by
  rw [infixLoop]; split
  · rfl
  · rename_i b rest h; rw [hp] at h; cases h

theorem infixLoop_step {p : Bytes} {cm : Nat} {b : UInt8} {rest : Bytes} (hp : p.drop cm = b :: rest)
    (cur pre k' nm parent inode startPath R) :
    infixLoop false p cur pre k' nm parent inode startPath cm R =
      if 0 < segEnd SLASH (b :: rest) ∧ segEnd SLASH (b :: rest) < (b :: rest).length then
        match keyLoop false (p.drop (cm + segEnd SLASH (b :: rest))) inode [] inode.key none 0 0 {} with
        | .none => infixLoop false p cur pre k' nm parent inode startPath (cm + segEnd SLASH (b :: rest) + 1) R
        | .found r sps true =>
          infixLoop false p cur pre k' nm parent inode startPath (cm + segEnd SLASH (b :: rest) + 1)
            (setTsr R (some r) (R.params ++ [(nm, (p.drop startPath).take (cm + segEnd SLASH (b :: rest) - startPath))] ++ sps))
        | .found r sps false =>
          .found r (R.params ++ [(nm, (p.drop startPath).take (cm + segEnd SLASH (b :: rest) - startPath))] ++ sps) false
        | .bad => .bad
      else infixTail false p cur pre k' nm parent startPath cm R := by
  rw [infixLoop]; split
  · rename_i h; rw [hp] at h; cases h
  · rename_i b' rest' h; rw [hp] at h; cases h; rfl

theorem nodeEnd_eq (p cur pre parent cm pc b rest R) :
    nodeEnd false p cur pre parent cm pc b rest R =
      (match staticChild cur b with
       | none =>
         (match paramChild cur with
          | some pc' => keyLoop false p pc' [] pc'.key (some cur) cm pc
              { earlyTsr cur cm b rest R with skipNds := pushWild cur cm pc (earlyTsr cur cm b rest R).skipNds }
          | none =>
            (match wildChild cur with
             | some wc => keyLoop false p wc [] wc.key (some cur) cm pc (earlyTsr cur cm b rest R)
             | none => afterLoop false p cur pre [] parent cm (earlyTsr cur cm b rest R)))
       | some sc => keyLoop false p sc [] sc.key (some cur) cm pc
           { earlyTsr cur cm b rest R with
             skipNds := pushParam cur cm pc (pushWild cur cm pc (earlyTsr cur cm b rest R).skipNds) }) := by
  rw [nodeEnd]
  split
  · rename_i hs; rw [hs]; simp only []
    split
    · rename_i pc' hpc; rw [hpc]
    · rename_i hpc; rw [hpc]; simp only []
      split
      · rename_i wc hwc; rw [hwc]
      · rename_i hwc; rw [hwc]
  · rename_i sc hs; rw [hs]

end Fox.Model

namespace Fox.Model
open Fox Fox.Model.Machine

/-! ### small facts about lists, segments and keys -/

theorem drop_add_of_drop {p l : Bytes} {cm : Nat} (h : p.drop cm = l) (n : Nat) : p.drop (cm + n) = l.drop n := by
  rw [← h, List.drop_drop]

theorem segEnd_zero_iff (d b : UInt8) (rest : Bytes) : segEnd d (b :: rest) = 0 ↔ b = d := by
  simp only [segEnd]
  split
  · simp [*]
  · constructor
    · intro h; omega
    · intro h; contradiction

theorem segEnd_take_noslash (d : UInt8) (s : Bytes) : d ∉ s.take (segEnd d s) := by
  induction s with
  | nil => simp
  | cons x xs ih =>
    simp only [segEnd]
    split
    · simp
    · rename_i hx
      rw [Nat.add_comm, List.take_succ_cons]
      intro hm
      cases hm with
      | head => exact hx rfl
      | tail _ h' => exact ih h'

theorem segEnd_drop_slash (d : UInt8) (s : Bytes) (h : segEnd d s < s.length) : ∃ r, s.drop (segEnd d s) = d :: r := by
  induction s with
  | nil => simp at h
  | cons x xs ih =>
    simp only [segEnd] at h ⊢
    split
    · rename_i hx; exact ⟨xs, by simp [hx]⟩
    · rename_i hx
      rw [if_neg hx] at h
      have : segEnd d xs < xs.length := by simp at h; omega
      obtain ⟨r, hr⟩ := ih this
      exact ⟨r, by rw [Nat.add_comm, List.drop_succ_cons]; exact hr⟩

theorem segEnd_noslash {d : UInt8} {s : Bytes} (h : ¬ segEnd d s < s.length) : d ∉ s := by
  have hle := segEnd_le d s
  have : segEnd d s = s.length := by omega
  have h2 := segEnd_take_noslash d s
  rw [this, List.take_length] at h2
  exact h2

theorem walkInfix_skip (inode nm es ps) (seg : Bytes) (hs : SLASH ∉ seg) (acc rest : Bytes) :
    walkInfix inode nm acc (seg ++ rest) es ps = walkInfix inode nm (acc ++ seg) rest es ps := by
  induction seg generalizing acc with
  | nil => simp
  | cons x xs ih =>
    have hx : ¬ x = SLASH := fun h => hs (by simp [h])
    rw [List.cons_append, walkInfix_other _ _ _ _ _ _ _ hx, ih (fun h => hs (List.mem_cons_of_mem _ h))]
    simp

theorem walkInfix_noslash (inode nm es ps) (seg : Bytes) (hs : SLASH ∉ seg) (acc : Bytes) :
    walkInfix inode nm acc seg es ps = [] := by
  have := walkInfix_skip inode nm es ps seg hs acc []
  simp only [List.append_nil] at this
  rw [this, walkInfix_nil]

theorem keyOk_append_right {pre k : List Tok} (h : keyOk (pre ++ k) = true) : keyOk k = true := by
  induction pre with
  | nil => exact h
  | cons t pre ih =>
    apply ih
    cases t with
    | lit b => simp only [List.cons_append, keyOk, Bool.and_eq_true] at h; exact h.2
    | param n => simpa [keyOk] using h
    | catchAll n => simp only [List.cons_append, keyOk, Bool.and_eq_true] at h; exact h.2

theorem keyOk_lit_ne {c : UInt8} {k : List Tok} (h : keyOk (.lit c :: k) = true) : c ≠ STAR ∧ c ≠ LBR := by
  simp only [keyOk, Bool.and_eq_true, bne_iff_ne] at h
  exact ⟨h.1.1, h.1.2⟩

theorem endsWithSlash_drop {p : Bytes} {n : Nat} (h : p.drop n ≠ []) : endsWithSlash (p.drop n) = endsWithSlash p := by
  unfold endsWithSlash
  rw [List.getLast?_drop]
  have : ¬ p.length ≤ n := by
    intro hle; exact h (List.drop_eq_nil_of_le hle)
  simp [this]

theorem endsWithCatchAll_append {pre k : List Tok} (hk : k ≠ []) : endsWithCatchAll (pre ++ k) = endsWithCatchAll k := by
  unfold endsWithCatchAll
  rw [List.getLast?_append]
  cases hl : k.getLast? with
  | none => exact absurd (List.getLast?_eq_none_iff.mp hl) hk
  | some x => simp

theorem wfNode_inode {cur : Node} (h : wfNode cur = true) {pre : List Tok} {t : Tok} {k'' : List Tok}
    (hkey : pre ++ (t :: k'') = cur.key) : wfNode (.mk (t :: k'') cur.route cur.children) = true := by
  cases cur with
  | mk k r cs =>
    simp only [Node.key, Node.route, Node.children] at *
    have hk := wfNode_kids h
    have hko := wfNode_keyOk h
    rw [← hkey] at hko
    have hko' := keyOk_append_right hko
    simp only [wfNode, Bool.and_eq_true, Bool.or_eq_true, Bool.not_eq_true', List.isEmpty_cons, Bool.not_false, true_and]
    refine ⟨⟨⟨hko', hk.2.1⟩, ?_⟩, hk.1⟩
    cases he : endsWithCatchAll (t :: k'') with
    | false => left; rfl
    | true =>
      right
      have : endsWithCatchAll k = true := by rw [← hkey, endsWithCatchAll_append (by simp)]; exact he
      have := hk.2.2 this
      simp [this.1, this.2]

theorem pre_catch_ne (pre : List Tok) (nm : Bytes) : (pre ++ [Tok.catchAll nm] == [Tok.lit SLASH]) = false := by
  cases pre with
  | nil => simp
  | cons t pre =>
    cases pre with
    | nil => simp
    | cons t' pre' => simp

theorem find_slash (cs : List Node) :
    cs.find? (fun c => firstByte c.key == SLASH) = cs.find? (fun c => startsWithSlash c.key) := by
  apply find_congr; intro x _; exact firstByte_slash x.key

/-! ### the analysis after the `Walk` loop is what the walk reports when it stops -/

theorem postEvs_mid {p : Bytes} {cm : Nat} (hp : p.drop cm ≠ []) {k : List Tok} (hk : k ≠ []) (cur pre parent ps) :
    postEvs p cur pre k parent cm ps = [] := by
  have h1 : (p.drop cm).isEmpty = false := by cases h : p.drop cm with | nil => exact absurd h hp | cons => rfl
  have h2 : k.isEmpty = false := by cases k with | nil => exact absurd rfl hk | cons => rfl
  unfold postEvs postCand
  simp [h1, h2, candEvs]

theorem walk_end_eq_postEvs {p : Bytes} {cm : Nat} (hp : p.drop cm = []) (cur pre k parent ps) :
    walk cur pre k (parentLeafRoute parent) (endsWithSlash p) [] ps = postEvs p cur pre k parent cm ps := by
  have h1 : (p.drop cm).isEmpty = true := by rw [hp]; rfl
  unfold postEvs postCand
  simp only [h1, Bool.and_true, Node.isLeaf]
  cases k with
  | nil =>
    conv => lhs; unfold walk
    simp only [List.isEmpty_nil, Bool.and_true]
    cases hr : cur.route with
    | some r => simp [retEvs]
    | none =>
      simp only [Option.isSome_none, Bool.false_eq_true, if_false, Bool.not_false, if_true]
      cases hes : endsWithSlash p with
      | true =>
        simp only [if_true, Bool.true_and]
        cases hpr : parentLeafRoute parent with
        | none => simp [candEvs]
        | some pr =>
          simp only [Option.isSome_some, Bool.true_and]
          split <;> simp_all [candEvs]
      | false =>
        simp only [Bool.false_eq_true, if_false, Bool.false_and, Bool.not_false, if_true]
        rw [find_slash]
        cases hf : cur.children.find? (fun c => startsWithSlash c.key) with
        | none => simp [candEvs]
        | some c =>
          cases c with
          | mk ck cr ccs =>
            simp only [Node.route, Node.key]
            cases cr with
            | none => simp [candEvs]
            | some r =>
              simp only [Option.isSome_some, Bool.true_and]
              split <;> simp_all [candEvs]
  | cons t k' =>
    have hw : walk cur pre (t :: k') (parentLeafRoute parent) (endsWithSlash p) [] ps
        = midKeyEnd cur pre (t :: k') (parentLeafRoute parent) (endsWithSlash p) ps := by
      cases t <;> (conv => lhs; unfold walk)
    rw [hw]
    unfold midKeyEnd
    simp only [List.isEmpty_cons, Bool.and_false, Bool.false_eq_true, if_false]
    cases hes : endsWithSlash p with
    | true =>
      simp only [if_true, Bool.true_and, Bool.not_true, Bool.false_and]
      cases hpr : parentLeafRoute parent with
      | none => cases cur.route <;> simp [candEvs]
      | some pr =>
        simp only [Option.isSome_some, Bool.true_and]
        cases hr : cur.route with
        | none => simp only [Option.isSome_none, Bool.not_false, if_true]; split <;> simp_all [candEvs]
        | some r => simp only [Option.isSome_some, Bool.not_true, Bool.false_eq_true, if_false]; split <;> simp_all [candEvs]
    | false =>
      simp only [Bool.false_eq_true, if_false, Bool.false_and, Bool.not_false, Bool.true_and]
      cases hr : cur.route with
      | none => simp [candEvs]
      | some r =>
        simp only [Option.isSome_some, Bool.not_true, Bool.false_eq_true, if_false]
        split <;> simp_all [candEvs]

end Fox.Model

namespace Fox.Model
open Fox Fox.Model.Machine

/-! ### the cases of the induction over the machine's own recursion -/

theorem stackEvs_params_congr (es p) {R : Regs} {ps : Binds} (h : R.params = ps) : stackEvs es p R.params = stackEvs es p ps := by
  rw [h]

theorem c01 (p cur pre k parent cm pc R) (hp : p.drop cm = []) (ih : P4 p cur pre k parent cm R) :
    P1 p cur pre k parent cm pc R := by
  intro hinv
  rw [keyLoop_end hp, ih hinv.st, hp, walk_end_eq_postEvs hp]

theorem c02 (p cur pre parent cm pc R b rest) (hp : p.drop cm = b :: rest) (ih : P6 p cur pre parent cm pc b rest R) :
    P1 p cur pre [] parent cm pc R := by
  intro hinv
  rw [keyLoop_keyEnd hp, ih hinv hp, hp]

theorem c03 (p cur pre parent cm pc R b rest) (hp : p.drop cm = b :: rest) (c : UInt8) (k' : List Tok)
    (hc : c = b ∧ b ≠ LBR ∧ b ≠ STAR) (ih : P1 p cur (pre ++ [Tok.lit c]) k' parent (cm + 1) pc R) :
    P1 p cur pre (Tok.lit c :: k') parent cm pc R := by
  intro hinv
  have hinv' : WalkInv cur (pre ++ [Tok.lit c]) k' (cm + 1) pc R :=
    ⟨hinv.wf, by rw [← hinv.key]; simp, fun _ => Nat.succ_pos _, hinv.cnt, hinv.st⟩
  rw [keyLoop_lit hp, if_pos hc, ih hinv', hp, drop_add_of_drop hp 1]
  obtain ⟨rfl, _, _⟩ := hc
  rw [walk_lit_eq]; rfl

theorem c04 (p cur pre parent cm pc R b rest) (hp : p.drop cm = b :: rest) (c : UInt8) (k' : List Tok)
    (hc : ¬ (c = b ∧ b ≠ LBR ∧ b ≠ STAR)) (ih : P4 p cur pre (Tok.lit c :: k') parent cm R) :
    P1 p cur pre (Tok.lit c :: k') parent cm pc R := by
  intro hinv
  have hko : keyOk (Tok.lit c :: k') = true := by
    have := wfNode_keyOk' hinv.wf
    rw [← hinv.key] at this
    exact keyOk_append_right this
  have hne := keyOk_lit_ne hko
  have hcb : ¬ c = b := by
    intro h; subst h; exact hc ⟨rfl, hne.2, hne.1⟩
  rw [keyLoop_lit hp, if_neg hc, ih hinv.st, hp, walk_lit_ne _ _ _ _ _ _ _ _ _ hcb,
    postEvs_mid (by rw [hp]; simp) (by simp)]

theorem c05 (p cur pre parent cm pc R b rest) (hp : p.drop cm = b :: rest) (nm : Bytes) (k' : List Tok)
    (h0 : segEnd SLASH (b :: rest) = 0) (ih : P4 p cur pre (Tok.param nm :: k') parent cm R) :
    P1 p cur pre (Tok.param nm :: k') parent cm pc R := by
  intro hinv
  rw [keyLoop_param hp, if_pos h0, ih hinv.st, hp, walk_param_zero _ _ _ _ _ _ _ _ _ h0,
    postEvs_mid (by rw [hp]; simp) (by simp)]

theorem c06 (p cur pre parent cm pc R b rest) (hp : p.drop cm = b :: rest) (nm : Bytes) (k' : List Tok)
    (h0 : ¬ segEnd SLASH (b :: rest) = 0)
    (ih : P1 p cur (pre ++ [Tok.param nm]) k' parent (cm + segEnd SLASH (b :: rest)) (pc + 1)
      { skipNds := R.skipNds, params := R.params ++ [(nm, List.take (segEnd SLASH (b :: rest)) (b :: rest))], tsr := R.tsr }) :
    P1 p cur pre (Tok.param nm :: k') parent cm pc R := by
  intro hinv
  have hinv' : WalkInv cur (pre ++ [Tok.param nm]) k' (cm + segEnd SLASH (b :: rest)) (pc + 1)
      { skipNds := R.skipNds, params := R.params ++ [(nm, List.take (segEnd SLASH (b :: rest)) (b :: rest))], tsr := R.tsr } :=
    ⟨hinv.wf, by rw [← hinv.key]; simp, fun _ => by omega, by simp [hinv.cnt],
      stackOk_mono (by simp) hinv.st⟩
  rw [keyLoop_param hp, if_neg h0, ih hinv', hp, drop_add_of_drop hp, walk_param_step _ _ _ _ _ _ _ _ _ h0]
  simp only []
  rw [stackEvs_append _ _ _ _ hinv.st]

theorem c07 (p cur pre parent cm pc R b rest) (hp : p.drop cm = b :: rest) (nm : Bytes) (hcs : cur.children = []) :
    P1 p cur pre [Tok.catchAll nm] parent cm pc R := by
  intro _
  rw [keyLoop_catch_leaf hp hcs, hp]
  cases hr : cur.route with
  | some r => rw [walk_catch_leaf_some hcs hr]; rfl
  | none => rw [walk_catch_leaf_none hcs hr]; rfl

end Fox.Model

namespace Fox.Model
open Fox Fox.Model.Machine

theorem infixEvs_start {p : Bytes} {cm : Nat} {b : UInt8} {rest : Bytes} (hp : p.drop cm = b :: rest) (inode nm es ps) :
    infixEvs inode nm es p cm cm ps = (if b = SLASH then [] else walkInfix inode nm [b] rest es ps) := by
  unfold infixEvs; simp [hp]

theorem head_of_drop {p : Bytes} {cm : Nat} {b : UInt8} {rest : Bytes} (hp : p.drop cm = b :: rest) :
    (p.drop cm).head? = some b := by rw [hp]; rfl

theorem c08 (p cur pre parent cm pc R b rest) (hp : p.drop cm = b :: rest) (nm : Bytes) (c : Node) (tail : List Node)
    (hcs : cur.children = c :: tail) (ih : P2 p cur (pre ++ [Tok.catchAll nm]) [] nm parent c cm cm R) :
    P1 p cur pre [Tok.catchAll nm] parent cm pc R := by
  intro hinv
  have hwc : wfNode c = true := by
    have := (wfNode_leafcond hinv.wf).1
    rw [hcs] at this
    exact (wfKids_cons.mp this).1
  rw [keyLoop_catch_child hp hcs,
    ih hwc hinv.st (Nat.le_refl _) (fun h => absurd rfl h) (fun _ => ⟨rfl, by rw [hp]; simp⟩),
    infixEvs_start hp, hp]
  have ht : tailEvs p cur (pre ++ [Tok.catchAll nm]) [] nm parent cm cm R.params = retEvs cur.route (R.params ++ [(nm, b :: rest)]) := by
    unfold tailEvs; simp [hp]
  rw [ht]
  cases hr : cur.route with
  | some r => rw [walk_catch_child_some hcs hr]; simp [retEvs, List.append_assoc]
  | none => rw [walk_catch_child_none hcs hr]; simp [retEvs, List.append_assoc]

theorem walk_catch_infix_eq (n : Node) (pre nm t k'' pr es b rest ps) :
    walk n pre (Tok.catchAll nm :: t :: k'') pr es (b :: rest) ps =
      (if b = SLASH then [] else walkInfix (.mk (t :: k'') n.route n.children) nm [b] rest es ps)
      ++ (if b = SLASH then []
          else match n.route with
            | some r => if !es && (t :: k'') == [Tok.lit SLASH] then [Ev.tsr r (ps ++ [(nm, b :: rest)])] else []
            | none => []) := by
  conv => lhs; unfold walk
  rfl

theorem c09 (p cur pre parent cm pc R b rest) (hp : p.drop cm = b :: rest) (nm : Bytes) (t : Tok) (k'' : List Tok)
    (ih : P2 p cur (pre ++ [Tok.catchAll nm]) (t :: k'') nm parent (Node.mk (t :: k'') cur.route cur.children) cm cm R) :
    P1 p cur pre (Tok.catchAll nm :: t :: k'') parent cm pc R := by
  intro hinv
  have hwi : wfNode (Node.mk (t :: k'') cur.route cur.children) = true :=
    wfNode_inode hinv.wf (pre := pre ++ [Tok.catchAll nm]) (by rw [← hinv.key]; simp)
  rw [keyLoop_catch_infix hp,
    ih hwi hinv.st (Nat.le_refl _) (fun h => absurd rfl h) (fun _ => ⟨rfl, by rw [hp]; simp⟩),
    infixEvs_start hp, hp, walk_catch_infix_eq]
  congr 1
  rw [List.append_assoc]
  congr 1
  congr 1
  -- the tail: what the post-loop analysis finds after the catch-all has taken the whole rest
  unfold tailEvs
  simp only [reduceCtorEq, if_false, hp, List.head?_cons, Option.some.injEq]
  by_cases hb : b = SLASH
  · rw [if_pos hb, if_pos hb, postEvs_mid (by rw [hp]; simp) (by simp)]
  · rw [if_neg hb, if_neg hb]
    unfold postEvs postCand
    simp only [List.drop_length, List.isEmpty_nil, List.isEmpty_cons, Bool.and_false, Bool.false_eq_true, if_false,
      pre_catch_ne, Bool.and_true, Node.isLeaf]
    cases hr : cur.route with
    | none => simp [candEvs]
    | some r =>
      simp only [Option.isSome_some, Bool.not_true, Bool.false_eq_true, if_false, if_true]
      cases hes : endsWithSlash p with
      | true => simp [candEvs]
      | false =>
        simp only [Bool.false_eq_true, if_false, Bool.not_false, Bool.true_and]
        split <;> simp [candEvs]

end Fox.Model

namespace Fox.Model
open Fox Fox.Model.Machine

theorem c16 (p cur pre nm parent startPath cm R) : P3 p cur pre [] nm parent startPath cm R := by
  intro _
  rw [infixTail_eq, if_pos rfl]
  unfold tailEvs
  rw [if_pos rfl, pickC_retEvs]

theorem c17 (p cur pre k' nm parent startPath cm R) (hk : ¬ k' = []) (hh : (p.drop startPath).head? = some SLASH)
    (ih : P4 p cur pre k' parent cm { skipNds := R.skipNds, params := R.params ++ [(nm, p.drop startPath)], tsr := R.tsr }) :
    P3 p cur pre k' nm parent startPath cm R := by
  intro hst
  rw [infixTail_eq, if_neg hk, if_pos hh, ih (stackOk_mono (by simp) hst)]
  unfold tailEvs
  rw [if_neg hk, if_pos hh]
  simp only []
  rw [stackEvs_append _ _ _ _ hst]

theorem c18 (p cur pre k' nm parent startPath cm R) (hk : ¬ k' = []) (hh : ¬ (p.drop startPath).head? = some SLASH)
    (ih : P4 p cur pre k' parent p.length { skipNds := R.skipNds, params := R.params ++ [(nm, p.drop startPath)], tsr := R.tsr }) :
    P3 p cur pre k' nm parent startPath cm R := by
  intro hst
  rw [infixTail_eq, if_neg hk, if_neg hh, ih (stackOk_mono (by simp) hst)]
  unfold tailEvs
  rw [if_neg hk, if_neg hh]
  simp only []
  rw [stackEvs_append _ _ _ _ hst]

theorem c19 (p cur pre k parent cm R) (h : (cur.isLeaf && (p.drop cm).isEmpty && k.isEmpty) = true) :
    P4 p cur pre k parent cm R := by
  intro _
  rw [afterLoop_eq, if_pos h]
  unfold postEvs
  rw [if_pos h, pickC_retEvs]

theorem c20 (p cur pre k parent cm R) (h : ¬ (cur.isLeaf && (p.drop cm).isEmpty && k.isEmpty) = true)
    (ih : P5 p (postTsr p cur pre k parent cm R)) : P4 p cur pre k parent cm R := by
  intro hst
  rw [afterLoop_eq, if_neg h, ih (by simpa using hst)]
  unfold postEvs
  rw [if_neg h, pickC_candEvs]
  simp [postTsr]

theorem c21 (p R) (h : R.skipNds = []) : P5 p R := by
  intro _
  rw [backtrack_nil h, h]; rfl

theorem c23 (p R) (f : Frame) (st : List Frame) (h : R.skipNds = f :: st)
    (ih : P1 p f.child [] f.child.key (some f.n) f.pathIndex f.paramCnt
      { skipNds := st, params := List.take f.paramCnt R.params, tsr := R.tsr }) : P5 p R := by
  intro hst
  rw [h] at hst
  have hlen : (List.take f.paramCnt R.params).length = f.paramCnt := by
    rw [List.length_take]; exact Nat.min_eq_left hst.1
  have hinv : WalkInv f.child [] f.child.key f.pathIndex f.paramCnt
      { skipNds := st, params := List.take f.paramCnt R.params, tsr := R.tsr } :=
    ⟨hst.2.1, rfl, fun h => absurd rfl h, hlen.symm, by simp only [hlen]; exact hst.2.2⟩
  rw [backtrack_cons h, ih hinv, h]
  rfl

end Fox.Model

namespace Fox.Model
open Fox Fox.Model.Machine

theorem beq_nil_isEmpty (rest : Bytes) : (rest == []) = rest.isEmpty := by cases rest <;> rfl

theorem walkInv_pos {cur : Node} {pre : List Tok} {cm pc : Nat} {R : Regs} (h : WalkInv cur pre [] cm pc R) : 0 < cm := by
  apply h.pos
  have := h.key
  rw [List.append_nil] at this
  rw [this]; exact wfNode_key_ne h.wf

/-- the walk at the end of a node's key, with the children selected the way the machine selects them -/
theorem walk_nodeEnd {cur : Node} (hw : wfNode cur = true) {cm : Nat} (hcm : 0 < cm) (pre pr es b rest ps) :
    walk cur pre [] pr es (b :: rest) ps =
      candEvs (earlyCand cur cm b rest) ps
      ++ ((if b == STAR then [] else walkKids (.static b) cur.children cur.route es (b :: rest) ps)
      ++ ((match paramChild cur with | some c => walk c [] c.key cur.route es (b :: rest) ps | none => [])
      ++ (match wildChild cur with | some c => walk c [] c.key cur.route es (b :: rest) ps | none => []))) := by
  have hd := (wfNode_leafcond hw)
  have hnd : nodupB (kindsOf cur.children) = true := by
    cases cur with | mk k r cs => exact (wfNode_kids hw).2.1
  rw [walk_nil_cons, walkKids_find hnd .param, walkKids_find hnd .catchAll]
  simp only [List.append_assoc]
  congr 1
  unfold earlyCand
  simp only [Node.isLeaf, beq_nil_isEmpty, hcm, decide_true, Bool.and_true]
  cases cur.route with
  | none => simp [candEvs]
  | some r => simp only [Option.isSome_some, Bool.true_and]; split <;> simp_all [candEvs]

/-- the "static" alternative of the walk is empty when the machine's search finds nothing -/
theorem static_none {cur : Node} (hw : wfNode cur = true) {b : UInt8} (hs : staticChild cur b = none) (es rest ps) :
    (if b == STAR then [] else walkKids (.static b) cur.children cur.route es (b :: rest) ps) = [] := by
  have hwk := (wfNode_leafcond hw).1
  have hnd : nodupB (kindsOf cur.children) = true := by
    cases cur with | mk k r cs => exact (wfNode_kids hw).2.1
  by_cases hstar : b = STAR
  · subst hstar; simp
  · have : (b == STAR) = false := by simpa using hstar
    rw [this]; simp only [Bool.false_eq_true, if_false]
    by_cases hl : b = LBR
    · subst hl; exact walkKids_static_lbr hwk _ _ _ _
    · rw [walkKids_find hnd, ← staticChild_static hwk hl hstar, hs]

theorem stackEvs_pushWild (es p) (cur : Node) (cm : Nat) (ps : Binds) (st : List Frame) :
    stackEvs es p ps (pushWild cur cm ps.length st) =
      (match wildChild cur with | some c => walk c [] c.key cur.route es (p.drop cm) ps | none => []) ++ stackEvs es p ps st := by
  unfold pushWild
  cases wildChild cur with
  | none => rfl
  | some wc => simp [stackEvs, frameEvs, List.take_length]

theorem stackEvs_pushParam (es p) (cur : Node) (cm : Nat) (ps : Binds) (st : List Frame) :
    stackEvs es p ps (pushParam cur cm ps.length st) =
      (match paramChild cur with | some c => walk c [] c.key cur.route es (p.drop cm) ps | none => []) ++ stackEvs es p ps st := by
  unfold pushParam
  cases paramChild cur with
  | none => rfl
  | some wc => simp [stackEvs, frameEvs, List.take_length]

theorem child_wf {cur : Node} (hw : wfNode cur = true) {f : Node → Bool} {c : Node} (h : cur.children.find? f = some c) :
    wfNode c = true :=
  mem_wfKids (wfNode_leafcond hw).1 (List.mem_of_find?_eq_some h)

theorem stackOk_pushWild {cur : Node} (hw : wfNode cur = true) (cm n : Nat) {st : List Frame} (hs : stackOk n st) :
    stackOk n (pushWild cur cm n st) := by
  unfold pushWild
  cases h : wildChild cur with
  | none => exact hs
  | some wc => exact ⟨Nat.le_refl _, child_wf hw h, hs⟩

theorem stackOk_pushParam {cur : Node} (hw : wfNode cur = true) (cm n : Nat) {st : List Frame} (hs : stackOk n st) :
    stackOk n (pushParam cur cm n st) := by
  unfold pushParam
  cases h : paramChild cur with
  | none => exact hs
  | some wc => exact ⟨Nat.le_refl _, child_wf hw h, hs⟩

theorem c24 (p cur pre parent cm pc b rest R) (hs : staticChild cur b = none) (wc : Node) (hpc : paramChild cur = some wc)
    (ih : P1 p wc [] wc.key (some cur) cm pc
      { skipNds := pushWild cur cm pc (earlyTsr cur cm b rest R).skipNds, params := (earlyTsr cur cm b rest R).params,
        tsr := (earlyTsr cur cm b rest R).tsr }) :
    P6 p cur pre parent cm pc b rest R := by
  intro hinv hp
  have hcm := walkInv_pos hinv
  have hinv' : WalkInv wc [] wc.key cm pc
      { skipNds := pushWild cur cm pc (earlyTsr cur cm b rest R).skipNds, params := (earlyTsr cur cm b rest R).params,
        tsr := (earlyTsr cur cm b rest R).tsr } :=
    ⟨child_wf hinv.wf hpc, rfl, fun h => absurd rfl h, by simp [hinv.cnt],
      by simp only [earlyTsr_params, earlyTsr_skipNds, hinv.cnt]; exact stackOk_pushWild hinv.wf _ _ hinv.st⟩
  rw [nodeEnd_eq, hs, hpc]
  simp only []
  rw [ih hinv', walk_nodeEnd hinv.wf hcm, static_none hinv.wf hs, hpc, List.append_assoc, pickC_candEvs]
  simp only [earlyTsr_params, earlyTsr_skipNds, hinv.cnt, parentLeafRoute, Option.bind_some, hp, List.nil_append]
  rw [stackEvs_pushWild, hp, List.append_assoc]
  rfl

theorem c25 (p cur pre parent cm pc b rest R) (hs : staticChild cur b = none) (hpc : paramChild cur = none) (wc : Node)
    (hwc : wildChild cur = some wc) (ih : P1 p wc [] wc.key (some cur) cm pc (earlyTsr cur cm b rest R)) :
    P6 p cur pre parent cm pc b rest R := by
  intro hinv hp
  have hcm := walkInv_pos hinv
  have hinv' : WalkInv wc [] wc.key cm pc (earlyTsr cur cm b rest R) :=
    ⟨child_wf hinv.wf hwc, rfl, fun h => absurd rfl h, by simp [hinv.cnt], by simpa using hinv.st⟩
  rw [nodeEnd_eq, hs, hpc, hwc]
  simp only []
  rw [ih hinv', walk_nodeEnd hinv.wf hcm, static_none hinv.wf hs, hpc, hwc, List.append_assoc, pickC_candEvs]
  simp only [earlyTsr_params, earlyTsr_skipNds, parentLeafRoute, Option.bind_some, hp, List.nil_append]
  rfl

theorem c26 (p cur pre parent cm pc b rest R) (hs : staticChild cur b = none) (hpc : paramChild cur = none)
    (hwc : wildChild cur = none) (ih : P4 p cur pre [] parent cm (earlyTsr cur cm b rest R)) :
    P6 p cur pre parent cm pc b rest R := by
  intro hinv hp
  have hcm := walkInv_pos hinv
  rw [nodeEnd_eq, hs, hpc, hwc]
  simp only []
  rw [ih (by simpa using hinv.st), walk_nodeEnd hinv.wf hcm, static_none hinv.wf hs, hpc, hwc, List.append_assoc, pickC_candEvs]
  simp only [earlyTsr_params, earlyTsr_skipNds, List.nil_append]
  -- the late "exactly '/' is left" site repeats the early one
  have hpe : postEvs p cur pre [] parent cm R.params = candEvs (earlyCand cur cm b rest) R.params := by
    unfold postEvs postCand earlyCand
    simp only [hp, List.isEmpty_cons, Bool.and_false, Bool.false_and, Bool.false_eq_true, if_false, List.isEmpty_nil,
      hcm, decide_true, Bool.and_true, Node.isLeaf]
    cases hr : cur.route with
    | none => simp
    | some r =>
      simp only [Option.isSome_some, Bool.not_true, Bool.false_eq_true, if_false, Bool.true_and, if_true]
      cases rest with
      | nil => simp
      | cons x xs => simp
  rw [hpe]
  have : earlyTsr cur cm b rest R = setTsr R (earlyCand cur cm b rest) R.params := rfl
  rw [this, setTsr_tsr]
  cases earlyCand cur cm b rest with
  | none => rfl
  | some r => simp [candEvs]

end Fox.Model

namespace Fox.Model
open Fox Fox.Model.Machine

theorem staticChild_ne_star {cur : Node} {b : UInt8} {sc : Node} (h : staticChild cur b = some sc) : b ≠ STAR := by
  intro hb; subst hb; rw [staticChild_star] at h; cases h

theorem c27 (p cur pre parent cm pc b rest R) (sc : Node) (hs : staticChild cur b = some sc)
    (ih : P1 p sc [] sc.key (some cur) cm pc
      { skipNds := pushParam cur cm pc (pushWild cur cm pc (earlyTsr cur cm b rest R).skipNds),
        params := (earlyTsr cur cm b rest R).params, tsr := (earlyTsr cur cm b rest R).tsr }) :
    P6 p cur pre parent cm pc b rest R := by
  intro hinv hp
  have hcm := walkInv_pos hinv
  have hwk := (wfNode_leafcond hinv.wf).1
  have hnd : nodupB (kindsOf cur.children) = true := by
    cases cur with | mk k r cs => exact (wfNode_kids hinv.wf).2.1
  have hstar := staticChild_ne_star hs
  have hsc : wfNode sc = true := by
    unfold staticChild at hs
    have : (b == STAR) = false := by simpa using hstar
    rw [this] at hs
    exact child_wf hinv.wf hs
  have hinv' : WalkInv sc [] sc.key cm pc
      { skipNds := pushParam cur cm pc (pushWild cur cm pc (earlyTsr cur cm b rest R).skipNds),
        params := (earlyTsr cur cm b rest R).params, tsr := (earlyTsr cur cm b rest R).tsr } :=
    ⟨hsc, rfl, fun h => absurd rfl h, by simp [hinv.cnt],
      by simp only [earlyTsr_params, earlyTsr_skipNds, hinv.cnt]
         exact stackOk_pushParam hinv.wf _ _ (stackOk_pushWild hinv.wf _ _ hinv.st)⟩
  rw [nodeEnd_eq, hs]
  simp only []
  rw [ih hinv', walk_nodeEnd hinv.wf hcm, List.append_assoc, pickC_candEvs]
  simp only [earlyTsr_params, earlyTsr_skipNds, hinv.cnt, parentLeafRoute, Option.bind_some, hp]
  rw [stackEvs_pushParam, stackEvs_pushWild, hp]
  have hbs : (b == STAR) = false := by simpa using hstar
  rw [hbs]
  simp only [Bool.false_eq_true, if_false, List.append_assoc]
  by_cases hl : b = LBR
  · -- the path byte is '{': the linear search lands on the param child, which is then also on the stack
    subst hl
    rw [staticChild_lbr hwk] at hs
    rw [walkKids_static_lbr hwk, hs]
    simp only [List.nil_append]
    exact pickC_dup _ _ _
  · rw [walkKids_find hnd, ← staticChild_static hwk hl hstar, hs]
    rfl

theorem c22 (p R) (h : R.skipNds = []) (r : Route) (ps : Binds) (_ht : R.tsr = some (r, ps)) : P5 p R := c21 p R h

end Fox.Model

namespace Fox.Model
open Fox Fox.Model.Machine

/-! ### the catch-all loop -/

theorem c10 (p cur pre k' nm parent inode startPath cm R) (hp : p.drop cm = [])
    (ih : P3 p cur pre k' nm parent startPath cm R) : P2 p cur pre k' nm parent inode startPath cm R := by
  intro _ hst _ _ _
  rw [infixLoop_end hp, ih hst]
  have : infixEvs inode nm (endsWithSlash p) p startPath cm R.params = [] := by
    unfold infixEvs
    split
    · rw [hp]
    · rw [hp, walkInfix_nil]
  rw [this]; rfl

theorem drop_rel {p : Bytes} {startPath cm : Nat} (h : startPath ≤ cm) :
    (p.drop startPath).drop (cm - startPath) = p.drop cm := by
  rw [List.drop_drop]; congr 1; omega

theorem c15 (p cur pre k' nm parent inode startPath cm R b rest) (hp : p.drop cm = b :: rest)
    (hc : ¬ (0 < segEnd SLASH (b :: rest) ∧ segEnd SLASH (b :: rest) < (b :: rest).length))
    (ih : P3 p cur pre k' nm parent startPath cm R) : P2 p cur pre k' nm parent inode startPath cm R := by
  intro _ hst _ hlast _
  rw [infixLoop_step hp, if_neg hc, ih hst]
  have : infixEvs inode nm (endsWithSlash p) p startPath cm R.params = [] := by
    unfold infixEvs
    by_cases hb : b = SLASH
    · subst hb
      split
      · rw [hp]; simp
      · rename_i hne
        rw [hp, walkInfix_slash_stop _ _ _ _ _ _ (hlast hne)]
    · have h0 : ¬ segEnd SLASH (b :: rest) = 0 := fun h => hb ((segEnd_zero_iff _ _ _).mp h)
      have hns : SLASH ∉ b :: rest := segEnd_noslash (fun h => hc ⟨by omega, h⟩)
      split
      · rw [hp]; simp only [if_neg hb]
        exact walkInfix_noslash _ _ _ _ _ (fun h => hns (List.mem_cons_of_mem _ h)) _
      · rw [hp]; exact walkInfix_noslash _ _ _ _ _ hns _
  rw [this]; rfl

/-- one turn of the loop on the walk's side: the sub-walk at the next '/', then the rest of the loop -/
theorem infixEvs_step {p : Bytes} {startPath cm : Nat} (hle : startPath ≤ cm) {b : UInt8} {rest : Bytes}
    (hp : p.drop cm = b :: rest)
    (hidx : 0 < segEnd SLASH (b :: rest) ∧ segEnd SLASH (b :: rest) < (b :: rest).length)
    (hlast : cm ≠ startPath → ((p.drop startPath).take (cm - startPath)).getLast? = some SLASH)
    (inode : Node) (nm : Bytes) (es : Bool) (ps : Binds) :
    infixEvs inode nm es p startPath cm ps =
        walk inode [] inode.key none es (p.drop (cm + segEnd SLASH (b :: rest)))
          (ps ++ [(nm, (p.drop startPath).take (cm + segEnd SLASH (b :: rest) - startPath))])
        ++ infixEvs inode nm es p startPath (cm + segEnd SLASH (b :: rest) + 1) ps
    ∧ ((p.drop startPath).take (cm + segEnd SLASH (b :: rest) + 1 - startPath)).getLast? = some SLASH
    ∧ p.drop (cm + segEnd SLASH (b :: rest)) ≠ [] := by
  generalize hidxdef : segEnd SLASH (b :: rest) = idx at *
  have hb : ¬ b = SLASH := fun h => by
    have := (segEnd_zero_iff SLASH b rest).mpr h; omega
  obtain ⟨r, hr⟩ := segEnd_drop_slash SLASH (b :: rest) (by rw [hidxdef]; exact hidx.2)
  rw [hidxdef] at hr
  have hseg : SLASH ∉ (b :: rest).take idx := by
    have := segEnd_take_noslash SLASH (b :: rest); rw [hidxdef] at this; exact this
  have hsplit : b :: rest = (b :: rest).take idx ++ SLASH :: r := by
    rw [← hr, List.take_append_drop]
  -- the accumulated capture
  have hq : (p.drop startPath).drop (cm - startPath) = b :: rest := by rw [drop_rel hle, hp]
  have hacc1 : (p.drop startPath).take (cm + idx - startPath)
      = (p.drop startPath).take (cm - startPath) ++ (b :: rest).take idx := by
    have : cm + idx - startPath = (cm - startPath) + idx := by omega
    rw [this, List.take_add, hq]
  have hdrop1 : p.drop (cm + idx) = SLASH :: r := by rw [drop_add_of_drop hp, hr]
  have hq2 : (p.drop startPath).drop (cm + idx - startPath) = SLASH :: r := by
    rw [drop_rel (by omega), hdrop1]
  have hacc2 : (p.drop startPath).take (cm + idx + 1 - startPath)
      = (p.drop startPath).take (cm + idx - startPath) ++ [SLASH] := by
    have : cm + idx + 1 - startPath = (cm + idx - startPath) + 1 := by omega
    rw [this, List.take_add, hq2]; rfl
  have hdrop2 : p.drop (cm + idx + 1) = r := by
    rw [drop_add_of_drop hdrop1 1]; rfl
  refine ⟨?_, ?_, ?_⟩
  · -- both forms of `infixEvs` at `cm` are the byte-wise loop of the walk on the capture so far
    have hform : infixEvs inode nm es p startPath cm ps
        = walkInfix inode nm ((p.drop startPath).take (cm - startPath)) (b :: rest) es ps := by
      unfold infixEvs
      split
      · rename_i heq
        subst heq
        rw [hp]; simp only [if_neg hb, Nat.sub_self, List.take_zero]
        rw [walkInfix_other _ _ _ _ _ _ _ hb]; rfl
      · rw [hp]
    have hnext : infixEvs inode nm es p startPath (cm + idx + 1) ps
        = walkInfix inode nm ((p.drop startPath).take (cm + idx + 1 - startPath)) r es ps := by
      unfold infixEvs
      rw [if_neg (by omega), hdrop2]
    rw [hform, hnext, hdrop1]
    conv => lhs; rw [hsplit]
    rw [walkInfix_skip _ _ _ _ _ hseg, ← hacc1]
    have hgl : ¬ ((p.drop startPath).take (cm + idx - startPath)).getLast? = some SLASH := by
      rw [hacc1, List.getLast?_append]
      have hne : (b :: rest).take idx ≠ [] := by
        cases idx with
        | zero => omega
        | succ n => simp
      cases hl : ((b :: rest).take idx).getLast? with
      | none => exact absurd (List.getLast?_eq_none_iff.mp hl) hne
      | some x =>
        intro hx
        have : x = SLASH := by simpa using hx
        subst this
        exact hseg (List.mem_of_getLast? hl)
    rw [walkInfix_slash_go _ _ _ _ _ _ hgl, hacc2]
  · rw [hacc2, List.getLast?_append]; rfl
  · rw [hdrop1]; simp

theorem tailEvs_cm_irrel {p : Bytes} {startPath : Nat} (h : ¬ (p.drop startPath).head? = some SLASH)
    (cur pre k' nm parent cm cm' ps) :
    tailEvs p cur pre k' nm parent startPath cm ps = tailEvs p cur pre k' nm parent startPath cm' ps := by
  unfold tailEvs; simp only [if_neg h]

end Fox.Model

namespace Fox.Model
open Fox Fox.Model.Machine

theorem sub_lookup {p' : Bytes} {inode : Node} (hw : wfNode inode = true) (ih : P1 p' inode [] inode.key none 0 0 {}) :
    keyLoop false p' inode [] inode.key none 0 0 {} = pickC none (walk inode [] inode.key none (endsWithSlash p') p' []) := by
  have hinv : WalkInv inode [] inode.key 0 0 {} := ⟨hw, rfl, fun h => absurd rfl h, rfl, trivial⟩
  rw [ih hinv]
  simp [stackEvs, parentLeafRoute]

theorem infix_pick {p : Bytes} {startPath cm : Nat} (hle : startPath ≤ cm) {b : UInt8} {rest : Bytes}
    (hp : p.drop cm = b :: rest)
    (hidx : 0 < segEnd SLASH (b :: rest) ∧ segEnd SLASH (b :: rest) < (b :: rest).length)
    (hlast : cm ≠ startPath → ((p.drop startPath).take (cm - startPath)).getLast? = some SLASH)
    (hhead : (p.drop startPath).head? = some SLASH → cm = startPath ∧ p.drop cm ≠ [])
    {inode : Node} (hw : wfNode inode = true)
    (ih : P1 (p.drop (cm + segEnd SLASH (b :: rest))) inode [] inode.key none 0 0 {})
    (cur pre k' nm parent) (t : Cand) (ps : Binds) (S : List Ev) :
    pickC t (infixEvs inode nm (endsWithSlash p) p startPath cm ps
        ++ (tailEvs p cur pre k' nm parent startPath cm ps ++ S)) =
      (match keyLoop false (p.drop (cm + segEnd SLASH (b :: rest))) inode [] inode.key none 0 0 {} with
       | .none =>
         pickC t (infixEvs inode nm (endsWithSlash p) p startPath (cm + segEnd SLASH (b :: rest) + 1) ps
           ++ (tailEvs p cur pre k' nm parent startPath (cm + segEnd SLASH (b :: rest) + 1) ps ++ S))
       | .found r sps true =>
         pickC (orTsr t (r, ps ++ [(nm, (p.drop startPath).take (cm + segEnd SLASH (b :: rest) - startPath))] ++ sps))
           (infixEvs inode nm (endsWithSlash p) p startPath (cm + segEnd SLASH (b :: rest) + 1) ps
             ++ (tailEvs p cur pre k' nm parent startPath (cm + segEnd SLASH (b :: rest) + 1) ps ++ S))
       | .found r sps false =>
         .found r (ps ++ [(nm, (p.drop startPath).take (cm + segEnd SLASH (b :: rest) - startPath))] ++ sps) false
       | .bad => .bad) := by
  obtain ⟨hstep, _, hne⟩ := infixEvs_step hle hp hidx hlast inode nm (endsWithSlash p) ps
  have hnh : ¬ (p.drop startPath).head? = some SLASH := by
    intro hh
    obtain ⟨heq, _⟩ := hhead hh
    subst heq
    rw [hp] at hh
    have hb : b = SLASH := by simpa using hh
    have := (segEnd_zero_iff SLASH b rest).mpr hb
    omega
  rw [hstep, List.append_assoc, pickC_append, walk_prefix, pick_map_pre, ← endsWithSlash_drop hne, ← sub_lookup hw ih,
    tailEvs_cm_irrel hnh cur pre k' nm parent cm (cm + segEnd SLASH (b :: rest) + 1)]
  cases keyLoop false (p.drop (cm + segEnd SLASH (b :: rest))) inode [] inode.key none 0 0 {} with
  | none => rfl
  | bad => rfl
  | found r sps tsr => cases tsr <;> rfl

theorem p2_side {p : Bytes} {startPath cm : Nat} (hle : startPath ≤ cm) {b : UInt8} {rest : Bytes}
    (hp : p.drop cm = b :: rest)
    (hidx : 0 < segEnd SLASH (b :: rest) ∧ segEnd SLASH (b :: rest) < (b :: rest).length)
    (hlast : cm ≠ startPath → ((p.drop startPath).take (cm - startPath)).getLast? = some SLASH)
    (hhead : (p.drop startPath).head? = some SLASH → cm = startPath ∧ p.drop cm ≠ []) :
    startPath ≤ cm + segEnd SLASH (b :: rest) + 1 ∧
    (cm + segEnd SLASH (b :: rest) + 1 ≠ startPath →
      ((p.drop startPath).take (cm + segEnd SLASH (b :: rest) + 1 - startPath)).getLast? = some SLASH) ∧
    ((p.drop startPath).head? = some SLASH →
      cm + segEnd SLASH (b :: rest) + 1 = startPath ∧ p.drop (cm + segEnd SLASH (b :: rest) + 1) ≠ []) := by
  obtain ⟨_, hl, _⟩ := infixEvs_step hle hp hidx hlast (default : Node) [] false []
  refine ⟨by omega, fun _ => hl, ?_⟩
  intro hh
  exfalso
  obtain ⟨heq, _⟩ := hhead hh
  subst heq
  rw [hp] at hh
  have hb : b = SLASH := by simpa using hh
  have := (segEnd_zero_iff SLASH b rest).mpr hb
  omega

theorem c11 (p cur pre k' nm parent inode startPath cm R b rest) (hp : p.drop cm = b :: rest)
    (hidx : 0 < segEnd SLASH (b :: rest) ∧ segEnd SLASH (b :: rest) < (b :: rest).length)
    (hres : keyLoop false (p.drop (cm + segEnd SLASH (b :: rest))) inode [] inode.key none 0 0 {} = Result.none)
    (ih1 : P1 (p.drop (cm + segEnd SLASH (b :: rest))) inode [] inode.key none 0 0 {})
    (ih2 : P2 p cur pre k' nm parent inode startPath (cm + segEnd SLASH (b :: rest) + 1) R) :
    P2 p cur pre k' nm parent inode startPath cm R := by
  intro hw hst hle hlast hhead
  obtain ⟨s1, s2, s3⟩ := p2_side hle hp hidx hlast hhead
  rw [infixLoop_step hp, if_pos hidx, infix_pick hle hp hidx hlast hhead hw ih1, hres]
  simp only []
  exact ih2 hw hst s1 s2 s3

theorem c12 (p cur pre k' nm parent inode startPath cm R b rest) (hp : p.drop cm = b :: rest)
    (hidx : 0 < segEnd SLASH (b :: rest) ∧ segEnd SLASH (b :: rest) < (b :: rest).length)
    (r : Route) (sps : Binds)
    (hres : keyLoop false (p.drop (cm + segEnd SLASH (b :: rest))) inode [] inode.key none 0 0 {} = Result.found r sps true)
    (ih1 : P1 (p.drop (cm + segEnd SLASH (b :: rest))) inode [] inode.key none 0 0 {})
    (ih2 : P2 p cur pre k' nm parent inode startPath (cm + segEnd SLASH (b :: rest) + 1)
      (setTsr R (some r) (R.params ++ [(nm, List.take (cm + segEnd SLASH (b :: rest) - startPath) (List.drop startPath p))] ++ sps))) :
    P2 p cur pre k' nm parent inode startPath cm R := by
  intro hw hst hle hlast hhead
  obtain ⟨s1, s2, s3⟩ := p2_side hle hp hidx hlast hhead
  rw [infixLoop_step hp, if_pos hidx, infix_pick hle hp hidx hlast hhead hw ih1, hres]
  simp only []
  have := ih2 hw (by simpa using hst) s1 s2 s3
  rw [this, setTsr_tsr]
  simp

theorem c13 (p cur pre k' nm parent inode startPath cm R b rest) (hp : p.drop cm = b :: rest)
    (hidx : 0 < segEnd SLASH (b :: rest) ∧ segEnd SLASH (b :: rest) < (b :: rest).length)
    (r : Route) (sps : Binds)
    (hres : keyLoop false (p.drop (cm + segEnd SLASH (b :: rest))) inode [] inode.key none 0 0 {} = Result.found r sps false)
    (ih1 : P1 (p.drop (cm + segEnd SLASH (b :: rest))) inode [] inode.key none 0 0 {}) :
    P2 p cur pre k' nm parent inode startPath cm R := by
  intro hw _ hle hlast hhead
  rw [infixLoop_step hp, if_pos hidx, infix_pick hle hp hidx hlast hhead hw ih1, hres]

theorem c14 (p cur pre k' nm parent inode startPath cm R b rest) (hp : p.drop cm = b :: rest)
    (hidx : 0 < segEnd SLASH (b :: rest) ∧ segEnd SLASH (b :: rest) < (b :: rest).length)
    (hres : keyLoop false (p.drop (cm + segEnd SLASH (b :: rest))) inode [] inode.key none 0 0 {} = Result.bad)
    (ih1 : P1 (p.drop (cm + segEnd SLASH (b :: rest))) inode [] inode.key none 0 0 {}) :
    P2 p cur pre k' nm parent inode startPath cm R := by
  intro hw _ hle hlast hhead
  rw [infixLoop_step hp, if_pos hidx, infix_pick hle hp hidx hlast hhead hw ih1, hres]

/-- every function of the machine computes `pickC` of the events still to be explored -/
theorem machine_refines_all :
    (∀ p cur pre k parent cm pc R, P1 p cur pre k parent cm pc R) ∧
    (∀ p cur pre k' nm parent inode startPath cm R, P2 p cur pre k' nm parent inode startPath cm R) ∧
    (∀ p cur pre k' nm parent startPath cm R, P3 p cur pre k' nm parent startPath cm R) ∧
    (∀ p cur pre k parent cm R, P4 p cur pre k parent cm R) ∧
    (∀ p R, P5 p R) ∧
    (∀ p cur pre parent cm pc b rest R, P6 p cur pre parent cm pc b rest R) := by
  have key := keyLoop.mutual_induct
    (fun lz p cur pre k parent cm pc R => lz = false → P1 p cur pre k parent cm pc R)
    (fun lz p cur pre k' nm parent inode startPath cm R => lz = false → P2 p cur pre k' nm parent inode startPath cm R)
    (fun lz p cur pre k' nm parent startPath cm R => lz = false → P3 p cur pre k' nm parent startPath cm R)
    (fun lz p cur pre k parent cm R => lz = false → P4 p cur pre k parent cm R)
    (fun lz p R => lz = false → P5 p R)
    (fun lz p cur pre parent cm pc b rest R => lz = false → P6 p cur pre parent cm pc b rest R)
  have all := by
    apply key
    · intro lz p cur pre k parent cm pc R hp ih hlz; subst hlz; exact c01 p cur pre k parent cm pc R hp (ih rfl)
    · intro lz p cur pre parent cm pc R b rest hp ih hlz; subst hlz; exact c02 p cur pre parent cm pc R b rest hp (ih rfl)
    · intro lz p cur pre parent cm pc R b rest hp c k' hc ih hlz; subst hlz; exact c03 p cur pre parent cm pc R b rest hp c k' hc (ih rfl)
    · intro lz p cur pre parent cm pc R b rest hp c k' hc ih hlz; subst hlz; exact c04 p cur pre parent cm pc R b rest hp c k' hc (ih rfl)
    · intro lz p cur pre parent cm pc R b rest hp nm k' h0 ih hlz; subst hlz; exact c05 p cur pre parent cm pc R b rest hp nm k' h0 (ih rfl)
    · intro lz p cur pre parent cm pc R b rest hp nm k' h0 ih hlz; subst hlz; exact c06 p cur pre parent cm pc R b rest hp nm k' h0 (ih rfl)
    · intro lz p cur pre parent cm pc R b rest hp nm hcs hlz; subst hlz; exact c07 p cur pre parent cm pc R b rest hp nm hcs
    · intro lz p cur pre parent cm pc R b rest hp nm c tail hcs ih hlz; subst hlz; exact c08 p cur pre parent cm pc R b rest hp nm c tail hcs (ih rfl)
    · intro lz p cur pre parent cm pc R b rest hp nm t k'' ih hlz; subst hlz; exact c09 p cur pre parent cm pc R b rest hp nm t k'' (ih rfl)
    · intro lz p cur pre k' nm parent inode startPath cm R hp ih hlz; subst hlz; exact c10 p cur pre k' nm parent inode startPath cm R hp (ih rfl)
    · intro lz p cur pre k' nm parent inode startPath cm R b rest hp hidx hres ih1 ih2 hlz; subst hlz
      exact c11 p cur pre k' nm parent inode startPath cm R b rest hp hidx hres (ih1 rfl) (ih2 rfl)
    · intro lz p cur pre k' nm parent inode startPath cm R b rest hp hidx r sps hres ih1 ih2 hlz; subst hlz
      exact c12 p cur pre k' nm parent inode startPath cm R b rest hp hidx r sps hres (ih1 rfl) (ih2 rfl)
    · intro lz p cur pre k' nm parent inode startPath cm R b rest hp hidx r sps hres ih1 hlz; subst hlz
      exact c13 p cur pre k' nm parent inode startPath cm R b rest hp hidx r sps hres (ih1 rfl)
    · intro lz p cur pre k' nm parent inode startPath cm R b rest hp hidx hres ih1 hlz; subst hlz
      exact c14 p cur pre k' nm parent inode startPath cm R b rest hp hidx hres (ih1 rfl)
    · intro lz p cur pre k' nm parent inode startPath cm R b rest hp hc ih hlz; subst hlz
      exact c15 p cur pre k' nm parent inode startPath cm R b rest hp hc (ih rfl)
    · intro lz p cur pre nm parent startPath cm R hlz; exact c16 p cur pre nm parent startPath cm R
    · intro lz p cur pre k' nm parent startPath cm R hk hh ih hlz; subst hlz; exact c17 p cur pre k' nm parent startPath cm R hk hh (ih rfl)
    · intro lz p cur pre k' nm parent startPath cm R hk hh ih hlz; subst hlz; exact c18 p cur pre k' nm parent startPath cm R hk hh (ih rfl)
    · intro lz p cur pre k parent cm R h hlz; exact c19 p cur pre k parent cm R h
    · intro lz p cur pre k parent cm R h ih hlz; subst hlz; exact c20 p cur pre k parent cm R h (ih rfl)
    · intro lz p R h r ps ht hlz; exact c22 p R h r ps ht
    · intro lz p R h _ hlz; exact c21 p R h
    · intro lz p R f st h ih hlz; subst hlz; exact c23 p R f st h (ih rfl)
    · intro lz p cur pre parent cm pc b rest R; dsimp only; intro hs wc hpc ih hlz; subst hlz; exact c24 p cur pre parent cm pc b rest R hs wc hpc (ih rfl)
    · intro lz p cur pre parent cm pc b rest R; dsimp only; intro hs hpc wc hwc ih hlz; subst hlz; exact c25 p cur pre parent cm pc b rest R hs hpc wc hwc (ih rfl)
    · intro lz p cur pre parent cm pc b rest R; dsimp only; intro hs hpc hwc ih hlz; subst hlz; exact c26 p cur pre parent cm pc b rest R hs hpc hwc (ih rfl)
    · intro lz p cur pre parent cm pc b rest R; dsimp only; intro sc hs ih hlz; subst hlz; exact c27 p cur pre parent cm pc b rest R sc hs (ih rfl)
  obtain ⟨h1, h2, h3, h4, h5, h6⟩ := all
  exact ⟨fun p cur pre k parent cm pc R => h1 false p cur pre k parent cm pc R rfl,
    fun p cur pre k' nm parent inode startPath cm R => h2 false p cur pre k' nm parent inode startPath cm R rfl,
    fun p cur pre k' nm parent startPath cm R => h3 false p cur pre k' nm parent startPath cm R rfl,
    fun p cur pre k parent cm R => h4 false p cur pre k parent cm R rfl,
    fun p R => h5 false p R rfl,
    fun p cur pre parent cm pc b rest R => h6 false p cur pre parent cm pc b rest R rfl⟩

/-- **lookupByPath as the Go code runs it = `pick` of the enumerating walk**: on a well-formed node, for every path and
    every initial parameter list, the state machine (skipped-node stack, parameter buffer truncated on backtracking,
    first trailing-slash candidate kept, early return on a direct match, recursive sub-lookups of catch-alls) returns
    exactly what `pick (pathEvents …)` returns, which is what the routing theorems of C01 / C08 / C09 are about. -/
theorem lookupByPath_eq_pick {target : Node} (hw : wfNode target = true) (path : Bytes) (ps0 : Binds) :
    Machine.lookupByPath target path ps0 = pick (pathEvents target path ps0) := by
  have hinv : WalkInv target [] target.key 0 ps0.length { params := ps0 } :=
    ⟨hw, rfl, fun h => absurd rfl h, rfl, trivial⟩
  unfold Machine.lookupByPath pathEvents
  rw [machine_refines_all.1 path target [] target.key none 0 ps0.length { params := ps0 } hinv, ← pickC_none_eq_pick]
  simp [stackEvs, parentLeafRoute]

end Fox.Model
