import FoxModel.Lemmas.MachineLazy
import FoxModel.Model.MachineServe
/-
  `Machine.serve` (ServeHTTP over the state machines, lazy Allow loops) = `Model.serve` on every well-formed forest.
-/
namespace Fox.Model
open Fox Fox.Model.Machine

theorem machine_allows_eq {rs : Roots} (hw : wfRoots rs = true) (m host path : Bytes) :
    Machine.allows rs m host path = Model.allows rs m host path := by
  unfold Machine.allows Model.allows
  have h1 := machine_lookup_lazy rs m host path
  have h2 := machine_lookup_eq hw m host path
  rw [← h2]
  generalize Machine.lookup rs m host path true = x at h1 ⊢
  generalize Machine.lookup rs m host path false = y at h1 ⊢
  cases x <;> cases y <;> simp_all [forget]

theorem machine_optionsHits_eq {rs : Roots} (hw : wfRoots rs = true) (host path : Bytes) :
    Machine.optionsHits rs host path = Model.optionsHits rs host path := by
  unfold Machine.optionsHits Model.optionsHits
  simp only [machine_allows_eq hw]

theorem machine_noMethodHits_eq {rs : Roots} (hw : wfRoots rs = true) (m host path : Bytes) :
    Machine.noMethodHits rs m host path = Model.noMethodHits rs m host path := by
  unfold Machine.noMethodHits Model.noMethodHits
  simp only [machine_allows_eq hw]

theorem machine_special_eq {rs : Roots} (hw : wfRoots rs = true) (cfg : Cfg) (m host path : Bytes) :
    Machine.special cfg rs m host path = Model.special cfg rs m host path := by
  unfold Machine.special Model.special
  rw [machine_optionsHits_eq hw, machine_noMethodHits_eq hw]

theorem machine_onTsr_eq {rs : Roots} (hw : wfRoots rs = true) (cfg : Cfg) (m host path urlPath : Bytes) (r ps) :
    Machine.onTsr cfg rs m host path urlPath r ps = Model.onTsr cfg rs m host path urlPath r ps := by
  unfold Machine.onTsr Model.onTsr
  rw [machine_special_eq hw]

/-- **ServeHTTP's decision over the matcher as the Go code runs it = the serving model of C08 / C11**: which handler kind
    answers (route, redirect, OPTIONS, 405, 404), which route and parameters it sees, the redirect code and the Allow list,
    for every configuration, method, Host and path, on every well-formed forest. -/
theorem machine_serve_eq {rs : Roots} (hw : wfRoots rs = true) (cfg : Cfg) (m host path urlPath : Bytes) :
    Machine.serve cfg rs m host path urlPath = Model.serve cfg rs m host path urlPath := by
  unfold Machine.serve Model.serve
  rw [machine_lookup_eq hw]
  cases Model.lookup rs m host path with
  | none => exact machine_special_eq hw cfg m host path
  | bad => rfl
  | found r ps tsr =>
    cases tsr with
    | false => rfl
    | true => exact machine_onTsr_eq hw cfg m host path urlPath r ps

end Fox.Model
