import FoxModel.Spec.Middleware
/-
  Helper lemmas for property C13 (middleware chains, slice heap). Core Lean only.
-/
namespace Fox.Lemmas.MW
open Fox.Model.MW Fox.Spec.MW

theorem and_two_pow_ne_zero (x i : Nat) : (x &&& 2 ^ i != 0) = x.testBit i := by
  cases hb : x.testBit i
  · have : x &&& 2 ^ i = 0 := by
      apply Nat.eq_of_testBit_eq
      intro j
      rw [Nat.testBit_and, Nat.testBit_two_pow, Nat.zero_testBit]
      by_cases h : i = j
      · subst h; simp [hb]
      · simp [h]
    simp [this]
  · have : (x &&& 2 ^ i).testBit i = true := by
      rw [Nat.testBit_and, Nat.testBit_two_pow_self, hb]; rfl
    have : x &&& 2 ^ i ≠ 0 := by
      intro h0; rw [h0, Nat.zero_testBit] at this; cases this
    simp [this]

/-- the Go test `mws[i].scope&scope != 0` with the scope constant of kind `k` is exactly "bit k of the mask is set" -/
theorem hits_eq (k : Kind) (m : Mw) : m.hits k.bit = inScope k m := by
  have h : k.bit = 2 ^ k.idx := by cases k <;> rfl
  unfold Mw.hits inScope
  rw [h, and_two_pow_ne_zero]

theorem applyMiddleware_eq_foldr {H : Type} (app : Mw → H → H) (scope : Nat) (mws : List Mw) (h : H) :
    applyMiddleware app scope mws h = mws.foldr (fun mw acc => if mw.hits scope then app mw acc else acc) h := by
  simp [applyMiddleware, List.foldl_reverse]

theorem applyRouteMiddleware_eq_foldr {H : Type} (app : Mw → H → H) (mws : List Mw) (base : H) :
    applyRouteMiddleware app mws base = mws.foldr (fun mw (acc : H × H) =>
      if mw.hits cRouteHandler then ((if !mw.g then app mw acc.1 else acc.1), app mw acc.2) else acc) (base, base) := by
  simp [applyRouteMiddleware, List.foldl_reverse]

theorem chain_nil (h : Trace) : chain [] h = h := by simp [chain]

theorem chain_cons (i : Nat) (ids : List Nat) (h : Trace) :
    chain (i :: ids) h = Ev.enter i :: chain ids h ++ [Ev.exit i] := by
  simp [chain, List.append_assoc]

theorem chain_append (a b : List Nat) (h : Trace) : chain (a ++ b) h = chain a (chain b h) := by
  induction a with
  | nil => simp [chain_nil]
  | cons i a ih => simp [chain_cons, ih]

theorem mem_enter_chain (i : Nat) (ids : List Nat) (h : Trace) :
    Ev.enter i ∈ chain ids h ↔ i ∈ ids ∨ Ev.enter i ∈ h := by
  simp [chain]

theorem count_enter_chain (i : Nat) (ids : List Nat) (h : Trace) :
    (chain ids h).count (Ev.enter i) = ids.count i + h.count (Ev.enter i) := by
  induction ids with
  | nil => simp [chain_nil]
  | cons j ids ih =>
    rw [chain_cons]
    simp only [List.count_append, List.count_cons, List.count_nil, ih]
    by_cases hji : j = i
    · subst hji; simp; omega
    · simp [hji]

theorem count_exit_chain (i : Nat) (ids : List Nat) (h : Trace) :
    (chain ids h).count (Ev.exit i) = ids.count i + h.count (Ev.exit i) := by
  induction ids with
  | nil => simp [chain_nil]
  | cons j ids ih =>
    rw [chain_cons]
    simp only [List.count_append, List.count_cons, List.count_nil, ih]
    by_cases hji : j = i
    · subst hji; simp; omega
    · simp [hji]

/-! ### router construction -/

theorem appendMws_some (scope : Nat) (g : Bool) (acc : List Mw) (ms : List (Option Nat)) (r : List Mw)
    (h : appendMws scope g acc ms = some r) :
    r = acc ++ ms.filterMap (fun o => o.map fun i => (⟨i, scope, g⟩ : Mw)) ∧ none ∉ ms := by
  induction ms generalizing acc with
  | nil => simp [appendMws] at h; simp [h]
  | cons o ms ih =>
    cases o with
    | none => simp [appendMws] at h
    | some i =>
      simp only [appendMws] at h
      obtain ⟨h1, h2⟩ := ih _ h
      constructor
      · simp [h1]
      · simpa using h2

theorem appendMws_none (scope : Nat) (g : Bool) (acc : List Mw) (ms : List (Option Nat)) :
    appendMws scope g acc ms = none ↔ none ∈ ms := by
  induction ms generalizing acc with
  | nil => simp [appendMws]
  | cons o ms ih =>
    cases o with
    | none => simp [appendMws]
    | some i => simp [appendMws, ih]

/-! ### slice heap -/

theorem cells_alloc_lt (h : Heap) (cs : List Mw) (a : Nat) (ha : a < h.arrs.length) :
    (h.alloc cs).1.cells a = h.cells a := by
  simp [Heap.alloc, Heap.cells, List.getD_eq_getElem?_getD, List.getElem?_append_left ha]

theorem cells_alloc_new (h : Heap) (cs : List Mw) : (h.alloc cs).1.cells (h.alloc cs).2 = cs := by
  simp [Heap.alloc, Heap.cells, List.getD_eq_getElem?_getD]

theorem cells_write_ne (h : Heap) (a i b : Nat) (x : Mw) (hne : a ≠ b) : (h.write a i x).cells b = h.cells b := by
  simp [Heap.write, Heap.cells, List.getD_eq_getElem?_getD, List.getElem?_set_ne hne]

theorem cells_write_eq (h : Heap) (a i : Nat) (x : Mw) (ha : a < h.arrs.length) :
    (h.write a i x).cells a = (h.cells a).set i x := by
  simp [Heap.write, Heap.cells, List.getD_eq_getElem?_getD, ha]

theorem length_write (h : Heap) (a i : Nat) (x : Mw) : (h.write a i x).arrs.length = h.arrs.length := by
  simp [Heap.write]

/-- a slice that makes sense in a heap -/
structure Valid (h : Heap) (s : Slice) : Prop where
  arr_lt : s.arr < h.arrs.length
  cap_eq : (h.cells s.arr).length = s.cap
  len_le : s.len ≤ s.cap

/-- one `append` on a slice whose backing array was allocated at or after mark `n`: arrays older than `n` keep every
    cell, the result lives at or after `n`, is valid, and denotes the old elements followed by `x` -/
theorem append_inv (grow : Nat → Nat) (n : Nat) (h : Heap) (s : Slice) (x : Mw)
    (hn : n ≤ s.arr) (hv : Valid h s) :
    let r := h.append grow s x
    n ≤ r.2.arr ∧ Valid r.1 r.2 ∧ h.arrs.length ≤ r.1.arrs.length ∧
    (∀ a, a < n → r.1.cells a = h.cells a) ∧ r.1.read r.2 = h.read s ++ [x] := by
  obtain ⟨hlt, hcap, hle⟩ := hv
  unfold Heap.append
  by_cases hc : s.len < s.cap
  · simp only [hc, if_true]
    refine ⟨hn, ⟨?_, ?_, ?_⟩, ?_, ?_, ?_⟩
    · simpa [length_write] using hlt
    · simp [cells_write_eq _ _ _ _ hlt, hcap]
    · simp; omega
    · simp [length_write]
    · intro a ha; exact cells_write_ne _ _ _ _ _ (by omega)
    · simp only [Heap.read, cells_write_eq _ _ _ _ hlt]
      have hl : s.len < (h.cells s.arr).length := by omega
      rw [List.take_add_one]
      simp [List.take_set_of_le, hl]
  · simp only [hc, if_false]
    have hlen : s.len = s.cap := by omega
    have hrl : (h.read s).length = s.len := by simp [Heap.read]; omega
    refine ⟨?_, ⟨?_, ?_, ?_⟩, ?_, ?_, ?_⟩
    · simp [Heap.alloc]; omega
    · simp [Heap.alloc]
    · have := cells_alloc_new h (h.read s ++ [x] ++ List.replicate (max (grow (s.len + 1)) (s.len + 1) - (s.len + 1)) junk)
      simp only [this]
      simp [hrl]; omega
    · simp; omega
    · simp [Heap.alloc]
    · intro a ha; exact cells_alloc_lt _ _ _ (by omega)
    · have := cells_alloc_new h (h.read s ++ [x] ++ List.replicate (max (grow (s.len + 1)) (s.len + 1) - (s.len + 1)) junk)
      simp only [Heap.read] at this ⊢
      simp only [this]
      have hrl' : (List.take s.len (h.cells s.arr)).length = s.len := by simpa [Heap.read] using hrl
      rw [List.take_append_of_le_length (by simp [hrl'])]
      rw [List.take_of_length_le (by simp [hrl'])]

theorem appendAll_inv (grow : Nat → Nat) (n : Nat) (xs : List Mw) (h : Heap) (s : Slice)
    (hn : n ≤ s.arr) (hv : Valid h s) :
    let r := Heap.appendAll grow h s xs
    n ≤ r.2.arr ∧ Valid r.1 r.2 ∧ h.arrs.length ≤ r.1.arrs.length ∧
    (∀ a, a < n → r.1.cells a = h.cells a) ∧ r.1.read r.2 = h.read s ++ xs := by
  induction xs generalizing h s with
  | nil => simp [Heap.appendAll]; exact ⟨hn, hv⟩
  | cons x xs ih =>
    obtain ⟨a1, a2, a3, a4, a5⟩ := append_inv grow n h s x hn hv
    obtain ⟨b1, b2, b3, b4, b5⟩ := ih (h.append grow s x).1 (h.append grow s x).2 a1 a2
    simp only [Heap.appendAll]
    refine ⟨b1, b2, by omega, ?_, ?_⟩
    · intro a ha; rw [b4 a ha, a4 a ha]
    · rw [b5, a5]; simp

theorem clone_inv (grow : Nat → Nat) (h : Heap) (s : Slice) (hv : Valid h s) :
    let r := h.clone grow s
    r.2.arr = h.arrs.length ∧ Valid r.1 r.2 ∧ r.1.arrs.length = h.arrs.length + 1 ∧
    (∀ a, a < h.arrs.length → r.1.cells a = h.cells a) ∧ r.1.read r.2 = h.read s := by
  obtain ⟨hlt, hcap, hle⟩ := hv
  have hrl : (h.read s).length = s.len := by simp [Heap.read]; omega
  unfold Heap.clone
  have hnew := cells_alloc_new h (h.read s ++ List.replicate (max (grow s.len) s.len - s.len) junk)
  refine ⟨?_, ⟨?_, ?_, ?_⟩, ?_, ?_, ?_⟩
  · simp [Heap.alloc]
  · simp [Heap.alloc]
  · simp only [hnew]; simp [hrl]; omega
  · simp; omega
  · simp [Heap.alloc]
  · intro a ha; exact cells_alloc_lt _ _ _ ha
  · simp only [Heap.read] at hnew ⊢
    simp only [hnew]
    have hrl' : (List.take s.len (h.cells s.arr)).length = s.len := by simpa [Heap.read] using hrl
    rw [List.take_append_of_le_length (by simp [hrl']), List.take_of_length_le (by simp [hrl'])]

end Fox.Lemmas.MW
