import FoxModel.Lemmas.Refine
/-
  On a well-formed tree the walk never produces a `.bad` event, i.e. the Go matcher never returns a node without a
  route (which the callers would dereference).
-/
namespace Fox.Model
open Fox

def B1 (es : Bool) (n : Node) (pre k : List Tok) (pr : Option Route) (path : Bytes) (ps : Binds) : Prop :=
  wfKids n.children = true → (endsWithCatchAll k = true → n.route.isSome = true) →
  Ev.bad ∉ walk n pre k pr es path ps

def B2 (es : Bool) (inode : Node) (nm acc rest : Bytes) (ps : Binds) : Prop :=
  wfKids inode.children = true → (endsWithCatchAll inode.key = true → inode.route.isSome = true) →
  Ev.bad ∉ walkInfix inode nm acc rest es ps

def B3 (es : Bool) (sel : Sel) (cs : List Node) (pr : Option Route) (path : Bytes) (ps : Binds) : Prop :=
  wfKids cs = true → Ev.bad ∉ walkKids sel cs pr es path ps

theorem bad_not_mem_midKeyEnd (n pre k pr es ps) : Ev.bad ∉ midKeyEnd n pre k pr es ps := by
  unfold midKeyEnd
  split
  · split
    · split <;> simp
    · simp
  · split
    · split <;> simp
    · simp

theorem wfNode_leafcond {c : Node} (h : wfNode c = true) :
    wfKids c.children = true ∧ (endsWithCatchAll c.key = true → c.route.isSome = true) := by
  cases c with
  | mk ck cr ccs =>
    have := wfNode_kids h
    exact ⟨this.1, fun h => (this.2.2 h).1⟩

theorem walk_no_bad_all (es : Bool) :
    (∀ n pre k pr path ps, B1 es n pre k pr path ps) ∧
    (∀ inode nm acc rest ps, B2 es inode nm acc rest ps) ∧
    (∀ sel cs pr path ps, B3 es sel cs pr path ps) := by
  apply walk.mutual_induct es (B1 es) (B2 es) (B3 es)
  · intro n pre pr ps p hr _ _; unfold walk; simp [hr]
  · intro n pre ps hr hes p hpre _ _; unfold walk; simp [hr, hes, hpre]
  · intro n pre ps hr hes p hpre _ _; unfold walk; simp [hr, hes, hpre]
  · intro n pre ps hr hes _ _; unfold walk; simp [hr, hes]
  · intro n pre pr ps hr hes c hc p hcr hlen _ _; unfold walk; simp [hr, hes, hc, hcr, hlen]
  · intro n pre pr ps hr hes c hc p hcr hlen _ _; unfold walk; simp [hr, hes, hc, hcr, hlen]
  · intro n pre pr ps hr hes c hc hcr _ _; unfold walk; simp [hr, hes, hc, hcr]
  · intro n pre pr ps hr hes hc _ _; unfold walk; simp [hr, hes, hc]
  · intro n pre pr ps b rest ih1 ih2 ih3 hw _
    unfold walk
    simp only [List.mem_append, not_or]
    refine ⟨⟨⟨?_, ?_⟩, ih2 hw⟩, ih3 hw⟩
    · split
      · split <;> simp
      · simp
    · split
      · simp
      · exact ih1 hw
  · intro n pre pr ps c k' _ _; unfold walk; exact bad_not_mem_midKeyEnd _ _ _ _ _ _
  · intro n pre pr ps k' b rest ih hw hc
    unfold walk
    simp only [if_true]
    apply ih hw
    intro h; apply hc
    cases k' with
    | nil => simp [endsWithCatchAll] at h
    | cons t k'' => rw [endsWithCatchAll_cons]; exact h
  · intro n pre pr ps c k' b rest hcb _ _; unfold walk; simp [hcb]
  · intro n pre pr ps nm k' _ _; unfold walk; exact bad_not_mem_midKeyEnd _ _ _ _ _ _
  · intro n pre pr ps nm k' b rest he _ _; unfold walk; simp [he]
  · intro n pre pr ps nm k' b rest he ih hw hc
    unfold walk
    simp only [he, if_false]
    apply ih hw
    intro h; apply hc
    cases k' with
    | nil => simp [endsWithCatchAll] at h
    | cons t k'' => rw [endsWithCatchAll_cons]; exact h
  · intro n pre pr ps nm k' _ _; unfold walk; exact bad_not_mem_midKeyEnd _ _ _ _ _ _
  · intro n pre pr ps nm b rest hcs p hr _ _; unfold walk; simp [hcs, hr]
  · intro n pre pr ps nm b rest hcs hr _ hc
    exfalso
    have := hc (by simp [endsWithCatchAll])
    rw [hr] at this; cases this
  · intro n pre pr ps nm b rest c tail hcs ih hw hc
    have hsome := hc (by simp [endsWithCatchAll])
    rw [hcs] at hw
    have hcw := wfNode_leafcond (wfKids_cons.mp hw).1
    unfold walk
    simp only [hcs, List.mem_append, not_or]
    constructor
    · split
      · simp
      · exact ih hcw.1 hcw.2
    · cases hr : n.route with
      | none => rw [hr] at hsome; cases hsome
      | some r => simp
  · intro n pre pr ps nm b rest t k'' ih hw hc
    unfold walk
    simp only [List.mem_append, not_or]
    constructor
    · split
      · simp
      · apply ih (by simpa [Node.children] using hw)
        intro h
        simp only [Node.route]
        apply hc; rw [endsWithCatchAll_cons]; exact h
    · split
      · simp
      · split
        · split <;> simp
        · simp
  · intro inode nm acc ps _ _; unfold walkInfix; simp
  · intro inode nm acc ps rest hacc _ _; unfold walkInfix; simp [hacc]
  · intro inode nm acc ps rest hacc ih1 ih2 hw hc
    unfold walkInfix
    simp only [if_true, hacc, if_false, List.mem_append, not_or]
    exact ⟨ih1 hw hc, ih2 hw hc⟩
  · intro inode nm acc ps b rest hb ih hw hc
    unfold walkInfix
    simp only [hb, if_false]
    exact ih hw hc
  · intro sel pr path ps _; unfold walkKids; simp
  · intro sel pr path ps c cs' ih1 ih3 hw
    have hw' := wfKids_cons.mp hw
    have hcw := wfNode_leafcond hw'.1
    unfold walkKids
    simp only [List.mem_append, not_or]
    constructor
    · split
      · exact ih1 hcw.1 hcw.2
      · simp
    · exact ih3 hw'.2

end Fox.Model
