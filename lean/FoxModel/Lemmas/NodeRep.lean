import FoxModel.Model.NodeRep
import FoxModel.Lemmas.TreeInv
/-
  FoxModel.Lemmas.NodeRep — the searches on the derived node fields find the child the tree model finds.
-/
namespace Fox.Model.NodeRep
open Fox Fox.Model

/-- the predicate with which the tree model selects a child for the byte `s` -/
def sel (s : UInt8) (c : Node) : Bool := firstByte c.key == s

theorem linearFrom_spec (s : UInt8) : ∀ (cs : List Node) (i : Nat),
    (linearFrom (childKeys cs) s i = -1 ∧ cs.find? (sel s) = none) ∨
    (∃ j c, linearFrom (childKeys cs) s i = ((i + j : Nat) : Int) ∧ cs[j]? = some c ∧ cs.find? (sel s) = some c)
  | [], i => by left; simp [childKeys, linearFrom]
  | c :: cs, i => by
    by_cases h : firstByte c.key = s
    · right
      exact ⟨0, c, by simp [childKeys, linearFrom, h], by simp, by simp [sel, h]⟩
    · have hb : (firstByte c.key == s) = false := by simp [h]
      rcases linearFrom_spec s cs (i + 1) with ⟨h1, h2⟩ | ⟨j, d, h1, h2, h3⟩
      · left
        refine ⟨?_, ?_⟩
        · simp only [childKeys, List.map_cons, linearFrom, h, if_false]; exact h1
        · simp [List.find?, sel, hb, h2]
      · right
        refine ⟨j + 1, d, ?_, by simpa using h2, ?_⟩
        · simp only [childKeys, List.map_cons, linearFrom, h, if_false]
          rw [show i + (j + 1) = i + 1 + j by omega]; exact h1
        · simp [List.find?, sel, hb, h3]

theorem uint8_lt_iff (a b : UInt8) : a < b ↔ a.toNat < b.toNat := UInt8.lt_iff_toNat_lt

theorem uint8_eq_of_not_lt {a b : UInt8} (h1 : ¬ a < b) (h2 : ¬ b < a) : a = b := by
  rw [uint8_lt_iff] at h1 h2
  exact UInt8.toNat_inj.mp (by omega)

/-- strictly ascending byte list, index form -/
def Asc (keys : List UInt8) : Prop := ∀ (i j : Nat) (a b : UInt8), i < j → keys[i]? = some a → keys[j]? = some b → a < b

theorem bsLoop_spec (keys : List UInt8) (s : UInt8) (hs : Asc keys) : ∀ (n : Nat) (low high : Int),
    (high + 1 - low).toNat = n → 0 ≤ low → high < keys.length → low ≤ high + 1 →
    (∀ (j : Nat) (k : UInt8), (j : Int) < low → keys[j]? = some k → k < s) →
    (∀ (j : Nat) (k : UInt8), high < (j : Int) → keys[j]? = some k → s < k) →
    ∃ r, bsLoop keys s low high = some r ∧ ((0 ≤ r ∧ keys[r.toNat]? = some s) ∨ (r < 0 ∧ s ∉ keys)) := by
  intro n
  induction n using Nat.strongRecOn with
  | _ n ih =>
    intro low high hn hlow hhigh hle hlo hhi
    unfold bsLoop
    by_cases hc : low ≤ high
    · simp only [hc, dite_true]
      have hnn : ¬ (low + high < 0) := by omega
      simp only [hnn, if_false]
      have hmid1 : low ≤ (low + high) / 2 := by omega
      have hmid2 : (low + high) / 2 ≤ high := by omega
      have hlt : ((low + high) / 2).toNat < keys.length := by omega
      rw [List.getElem?_eq_getElem hlt]
      simp only []
      generalize hk : keys[((low + high) / 2).toNat] = k
      have hk' : keys[((low + high) / 2).toNat]? = some k := by rw [List.getElem?_eq_getElem hlt, hk]
      by_cases h1 : k < s
      · simp only [h1, if_true]
        refine ih _ ?_ _ _ rfl (by omega) hhigh (by omega) ?_ hhi
        · omega
        · intro j kj hj hkj
          by_cases hjm : j = ((low + high) / 2).toNat
          · subst hjm; rw [hk'] at hkj; cases hkj; exact h1
          · have : j < ((low + high) / 2).toNat := by omega
            have := hs j _ kj k this hkj hk'
            rw [uint8_lt_iff] at this h1 ⊢; omega
      · simp only [h1, if_false]
        by_cases h2 : s < k
        · simp only [h2, if_true]
          refine ih _ ?_ _ _ rfl hlow (by omega) (by omega) hlo ?_
          · omega
          · intro j kj hj hkj
            by_cases hjm : j = ((low + high) / 2).toNat
            · subst hjm; rw [hk'] at hkj; cases hkj; exact h2
            · have : ((low + high) / 2).toNat < j := by omega
              have := hs _ j k kj this hk' hkj
              rw [uint8_lt_iff] at this h2 ⊢; omega
        · simp only [h2, if_false]
          refine ⟨_, rfl, Or.inl ⟨by omega, ?_⟩⟩
          rw [hk', uint8_eq_of_not_lt h1 h2]
    · simp only [hc, dite_false]
      refine ⟨_, rfl, Or.inr ⟨by omega, ?_⟩⟩
      intro hmem
      obtain ⟨j, hj, hjs⟩ := List.getElem_of_mem hmem
      have hj' : keys[j]? = some s := by rw [List.getElem?_eq_getElem hj, hjs]
      by_cases hjl : (j : Int) < low
      · exact absurd (hlo j s hjl hj') (by rw [uint8_lt_iff]; omega)
      · exact absurd (hhi j s (by omega) hj') (by rw [uint8_lt_iff]; omega)

/-- `binarySearch` on a strictly ascending `childKeys`: never an index panic; a non-negative result is a position
    holding `s`, a negative one means `s` does not occur -/
theorem binarySearch_spec (keys : List UInt8) (s : UInt8) (hs : Asc keys) :
    ∃ r, binarySearch keys s = some r ∧ ((0 ≤ r ∧ keys[r.toNat]? = some s) ∨ (r < 0 ∧ s ∉ keys)) := by
  unfold binarySearch
  refine bsLoop_spec keys s hs _ 0 _ rfl (by omega) (by omega) (by omega) ?_ ?_
  · intro j k hj; omega
  · intro j k hj hk
    have := (List.getElem?_eq_some_iff.mp hk).1
    omega

theorem asc_childKeys {cs : List Node} (h : (fbs cs).Pairwise (· < ·)) : Asc (childKeys cs) := by
  intro i j a b hij ha hb
  simp only [childKeys, List.getElem?_map, Option.map_eq_some_iff] at ha hb
  obtain ⟨ca, hca, rfl⟩ := ha
  obtain ⟨cb, hcb, rfl⟩ := hb
  rw [List.pairwise_iff_getElem] at h
  have hi := (List.getElem?_eq_some_iff.mp hca).1
  have hj := (List.getElem?_eq_some_iff.mp hcb).1
  have := h i j (by simpa [fbs] using hi) (by simpa [fbs] using hj) hij
  simp only [fbs, List.getElem_map, fb] at this
  rw [uint8_lt_iff]
  rw [(List.getElem?_eq_some_iff.mp hca).2, (List.getElem?_eq_some_iff.mp hcb).2] at this
  exact this

/-- in a strictly ascending child list at most one child starts with a given byte: the child at any position
    holding `s` is the one `find?` returns -/
theorem find_of_pos {cs : List Node} (h : (fbs cs).Pairwise (· < ·)) {s : UInt8} {j : Nat} {c : Node}
    (hc : cs[j]? = some c) (hs : firstByte c.key = s) : cs.find? (sel s) = some c := by
  induction cs generalizing j with
  | nil => simp at hc
  | cons d ds ih =>
    simp only [fbs, List.map_cons, List.pairwise_cons] at h
    cases j with
    | zero => simp at hc; subst hc; simp [List.find?, sel, hs]
    | succ j =>
      simp only [List.getElem?_cons_succ] at hc
      have hne : firstByte d.key ≠ s := by
        intro e
        have := h.1 (fb c) (List.mem_map.mpr ⟨c, List.mem_of_getElem? hc, rfl⟩)
        simp only [fb, hs, e] at this; omega
      have hb : (firstByte d.key == s) = false := by simp [hne]
      simp only [List.find?, sel, hb]
      exact ih h.2 hc

theorem find_none_of_not_mem {cs : List Node} {s : UInt8} (h : s ∉ childKeys cs) : cs.find? (sel s) = none := by
  rw [List.find?_eq_none]
  intro c hc hsel
  apply h
  simp only [sel, beq_iff_eq] at hsel
  exact List.mem_map.mpr ⟨c, hc, hsel⟩

/-- the index computed by `getEdge` / `updateEdge`, on either side of the 50-children threshold: never an index
    panic; negative iff the model finds no child, otherwise a position holding the child the model finds -/
theorem edgeIndex_spec {cs : List Node} (h : (fbs cs).Pairwise (· < ·)) (s : UInt8) :
    ∃ id, edgeIndex cs s = some id ∧
      ((id < 0 ∧ cs.find? (sel s) = none) ∨ (0 ≤ id ∧ ∃ c, cs[id.toNat]? = some c ∧ cs.find? (sel s) = some c)) := by
  unfold edgeIndex
  by_cases hl : cs.length ≤ linearMax
  · simp only [hl, if_true]
    rcases linearFrom_spec s cs 0 with ⟨h1, h2⟩ | ⟨j, c, h1, h2, h3⟩
    · exact ⟨_, rfl, Or.inl ⟨by simp [linearSearch, h1], h2⟩⟩
    · refine ⟨_, rfl, Or.inr ⟨by simp [linearSearch, h1], c, ?_, h3⟩⟩
      simp only [linearSearch, h1, Nat.zero_add, Int.toNat_natCast]; exact h2
  · simp only [hl, if_false]
    obtain ⟨r, hr, hcase⟩ := binarySearch_spec (childKeys cs) s (asc_childKeys h)
    refine ⟨r, hr, ?_⟩
    rcases hcase with ⟨h0, hk⟩ | ⟨h0, hk⟩
    · simp only [childKeys, List.getElem?_map, Option.map_eq_some_iff] at hk
      obtain ⟨c, hc, hcs⟩ := hk
      exact Or.inr ⟨h0, c, hc, find_of_pos h hc hcs⟩
    · exact Or.inl ⟨h0, find_none_of_not_mem hk⟩

/-- **`getEdge` = the model's child selection** when the children are in ascending order of their first byte; in
    particular it never panics -/
theorem getEdge_eq_find {cs : List Node} (h : (fbs cs).Pairwise (· < ·)) (s : UInt8) :
    getEdge cs s = some (cs.find? (sel s)) := by
  obtain ⟨id, hid, hcase⟩ := edgeIndex_spec h s
  unfold getEdge
  rw [hid]
  rcases hcase with ⟨h0, hf⟩ | ⟨h0, c, hc, hf⟩
  · simp [h0, hf]
  · have : ¬ id < 0 := by omega
    simp [this, hc, hf]

/-- positions of a strictly ascending list are determined by the first byte -/
theorem pos_unique {cs : List Node} (h : (fbs cs).Pairwise (· < ·)) {i j : Nat} {c : Node}
    (hi : cs[i]? = some c) (hj : cs[j]? = some c) : i = j := by
  rw [List.pairwise_iff_getElem] at h
  have hil := (List.getElem?_eq_some_iff.mp hi).1
  have hjl := (List.getElem?_eq_some_iff.mp hj).1
  rcases Nat.lt_trichotomy i j with hlt | heq | hgt
  · have := h i j (by simpa [fbs] using hil) (by simpa [fbs] using hjl) hlt
    simp only [fbs, List.getElem_map] at this
    rw [(List.getElem?_eq_some_iff.mp hi).2, (List.getElem?_eq_some_iff.mp hj).2] at this
    omega
  · exact heq
  · have := h j i (by simpa [fbs] using hjl) (by simpa [fbs] using hil) hgt
    simp only [fbs, List.getElem_map] at this
    rw [(List.getElem?_eq_some_iff.mp hi).2, (List.getElem?_eq_some_iff.mp hj).2] at this
    omega

/-- `updateEdge` replaces exactly the child the model replaces (`pickKid` splits the list at it) and never panics -/
theorem updateEdge_eq_set {pre post : List Node} {c n : Node} (h : (fbs (pre ++ c :: post)).Pairwise (· < ·))
    (hk : firstByte n.key = firstByte c.key) : updateEdge (pre ++ c :: post) n = some (pre ++ n :: post) := by
  have hpos : (pre ++ c :: post)[pre.length]? = some c := by simp
  have hfind := find_of_pos h hpos hk.symm
  obtain ⟨id, hid, hcase⟩ := edgeIndex_spec h (firstByte n.key)
  unfold updateEdge
  rw [hid]
  rcases hcase with ⟨h0, hf⟩ | ⟨h0, d, hd, hf⟩
  · rw [hf] at hfind; cases hfind
  · rw [hfind] at hf; cases hf
    have hj := pos_unique h hd hpos
    have : ¬ id < 0 := by omega
    simp only [this, if_false, hj]
    simp

end Fox.Model.NodeRep

namespace Fox.Model.NodeRep
open Fox Fox.Model

/-! ### `paramChildIndex` / `wildcardChildIndex` -/

def isP (c : Node) : Bool := firstByte c.key == LBR
def isW (c : Node) : Bool := firstByte c.key == STAR

theorem lbr_ne_star : LBR ≠ STAR := by decide

theorem indexLoop_none_p : ∀ (cs : List Node) (i : Nat) (p w : Int), (∀ c ∈ cs, firstByte c.key ≠ LBR) →
    (indexLoop cs i p w).1 = p
  | [], _, _, _, _ => rfl
  | c :: cs, i, p, w, h => by
    have hc := h c (by simp)
    unfold indexLoop
    simp only [hc, if_false]
    split <;> exact indexLoop_none_p cs _ _ _ (fun x hx => h x (by simp [hx]))

theorem indexLoop_none_w : ∀ (cs : List Node) (i : Nat) (p w : Int), (∀ c ∈ cs, firstByte c.key ≠ STAR) →
    (indexLoop cs i p w).2 = w
  | [], _, _, _, _ => rfl
  | c :: cs, i, p, w, h => by
    have hc := h c (by simp)
    unfold indexLoop
    simp only [hc, if_false]
    split <;> exact indexLoop_none_w cs _ _ _ (fun x hx => h x (by simp [hx]))

theorem others_ne {c : Node} {cs : List Node} (h : (fbs (c :: cs)).Pairwise (· < ·)) :
    ∀ x ∈ cs, firstByte x.key ≠ firstByte c.key := by
  simp only [fbs, List.map_cons, List.pairwise_cons] at h
  intro x hx e
  have := h.1 (fb x) (List.mem_map.mpr ⟨x, hx, rfl⟩)
  simp only [fb, e] at this; omega

theorem indexLoop_p : ∀ (cs : List Node) (i : Nat) (p w : Int), (fbs cs).Pairwise (· < ·) →
    (cs.find? isP = none ∧ (indexLoop cs i p w).1 = p) ∨
    (∃ j c, cs[j]? = some c ∧ cs.find? isP = some c ∧ (indexLoop cs i p w).1 = ((i + j : Nat) : Int))
  | [], _, _, _, _ => by left; simp [indexLoop]
  | c :: cs, i, p, w, h => by
    have htl : (fbs cs).Pairwise (· < ·) := by
      simp only [fbs, List.map_cons, List.pairwise_cons] at h; exact h.2
    unfold indexLoop
    by_cases hp : firstByte c.key = LBR
    · right
      refine ⟨0, c, by simp, by simp [List.find?, isP, hp], ?_⟩
      simp only [hp, if_true]
      rw [indexLoop_none_p cs _ _ _ (fun x hx => by rw [← hp]; exact others_ne h x hx)]
      simp
    · have hb : isP c = false := by simp [isP, hp]
      simp only [hp, if_false]
      have step : ∀ w', (cs.find? isP = none ∧ (indexLoop cs (i + 1) p w').1 = p) ∨
          (∃ j c', cs[j]? = some c' ∧ cs.find? isP = some c' ∧ (indexLoop cs (i + 1) p w').1 = ((i + 1 + j : Nat) : Int)) →
          ((c :: cs).find? isP = none ∧ (indexLoop cs (i + 1) p w').1 = p) ∨
          (∃ j c', (c :: cs)[j]? = some c' ∧ (c :: cs).find? isP = some c' ∧
            (indexLoop cs (i + 1) p w').1 = ((i + j : Nat) : Int)) := by
        intro w' hh
        rcases hh with ⟨h1, h2⟩ | ⟨j, c', h1, h2, h3⟩
        · left; exact ⟨by simp [List.find?, hb, h1], h2⟩
        · right
          refine ⟨j + 1, c', by simpa using h1, by simp [List.find?, hb, h2], ?_⟩
          rw [h3]; congr 1; omega
      split
      · exact step _ (indexLoop_p cs (i + 1) p i htl)
      · exact step _ (indexLoop_p cs (i + 1) p w htl)

theorem indexLoop_w : ∀ (cs : List Node) (i : Nat) (p w : Int), (fbs cs).Pairwise (· < ·) →
    (cs.find? isW = none ∧ (indexLoop cs i p w).2 = w) ∨
    (∃ j c, cs[j]? = some c ∧ cs.find? isW = some c ∧ (indexLoop cs i p w).2 = ((i + j : Nat) : Int))
  | [], _, _, _, _ => by left; simp [indexLoop]
  | c :: cs, i, p, w, h => by
    have htl : (fbs cs).Pairwise (· < ·) := by
      simp only [fbs, List.map_cons, List.pairwise_cons] at h; exact h.2
    have step : ∀ p' w', ((cs.find? isW = none ∧ (indexLoop cs (i + 1) p' w').2 = w') ∨
          (∃ j c', cs[j]? = some c' ∧ cs.find? isW = some c' ∧ (indexLoop cs (i + 1) p' w').2 = ((i + 1 + j : Nat) : Int))) →
          isW c = false →
          ((c :: cs).find? isW = none ∧ (indexLoop cs (i + 1) p' w').2 = w') ∨
          (∃ j c', (c :: cs)[j]? = some c' ∧ (c :: cs).find? isW = some c' ∧
            (indexLoop cs (i + 1) p' w').2 = ((i + j : Nat) : Int)) := by
        intro p' w' hh hb
        rcases hh with ⟨h1, h2⟩ | ⟨j, c', h1, h2, h3⟩
        · left; exact ⟨by simp [List.find?, hb, h1], h2⟩
        · right
          refine ⟨j + 1, c', by simpa using h1, by simp [List.find?, hb, h2], ?_⟩
          rw [h3]; congr 1; omega
    unfold indexLoop
    by_cases hp : firstByte c.key = LBR
    · simp only [hp, if_true]
      exact step _ _ (indexLoop_w cs (i + 1) i w htl) (by simp [isW, hp, lbr_ne_star])
    · simp only [hp, if_false]
      by_cases hw : firstByte c.key = STAR
      · right
        refine ⟨0, c, by simp, by simp [List.find?, isW, hw], ?_⟩
        simp only [hw, if_true]
        rw [indexLoop_none_w cs _ _ _ (fun x hx => by rw [← hw]; exact others_ne h x hx)]
        simp
      · simp only [hw, if_false]
        exact step _ _ (indexLoop_w cs (i + 1) p w htl) (by simp [isW, hw])

/-- `children[paramChildIndex]` (guarded by `>= 0`) is the child whose key starts with '{' -/
theorem paramChild_eq {cs : List Node} (h : (fbs cs).Pairwise (· < ·)) :
    childAt cs (paramChildIndex cs) = cs.find? isP := by
  unfold childAt paramChildIndex
  rcases indexLoop_p cs 0 (-1) (-1) h with ⟨h1, h2⟩ | ⟨j, c, h1, h2, h3⟩
  · simp [h1, h2]
  · rw [h3, h2]; simp [h1]

/-- `children[wildcardChildIndex]` (guarded by `>= 0`) is the child whose key starts with '*' -/
theorem wildChild_eq {cs : List Node} (h : (fbs cs).Pairwise (· < ·)) :
    childAt cs (wildcardChildIndex cs) = cs.find? isW := by
  unfold childAt wildcardChildIndex
  rcases indexLoop_w cs 0 (-1) (-1) h with ⟨h1, h2⟩ | ⟨j, c, h1, h2, h3⟩
  · simp [h1, h2]
  · rw [h3, h2]; simp [h1]

/-- on well-formed keys "starts with '{'" is "starts with a parameter token", "starts with '*'" is "starts with a
    catch-all token" -/
theorem isP_iff_param {c : Node} (hw : wfNode c = true) : isP c = Sel.param.matches c.key := by
  obtain ⟨k, r, cs⟩ := c
  have w := (wfNode_iff _ _ _).mp hw
  cases k with
  | nil => exact absurd rfl w.1
  | cons t ts =>
    have hk := w.2.1
    cases t with
    | lit b =>
      simp only [keyOk, Bool.and_eq_true, bne_iff_ne] at hk
      simp [isP, firstByte, Sel.matches, hk.1.2]
    | param n => simp [isP, firstByte, Sel.matches]
    | catchAll n => simp [isP, firstByte, Sel.matches, lbr_ne_star.symm]

theorem isW_iff_catchAll {c : Node} (hw : wfNode c = true) : isW c = Sel.catchAll.matches c.key := by
  obtain ⟨k, r, cs⟩ := c
  have w := (wfNode_iff _ _ _).mp hw
  cases k with
  | nil => exact absurd rfl w.1
  | cons t ts =>
    have hk := w.2.1
    cases t with
    | lit b =>
      simp only [keyOk, Bool.and_eq_true, bne_iff_ne] at hk
      simp [isW, firstByte, Sel.matches, hk.1.1]
    | param n => simp [isW, firstByte, Sel.matches, lbr_ne_star]
    | catchAll n => simp [isW, firstByte, Sel.matches]

end Fox.Model.NodeRep
