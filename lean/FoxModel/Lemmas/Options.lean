import FoxModel.Spec.Options
import FoxModel.Lemmas.Middleware
/-
  Helper lemmas for property C19 (option folds, annotation map, render ∘ tokenize). Core Lean only.
-/
namespace Fox.Lemmas.Opt
open Fox Fox.Model.MW Fox.Model.Opt Fox.Spec.Opt Fox.Lemmas.MW

theorem lastOr_nil {α β : Type} (says : α → Option β) (d : β) : lastOr says d [] = d := rfl

theorem lastOr_cons {α β : Type} (says : α → Option β) (d : β) (o : α) (os : List α) :
    lastOr says d (o :: os) = lastOr says ((says o).getD d) os := by
  unfold lastOr
  cases h : says o with
  | none => simp [List.filterMap_cons, h]
  | some b => simp [List.filterMap_cons, h, List.getLast?_cons]

/-! ### the annotation map -/

theorem mapGet_mapSet (m : List (AnnKey × Nat)) (k' k : AnnKey) (v : Nat) (hk : k.reflexive = true) :
    mapGet (mapSet m k' v) k = if k' = k then some v else mapGet m k := by
  unfold mapGet mapSet
  simp only [hk, if_true]
  by_cases hr : k'.reflexive = true
  · simp only [hr, if_true]
    by_cases he : k' = k
    · subst he
      have : (List.filter (fun e => e.1 != k') m).find? (fun e => e.1 == k') = none := by
        rw [List.find?_eq_none]; intro e he; simp at he; simpa using he.2
      simp [List.find?_append, this]
    · simp only [he, if_false, List.find?_append]
      have h1 : (List.filter (fun e => e.1 != k') m).find? (fun e => e.1 == k) = m.find? (fun e => e.1 == k) := by
        induction m with
        | nil => rfl
        | cons e m ih =>
          by_cases h2 : e.1 = k'
          · have : ¬ e.1 = k := by rw [h2]; exact he
            simp [List.filter_cons, h2, List.find?_cons, ih, he]
          · by_cases h3 : e.1 = k
            · subst h3; simp [List.filter_cons, h2, List.find?_cons]
            · simp [List.filter_cons, h2, List.find?_cons, h3, ih]
      have h0 : [(k', v)].find? (fun e => e.1 == k) = none := by simp [he]
      rw [h1, h0, Option.or_none]
  · have he : ¬ k' = k := by intro e; rw [e] at hr; exact hr hk
    have h0 : [(k', v)].find? (fun e => e.1 == k) = none := by simp [he]
    have hr' : k'.reflexive = false := by simpa using hr
    simp only [hr', Bool.false_eq_true, he, if_false, List.find?_append]
    rw [h0, Option.or_none]

/-! ### one route option -/

def mkOwn (i : Nat) : Mw := ⟨i, cRouteHandler, false⟩

theorem applyRoute_valid (r : RouteCfg) (o : RouteOpt) (hv : optValid o = true) :
    ∃ r', applyRoute r o = .ok r' ∧
      r'.redirectTS = (saysRedirect o).getD r.redirectTS ∧ r'.ignoreTS = (saysIgnore o).getD r.ignoreTS ∧
      r'.clientip = (saysResolver o).getD r.clientip ∧ r'.mws = r.mws ++ (ownOf o).map mkOwn ∧
      r'.pattern = r.pattern ∧ r'.toks = r.toks ∧ r'.hostToks = r.hostToks ∧
      (∀ k, k.reflexive = true → mapGet r'.annots k = ((saysAnnotation k o).map some).getD (mapGet r.annots k)) := by
  cases o with
  | middleware ms =>
    simp only [optValid, Bool.not_eq_true', List.contains_eq_mem, decide_eq_false_iff_not] at hv
    cases hr : appendMws cRouteHandler false r.mws ms with
    | none => exact absurd ((appendMws_none _ _ _ _).1 hr) hv
    | some m =>
      obtain ⟨h1, _⟩ := appendMws_some _ _ _ _ _ hr
      refine ⟨{ r with mws := m }, by simp [applyRoute, ofAppend, hr], rfl, rfl, rfl, ?_, rfl, rfl, rfl, fun k _ => rfl⟩
      simp only [h1, ownOf, List.map_filterMap]
      congr 1
  | redirectTS b =>
    refine ⟨_, rfl, rfl, ?_, rfl, by simp [ownOf], rfl, rfl, rfl, fun k _ => rfl⟩
    cases b <;> rfl
  | ignoreTS b =>
    refine ⟨_, rfl, ?_, rfl, rfl, by simp [ownOf], rfl, rfl, rfl, fun k _ => rfl⟩
    cases b <;> rfl
  | clientIP o => exact ⟨_, rfl, rfl, rfl, rfl, by simp [ownOf], rfl, rfl, rfl, fun k _ => rfl⟩
  | annotation k' v =>
    simp only [optValid, Bool.and_eq_true, Bool.not_eq_true'] at hv
    refine ⟨{ r with annots := mapSet r.annots k' v }, by simp [applyRoute, hv.1, hv.2], rfl, rfl, rfl, by simp [ownOf], rfl, rfl, rfl, ?_⟩
    intro k hk
    simp only [mapGet_mapSet _ _ _ _ hk, saysAnnotation]
    by_cases he : k' = k <;> simp [he]

theorem applyRoute_invalid (r : RouteCfg) (o : RouteOpt) (hv : optValid o = false) : applyRoute r o = .invalidConfig := by
  cases o with
  | middleware ms =>
    simp only [optValid, Bool.not_eq_false', List.contains_eq_mem, decide_eq_true_eq] at hv
    simp [applyRoute, ofAppend, (appendMws_none cRouteHandler false r.mws ms).2 hv]
  | annotation k v =>
    simp only [optValid, Bool.and_eq_false_iff, Bool.not_eq_false'] at hv
    rcases hv with h | h <;> simp [applyRoute, h]
  | redirectTS b => simp [optValid] at hv
  | ignoreTS b => simp [optValid] at hv
  | clientIP o => simp [optValid] at hv

/-! ### render ∘ tokenize -/

theorem takeName_spec {s n r : Bytes} (h : takeName s = some (n, r)) : s = n ++ RBR :: r := by
  induction s generalizing n r with
  | nil => simp [takeName] at h
  | cons b bs ih =>
    simp only [takeName] at h
    split at h
    · rename_i hb; simp at h; obtain ⟨rfl, rfl⟩ := h; simp [hb]
    · split at h
      · rename_i n' r' heq
        simp at h; obtain ⟨rfl, rfl⟩ := h
        rw [ih heq]; simp
      · simp at h

theorem render_cons (t : Tok) (ts : List Tok) : render (t :: ts) = t.render ++ render ts := by
  simp [render]

theorem render_tokenize (s : Bytes) (ts : List Tok) (h : tokenize s = some ts) : render ts = s := by
  induction hn : s.length using Nat.strongRecOn generalizing s ts with
  | _ n ih =>
    subst hn
    unfold tokenize at h
    split at h
    · simp at h; subst h; rfl
    · rename_i b bs
      split at h
      · rename_i hb
        split at h
        · rename_i nm r heq
          simp only [Option.map_eq_some_iff] at h
          obtain ⟨ts', ht, rfl⟩ := h
          have hl := takeName_length heq
          have := ih r.length (by simp; omega) r ts' ht rfl
          rw [render_cons, this, takeName_spec heq, hb]; simp [Tok.render]
        · simp at h
      · split at h
        · rename_i hb
          split at h
          · rename_i c cs
            split at h
            · rename_i hc
              split at h
              · rename_i nm r heq
                simp only [Option.map_eq_some_iff] at h
                obtain ⟨ts', ht, rfl⟩ := h
                have hl := takeName_length heq
                have := ih r.length (by simp; omega) r ts' ht rfl
                rw [render_cons, this, takeName_spec heq, hb, hc]; simp [Tok.render]
              · simp at h
            · simp at h
          · simp at h
        · simp only [Option.map_eq_some_iff] at h
          obtain ⟨ts', ht, rfl⟩ := h
          have := ih bs.length (by simp) bs ts' ht rfl
          rw [render_cons, this]; simp [Tok.render]

end Fox.Lemmas.Opt
