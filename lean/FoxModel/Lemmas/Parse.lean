import FoxModel.Model.Parse
import FoxModel.Spec.Grammar
/-
  FoxModel.Lemmas.Parse — helper lemmas for property C10 (the theorems users rely on are in Props/C10.lean).

  Part 1: unfolding lemmas for the loop, panic-freedom of every step.
  Part 2: a token-level machine `tokLoop` (the validator seen one token at a time) and the simulation lemma
          `acc_eq_tok` (byte machine = token machine ∘ tokenize).
  Part 3: token machine ⇔ declarative grammar (`path_phase`, `host_phase`, `tokAccept_eq`).
  Part 4: top level (`parseRoute_ok_iff`, `render_tokenize`).
  Part 5: `parseWildcard` agrees with `tokenize` (`wLoop_tokens`).
-/
set_option linter.unusedSimpArgs false
set_option linter.unusedVariables false

namespace Fox.Model
open Fox

section Loop
variable {mp mk eh : Nat} {s : Bytes}

theorem loop_done {st : PSt} (h : ¬ st.i < s.length) : loop mp mk eh s st = .ok st := by
  rw [loop]; simp [h]

theorem loop_step {st st' : PSt} (h : st.i < s.length) (hs : step mp mk eh s st = .ok st') :
    loop mp mk eh s st = loop mp mk eh s st' := by
  rw [loop]; simp only [h, if_true]
  split
  · rename_i e he; rw [hs] at he; cases he
  · rename_i st'' he; rw [hs] at he; cases he; rfl

theorem loop_err {st : PSt} {e} (h : st.i < s.length) (hs : step mp mk eh s st = .error e) :
    loop mp mk eh s st = .error e := by
  rw [loop]; simp only [h, if_true]
  split
  · rename_i e' he; rw [hs] at he; cases he; rfl
  · rename_i st'' he; rw [hs] at he; cases he

end Loop

/-! ### panic freedom -/

theorem nextIs_ok (s : Bytes) (i : Nat) (P : UInt8 → Bool) : ∃ b, nextIs s i P = .ok b := by
  unfold nextIs
  split
  · rename_i h
    have : s[i+1]? = some s[i+1] := List.getElem?_eq_getElem h
    rw [this]; exact ⟨_, rfl⟩
  · exact ⟨_, rfl⟩

theorem dotAfterDot_ok (s : Bytes) (last : UInt8) (i : Nat) (hi : 0 < i) (hl : i ≤ s.length) :
    ∃ b, dotAfterDot s last i = .ok b := by
  unfold dotAfterDot
  split
  · have h0 : ¬ i = 0 := by omega
    simp only [h0, if_false]
    have hlt : i - 1 < s.length := by omega
    have : s[i-1]? = some s[i-1] := List.getElem?_eq_getElem hlt
    rw [this]; exact ⟨_, rfl⟩
  · exact ⟨_, rfl⟩

theorem checkCnt_ne_panic {mp st} : checkCnt mp st ≠ .error .panic := by
  unfold checkCnt; split <;> simp

theorem hostByte_ne_panic {s : Bytes} {st : PSt} {c : UInt8} (hi : st.i < s.length)
    (h0 : st.i = 0 → c ≠ DOT) : hostByte s st c ≠ .error .panic := by
  unfold hostByte
  split; · simp
  split; · simp
  split; · split <;> simp
  split
  · rename_i hc
    have hpos : 0 < st.i := by
      rcases Nat.eq_zero_or_pos st.i with h | h
      · exact absurd hc (h0 h)
      · exact h
    obtain ⟨b, hb⟩ := dotAfterDot_ok s st.last st.i hpos (Nat.le_of_lt hi)
    rw [hb]
    cases b <;> simp
    repeat' split
    all_goals simp
  · simp

theorem defaultStep_ne_panic {mp eh : Nat} {s : Bytes} {st : PSt} {c : UInt8} (hi : st.i < s.length)
    (h0 : st.i = 0 → c ≠ DOT) : defaultStep mp eh s st c ≠ .error .panic := by
  unfold defaultStep
  split; · exact checkCnt_ne_panic
  split
  · split; · simp
    obtain ⟨b, hb⟩ := nextIs_ok s st.i (fun d => d != LBR)
    rw [hb]; cases b <;> simp
    exact checkCnt_ne_panic
  split
  · have := @hostByte_ne_panic s { st with countStatic := st.countStatic + 1 } c hi h0
    split
    · rename_i e he; intro h; cases h; exact this he
    · exact checkCnt_ne_panic
  · exact checkCnt_ne_panic

theorem step_ne_panic {mp mk eh : Nat} {s : Bytes} {st : PSt} (hi : st.i < s.length)
    (hdot : s.head? ≠ some DOT) : step mp mk eh s st ≠ .error .panic := by
  unfold step
  have hc : s[st.i]? = some s[st.i] := List.getElem?_eq_getElem hi
  rw [hc]
  simp only
  split
  · -- param
    split
    · split; · simp
      obtain ⟨b, hb⟩ := nextIs_ok s st.i (fun d => d != st.delim && d != SLASH)
      rw [hb]; cases b <;> simp
    · split; · simp
      split <;> simp
  · split
    · split; · simp
      obtain ⟨b, hb⟩ := nextIs_ok s st.i (fun d => d != SLASH)
      rw [hb]; cases b <;> simp
      split <;> simp
    · split; · simp
      split <;> simp
  · apply defaultStep_ne_panic
    · rw [setDelim_i]; exact hi
    · rw [setDelim_i]; intro h0 hd
      apply hdot
      cases s with
      | nil => simp at hi
      | cons a t => simp [h0] at hd; simp [hd]

theorem loop_ne_panic {mp mk eh : Nat} {s : Bytes} (hdot : s.head? ≠ some DOT) (st : PSt) :
    loop mp mk eh s st ≠ .error .panic := by
  induction hn : s.length - st.i using Nat.strongRecOn generalizing st with
  | _ n ih =>
    by_cases hi : st.i < s.length
    · cases hs : step mp mk eh s st with
      | error e =>
        rw [loop_err hi hs]; intro h; cases h; exact step_ne_panic hi hdot hs
      | ok st' =>
        rw [loop_step hi hs]
        have := step_adv hs
        exact ih (s.length - st'.i) (by omega) st' rfl
    · rw [loop_done hi]; simp

theorem indexByte_spec {c : UInt8} {s : Bytes} {i : Nat} (h : indexByte c s = some i) :
    ∃ pre suf, s = pre ++ c :: suf ∧ pre.length = i ∧ c ∉ pre := by
  induction s generalizing i with
  | nil => simp [indexByte] at h
  | cons b bs ih =>
    simp only [indexByte] at h
    split at h
    · rename_i hb; cases h; exact ⟨[], bs, by simp [hb], rfl, by simp⟩
    · rename_i hb
      cases hj : indexByte c bs with
      | none => simp [hj] at h
      | some j =>
        simp [hj] at h
        obtain ⟨pre, suf, h1, h2, h3⟩ := ih hj
        refine ⟨b :: pre, suf, by simp [h1], by simp [h2, h], ?_⟩
        simp only [List.mem_cons, not_or]; exact ⟨fun e => hb e.symm, h3⟩

theorem indexByte_none {c : UInt8} {s : Bytes} (h : indexByte c s = none) : c ∉ s := by
  induction s with
  | nil => simp
  | cons b bs ih =>
    simp only [indexByte] at h
    split at h
    · cases h
    · rename_i hb
      cases hj : indexByte c bs with
      | none => simp only [List.mem_cons, not_or]; exact ⟨fun e => hb e.symm, ih hj⟩
      | some j => simp [hj] at h

theorem hostFinish_ne_panic {eh : Nat} {s : Bytes} {st : PSt} (he : eh < s.length) :
    hostFinish eh s st ≠ .error .panic := by
  unfold hostFinish
  have hc : s[eh - 1]? = some s[eh - 1] := List.getElem?_eq_getElem (by omega)
  rw [hc]
  repeat' split
  all_goals simp_all

theorem finish_ne_panic {eh : Nat} {s : Bytes} {st : PSt} (he : eh < s.length) :
    finish eh s st ≠ .error .panic := by
  unfold finish
  have hl : s[s.length - 1]? = some s[s.length - 1] := List.getElem?_eq_getElem (by omega)
  have hne : ¬ s.length = 0 := by omega
  rw [hl]
  simp only [hne, if_false]
  split
  · rename_i e he'; intro h; cases h; exact hostFinish_ne_panic he he'
  · repeat' split
    all_goals simp

/-- the validator never panics -/
theorem parseRoute_ne_panic (mp mk : Nat) (s : Bytes) : parseRoute mp mk s ≠ .panic := by
  unfold parseRoute
  split; · simp
  rename_i eh heh
  obtain ⟨pre, suf, hs, hlen, _⟩ := indexByte_spec heh
  have he : eh < s.length := by rw [hs]; simp; omega
  split; · simp
  rename_i hdot
  split; · simp
  unfold runFrom
  split
  · simp
  · rename_i hl; exact absurd hl (loop_ne_panic hdot _)
  · split
    · simp
    · rename_i hf; exact absurd hf (finish_ne_panic he)
    · simp

/-! ## Part 2 — the validator seen one token at a time -/

/-- the validator state between two tokens (no position, no scanning state) -/
structure TSt where
  /-- the first '/' has not been consumed yet -/
  inHost : Bool := true
  /-- last byte consumed -/
  prev : Option UInt8 := none
  /-- the byte before the first '/' (`none`: the pattern starts with '/'), recorded when the '/' is consumed -/
  hostEnd : Option UInt8 := none
  previous : PState := .default
  paramCnt : Nat := 0
  countStatic : Nat := 0
  nonNumeric : Bool := false
  partlen : Nat := 0
  totallen : Nat := 0
  last : UInt8 := DOT
deriving Repr, DecidableEq

def checkCntT (mp : Nat) (σ : TSt) : Option TSt := if σ.paramCnt > mp then none else some σ

/-- `hostByte` on the token state -/
def hostByteT (σ : TSt) (c : UInt8) : Option TSt :=
  if isLetter c then some { σ with nonNumeric := true, partlen := σ.partlen + 1, last := c }
  else if isDigit c then some { σ with partlen := σ.partlen + 1, last := c }
  else if c = DASH then
    if σ.last = DOT then none
    else some { σ with partlen := σ.partlen + 1, nonNumeric := true, last := c }
  else if c = DOT then
    if σ.last = DOT ∧ σ.prev ≠ some RBR then none
    else if σ.last = DASH then none
    else if σ.partlen > 63 then none
    else some { σ with totallen := σ.totallen + (σ.partlen + 1), partlen := 0, last := c }
  else none

/-- one token; `nx` = the byte that follows the token (`none` at the end of the pattern) -/
def tokStep (lim : Spec.Limits) (σ : TSt) (t : Tok) (nx : Option UInt8) : Option TSt :=
  match t with
  | .param n =>
    if σ.paramCnt + 1 > lim.maxParams then none
    else if !Spec.nameOk lim σ.inHost n then none
    else if (match nx with | none => false | some d => d != (if σ.inHost then DOT else SLASH) && d != SLASH) then none
    else some { σ with prev := some RBR, previous := .param, paramCnt := σ.paramCnt + 1, countStatic := 0,
                       nonNumeric := σ.inHost || σ.nonNumeric }
  | .catchAll n =>
    if σ.inHost then none
    else if σ.paramCnt + 1 > lim.maxParams then none
    else if !Spec.nameOk lim false n then none
    else if (match nx with | none => false | some d => d != SLASH) then none
    else if σ.previous = .catchAll ∧ σ.countStatic ≤ 1 then none
    else some { σ with prev := some RBR, previous := .catchAll, paramCnt := σ.paramCnt + 1, countStatic := 0 }
  | .lit b =>
    if σ.inHost then
      if b = SLASH then
        checkCntT lim.maxParams { σ with inHost := false, hostEnd := σ.prev, prev := some b, countStatic := σ.countStatic + 1 }
      else
        match hostByteT { σ with countStatic := σ.countStatic + 1 } b with
        | none => none
        | some σ' => checkCntT lim.maxParams { σ' with prev := some b }
    else checkCntT lim.maxParams { σ with prev := some b, countStatic := σ.countStatic + 1 }

/-- first byte of the rendering of `ts` followed by `k` -/
def nextByte (ts : List Tok) (k : Option UInt8) : Option UInt8 :=
  match ts with
  | [] => k
  | .lit b :: _ => some b
  | .param _ :: _ => some LBR
  | .catchAll _ :: _ => some STAR

def tokLoop (lim : Spec.Limits) (σ : TSt) : List Tok → Option UInt8 → Option TSt
  | [], _ => some σ
  | t :: ts, k =>
    match tokStep lim σ t (nextByte ts k) with
    | none => none
    | some σ' => tokLoop lim σ' ts k

/-- the checks after the loop -/
def tfinish (σ : TSt) : Option Nat :=
  if σ.inHost then none else
  match σ.hostEnd with
  | none => some σ.paramCnt
  | some c =>
    if σ.last = DASH then none
    else if c = DOT then none
    else if !σ.nonNumeric then none
    else if σ.partlen > 63 then none
    else if σ.totallen + σ.partlen > 255 then none
    else some σ.paramCnt

/-- acceptance of a token list by the token machine -/
def tokAccept (lim : Spec.Limits) (toks : List Tok) : Option Nat :=
  match tokLoop lim {} toks none with
  | none => none
  | some σ => tfinish σ

/-- outcome of the byte machine from state `st`, rejection reasons erased -/
def acc (mp mk eh : Nat) (s : Bytes) (st : PSt) : Option Nat :=
  match loop mp mk eh s st with
  | .error _ => none
  | .ok st' =>
    match finish eh s st' with
    | .error _ => none
    | .ok r => some r.1

/-! ### byte machine = token machine ∘ tokenize -/

theorem getElem?_at (pre : Bytes) (b : UInt8) (r : Bytes) : (pre ++ b :: r)[pre.length]? = some b := by
  simp

theorem getElem?_at_succ (pre : Bytes) (b : UInt8) (r : Bytes) : (pre ++ b :: r)[pre.length + 1]? = r.head? := by
  rw [List.getElem?_append_right (by omega)]
  cases r <;> simp

theorem getElem?_pred (pre suf : Bytes) (h : pre ≠ []) : (pre ++ suf)[pre.length - 1]? = pre.getLast? := by
  have hl : pre.length - 1 < pre.length := Nat.sub_lt (List.length_pos_iff.mpr h) (by omega)
  rw [List.getElem?_append_left hl, List.getLast?_eq_getElem?]

theorem nextIs_split (pre : Bytes) (b : UInt8) (r : Bytes) (P : UInt8 → Bool) :
    nextIs (pre ++ b :: r) pre.length P = .ok (match r.head? with | some d => P d | none => false) := by
  unfold nextIs
  rw [getElem?_at_succ]
  cases r <;> simp

theorem dotAfterDot_split (pre suf : Bytes) (last : UInt8) :
    dotAfterDot (pre ++ suf) last pre.length =
      if last = DOT then (match pre.getLast? with | none => .error .panic | some p => .ok (p != RBR)) else .ok false := by
  unfold dotAfterDot
  split
  · by_cases hp : pre = []
    · subst hp; simp
    · have h0 : ¬ pre.length = 0 := by simpa using hp
      simp only [h0, if_false]
      rw [getElem?_pred pre suf hp]
      cases pre.getLast? <;> rfl
  · rfl

/-- first-occurrence facts: where a split point lies relative to the first `c` -/
theorem first_occ {c : UInt8} {p0 q0 pre suf : Bytes} (hc : c ∉ p0) (h : p0 ++ c :: q0 = pre ++ suf) :
    (c ∉ pre ∧ ∃ m, p0 = pre ++ m ∧ suf = m ++ c :: q0) ∨ (c ∈ pre ∧ p0.length < pre.length) := by
  rcases List.append_eq_append_iff.mp h with ⟨a, h1, h2⟩ | ⟨a, h1, h2⟩
  · -- pre = p0 ++ a, c :: q0 = a ++ suf
    cases a with
    | nil =>
      left; simp at h1 h2; subst h1
      exact ⟨hc, [], by simp, h2.symm⟩
    | cons x a' =>
      right
      simp at h2; obtain ⟨hx, _⟩ := h2; subst hx
      subst h1; simp
  · -- p0 = pre ++ a, suf = a ++ c :: q0
    left
    subst h1
    exact ⟨fun hm => hc (by simp [hm]), a, rfl, h2⟩

def absT (st : PSt) (inHost : Bool) (prev hostEnd : Option UInt8) : TSt :=
  { inHost := inHost, prev := prev, hostEnd := hostEnd, previous := st.previous, paramCnt := st.paramCnt,
    countStatic := st.countStatic, nonNumeric := st.nonNumeric, partlen := st.partlen, totallen := st.totallen,
    last := st.last }

/-- the token state at the boundary after the consumed prefix `pre` -/
def σof (eh : Nat) (s : Bytes) (st : PSt) (pre : Bytes) : TSt :=
  absT st (decide (SLASH ∉ pre)) pre.getLast?
    (if SLASH ∈ pre then (if eh = 0 then none else s[eh - 1]?) else none)

/-- `st` is the validator state at a token boundary: `pre` consumed, `suf` to come -/
structure Bd (eh : Nat) (s : Bytes) (st : PSt) (pre suf : Bytes) : Prop where
  split : s = pre ++ suf
  hi : st.i = pre.length
  hstate : st.state = .default
  hinp : st.inParam = false
  hdelH : st.i < eh → st.delim = DOT
  hdelP : eh < st.i → st.delim = SLASH

/-! equations of `tokenize` -/
theorem tokenize_nil : tokenize [] = some [] := by rw [tokenize]
theorem tokenize_lbr (bs : Bytes) : tokenize (LBR :: bs) =
    match takeName bs with | some (n, r) => (tokenize r).map (Tok.param n :: ·) | none => none := by
  rw [tokenize.eq_def]; simp only [if_true]
  split <;> rename_i h <;> simp [h]
theorem tokenize_star_nil : tokenize [STAR] = none := by
  rw [tokenize]; simp [show STAR ≠ LBR by decide]
theorem tokenize_star_other (c : UInt8) (cs : Bytes) (h : c ≠ LBR) : tokenize (STAR :: c :: cs) = none := by
  rw [tokenize]; simp [show STAR ≠ LBR by decide, h]
theorem tokenize_star_lbr (cs : Bytes) : tokenize (STAR :: LBR :: cs) =
    match takeName cs with | some (n, r) => (tokenize r).map (Tok.catchAll n :: ·) | none => none := by
  rw [tokenize.eq_def]; simp only [show STAR ≠ LBR by decide, if_false, if_true]
  split <;> rename_i h <;> simp [h]
theorem tokenize_lit (b : UInt8) (bs : Bytes) (h1 : b ≠ LBR) (h2 : b ≠ STAR) :
    tokenize (b :: bs) = (tokenize bs).map (Tok.lit b :: ·) := by
  rw [tokenize.eq_def]; simp [h1, h2]

theorem nextByte_tokenize {r : Bytes} {ts : List Tok} (h : tokenize r = some ts) : nextByte ts none = r.head? := by
  cases r with
  | nil => rw [tokenize_nil] at h; cases h; rfl
  | cons b bs =>
    by_cases h1 : b = LBR
    · subst h1; rw [tokenize_lbr] at h
      split at h
      · cases hr : tokenize ‹Bytes› with
        | none => simp [hr] at h
        | some ts' => simp [hr] at h; subst h; rfl
      · cases h
    · by_cases h2 : b = STAR
      · subst h2
        cases bs with
        | nil => rw [tokenize_star_nil] at h; cases h
        | cons c cs =>
          by_cases h3 : c = LBR
          · subst h3; rw [tokenize_star_lbr] at h
            split at h
            · cases hr : tokenize ‹Bytes› with
              | none => simp [hr] at h
              | some ts' => simp [hr] at h; subst h; rfl
            · cases h
          · rw [tokenize_star_other c cs h3] at h; cases h
      · rw [tokenize_lit b bs h1 h2] at h
        cases hr : tokenize bs with
        | none => simp [hr] at h
        | some ts' => simp [hr] at h; subst h; rfl

section Sim
variable {mp mk eh : Nat} {s p0 q0 : Bytes}

theorem posH (hs0 : s = p0 ++ SLASH :: q0) (hp0 : p0.length = eh) (hn0 : SLASH ∉ p0)
    {pre r : Bytes} {b : UInt8} (hs : s = pre ++ b :: r) (hpre : SLASH ∉ pre) (hb : b ≠ SLASH) : pre.length < eh := by
  rcases first_occ hn0 (hs0.symm.trans hs) with ⟨_, m, h1, h2⟩ | ⟨h, _⟩
  · cases m with
    | nil => simp at h2; exact absurd h2.1 hb
    | cons x m' => rw [← hp0, h1]; simp
  · exact absurd h hpre

theorem posE (hs0 : s = p0 ++ SLASH :: q0) (hp0 : p0.length = eh) (hn0 : SLASH ∉ p0)
    {pre r : Bytes} (hs : s = pre ++ SLASH :: r) (hpre : SLASH ∉ pre) : pre.length = eh := by
  rcases first_occ hn0 (hs0.symm.trans hs) with ⟨_, m, h1, h2⟩ | ⟨h, _⟩
  · cases m with
    | nil => rw [← hp0, h1]; simp
    | cons x m' =>
      simp at h2; obtain ⟨hx, _⟩ := h2; subst hx
      exact absurd (by rw [h1]; simp) hn0
  · exact absurd h hpre

theorem posP (hs0 : s = p0 ++ SLASH :: q0) (hp0 : p0.length = eh) (hn0 : SLASH ∉ p0)
    {pre suf : Bytes} (hs : s = pre ++ suf) (hpre : SLASH ∈ pre) : eh < pre.length := by
  rcases first_occ hn0 (hs0.symm.trans hs) with ⟨h, _⟩ | ⟨_, h⟩
  · exact absurd hpre h
  · omega

theorem bd_next {st st' : PSt} {pre r : Bytes} {b : UInt8} (hb : Bd eh s st pre (b :: r)) (hlt : st.i < eh)
    (h_i : st'.i = st.i + 1) (h_state : st'.state = .default) (h_inp : st'.inParam = false)
    (h_del : st'.delim = st.delim) : Bd eh s st' (pre ++ [b]) r :=
  ⟨by rw [hb.split]; simp, by simp [h_i, hb.hi], h_state, h_inp, fun _ => by rw [h_del]; exact hb.hdelH hlt,
    fun h => by omega⟩

theorem run_lit (hs0 : s = p0 ++ SLASH :: q0) (hp0 : p0.length = eh) (hn0 : SLASH ∉ p0)
    {st : PSt} {pre r : Bytes} {b : UInt8} {nx : Option UInt8}
    (hb : Bd eh s st pre (b :: r)) (h1 : b ≠ LBR) (h2 : b ≠ STAR) :
    match tokStep ⟨mp, mk⟩ (σof eh s st pre) (.lit b) nx with
    | none => ∃ e, step mp mk eh s st = .error e
    | some σ' => ∃ st', step mp mk eh s st = .ok st' ∧ Bd eh s st' (pre ++ [b]) r ∧ σof eh s st' (pre ++ [b]) = σ' := by
  have hc : s[st.i]? = some b := by rw [hb.split, hb.hi]; exact getElem?_at pre b r
  unfold step; rw [hc]; simp only [hb.hstate]
  by_cases hin : SLASH ∈ pre
  · have hlt : eh < st.i := by rw [hb.hi]; exact posP hs0 hp0 hn0 hb.split hin
    have hsd : setDelim eh st = st := by unfold setDelim; rw [if_neg (by omega)]
    rw [hsd]
    simp only [tokStep, σof, absT, hin, not_true_eq_false, decide_false, defaultStep, h1, h2, if_false,
      show ¬ st.i < eh from by omega, checkCnt, checkCntT]
    by_cases hcnt : st.paramCnt > mp
    · simp [hcnt]
    · simp [hcnt]
      exact ⟨⟨by rw [hb.split]; simp, by simp [hb.hi], hb.hstate, hb.hinp, fun h => by simp at h; omega,
        fun _ => hb.hdelP hlt⟩, fun h => absurd hin h, fun h => absurd hin h⟩
  · by_cases hsl : b = SLASH
    · subst hsl
      have hie : st.i = eh := by rw [hb.hi]; exact posE hs0 hp0 hn0 hb.split hin
      have hsd : (setDelim eh st) = { st with delim := SLASH } := by unfold setDelim; rw [if_pos hie]
      rw [hsd]
      simp only [tokStep, σof, absT, hin, not_false_eq_true, decide_true, defaultStep, h1, h2, if_false, if_true,
        show ¬ st.i < eh from by omega, checkCnt, checkCntT]
      by_cases hcnt : st.paramCnt > mp
      · simp [hcnt]
      · simp [hcnt]
        refine ⟨⟨by rw [hb.split]; simp, by simp [hb.hi], hb.hstate, hb.hinp, fun h => by simp at h; omega,
          fun _ => rfl⟩, ?_⟩
        have hpl : pre.length = eh := by rw [← hb.hi]; exact hie
        by_cases hp : pre = []
        · subst hp; simp at hpl; simp [← hpl]
        · have : ¬ eh = 0 := by rw [← hpl]; simpa using hp
          rw [if_neg this, ← hpl, hb.split, getElem?_pred pre _ hp]
    · have hlt : st.i < eh := by rw [hb.hi]; exact posH hs0 hp0 hn0 hb.split hin hsl
      have hsd : setDelim eh st = st := by unfold setDelim; rw [if_neg (by omega)]
      rw [hsd]
      simp only [tokStep, σof, absT, hin, not_false_eq_true, decide_true, defaultStep, h1, h2, hsl, if_false, if_true,
        hlt]
      have hdd := dotAfterDot_split pre (b :: r) st.last
      rw [← hb.split, ← hb.hi] at hdd
      simp only [hostByte, hostByteT, hdd]
      by_cases c1 : isLetter b
      · simp only [c1, if_true, checkCnt, checkCntT]
        by_cases hcnt : st.paramCnt > mp
        · simp [hcnt]
        · simp [hcnt, hin, hsl]
          exact ⟨bd_next hb hlt rfl hb.hstate hb.hinp rfl, fun h => hsl h.symm, fun h => absurd h.symm hsl⟩
      simp only [c1, Bool.false_eq_true, if_false]
      by_cases c2 : isDigit b
      · simp only [c2, if_true, checkCnt, checkCntT]
        by_cases hcnt : st.paramCnt > mp
        · simp [hcnt]
        · simp [hcnt, hin, hsl]
          exact ⟨bd_next hb hlt rfl hb.hstate hb.hinp rfl, fun h => hsl h.symm, fun h => absurd h.symm hsl⟩
      simp only [c2, Bool.false_eq_true, if_false]
      by_cases c3 : b = DASH
      · simp only [c3, if_true]
        by_cases hl : st.last = DOT
        · simp [hl]
        · simp only [hl, if_false, checkCnt, checkCntT]
          by_cases hcnt : st.paramCnt > mp
          · simp [hcnt]
          · subst c3
            simp [hcnt, hin, hsl]
            exact ⟨bd_next hb hlt rfl hb.hstate hb.hinp rfl, fun h => hsl h.symm, fun h => absurd h.symm hsl⟩
      simp only [c3, if_false]
      by_cases c4 : b = DOT
      · simp only [c4, if_true]
        by_cases hl : st.last = DOT
        · simp only [hl, if_true, true_and]
          cases hpl : pre.getLast? with
          | none => simp
          | some p =>
            by_cases hp : p = RBR
            · subst hp
              have hnd : ¬ DOT = DASH := by decide
              simp only [bne_self_eq_false, hnd, if_false, not_true_eq_false]
              by_cases h63 : st.partlen > 63
              · simp [h63]
              · simp only [h63, if_false, checkCnt, checkCntT]
                by_cases hcnt : st.paramCnt > mp
                · simp [hcnt]
                · subst c4
                  simp [hcnt, hin, hsl]
                  exact ⟨bd_next hb hlt rfl hb.hstate hb.hinp rfl, fun h => hsl h.symm, fun h => absurd h.symm hsl⟩
            · have : (p != RBR) = true := by simpa using hp
              simp [this, hp]
        · simp only [hl, if_false, false_and]
          by_cases hd : st.last = DASH
          · simp [hd]
          · simp only [hd, if_false]
            by_cases h63 : st.partlen > 63
            · simp [h63]
            · simp only [h63, if_false, checkCnt, checkCntT]
              by_cases hcnt : st.paramCnt > mp
              · simp [hcnt]
              · subst c4
                simp [hcnt, hin, hsl]
                exact ⟨bd_next hb hlt rfl hb.hstate hb.hinp rfl, fun h => hsl h.symm, fun h => absurd h.symm hsl⟩
      · simp [c4]

/-- scanning a wildcard name: byte number `k` (counted from the opening brace) must satisfy `k ≤ maxKeyBytes` and be legal -/
def scanOk (legal : UInt8 → Bool) (mk : Nat) : Nat → Bytes → Bool
  | _, [] => true
  | k, b :: n => decide (k ≤ mk) && legal b && scanOk legal mk (k + 1) n

def legalP (delim : UInt8) (c : UInt8) : Bool := !(c == delim || c == SLASH || c == STAR || c == LBR)
def legalC (c : UInt8) : Bool := !(c == SLASH || c == STAR || c == LBR)

theorem pst_eta (st : PSt) : { st with i := st.i + 0, inParam := (st.inParam || false) } = st := by
  cases st; simp

theorem scan_param {st : PSt} {pre n rest : Bytes} (hst : st.state = .param) (hs : s = pre ++ n ++ rest)
    (hi : st.i = pre.length) (hr : RBR ∉ n) (hsp : st.startParam ≤ st.i) :
    if scanOk (legalP st.delim) mk (st.i - st.startParam) n then
      loop mp mk eh s st = loop mp mk eh s { st with i := st.i + n.length, inParam := (st.inParam || !n.isEmpty) }
    else ∃ e, loop mp mk eh s st = .error e := by
  induction n generalizing st pre with
  | nil => simp [scanOk]
  | cons b n ih =>
    have hc : s[st.i]? = some b := by rw [hs, hi]; simp
    have hlt : st.i < s.length := by rw [hs, hi]; simp
    have hb : b ≠ RBR := fun h => hr (by simp [h])
    have hstep : step mp mk eh s st =
        if st.i - st.startParam > mk then .error (.invalid .keyTooLargeParam)
        else if (b = st.delim || b = SLASH || b = STAR || b = LBR) then .error (.invalid .inParam)
        else .ok { st with inParam := true, i := st.i + 1 } := by
      unfold step; rw [hc]; simp only [hst, hb, if_false]
    simp only [scanOk]
    by_cases h1 : st.i - st.startParam > mk
    · have : ¬ (st.i - st.startParam ≤ mk) := by omega
      simp only [this, decide_false, Bool.false_and, Bool.false_eq_true, if_false]
      exact ⟨_, loop_err hlt (by rw [hstep, if_pos h1])⟩
    · have h1' : st.i - st.startParam ≤ mk := by omega
      by_cases h2 : (b = st.delim || b = SLASH || b = STAR || b = LBR) = true
      · have : legalP st.delim b = false := by
          simp only [legalP, Bool.not_eq_false']; simpa using h2
        simp only [this, Bool.and_false, Bool.false_and, Bool.false_eq_true, if_false]
        exact ⟨_, loop_err hlt (by rw [hstep, if_neg h1, if_pos h2])⟩
      · have hl : legalP st.delim b = true := by
          simp only [legalP, Bool.not_eq_true']; simpa using h2
        simp only [h1', decide_true, hl, Bool.true_and]
        have hs1 := loop_step (mp := mp) (mk := mk) (eh := eh) hlt (by rw [hstep, if_neg h1, if_neg h2])
        rw [hs1]
        have := @ih { st with inParam := true, i := st.i + 1 } (pre ++ [b]) hst (by rw [hs]; simp) (by simp [hi])
          (fun h => hr (by simp [h])) (by simp; omega)
        have hk : st.i + 1 - st.startParam = st.i - st.startParam + 1 := by omega
        simp only [hk] at this
        split
        · rename_i hok
          rw [if_pos hok] at this
          rw [this]
          congr 1
          simp; omega
        · rename_i hok
          rw [if_neg hok] at this
          exact this

theorem scan_catch {st : PSt} {pre n rest : Bytes} (hst : st.state = .catchAll) (hs : s = pre ++ n ++ rest)
    (hi : st.i = pre.length) (hr : RBR ∉ n) (hsp : st.startParam ≤ st.i) :
    if scanOk (legalC) mk (st.i - st.startParam) n then
      loop mp mk eh s st = loop mp mk eh s { st with i := st.i + n.length, inParam := (st.inParam || !n.isEmpty) }
    else ∃ e, loop mp mk eh s st = .error e := by
  induction n generalizing st pre with
  | nil => simp [scanOk]
  | cons b n ih =>
    have hc : s[st.i]? = some b := by rw [hs, hi]; simp
    have hlt : st.i < s.length := by rw [hs, hi]; simp
    have hb : b ≠ RBR := fun h => hr (by simp [h])
    have hstep : step mp mk eh s st =
        if st.i - st.startParam > mk then .error (.invalid .keyTooLargeCatchAll)
        else if (b = SLASH || b = STAR || b = LBR) then .error (.invalid .inCatchAll)
        else .ok { st with inParam := true, i := st.i + 1 } := by
      unfold step; rw [hc]; simp only [hst, hb, if_false]
    simp only [scanOk]
    by_cases h1 : st.i - st.startParam > mk
    · have : ¬ (st.i - st.startParam ≤ mk) := by omega
      simp only [this, decide_false, Bool.false_and, Bool.false_eq_true, if_false]
      exact ⟨_, loop_err hlt (by rw [hstep, if_pos h1])⟩
    · have h1' : st.i - st.startParam ≤ mk := by omega
      by_cases h2 : (b = SLASH || b = STAR || b = LBR) = true
      · have : legalC b = false := by
          simp only [legalC, Bool.not_eq_false']; simpa using h2
        simp only [this, Bool.and_false, Bool.false_and, Bool.false_eq_true, if_false]
        exact ⟨_, loop_err hlt (by rw [hstep, if_neg h1, if_pos h2])⟩
      · have hl : legalC b = true := by
          simp only [legalC, Bool.not_eq_true']; simpa using h2
        simp only [h1', decide_true, hl, Bool.true_and]
        have hs1 := loop_step (mp := mp) (mk := mk) (eh := eh) hlt (by rw [hstep, if_neg h1, if_neg h2])
        rw [hs1]
        have := @ih { st with inParam := true, i := st.i + 1 } (pre ++ [b]) hst (by rw [hs]; simp) (by simp [hi])
          (fun h => hr (by simp [h])) (by simp; omega)
        have hk : st.i + 1 - st.startParam = st.i - st.startParam + 1 := by omega
        simp only [hk] at this
        split
        · rename_i hok
          rw [if_pos hok] at this
          rw [this]
          congr 1
          simp; omega
        · rename_i hok
          rw [if_neg hok] at this
          exact this

theorem scanOk_eq (legal : UInt8 → Bool) (mk k : Nat) (n : Bytes) :
    scanOk legal mk k n = (n.all legal && (n.isEmpty || decide (k + n.length ≤ mk + 1))) := by
  induction n generalizing k with
  | nil => simp [scanOk]
  | cons b n ih =>
    simp only [scanOk, ih, List.all_cons, List.isEmpty_cons, Bool.false_or, List.length_cons]
    cases n with
    | nil => simp [Bool.and_comm]
    | cons c n' =>
      simp only [List.isEmpty_cons, Bool.false_or, List.length_cons]
      by_cases h1 : k ≤ mk <;> by_cases h2 : k + 1 + (n'.length + 1) ≤ mk + 1 <;>
        by_cases h3 : k + (n'.length + 1 + 1) ≤ mk + 1 <;> simp [h1, h2, h3] <;> omega

theorem takeName_spec {s n r : Bytes} (h : takeName s = some (n, r)) : s = n ++ RBR :: r ∧ RBR ∉ n := by
  induction s generalizing n r with
  | nil => simp [takeName] at h
  | cons b bs ih =>
    simp only [takeName] at h
    split at h
    · rename_i hb; simp at h; obtain ⟨rfl, rfl⟩ := h; simp [hb]
    · rename_i hb
      split at h
      · rename_i n' r' heq
        simp at h; obtain ⟨rfl, rfl⟩ := h
        obtain ⟨h1, h2⟩ := ih heq
        refine ⟨by simp [h1], ?_⟩
        simp only [List.mem_cons, not_or]; exact ⟨fun e => hb e.symm, h2⟩
      · simp at h

theorem takeName_none {s : Bytes} (h : takeName s = none) : RBR ∉ s := by
  induction s with
  | nil => simp
  | cons b bs ih =>
    simp only [takeName] at h
    split at h
    · simp at h
    · rename_i hb
      split at h
      · simp at h
      · rename_i heq
        simp only [List.mem_cons, not_or]; exact ⟨fun e => hb e.symm, ih heq⟩

theorem nameOk_iff {lim : Spec.Limits} {inHost : Bool} {n : Bytes} (hr : RBR ∉ n) :
    Spec.nameOk lim inHost n = true ↔
      n ≠ [] ∧ scanOk (legalP (if inHost then DOT else SLASH)) lim.maxKeyBytes 1 n = true := by
  rw [scanOk_eq]
  simp only [Spec.nameOk, Bool.and_eq_true, Bool.not_eq_true', decide_eq_true_eq, List.all_eq_true, Bool.or_eq_true,
    List.isEmpty_iff]
  constructor
  · rintro ⟨⟨h1, h2⟩, h3⟩
    have hne : n ≠ [] := by intro h; subst h; simp at h1
    refine ⟨hne, ?_, Or.inr (by omega)⟩
    intro b hb
    have := h3 b hb
    cases inHost <;> simp_all [legalP]
  · rintro ⟨hne, h3, h4⟩
    refine ⟨⟨by cases n <;> simp_all, ?_⟩, ?_⟩
    · rcases h4 with h4 | h4
      · exact absurd h4 hne
      · omega
    · intro b hb
      have := h3 b hb
      have hb' : b ≠ RBR := fun h => hr (h ▸ hb)
      cases inHost <;> simp_all [legalP]

theorem run_param (hs0 : s = p0 ++ SLASH :: q0) (hp0 : p0.length = eh) (hn0 : SLASH ∉ p0)
    {st : PSt} {pre n r : Bytes} (hb : Bd eh s st pre (LBR :: (n ++ RBR :: r))) (hr : RBR ∉ n) :
    match tokStep ⟨mp, mk⟩ (σof eh s st pre) (.param n) r.head? with
    | none => ∃ e, loop mp mk eh s st = .error e
    | some σ' => ∃ st', loop mp mk eh s st = loop mp mk eh s st' ∧ Bd eh s st' (pre ++ LBR :: n ++ [RBR]) r ∧
        σof eh s st' (pre ++ LBR :: n ++ [RBR]) = σ' := by
  have hc : s[st.i]? = some LBR := by rw [hb.split, hb.hi]; simp
  have hlt0 : st.i < s.length := by rw [hb.split, hb.hi]; simp
  have hsl : LBR ≠ SLASH := by decide
  -- position relative to the first slash, and the delimiter in force
  have hdelim : st.i ≠ eh ∧ st.delim = (if decide (SLASH ∉ pre) then DOT else SLASH) := by
    by_cases hin : SLASH ∈ pre
    · have := posP hs0 hp0 hn0 hb.split hin
      rw [← hb.hi] at this
      exact ⟨by omega, by simp [hin, hb.hdelP this]⟩
    · have := posH hs0 hp0 hn0 hb.split hin hsl
      rw [← hb.hi] at this
      exact ⟨by omega, by simp [hin, hb.hdelH this]⟩
  have hsd : setDelim eh st = st := by unfold setDelim; rw [if_neg hdelim.1]
  have hstep0 : step mp mk eh s st =
      checkCnt mp { st with state := .param, startParam := st.i, paramCnt := st.paramCnt + 1 } := by
    unfold step; rw [hc]; simp only [hb.hstate, hsd, defaultStep, if_true]
  by_cases hcnt : st.paramCnt + 1 > mp
  · have : tokStep ⟨mp, mk⟩ (σof eh s st pre) (.param n) r.head? = none := by
      simp [tokStep, σof, absT, hcnt]
    rw [this]
    exact ⟨.invalid .tooManyParams, loop_err hlt0 (by rw [hstep0]; simp [checkCnt, hcnt])⟩
  let st1 : PSt := { st with state := .param, startParam := st.i, paramCnt := st.paramCnt + 1, i := st.i + 1 }
  have hl1 : loop mp mk eh s st = loop mp mk eh s st1 :=
    loop_step hlt0 (by rw [hstep0]; simp [checkCnt, hcnt, st1])
  rw [hl1]
  have hscan := @scan_param mp mk eh s st1 (pre ++ [LBR]) n (RBR :: r) rfl (by rw [hb.split]; simp)
    (by simp [st1, hb.hi]) hr (by simp [st1])
  have hk : st1.i - st1.startParam = 1 := by simp [st1]
  rw [hk] at hscan
  have hname := @nameOk_iff ⟨mp, mk⟩ (decide (SLASH ∉ pre)) n hr
  have hd1 : st1.delim = (if decide (SLASH ∉ pre) then DOT else SLASH) := hdelim.2
  rw [← hd1] at hname
  simp only at hname
  by_cases hok : Spec.nameOk ⟨mp, mk⟩ (decide (SLASH ∉ pre)) n = true
  case neg =>
    have hok' := Bool.eq_false_iff.mpr hok
    have : tokStep ⟨mp, mk⟩ (σof eh s st pre) (.param n) r.head? = none := by
      simp only [tokStep, σof, absT, hcnt, if_false, hok', Bool.not_false, if_true]
    rw [this]
    by_cases hsc : scanOk (legalP st1.delim) mk 1 n = true
    · -- the name scans but is empty
      have hne : n = [] := by
        by_cases hne : n = []
        · exact hne
        · exact absurd (hname.mpr ⟨hne, hsc⟩) hok
      subst hne
      rw [if_pos hsc] at hscan
      rw [hscan]
      refine ⟨.invalid .emptyParam, loop_err (by rw [hb.split]; simp [st1, hb.hi]) ?_⟩
      unfold step
      have : s[st1.i + 0]? = some RBR := by rw [hb.split]; simp [st1, hb.hi]
      simp only [List.length_nil, this]
      simp [st1, hb.hinp]
    · rw [if_neg hsc] at hscan; exact hscan
  obtain ⟨hne, hsc⟩ := hname.mp hok
  rw [if_pos hsc] at hscan
  rw [hscan]
  let st2 : PSt := { st1 with i := st1.i + n.length, inParam := (st1.inParam || !n.isEmpty) }
  have hi2 : st2.i = (pre ++ LBR :: n).length := by simp [st2, st1, hb.hi]; omega
  have hs2 : s = (pre ++ LBR :: n) ++ RBR :: r := by rw [hb.split]; simp
  have hc2 : s[st2.i]? = some RBR := by rw [hi2, hs2]; exact getElem?_at _ _ _
  have hlt2 : st2.i < s.length := by rw [hi2, hs2]; simp
  have hnx : nextIs s st2.i (fun d => d != st2.delim && d != SLASH) =
      .ok (match r.head? with | some d => (d != st2.delim && d != SLASH) | none => false) := by
    rw [hi2, hs2]; exact nextIs_split _ _ _ _
  have hinp2 : st2.inParam = true := by cases n <;> simp_all [st2, st1]
  -- SLASH ∉ n
  have hsn : SLASH ∉ n := by
    intro hm
    rw [scanOk_eq] at hsc
    simp only [Bool.and_eq_true, List.all_eq_true] at hsc
    have := hsc.1 _ hm
    simp [legalP] at this
  have hmem : SLASH ∈ pre ++ LBR :: n ++ [RBR] ↔ SLASH ∈ pre := by
    have h1 : ¬ SLASH = LBR := by decide
    have h2 : ¬ SLASH = RBR := by decide
    simp [hsn, h1, h2]
  have hpos2 : st2.i < eh ↔ SLASH ∉ pre := by
    constructor
    · intro h hin
      have := posP hs0 hp0 hn0 hb.split hin
      rw [hi2] at h; simp at h; omega
    · intro hin
      rw [hi2]
      refine posH hs0 hp0 hn0 hs2 ?_ (by decide)
      have h1 : ¬ SLASH = LBR := by decide
      simp [hin, hsn, h1]
  have hd2 : st2.delim = (if decide (SLASH ∉ pre) then DOT else SLASH) := hd1
  let st3 : PSt := { st2 with inParam := false, nonNumeric := (if st2.i < eh then true else st2.nonNumeric), countStatic := 0, previous := st2.state, state := .default, i := st2.i + 1 }
  have hstep2 : step mp mk eh s st2 =
      match (match r.head? with | some d => (d != st2.delim && d != SLASH) | none => false) with
      | true => .error (.invalid .afterParam)
      | false => .ok st3 := by
    unfold step; rw [hc2]
    have : st2.state = .param := rfl
    simp only [this, if_true, hinp2, Bool.not_true, Bool.false_eq_true, if_false, hnx]
    cases (match r.head? with | some d => (d != st2.delim && d != SLASH) | none => false) <;> rfl
  rw [hd2] at hstep2
  have hbd3 : Bd eh s st3 (pre ++ LBR :: n ++ [RBR]) r := by
    refine ⟨by rw [hs2]; simp, by simp [st3, hi2]; omega, rfl, rfl, ?_, ?_⟩
    · intro h; simp [st3] at h
      have : st2.i < eh := by omega
      have hin := hpos2.mp this
      have := hd2; simp [hin] at this; exact this
    · intro h; simp [st3] at h
      have hni : ¬ st2.i < eh := by omega
      have hin : SLASH ∈ pre := by
        by_cases hin : SLASH ∈ pre
        · exact hin
        · exact absurd (hpos2.mpr hin) hni
      have := hd2; simp [hin] at this; exact this
  have hσ3 : σof eh s st3 (pre ++ LBR :: n ++ [RBR]) =
      { σof eh s st pre with prev := some RBR, previous := .param, paramCnt := st.paramCnt + 1, countStatic := 0,
                             nonNumeric := (decide (SLASH ∉ pre) || st.nonNumeric) } := by
    simp only [σof, absT, hmem]
    have hgl : (pre ++ LBR :: n ++ [RBR]).getLast? = some RBR := by
      rw [List.getLast?_append]; simp
    simp only [hgl]
    by_cases hin : SLASH ∈ pre
    · have : ¬ st2.i < eh := fun h => hpos2.mp h hin
      simp [hin, this, st3, st2, st1]
    · have : st2.i < eh := hpos2.mpr hin
      simp [hin, this, st3, st2, st1]
  cases hrh : r.head? with
  | none =>
    rw [hrh] at hstep2
    simp only at hstep2
    simp only [tokStep, hcnt, if_false, hok, Bool.not_true, Bool.false_eq_true,
      show (σof eh s st pre).paramCnt = st.paramCnt from rfl, show (σof eh s st pre).inHost = decide (SLASH ∉ pre) from rfl,
      show (σof eh s st pre).nonNumeric = st.nonNumeric from rfl]
    exact ⟨st3, loop_step hlt2 hstep2, hbd3, hσ3⟩
  | some d =>
    rw [hrh] at hstep2
    simp only at hstep2
    simp only [tokStep, hcnt, if_false, hok, Bool.not_true, Bool.false_eq_true,
      show (σof eh s st pre).paramCnt = st.paramCnt from rfl, show (σof eh s st pre).inHost = decide (SLASH ∉ pre) from rfl,
      show (σof eh s st pre).nonNumeric = st.nonNumeric from rfl]
    cases hbad : (d != (if decide (SLASH ∉ pre) then DOT else SLASH) && d != SLASH)
    · rw [hbad] at hstep2
      simp only [Bool.false_eq_true, if_false]
      exact ⟨st3, loop_step hlt2 hstep2, hbd3, hσ3⟩
    · rw [hbad] at hstep2
      simp only [if_true]
      exact ⟨_, loop_err hlt2 hstep2⟩

theorem legalP_slash : legalP SLASH = legalC := by
  funext c; simp only [legalP, legalC]; cases (c == SLASH) <;> simp

theorem run_catch (hs0 : s = p0 ++ SLASH :: q0) (hp0 : p0.length = eh) (hn0 : SLASH ∉ p0)
    {st : PSt} {pre n r : Bytes} (hb : Bd eh s st pre (STAR :: LBR :: (n ++ RBR :: r))) (hr : RBR ∉ n) :
    match tokStep ⟨mp, mk⟩ (σof eh s st pre) (.catchAll n) r.head? with
    | none => ∃ e, loop mp mk eh s st = .error e
    | some σ' => ∃ st', loop mp mk eh s st = loop mp mk eh s st' ∧ Bd eh s st' (pre ++ STAR :: LBR :: n ++ [RBR]) r ∧
        σof eh s st' (pre ++ STAR :: LBR :: n ++ [RBR]) = σ' := by
  have hc : s[st.i]? = some STAR := by rw [hb.split, hb.hi]; simp
  have hlt0 : st.i < s.length := by rw [hb.split, hb.hi]; simp
  have hsl : STAR ≠ SLASH := by decide
  have hsb : STAR ≠ LBR := by decide
  by_cases hin : SLASH ∈ pre
  case neg =>
    -- in the hostname: rejected
    have hlt := posH hs0 hp0 hn0 hb.split hin hsl
    rw [← hb.hi] at hlt
    have hsd : setDelim eh st = st := by unfold setDelim; rw [if_neg (by omega)]
    have : tokStep ⟨mp, mk⟩ (σof eh s st pre) (.catchAll n) r.head? = none := by
      simp [tokStep, σof, absT, hin]
    rw [this]
    refine ⟨.invalid .catchAllInHost, loop_err hlt0 ?_⟩
    unfold step; rw [hc]; simp only [hb.hstate, hsd, defaultStep, hsb, if_false, if_true, hlt]
  have hgt := posP hs0 hp0 hn0 hb.split hin
  rw [← hb.hi] at hgt
  have hdel : st.delim = SLASH := hb.hdelP hgt
  have hsd : setDelim eh st = st := by unfold setDelim; rw [if_neg (by omega)]
  have hnx0 : nextIs s st.i (fun d => d != LBR) = .ok false := by
    rw [hb.split, hb.hi, nextIs_split]; simp
  have hstep0 : step mp mk eh s st =
      checkCnt mp { st with state := .catchAll, i := st.i + 1, startParam := st.i + 1, paramCnt := st.paramCnt + 1 } := by
    unfold step; rw [hc]
    simp only [hb.hstate, hsd, defaultStep, hsb, if_false, if_true, show ¬ st.i < eh from by omega, hnx0]
  have hinH : (σof eh s st pre).inHost = false := by simp [σof, absT, hin]
  by_cases hcnt : st.paramCnt + 1 > mp
  · have : tokStep ⟨mp, mk⟩ (σof eh s st pre) (.catchAll n) r.head? = none := by
      simp [tokStep, hinH, show (σof eh s st pre).paramCnt = st.paramCnt from rfl, hcnt]
    rw [this]
    exact ⟨.invalid .tooManyParams, loop_err hlt0 (by rw [hstep0]; simp [checkCnt, hcnt])⟩
  let st1 : PSt := { st with state := .catchAll, startParam := st.i + 1, paramCnt := st.paramCnt + 1, i := st.i + 1 + 1 }
  have hl1 : loop mp mk eh s st = loop mp mk eh s st1 :=
    loop_step hlt0 (by rw [hstep0]; simp [checkCnt, hcnt, st1])
  rw [hl1]
  have hscan := @scan_catch mp mk eh s st1 (pre ++ [STAR, LBR]) n (RBR :: r) rfl (by rw [hb.split]; simp)
    (by simp [st1, hb.hi]) hr (by simp [st1])
  have hk : st1.i - st1.startParam = 1 := by simp [st1]
  rw [hk] at hscan
  have hname := @nameOk_iff ⟨mp, mk⟩ false n hr
  simp only [Bool.false_eq_true, if_false, legalP_slash] at hname
  by_cases hok : Spec.nameOk ⟨mp, mk⟩ false n = true
  case neg =>
    have hok' := Bool.eq_false_iff.mpr hok
    have : tokStep ⟨mp, mk⟩ (σof eh s st pre) (.catchAll n) r.head? = none := by
      simp only [tokStep, hinH, Bool.false_eq_true, if_false,
        show (σof eh s st pre).paramCnt = st.paramCnt from rfl, hcnt, hok', Bool.not_false, if_true]
    rw [this]
    by_cases hsc : scanOk legalC mk 1 n = true
    · have hne : n = [] := by
        by_cases hne : n = []
        · exact hne
        · exact absurd (hname.mpr ⟨hne, hsc⟩) hok
      subst hne
      rw [if_pos hsc] at hscan
      rw [hscan]
      refine ⟨.invalid .emptyCatchAll, loop_err (by rw [hb.split]; simp [st1, hb.hi]) ?_⟩
      unfold step
      have : s[st1.i + 0]? = some RBR := by rw [hb.split]; simp [st1, hb.hi]
      simp only [List.length_nil, this]
      simp [st1, hb.hinp]
    · rw [if_neg hsc] at hscan; exact hscan
  obtain ⟨hne, hsc⟩ := hname.mp hok
  rw [if_pos hsc] at hscan
  rw [hscan]
  let st2 : PSt := { st1 with i := st1.i + n.length, inParam := (st1.inParam || !n.isEmpty) }
  have hi2 : st2.i = (pre ++ STAR :: LBR :: n).length := by simp [st2, st1, hb.hi]; omega
  have hs2 : s = (pre ++ STAR :: LBR :: n) ++ RBR :: r := by rw [hb.split]; simp
  have hc2 : s[st2.i]? = some RBR := by rw [hi2, hs2]; exact getElem?_at _ _ _
  have hlt2 : st2.i < s.length := by rw [hi2, hs2]; simp
  have hnx : nextIs s st2.i (fun d => d != SLASH) =
      .ok (match r.head? with | some d => (d != SLASH) | none => false) := by
    rw [hi2, hs2]; exact nextIs_split _ _ _ _
  have hinp2 : st2.inParam = true := by cases n <;> simp_all [st2, st1]
  have hmem : SLASH ∈ pre ++ STAR :: LBR :: n ++ [RBR] := by simp [hin]
  let st3 : PSt := { st2 with inParam := false, countStatic := 0, previous := st2.state, state := .default, i := st2.i + 1 }
  have hstep2 : step mp mk eh s st2 =
      match (match r.head? with | some d => (d != SLASH) | none => false) with
      | true => .error (.invalid .afterCatchAll)
      | false => if st.previous = .catchAll ∧ st.countStatic ≤ 1 then .error (.invalid .consecutive) else .ok st3 := by
    unfold step; rw [hc2]
    have : st2.state = .catchAll := rfl
    simp only [this, if_true, hinp2, Bool.not_true, Bool.false_eq_true, if_false, hnx]
    cases (match r.head? with | some d => (d != SLASH) | none => false) <;> rfl
  have hbd3 : Bd eh s st3 (pre ++ STAR :: LBR :: n ++ [RBR]) r := by
    refine ⟨by rw [hs2]; simp, by simp [st3, hi2]; omega, rfl, rfl, ?_, fun _ => hdel⟩
    intro h; simp [st3, st2, st1] at h; omega
  have hσ3 : σof eh s st3 (pre ++ STAR :: LBR :: n ++ [RBR]) =
      { σof eh s st pre with inHost := false, prev := some RBR, previous := .catchAll, paramCnt := st.paramCnt + 1,
                             countStatic := 0 } := by
    have hgl : (pre ++ STAR :: LBR :: n ++ [RBR]).getLast? = some RBR := by
      rw [List.getLast?_append]; simp
    simp only [σof, absT, hgl]
    simp [hmem, hin, st3, st2, st1]
  have hprev : ((σof eh s st pre).previous = .catchAll ∧ (σof eh s st pre).countStatic ≤ 1) ↔
      (st.previous = .catchAll ∧ st.countStatic ≤ 1) := Iff.rfl
  cases hrh : r.head? with
  | none =>
    rw [hrh] at hstep2
    simp only at hstep2
    simp only [tokStep, hinH, Bool.false_eq_true, if_false, hcnt, hok, Bool.not_true,
      show (σof eh s st pre).paramCnt = st.paramCnt from rfl]
    by_cases hcons : st.previous = .catchAll ∧ st.countStatic ≤ 1
    · rw [if_pos hcons] at hstep2
      rw [if_pos (hprev.mpr hcons)]
      exact ⟨_, loop_err hlt2 hstep2⟩
    · rw [if_neg hcons] at hstep2
      rw [if_neg (fun h => hcons (hprev.mp h))]
      exact ⟨st3, loop_step hlt2 hstep2, hbd3, hσ3⟩
  | some d =>
    rw [hrh] at hstep2
    simp only at hstep2
    simp only [tokStep, hinH, Bool.false_eq_true, if_false, hcnt, hok, Bool.not_true,
      show (σof eh s st pre).paramCnt = st.paramCnt from rfl]
    cases hbad : (d != SLASH)
    · rw [hbad] at hstep2
      simp only [Bool.false_eq_true, if_false]
      by_cases hcons : st.previous = .catchAll ∧ st.countStatic ≤ 1
      · rw [if_pos hcons] at hstep2
        rw [if_pos (hprev.mpr hcons)]
        exact ⟨_, loop_err hlt2 hstep2⟩
      · rw [if_neg hcons] at hstep2
        rw [if_neg (fun h => hcons (hprev.mp h))]
        exact ⟨st3, loop_step hlt2 hstep2, hbd3, hσ3⟩
    · rw [hbad] at hstep2
      simp only [if_true]
      exact ⟨_, loop_err hlt2 hstep2⟩

theorem acc_err {st : PSt} {e} (h : loop mp mk eh s st = .error e) : acc mp mk eh s st = none := by
  simp [acc, h]

theorem acc_congr {st st' : PSt} (h : loop mp mk eh s st = loop mp mk eh s st') :
    acc mp mk eh s st = acc mp mk eh s st' := by
  simp [acc, h]

theorem finish_nondefault {st : PSt} (hst : st.state ≠ .default) : ∃ e, finish eh s st = .error e := by
  unfold finish
  cases hostFinish eh s st with
  | error e => exact ⟨e, rfl⟩
  | ok u =>
    cases hs : st.state with
    | default => exact absurd hs hst
    | param => exact ⟨_, rfl⟩
    | catchAll =>
      simp only
      by_cases h0 : s.length = 0
      · simp [h0]
      · simp only [h0, if_false]
        cases s[s.length - 1]? with
        | none => exact ⟨_, rfl⟩
        | some c => by_cases hc : c = STAR <;> simp [hc]

theorem acc_done_nondefault {st : PSt} (h : ¬ st.i < s.length) (hst : st.state ≠ .default) :
    acc mp mk eh s st = none := by
  obtain ⟨e, he⟩ := @finish_nondefault eh s st hst
  simp [acc, loop_done h, he]

theorem i_ne_eh (hs0 : s = p0 ++ SLASH :: q0) (hp0 : p0.length = eh) (hn0 : SLASH ∉ p0)
    {st : PSt} {pre r : Bytes} {b : UInt8} (hb : Bd eh s st pre (b :: r)) (hsl : b ≠ SLASH) : st.i ≠ eh := by
  by_cases hin : SLASH ∈ pre
  · have := posP hs0 hp0 hn0 hb.split hin
    rw [← hb.hi] at this; omega
  · have := posH hs0 hp0 hn0 hb.split hin hsl
    rw [← hb.hi] at this; omega

/-- `{` without a closing brace -/
theorem fail_unclosed_param (hs0 : s = p0 ++ SLASH :: q0) (hp0 : p0.length = eh) (hn0 : SLASH ∉ p0)
    {st : PSt} {pre rest : Bytes} (hb : Bd eh s st pre (LBR :: rest)) (hr : RBR ∉ rest) :
    acc mp mk eh s st = none := by
  have hc : s[st.i]? = some LBR := by rw [hb.split, hb.hi]; simp
  have hlt0 : st.i < s.length := by rw [hb.split, hb.hi]; simp
  have hsd : setDelim eh st = st := by
    unfold setDelim; rw [if_neg (i_ne_eh hs0 hp0 hn0 hb (by decide))]
  have hstep0 : step mp mk eh s st =
      checkCnt mp { st with state := .param, startParam := st.i, paramCnt := st.paramCnt + 1 } := by
    unfold step; rw [hc]; simp only [hb.hstate, hsd, defaultStep, if_true]
  by_cases hcnt : st.paramCnt + 1 > mp
  · exact acc_err (e := .invalid .tooManyParams) (loop_err hlt0 (by rw [hstep0]; simp [checkCnt, hcnt]))
  let st1 : PSt := { st with state := .param, startParam := st.i, paramCnt := st.paramCnt + 1, i := st.i + 1 }
  have hl1 : loop mp mk eh s st = loop mp mk eh s st1 :=
    loop_step hlt0 (by rw [hstep0]; simp [checkCnt, hcnt, st1])
  rw [acc_congr hl1]
  have hscan := @scan_param mp mk eh s st1 (pre ++ [LBR]) rest [] rfl (by rw [hb.split]; simp)
    (by simp [st1, hb.hi]) hr (by simp [st1])
  split at hscan
  · rw [acc_congr hscan]
    exact acc_done_nondefault (by rw [hb.split]; simp [st1, hb.hi]; omega) (by simp [st1])
  · obtain ⟨e, he⟩ := hscan; exact acc_err he

/-- `*{` without a closing brace -/
theorem fail_unclosed_catch (hs0 : s = p0 ++ SLASH :: q0) (hp0 : p0.length = eh) (hn0 : SLASH ∉ p0)
    {st : PSt} {pre rest : Bytes} (hb : Bd eh s st pre (STAR :: LBR :: rest)) (hr : RBR ∉ rest) :
    acc mp mk eh s st = none := by
  have hc : s[st.i]? = some STAR := by rw [hb.split, hb.hi]; simp
  have hlt0 : st.i < s.length := by rw [hb.split, hb.hi]; simp
  have hsb : STAR ≠ LBR := by decide
  have hsd : setDelim eh st = st := by
    unfold setDelim; rw [if_neg (i_ne_eh hs0 hp0 hn0 hb (by decide))]
  have hnx0 : nextIs s st.i (fun d => d != LBR) = .ok false := by
    rw [hb.split, hb.hi, nextIs_split]; simp
  by_cases hlt : st.i < eh
  · refine acc_err (e := .invalid .catchAllInHost) (loop_err hlt0 ?_)
    unfold step; rw [hc]; simp only [hb.hstate, hsd, defaultStep, hsb, if_false, if_true, hlt]
  have hstep0 : step mp mk eh s st =
      checkCnt mp { st with state := .catchAll, i := st.i + 1, startParam := st.i + 1, paramCnt := st.paramCnt + 1 } := by
    unfold step; rw [hc]
    simp only [hb.hstate, hsd, defaultStep, hsb, if_false, if_true, hlt, hnx0]
  by_cases hcnt : st.paramCnt + 1 > mp
  · exact acc_err (e := .invalid .tooManyParams) (loop_err hlt0 (by rw [hstep0]; simp [checkCnt, hcnt]))
  let st1 : PSt := { st with state := .catchAll, startParam := st.i + 1, paramCnt := st.paramCnt + 1, i := st.i + 1 + 1 }
  have hl1 : loop mp mk eh s st = loop mp mk eh s st1 :=
    loop_step hlt0 (by rw [hstep0]; simp [checkCnt, hcnt, st1])
  rw [acc_congr hl1]
  have hscan := @scan_catch mp mk eh s st1 (pre ++ [STAR, LBR]) rest [] rfl (by rw [hb.split]; simp)
    (by simp [st1, hb.hi]) hr (by simp [st1])
  split at hscan
  · rw [acc_congr hscan]
    exact acc_done_nondefault (by rw [hb.split]; simp [st1, hb.hi]; omega) (by simp [st1])
  · obtain ⟨e, he⟩ := hscan; exact acc_err he

/-- `*` at the very end -/
theorem fail_star_end (hs0 : s = p0 ++ SLASH :: q0) (hp0 : p0.length = eh) (hn0 : SLASH ∉ p0)
    {st : PSt} {pre : Bytes} (hb : Bd eh s st pre [STAR]) : acc mp mk eh s st = none := by
  have hc : s[st.i]? = some STAR := by rw [hb.split, hb.hi]; simp
  have hlt0 : st.i < s.length := by rw [hb.split, hb.hi]; simp
  have hsb : STAR ≠ LBR := by decide
  have hsd : setDelim eh st = st := by
    unfold setDelim; rw [if_neg (i_ne_eh hs0 hp0 hn0 hb (by decide))]
  have hnx0 : nextIs s st.i (fun d => d != LBR) = .ok false := by
    rw [hb.split, hb.hi, nextIs_split]; simp
  by_cases hlt : st.i < eh
  · refine acc_err (e := .invalid .catchAllInHost) (loop_err hlt0 ?_)
    unfold step; rw [hc]; simp only [hb.hstate, hsd, defaultStep, hsb, if_false, if_true, hlt]
  have hstep0 : step mp mk eh s st =
      checkCnt mp { st with state := .catchAll, i := st.i + 1, startParam := st.i + 1, paramCnt := st.paramCnt + 1 } := by
    unfold step; rw [hc]
    simp only [hb.hstate, hsd, defaultStep, hsb, if_false, if_true, hlt, hnx0]
  by_cases hcnt : st.paramCnt + 1 > mp
  · exact acc_err (e := .invalid .tooManyParams) (loop_err hlt0 (by rw [hstep0]; simp [checkCnt, hcnt]))
  let st1 : PSt := { st with state := .catchAll, startParam := st.i + 1, paramCnt := st.paramCnt + 1, i := st.i + 1 + 1 }
  have hl1 : loop mp mk eh s st = loop mp mk eh s st1 :=
    loop_step hlt0 (by rw [hstep0]; simp [checkCnt, hcnt, st1])
  rw [acc_congr hl1]
  exact acc_done_nondefault (by rw [hb.split]; simp [st1, hb.hi]) (by simp [st1])

/-- `*` followed by something else than `{` -/
theorem fail_star_other (hs0 : s = p0 ++ SLASH :: q0) (hp0 : p0.length = eh) (hn0 : SLASH ∉ p0)
    {st : PSt} {pre rest : Bytes} {c : UInt8} (hb : Bd eh s st pre (STAR :: c :: rest)) (hcl : c ≠ LBR) :
    acc mp mk eh s st = none := by
  have hc : s[st.i]? = some STAR := by rw [hb.split, hb.hi]; simp
  have hlt0 : st.i < s.length := by rw [hb.split, hb.hi]; simp
  have hsb : STAR ≠ LBR := by decide
  have hsd : setDelim eh st = st := by
    unfold setDelim; rw [if_neg (i_ne_eh hs0 hp0 hn0 hb (by decide))]
  have hnx0 : nextIs s st.i (fun d => d != LBR) = .ok true := by
    rw [hb.split, hb.hi, nextIs_split]; simp [hcl]
  by_cases hlt : st.i < eh
  · refine acc_err (e := .invalid .catchAllInHost) (loop_err hlt0 ?_)
    unfold step; rw [hc]; simp only [hb.hstate, hsd, defaultStep, hsb, if_false, if_true, hlt]
  · refine acc_err (e := .invalid .starNoBrace) (loop_err hlt0 ?_)
    unfold step; rw [hc]; simp only [hb.hstate, hsd, defaultStep, hsb, if_false, if_true, hlt, hnx0]

theorem acc_nil (hs0 : s = p0 ++ SLASH :: q0) (hp0 : p0.length = eh)
    {st : PSt} {pre : Bytes} (hb : Bd eh s st pre []) : acc mp mk eh s st = tfinish (σof eh s st pre) := by
  have hpre : pre = s := by have := hb.split; simp at this; exact this.symm
  have hin : SLASH ∈ pre := by rw [hpre, hs0]; simp
  have hdone : ¬ st.i < s.length := by rw [hb.hi, hpre]; omega
  simp only [acc, loop_done hdone, finish, hb.hstate, tfinish, σof, absT, hin, not_true_eq_false, decide_false,
    Bool.false_eq_true, if_false, if_true]
  by_cases h0 : eh = 0
  · simp [hostFinish, h0]
  · have hlt : eh - 1 < s.length := by rw [hs0]; simp; omega
    have hc : s[eh - 1]? = some s[eh - 1] := List.getElem?_eq_getElem hlt
    simp only [hostFinish, h0, if_false, show eh > 0 from by omega, if_true, hc]
    by_cases h1 : st.last = DASH
    · simp [h1]
    by_cases h2 : s[eh - 1] = DOT
    · simp [h1, h2]
    by_cases h3 : st.nonNumeric = true
    case neg => simp [h1, h2, h3]
    by_cases h4 : st.partlen > 63
    · simp [h1, h2, h3, h4]
    by_cases h5 : st.totallen + st.partlen > 255
    · simp [h1, h2, h3, h4, h5]
    · simp [h1, h2, h3, h4, h5]

/-- **simulation**: from a token boundary, the byte machine accepts exactly when the rest tokenizes and the token
    machine accepts the tokens -/
theorem acc_eq_tok (hs0 : s = p0 ++ SLASH :: q0) (hp0 : p0.length = eh) (hn0 : SLASH ∉ p0) :
    ∀ (k : Nat) (suf pre : Bytes) (st : PSt), suf.length = k → Bd eh s st pre suf →
      acc mp mk eh s st =
        match tokenize suf with
        | none => none
        | some toks => (tokLoop ⟨mp, mk⟩ (σof eh s st pre) toks none).bind tfinish := by
  intro k
  induction k using Nat.strongRecOn with
  | _ k ih =>
    intro suf pre st hk hb
    cases suf with
    | nil =>
      rw [tokenize_nil]
      simp only [tokLoop, Option.bind_some]
      exact acc_nil hs0 hp0 hb
    | cons b rest =>
      by_cases h1 : b = LBR
      · subst h1
        rw [tokenize_lbr]
        cases htn : takeName rest with
        | none =>
          simp only
          exact fail_unclosed_param hs0 hp0 hn0 hb (takeName_none htn)
        | some nr =>
          obtain ⟨n, r⟩ := nr
          obtain ⟨hrest, hrn⟩ := takeName_spec htn
          subst hrest
          simp only
          have hrun := run_param (mp := mp) (mk := mk) hs0 hp0 hn0 hb hrn
          cases htr : tokenize r with
          | none =>
            simp only [Option.map_none]
            cases hts : tokStep ⟨mp, mk⟩ (σof eh s st pre) (.param n) r.head? with
            | none => rw [hts] at hrun; obtain ⟨e, he⟩ := hrun; exact acc_err he
            | some σ' =>
              rw [hts] at hrun
              obtain ⟨st', hl, hb', _⟩ := hrun
              rw [acc_congr hl, ih r.length (by simp at hk; omega) r _ st' rfl hb', htr]
          | some ts =>
            simp only [Option.map_some, tokLoop, nextByte_tokenize htr]
            cases hts : tokStep ⟨mp, mk⟩ (σof eh s st pre) (.param n) r.head? with
            | none => rw [hts] at hrun; obtain ⟨e, he⟩ := hrun; simp only [Option.bind_none]; exact acc_err he
            | some σ' =>
              rw [hts] at hrun
              obtain ⟨st', hl, hb', hσ⟩ := hrun
              rw [acc_congr hl, ih r.length (by simp at hk; omega) r _ st' rfl hb', htr, hσ]
      · by_cases h2 : b = STAR
        · subst h2
          cases rest with
          | nil => rw [tokenize_star_nil]; exact fail_star_end hs0 hp0 hn0 hb
          | cons c cs =>
            by_cases h3 : c = LBR
            · subst h3
              rw [tokenize_star_lbr]
              cases htn : takeName cs with
              | none =>
                simp only
                exact fail_unclosed_catch hs0 hp0 hn0 hb (takeName_none htn)
              | some nr =>
                obtain ⟨n, r⟩ := nr
                obtain ⟨hrest, hrn⟩ := takeName_spec htn
                subst hrest
                simp only
                have hrun := run_catch (mp := mp) (mk := mk) hs0 hp0 hn0 hb hrn
                cases htr : tokenize r with
                | none =>
                  simp only [Option.map_none]
                  cases hts : tokStep ⟨mp, mk⟩ (σof eh s st pre) (.catchAll n) r.head? with
                  | none => rw [hts] at hrun; obtain ⟨e, he⟩ := hrun; exact acc_err he
                  | some σ' =>
                    rw [hts] at hrun
                    obtain ⟨st', hl, hb', _⟩ := hrun
                    rw [acc_congr hl, ih r.length (by simp at hk; omega) r _ st' rfl hb', htr]
                | some ts =>
                  simp only [Option.map_some, tokLoop, nextByte_tokenize htr]
                  cases hts : tokStep ⟨mp, mk⟩ (σof eh s st pre) (.catchAll n) r.head? with
                  | none =>
                    rw [hts] at hrun; obtain ⟨e, he⟩ := hrun; simp only [Option.bind_none]; exact acc_err he
                  | some σ' =>
                    rw [hts] at hrun
                    obtain ⟨st', hl, hb', hσ⟩ := hrun
                    rw [acc_congr hl, ih r.length (by simp at hk; omega) r _ st' rfl hb', htr, hσ]
            · rw [tokenize_star_other c cs h3]; exact fail_star_other hs0 hp0 hn0 hb h3
        · rw [tokenize_lit b rest h1 h2]
          have hlt : st.i < s.length := by rw [hb.split, hb.hi]; simp
          cases htr : tokenize rest with
          | none =>
            simp only [Option.map_none]
            have hrun := run_lit (mp := mp) (mk := mk) (nx := none) hs0 hp0 hn0 hb h1 h2
            cases hts : tokStep ⟨mp, mk⟩ (σof eh s st pre) (.lit b) none with
            | none => rw [hts] at hrun; obtain ⟨e, he⟩ := hrun; exact acc_err (loop_err hlt he)
            | some σ' =>
              rw [hts] at hrun
              obtain ⟨st', hl, hb', _⟩ := hrun
              rw [acc_congr (loop_step hlt hl), ih rest.length (by simp at hk; omega) rest _ st' rfl hb', htr]
          | some ts =>
            simp only [Option.map_some, tokLoop]
            have hrun := run_lit (mp := mp) (mk := mk) (nx := nextByte ts none) hs0 hp0 hn0 hb h1 h2
            cases hts : tokStep ⟨mp, mk⟩ (σof eh s st pre) (.lit b) (nextByte ts none) with
            | none =>
              rw [hts] at hrun; obtain ⟨e, he⟩ := hrun; simp only [Option.bind_none]
              exact acc_err (loop_err hlt he)
            | some σ' =>
              rw [hts] at hrun
              obtain ⟨st', hl, hb', hσ⟩ := hrun
              rw [acc_congr (loop_step hlt hl), ih rest.length (by simp at hk; omega) rest _ st' rfl hb', htr, hσ]

end Sim

/-! ## Part 3 — token machine ⇔ declarative grammar -/

section Tok
open Spec
variable {lim : Limits}

def wilds (ts : List Tok) : Nat := (ts.filter isWild).length

@[simp] theorem wilds_nil : wilds [] = 0 := rfl
@[simp] theorem wilds_lit (b : UInt8) (ts : List Tok) : wilds (.lit b :: ts) = wilds ts := by simp [wilds, isWild]
@[simp] theorem wilds_param (n : Bytes) (ts : List Tok) : wilds (.param n :: ts) = wilds ts + 1 := by
  simp [wilds, List.filter_cons, isWild]
@[simp] theorem wilds_catchAll (n : Bytes) (ts : List Tok) : wilds (.catchAll n :: ts) = wilds ts + 1 := by
  simp [wilds, List.filter_cons, isWild]
theorem wilds_append (a b : List Tok) : wilds (a ++ b) = wilds a + wilds b := by simp [wilds]

theorem nextByte_append (a b : List Tok) (k : Option UInt8) : nextByte (a ++ b) k = nextByte a (nextByte b k) := by
  cases a with
  | nil => rfl
  | cons t ts => cases t <;> rfl

theorem tokLoop_append (σ : TSt) (a b : List Tok) (k : Option UInt8) :
    tokLoop lim σ (a ++ b) k = (tokLoop lim σ a (nextByte b k)).bind (fun σ' => tokLoop lim σ' b k) := by
  induction a generalizing σ with
  | nil => simp [tokLoop]
  | cons t ts ih =>
    simp only [List.cons_append, tokLoop, nextByte_append]
    cases tokStep lim σ t (nextByte ts (nextByte b k)) with
    | none => simp
    | some σ' => simp [ih]

theorem tokStep_count {σ σ' : TSt} {t : Tok} {nx : Option UInt8} (h : tokStep lim σ t nx = some σ') :
    σ'.paramCnt = σ.paramCnt + wilds [t] ∧ σ'.paramCnt ≤ lim.maxParams := by
  cases t with
  | lit b =>
    simp only [tokStep] at h
    split at h
    · split at h
      · simp only [checkCntT] at h; split at h
        · cases h
        · cases h; simp_all
      · split at h
        · cases h
        · rename_i σ1 hb
          simp only [checkCntT] at h; split at h
          · cases h
          · cases h
            have : σ1.paramCnt = σ.paramCnt := by
              unfold hostByteT at hb
              repeat' split at hb
              all_goals first | cases hb; rfl | cases hb
            simp_all
    · simp only [checkCntT] at h; split at h
      · cases h
      · cases h; simp_all
  | param n =>
    simp only [tokStep] at h
    repeat' split at h
    all_goals first | cases h; simp; omega | cases h
  | catchAll n =>
    simp only [tokStep] at h
    repeat' split at h
    all_goals first | cases h; simp; omega | cases h

theorem tokLoop_count {σ σ' : TSt} {ts : List Tok} {k : Option UInt8} (h : tokLoop lim σ ts k = some σ') :
    σ'.paramCnt = σ.paramCnt + wilds ts := by
  induction ts generalizing σ with
  | nil => simp [tokLoop] at h; simp [h]
  | cons t ts ih =>
    simp only [tokLoop] at h
    split at h
    · cases h
    · rename_i σ1 hs
      have h1 := (tokStep_count hs).1
      have h2 := ih h
      have : wilds (t :: ts) = wilds [t] + wilds ts := wilds_append [t] ts
      omega

theorem tokLoop_count_le {σ σ' : TSt} {ts : List Tok} {k : Option UInt8} (h : tokLoop lim σ ts k = some σ')
    (h0 : σ.paramCnt ≤ lim.maxParams) : σ'.paramCnt ≤ lim.maxParams := by
  induction ts generalizing σ with
  | nil => simp [tokLoop] at h; simp [← h, h0]
  | cons t ts ih =>
    simp only [tokLoop] at h
    split at h
    · cases h
    · rename_i σ1 hs
      exact ih h (tokStep_count hs).2

/-! ### the path part -/

theorem splitAtLit_ne_nil (d : UInt8) (ts : List Tok) : splitAtLit d ts ≠ [] := by
  cases ts with
  | nil => simp [splitAtLit]
  | cons t ts =>
    simp only [splitAtLit]
    split
    · simp
    · split <;> simp

theorem splitAtLit_sep (d : UInt8) (ts : List Tok) : splitAtLit d (.lit d :: ts) = [] :: splitAtLit d ts := by
  simp [splitAtLit]

theorem splitAtLit_cons {d : UInt8} {t : Tok} (ts : List Tok) (h : t ≠ .lit d) :
    ∃ l ls, splitAtLit d ts = l :: ls ∧ splitAtLit d (t :: ts) = (t :: l) :: ls := by
  cases hs : splitAtLit d ts with
  | nil => exact absurd hs (splitAtLit_ne_nil d ts)
  | cons l ls => exact ⟨l, ls, rfl, by simp [splitAtLit, h, hs]⟩

/-- the byte after a token list is end-of-pattern or `d` ⇔ the first piece is empty -/
theorem firstPiece_nil_iff (d : UInt8) (ts : List Tok) (k : Option UInt8) (hd1 : d ≠ LBR) (hd2 : d ≠ STAR) :
    (match splitAtLit d ts with | l :: _ => l = [] | [] => False) ↔
      (ts = [] ∨ nextByte ts k = some d) := by
  cases ts with
  | nil => simp [splitAtLit]
  | cons t ts' =>
    by_cases h : t = .lit d
    · subst h; simp [splitAtLit, nextByte]
    · obtain ⟨l, ls, h1, h2⟩ := splitAtLit_cons ts' h
      rw [h2]
      simp only [List.cons_ne_nil, reduceCtorEq, false_or, false_iff]
      cases t with
      | lit b => simp only [nextByte]; intro hb; apply h; simp at hb; rw [hb]
      | param n => simp only [nextByte]; intro hb; simp at hb; exact hd1 hb.symm
      | catchAll n => simp only [nextByte]; intro hb; simp at hb; exact hd2 hb.symm

theorem segOk_lit_cons (b : UInt8) (l : List Tok) : segOk lim (.lit b :: l) = segOk lim l := by
  simp only [segOk, shape]
  cases shape l with
  | none => rfl
  | some p =>
    obtain ⟨txt, w⟩ := p
    cases w with
    | none => rfl
    | some v => cases v <;> rfl

theorem segOk_nil : segOk lim [] = true := rfl

theorem segOk_param_cons (n : Bytes) (l : List Tok) :
    segOk lim (.param n :: l) = (l.isEmpty && nameOk lim false n) := by
  cases l <;> simp [segOk, shape]

theorem segOk_catchAll_cons (n : Bytes) (l : List Tok) :
    segOk lim (.catchAll n :: l) = (l.isEmpty && nameOk lim false n) := by
  cases l <;> simp [segOk, shape]

/-- the validator's "consecutive wildcard" bookkeeping as a function of the tokens still to come:
    `pc` = the last wildcard was a catch-all, `cs` = literal bytes since then -/
def consecT : Bool → Nat → List Tok → Bool
  | _, _, [] => false
  | pc, cs, .lit _ :: ts => consecT pc (cs + 1) ts
  | _, _, .param _ :: ts => consecT false 0 ts
  | pc, cs, .catchAll _ :: ts => (pc && decide (cs ≤ 1)) || consecT true 0 ts

def nearCatch : List Tok → Nat → Bool
  | .catchAll _ :: _, cs => decide (cs ≤ 1)
  | .lit _ :: .catchAll _ :: _, 0 => true
  | _, _ => false

theorem consecCatchAll_catch (n : Bytes) (ts : List Tok) :
    consecCatchAll (.catchAll n :: ts) = (nearCatch ts 0 || consecCatchAll ts) := by
  match ts with
  | [] => simp [consecCatchAll, nearCatch]
  | .catchAll _ :: _ => simp [consecCatchAll, nearCatch]
  | .param _ :: _ => simp [consecCatchAll, nearCatch]
  | [.lit _] => simp [consecCatchAll, nearCatch]
  | .lit _ :: .catchAll _ :: _ => simp [consecCatchAll, nearCatch]
  | .lit _ :: .lit _ :: _ => simp [consecCatchAll, nearCatch]
  | .lit _ :: .param _ :: _ => simp [consecCatchAll, nearCatch]

theorem nearCatch_lit (b : UInt8) (ts : List Tok) (cs : Nat) : nearCatch (.lit b :: ts) cs = nearCatch ts (cs + 1) := by
  match ts, cs with
  | [], 0 => simp [nearCatch]
  | [], _ + 1 => simp [nearCatch]
  | .catchAll _ :: _, 0 => simp [nearCatch]
  | .catchAll _ :: _, _ + 1 => simp [nearCatch]
  | .param _ :: _, 0 => simp [nearCatch]
  | .param _ :: _, _ + 1 => simp [nearCatch]
  | [.lit _], 0 => simp [nearCatch]
  | [.lit _], _ + 1 => simp [nearCatch]
  | .lit _ :: .catchAll _ :: _, 0 => simp [nearCatch]
  | .lit _ :: .catchAll _ :: _, _ + 1 => simp [nearCatch]
  | .lit _ :: .lit _ :: _, 0 => simp [nearCatch]
  | .lit _ :: .lit _ :: _, _ + 1 => simp [nearCatch]
  | .lit _ :: .param _ :: _, 0 => simp [nearCatch]
  | .lit _ :: .param _ :: _, _ + 1 => simp [nearCatch]

theorem consecT_eq (pc : Bool) (cs : Nat) (ts : List Tok) :
    consecT pc cs ts = ((pc && nearCatch ts cs) || consecCatchAll ts) := by
  induction ts generalizing pc cs with
  | nil => simp [consecT, nearCatch, consecCatchAll]
  | cons t ts ih =>
    cases t with
    | lit b =>
      simp only [consecT, ih, nearCatch_lit]
      congr 1
    | param n =>
      simp only [consecT, ih, nearCatch, Bool.false_and, Bool.false_or, Bool.and_false]
      match ts with
      | [] => simp [consecCatchAll]
      | .catchAll _ :: _ => simp [consecCatchAll]
      | .param _ :: _ => simp [consecCatchAll]
      | .lit _ :: _ => simp [consecCatchAll]
    | catchAll n =>
      simp only [consecT, ih, nearCatch, Bool.true_and, consecCatchAll_catch]

theorem nextByte_none_iff (ts : List Tok) : nextByte ts none = none ↔ ts = [] := by
  cases ts with
  | nil => simp [nextByte]
  | cons t ts => cases t <;> simp [nextByte]

/-- the lookahead test after a wildcard in the path part -/
theorem nxBad_iff (ts : List Tok) :
    (match nextByte ts none with | none => false | some d => d != SLASH) = false ↔
      (ts = [] ∨ nextByte ts none = some SLASH) := by
  cases h : nextByte ts none with
  | none => simp [(nextByte_none_iff ts).mp h]
  | some d =>
    have : ts ≠ [] := fun e => by subst e; simp [nextByte] at h
    simp [this]

theorem path_phase (p : List Tok) (σ : TSt) (hin : σ.inHost = false)
    (hcnt : σ.paramCnt + wilds p ≤ lim.maxParams) :
    (tokLoop lim σ p none).isSome =
      ((splitAtLit SLASH p).all (segOk lim) && !consecT (decide (σ.previous = .catchAll)) σ.countStatic p) := by
  induction p generalizing σ with
  | nil => simp [tokLoop, splitAtLit, segOk_nil, consecT]
  | cons t ts ih =>
    cases t with
    | lit b =>
      have hc : ¬ σ.paramCnt > lim.maxParams := by simp at hcnt; omega
      simp only [tokLoop, tokStep, hin, Bool.false_eq_true, if_false, checkCntT, hc, consecT]
      rw [ih _ rfl (by simpa using hcnt)]
      by_cases hb : b = SLASH
      · subst hb; rw [splitAtLit_sep]; simp [segOk_nil]
      · obtain ⟨l, ls, h1, h2⟩ := splitAtLit_cons (d := SLASH) (t := .lit b) ts (by simpa using hb)
        rw [h1, h2]; simp [segOk_lit_cons]
    | param n =>
      have hc : ¬ σ.paramCnt + 1 > lim.maxParams := by simp at hcnt; omega
      obtain ⟨l, ls, h1, h2⟩ := splitAtLit_cons (d := SLASH) (t := .param n) ts (by simp)
      have hfp := firstPiece_nil_iff SLASH ts none (by decide) (by decide)
      rw [h1] at hfp; simp only at hfp
      simp only [tokLoop, tokStep, hin, Bool.false_eq_true, if_false, hc, consecT, h2, List.all_cons,
        segOk_param_cons, Bool.and_self]
      by_cases hn : nameOk lim false n = true
      case neg => simp [hn]
      simp only [hn, Bool.not_true, Bool.false_eq_true, if_false, Bool.and_true]
      by_cases hl : (ts = [] ∨ nextByte ts none = some SLASH)
      · have hle : l = [] := hfp.mpr hl
        rw [if_neg (by rw [(nxBad_iff ts).mpr hl]; simp)]
        simp only
        rw [ih _ rfl (by simp at hcnt ⊢; omega), h1, hle]
        simp [segOk_nil]
      · have hle : l ≠ [] := fun e => hl (hfp.mp e)
        have hbad : (match nextByte ts none with | none => false | some d => d != SLASH) = true := by
          cases hx : (match nextByte ts none with | none => false | some d => d != SLASH) with
          | true => rfl
          | false => exact absurd ((nxBad_iff ts).mp hx) hl
        rw [if_pos hbad]
        cases l with
        | nil => exact absurd rfl hle
        | cons x xs => simp
    | catchAll n =>
      have hc : ¬ σ.paramCnt + 1 > lim.maxParams := by simp at hcnt; omega
      obtain ⟨l, ls, h1, h2⟩ := splitAtLit_cons (d := SLASH) (t := .catchAll n) ts (by simp)
      have hfp := firstPiece_nil_iff SLASH ts none (by decide) (by decide)
      rw [h1] at hfp; simp only at hfp
      simp only [tokLoop, tokStep, hin, Bool.false_eq_true, if_false, hc, consecT, h2, List.all_cons,
        segOk_catchAll_cons]
      by_cases hn : nameOk lim false n = true
      case neg => simp [hn]
      simp only [hn, Bool.not_true, Bool.false_eq_true, if_false, Bool.and_true]
      by_cases hl : (ts = [] ∨ nextByte ts none = some SLASH)
      · have hle : l = [] := hfp.mpr hl
        rw [if_neg (by rw [(nxBad_iff ts).mpr hl]; simp)]
        by_cases hcons : σ.previous = .catchAll ∧ σ.countStatic ≤ 1
        · rw [if_pos hcons]; simp [hcons.1, hcons.2]
        · rw [if_neg hcons]
          simp only
          rw [ih _ rfl (by simp at hcnt ⊢; omega), h1, hle]
          have : (decide (σ.previous = .catchAll) && decide (σ.countStatic ≤ 1)) = false := by
            simp only [Bool.and_eq_false_iff, decide_eq_false_iff_not]
            by_cases h : σ.previous = .catchAll
            · right; exact fun h' => hcons ⟨h, h'⟩
            · left; exact h
          simp [segOk_nil, this]
      · have hle : l ≠ [] := fun e => hl (hfp.mp e)
        have hbad : (match nextByte ts none with | none => false | some d => d != SLASH) = true := by
          cases hx : (match nextByte ts none with | none => false | some d => d != SLASH) with
          | true => rfl
          | false => exact absurd ((nxBad_iff ts).mp hx) hl
        rw [if_pos hbad]
        cases l with
        | nil => exact absurd rfl hle
        | cons x xs => simp

/-! ### the hostname part -/

theorem tokStep_path_fields {σ σ' : TSt} {t : Tok} {nx : Option UInt8} (hin : σ.inHost = false)
    (h : tokStep lim σ t nx = some σ') :
    σ'.inHost = false ∧ σ'.hostEnd = σ.hostEnd ∧ σ'.last = σ.last ∧ σ'.partlen = σ.partlen ∧
      σ'.totallen = σ.totallen ∧ σ'.nonNumeric = σ.nonNumeric := by
  cases t with
  | lit b =>
    simp only [tokStep, hin, Bool.false_eq_true, if_false, checkCntT] at h
    split at h
    · cases h
    · cases h; simp [hin]
  | param n =>
    simp only [tokStep, hin, Bool.false_eq_true, if_false] at h
    repeat' split at h
    all_goals first | cases h; simp [hin] | cases h
  | catchAll n =>
    simp only [tokStep, hin, Bool.false_eq_true, if_false] at h
    repeat' split at h
    all_goals first | cases h; simp [hin] | cases h

theorem tokLoop_path_fields {σ σ' : TSt} {ts : List Tok} {k : Option UInt8} (hin : σ.inHost = false)
    (h : tokLoop lim σ ts k = some σ') :
    σ'.inHost = false ∧ σ'.hostEnd = σ.hostEnd ∧ σ'.last = σ.last ∧ σ'.partlen = σ.partlen ∧
      σ'.totallen = σ.totallen ∧ σ'.nonNumeric = σ.nonNumeric := by
  induction ts generalizing σ with
  | nil => simp [tokLoop] at h; subst h; simp [hin]
  | cons t ts ih =>
    simp only [tokLoop] at h
    split at h
    · cases h
    · rename_i σ1 hs
      obtain ⟨a, b, c, d, e, f⟩ := tokStep_path_fields hin hs
      obtain ⟨a', b', c', d', e', f'⟩ := ih a h
      exact ⟨a', b'.trans b, c'.trans c, d'.trans d, e'.trans e, f'.trans f⟩

theorem shape_lits_append (cur : Bytes) (l : List Tok) :
    shape (cur.map .lit ++ l) = (shape l).map (fun p => (cur ++ p.1, p.2)) := by
  induction cur with
  | nil =>
    simp only [List.map_nil, List.nil_append]
    cases shape l <;> simp
  | cons b cur ih =>
    simp only [List.map_cons, List.cons_append, shape, ih]
    cases h : shape l <;> simp

/-- the checks made at the end of the hostname part (`tfinish` with `hostEnd = prev`) -/
def hostFinalOK (σ : TSt) : Bool :=
  σ.last != DASH && σ.prev != some DOT && σ.nonNumeric && decide (σ.partlen ≤ 63) &&
    decide (σ.totallen + σ.partlen ≤ 255)

def nonNumTok : Tok → Bool
  | .lit b => !(isNum b || b == DOT)
  | _ => true

/-- the token machine is in the literal text of a hostname label, of which `cur` has been consumed -/
structure TextMode (σ : TSt) (cur : Bytes) : Prop where
  inHost : σ.inHost = true
  partlen : σ.partlen = cur.length
  last : σ.last = cur.getLast?.getD DOT
  prevNil : cur = [] → σ.prev = none ∨ σ.prev = some DOT
  prevCons : cur ≠ [] → σ.prev = cur.getLast?
  ldh : cur.all isLDH = true
  head : cur.head? ≠ some DASH

theorem isLetter_eq (b : UInt8) : isLetter b = isAlpha b := rfl
theorem isDigit_eq (b : UInt8) : isDigit b = isNum b := rfl

/-- the right-hand side of the hostname lemma: the labels (the first one continuing `cur`), the total length and
    "not all numeric" -/
def hostRest (lim : Limits) (σ : TSt) (cur : Bytes) (h : List Tok) : Bool :=
  (match splitAtLit DOT h with
   | l :: ls => labelOk lim (cur.map .lit ++ l) && ls.all (labelOk lim)
   | [] => false) &&
  decide (σ.totallen + cur.length + (litBytes h).length ≤ 255) &&
  (σ.nonNumeric || h.any nonNumTok)

def hostLeft (lim : Limits) (σ : TSt) (h : List Tok) : Bool :=
  match tokLoop lim σ h (some SLASH) with
  | none => false
  | some σ1 => hostFinalOK σ1

theorem labelOk_text (cur : Bytes) :
    labelOk lim (cur.map .lit) =
      (cur.all isLDH && cur.head? != some DASH && cur.getLast? != some DASH && decide (cur.length ≤ 63) &&
        !cur.isEmpty) := by
  have := shape_lits_append cur []
  simp only [List.append_nil, shape, Option.map_some] at this
  simp only [labelOk, this, List.append_nil]

theorem labelOk_text_param (cur n : Bytes) :
    labelOk lim (cur.map .lit ++ [.param n]) =
      (cur.all isLDH && cur.head? != some DASH && cur.getLast? != some DASH && decide (cur.length ≤ 63) &&
        nameOk lim true n) := by
  have := shape_lits_append cur [.param n]
  simp only [shape, Option.map_some] at this
  simp only [labelOk, this, List.append_nil]

theorem textMode_last_dot {σ : TSt} {cur : Bytes} (R : TextMode σ cur) : σ.last = DOT ↔ cur = [] := by
  constructor
  · intro h
    cases hc : cur.getLast? with
    | none => exact List.getLast?_eq_none_iff.mp hc
    | some x =>
      have hl := R.last; rw [hc] at hl; simp at hl
      have hx : x ∈ cur := List.mem_of_getLast? hc
      have := List.all_eq_true.mp R.ldh x hx
      rw [← hl, h] at this
      exact absurd this (by decide)
  · intro h; have := R.last; rw [h] at this; simpa using this

theorem textMode_prev_ne_rbr {σ : TSt} {cur : Bytes} (R : TextMode σ cur) : σ.prev ≠ some RBR := by
  by_cases hc : cur = []
  · rcases R.prevNil hc with h | h <;> rw [h] <;> simp
    decide
  · rw [R.prevCons hc]
    intro h
    have hx : RBR ∈ cur := List.mem_of_getLast? h
    have := List.all_eq_true.mp R.ldh RBR hx
    exact absurd this (by decide)

theorem litBytes_lit (b : UInt8) (ts : List Tok) : litBytes (.lit b :: ts) = b :: litBytes ts := by simp [litBytes]
theorem litBytes_param (n : Bytes) (ts : List Tok) : litBytes (.param n :: ts) = litBytes ts := by simp [litBytes]
theorem litBytes_nil : litBytes [] = [] := rfl

def afterDot (σ : TSt) : TSt :=
  { σ with countStatic := σ.countStatic + 1, totallen := σ.totallen + (σ.partlen + 1), partlen := 0,
           last := DOT, prev := some DOT }

theorem tokStep_host_dot {σ : TSt} {cur : Bytes} (R : TextMode σ cur) (hc : ¬ σ.paramCnt > lim.maxParams)
    (nx : Option UInt8) :
    tokStep lim σ (.lit DOT) nx =
      if cur = [] ∨ σ.last = DASH ∨ σ.partlen > 63 then none
      else some (afterDot σ) := by
  have h1 : ¬ DOT = SLASH := by decide
  have h2 : isLetter DOT = false := by decide
  have h3 : isDigit DOT = false := by decide
  have h4 : ¬ DOT = DASH := by decide
  simp only [tokStep, R.inHost, if_true, h1, if_false, hostByteT, h2, h3, h4, Bool.false_eq_true]
  by_cases hce : cur = []
  · have hl := (textMode_last_dot R).mpr hce
    have hp := textMode_prev_ne_rbr R
    simp [hce, hl, hp]
  · have hl : ¬ σ.last = DOT := fun h => hce ((textMode_last_dot R).mp h)
    simp only [hl, false_and, if_false, hce, false_or]
    by_cases hd : σ.last = DASH
    · simp [hd]
    · by_cases h63 : σ.partlen > 63
      · simp [hd, h63]
      · simp [hd, h63, checkCntT, hc, afterDot, R.inHost]

def afterLit (σ : TSt) (b : UInt8) (nn : Bool) : TSt :=
  { σ with countStatic := σ.countStatic + 1, nonNumeric := nn, partlen := σ.partlen + 1, last := b, prev := some b }

theorem tokStep_host_ldh {σ : TSt} {cur : Bytes} (R : TextMode σ cur) (hc : ¬ σ.paramCnt > lim.maxParams)
    (nx : Option UInt8) {b : UInt8} (h1 : b ≠ SLASH) (h2 : b ≠ DOT) :
    tokStep lim σ (.lit b) nx =
      if isAlpha b then some (afterLit σ b true)
      else if isNum b then some (afterLit σ b σ.nonNumeric)
      else if b = DASH then (if cur = [] then none else some (afterLit σ b true))
      else none := by
  simp only [tokStep, R.inHost, if_true, h1, if_false, hostByteT, isLetter_eq, isDigit_eq, h2]
  by_cases c1 : isAlpha b = true
  · simp [c1, checkCntT, hc, afterLit, R.inHost]
  · simp only [c1, Bool.false_eq_true, if_false]
    by_cases c2 : isNum b = true
    · simp [c2, checkCntT, hc, afterLit, R.inHost]
    · simp only [c2, Bool.false_eq_true, if_false]
      by_cases c3 : b = DASH
      · simp only [c3, if_true]
        by_cases hce : cur = []
        · simp [hce, (textMode_last_dot R).mpr hce]
        · have hl : ¬ σ.last = DOT := fun h => hce ((textMode_last_dot R).mp h)
          simp [hce, hl, checkCntT, hc, afterLit, R.inHost]
      · simp [c3]

theorem alpha_not_num (b : UInt8) (h : isAlpha b = true) : isNum b = false := by
  simp only [isAlpha, isNum, Bool.or_eq_true, Bool.and_eq_true, decide_eq_true_eq, beq_iff_eq,
    UInt8.le_iff_toNat_le] at h ⊢
  rcases h with (h | h) | h
  · simp; intro h1
    have : (48:UInt8).toNat = 48 := rfl
    have : (97:UInt8).toNat = 97 := rfl
    have : (57:UInt8).toNat = 57 := rfl
    omega
  · simp; intro h1
    have : (48:UInt8).toNat = 48 := rfl
    have : (65:UInt8).toNat = 65 := rfl
    have : (57:UInt8).toNat = 57 := rfl
    omega
  · subst h; decide

theorem labelOk_bad_lit (cur : Bytes) (b : UInt8) (l : List Tok) (h : isLDH b = false ∨ (cur = [] ∧ b = DASH)) :
    labelOk lim (cur.map .lit ++ .lit b :: l) = false := by
  simp only [labelOk, shape_lits_append, shape]
  cases shape l with
  | none => rfl
  | some p =>
    obtain ⟨txt, w⟩ := p
    simp only [Option.map_some]
    rcases h with h | ⟨h1, h2⟩
    · simp [h]
    · subst h1; subst h2; simp

theorem textMode_dot {σ : TSt} (h : σ.inHost = true) : TextMode (afterDot σ) [] :=
  ⟨h, rfl, rfl, fun _ => Or.inr rfl, fun h => absurd rfl h, rfl, by simp⟩

theorem textMode_snoc {σ σ' : TSt} {cur : Bytes} {b : UInt8} (R : TextMode σ cur) (hb : isLDH b = true)
    (hd : cur = [] → b ≠ DASH) (h1 : σ'.inHost = true) (h2 : σ'.partlen = σ.partlen + 1) (h3 : σ'.last = b)
    (h4 : σ'.prev = some b) : TextMode σ' (cur ++ [b]) := by
  refine ⟨h1, by simp [h2, R.partlen], by simp [h3], fun h => by simp at h, fun _ => by simp [h4], ?_, ?_⟩
  · simp [R.ldh, hb]
  · cases cur with
    | nil => simp; exact hd rfl
    | cons x xs => have := R.head; simpa using this

def afterParam (σ : TSt) : TSt :=
  { σ with prev := some RBR, previous := .param, paramCnt := σ.paramCnt + 1, countStatic := 0, nonNumeric := true }

theorem tokStep_host_param {σ : TSt} (hin : σ.inHost = true) (hc : ¬ σ.paramCnt + 1 > lim.maxParams)
    (n : Bytes) (nx : Option UInt8) :
    tokStep lim σ (.param n) nx =
      if nameOk lim true n = false then none
      else if (match nx with | none => false | some d => d != DOT && d != SLASH) then none
      else some (afterParam σ) := by
  simp only [tokStep, hc, if_false, hin, if_true, afterParam, Bool.true_or]
  by_cases h : nameOk lim true n = true
  · simp [h]
  · simp [h]

theorem tokStep_dot_after_param {σ : TSt} (hin : σ.inHost = true) (hp : σ.prev = some RBR)
    (hc : ¬ σ.paramCnt > lim.maxParams) (nx : Option UInt8) :
    tokStep lim σ (.lit DOT) nx = if σ.last = DASH ∨ σ.partlen > 63 then none else some (afterDot σ) := by
  have h1 : ¬ DOT = SLASH := by decide
  have h2 : isLetter DOT = false := by decide
  have h3 : isDigit DOT = false := by decide
  have h4 : ¬ DOT = DASH := by decide
  simp only [tokStep, hin, if_true, h1, if_false, hostByteT, h2, h3, h4, Bool.false_eq_true, hp, ne_eq,
    not_true_eq_false, and_false]
  by_cases hd : σ.last = DASH
  · simp [hd]
  · by_cases h63 : σ.partlen > 63
    · simp [hd, h63]
    · simp [hd, h63, checkCntT, hc, afterDot, hin]

theorem host_phase : ∀ (k : Nat) (h : List Tok) (σ : TSt) (cur : Bytes), h.length = k → TextMode σ cur →
    (.lit SLASH ∉ h) → (h ≠ [] ∨ σ.prev ≠ none) → σ.paramCnt + wilds h ≤ lim.maxParams →
    hostLeft lim σ h = hostRest lim σ cur h := by
  intro k
  induction k using Nat.strongRecOn with
  | _ k ih =>
    intro h σ cur hk R hns hne hcnt
    have hcur63 : ∀ x, (cur ++ x).all isLDH = (cur.all isLDH && x.all isLDH) := fun x => by simp
    match h with
    | [] =>
      have hp : σ.prev ≠ none := by rcases hne with h | h; exact absurd rfl h; exact h
      simp only [hostLeft, tokLoop, hostRest, splitAtLit, List.append_nil, List.all_nil, Bool.and_true, labelOk_text,
        litBytes_nil, List.length_nil, Nat.add_zero, List.any_nil, Bool.or_false, hostFinalOK, R.ldh, R.partlen,
        Bool.true_and]
      have hh : (cur.head? != some DASH) = true := by simpa using R.head
      rw [hh]
      by_cases hc : cur = []
      · subst hc
        have : σ.prev = some DOT := by rcases R.prevNil rfl with h | h; exact absurd h hp; exact h
        simp [this]
      · have hl : (cur.getLast? != some DASH) = (σ.last != DASH) := by
          rw [R.last]
          cases hg : cur.getLast? with
          | none => exact absurd (List.getLast?_eq_none_iff.mp hg) hc
          | some x => simp only [bne, Option.some_beq_some, Option.getD_some]
        have hpd : (σ.prev != some DOT) = true := by
          rw [R.prevCons hc]
          cases hg : cur.getLast? with
          | none => simp
          | some x =>
            have := List.all_eq_true.mp R.ldh x (List.mem_of_getLast? hg)
            have hx : x ≠ DOT := fun e => by rw [e] at this; exact absurd this (by decide)
            simp [hx]
        have hce : cur.isEmpty = false := by cases cur; exact absurd rfl hc; rfl
        rw [hl, hpd, hce]
        simp only [Bool.true_and, Bool.and_true, Bool.not_false]; ac_rfl
    | .catchAll n :: ts =>
      obtain ⟨l, ls, h1, h2⟩ := splitAtLit_cons (d := DOT) (t := .catchAll n) ts (by simp)
      have hl : labelOk lim (cur.map .lit ++ .catchAll n :: l) = false := by
        simp only [labelOk, shape_lits_append]
        cases l <;> simp [shape]
      simp [hostLeft, tokLoop, tokStep, R.inHost, hostRest, h2, hl]
    | .lit b :: ts =>
      have hb : b ≠ SLASH := fun e => hns (by simp [e])
      have hns' : .lit SLASH ∉ ts := fun e => hns (by simp [e])
      have hc : ¬ σ.paramCnt > lim.maxParams := by simp at hcnt; omega
      have hcnt' : σ.paramCnt + wilds ts ≤ lim.maxParams := by simpa using hcnt
      have hlen : ts.length < k := by simp at hk; omega
      by_cases hdot : b = DOT
      · subst hdot
        have hR : hostRest lim σ cur (.lit DOT :: ts) =
            (labelOk lim (cur.map .lit) && (splitAtLit DOT ts).all (labelOk lim) &&
              decide (σ.totallen + cur.length + ((litBytes ts).length + 1) ≤ 255) &&
              (σ.nonNumeric || ts.any nonNumTok)) := by
          have : nonNumTok (.lit DOT) = false := by decide
          simp [hostRest, splitAtLit_sep, litBytes_lit, this]
        rw [hR]
        simp only [hostLeft, tokLoop, tokStep_host_dot R hc]
        by_cases hbad : cur = [] ∨ σ.last = DASH ∨ σ.partlen > 63
        · rw [if_pos hbad]
          have : labelOk lim (cur.map .lit) = false := by
            rw [labelOk_text]
            rcases hbad with h | h | h
            · simp [h]
            · have hce : cur ≠ [] := fun e => by
                have := (textMode_last_dot R).mpr e; rw [this] at h; exact absurd h (by decide)
              have hl := R.last
              cases hg : cur.getLast? with
              | none => exact absurd (List.getLast?_eq_none_iff.mp hg) hce
              | some x =>
                rw [hg] at hl; simp at hl; rw [← hl, h]; simp
            · have : ¬ cur.length ≤ 63 := by rw [← R.partlen]; omega
              simp [this]
          simp [this]
        · rw [if_neg hbad]
          simp only [not_or] at hbad
          obtain ⟨hce, hd, h63⟩ := hbad
          have hR2 := textMode_dot R.inHost
          have := ih ts.length hlen ts _ [] rfl hR2 hns' (Or.inr (by simp [afterDot])) (by simpa [afterDot] using hcnt')
          simp only [hostLeft] at this
          rw [this]
          have hlab : labelOk lim (cur.map .lit) = true := by
            rw [labelOk_text]
            have hh : (cur.head? != some DASH) = true := by simpa using R.head
            have hl : (cur.getLast? != some DASH) = true := by
              have hl := R.last
              cases hg : cur.getLast? with
              | none => simp
              | some x => rw [hg] at hl; simp at hl; rw [← hl]; simpa using hd
            have : cur.length ≤ 63 := by rw [← R.partlen]; omega
            have hce' : cur.isEmpty = false := by cases cur; exact absurd rfl hce; rfl
            simp [R.ldh, hh, hl, this, hce']
          simp only [hostRest, hlab, Bool.true_and, List.map_nil, List.nil_append, List.length_nil, Nat.add_zero,
            afterDot, R.partlen]
          cases hsp : splitAtLit DOT ts with
          | nil => exact absurd hsp (splitAtLit_ne_nil DOT ts)
          | cons l ls =>
            simp only [List.all_cons]
            have : (σ.totallen + (cur.length + 1) + (litBytes ts).length ≤ 255) ↔
                (σ.totallen + cur.length + ((litBytes ts).length + 1) ≤ 255) := by omega
            simp only [this]
      · obtain ⟨l, ls, h1, h2⟩ := splitAtLit_cons (d := DOT) (t := .lit b) ts (by simpa using hdot)
        have hR : hostRest lim σ cur (.lit b :: ts) =
            (labelOk lim (cur.map .lit ++ .lit b :: l) && ls.all (labelOk lim) &&
              decide (σ.totallen + cur.length + ((litBytes ts).length + 1) ≤ 255) &&
              (σ.nonNumeric || (nonNumTok (.lit b) || ts.any nonNumTok))) := by
          simp [hostRest, h2, litBytes_lit]
        rw [hR]
        simp only [hostLeft, tokLoop, tokStep_host_ldh R hc _ hb hdot]
        -- what the induction hypothesis gives for an accepted byte
        have key : ∀ nn : Bool, isLDH b = true → (cur = [] → b ≠ DASH) →
            (match tokLoop lim (afterLit σ b nn) ts (some SLASH) with | none => false | some σ1 => hostFinalOK σ1) =
            (labelOk lim (cur.map .lit ++ .lit b :: l) && ls.all (labelOk lim) &&
              decide (σ.totallen + cur.length + ((litBytes ts).length + 1) ≤ 255) &&
              (nn || ts.any nonNumTok)) := by
          intro nn hldh hdash
          have hR2 : TextMode (afterLit σ b nn) (cur ++ [b]) :=
            textMode_snoc R hldh hdash R.inHost rfl rfl rfl
          have := ih ts.length hlen ts _ (cur ++ [b]) rfl hR2 hns' (Or.inr (by simp [afterLit]))
            (by simpa [afterLit] using hcnt')
          simp only [hostLeft] at this
          rw [this]
          simp only [hostRest, h1, afterLit, List.map_append, List.map_cons, List.map_nil, List.append_assoc,
            List.cons_append, List.nil_append, List.length_append, List.length_cons, List.length_nil]
          have : (σ.totallen + (cur.length + (0 + 1)) + (litBytes ts).length ≤ 255) ↔
              (σ.totallen + cur.length + ((litBytes ts).length + 1) ≤ 255) := by omega
          simp only [this]
        by_cases c1 : isAlpha b = true
        · have hnum := alpha_not_num b c1
          have hnn : nonNumTok (.lit b) = true := by simp [nonNumTok, hnum, hdot]
          have hldh : isLDH b = true := by simp [isLDH, c1]
          have hnd : b ≠ DASH := fun e => by rw [e] at c1; exact absurd c1 (by decide)
          simp only [c1, if_true]
          rw [key true hldh (fun _ => hnd), hnn]
          simp
        · simp only [c1, Bool.false_eq_true, if_false]
          by_cases c2 : isNum b = true
          · have hnn : nonNumTok (.lit b) = false := by simp [nonNumTok, c2]
            have hldh : isLDH b = true := by simp [isLDH, c2]
            have hnd : b ≠ DASH := fun e => by rw [e] at c2; exact absurd c2 (by decide)
            simp only [c2, if_true]
            rw [key σ.nonNumeric hldh (fun _ => hnd), hnn]
            simp
          · simp only [c2, Bool.false_eq_true, if_false]
            by_cases c3 : b = DASH
            · simp only [c3, if_true]
              by_cases hce : cur = []
              · simp only [hce, if_true]
                have := @labelOk_bad_lit lim cur b l (Or.inr ⟨hce, c3⟩)
                rw [hce, c3] at this
                simp only [List.map_nil, List.nil_append] at this
                simp [this]
              · simp only [hce, if_false]
                have hnn : nonNumTok (.lit b) = true := by rw [c3]; decide
                have hldh : isLDH b = true := by rw [c3]; decide
                have := key true hldh (fun e => absurd e hce)
                rw [c3] at this hnn
                rw [this, hnn]
                simp
            · simp only [c3, if_false]
              have hldh : isLDH b = false := by
                have c1' : isAlpha b = false := by simpa using c1
                have c2' : isNum b = false := by simpa using c2
                simp [isLDH, c1', c2', c3]
              have := @labelOk_bad_lit lim cur b l (Or.inl hldh)
              simp [this]
    | .param n :: ts =>
      have hns' : .lit SLASH ∉ ts := fun e => hns (by simp [e])
      have hc : ¬ σ.paramCnt + 1 > lim.maxParams := by simp at hcnt; omega
      obtain ⟨l, ls, h1, h2⟩ := splitAtLit_cons (d := DOT) (t := .param n) ts (by simp)
      have hfp := firstPiece_nil_iff DOT ts (some SLASH) (by decide) (by decide)
      rw [h1] at hfp; simp only at hfp
      have hh : (cur.head? != some DASH) = true := by simpa using R.head
      have hgl : (cur.getLast? != some DASH) = (σ.last != DASH) := by
        rw [R.last]
        cases hg : cur.getLast? with
        | none => simp; decide
        | some x => simp only [bne, Option.some_beq_some, Option.getD_some]
      simp only [hostLeft, tokLoop, tokStep_host_param R.inHost hc]
      by_cases hn : nameOk lim true n = false
      · rw [if_pos hn]
        have : labelOk lim (cur.map .lit ++ .param n :: l) = false := by
          cases l with
          | nil => rw [labelOk_text_param, hn]; simp
          | cons x xs => simp [labelOk, shape_lits_append, shape]
        simp [hostRest, h2, this]
      rw [if_neg hn]
      have hn' : nameOk lim true n = true := by simpa using hn
      by_cases hfirst : (ts = [] ∨ nextByte ts (some SLASH) = some DOT)
      case neg =>
        have hle : l ≠ [] := fun e => hfirst (hfp.mp e)
        have hbad : (match nextByte ts (some SLASH) with | none => false | some d => d != DOT && d != SLASH) = true := by
          cases ts with
          | nil => exact absurd (Or.inl rfl) hfirst
          | cons t ts' =>
            cases t with
            | lit b =>
              have hb1 : b ≠ DOT := fun e => hfirst (Or.inr (by simp [nextByte, e]))
              have hb2 : b ≠ SLASH := fun e => hns' (by simp [e])
              simp [nextByte, hb1, hb2]
            | param m => simp [nextByte]; decide
            | catchAll m => simp [nextByte]; decide
        rw [if_pos hbad]
        have : labelOk lim (cur.map .lit ++ .param n :: l) = false := by
          cases l with
          | nil => exact absurd rfl hle
          | cons x xs => simp [labelOk, shape_lits_append, shape]
        simp [hostRest, h2, this]
      have hle : l = [] := hfp.mpr hfirst
      subst hle
      have hok : (match nextByte ts (some SLASH) with | none => false | some d => d != DOT && d != SLASH) = false := by
        rcases hfirst with h | h
        · subst h; simp [nextByte]
        · rw [h]; simp
      rw [hok]
      simp only [Bool.false_eq_true, if_false]
      have hlab : labelOk lim (cur.map .lit ++ [.param n]) =
          ((σ.last != DASH) && decide (cur.length ≤ 63)) := by
        rw [labelOk_text_param, R.ldh, hh, hgl, hn']; simp
      match ts, hfirst, h1, h2, hns', hk, hcnt with
      | [], _, h1, h2, _, _, _ =>
        simp only [splitAtLit] at h1
        have hls : ls = [] := by simp at h1; exact h1
        subst hls
        simp only [tokLoop, hostFinalOK, afterParam, hostRest, h2, hlab, List.all_nil, Bool.and_true,
          litBytes_param, litBytes_nil, List.length_nil, Nat.add_zero, List.any_cons, nonNumTok, Bool.true_or,
          Bool.or_true, R.partlen]
        have : ((some RBR : Option UInt8) != some DOT) = true := by decide
        rw [this]
        simp only [Bool.and_true]
      | .lit b :: ts', hfirst, h1, h2, hns', hk, hcnt =>
        have hb : b = DOT := by
          rcases hfirst with h | h
          · cases h
          · simpa [nextByte] using h
        subst hb
        rw [splitAtLit_sep] at h1
        have hls : ls = splitAtLit DOT ts' := by simp at h1; exact h1.symm
        have hc1 : ¬ (afterParam σ).paramCnt > lim.maxParams := by simp [afterParam]; omega
        simp only [tokLoop, tokStep_dot_after_param (σ := afterParam σ) R.inHost rfl hc1]
        have hlast : (afterParam σ).last = σ.last := rfl
        have hpl : (afterParam σ).partlen = σ.partlen := rfl
        rw [hlast, hpl]
        by_cases hbad : σ.last = DASH ∨ σ.partlen > 63
        · rw [if_pos hbad]
          have : ((σ.last != DASH) && decide (cur.length ≤ 63)) = false := by
            rcases hbad with h | h
            · simp [h]
            · have : ¬ cur.length ≤ 63 := by rw [← R.partlen]; omega
              simp [this]
          simp [hostRest, h2, hlab, this]
        · rw [if_neg hbad]
          simp only [not_or] at hbad
          have hR2 : TextMode (afterDot (afterParam σ)) [] := textMode_dot R.inHost
          have hns'' : .lit SLASH ∉ ts' := fun e => hns' (by simp [e])
          have := ih ts'.length (by simp at hk; omega) ts' _ [] rfl hR2 hns'' (Or.inr (by simp [afterDot]))
            (by simp [afterDot, afterParam] at hcnt ⊢; omega)
          simp only [hostLeft] at this
          rw [this]
          have hl1 : ((σ.last != DASH) && decide (cur.length ≤ 63)) = true := by
            have : cur.length ≤ 63 := by rw [← R.partlen]; omega
            simp [hbad.1, this]
          simp only [hostRest, h2, hlab, hl1, Bool.true_and, ← hls, List.map_nil, List.nil_append, List.length_nil,
            Nat.add_zero, afterDot, afterParam, litBytes_param, litBytes_lit, List.length_cons, List.any_cons,
            nonNumTok, Bool.true_or, Bool.or_true, Bool.and_true, R.partlen]
          have : (σ.totallen + (cur.length + 1) + (litBytes ts').length ≤ 255) ↔
              (σ.totallen + cur.length + ((litBytes ts').length + 1) ≤ 255) := by omega
          simp only [this]
          cases ls with
          | nil => exact absurd hls.symm (splitAtLit_ne_nil DOT ts')
          | cons l' ls' => rfl
      | .param m :: ts', hfirst, _, _, _, _, _ =>
        rcases hfirst with h | h
        · cases h
        · simp [nextByte] at h; exact absurd h (by decide)
      | .catchAll m :: ts', hfirst, _, _, _, _, _ =>
        rcases hfirst with h | h
        · cases h
        · simp [nextByte] at h; exact absurd h (by decide)

/-! ### putting the two parts together -/

theorem checkCntT_some {mp : Nat} {σ σ' : TSt} (h : checkCntT mp σ = some σ') : σ' = σ := by
  simp only [checkCntT] at h; split at h
  · cases h
  · cases h; rfl

theorem hostByteT_fields {σ σ1 : TSt} {b : UInt8} (h : hostByteT σ b = some σ1) :
    σ1.inHost = σ.inHost ∧ σ1.previous = σ.previous := by
  unfold hostByteT at h
  repeat' split at h
  all_goals first | (cases h; exact ⟨rfl, rfl⟩) | cases h

theorem tokStep_host_inv {σ σ' : TSt} {t : Tok} {nx : Option UInt8} (hin : σ.inHost = true)
    (hp : σ.previous ≠ .catchAll) (ht : t ≠ .lit SLASH) (h : tokStep lim σ t nx = some σ') :
    σ'.inHost = true ∧ σ'.previous ≠ .catchAll := by
  cases t with
  | lit b =>
    have hb : b ≠ SLASH := fun e => ht (by rw [e])
    simp only [tokStep, hin, if_true, hb, if_false] at h
    split at h
    · cases h
    · rename_i σ1 hb1
      rw [checkCntT_some h]
      obtain ⟨a, b⟩ := hostByteT_fields hb1
      simp only at a b
      exact ⟨by simp [a, hin], by simp [b, hp]⟩
  | param n =>
    simp only [tokStep] at h
    repeat' split at h
    all_goals first | (cases h; simp [hin]) | cases h
  | catchAll n =>
    simp only [tokStep, hin, if_true] at h
    cases h

theorem tokLoop_host_inv {σ σ' : TSt} {ts : List Tok} {k : Option UInt8} (hin : σ.inHost = true)
    (hp : σ.previous ≠ .catchAll) (hns : .lit SLASH ∉ ts) (h : tokLoop lim σ ts k = some σ') :
    σ'.inHost = true ∧ σ'.previous ≠ .catchAll := by
  induction ts generalizing σ with
  | nil => simp [tokLoop] at h; subst h; exact ⟨hin, hp⟩
  | cons t ts ih =>
    simp only [tokLoop] at h
    split at h
    · cases h
    · rename_i σ1 hs
      obtain ⟨a, b⟩ := tokStep_host_inv hin hp (fun e => hns (by simp [e])) hs
      exact ih a b (fun e => hns (by simp [e])) h

theorem tokStep_prev {σ σ' : TSt} {t : Tok} {nx : Option UInt8} (h : tokStep lim σ t nx = some σ') :
    σ'.prev ≠ none := by
  cases t with
  | lit b =>
    simp only [tokStep] at h
    split at h
    · split at h
      · rw [checkCntT_some h]; simp
      · split at h
        · cases h
        · rw [checkCntT_some h]; simp
    · rw [checkCntT_some h]; simp
  | param n =>
    simp only [tokStep] at h
    repeat' split at h
    all_goals first | (cases h; simp) | cases h
  | catchAll n =>
    simp only [tokStep] at h
    repeat' split at h
    all_goals first | (cases h; simp) | cases h

theorem tokLoop_prev {σ σ' : TSt} {ts : List Tok} {k : Option UInt8} (hne : ts ≠ [] ∨ σ.prev ≠ none)
    (h : tokLoop lim σ ts k = some σ') : σ'.prev ≠ none := by
  induction ts generalizing σ with
  | nil =>
    simp [tokLoop] at h; subst h
    rcases hne with h | h
    · exact absurd rfl h
    · exact h
  | cons t ts ih =>
    simp only [tokLoop] at h
    split at h
    · cases h
    · rename_i σ1 hs
      exact ih (Or.inr (tokStep_prev hs)) h

/-- the state after the first '/' -/
def flipSt (σ : TSt) : TSt :=
  { σ with inHost := false, hostEnd := σ.prev, prev := some SLASH, countStatic := σ.countStatic + 1 }

theorem tokAccept_split (host path' : List Tok) (hns : .lit SLASH ∉ host) :
    tokAccept lim (host ++ .lit SLASH :: path') =
      match tokLoop lim {} host (some SLASH) with
      | none => none
      | some σ1 =>
        if σ1.paramCnt > lim.maxParams then none
        else match tokLoop lim (flipSt σ1) path' none with
          | none => none
          | some σ3 => tfinish σ3 := by
  simp only [tokAccept, tokLoop_append, nextByte]
  cases h1 : tokLoop lim {} host (some SLASH) with
  | none => simp
  | some σ1 =>
    have hin := (tokLoop_host_inv (lim := lim) (σ := {}) rfl (by simp) hns h1).1
    simp only [Option.bind_some, tokLoop, tokStep, hin, if_true, checkCntT]
    by_cases hc : σ1.paramCnt > lim.maxParams
    · simp [hc]
    · simp only [hc, if_false, flipSt]

theorem hostRest_nil (host : List Tok) : hostRest lim {} [] host = hostOk lim host := by
  simp only [hostRest, hostOk, List.map_nil, List.nil_append, List.length_nil, Nat.add_zero, Bool.false_or]
  cases hsp : splitAtLit DOT host with
  | nil => exact absurd hsp (splitAtLit_ne_nil DOT host)
  | cons l ls =>
    simp only [List.all_cons, Nat.zero_add]
    congr 1

theorem isSlash_iff (t : Tok) : isSlash t = true ↔ t = .lit SLASH := by
  cases t <;> simp [isSlash]

theorem takeWhile_no_slash (toks : List Tok) : .lit SLASH ∉ toks.takeWhile (!isSlash ·) := by
  induction toks with
  | nil => simp
  | cons t ts ih =>
    by_cases h : t = .lit SLASH
    · subst h; simp [List.takeWhile, isSlash]
    · have : isSlash t = false := by
        cases hs : isSlash t with
        | false => rfl
        | true => exact absurd ((isSlash_iff t).mp hs) h
      simp only [List.takeWhile, this, Bool.not_false, List.mem_cons, not_or]
      exact ⟨fun e => h e.symm, ih⟩

theorem dropWhile_head (toks : List Tok) :
    toks.dropWhile (!isSlash ·) = [] ∨ ∃ p, toks.dropWhile (!isSlash ·) = .lit SLASH :: p := by
  induction toks with
  | nil => simp
  | cons t ts ih =>
    by_cases h : t = .lit SLASH
    · subst h; right; exact ⟨ts, by simp [List.dropWhile, isSlash]⟩
    · have : isSlash t = false := by
        cases hs : isSlash t with
        | false => rfl
        | true => exact absurd ((isSlash_iff t).mp hs) h
      simp only [List.dropWhile, this, Bool.not_false]
      exact ih

theorem tokLoop_inHost_of_no_slash {σ' : TSt} {ts : List Tok} {k : Option UInt8} (hns : .lit SLASH ∉ ts)
    (h : tokLoop lim {} ts k = some σ') : σ'.inHost = true :=
  (tokLoop_host_inv (lim := lim) (σ := {}) rfl (by simp) hns h).1

theorem textMode_init : TextMode ({} : TSt) [] :=
  ⟨rfl, rfl, rfl, fun _ => Or.inl rfl, fun h => absurd rfl h, rfl, by simp⟩

theorem tfinish_host {σ1 σ3 : TSt} {c : UInt8} (hin : σ3.inHost = false) (he : σ3.hostEnd = some c)
    (hp : σ1.prev = some c) (h1 : σ3.last = σ1.last) (h2 : σ3.partlen = σ1.partlen)
    (h3 : σ3.totallen = σ1.totallen) (h4 : σ3.nonNumeric = σ1.nonNumeric) :
    tfinish σ3 = if hostFinalOK σ1 then some σ3.paramCnt else none := by
  simp only [tfinish, hin, Bool.false_eq_true, if_false, he, hostFinalOK, hp, h1, h2, h3, h4]
  by_cases a : σ1.last = DASH
  · simp [a]
  by_cases b : c = DOT
  · simp [a, b]
  by_cases d : σ1.nonNumeric = true
  case neg => simp [a, b, d]
  by_cases e : σ1.partlen > 63
  · have e' : ¬ σ1.partlen ≤ 63 := by omega
    simp [a, b, d, e, e']
  by_cases f : σ1.totallen + σ1.partlen > 255
  · have f' : ¬ σ1.totallen + σ1.partlen ≤ 255 := by omega
    simp [a, b, d, e, f, f']
  · have e' : σ1.partlen ≤ 63 := by omega
    have f' : σ1.totallen + σ1.partlen ≤ 255 := by omega
    simp [a, b, d, e, f, e', f']

/-- **token machine = grammar** -/
theorem tokAccept_eq (toks : List Tok) :
    tokAccept lim toks = if validToks lim toks then some (wilds toks) else none := by
  have hsplit : toks = toks.takeWhile (!isSlash ·) ++ toks.dropWhile (!isSlash ·) :=
    (List.takeWhile_append_dropWhile).symm
  have hns := takeWhile_no_slash toks
  generalize hh : toks.takeWhile (!isSlash ·) = host at hsplit hns
  rcases dropWhile_head toks with hp | ⟨path', hp⟩
  · -- no '/' at all
    have hv : validToks lim toks = false := by simp [validToks, hp]
    rw [hv]
    rw [hp, List.append_nil] at hsplit
    subst hsplit
    simp only [Bool.false_eq_true, if_false, tokAccept]
    cases h : tokLoop lim {} toks none with
    | none => rfl
    | some σ' =>
      have := tokLoop_inHost_of_no_slash hns h
      simp only [tfinish, this, if_true]
  · have hv : validToks lim toks =
        ((host.isEmpty || hostOk lim host) && (splitAtLit SLASH path').all (segOk lim) &&
          !consecCatchAll path' && decide (wilds toks ≤ lim.maxParams)) := by
      have hcc : consecCatchAll (.lit SLASH :: path') = consecCatchAll path' := by
        cases path' with
        | nil => simp [consecCatchAll]
        | cons x xs => cases x <;> simp [consecCatchAll]
      simp only [validToks, hp, hh, wilds, splitAtLit_sep, List.all_cons, segOk_nil, hcc, List.isEmpty_cons,
        Bool.not_false, Bool.true_and]
      rfl
    have hw : wilds toks = wilds host + wilds path' := by
      rw [hsplit, hp, wilds_append, wilds_lit]
    rw [hv, hsplit, hp, tokAccept_split host path' hns, ← hp, ← hsplit]
    by_cases hcount : wilds toks ≤ lim.maxParams
    case neg =>
      simp only [hcount, decide_false, Bool.and_false, Bool.false_eq_true, if_false]
      cases h1 : tokLoop lim {} host (some SLASH) with
      | none => rfl
      | some σ1 =>
        simp only
        by_cases hc1 : σ1.paramCnt > lim.maxParams
        · simp [hc1]
        · simp only [hc1, if_false]
          cases h3 : tokLoop lim (flipSt σ1) path' none with
          | none => rfl
          | some σ3 =>
            exfalso
            have c1 := tokLoop_count h1
            have c3 := tokLoop_count h3
            have c3' := tokLoop_count_le h3 (by simp [flipSt]; omega)
            simp [flipSt] at c3 c1
            omega
    simp only [hcount, decide_true, Bool.and_true]
    have hcc : ∀ σ1 : TSt, σ1.previous ≠ .catchAll → σ1.paramCnt = wilds host →
        (tokLoop lim (flipSt σ1) path' none).isSome =
          ((splitAtLit SLASH path').all (segOk lim) && !consecCatchAll path') := by
      intro σ1 hprev hc
      rw [path_phase path' (flipSt σ1) rfl (by simp [flipSt]; omega), consecT_eq]
      have : decide ((flipSt σ1).previous = .catchAll) = false := decide_eq_false hprev
      simp [this]
    by_cases hhe : host = []
    · subst hhe
      simp only [tokLoop, List.isEmpty_nil, Bool.true_or, Bool.true_and]
      have hc0 : ¬ ({} : TSt).paramCnt > lim.maxParams := by simp
      simp only [hc0, if_false]
      have hpp := hcc {} (by simp) (by simp)
      cases h3 : tokLoop lim (flipSt {}) path' none with
      | none => rw [h3] at hpp; simp only [Option.isSome_none] at hpp; rw [← hpp]; simp
      | some σ3 =>
        rw [h3] at hpp; simp only [Option.isSome_some] at hpp
        rw [← hpp]; simp only [if_true]
        obtain ⟨a, b, _⟩ := tokLoop_path_fields (σ := flipSt {}) rfl h3
        have c3 := tokLoop_count h3
        simp only [tfinish, a, Bool.false_eq_true, if_false, b, flipSt]
        simp [flipSt] at c3
        simp at hw
        simp [c3, hw]
    · have hL := host_phase (lim := lim) host.length host {} [] rfl textMode_init hns (Or.inl hhe) (by simp; omega)
      rw [hostRest_nil] at hL
      have hie : host.isEmpty = false := by cases host; exact absurd rfl hhe; rfl
      simp only [hie, Bool.false_or]
      simp only [hostLeft] at hL
      cases h1 : tokLoop lim {} host (some SLASH) with
      | none => rw [h1] at hL; simp only at hL; simp [← hL]
      | some σ1 =>
        rw [h1] at hL; simp only at hL
        have c1 := tokLoop_count h1
        simp at c1
        have hc1 : ¬ σ1.paramCnt > lim.maxParams := by omega
        simp only [hc1, if_false]
        obtain ⟨_, hprev⟩ := tokLoop_host_inv (lim := lim) (σ := {}) rfl (by simp) hns h1
        have hpp := hcc σ1 hprev c1
        cases h3 : tokLoop lim (flipSt σ1) path' none with
        | none => rw [h3] at hpp; simp only [Option.isSome_none] at hpp; rw [Bool.and_assoc, ← hpp]; simp
        | some σ3 =>
          rw [h3] at hpp; simp only [Option.isSome_some] at hpp
          rw [Bool.and_assoc, ← hpp, ← hL]; simp only [Bool.and_true]
          obtain ⟨a, b, c, d, e, f⟩ := tokLoop_path_fields (σ := flipSt σ1) rfl h3
          have hpn := tokLoop_prev (Or.inl hhe) h1
          cases hpc : σ1.prev with
          | none => exact absurd hpc hpn
          | some cc =>
            have c3 := tokLoop_count h3
            simp [flipSt] at c3
            rw [tfinish_host a (by rw [b]; simp [flipSt, hpc]) hpc c d e f]
            have : σ3.paramCnt = wilds toks := by omega
            rw [this]

end Tok

/-! ## Part 4 — top level -/

theorem finish_snd {eh : Nat} {s : Bytes} {st : PSt} {r : Nat × Nat} (h : finish eh s st = .ok r) : r.2 = eh := by
  unfold finish at h
  repeat' split at h
  all_goals first | (cases h; rfl) | cases h

theorem bd_init (eh : Nat) (s : Bytes) : Bd eh s (init eh) [] s := by
  refine ⟨rfl, rfl, rfl, rfl, ?_, ?_⟩
  · intro h; simp [init] at h ⊢; omega
  · intro h; simp [init] at h

theorem σof_init (eh : Nat) (s : Bytes) : σof eh s (init eh) [] = {} := by
  simp [σof, absT, init]

theorem tokAccept_bind (lim : Spec.Limits) (toks : List Tok) :
    tokAccept lim toks = (tokLoop lim {} toks none).bind tfinish := by
  simp only [tokAccept]; cases tokLoop lim {} toks none <;> rfl

theorem parse_core (mp mk eh : Nat) (s : Bytes) (n e : Nat) :
    runFrom mp mk eh s = ParseResult.ok n e ↔ (acc mp mk eh s (init eh) = some n ∧ e = eh) := by
  simp only [acc, runFrom]
  cases hl : loop mp mk eh s (init eh) with
  | error f => cases f <;> simp
  | ok st =>
    simp only
    cases hf : finish eh s st with
    | error f => cases f <;> simp
    | ok r =>
      obtain ⟨r1, r2⟩ := r
      have := finish_snd hf
      simp only at this
      subst this
      simp only [ParseResult.ok.injEq, Option.some.injEq]
      constructor
      · rintro ⟨a, b⟩; exact ⟨a, b.symm⟩
      · rintro ⟨a, b⟩; exact ⟨a, b.symm⟩

/-- `parseRoute` accepts exactly when the string tokenizes and the token machine accepts the tokens -/
theorem parseRoute_ok_iff (mp mk : Nat) (s : Bytes) (n e : Nat) :
    parseRoute mp mk s = .ok n e ↔
      indexByte SLASH s = some e ∧ s.head? ≠ some DOT ∧ s.head? ≠ some DASH ∧
        ∃ toks, tokenize s = some toks ∧ tokAccept ⟨mp, mk⟩ toks = some n := by
  unfold parseRoute
  cases heh : indexByte SLASH s with
  | none => simp
  | some eh =>
    simp only
    by_cases h1 : s.head? = some DOT
    · simp [h1]
    by_cases h2 : s.head? = some DASH
    · have : ¬ DASH = DOT := by decide
      simp [h2, this]
    simp only [h1, h2, if_false, not_false_eq_true, true_and, Option.some.injEq]
    obtain ⟨p0, q0, hs0, hp0, hn0⟩ := indexByte_spec heh
    have hsim := acc_eq_tok (mp := mp) (mk := mk) hs0 hp0 hn0 s.length s [] (init eh) rfl (bd_init eh s)
    rw [σof_init] at hsim
    rw [parse_core, hsim]
    cases ht : tokenize s with
    | none => simp
    | some toks =>
      simp only [← tokAccept_bind, Option.some.injEq, exists_eq_left']
      constructor
      · rintro ⟨a, b⟩; exact ⟨b.symm, h1, h2, a⟩
      · rintro ⟨a, _, _, b⟩; exact ⟨b, a.symm⟩

/-- `tokenize` loses nothing: rendering the tokens gives the string back (for every string that tokenizes) -/
theorem render_tokenize : ∀ (k : Nat) (s : Bytes) (toks : List Tok), s.length = k → tokenize s = some toks →
    render toks = s := by
  intro k
  induction k using Nat.strongRecOn with
  | _ k ih =>
    intro s toks hk h
    cases s with
    | nil => rw [tokenize_nil] at h; cases h; rfl
    | cons b bs =>
      by_cases h1 : b = LBR
      · subst h1; rw [tokenize_lbr] at h
        cases htn : takeName bs with
        | none => rw [htn] at h; cases h
        | some nr =>
          obtain ⟨n, r⟩ := nr
          rw [htn] at h; simp only at h
          obtain ⟨hbs, _⟩ := takeName_spec htn
          cases hr : tokenize r with
          | none => rw [hr] at h; cases h
          | some ts =>
            rw [hr] at h; simp at h; subst h
            have := ih r.length (by rw [← hk, hbs]; simp; omega) r ts rfl hr
            simp [render, Tok.render] at this ⊢
            rw [this, hbs]
      · by_cases h2 : b = STAR
        · subst h2
          cases bs with
          | nil => rw [tokenize_star_nil] at h; cases h
          | cons c cs =>
            by_cases h3 : c = LBR
            · subst h3; rw [tokenize_star_lbr] at h
              cases htn : takeName cs with
              | none => rw [htn] at h; cases h
              | some nr =>
                obtain ⟨n, r⟩ := nr
                rw [htn] at h; simp only at h
                obtain ⟨hbs, _⟩ := takeName_spec htn
                cases hr : tokenize r with
                | none => rw [hr] at h; cases h
                | some ts =>
                  rw [hr] at h; simp at h; subst h
                  have := ih r.length (by rw [← hk, hbs]; simp; omega) r ts rfl hr
                  simp [render, Tok.render] at this ⊢
                  rw [this, hbs]
            · rw [tokenize_star_other c cs h3] at h; cases h
        · rw [tokenize_lit b bs h1 h2] at h
          cases hr : tokenize bs with
          | none => rw [hr] at h; cases h
          | some ts =>
            rw [hr] at h; simp at h; subst h
            have := ih bs.length (by rw [← hk]; simp) bs ts rfl hr
            simp [render, Tok.render] at this ⊢
            exact this

theorem tokAccept_head_ne {lim : Spec.Limits} {b : UInt8} {ts : List Tok} {n : Nat}
    (h : tokAccept lim (.lit b :: ts) = some n) : b ≠ DOT ∧ b ≠ DASH := by
  have hc : ¬ ({} : TSt).paramCnt > lim.maxParams := by simp
  constructor
  · intro e; subst e
    simp [tokAccept, tokLoop, tokStep_host_dot textMode_init hc] at h
  · intro e; subst e
    have h1 : DASH ≠ SLASH := by decide
    have h2 : DASH ≠ DOT := by decide
    have h3 : Spec.isAlpha DASH = false := by decide
    have h4 : Spec.isNum DASH = false := by decide
    simp [tokAccept, tokLoop, tokStep_host_ldh textMode_init hc _ h1 h2, h3, h4] at h

theorem head_ok_of_accept {lim : Spec.Limits} {s : Bytes} {toks : List Tok} {n : Nat}
    (ht : tokenize s = some toks) (h : tokAccept lim toks = some n) :
    s.head? ≠ some DOT ∧ s.head? ≠ some DASH := by
  cases s with
  | nil => simp
  | cons b bs =>
    by_cases hb : b = DOT ∨ b = DASH
    · have h1 : b ≠ LBR := by rcases hb with e | e <;> rw [e] <;> decide
      have h2 : b ≠ STAR := by rcases hb with e | e <;> rw [e] <;> decide
      rw [tokenize_lit b bs h1 h2] at ht
      cases hr : tokenize bs with
      | none => rw [hr] at ht; cases ht
      | some ts =>
        rw [hr] at ht; simp at ht; subst ht
        have := tokAccept_head_ne h
        rcases hb with e | e
        · exact absurd e this.1
        · exact absurd e this.2
    · simp only [not_or] at hb
      simp [hb.1, hb.2]

theorem slash_of_valid {lim : Spec.Limits} {s : Bytes} {toks : List Tok}
    (ht : tokenize s = some toks) (h : Spec.validToks lim toks = true) : ∃ e, indexByte SLASH s = some e := by
  have hr := render_tokenize s.length s toks rfl ht
  have hm : Tok.lit SLASH ∈ toks := by
    rcases dropWhile_head toks with hp | ⟨p, hp⟩
    · simp [Spec.validToks, hp] at h
    · have : toks = toks.takeWhile (!Spec.isSlash ·) ++ toks.dropWhile (!Spec.isSlash ·) :=
        (List.takeWhile_append_dropWhile).symm
      rw [this, hp]; simp
  have hs : SLASH ∈ s := by
    rw [← hr]
    simp only [render, List.mem_flatMap]
    exact ⟨_, hm, by simp [Tok.render]⟩
  cases hi : indexByte SLASH s with
  | none => exact absurd hs (indexByte_none hi)
  | some e => exact ⟨e, rfl⟩

/-! ## Part 5 — `parseWildcard` agrees with `tokenize` -/

/-- the wildcards of a token list the way `parseWildcard` reports them: name, byte offset just after the closing
    brace (`-1` when the wildcard ends the string), catch-all flag; `off` = offset of the first token -/
def wildPositions (off : Nat) : List Tok → List WParam
  | [] => []
  | .lit _ :: ts => wildPositions (off + 1) ts
  | .param n :: ts =>
    ⟨n, if ts.isEmpty then -1 else ((off + n.length + 2 : Nat) : Int), false⟩ :: wildPositions (off + n.length + 2) ts
  | .catchAll n :: ts =>
    ⟨n, if ts.isEmpty then -1 else ((off + n.length + 3 : Nat) : Int), true⟩ :: wildPositions (off + n.length + 3) ts

section W
variable {s : Bytes}

theorem wLoop_done {st : WSt} (h : ¬ st.i < s.length) : wLoop s st = some st := by
  rw [wLoop]; simp [h]

theorem wLoop_step {st st' : WSt} (h : st.i < s.length) (hs : wStep s st = some st') :
    wLoop s st = wLoop s st' := by
  rw [wLoop]; simp only [h, if_true]
  split
  · rename_i he; rw [hs] at he; cases he
  · rename_i st'' he; rw [hs] at he; cases he; rfl

theorem wScan {st : WSt} {pre n rest : Bytes} (hst : st.state ≠ .default) (hs : s = pre ++ n ++ rest)
    (hi : st.i = pre.length) (hr : RBR ∉ n) :
    wLoop s st = wLoop s { st with i := st.i + n.length } := by
  induction n generalizing st pre with
  | nil => simp
  | cons b n ih =>
    have hc : s[st.i]? = some b := by rw [hs, hi]; simp
    have hlt : st.i < s.length := by rw [hs, hi]; simp
    have hb : b ≠ RBR := fun h => hr (by simp [h])
    have hstep : wStep s st = some { st with i := st.i + 1 } := by
      unfold wStep; rw [hc]
      cases hst' : st.state with
      | default => exact absurd hst' hst
      | param => simp [hb]
      | catchAll => simp [hb]
    rw [wLoop_step hlt hstep]
    have := @ih { st with i := st.i + 1 } (pre ++ [b]) hst (by rw [hs]; simp) (by simp [hi])
      (fun h => hr (by simp [h]))
    rw [this]
    congr 1
    simp; omega

theorem slice_mid (a n r : Bytes) : slice (a ++ n ++ r) a.length (a.length + n.length) = some n := by
  unfold slice
  have h1 : a.length ≤ a.length + n.length ∧ a.length + n.length ≤ (a ++ n ++ r).length := by simp
  rw [if_pos h1]
  simp

theorem render_ne_nil {ts : List Tok} (h : ts ≠ []) : render ts ≠ [] := by
  cases ts with
  | nil => exact absurd rfl h
  | cons t ts => cases t <;> simp [render, Tok.render]

def closedSt (st : WSt) (p : WParam) : WSt :=
  { st with params := st.params ++ [p], start := 0, state := .default, i := st.i + 1 }

/-- closing a wildcard whose name `n` starts at `pre.length` -/
theorem wClose_at {st : WSt} {pre n r : Bytes} (hs : s = pre ++ n ++ RBR :: r) (hstart : st.start = pre.length)
    (hi : st.i = pre.length + n.length) (ca : Bool) :
    wClose s st ca = some (closedSt st
      ⟨n, if r.isEmpty then -1 else ((pre.length + n.length + 1 : Nat) : Int), ca⟩) := by
  unfold wClose closedSt
  have hl : st.i + 1 ≤ s.length := by rw [hs, hi]; simp; omega
  rw [if_pos hl]
  have hsl : slice s st.start st.i = some n := by rw [hs, hstart, hi]; exact slice_mid pre n (RBR :: r)
  rw [hsl]
  simp only
  have : (s.length - (st.i + 1) > 0) ↔ ¬ r.isEmpty = true := by
    rw [hs, hi]; cases r <;> simp <;> omega
  by_cases hr : r.isEmpty = true
  · have h0 : ¬ (s.length - (st.i + 1) > 0) := by rw [this]; simpa using hr
    simp only [h0, if_false, hr, if_true]
  · have h0 : (s.length - (st.i + 1) > 0) := by rw [this]; exact hr
    simp only [h0, if_true, hr, Bool.false_eq_true, if_false]
    simp only [hi]

theorem wStep_close {st : WSt} (hc : s[st.i]? = some RBR) (hst : st.state = .param) :
    wStep s st = wClose s st false := by
  unfold wStep; rw [hc]; simp [hst]

theorem wStep_closeC {st : WSt} (hc : s[st.i]? = some RBR) (hst : st.state = .catchAll) :
    wStep s st = wClose s st true := by
  unfold wStep; rw [hc]; simp [hst]

theorem isEmpty_tokenize {r : Bytes} {ts : List Tok} (htr : tokenize r = some ts) : r.isEmpty = ts.isEmpty := by
  have := render_tokenize r.length r ts rfl htr
  cases ts with
  | nil => rw [← this]; rfl
  | cons t ts' =>
    have hne := render_ne_nil (ts := t :: ts') (by simp)
    rw [this] at hne
    cases r with
    | nil => exact absurd rfl hne
    | cons _ _ => rfl

theorem wLoop_tokens : ∀ (k : Nat) (suf pre : Bytes) (st : WSt) (toks : List Tok), suf.length = k →
    s = pre ++ suf → st.i = pre.length → st.state = .default → tokenize suf = some toks →
    ∃ st', wLoop s st = some st' ∧ st'.params = st.params ++ wildPositions pre.length toks := by
  intro k
  induction k using Nat.strongRecOn with
  | _ k ih =>
    intro suf pre st toks hk hs hi hst ht
    cases suf with
    | nil =>
      rw [tokenize_nil] at ht; cases ht
      refine ⟨st, wLoop_done (by rw [hs, hi]; simp), by simp [wildPositions]⟩
    | cons b rest =>
      have hc : s[st.i]? = some b := by rw [hs, hi]; simp
      have hlt : st.i < s.length := by rw [hs, hi]; simp
      by_cases h1 : b = LBR
      · subst h1
        rw [tokenize_lbr] at ht
        cases htn : takeName rest with
        | none => rw [htn] at ht; cases ht
        | some nr =>
          obtain ⟨n, r⟩ := nr
          rw [htn] at ht; simp only at ht
          obtain ⟨hrest, hrn⟩ := takeName_spec htn
          cases htr : tokenize r with
          | none => rw [htr] at ht; cases ht
          | some ts =>
            rw [htr] at ht; simp at ht; subst ht
            have hstep : wStep s st = some { st with state := .param, i := st.i + 1, start := st.i + 1 } := by
              unfold wStep; rw [hc]; simp [hst, show LBR ≠ STAR by decide]
            have hs1 : s = (pre ++ [LBR]) ++ n ++ RBR :: r := by rw [hs, hrest]; simp
            obtain ⟨X, hX⟩ : ∃ X : WSt, X = { st with state := .param, i := st.i + 1 + n.length, start := st.i + 1 } :=
              ⟨_, rfl⟩
            have hscan : wLoop s { st with state := .param, i := st.i + 1, start := st.i + 1 } = wLoop s X := by
              rw [hX]
              exact wScan (pre := pre ++ [LBR]) (n := n) (rest := RBR :: r) (by simp) hs1 (by simp [hi]) hrn
            rw [wLoop_step hlt hstep, hscan]
            have hXi : X.i = (pre ++ [LBR]).length + n.length := by rw [hX]; simp [hi]
            have hlt2 : X.i < s.length := by rw [hXi, hs1]; simp; omega
            have hc2 : s[X.i]? = some RBR := by
              have : X.i = (pre ++ [LBR] ++ n).length := by rw [hXi]; simp; omega
              rw [this, hs1]; exact getElem?_at _ _ _
            have hcl := @wClose_at s X (pre ++ [LBR]) n r hs1 (by rw [hX]; simp [hi]) hXi false
            rw [wLoop_step hlt2 ((wStep_close hc2 (by rw [hX])).trans hcl)]
            obtain ⟨st', h1, h2⟩ := ih r.length (by rw [← hk, hrest]; simp; omega) r (pre ++ LBR :: n ++ [RBR])
              (closedSt X ⟨n, if r.isEmpty then -1 else (((pre ++ [LBR]).length + n.length + 1 : Nat) : Int), false⟩)
              ts rfl (by rw [hs, hrest]; simp) (by simp [closedSt, hXi]; omega) rfl htr
            refine ⟨st', h1, ?_⟩
            rw [h2]
            have hXp : X.params = st.params := by rw [hX]
            simp only [closedSt, hXp, wildPositions, List.append_assoc, List.cons_append, List.nil_append,
              List.length_append, List.length_cons, List.length_nil, isEmpty_tokenize htr]
            have e1 : pre.length + (0 + 1) + n.length + 1 = pre.length + n.length + 2 := by omega
            have e2 : pre.length + (n.length + (0 + 1) + 1) = pre.length + n.length + 2 := by omega
            rw [e1, e2]
      · by_cases h2 : b = STAR
        · subst h2
          cases rest with
          | nil => rw [tokenize_star_nil] at ht; cases ht
          | cons c cs =>
            by_cases h3 : c = LBR
            · subst h3
              rw [tokenize_star_lbr] at ht
              cases htn : takeName cs with
              | none => rw [htn] at ht; cases ht
              | some nr =>
                obtain ⟨n, r⟩ := nr
                rw [htn] at ht; simp only at ht
                obtain ⟨hrest, hrn⟩ := takeName_spec htn
                cases htr : tokenize r with
                | none => rw [htr] at ht; cases ht
                | some ts =>
                  rw [htr] at ht; simp at ht; subst ht
                  have hstep : wStep s st = some { st with state := .catchAll, i := st.i + 2, start := st.i + 2 } := by
                    unfold wStep; rw [hc]; simp [hst]
                  have hs1 : s = (pre ++ [STAR, LBR]) ++ n ++ RBR :: r := by rw [hs, hrest]; simp
                  obtain ⟨X, hX⟩ : ∃ X : WSt,
                      X = { st with state := .catchAll, i := st.i + 2 + n.length, start := st.i + 2 } := ⟨_, rfl⟩
                  have hscan : wLoop s { st with state := .catchAll, i := st.i + 2, start := st.i + 2 } = wLoop s X := by
                    rw [hX]
                    exact wScan (pre := pre ++ [STAR, LBR]) (n := n) (rest := RBR :: r) (by simp) hs1 (by simp [hi]) hrn
                  rw [wLoop_step hlt hstep, hscan]
                  have hXi : X.i = (pre ++ [STAR, LBR]).length + n.length := by rw [hX]; simp [hi]
                  have hlt2 : X.i < s.length := by rw [hXi, hs1]; simp; omega
                  have hc2 : s[X.i]? = some RBR := by
                    have : X.i = (pre ++ [STAR, LBR] ++ n).length := by rw [hXi]; simp; omega
                    rw [this, hs1]; exact getElem?_at _ _ _
                  have hcl := @wClose_at s X (pre ++ [STAR, LBR]) n r hs1 (by rw [hX]; simp [hi]) hXi true
                  rw [wLoop_step hlt2 ((wStep_closeC hc2 (by rw [hX])).trans hcl)]
                  obtain ⟨st', h1, h2⟩ := ih r.length (by rw [← hk, hrest]; simp; omega) r
                    (pre ++ STAR :: LBR :: n ++ [RBR])
                    (closedSt X ⟨n, if r.isEmpty then -1 else (((pre ++ [STAR, LBR]).length + n.length + 1 : Nat) : Int), true⟩)
                    ts rfl (by rw [hs, hrest]; simp) (by simp [closedSt, hXi]; omega) rfl htr
                  refine ⟨st', h1, ?_⟩
                  rw [h2]
                  have hXp : X.params = st.params := by rw [hX]
                  simp only [closedSt, hXp, wildPositions, List.append_assoc, List.cons_append, List.nil_append,
                    List.length_append, List.length_cons, List.length_nil, isEmpty_tokenize htr]
                  have e1 : pre.length + (0 + 1 + 1) + n.length + 1 = pre.length + n.length + 3 := by omega
                  have e2 : pre.length + (n.length + (0 + 1 + 1) + 1) = pre.length + n.length + 3 := by omega
                  rw [e1, e2]
            · rw [tokenize_star_other c cs h3] at ht; cases ht
        · rw [tokenize_lit b rest h1 h2] at ht
          cases htr : tokenize rest with
          | none => rw [htr] at ht; cases ht
          | some ts =>
            rw [htr] at ht; simp at ht; subst ht
            have hstep : wStep s st = some { st with i := st.i + 1 } := by
              unfold wStep; rw [hc]; simp [hst, h1, h2]
            rw [wLoop_step hlt hstep]
            have := ih rest.length (by simp at hk; omega) rest (pre ++ [b]) { st with i := st.i + 1 } ts rfl
              (by rw [hs]; simp) (by simp [hi]) hst htr
            obtain ⟨st', h1', h2'⟩ := this
            exact ⟨st', h1', by rw [h2']; simp [wildPositions]⟩

end W

end Fox.Model
