import FoxModel.Lemmas.TsrAdd
/-
  The path stage of `roots.lookup` (lookupByPath on the "/" child) equals the specification `pathOnlyS` on the suffix
  set of that child: best direct match, else best slash-adjusted match (remove / add against a literal '/').
-/
namespace Fox.Spec
open Fox

/-- `Spec.pathOnly` on a suffix set instead of a route list -/
def pathOnlyS (S : SufSet) (path : Bytes) (ps : Binds) : Option Found :=
  (first (specAll S path ps) false).orElse fun _ =>
    match adjust path with
    | none => none
    | some (p', added) => first (specAll (if added then flt endsWithLitSlash S else S) p' ps) true

theorem sufsOf_filter (rs : List Route) (p : Route → Bool) : sufsOf (rs.filter p) = flt p (sufsOf rs) := by
  induction rs with
  | nil => rfl
  | cons r rs ih =>
    simp only [sufsOf, flt, List.filter_cons, List.map_cons] at ih ⊢
    by_cases h : p r = true <;> simp [h, ih]

/-- `pathOnly` is `pathOnlyS` on the patterns of the routes -/
theorem pathOnly_eq (P : List Route) (path : Bytes) : pathOnly P path = pathOnlyS (sufsOf P) path [] := by
  unfold pathOnly pathOnlyS bestTsr
  congr 1
  funext _
  cases adjust path with
  | none => rfl
  | some x =>
    obtain ⟨p', added⟩ := x
    cases added <;> simp [sufsOf_filter]

end Fox.Spec

namespace Fox.Model
open Fox Fox.Spec

def toResult : Option Found → Result
  | none => .none
  | some f => .found f.route f.params f.tsr

theorem endsWithSlash_append_slash (q : Bytes) : endsWithSlash (q ++ [SLASH]) = true := by simp [endsWithSlash]

theorem endsWithSlash_false_iff {q : Bytes} : endsWithSlash q = false ↔ q.getLast? ≠ some SLASH := by
  unfold endsWithSlash
  constructor
  · intro h hq; rw [hq] at h; simp at h
  · intro h
    cases hg : q.getLast? with
    | none => simp
    | some v =>
      rw [hg] at h
      have : v ≠ SLASH := fun hv => h (by rw [hv])
      simp [this]

/-- remove direction, any parameter prefix -/
theorem path_sim_remove {c : Node} (h : wfNode c = true) (q : Bytes) (ps : Binds)
    (hX : specAll (sufsNode c) (q ++ [SLASH]) ps = []) :
    Sim (tsrs (pathEvents c (q ++ [SLASH]) ps)) (if q = [] then [] else specAll (sufsNode c) q ps) := by
  have hp := wfNode_parts h
  have hD1 : directs (walk c [] c.key none true (q ++ [SLASH]) ps) = [] := by
    rw [(walk_refines_all true).1 c [] c.key none _ ps hp.1 hp.2.1 hp.2.2, ← sufsNode_eq]; exact hX
  have hD2 : directs (walk c [] c.key none false q ps) = specAll (sufsNode c) q ps := by
    rw [(walk_refines_all false).1 c [] c.key none _ ps hp.1 hp.2.1 hp.2.2, ← sufsNode_eq]
  have hsim := tsr_remove_all.1 c [] c.key none q ps hp.1 (fun _ => Or.inr rfl) hD1
  rw [hD2] at hsim
  unfold pathEvents
  rw [endsWithSlash_append_slash]
  by_cases hq : q = []
  · subst hq
    simp only [if_true]
    obtain ⟨t, k', _, hh⟩ := wfNode_head h
    rw [specAll_head_nil hh] at hsim
    exact hsim
  · simp only [hq, if_false]; exact hsim

/-- add direction, any parameter prefix -/
theorem path_sim_add {c : Node} (h : wfNode c = true) (hL : LastOK (sufsNode c)) (q : Bytes) (ps : Binds)
    (hq : q.getLast? ≠ some SLASH) (hn : noDbl q = true) (hX : specAll (sufsNode c) q ps = []) :
    Sim (tsrs (pathEvents c q ps)) (specAll (F (sufsNode c)) (q ++ [SLASH]) ps) := by
  have hf := wfNode_full h
  have hp := wfNode_parts h
  have hD : directs (walk c [] c.key none false q ps) = [] := by
    rw [(walk_refines_all false).1 c [] c.key none _ ps hp.1 hp.2.1 hp.2.2, ← sufsNode_eq]; exact hX
  have := tsr_add_all.1 c [] c.key none q ps hf.1 hf.2.1 hf.2.2.2 (by rw [← sufsNode_eq]; exact hL) hq hn hD
  rw [← sufsNode_eq] at this
  unfold pathEvents
  rw [endsWithSlash_false_iff.mpr hq]
  exact this

theorem dropLast_append_slash (q : Bytes) : (q ++ [SLASH]).dropLast = q := by simp

theorem adjust_append_slash {q : Bytes} (hq : q ≠ []) : adjust (q ++ [SLASH]) = some (q, false) := by
  unfold adjust
  have h1 : ¬ (q ++ [SLASH] = [SLASH]) := by
    intro h
    cases q with
    | nil => exact hq rfl
    | cons a as => simp at h
  simp [h1, endsWithSlash_append_slash]

theorem adjust_no_slash {q : Bytes} (hq : q.getLast? ≠ some SLASH) : adjust q = some (q ++ [SLASH], true) := by
  unfold adjust
  have h1 : ¬ (q = [SLASH]) := by intro h; rw [h] at hq; simp at hq
  simp [h1, endsWithSlash_false_iff.mpr hq]

def resOfTsrs : Res → Result
  | (r, ps) :: _ => .found r ps true
  | [] => .none

theorem firstTsr_eq' (evs : List Ev) : firstTsr evs = resOfTsrs (tsrs evs) := by
  rw [firstTsr_eq]; cases tsrs evs with
  | nil => rfl
  | cons x xs => obtain ⟨r, ps⟩ := x; rfl

theorem sim_first {T D : Res} (h : Sim T D) : resOfTsrs T = toResult (first D true) := by
  cases T with
  | nil =>
    have : D = [] := h.1.mp rfl
    subst this; rfl
  | cons x xs =>
    cases D with
    | nil => exact absurd (h.1.mpr rfl) (by simp)
    | cons y ys =>
      have : x = y := by simpa using h.2
      subst this
      obtain ⟨r, ps⟩ := x
      rfl

theorem eq_dropLast_append {path : Bytes} (hq : path.getLast? = some SLASH) : path = path.dropLast ++ [SLASH] := by
  induction path with
  | nil => simp at hq
  | cons a as ih =>
    cases as with
    | nil => simp at hq; simp [hq]
    | cons b bs =>
      rw [List.getLast?_cons_cons] at hq
      have := ih hq
      simp only [List.dropLast_cons₂, List.cons_append]
      rw [← this]

/-- **the path stage equals the specification**: for every well-formed subtree `c` whose stored suffixes end like their
    routes' patterns, every parameter prefix and every path without empty segment, `lookupByPath` returns the best direct
    match, else the best match of the path with its trailing slash removed, else (no trailing slash) the best match of the
    path with a slash added among the routes ending in a literal '/', else nothing -/
theorem pathStage_eq_spec {c : Node} (h : wfNode c = true) (hL : LastOK (sufsNode c)) (path : Bytes) (ps : Binds)
    (hn : noDbl path = true) :
    pick (pathEvents c path ps) = toResult (pathOnlyS (sufsNode c) path ps) := by
  rw [pick_eq (pathEvents_no_bad h path ps), pathEvents_direct h]
  unfold pathOnlyS
  cases hS : specAll (sufsNode c) path ps with
  | cons x xs => obtain ⟨r, ps'⟩ := x; rfl
  | nil =>
    have hfirst : first ([] : Res) false = none := rfl
    rw [hfirst]
    simp only [Option.orElse]
    rw [firstTsr_eq']
    -- split on the shape of the path
    by_cases hq : path.getLast? = some SLASH
    · -- path = q ++ "/"
      obtain ⟨q, rfl⟩ : ∃ q, path = q ++ [SLASH] := ⟨path.dropLast, eq_dropLast_append hq⟩
      have hsim := path_sim_remove h q ps hS
      by_cases hq0 : q = []
      · subst hq0
        simp only [List.nil_append, if_true] at hsim ⊢
        have : adjust [SLASH] = none := by simp [adjust]
        rw [this]
        have hT : tsrs (pathEvents c [SLASH] ps) = [] := hsim.1.mpr rfl
        rw [hT]; rfl
      · simp only [hq0, if_false] at hsim
        rw [adjust_append_slash hq0]
        simp only [Bool.false_eq_true, if_false]
        exact sim_first hsim
    · have hsim := path_sim_add h hL path ps hq hn hS
      rw [adjust_no_slash hq]
      simp only [if_true]
      exact sim_first hsim

end Fox.Model
