import FoxModel.Lemmas.NoBad
import FoxModel.Lemmas.RefineHost
/-
  From event lists to the result of the Go functions: `pick` returns the first direct match of the enumeration,
  otherwise the first trailing-slash candidate.
-/
namespace Fox.Model
open Fox Fox.Spec

theorem find_nonTsr {evs : List Ev} (hb : Ev.bad ∉ evs) :
    evs.find? nonTsr = (directs evs).head?.map (fun x => Ev.direct x.1 x.2) := by
  induction evs with
  | nil => rfl
  | cons e evs ih =>
    have hb' : Ev.bad ∉ evs := fun h => hb (List.mem_cons_of_mem _ h)
    cases e with
    | direct r ps => simp [List.find?_cons, nonTsr]
    | tsr r ps => simp [List.find?_cons, nonTsr, ih hb']
    | bad => exact absurd (List.mem_cons_self) hb

theorem pick_eq {evs : List Ev} (hb : Ev.bad ∉ evs) :
    pick evs = (match directs evs with
      | (r, ps) :: _ => Result.found r ps false
      | [] => firstTsr evs) := by
  unfold pick
  rw [find_nonTsr hb]
  cases directs evs with
  | nil => rfl
  | cons x xs => rfl

/-- the result of `firstTsr` is never a direct match -/
theorem firstTsr_not_direct (evs : List Ev) : ∀ r ps, firstTsr evs ≠ .found r ps false := by
  induction evs with
  | nil => intro r ps h; cases h
  | cons e evs ih =>
    intro r ps
    cases e with
    | direct r' ps' => exact ih r ps
    | tsr r' ps' => intro h; cases h
    | bad => exact ih r ps

theorem firstTsr_not_bad (evs : List Ev) : firstTsr evs ≠ .bad := by
  induction evs with
  | nil => intro h; cases h
  | cons e evs ih =>
    cases e with
    | direct r' ps' => exact ih
    | tsr r' ps' => intro h; cases h
    | bad => exact ih

end Fox.Model

namespace Fox.Model
open Fox Fox.Spec

theorem pathEvents_no_bad {c : Node} (h : wfNode c = true) (path : Bytes) (ps : Binds) :
    Ev.bad ∉ pathEvents c path ps := by
  unfold pathEvents
  have hp := wfNode_leafcond h
  exact (walk_no_bad_all (endsWithSlash path)).1 c [] c.key none path ps hp.1 hp.2

theorem mem_wfKids {cs : List Node} (hw : wfKids cs = true) {c : Node} (hc : c ∈ cs) : wfNode c = true := by
  induction cs with
  | nil => cases hc
  | cons x xs ih =>
    have hw' := wfKids_cons.mp hw
    cases hc with
    | head => exact hw'.1
    | tail _ h' => exact ih hw'.2 h'

theorem hostWalk_no_bad_all (path : Bytes) :
    (∀ n k host ps, wfKids n.children = true → Ev.bad ∉ hostWalk n k host path ps) ∧
    (∀ sel cs host ps, wfKids cs = true → Ev.bad ∉ hostKids sel cs host path ps) := by
  apply hostWalk.mutual_induct
    (fun n k host ps => wfKids n.children = true → Ev.bad ∉ hostWalk n k host path ps)
    (fun sel cs host ps => wfKids cs = true → Ev.bad ∉ hostKids sel cs host path ps)
  · intro n ps c hc hw
    unfold hostWalk; simp only [hc]
    exact pathEvents_no_bad (mem_wfKids hw (List.mem_of_find?_eq_some hc)) path ps
  · intro n ps hc _; unfold hostWalk; simp [hc]
  · intro n ps b rest ih1 ih2 hw
    unfold hostWalk
    simp only [List.mem_append, not_or]
    exact ⟨ih1 hw, ih2 hw⟩
  · intro n ps c k' _; unfold hostWalk; simp
  · intro n ps k' b rest ih hw; unfold hostWalk; simp only [if_true]; exact ih hw
  · intro n ps c k' b rest hcb _; unfold hostWalk; simp [hcb]
  · intro n ps nm k' _; unfold hostWalk; simp
  · intro n ps nm k' b rest he _; unfold hostWalk; simp [he]
  · intro n ps nm k' b rest he ih hw; unfold hostWalk; simp only [he, if_false]; exact ih hw
  · intro n host ps nm k' _; unfold hostWalk; simp
  · intro sel host ps _; unfold hostKids; simp
  · intro sel host ps c cs' ih1 ih2 hw
    have hw' := wfKids_cons.mp hw
    unfold hostKids
    simp only [List.mem_append, not_or]
    constructor
    · split
      · exact ih1 (wfNode_leafcond hw'.1).1
      · simp
    · exact ih2 hw'.2

/-- `lookupByPath` on a well-formed node: the first match of the specification enumeration if there is one, else
    whatever trailing-slash candidate the walk found -/
theorem pathLookup_refines {c : Node} (h : wfNode c = true) (path : Bytes) :
    pick (pathEvents c path []) = (match specAll (sufsNode c) path [] with
      | (r, ps) :: _ => Result.found r ps false
      | [] => firstTsr (pathEvents c path [])) := by
  rw [pick_eq (pathEvents_no_bad h path []), pathEvents_direct h]

/-- `lookupByDomain` from a well-formed root -/
theorem hostLookup_refines {root : Node} (hw : wfKids root.children = true) (hd : nodupB (kindsOf root.children) = true)
    (hh : hostOkKids root.children = true) (host path : Bytes) (hs : SLASH ∉ host) :
    pick (hostWalk root [] host path []) = (match specHost (sufsKids root.children) host path [] with
      | (r, ps) :: _ => Result.found r ps false
      | [] => firstTsr (hostWalk root [] host path [])) := by
  rw [pick_eq ((hostWalk_no_bad_all path).1 root [] host [] hw)]
  rw [(hostWalk_refines_all path).1 root [] host [] hw hd hh (by simp [noSlashTok]) hs]
  have : specHost (sufsFrom root []) host path [] = specHost (sufsKids root.children) host path [] := by
    cases host with
    | nil =>
      rw [specHost_nil_host, specHost_nil_host, sufsFrom_eq, List.filter_append]
      have h1 : (routeSuf root.route []).filter headSlash = [] := by cases root.route <;> simp [routeSuf, headSlash]
      rw [h1]; simp
    | cons b rest => exact specHost_sufsFrom_nil_cons root b rest path []
  rw [this]

end Fox.Model
