import FoxModel.Lemmas.TreeInv
set_option linter.unusedSimpArgs false
set_option linter.unusedVariables false
/-
  FoxModel.Lemmas.PrefixInv — the byte-wise search `searchNode / searchKids / searchRoot` (Go: `roots.search`)
  followed by the raw iterator (`routesNode`) is the *filter* of the routes held below the searched node by
  "the rendered pattern suffix starts with the searched byte string", in iteration order.

  The only facts about the tree that are needed are part of the representation invariant `wfNode` / `wfRoot`:
  keys below the root are non-empty, their literal tokens are neither '{' nor '*' (`keyOk`, so that the first
  byte of a rendered key determines the kind of its first token), and the children of a node have pairwise
  distinct kinds. No new invariant is introduced.
-/
namespace Fox.Model
open Fox

/-! ### byte strings -/

theorem render_app (a b : List Tok) : render (a ++ b) = render a ++ render b := by
  simp [render]

/-- a rendered non-empty key starts with the byte `getEdge` indexes it by -/
theorem render_head (t : Tok) (ts : List Tok) : ∃ rest, render (t :: ts) = firstByte (t :: ts) :: rest := by
  cases t <;> simp [render, Tok.render, firstByte]

theorem isPrefixOf_app_short : ∀ (p a x : Bytes), p.length ≤ a.length → p.isPrefixOf (a ++ x) = p.isPrefixOf a
  | [], _, _, _ => by simp
  | _ :: _, [], _, h => by simp at h
  | b :: p, c :: a, x, h => by
    simp only [List.cons_append, List.isPrefixOf_cons_cons]
    rw [isPrefixOf_app_short p a x (by simpa using h)]

theorem isPrefixOf_app_long : ∀ (a p x : Bytes), (a ++ p).isPrefixOf (a ++ x) = p.isPrefixOf x
  | [], _, _ => rfl
  | c :: a, p, x => by
    simp only [List.cons_append, List.isPrefixOf_cons_cons, beq_self_eq_true, Bool.true_and]
    exact isPrefixOf_app_long a p x

theorem isPrefixOf_iff_take (p a : Bytes) : p.isPrefixOf a = true ↔ a.take p.length = p := by
  rw [List.isPrefixOf_iff_prefix, List.prefix_iff_eq_take]
  exact ⟨fun h => h.symm, fun h => h.symm⟩

/-- a string longer than `a` that does not start with `a` is not a prefix of any extension of `a` -/
theorem isPrefixOf_app_miss {p a : Bytes} (x : Bytes) (hlen : a.length ≤ p.length) (hne : p.take a.length ≠ a) :
    p.isPrefixOf (a ++ x) = false := by
  cases h : p.isPrefixOf (a ++ x) with
  | false => rfl
  | true =>
    exfalso
    rw [List.isPrefixOf_iff_prefix] at h
    have h2 : a <+: p := List.prefix_of_prefix_length_le (List.prefix_append a x) h hlen
    exact hne (List.prefix_iff_eq_take.mp h2).symm

/-! ### the filter -/

/-- the byte string `p` is a prefix of the rendered pattern suffix -/
def hitsP (p : Bytes) (sr : List Tok × Route) : Bool := p.isPrefixOf (render sr.1)

/-- what `Iter.Prefix` yields from the node `roots.search` returned -/
def foundRoutes : Option Node → List Route
  | some n => routesNode n
  | none => []

theorem hitsP_nil (sr : List Tok × Route) : hitsP [] sr = true := by simp [hitsP]

theorem filter_hitsP_nil (S : Spec.SufSet) : S.filter (hitsP []) = S :=
  List.filter_eq_self.mpr fun sr _ => hitsP_nil sr

/-- every suffix held below a node starts with the node's key -/
theorem sufsNode_key (k : List Tok) (r : Option Route) (cs : List Node) :
    ∀ sr ∈ sufsNode (.mk k r cs), ∃ s, sr.1 = k ++ s := by
  intro sr hsr
  rw [sufsNode_own] at hsr
  rcases List.mem_append.mp hsr with h | h
  · cases r with
    | none => simp [own] at h
    | some x => simp only [own, List.mem_singleton] at h; subst h; exact ⟨[], by simp⟩
  · obtain ⟨sr', _, rfl⟩ := List.mem_map.mp h
    exact ⟨sr'.1, rfl⟩

/-- a non-empty byte string that is a prefix of something held below a (non-root) node starts with the byte
    `getEdge` indexes that node by -/
theorem hits_firstByte {c : Node} (hwf : wfNode c = true) {b : UInt8} {p : Bytes} {sr : List Tok × Route}
    (hsr : sr ∈ sufsNode c) (hh : hitsP (b :: p) sr = true) : firstByte c.key = b := by
  obtain ⟨k, r, cs⟩ := c
  rw [wfNode_iff] at hwf
  obtain ⟨s, hs⟩ := sufsNode_key k r cs sr hsr
  cases k with
  | nil => exact absurd rfl hwf.1
  | cons t ts =>
    obtain ⟨rest, hr⟩ := render_head t (ts ++ s)
    simp only [hitsP, hs, List.cons_append, hr, List.isPrefixOf_cons_cons, Bool.and_eq_true, beq_iff_eq] at hh
    simp only [Node.key_mk, firstByte] at hh ⊢
    cases t <;> simp only [firstByte] at hh ⊢ <;> exact hh.1.symm

theorem filter_miss_node {c : Node} (hwf : wfNode c = true) {b : UInt8} {p : Bytes} (hne : firstByte c.key ≠ b) :
    (sufsNode c).filter (hitsP (b :: p)) = [] := by
  rw [List.filter_eq_nil_iff]
  intro sr hsr hh
  exact hne (hits_firstByte hwf hsr hh)

/-- well-formed siblings of distinct kinds are indexed by distinct bytes -/
theorem firstByte_ne_of_kind_ne {c d : Node} (hc : wfNode c = true) (hd : wfNode d = true)
    (hk : kindOf c.key ≠ kindOf d.key) : firstByte c.key ≠ firstByte d.key := by
  obtain ⟨k, r, cs⟩ := c
  obtain ⟨k', r', cs'⟩ := d
  rw [wfNode_iff] at hc hd
  intro e
  exact hk ((firstByte_eq_iff hc.1 hd.1 hc.2.1 hd.2.1).mp e)

theorem filter_miss_kids {b : UInt8} {p : Bytes} : ∀ {cs : List Node}, wfKids cs = true →
    (∀ c ∈ cs, firstByte c.key ≠ b) → (sufsKids cs).filter (hitsP (b :: p)) = []
  | [], _, _ => by simp [sufsKids]
  | c :: cs, hwf, hne => by
    rw [sufsKids_cons, List.filter_append,
      filter_miss_node (wfKids_mem hwf (List.mem_cons_self ..)) (hne c (List.mem_cons_self ..)),
      filter_miss_kids (cs := cs) (wfKids_of_forall fun d hd => wfKids_mem hwf (List.mem_cons_of_mem _ hd))
        (fun d hd => hne d (List.mem_cons_of_mem _ hd))]
    rfl

/-- `searchKids` = `getEdge` followed by the search in the selected child: at most one child can hold a match -/
theorem search_filter_kids (b : UInt8) (p : Bytes) : ∀ cs : List Node, wfKids cs = true → (kindsOf cs).Nodup →
    (∀ c ∈ cs, ∀ q, foundRoutes (searchNode c q) = ((sufsNode c).filter (hitsP q)).map (·.2)) →
    foundRoutes (searchKids cs (b :: p)) = ((sufsKids cs).filter (hitsP (b :: p))).map (·.2)
  | [], _, _, _ => by simp [searchKids, sufsKids, foundRoutes]
  | c :: cs, hwf, hnd, ih => by
    have hwc : wfNode c = true := wfKids_mem hwf (List.mem_cons_self ..)
    have hws : wfKids cs = true := wfKids_of_forall fun d hd => wfKids_mem hwf (List.mem_cons_of_mem _ hd)
    rw [kindsOf_eq_map, List.map_cons, List.nodup_cons] at hnd
    unfold searchKids
    rw [sufsKids_cons, List.filter_append, List.map_append]
    by_cases hb : firstByte c.key = b
    · have hrest : (sufsKids cs).filter (hitsP (b :: p)) = [] := by
        apply filter_miss_kids hws
        intro d hd e
        apply firstByte_ne_of_kind_ne hwc (wfKids_mem hws hd) ?_ (hb.trans e.symm)
        intro ek
        exact hnd.1 (List.mem_map.mpr ⟨d, hd, ek.symm⟩)
      simp only [hb, List.head?_cons, if_true, hrest, List.map_nil, List.append_nil]
      exact ih c (List.mem_cons_self ..) _
    · have hc : ¬ (some (firstByte c.key) = (b :: p).head?) := by
        simp only [List.head?_cons, Option.some.injEq]; exact hb
      simp only [hc, if_false, filter_miss_node hwc hb, List.map_nil, List.nil_append]
      rw [← kindsOf_eq_map] at hnd
      exact search_filter_kids b p cs hws hnd.2 (fun d hd => ih d (List.mem_cons_of_mem _ hd))

theorem filter_map_pre (k : List Tok) (q : Bytes) (S : Spec.SufSet) :
    ((S.map (pre k)).filter (hitsP (render k ++ q))) = (S.filter (hitsP q)).map (pre k) := by
  rw [List.filter_map]
  congr 1
  apply List.filter_congr
  intro sr _
  simp only [Function.comp, hitsP, pre, render_app, isPrefixOf_app_long]

/-- **search = filter, one node.** Searching the byte string `p` from a well-formed node and iterating the node
    found yields, in order, the routes below the node whose rendered pattern suffix starts with `p`; the search
    fails exactly when there is none. Covers `p` ending exactly at a key end, in the middle of a key (also in the
    middle of the rendering `{name}` of a wildcard token), and `p` leaving the key. -/
theorem search_filter_node (n : Node) : ∀ p : Bytes, wfNode n = true →
    foundRoutes (searchNode n p) = ((sufsNode n).filter (hitsP p)).map (·.2) := by
  induction n using Node.ind with
  | h key route cs ih =>
    intro p hwf
    have hwf' := hwf
    rw [wfNode_iff] at hwf'
    obtain ⟨hkne, hkok, hnd, _, hkids⟩ := hwf'
    unfold searchNode
    simp only []
    by_cases hlen : p.length ≤ (render key).length
    · simp only [hlen, if_true]
      have hall : ∀ sr ∈ sufsNode (.mk key route cs), hitsP p sr = p.isPrefixOf (render key) := by
        intro sr hsr
        obtain ⟨s, hs⟩ := sufsNode_key key route cs sr hsr
        simp only [hitsP, hs, render_app]
        exact isPrefixOf_app_short p (render key) (render s) hlen
      by_cases hp : (render key).take p.length = p
      · simp only [hp, if_true, foundRoutes]
        rw [List.filter_eq_self.mpr, routesNode_eq]
        intro sr hsr
        rw [hall sr hsr]; exact (isPrefixOf_iff_take p _).mpr hp
      · simp only [hp, if_false, foundRoutes]
        rw [List.filter_eq_nil_iff.mpr]
        · rfl
        · intro sr hsr
          rw [hall sr hsr]
          intro e; exact hp ((isPrefixOf_iff_take p _).mp e)
    · simp only [hlen, if_false]
      have hlen' : (render key).length ≤ p.length := by omega
      by_cases hp : p.take (render key).length = render key
      · simp only [hp, if_true]
        -- p = render key ++ q with q ≠ []
        have hsplit : p = render key ++ p.drop (render key).length := by
          conv => lhs; rw [← List.take_append_drop (render key).length p, hp]
        generalize hq : p.drop (render key).length = q at hsplit ⊢
        have hqne : q ≠ [] := by
          intro e
          rw [e, List.append_nil] at hsplit
          rw [hsplit] at hlen; exact hlen (Nat.le_refl _)
        subst hsplit
        rw [sufsNode_own, List.filter_append, filter_map_pre]
        have hown : (own key route).filter (hitsP (render key ++ q)) = [] := by
          rw [List.filter_eq_nil_iff]
          intro sr hsr
          cases route with
          | none => simp [own] at hsr
          | some x =>
            simp only [own, List.mem_singleton] at hsr; subst hsr
            have := isPrefixOf_app_long (render key) q []
            rw [List.append_nil] at this
            simp only [hitsP, this]
            cases q with
            | nil => exact absurd rfl hqne
            | cons b q' => simp
        rw [hown, List.nil_append, List.map_map]
        cases q with
        | nil => exact absurd rfl hqne
        | cons b q' =>
          rw [search_filter_kids b q' cs hkids hnd (fun c hc r => ih c hc r (wfKids_mem hkids hc))]
          apply List.map_congr_left
          intro sr _
          rfl
      · simp only [hp, if_false, foundRoutes]
        rw [List.filter_eq_nil_iff.mpr]
        · rfl
        · intro sr hsr
          obtain ⟨s, hs⟩ := sufsNode_key key route cs sr hsr
          simp only [hitsP, hs, render_app, isPrefixOf_app_miss (render s) hlen' hp]
          exact Bool.false_ne_true

theorem map_pre_nil (S : Spec.SufSet) : S.map (pre []) = S := by
  conv => rhs; rw [← List.map_id S]
  apply List.map_congr_left
  intro sr _
  simp [pre]

/-- **search = filter, from a method root** (whose own key, the method name, is not part of the pattern). -/
theorem search_filter_root {root : Node} (hwf : wfRoot root = true) (p : Bytes) :
    foundRoutes (searchRoot root p) = ((sufsNode root).filter (hitsP p)).map (·.2) := by
  obtain ⟨key, route, cs⟩ := root
  obtain ⟨rfl, rfl, hnd, hwk⟩ := (wfRoot_iff _ _ _).mp hwf
  unfold searchRoot
  cases p with
  | nil =>
    simp only [if_true, foundRoutes, filter_hitsP_nil]
    exact routesNode_eq _
  | cons b q =>
    have : ¬ (b :: q = []) := by simp
    simp only [this, if_false, Node.children_mk]
    rw [sufsNode_own]
    simp only [own, List.nil_append, map_pre_nil]
    exact search_filter_kids b q cs hwk hnd (fun c hc r => search_filter_node c r (wfKids_mem hwk hc))

end Fox.Model
