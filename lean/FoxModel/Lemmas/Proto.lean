import FoxModel.Model.Proto
/-
  FoxModel.Lemmas.Proto — the inductive invariant of the protocol model (used by C04, C05, C06).
-/
namespace Fox.Model.Proto
variable {σ : Type}

/-- every suffix of a canonical program -/
def suffixes : List (List Act) :=
  [[], [.ret], [.load, .ret], [.unlock, .ret], [.store, .unlock, .ret], [.localOps, .store, .unlock, .ret],
   [.load, .localOps, .store, .unlock, .ret], [.lock, .load, .localOps, .store, .unlock, .ret],
   [.localOps, .unlock, .ret], [.load, .localOps, .unlock, .ret], [.lock, .load, .localOps, .unlock, .ret]]

theorem isProg_mem_suffixes {p : List Act} (h : IsProg p) : p ∈ suffixes := by
  rcases h with h | h | h <;> subst h <;> decide

/-- the inductive invariant -/
structure Inv (v0 : σ) (s : State σ) : Prop where
  wf : ∀ i, (s.thr i).pc ∈ suffixes
  mutex : ∀ i, inCrit (s.thr i).pc = true ↔ s.mu = some i
  sees : ∀ i, (s.thr i).pc.head? = some .localOps → (s.thr i).seen = some s.pub
  works : ∀ i, (s.thr i).pc.head? = some .store → (s.thr i).work = some ((s.thr i).f s.pub.2)
  pubLog : s.pub = ((commits s).length, replay v0 (commits s))
  seenOk : ∀ i ver v, (s.thr i).seen = some (ver, v) →
    ∃ k, ver = ((commits s).drop k).length ∧ v = replay v0 ((commits s).drop k)
  loadsLe : ∀ v ∈ loadVers s, v ≤ s.pub.1
  loadsMono : (loadVers s).Pairwise (· ≥ ·)

theorem setThr_same (s : State σ) (i : Tid) (l : Local σ) : s.setThr i l i = l := by simp [State.setThr]
theorem setThr_other (s : State σ) {i j : Tid} (l : Local σ) (h : j ≠ i) : s.setThr i l j = s.thr j := by
  simp [State.setThr, h]

theorem exec_thr_other (s : State σ) {i j : Tid} (h : j ≠ i) : (exec s i).thr j = s.thr j := by
  unfold exec
  split
  · rfl
  all_goals ((try split) <;> simp [setThr_other _ _ h])

theorem invoke_thr_other (s : State σ) {i j : Tid} (p : List Act) (f : σ → σ) (h : j ≠ i) :
    (invoke s i p f).thr j = s.thr j := by
  simp [invoke, setThr_other _ _ h]

theorem inv_init (v0 : σ) : Inv v0 (init v0) := by
  refine ⟨?_, ?_, ?_, ?_, ?_, ?_, ?_, ?_⟩ <;> simp [init, suffixes, inCrit, commits, replay, loadVers]

/-- threads outside the critical section cannot be at a `store`, `unlock` or `localOps` -/
theorem head_of_not_crit {pc : List Act} (hw : pc ∈ suffixes) (hc : inCrit pc = false) :
    pc.head? ≠ some .store ∧ pc.head? ≠ some .unlock ∧ pc.head? ≠ some .localOps := by
  simp [suffixes] at hw
  rcases hw with h | h | h | h | h | h | h | h | h | h | h <;> subst h <;> simp [inCrit] at hc ⊢

theorem inv_call {v0 : σ} {s : State σ} (h : Inv v0 s) (i : Tid) (p : List Act) (f : σ → σ)
    (hidle : (s.thr i).pc = []) (hp : IsProg p) : Inv v0 (invoke s i p f) := by
  have hmu : s.mu ≠ some i := by
    intro hm
    have := (h.mutex i).2 hm
    simp [hidle, inCrit] at this
  have hpc : inCrit p = false := by
    rcases hp with hp | hp | hp <;> subst hp <;> decide
  have hhead : p.head? ≠ some .localOps ∧ p.head? ≠ some .store := by
    rcases hp with hp | hp | hp <;> subst hp <;> decide
  refine ⟨?_, ?_, ?_, ?_, ?_, ?_, ?_, ?_⟩
  · intro j
    by_cases hj : j = i
    · subst hj; simp [invoke, setThr_same]; exact isProg_mem_suffixes hp
    · rw [invoke_thr_other _ _ _ hj]; exact h.wf j
  · intro j
    by_cases hj : j = i
    · subst hj
      simp only [invoke, setThr_same, hpc]
      constructor
      · intro hh; cases hh
      · intro hh; exact absurd hh hmu
    · rw [invoke_thr_other _ _ _ hj]; exact h.mutex j
  · intro j
    by_cases hj : j = i
    · subst hj; simp only [invoke, setThr_same]; intro hh; exact absurd hh hhead.1
    · rw [invoke_thr_other _ _ _ hj]; exact h.sees j
  · intro j
    by_cases hj : j = i
    · subst hj; simp only [invoke, setThr_same]; intro hh; exact absurd hh hhead.2
    · rw [invoke_thr_other _ _ _ hj]; exact h.works j
  · exact h.pubLog
  · intro j ver v
    by_cases hj : j = i
    · subst hj; simp [invoke, setThr_same]
    · rw [invoke_thr_other _ _ _ hj]; exact h.seenOk j ver v
  · exact h.loadsLe
  · exact h.loadsMono


theorem suf_tail {a : Act} {r : List Act} (h : a :: r ∈ suffixes) : r ∈ suffixes := by
  simp [suffixes] at h
  rcases h with h | h | h | h | h | h | h | h | h | h <;> obtain ⟨rfl, rfl⟩ := h <;> decide

theorem suf_lock {r : List Act} (h : .lock :: r ∈ suffixes) :
    inCrit r = true ∧ r.head? ≠ some .localOps ∧ r.head? ≠ some .store := by
  simp [suffixes] at h
  rcases h with h | h <;> subst h <;> decide

theorem suf_load {r : List Act} (h : .load :: r ∈ suffixes) :
    inCrit r = inCrit (.load :: r) ∧ r.head? ≠ some .store := by
  simp [suffixes] at h
  rcases h with h | h | h <;> subst h <;> decide

theorem suf_localOps {r : List Act} (h : .localOps :: r ∈ suffixes) :
    inCrit r = true ∧ inCrit (.localOps :: r) = true ∧ r.head? ≠ some .localOps := by
  simp [suffixes] at h
  rcases h with h | h <;> subst h <;> decide

theorem suf_store {r : List Act} (h : .store :: r ∈ suffixes) : r = [.unlock, .ret] := by
  simp [suffixes] at h
  exact h

theorem suf_unlock {r : List Act} (h : .unlock :: r ∈ suffixes) : r = [.ret] := by
  simp [suffixes] at h
  exact h

theorem suf_ret {r : List Act} (h : .ret :: r ∈ suffixes) : r = [] := by
  simp [suffixes] at h
  exact h

theorem exec_lock {s : State σ} {i : Tid} {r : List Act} (h : (s.thr i).pc = .lock :: r) :
    exec s i = { s with mu := some i, thr := s.setThr i { s.thr i with pc := r } } := by
  simp only [exec, h]

theorem exec_load {s : State σ} {i : Tid} {r : List Act} (h : (s.thr i).pc = .load :: r) :
    exec s i = { s with thr := s.setThr i { s.thr i with pc := r, seen := some s.pub },
                        hist := .loaded i s.pub.1 :: s.hist } := by
  simp only [exec, h]

theorem exec_localOps {s : State σ} {i : Tid} {r : List Act} (h : (s.thr i).pc = .localOps :: r) :
    exec s i = { s with thr := s.setThr i { s.thr i with pc := r, work := (s.thr i).seen.map fun p => (s.thr i).f p.2 } } := by
  simp only [exec, h]

theorem exec_store {s : State σ} {i : Tid} {r : List Act} {v : σ} (h : (s.thr i).pc = .store :: r)
    (hwk : (s.thr i).work = some v) :
    exec s i = { s with pub := (s.pub.1 + 1, v), thr := s.setThr i { s.thr i with pc := r },
                        hist := .stored i (s.pub.1 + 1) (s.thr i).f :: s.hist } := by
  simp only [exec, h, hwk]

theorem exec_unlock {s : State σ} {i : Tid} {r : List Act} (h : (s.thr i).pc = .unlock :: r) :
    exec s i = { s with mu := none, thr := s.setThr i { s.thr i with pc := r } } := by
  simp only [exec, h]

theorem exec_ret {s : State σ} {i : Tid} {r : List Act} (h : (s.thr i).pc = .ret :: r) :
    exec s i = { s with thr := s.setThr i { s.thr i with pc := r },
                        hist := .returned i ((s.thr i).seen.map (·.1)) :: s.hist } := by
  simp only [exec, h]

/-- a thread whose next action is `store`, `unlock` or `localOps` holds the mutex -/
theorem holder_of_head {v0 : σ} {s : State σ} (h : Inv v0 s) (j : Tid)
    (hh : (s.thr j).pc.head? = some .store ∨ (s.thr j).pc.head? = some .unlock ∨ (s.thr j).pc.head? = some .localOps) :
    s.mu = some j := by
  apply (h.mutex j).1
  cases hc : inCrit (s.thr j).pc with
  | true => rfl
  | false =>
    have := head_of_not_crit (h.wf j) hc
    rcases hh with hh | hh | hh <;> simp_all

theorem inv_act {v0 : σ} {s : State σ} (h : Inv v0 s) (i : Tid) (he : enabled s i = true) : Inv v0 (exec s i) := by
  have hw := h.wf i
  have hoth : ∀ j, j ≠ i → (exec s i).thr j = s.thr j := fun j hj => exec_thr_other s hj
  cases hpc : (s.thr i).pc with
  | nil => simp [enabled, hpc] at he
  | cons a r =>
    rw [hpc] at hw
    have hr := suf_tail hw
    cases a with
    | lock =>
      have hmu : s.mu = none := by simpa [enabled, hpc] using he
      obtain ⟨hc, hl, hs⟩ := suf_lock hw
      have hE := exec_lock hpc
      refine ⟨?_, ?_, ?_, ?_, ?_, ?_, ?_, ?_⟩
      · intro j; by_cases hj : j = i
        · subst hj; rw [hE]; simpa [setThr_same] using hr
        · rw [hoth j hj]; exact h.wf j
      · intro j; by_cases hj : j = i
        · subst hj; rw [hE]; simp [setThr_same, hc]
        · rw [hoth j hj, hE]
          have := h.mutex j
          rw [hmu] at this
          constructor
          · intro hh; exact absurd (this.1 hh) (by simp)
          · intro hh; simp at hh; exact absurd hh.symm hj
      · intro j; by_cases hj : j = i
        · subst hj; rw [hE]; simp only [setThr_same]; intro hh; exact absurd hh hl
        · rw [hoth j hj, hE]; exact h.sees j
      · intro j; by_cases hj : j = i
        · subst hj; rw [hE]; simp only [setThr_same]; intro hh; exact absurd hh hs
        · rw [hoth j hj, hE]; exact h.works j
      · rw [hE]; exact h.pubLog
      · intro j ver v; by_cases hj : j = i
        · subst hj; rw [hE]; simp only [setThr_same]; exact h.seenOk j ver v
        · rw [hoth j hj, hE]; exact h.seenOk j ver v
      · rw [hE]; exact h.loadsLe
      · rw [hE]; exact h.loadsMono
    | load =>
      obtain ⟨hc, hs⟩ := suf_load hw
      have hE := exec_load hpc
      have hcm : commits (exec s i) = commits s := by rw [hE]; simp [commits]
      have hlv : loadVers (exec s i) = s.pub.1 :: loadVers s := by rw [hE]; simp [loadVers]
      refine ⟨?_, ?_, ?_, ?_, ?_, ?_, ?_, ?_⟩
      · intro j; by_cases hj : j = i
        · subst hj; rw [hE]; simpa [setThr_same] using hr
        · rw [hoth j hj]; exact h.wf j
      · intro j; by_cases hj : j = i
        · subst hj; rw [hE]; simp only [setThr_same, hc]; have := h.mutex j; rw [hpc] at this; exact this
        · rw [hoth j hj, hE]; exact h.mutex j
      · intro j; by_cases hj : j = i
        · subst hj; rw [hE]; simp [setThr_same]
        · rw [hoth j hj, hE]; exact h.sees j
      · intro j; by_cases hj : j = i
        · subst hj; rw [hE]; simp only [setThr_same]; intro hh; exact absurd hh hs
        · rw [hoth j hj, hE]; exact h.works j
      · rw [hcm, hE]; exact h.pubLog
      · intro j ver v; by_cases hj : j = i
        · subst hj; rw [hcm, hE]; simp only [setThr_same]
          intro hh
          refine ⟨0, ?_, ?_⟩
          · have := h.pubLog; simp at hh; rw [this] at hh; simp at hh; simp [← hh.1]
          · have := h.pubLog; simp at hh; rw [this] at hh; simp at hh; simp [← hh.2]
        · rw [hoth j hj, hcm]; exact h.seenOk j ver v
      · rw [hlv, hE]; intro v hv
        simp at hv
        rcases hv with hv | hv
        · subst hv; exact Nat.le_refl _
        · exact h.loadsLe v hv
      · rw [hlv]
        refine List.Pairwise.cons ?_ h.loadsMono
        intro v hv; exact h.loadsLe v hv
    | localOps =>
      obtain ⟨hc, hc', hl⟩ := suf_localOps hw
      have hE := exec_localOps hpc
      have hsee := h.sees i (by simp [hpc])
      refine ⟨?_, ?_, ?_, ?_, ?_, ?_, ?_, ?_⟩
      · intro j; by_cases hj : j = i
        · subst hj; rw [hE]; simpa [setThr_same] using hr
        · rw [hoth j hj]; exact h.wf j
      · intro j; by_cases hj : j = i
        · subst hj; rw [hE]; simp only [setThr_same, hc]; have := h.mutex j; rw [hpc, hc'] at this; simpa using this
        · rw [hoth j hj, hE]; exact h.mutex j
      · intro j; by_cases hj : j = i
        · subst hj; rw [hE]; simp only [setThr_same]; intro hh; exact absurd hh hl
        · rw [hoth j hj, hE]; exact h.sees j
      · intro j; by_cases hj : j = i
        · subst hj; rw [hE]; simp [setThr_same, hsee]
        · rw [hoth j hj, hE]; exact h.works j
      · rw [hE]; exact h.pubLog
      · intro j ver v; by_cases hj : j = i
        · subst hj; rw [hE]; simp only [setThr_same]; exact h.seenOk j ver v
        · rw [hoth j hj, hE]; exact h.seenOk j ver v
      · rw [hE]; exact h.loadsLe
      · rw [hE]; exact h.loadsMono
    | store =>
      have hrr := suf_store hw
      subst hrr
      have hwk := h.works i (by simp [hpc])
      have hE := exec_store hpc hwk
      have hmu : s.mu = some i := holder_of_head h i (Or.inl (by simp [hpc]))
      have hcm : commits (exec s i) = (s.thr i).f :: commits s := by rw [hE]; simp [commits]
      have hlv : loadVers (exec s i) = loadVers s := by rw [hE]; simp [loadVers]
      refine ⟨?_, ?_, ?_, ?_, ?_, ?_, ?_, ?_⟩
      · intro j; by_cases hj : j = i
        · subst hj; rw [hE]; simpa [setThr_same] using hr
        · rw [hoth j hj]; exact h.wf j
      · intro j; by_cases hj : j = i
        · subst hj; rw [hE]; simp [setThr_same, inCrit, hmu]
        · rw [hoth j hj, hE]; exact h.mutex j
      · intro j; by_cases hj : j = i
        · subst hj; rw [hE]; simp [setThr_same]
        · rw [hoth j hj]; intro hh
          have := holder_of_head h j (Or.inr (Or.inr hh))
          rw [hmu] at this; simp at this; exact absurd this.symm hj
      · intro j; by_cases hj : j = i
        · subst hj; rw [hE]; simp [setThr_same]
        · rw [hoth j hj]; intro hh
          have := holder_of_head h j (Or.inl hh)
          rw [hmu] at this; simp at this; exact absurd this.symm hj
      · rw [hcm, hE]
        have := h.pubLog
        simp [replay] at this ⊢
        rw [this]; simp [replay]
      · intro j ver v hh
        have hold : (s.thr j).seen = some (ver, v) := by
          by_cases hj : j = i
          · subst hj; rw [hE] at hh; simpa [setThr_same] using hh
          · rw [hoth j hj] at hh; exact hh
        obtain ⟨k, hk1, hk2⟩ := h.seenOk j ver v hold
        exact ⟨k + 1, by rw [hcm]; simpa using hk1, by rw [hcm]; simpa using hk2⟩
      · rw [hlv, hE]; intro v hv; have := h.loadsLe v hv; simp; omega
      · rw [hlv]; exact h.loadsMono
    | unlock =>
      have hrr := suf_unlock hw
      subst hrr
      have hE := exec_unlock hpc
      have hmu : s.mu = some i := holder_of_head h i (Or.inr (Or.inl (by simp [hpc])))
      refine ⟨?_, ?_, ?_, ?_, ?_, ?_, ?_, ?_⟩
      · intro j; by_cases hj : j = i
        · subst hj; rw [hE]; simpa [setThr_same] using hr
        · rw [hoth j hj]; exact h.wf j
      · intro j; by_cases hj : j = i
        · subst hj; rw [hE]; simp [setThr_same, inCrit]
        · rw [hoth j hj, hE]
          have := h.mutex j
          rw [hmu] at this
          constructor
          · intro hh; have := this.1 hh; simp at this; exact absurd this.symm hj
          · intro hh; simp at hh
      · intro j; by_cases hj : j = i
        · subst hj; rw [hE]; simp [setThr_same]
        · rw [hoth j hj, hE]; exact h.sees j
      · intro j; by_cases hj : j = i
        · subst hj; rw [hE]; simp [setThr_same]
        · rw [hoth j hj, hE]; exact h.works j
      · rw [hE]; exact h.pubLog
      · intro j ver v; by_cases hj : j = i
        · subst hj; rw [hE]; simp only [setThr_same]; exact h.seenOk j ver v
        · rw [hoth j hj, hE]; exact h.seenOk j ver v
      · rw [hE]; exact h.loadsLe
      · rw [hE]; exact h.loadsMono
    | ret =>
      have hrr := suf_ret hw
      subst hrr
      have hE := exec_ret hpc
      have hcm : commits (exec s i) = commits s := by rw [hE]; simp [commits]
      have hlv : loadVers (exec s i) = loadVers s := by rw [hE]; simp [loadVers]
      refine ⟨?_, ?_, ?_, ?_, ?_, ?_, ?_, ?_⟩
      · intro j; by_cases hj : j = i
        · subst hj; rw [hE]; simpa [setThr_same] using hr
        · rw [hoth j hj]; exact h.wf j
      · intro j; by_cases hj : j = i
        · subst hj; rw [hE]; simp only [setThr_same]; have := h.mutex j; rw [hpc] at this; simpa [inCrit] using this
        · rw [hoth j hj, hE]; exact h.mutex j
      · intro j; by_cases hj : j = i
        · subst hj; rw [hE]; simp [setThr_same]
        · rw [hoth j hj, hE]; exact h.sees j
      · intro j; by_cases hj : j = i
        · subst hj; rw [hE]; simp [setThr_same]
        · rw [hoth j hj, hE]; exact h.works j
      · rw [hcm, hE]; exact h.pubLog
      · intro j ver v; by_cases hj : j = i
        · subst hj; rw [hcm, hE]; simp only [setThr_same]; exact h.seenOk j ver v
        · rw [hoth j hj, hcm]; exact h.seenOk j ver v
      · rw [hlv, hE]; exact h.loadsLe
      · rw [hlv]; exact h.loadsMono

theorem inv_reach {v0 : σ} {s : State σ} (h : Reach v0 s) : Inv v0 s := by
  induction h with
  | init => exact inv_init v0
  | act i _ he ih => exact inv_act ih i he
  | call i p f _ hidle hp ih => exact inv_call ih i p f hidle hp

end Fox.Model.Proto
