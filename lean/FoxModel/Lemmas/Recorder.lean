import FoxModel.Model.Recorder
import FoxModel.Spec.Recorder
/-
  Helper lemmas for property C14: the invariant tying the recorder's fields to the summary of the ghost log, and its
  preservation by every operation of the model.
-/
namespace Fox.Recorder
open Fox.Recorder.Spec

theorem observe_snoc (l : List Ev) (e : Ev) : observe (l ++ [e]) = (observe l).step e := by
  simp [observe, List.foldl_append]

/-- invariant between recorder fields (size, status) and the underlying writer -/
def InvU (size : Int) (status : Nat) (u : Under) : Prop :=
  (observe u.log).lateFinal = false ∧
  (size = -1 → status = 200 ∧ (observe u.log).first = none ∧ (observe u.log).bytes = 0 ∧
      (observe u.log).finals = 0 ∧ u.wrote = false) ∧
  (size ≠ -1 → 0 ≤ size ∧ (observe u.log).first = some status ∧ ((observe u.log).bytes : Int) = size ∧
      (observe u.log).finals = 1 ∧ u.wrote = true)

def Inv (s : St) : Prop := InvU s.r.size s.r.status s.u

theorem inv_init (k : Option Nat) : Inv (init k) := by
  simp [Inv, InvU, init, observe]

/-- a non-header, non-body event changes nothing -/
def Ev.neutral : Ev → Bool
  | .hdr _ => false | .body _ => false | _ => true

theorem observe_emit_neutral (u : Under) (e : Ev) (h : e.neutral = true) :
    observe (u.emit e).log = observe u.log := by
  simp only [Under.emit, observe_snoc]
  cases e <;> simp_all [Ev.neutral, Obs.step]

theorem invU_emit_neutral {sz st} {u : Under} (e : Ev) (h : e.neutral = true) (hi : InvU sz st u) :
    InvU sz st (u.emit e) := by
  unfold InvU at *
  rw [observe_emit_neutral u e h]
  simpa [Under.emit] using hi

theorem invU_ct {sz st} {u : Under} (c : CT) (hi : InvU sz st u) : InvU sz st { u with ct := c } := by
  simpa [InvU] using hi

theorem invU_hijacked {sz st} {u : Under} (b : Bool) (hi : InvU sz st u) : InvU sz st { u with hijacked := b } := by
  simpa [InvU] using hi

/-- an informational header changes nothing -/
theorem invU_hdr_info {sz st} {u : Under} (c : Nat) (hc : isFinal c = false) (hi : InvU sz st u) :
    InvU sz st (u.writeHeader c) := by
  unfold InvU at *
  simp only [Under.writeHeader, Under.emit, observe_snoc, Obs.step, hc]
  simpa using hi

/-- first final header on a fresh response -/
theorem invU_hdr_final {st} {u : Under} (c : Nat) (hc : isFinal c = true) (hi : InvU (-1) st u) :
    InvU 0 c (u.writeHeader c) := by
  unfold InvU at *
  obtain ⟨h1, h2, _⟩ := hi
  obtain ⟨_, hf, hb, hn, _⟩ := h2 rfl
  simp [Under.writeHeader, Under.emit, observe_snoc, Obs.step, hc, h1, hf, hb, hn]

theorem invU_take {sz st} {u : Under} (a : Nat) (hsz : sz ≠ -1) (hi : InvU sz st u) :
    InvU (sz + a) st (u.take a) := by
  unfold InvU at *
  obtain ⟨h1, _, h3⟩ := hi
  obtain ⟨h0, hf, hb, hn, hw⟩ := h3 hsz
  unfold Under.take
  by_cases ha : a > 0
  · simp only [ha, ↓reduceIte, Under.emit, observe_snoc, Obs.step]
    refine ⟨h1, ?_, ?_⟩
    · intro h; omega
    · intro _; refine ⟨by omega, hf, ?_, hn, hw⟩
      simp only [Int.natCast_add]; omega
  · have : a = 0 := by omega
    subst this
    simp only [Nat.lt_irrefl, ↓reduceIte]
    refine ⟨h1, ?_, ?_⟩
    · intro h; simp at h; exact absurd h hsz
    · intro _; exact ⟨by simpa using h0, hf, by simpa using hb, hn, hw⟩

theorem writeHeader_inv {s : St} (c : Nat) (hi : Inv s) : Inv (writeHeader s c).1 := by
  unfold writeHeader
  split
  · exact hi
  · split
    · exact hi
    · rename_i _ hs
      have hs : s.r.size = -1 := by simpa using hs
      split
      · rename_i hc
        have : isFinal c = false := by
          simp [isFinal]; omega
        exact invU_hdr_info c this hi
      · rename_i hc
        have : isFinal c = true := by
          simp [isFinal]; omega
        unfold Inv at *
        rw [hs] at hi
        exact invU_hdr_final c this hi

theorem under_write_inv {sz st} {u : Under} (n : Nat) (hsz : sz ≠ -1) (hi : InvU sz st u) :
    InvU (sz + (u.write n).2.1) st (u.write n).1 := by
  unfold Under.write
  split
  · simpa using hi
  · have hw : u.wrote = true := (hi.2.2 hsz).2.2.2.2
    simp only [hw, ↓reduceIte]
    exact invU_take _ hsz hi

theorem write_inv {s : St} (n : Nat) (hi : Inv s) : Inv (write s n).1 := by
  unfold write
  split
  · exact hi
  · by_cases hs : s.r.size = -1
    · simp only [hs, ↓reduceIte]
      unfold Inv at *
      rw [hs] at hi
      have hst : s.r.status = 200 := (hi.2.1 rfl).1
      have h200 : isFinal s.r.status = true := by rw [hst]; decide
      have := invU_hdr_final s.r.status h200 hi
      exact under_write_inv n (by decide) this
    · simp only [hs, ↓reduceIte]
      exact under_write_inv n hs hi

theorem write_hijacked (s : St) (n : Nat) : (write s n).1.r.hijacked = s.r.hijacked := by
  unfold write
  split
  · rfl
  · by_cases h : s.r.size = -1 <;> simp [h]

theorem copyFallback_inv (cs : List Nat) (e : Bool) : ∀ {s : St}, Inv s → Inv (copyFallback s cs e).1 := by
  induction cs with
  | nil => intro s hi; simpa [copyFallback] using hi
  | cons c cs ih =>
    intro s hi
    unfold copyFallback
    split
    · exact ih hi
    · have hw := write_inv c hi
      generalize write s c = w at hw
      obtain ⟨s', nw, ew⟩ := w
      simp only
      split
      · exact hw
      · split
        · exact hw
        · exact ih hw

/-- the recorder's size update after the fast path -/
def bump (sz : Int) (n : Nat) : Int := if n > 0 then (if sz = -1 then 0 else sz) + n else sz

theorem bump_bump (sz : Int) (a n : Nat) (h : sz = -1 ∨ 0 ≤ sz) : bump (bump sz a) n = bump sz (a + n) := by
  unfold bump
  by_cases ha : a > 0 <;> by_cases hn : n > 0 <;> simp [ha, hn] <;> (try split) <;> (try split) <;> omega

theorem invU_range {sz st} {u : Under} (hi : InvU sz st u) : sz = -1 ∨ 0 ≤ sz := by
  by_cases h : sz = -1
  · exact Or.inl h
  · exact Or.inr (hi.2.2 h).1

/-- one accepted chunk on the underlying ReadFrom path -/
theorem under_chunk_inv {sz st} {u : Under} (a : Nat) (hi : InvU sz st u) :
    InvU (bump sz a) st ((if (decide (a > 0) && !u.wrote) = true then u.writeHeader 200 else u).take a) := by
  by_cases ha : a > 0
  · by_cases hs : sz = -1
    · subst hs
      have hw : u.wrote = false := (hi.2.1 rfl).2.2.2.2
      have hst : st = 200 := (hi.2.1 rfl).1
      subst hst
      simp only [ha, hw, decide_true, Bool.not_false, Bool.and_self, ↓reduceIte, bump]
      have := invU_hdr_final 200 (by decide) hi
      exact invU_take a (by decide) this
    · have hw : u.wrote = true := (hi.2.2 hs).2.2.2.2
      simp only [hw, Bool.not_true, Bool.and_false, Bool.false_eq_true, ↓reduceIte, bump, ha, hs]
      exact invU_take a hs hi
  · have : a = 0 := by omega
    subst this
    simp only [Nat.lt_irrefl, decide_false, Bool.false_and, Bool.false_eq_true, ↓reduceIte, bump, Under.take]
    simpa [InvU] using hi

theorem under_readFrom_inv (cs : List Nat) (e : Bool) : ∀ {sz st} {u : Under}, InvU sz st u →
    InvU (bump sz (u.readFrom cs e).2.1) st (u.readFrom cs e).1 := by
  induction cs with
  | nil => intro sz st u hi; simpa [Under.readFrom, bump] using hi
  | cons c cs ih =>
    intro sz st u hi
    unfold Under.readFrom
    split
    · exact ih hi
    · split
      · simpa [bump] using hi
      · have hc := under_chunk_inv (accept u.budget c) hi
        simp only
        split
        · exact hc
        · have := ih hc
          rw [bump_bump _ _ _ (invU_range hi)] at this
          exact this

theorem readFrom_inv (sh : Shape) {s : St} (cs : List Nat) (e : Bool) (hi : Inv s) : Inv (readFrom sh s cs e).1 := by
  unfold readFrom
  split
  · have := under_readFrom_inv cs e hi
    simp only [Inv]
    simp only [bump] at this
    split <;> simp_all
  · exact copyFallback_inv cs e hi

theorem flushError_inv (sh : Shape) {s : St} (hi : Inv s) : Inv (flushError sh s).1 := by
  unfold flushError
  split
  · split
    · exact invU_emit_neutral (sz := (writeHeader s s.r.status).1.r.size) .flushE rfl (writeHeader_inv _ hi)
    · exact invU_emit_neutral .flushE rfl hi
  · split
    · split
      · exact invU_emit_neutral (sz := (writeHeader s s.r.status).1.r.size) .flush rfl (writeHeader_inv _ hi)
      · exact invU_emit_neutral .flush rfl hi
    · exact hi

theorem setCT_inv {s : St} (c : CT) (hi : Inv s) : Inv (setCT s c) := invU_ct c hi

theorem step_inv (sh : Shape) {s : St} (c : Call) (hi : Inv s) : Inv (step sh s c).1 := by
  cases c with
  | wh code => exact writeHeader_inv code hi
  | wr n => exact write_inv n hi
  | ws n => exact write_inv n hi
  | rf cs e => exact readFrom_inv sh cs e hi
  | fl => exact flushError_inv sh hi
  | hj =>
    simp only [step, hijack]
    split
    · exact invU_hijacked true (invU_emit_neutral .hijack rfl hi)
    · exact hi
  | pu => simp only [step, push]; split; exact invU_emit_neutral .push rfl hi; exact hi
  | rd => simp only [step, setReadDeadline]; split; exact invU_emit_neutral .rdl rfl hi; exact hi
  | wd => simp only [step, setWriteDeadline]; split; exact invU_emit_neutral .wdl rfl hi; exact hi
  | fd => simp only [step, enableFullDuplex]; split; exact invU_emit_neutral .fdx rfl hi; exact hi
  | str code n =>
    simp only [step]
    split
    · exact write_inv n (writeHeader_inv code (setCT_inv _ hi))
    · exact write_inv n (writeHeader_inv code hi)
  | blob code n => exact write_inv n (writeHeader_inv code (setCT_inv _ hi))
  | stream code cs e => exact readFrom_inv sh cs e (writeHeader_inv code (setCT_inv _ hi))
  | redir code len =>
    simp only [step]
    split
    · exact hi
    · split
      · exact write_inv len (writeHeader_inv code (setCT_inv _ hi))
      · exact writeHeader_inv code hi

theorem run_inv (sh : Shape) (cs : List Call) : ∀ {s : St}, Inv s → Inv (run sh s cs).1 := by
  induction cs with
  | nil => intro s hi; exact hi
  | cons c cs ih => intro s hi; simp only [run]; exact ih (step_inv sh c hi)


/-! ### the two ReadFrom paths agree -/

/-- extra invariant: recorder and underlying writer agree on "hijacked", and a writer that has not seen a final
    header still accepts at least one byte -/
def P (s : St) : Prop := s.r.hijacked = s.u.hijacked ∧ (s.r.size = -1 → s.u.budget ≠ some 0)

theorem take_hijacked (u : Under) (a : Nat) : (u.take a).hijacked = u.hijacked := by
  unfold Under.take; split <;> rfl
theorem take_zero_budget (u : Under) : (u.take 0).budget = u.budget := by
  unfold Under.take; cases h : u.budget <;> simp [h]

theorem writeHeader_P {s : St} (c : Nat) (hp : P s) : P (writeHeader s c).1 := by
  unfold writeHeader
  split
  · exact hp
  · split
    · exact hp
    · split
      · simpa [P, Under.writeHeader, Under.emit] using hp
      · simp only [P, Under.writeHeader, Under.emit]
        exact ⟨hp.1, by intro h; simp at h⟩

theorem write_size {s : St} (n : Nat) (hi : Inv s) (hh : s.r.hijacked = false) : (write s n).1.r.size ≠ -1 := by
  unfold write
  simp only [hh, Bool.false_eq_true, ↓reduceIte]
  by_cases hs : s.r.size = -1
  · simp only [hs, ↓reduceIte]; omega
  · have := (hi.2.2 hs).1
    simp only [hs, ↓reduceIte]; omega

theorem under_write_hijacked (u : Under) (n : Nat) : (u.write n).1.hijacked = u.hijacked := by
  unfold Under.write
  split
  · rfl
  · split <;> simp [take_hijacked, Under.writeHeader, Under.emit]

theorem write_P {s : St} (n : Nat) (hp : P s) (hi : Inv s) : P (write s n).1 := by
  by_cases hh : s.r.hijacked = true
  · unfold write; simp only [hh, ↓reduceIte]; exact hp
  · have hh : s.r.hijacked = false := by simpa using hh
    refine ⟨?_, fun h => absurd h (write_size n hi hh)⟩
    unfold write
    simp only [hh, Bool.false_eq_true, ↓reduceIte]
    by_cases hs : s.r.size = -1
    · simp only [hs, ↓reduceIte, under_write_hijacked, Under.writeHeader, Under.emit]
      rw [← hp.1, hh]
    · simp only [hs, ↓reduceIte, under_write_hijacked]
      rw [← hp.1, hh]

theorem copyFallback_P (cs : List Nat) (e : Bool) : ∀ {s : St}, P s → Inv s → P (copyFallback s cs e).1 := by
  induction cs with
  | nil => intro s hp _; simpa [copyFallback] using hp
  | cons c cs ih =>
    intro s hp hi
    unfold copyFallback
    split
    · exact ih hp hi
    · have hw := write_P c hp hi
      have hw' := write_inv c hi
      generalize write s c = w at hw hw'
      obtain ⟨s', nw, ew⟩ := w
      simp only
      split
      · exact hw
      · split
        · exact hw
        · exact ih hw hw'

theorem under_readFrom_hijacked (cs : List Nat) (e : Bool) : ∀ (u : Under), (u.readFrom cs e).1.hijacked = u.hijacked := by
  induction cs with
  | nil => intro u; rfl
  | cons c cs ih =>
    intro u
    unfold Under.readFrom
    split
    · exact ih u
    · split
      · rfl
      · simp only
        split
        · rw [take_hijacked]; split <;> simp [Under.writeHeader, Under.emit]
        · rw [ih, take_hijacked]; split <;> simp [Under.writeHeader, Under.emit]

theorem accept_pos {b : Option Nat} {c : Nat} (hb : b ≠ some 0) (hc : c ≠ 0) : accept b c > 0 := by
  unfold accept
  cases b with
  | none => simp; omega
  | some k => simp at hb; simp; omega

theorem accept_le (b : Option Nat) (c : Nat) : accept b c ≤ c := by
  unfold accept; cases b <;> simp; omega

/-- nothing accepted ⇒ the budget is untouched -/
theorem under_readFrom_zero (cs : List Nat) (e : Bool) : ∀ (u : Under), u.budget ≠ some 0 → u.wrote = false →
    (u.readFrom cs e).2.1 = 0 → (u.readFrom cs e).1.budget = u.budget := by
  induction cs with
  | nil => intro u _ _ _; rfl
  | cons c cs ih =>
    intro u hb hw h0
    unfold Under.readFrom at h0 ⊢
    split
    · rename_i hc; simp only [hc, ↓reduceIte] at h0; exact ih u hb hw h0
    · rename_i hc
      simp only [hc, ↓reduceIte] at h0
      split
      · rfl
      · rename_i hh
        simp only [hh, Bool.false_eq_true, ↓reduceIte] at h0
        have hpos := accept_pos hb hc
        split at h0
        · simp at h0; omega
        · simp at h0; omega

theorem readFrom_P (sh : Shape) {s : St} (cs : List Nat) (e : Bool) (hp : P s) (hi : Inv s) :
    P (readFrom sh s cs e).1 := by
  unfold readFrom
  split
  · refine ⟨?_, ?_⟩
    · simp only [under_readFrom_hijacked]
      split <;> exact hp.1
    · simp only
      split
      · rename_i hn
        intro h
        have h : (if s.r.size = -1 then 0 else s.r.size) + ((s.u.readFrom cs e).2.1 : Int) = -1 := h
        have := invU_range hi
        split at h <;> omega
      · rename_i hn
        intro h
        have hs : s.r.size = -1 := h
        have hn : (s.u.readFrom cs e).2.1 = 0 := Nat.eq_zero_of_not_pos hn
        rw [under_readFrom_zero cs e s.u (hp.2 hs) (hi.2.1 hs).2.2.2.2 hn]
        exact hp.2 hs
  · exact copyFallback_P cs e hp hi

theorem flushError_P (sh : Shape) {s : St} (hp : P s) : P (flushError sh s).1 := by
  unfold flushError
  split
  · split
    · have := writeHeader_P s.r.status hp; simpa [P, Under.emit] using this
    · simpa [P, Under.emit] using hp
  · split
    · split
      · have := writeHeader_P s.r.status hp; simpa [P, Under.emit] using this
      · simpa [P, Under.emit] using hp
    · exact hp

theorem setCT_P {s : St} (c : CT) (hp : P s) : P (setCT s c) := by simpa [P, setCT] using hp

theorem step_P (sh : Shape) {s : St} (c : Call) (hp : P s) (hi : Inv s) : P (step sh s c).1 := by
  cases c with
  | wh code => exact writeHeader_P code hp
  | wr n => exact write_P n hp hi
  | ws n => exact write_P n hp hi
  | rf cs e => exact readFrom_P sh cs e hp hi
  | fl => exact flushError_P sh hp
  | hj =>
    simp only [step, hijack]
    split
    · exact ⟨rfl, by simpa [Under.emit] using hp.2⟩
    · exact hp
  | pu => simp only [step, push]; split; (simpa [P, Under.emit] using hp); exact hp
  | rd => simp only [step, setReadDeadline]; split; (simpa [P, Under.emit] using hp); exact hp
  | wd => simp only [step, setWriteDeadline]; split; (simpa [P, Under.emit] using hp); exact hp
  | fd => simp only [step, enableFullDuplex]; split; (simpa [P, Under.emit] using hp); exact hp
  | str code n =>
    simp only [step]
    split
    · exact write_P n (writeHeader_P code (setCT_P _ hp)) (writeHeader_inv code (setCT_inv _ hi))
    · exact write_P n (writeHeader_P code hp) (writeHeader_inv code hi)
  | blob code n => exact write_P n (writeHeader_P code (setCT_P _ hp)) (writeHeader_inv code (setCT_inv _ hi))
  | stream code cs e =>
    exact readFrom_P sh cs e (writeHeader_P code (setCT_P _ hp)) (writeHeader_inv code (setCT_inv _ hi))
  | redir code len =>
    simp only [step]
    split
    · exact hp
    · split
      · exact write_P len (writeHeader_P code (setCT_P _ hp)) (writeHeader_inv code (setCT_inv _ hi))
      · exact writeHeader_P code hp

/-- the recorder's bookkeeping after the fast path -/
def bumpRec (r : Rec) (n : Nat) : Rec :=
  if n > 0 then { r with size := (if r.size = -1 then 0 else r.size) + n } else r

/-- effect of one copied chunk of which `a` bytes are accepted -/
def chunkStep (s : St) (a : Nat) : St :=
  { r := { s.r with size := (if s.r.size = -1 then 0 else s.r.size) + a },
    u := (if (decide (a > 0) && !s.u.wrote) = true then s.u.writeHeader 200 else s.u).take a }

theorem write_eq_chunk {s : St} {c : Nat} (hp : P s) (hi : Inv s) (hr : s.r.hijacked = false) (hc : c ≠ 0) :
    write s c = (chunkStep s (accept s.u.budget c), accept s.u.budget c,
                  if accept s.u.budget c < c then Err.fault else Err.ok) := by
  have hh : s.u.hijacked = false := by rw [← hp.1]; exact hr
  unfold write chunkStep
  simp only [hr, Bool.false_eq_true, ↓reduceIte]
  by_cases hs : s.r.size = -1
  · have hw : s.u.wrote = false := (hi.2.1 hs).2.2.2.2
    have hst : s.r.status = 200 := (hi.2.1 hs).1
    have hpos := accept_pos (hp.2 hs) hc
    simp [hs, Under.write, Under.writeHeader, Under.emit, hh, hw, hst, hpos, isFinal]
  · have hw : s.u.wrote = true := (hi.2.2 hs).2.2.2.2
    simp [hs, Under.write, hh, hw, hr]

theorem bumpRec_chunk (r : Rec) (a n : Nat) (ha : a > 0) (h : r.size = -1 ∨ 0 ≤ r.size) :
    bumpRec { r with size := (if r.size = -1 then 0 else r.size) + a } n = bumpRec r (a + n) := by
  unfold bumpRec
  have h1 : a + n > 0 := by omega
  simp only [h1, ↓reduceIte]
  by_cases hn : n > 0
  · simp only [hn, ↓reduceIte]
    congr 1
    split <;> split <;> omega
  · have : n = 0 := by omega
    subst this
    simp

/-- io.CopyBuffer through recorder.Write ends in the same state, with the same result, as the underlying writer's own
    ReadFrom followed by the recorder's `if n > 0` bookkeeping -/
theorem copyFallback_eq_fast (cs : List Nat) (e : Bool) : ∀ {s : St}, P s → Inv s →
    copyFallback s cs e =
      ({ r := bumpRec s.r (s.u.readFrom cs e).2.1, u := (s.u.readFrom cs e).1 },
        (s.u.readFrom cs e).2.1, (s.u.readFrom cs e).2.2) := by
  induction cs with
  | nil => intro s _ _; simp [copyFallback, Under.readFrom, bumpRec]
  | cons c cs ih =>
    intro s hp hi
    rw [copyFallback, Under.readFrom]
    by_cases hc : c = 0
    · simp only [hc, ↓reduceIte]; exact ih hp hi
    · simp only [hc, ↓reduceIte]
      by_cases hh : s.u.hijacked = true
      · have hr : s.r.hijacked = true := by rw [hp.1]; exact hh
        simp [write, hr, hh, bumpRec]
      · have hh : s.u.hijacked = false := by simpa using hh
        have hr : s.r.hijacked = false := by rw [hp.1]; exact hh
        have hP' := write_P c hp hi
        have hI' := write_inv c hi
        rw [write_eq_chunk hp hi hr hc] at hP' hI'
        rw [write_eq_chunk hp hi hr hc]
        simp only [hh, Bool.false_eq_true, ↓reduceIte]
        have hle := accept_le s.u.budget c
        by_cases hlt : accept s.u.budget c < c
        · simp only [hlt, ↓reduceIte]
          by_cases hs : s.r.size = -1
          · have hpos := accept_pos (hp.2 hs) hc
            simp [chunkStep, bumpRec, hs, hpos]
          · by_cases ha : accept s.u.budget c > 0
            · simp [chunkStep, bumpRec, hs, ha]
            · have h0 : accept s.u.budget c = 0 := by omega
              simp [chunkStep, bumpRec, hs, h0]
        · have haeq : accept s.u.budget c = c := by omega
          have hpos : accept s.u.budget c > 0 := by omega
          simp only [hlt, ↓reduceIte, ne_eq, not_true_eq_false, haeq]
          rw [haeq] at hP' hI'
          rw [ih hP' hI']
          simp only [chunkStep]
          rw [bumpRec_chunk s.r c _ (by omega) (invU_range hi)]
          simp

end Fox.Recorder
