import FoxModel.Model.Redact
/-
  FoxModel.Lemmas.Redact — splitting a dump at "\r\n" gives back the lines it was written from.
-/
namespace Fox.Recovery.Redact
open Fox.Recovery

theorem not_sep_of_noCRLF {a b : Nat} {l' : Str} (h : noCRLF (a :: b :: l') = true) :
    ¬ (a = CR ∧ b = LF) ∧ noCRLF (b :: l') = true := by
  simp only [noCRLF, Bool.and_eq_true, Bool.not_eq_true', Bool.and_eq_false_iff, beq_eq_false_iff_ne] at h
  refine ⟨?_, h.2⟩
  rintro ⟨e1, e2⟩
  rcases h.1 with h' | h'
  · exact h' e1
  · exact h' e2

theorem splitAux_sep : ∀ (l cur rest : Str), noCRLF l = true →
    splitAux cur (l ++ CR :: LF :: rest) = (cur.reverse ++ l) :: splitAux [] rest
  | [], cur, rest, _ => by simp [splitAux]
  | [a], cur, rest, _ => by
    have h1 : ¬ (a = CR ∧ CR = LF) := by simp [CR, LF]
    simp only [List.cons_append, List.nil_append, splitAux, h1, if_false]
    simp [splitAux]
  | a :: b :: l', cur, rest, h => by
    obtain ⟨h1, h2⟩ := not_sep_of_noCRLF h
    have ih := splitAux_sep (b :: l') (a :: cur) rest h2
    simp only [List.cons_append, splitAux, h1, if_false] at ih ⊢
    rw [ih]; simp

theorem split_lines : ∀ (ls : List Str) (tail : Str), (∀ l ∈ ls, noCRLF l = true) →
    split (ls.flatMap (· ++ CRLF) ++ tail) = ls ++ split tail
  | [], tail, _ => by simp
  | l :: ls, tail, h => by
    have hl := h l (by simp)
    have := splitAux_sep l [] (ls.flatMap (· ++ CRLF) ++ tail) hl
    simp only [split, List.flatMap_cons, List.append_assoc, CRLF, List.cons_append, List.nil_append] at this ⊢
    rw [this]
    simp only [List.reverse_nil, List.nil_append, List.cons.injEq, true_and]
    have ih := split_lines ls tail (fun x hx => h x (by simp [hx]))
    simpa [split, CRLF] using ih

theorem cut_sep : ∀ (l rest : Str), noCRLF l = true → cut (l ++ CR :: LF :: rest) = some (l, rest)
  | [], rest, _ => by simp [cut]
  | [a], rest, _ => by
    have h1 : ¬ (a = CR ∧ CR = LF) := by simp [CR, LF]
    simp [cut, h1]
  | a :: b :: l', rest, h => by
    obtain ⟨h1, h2⟩ := not_sep_of_noCRLF h
    have ih := cut_sep (b :: l') rest h2
    simp only [List.cons_append] at ih ⊢
    simp only [cut, h1, if_false, ih, Option.map_some]

/-- a header name as net/http writes it: no colon, no CR, no LF -/
def nameOk (n : Str) : Bool := n.all fun b => b != COLON && b != CR && b != LF

theorem nameOk_cons {a : Nat} {n : Str} (h : nameOk (a :: n) = true) :
    a ≠ COLON ∧ a ≠ CR ∧ a ≠ LF ∧ nameOk n = true := by
  simp only [nameOk, List.all_cons, Bool.and_eq_true, bne_iff_ne, ne_eq] at h
  exact ⟨h.1.1.1, h.1.1.2, h.1.2, by simpa [nameOk] using h.2⟩

theorem indexColon_line : ∀ (n v : Str), nameOk n = true → indexColon (n ++ COLON :: SP :: v) = some n.length
  | [], v, _ => by simp [indexColon]
  | a :: n, v, h => by
    obtain ⟨h1, _, _, h4⟩ := nameOk_cons h
    have ih := indexColon_line n v h4
    simp only [List.cons_append, indexColon, h1, if_false, ih, Option.map_some, List.length_cons]

theorem noCRLF_sp : ∀ v : Str, noCRLF v = true → noCRLF (SP :: v) = true
  | [], _ => rfl
  | c :: v', h => by simp [noCRLF, SP, CR, h]

theorem noCRLF_colon_sp (v : Str) (hv : noCRLF v = true) : noCRLF (COLON :: SP :: v) = true := by
  have := noCRLF_sp v hv
  simp [noCRLF, COLON, CR, this]

theorem noCRLF_line : ∀ (n v : Str), nameOk n = true → noCRLF v = true → noCRLF (n ++ COLON :: SP :: v) = true
  | [], v, _, hv => noCRLF_colon_sp v hv
  | [a], v, h, hv => by
    obtain ⟨_, h2, _, _⟩ := nameOk_cons h
    have := noCRLF_colon_sp v hv
    simp only [List.cons_append, List.nil_append, noCRLF, Bool.and_eq_true, Bool.not_eq_true', Bool.and_eq_false_iff,
      beq_eq_false_iff_ne] at this ⊢
    exact ⟨Or.inl h2, this⟩
  | a :: b :: n, v, h, hv => by
    obtain ⟨_, h2, _, h4⟩ := nameOk_cons h
    have ih := noCRLF_line (b :: n) v h4 hv
    simp only [List.cons_append] at ih ⊢
    simp only [noCRLF, Bool.and_eq_true, Bool.not_eq_true', Bool.and_eq_false_iff, beq_eq_false_iff_ne]
    exact ⟨Or.inl h2, ih⟩

/-- well-formed header: a proper name, a value without "\r\n" -/
def headerOk (h : Str × Str) : Bool := nameOk h.1 && noCRLF h.2

theorem lineOut_header (h : Str × Str) (hok : headerOk h = true) : lineOut (headerLine h) = CRLF ++ shown h := by
  simp only [headerOk, Bool.and_eq_true] at hok
  have hi := indexColon_line h.1 h.2 hok.1
  unfold lineOut shown headerLine
  rw [hi]
  simp only [List.take_left']

theorem lineOut_empty : lineOut [] = CRLF := by simp [lineOut, indexColon]

theorem flatMap_congr' {α β} {f g : α → List β} : ∀ {l : List α}, (∀ a ∈ l, f a = g a) → l.flatMap f = l.flatMap g
  | [], _ => rfl
  | a :: l, h => by
    simp only [List.flatMap_cons, h a (by simp)]
    rw [flatMap_congr' (fun x hx => h x (by simp [hx]))]

/-- **the loop on a dump**: the request line, then every header line with the value of a listed header withheld -/
theorem redactDump_mkDump (rl : Str) (hs : List (Str × Str)) (hrl : noCRLF rl = true)
    (hok : ∀ h ∈ hs, headerOk h = true) :
    redactDump (mkDump rl hs) = rl ++ hs.flatMap (fun h => CRLF ++ shown h) ++ CRLF ++ CRLF := by
  unfold redactDump mkDump
  have hc := cut_sep rl (hs.flatMap (fun h => headerLine h ++ CRLF) ++ CRLF) hrl
  have e1 : rl ++ CRLF ++ hs.flatMap (fun h => headerLine h ++ CRLF) ++ CRLF =
      rl ++ CR :: LF :: (hs.flatMap (fun h => headerLine h ++ CRLF) ++ CRLF) := by simp [CRLF]
  rw [e1, hc]
  simp only []
  have hlines : ∀ l ∈ hs.map headerLine, noCRLF l = true := by
    intro l hl
    obtain ⟨h, hh, rfl⟩ := List.mem_map.mp hl
    have := hok h hh
    simp only [headerOk, Bool.and_eq_true] at this
    exact noCRLF_line h.1 h.2 this.1 this.2
  have hsplit := split_lines (hs.map headerLine) CRLF hlines
  have hflat : (hs.map headerLine).flatMap (· ++ CRLF) = hs.flatMap (fun h => headerLine h ++ CRLF) := by
    simp [List.flatMap_map]
  rw [hflat] at hsplit
  rw [hsplit]
  have htail : split CRLF = [[], []] := by simp [split, splitAux, CRLF]
  rw [htail]
  simp only [List.flatMap_append, List.flatMap_cons, List.flatMap_nil, lineOut_empty, List.append_nil,
    List.flatMap_map, List.append_assoc]
  congr 1
  congr 1
  exact flatMap_congr' fun h hh => lineOut_header h (hok h hh)

end Fox.Recovery.Redact
