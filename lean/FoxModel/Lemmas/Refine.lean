import FoxModel.Model.WF
import FoxModel.Lemmas.SpecAlg
/-
  Refinement of the radix-tree walk to the specification, for direct matches:

      directs (walk n pre k pr es path ps) = specAll (sufsFrom n k) path ps

  i.e. the direct-match events of the model's depth-first walk over a well-formed (sub)tree are exactly, and in the
  same order, the matches enumerated by the specification over the set of pattern suffixes stored in that subtree.
-/
namespace Fox.Model
open Fox Fox.Spec

/-- the direct-match events of an event list -/
def directs : List Ev → Res
  | [] => []
  | .direct r ps :: evs => (r, ps) :: directs evs
  | _ :: evs => directs evs

@[simp] theorem directs_nil : directs [] = [] := rfl
@[simp] theorem directs_direct (r ps evs) : directs (.direct r ps :: evs) = (r, ps) :: directs evs := rfl
@[simp] theorem directs_tsr (r ps evs) : directs (.tsr r ps :: evs) = directs evs := rfl
@[simp] theorem directs_bad (evs) : directs (.bad :: evs) = directs evs := rfl

theorem directs_append (a b : List Ev) : directs (a ++ b) = directs a ++ directs b := by
  induction a with
  | nil => simp
  | cons e a ih => cases e <;> simp [ih]

/-! ### Bool-valued invariant: unfolding lemmas -/

theorem wfKids_cons {c : Node} {cs : List Node} : wfKids (c :: cs) = true ↔ wfNode c = true ∧ wfKids cs = true := by
  simp [wfKids]

theorem nodupB_cons {α} [BEq α] {x : α} {xs : List α} :
    nodupB (x :: xs) = true ↔ xs.contains x = false ∧ nodupB xs = true := by
  simp [nodupB]

theorem kindsOf_cons (c : Node) (cs : List Node) : kindsOf (c :: cs) = kindOf c.key :: kindsOf cs := by
  cases c; simp [kindsOf, Node.key]

theorem mem_kindsOf {cs : List Node} {x : Node} (h : x ∈ cs) : kindOf x.key ∈ kindsOf cs := by
  induction cs with
  | nil => cases h
  | cons c cs ih =>
    rw [kindsOf_cons]
    cases h with
    | head => simp
    | tail _ h' => exact List.mem_cons_of_mem _ (ih h')

instance : LawfulBEq Sel where
  eq_of_beq := by intro a b h; exact of_decide_eq_true h
  rfl := by intro a; exact decide_eq_true rfl

theorem sel_matches_iff (sel : Sel) (k : List Tok) : sel.matches k = true ↔ kindOf k = some sel := by
  cases sel <;> cases k with
  | nil => simp [Sel.matches, kindOf]
  | cons t ts => cases t <;> simp [Sel.matches, kindOf]

theorem kindOf_cons_static {t : Tok} {k' : List Tok} {b : UInt8} : kindOf (t :: k') = some (.static b) ↔ t = .lit b := by
  cases t <;> simp [kindOf]
theorem kindOf_cons_param {t : Tok} {k' : List Tok} : kindOf (t :: k') = some .param ↔ ∃ n, t = .param n := by
  cases t <;> simp [kindOf]
theorem kindOf_cons_catch {t : Tok} {k' : List Tok} : kindOf (t :: k') = some .catchAll ↔ ∃ n, t = .catchAll n := by
  cases t <;> simp [kindOf]

/-! ### suffix sets -/

@[simp] theorem sufsKids_nil : sufsKids [] = [] := by simp [sufsKids]
@[simp] theorem sufsKids_cons (c : Node) (cs : List Node) : sufsKids (c :: cs) = sufsNode c ++ sufsKids cs := by
  simp [sufsKids]

theorem sufsNode_eq (n : Node) : sufsNode n = sufsFrom n n.key := by
  cases n; simp [sufsNode, sufsFrom, Node.key, Node.route, Node.children]

theorem tails_sufsFrom (n : Node) (t : Tok) (k : List Tok) : tails (sufsFrom n (t :: k)) = sufsFrom n k := by
  unfold sufsFrom tails
  cases n.route <;> simp [Function.comp_def]

theorem allHead_sufsFrom (n : Node) (t : Tok) (k : List Tok) : AllHead t (sufsFrom n (t :: k)) := by
  intro sr h
  unfold sufsFrom at h
  cases hr : n.route with
  | none => simp [hr] at h; obtain ⟨a, b, _, rfl⟩ := h; exact ⟨_, rfl⟩
  | some r =>
    simp [hr] at h
    rcases h with rfl | ⟨a, b, _, rfl⟩
    · exact ⟨_, rfl⟩
    · exact ⟨_, rfl⟩

theorem allInfix_sufsFrom (n : Node) (nm : Bytes) (t : Tok) (k : List Tok) :
    AllInfix nm (sufsFrom n (.catchAll nm :: t :: k)) := by
  intro sr h
  unfold sufsFrom at h
  cases hr : n.route with
  | none => simp [hr] at h; obtain ⟨a, b, _, rfl⟩ := h; exact ⟨_, _, rfl⟩
  | some r =>
    simp [hr] at h
    rcases h with rfl | ⟨a, b, _, rfl⟩
    · exact ⟨_, _, rfl⟩
    · exact ⟨_, _, rfl⟩

/-- a well-formed node's suffix set has a uniform head: the first token of its key -/
theorem wfNode_head {c : Node} (h : wfNode c = true) : ∃ t k', c.key = t :: k' ∧ AllHead t (sufsNode c) := by
  cases c with
  | mk k r cs =>
    cases k with
    | nil => simp [wfNode] at h
    | cons t k' =>
      refine ⟨t, k', rfl, ?_⟩
      rw [sufsNode_eq]
      exact allHead_sufsFrom _ t k'

theorem wfNode_kids {k r cs} (h : wfNode (.mk k r cs) = true) :
    wfKids cs = true ∧ nodupB (kindsOf cs) = true ∧ (endsWithCatchAll k = true → r.isSome = true ∧ allSlash cs = true) := by
  simp only [wfNode, Bool.and_eq_true, Bool.or_eq_true, Bool.not_eq_true'] at h
  refine ⟨h.2, h.1.1.2, ?_⟩
  intro he
  rcases h.1.2 with h' | h'
  · rw [he] at h'; cases h'
  · exact h'

theorem wfNode_keyOk {k r cs} (h : wfNode (.mk k r cs) = true) : keyOk k = true := by
  simp only [wfNode, Bool.and_eq_true] at h
  exact h.1.1.1.2

/-! ### evaluation of the alternatives on a single well-formed child -/

theorem advLit_child {c : Node} (h : wfNode c = true) (b : UInt8) :
    advLit b (sufsNode c) = if kindOf c.key = some (.static b) then tails (sufsNode c) else [] := by
  obtain ⟨t, k', hk, hh⟩ := wfNode_head h
  rw [hk]
  cases t with
  | lit c0 =>
    rw [advLit_allHead_lit hh]
    by_cases hcb : c0 = b <;> simp [kindOf, hcb]
  | param n => rw [advLit_allHead_other hh (by intro c; simp)]; simp [kindOf]
  | catchAll n => rw [advLit_allHead_other hh (by intro c; simp)]; simp [kindOf]

theorem advParam_child_nonparam {c : Node} (h : wfNode c = true) (hk : kindOf c.key ≠ some .param) :
    advParam (sufsNode c) = [] := by
  obtain ⟨t, k', hk', hh⟩ := wfNode_head h
  rw [hk'] at hk
  apply advParam_allHead_other hh
  intro n hn; subst hn; simp [kindOf] at hk

theorem advInfix_child_noncatch {c : Node} (h : wfNode c = true) (hk : kindOf c.key ≠ some .catchAll) :
    advInfix (sufsNode c) = [] := by
  obtain ⟨t, k', hk', hh⟩ := wfNode_head h
  rw [hk'] at hk
  apply advInfix_allHead_other hh
  intro n hn; subst hn; simp [kindOf] at hk

theorem suffixCatch_child_noncatch {c : Node} (h : wfNode c = true) (hk : kindOf c.key ≠ some .catchAll) (p ps) :
    suffixCatch (sufsNode c) p ps = [] := by
  obtain ⟨t, k', hk', hh⟩ := wfNode_head h
  rw [hk'] at hk
  apply suffixCatch_allHead_other hh
  intro n hn; subst hn; simp [kindOf] at hk

theorem specAll_child_static {c : Node} (h : wfNode c = true) {b : UInt8} (hk : kindOf c.key = some (.static b)) (rest ps) :
    specAll (sufsNode c) (b :: rest) ps = specAll (tails (sufsNode c)) rest ps := by
  obtain ⟨t, k', hk', hh⟩ := wfNode_head h
  rw [hk'] at hk
  have ht : t = .lit b := kindOf_cons_static.mp hk
  subst ht
  rw [specAll_lit hh]; simp

theorem specAll_child_param {c : Node} (h : wfNode c = true) (hk : kindOf c.key = some .param) (b rest ps) :
    specAll (sufsNode c) (b :: rest) ps = paramPart (sufsNode c) (b :: rest) ps := by
  obtain ⟨t, k', hk', hh⟩ := wfNode_head h
  rw [hk'] at hk
  obtain ⟨n, rfl⟩ := kindOf_cons_param.mp hk
  rw [specAll_cons, advLit_allHead_other hh (by intro c; simp),
      infixPart_of_advInfix_nil (advInfix_allHead_other hh (by intro m; simp)),
      suffixCatch_allHead_other hh (by intro m; simp)]
  simp [specAll_nil]

theorem specAll_child_catch {c : Node} (h : wfNode c = true) (hk : kindOf c.key = some .catchAll) (b rest ps) :
    specAll (sufsNode c) (b :: rest) ps =
      infixPart (sufsNode c) b rest ps ++ suffixCatch (sufsNode c) (b :: rest) ps := by
  obtain ⟨t, k', hk', hh⟩ := wfNode_head h
  rw [hk'] at hk
  obtain ⟨n, rfl⟩ := kindOf_cons_catch.mp hk
  rw [specAll_cons, advLit_allHead_other hh (by intro c; simp),
      paramPart_of_advParam_nil (advParam_allHead_other hh (by intro m; simp))]
  simp [specAll_nil]

/-! ### the alternatives over a list of well-formed children with distinct kinds -/

theorem nodup_others {cs : List Node} {c : Node} {s : Sel}
    (hd : nodupB (kindsOf (c :: cs)) = true) (hk : kindOf c.key = some s) :
    ∀ x ∈ cs, kindOf x.key ≠ some s := by
  intro x hx hxk
  rw [kindsOf_cons, nodupB_cons] at hd
  have := mem_kindsOf hx
  rw [hxk, ← hk] at this
  have hc : (kindsOf cs).contains (kindOf c.key) = true := List.contains_iff_mem.mpr this
  rw [hd.1] at hc; cases hc

theorem nodup_tail {cs : List Node} {c : Node} (hd : nodupB (kindsOf (c :: cs)) = true) :
    nodupB (kindsOf cs) = true := by
  rw [kindsOf_cons, nodupB_cons] at hd; exact hd.2

theorem filter_none {cs : List Node} {s : Sel} (h : ∀ x ∈ cs, kindOf x.key ≠ some s) :
    cs.filter (fun c => s.matches c.key) = [] := by
  rw [List.filter_eq_nil_iff]
  intro x hx
  rw [sel_matches_iff]; exact h x hx

theorem matches_false {c : Node} {s : Sel} (hk : kindOf c.key ≠ some s) : s.matches c.key = false := by
  cases hmm : s.matches c.key with
  | false => rfl
  | true => exact absurd ((sel_matches_iff _ _).mp hmm) hk

theorem advLit_kids_none {cs : List Node} (hw : wfKids cs = true) {b : UInt8}
    (hn : ∀ c ∈ cs, kindOf c.key ≠ some (.static b)) : advLit b (sufsKids cs) = [] := by
  induction cs with
  | nil => simp
  | cons c cs ih =>
    rw [wfKids_cons] at hw
    rw [sufsKids_cons, advLit_append, advLit_child hw.1, ih hw.2 (fun x hx => hn x (by simp [hx]))]
    simp [hn c (by simp)]

theorem advParam_kids_none {cs : List Node} (hw : wfKids cs = true)
    (hn : ∀ c ∈ cs, kindOf c.key ≠ some .param) : advParam (sufsKids cs) = [] := by
  induction cs with
  | nil => simp
  | cons c cs ih =>
    rw [wfKids_cons] at hw
    rw [sufsKids_cons, advParam_append, advParam_child_nonparam hw.1 (hn c (by simp)),
        ih hw.2 (fun x hx => hn x (by simp [hx]))]
    simp

theorem advInfix_kids_none {cs : List Node} (hw : wfKids cs = true)
    (hn : ∀ c ∈ cs, kindOf c.key ≠ some .catchAll) : advInfix (sufsKids cs) = [] := by
  induction cs with
  | nil => simp
  | cons c cs ih =>
    rw [wfKids_cons] at hw
    rw [sufsKids_cons, advInfix_append, advInfix_child_noncatch hw.1 (hn c (by simp)),
        ih hw.2 (fun x hx => hn x (by simp [hx]))]
    simp

theorem suffixCatch_kids_none {cs : List Node} (hw : wfKids cs = true)
    (hn : ∀ c ∈ cs, kindOf c.key ≠ some .catchAll) (p ps) : suffixCatch (sufsKids cs) p ps = [] := by
  induction cs with
  | nil => simp
  | cons c cs ih =>
    rw [wfKids_cons] at hw
    rw [sufsKids_cons, suffixCatch_append, suffixCatch_child_noncatch hw.1 (hn c (by simp)),
        ih hw.2 (fun x hx => hn x (by simp [hx]))]
    simp

theorem part_static {cs : List Node} (hw : wfKids cs = true) (hd : nodupB (kindsOf cs) = true)
    (b : UInt8) (rest : Bytes) (ps : Binds) :
    specAll (advLit b (sufsKids cs)) rest ps =
      (cs.filter (fun c => (Sel.static b).matches c.key)).flatMap (fun c => specAll (sufsNode c) (b :: rest) ps) := by
  induction cs with
  | nil => simp [specAll_nil]
  | cons c cs ih =>
    have hw' := wfKids_cons.mp hw
    rw [sufsKids_cons, advLit_append, advLit_child hw'.1]
    by_cases hk : kindOf c.key = some (.static b)
    · have hothers := nodup_others hd hk
      rw [advLit_kids_none hw'.2 hothers]
      simp only [hk, if_true, List.append_nil]
      rw [List.filter_cons]
      simp [(sel_matches_iff _ _).mpr hk, filter_none hothers, specAll_child_static hw'.1 hk]
    · simp only [hk, if_false, List.nil_append]
      rw [ih hw'.2 (nodup_tail hd), List.filter_cons]
      simp [matches_false hk]

theorem part_param {cs : List Node} (hw : wfKids cs = true) (hd : nodupB (kindsOf cs) = true)
    (b : UInt8) (rest : Bytes) (ps : Binds) :
    paramPart (sufsKids cs) (b :: rest) ps =
      (cs.filter (fun c => Sel.param.matches c.key)).flatMap (fun c => specAll (sufsNode c) (b :: rest) ps) := by
  induction cs with
  | nil => simp [paramPart]
  | cons c cs ih =>
    have hw' := wfKids_cons.mp hw
    rw [List.filter_cons]
    by_cases hk : kindOf c.key = some .param
    · have hothers := nodup_others hd hk
      have hA : advParam (sufsKids (c :: cs)) = advParam (sufsNode c) := by
        rw [sufsKids_cons, advParam_append, advParam_kids_none hw'.2 hothers]; simp
      rw [paramPart_congr hA]
      simp [(sel_matches_iff _ _).mpr hk, filter_none hothers, specAll_child_param hw'.1 hk]
    · have hA : advParam (sufsKids (c :: cs)) = advParam (sufsKids cs) := by
        rw [sufsKids_cons, advParam_append, advParam_child_nonparam hw'.1 hk]; simp
      rw [paramPart_congr hA, ih hw'.2 (nodup_tail hd)]
      simp [matches_false hk]

theorem part_catch {cs : List Node} (hw : wfKids cs = true) (hd : nodupB (kindsOf cs) = true)
    (b : UInt8) (rest : Bytes) (ps : Binds) :
    infixPart (sufsKids cs) b rest ps ++ suffixCatch (sufsKids cs) (b :: rest) ps =
      (cs.filter (fun c => Sel.catchAll.matches c.key)).flatMap (fun c => specAll (sufsNode c) (b :: rest) ps) := by
  induction cs with
  | nil => simp [infixPart]
  | cons c cs ih =>
    have hw' := wfKids_cons.mp hw
    rw [List.filter_cons]
    by_cases hk : kindOf c.key = some .catchAll
    · have hothers := nodup_others hd hk
      have hA : advInfix (sufsKids (c :: cs)) = advInfix (sufsNode c) := by
        rw [sufsKids_cons, advInfix_append, advInfix_kids_none hw'.2 hothers]; simp
      rw [infixPart_congr hA, sufsKids_cons, suffixCatch_append, suffixCatch_kids_none hw'.2 hothers]
      simp [(sel_matches_iff _ _).mpr hk, filter_none hothers, specAll_child_catch hw'.1 hk]
    · have hA : advInfix (sufsKids (c :: cs)) = advInfix (sufsKids cs) := by
        rw [sufsKids_cons, advInfix_append, advInfix_child_noncatch hw'.1 hk]; simp
      rw [infixPart_congr hA, sufsKids_cons, suffixCatch_append, suffixCatch_child_noncatch hw'.1 hk]
      simp only [List.nil_append]
      rw [ih hw'.2 (nodup_tail hd)]
      simp [matches_false hk]

/-- **K**: the spec on the union of the children's suffix sets = the three ordered alternatives of the model -/
theorem specAll_kids {cs : List Node} (hw : wfKids cs = true) (hd : nodupB (kindsOf cs) = true)
    (b : UInt8) (rest : Bytes) (ps : Binds) :
    specAll (sufsKids cs) (b :: rest) ps =
      (cs.filter (fun c => (Sel.static b).matches c.key)).flatMap (fun c => specAll (sufsNode c) (b :: rest) ps)
      ++ (cs.filter (fun c => Sel.param.matches c.key)).flatMap (fun c => specAll (sufsNode c) (b :: rest) ps)
      ++ (cs.filter (fun c => Sel.catchAll.matches c.key)).flatMap (fun c => specAll (sufsNode c) (b :: rest) ps) := by
  rw [specAll_cons, part_static hw hd, part_param hw hd, List.append_assoc, List.append_assoc, part_catch hw hd]
  simp [List.append_assoc]

end Fox.Model

namespace Fox.Model
open Fox Fox.Spec

/-! ### the main refinement, for direct matches -/

theorem sufsFrom_nil_path (n : Node) (ps : Binds) (hw : wfKids n.children = true) :
    specAll (sufsFrom n []) [] ps = (match n.route with | some r => [(r, ps)] | none => []) := by
  unfold specAll sufsFrom
  rw [endsHere_append]
  have hk : endsHere ((sufsKids n.children).map fun sr => ([] ++ sr.1, sr.2)) ps = [] := by
    simp only [List.nil_append]
    have : (sufsKids n.children).map (fun sr => (sr.1, sr.2)) = sufsKids n.children := by simp
    rw [this]
    generalize n.children = cs at hw
    induction cs with
    | nil => simp
    | cons c cs ih =>
      have hw' := wfKids_cons.mp hw
      obtain ⟨t, k', _, hh⟩ := wfNode_head hw'.1
      rw [sufsKids_cons, endsHere_append, endsHere_allHead hh, ih hw'.2]; rfl
  rw [hk]
  cases n.route <;> simp [endsHere]

theorem sufsFrom_nil_cons (n : Node) (b rest ps) :
    specAll (sufsFrom n []) (b :: rest) ps = specAll (sufsKids n.children) (b :: rest) ps := by
  have hmap : (sufsKids n.children).map (fun sr => (([] : List Tok) ++ sr.1, sr.2)) = sufsKids n.children := by simp
  unfold sufsFrom
  rw [hmap]
  cases hr : n.route with
  | none => simp
  | some r =>
    simp only
    rw [specAll_cons, specAll_cons (sufsKids n.children)]
    simp [advLit, paramPart, infixPart, paramNames, advParam, advParamNamed, infixNames, advInfix, advInfixNamed, suffixCatch,
      List.filterMap_cons]

end Fox.Model

namespace Fox.Model
open Fox Fox.Spec

theorem directs_midKeyEnd (n pre k pr es ps) : directs (midKeyEnd n pre k pr es ps) = [] := by
  unfold midKeyEnd
  split
  · split
    · split <;> simp
    · simp
  · split
    · split <;> simp
    · simp

theorem keyOk_head_ne_star {k : List Tok} (h : keyOk k = true) : kindOf k ≠ some (.static STAR) := by
  cases k with
  | nil => simp [kindOf]
  | cons t k' =>
    cases t with
    | lit b =>
      simp only [keyOk, Bool.and_eq_true, bne_iff_ne] at h
      simp only [kindOf]; intro hh; injection hh with hh; injection hh with hh; exact h.1.1 hh
    | param n => simp [kindOf]
    | catchAll n => simp [kindOf]

theorem kids_no_star {cs : List Node} (hw : wfKids cs = true) : ∀ c ∈ cs, kindOf c.key ≠ some (.static STAR) := by
  induction cs with
  | nil => intro c hc; cases hc
  | cons c cs ih =>
    have hw' := wfKids_cons.mp hw
    intro x hx
    cases hx with
    | head => cases c with | mk k r cs' => exact keyOk_head_ne_star (wfNode_keyOk hw'.1)
    | tail _ h' => exact ih hw'.2 x h'

theorem kindOf_of_startsWithSlash {k : List Tok} (h : startsWithSlash k = true) : kindOf k = some (.static SLASH) := by
  cases k with
  | nil => simp [startsWithSlash] at h
  | cons t k' =>
    cases t with
    | lit b => simp [startsWithSlash] at h; simp [kindOf, h]
    | param n => simp [startsWithSlash] at h
    | catchAll n => simp [startsWithSlash] at h

theorem allSlash_cons {c : Node} {cs : List Node} :
    allSlash (c :: cs) = true ↔ startsWithSlash c.key = true ∧ allSlash cs = true := by
  cases c; simp [allSlash, Node.key]

theorem allSlash_single {c : Node} {tail : List Node}
    (ha : allSlash (c :: tail) = true) (hd : nodupB (kindsOf (c :: tail)) = true) : tail = [] := by
  cases tail with
  | nil => rfl
  | cons x xs =>
    exfalso
    rw [allSlash_cons] at ha
    have hx := (allSlash_cons.mp ha.2).1
    have h1 := kindOf_of_startsWithSlash ha.1
    have h2 := kindOf_of_startsWithSlash hx
    exact nodup_others hd h1 x (by simp) h2

theorem sufsNode_mk (k : List Tok) (r : Option Route) (cs : List Node) :
    sufsNode (.mk k r cs) = sufsFrom (.mk k r cs) k := sufsNode_eq _

theorem sufsFrom_congr (n m : Node) (k : List Tok) (hr : n.route = m.route) (hc : n.children = m.children) :
    sufsFrom n k = sufsFrom m k := by
  unfold sufsFrom; rw [hr, hc]

def routeSuf (o : Option Route) (k : List Tok) : SufSet :=
  match o with
  | some r => [(k, r)]
  | none => []

theorem sufsFrom_eq (n : Node) (k : List Tok) :
    sufsFrom n k = routeSuf n.route k ++ (sufsKids n.children).map (fun sr => (k ++ sr.1, sr.2)) := by
  unfold sufsFrom routeSuf; cases n.route <;> rfl

def M1 (es : Bool) (n : Node) (pre k : List Tok) (pr : Option Route) (path : Bytes) (ps : Binds) : Prop :=
  wfKids n.children = true → nodupB (kindsOf n.children) = true →
  (endsWithCatchAll k = true → allSlash n.children = true) →
  directs (walk n pre k pr es path ps) = specAll (sufsFrom n k) path ps

def M2 (es : Bool) (inode : Node) (nm acc rest : Bytes) (ps : Binds) : Prop :=
  wfKids inode.children = true → nodupB (kindsOf inode.children) = true →
  (endsWithCatchAll inode.key = true → allSlash inode.children = true) →
  directs (walkInfix inode nm acc rest es ps) = specInfix (sufsNode inode) nm acc rest ps

def M3 (es : Bool) (sel : Sel) (cs : List Node) (pr : Option Route) (path : Bytes) (ps : Binds) : Prop :=
  wfKids cs = true →
  directs (walkKids sel cs pr es path ps) =
    (cs.filter (fun c => sel.matches c.key)).flatMap (fun c => specAll (sufsNode c) path ps)

theorem endsWithCatchAll_cons {t : Tok} {t' : Tok} {k : List Tok} :
    endsWithCatchAll (t :: t' :: k) = endsWithCatchAll (t' :: k) := by
  simp [endsWithCatchAll, List.getLast?_cons_cons]

theorem walk_refines_all (es : Bool) :
    (∀ n pre k pr path ps, M1 es n pre k pr path ps) ∧
    (∀ inode nm acc rest ps, M2 es inode nm acc rest ps) ∧
    (∀ sel cs pr path ps, M3 es sel cs pr path ps) := by
  apply walk.mutual_induct es (M1 es) (M2 es) (M3 es)
  -- k = [], path = [] : eight sub-cases (leaf / trailing-slash sites)
  · intro n pre pr ps p hr hw _ _
    rw [sufsFrom_nil_path _ _ hw]; unfold walk; simp [hr]
  · intro n pre ps hr hes p hpre hw _ _
    rw [sufsFrom_nil_path _ _ hw]; unfold walk; simp [hr, hes, hpre]
  · intro n pre ps hr hes p hpre hw _ _
    rw [sufsFrom_nil_path _ _ hw]; unfold walk; simp [hr, hes, hpre]
  · intro n pre ps hr hes hw _ _
    rw [sufsFrom_nil_path _ _ hw]; unfold walk; simp [hr, hes]
  · intro n pre pr ps hr hes c hc p hcr hlen hw _ _
    rw [sufsFrom_nil_path _ _ hw]; unfold walk; simp [hr, hes, hc, hcr, hlen]
  · intro n pre pr ps hr hes c hc p hcr hlen hw _ _
    rw [sufsFrom_nil_path _ _ hw]; unfold walk; simp [hr, hes, hc, hcr, hlen]
  · intro n pre pr ps hr hes c hc hcr hw _ _
    rw [sufsFrom_nil_path _ _ hw]; unfold walk; simp [hr, hes, hc, hcr]
  · intro n pre pr ps hr hes hc hw _ _
    rw [sufsFrom_nil_path _ _ hw]; unfold walk; simp [hr, hes, hc]
  -- k = [], path = b :: rest : the three ordered alternatives over the children
  · intro n pre pr ps b rest ih1 ih2 ih3 hw hd _
    rw [sufsFrom_nil_cons, specAll_kids hw hd]
    unfold walk
    rw [directs_append, directs_append, directs_append, ih2 hw, ih3 hw]
    by_cases hb : b = STAR
    · subst hb
      have e : (STAR == STAR) = true := by decide
      rw [e]
      simp only [if_true, directs_nil, List.append_nil]
      split
      · split <;> simp [filter_none (kids_no_star hw)]
      · simp [filter_none (kids_no_star hw)]
    · have e : (b == STAR) = false := by simpa using hb
      rw [e]
      simp only [Bool.false_eq_true, if_false]
      rw [ih1 hw]
      split
      · split <;> simp
      · simp
  -- literal token
  · intro n pre pr ps c k' _ _ _
    unfold walk
    rw [directs_midKeyEnd, specAll_head_nil (allHead_sufsFrom n _ _)]
  · intro n pre pr ps k' b rest ih hw hd hc
    unfold walk
    simp only [if_true]
    rw [ih hw hd (by
      intro h; apply hc
      cases k' with
      | nil => simp [endsWithCatchAll] at h
      | cons t k'' => rw [endsWithCatchAll_cons]; exact h)]
    rw [specAll_lit (allHead_sufsFrom n _ _), tails_sufsFrom]; simp
  · intro n pre pr ps c k' b rest hcb _ _ _
    unfold walk
    simp only [hcb, if_false]
    rw [specAll_lit (allHead_sufsFrom n _ _)]; simp [hcb]
  -- parameter token
  · intro n pre pr ps nm k' _ _ _
    unfold walk
    rw [directs_midKeyEnd, specAll_head_nil (allHead_sufsFrom n _ _)]
  · intro n pre pr ps nm k' b rest he _ _ _
    unfold walk
    simp only [he, if_true]
    rw [specAll_param (allHead_sufsFrom n _ _)]; simp [he]
  · intro n pre pr ps nm k' b rest he ih hw hd hc
    unfold walk
    simp only [he, if_false]
    rw [ih hw hd (by
      intro h; apply hc
      cases k' with
      | nil => simp [endsWithCatchAll] at h
      | cons t k'' => rw [endsWithCatchAll_cons]; exact h)]
    rw [specAll_param (allHead_sufsFrom n _ _), tails_sufsFrom]; simp [he]
  -- catch-all token
  · intro n pre pr ps nm k' _ _ _
    unfold walk
    rw [directs_midKeyEnd, specAll_head_nil (allHead_sufsFrom n _ _)]
  -- [*{nm}] without children: the whole rest
  · intro n pre pr ps nm b rest hcs p hr _ _ _
    unfold walk
    simp only [hcs, hr]
    unfold sufsFrom
    simp only [hr, hcs, sufsKids_nil, List.map_nil, List.append_nil]
    rw [specAll_cons]
    simp [advLit, paramPart, infixPart, paramNames, advParam, infixNames, advInfix, suffixCatch, names, specAll_nil]
  · intro n pre pr ps nm b rest hcs hr _ _ _
    unfold walk
    simp only [hcs, hr]
    unfold sufsFrom
    simp [hr, hcs, specAll_nil]
  -- [*{nm}] with a child: continuations below the child, then the whole rest
  · intro n pre pr ps nm b rest c tail hcs ih hw hd hc
    have hall : allSlash n.children = true := hc (by simp [endsWithCatchAll])
    rw [hcs] at hw hd hall
    have htail : tail = [] := allSlash_single hall hd
    subst htail
    have hwc := (wfKids_cons.mp hw).1
    obtain ⟨t, k', hck, hh⟩ := wfNode_head hwc
    have hkc : wfKids c.children = true ∧ nodupB (kindsOf c.children) = true ∧
        (endsWithCatchAll c.key = true → allSlash c.children = true) := by
      cases c with
      | mk ck cr ccs =>
        have := wfNode_kids hwc
        exact ⟨this.1, this.2.1, fun h => (this.2.2 h).2⟩
    unfold walk
    simp only [hcs]
    rw [directs_append]
    -- the spec side
    have hS : sufsFrom n [Tok.catchAll nm] =
        routeSuf n.route [Tok.catchAll nm] ++ (sufsNode c).map (fun sr => (Tok.catchAll nm :: sr.1, sr.2)) := by
      rw [sufsFrom_eq, hcs]; simp
    have hInf : AllInfix nm ((sufsNode c).map (fun sr => (Tok.catchAll nm :: sr.1, sr.2))) := by
      intro sr hsr
      simp only [List.mem_map] at hsr
      obtain ⟨x, hx, rfl⟩ := hsr
      obtain ⟨s', hs'⟩ := hh x hx
      exact ⟨t, s', by simp [hs']⟩
    have htl : tails ((sufsNode c).map (fun sr => (Tok.catchAll nm :: sr.1, sr.2))) = sufsNode c := by
      simp [tails, Function.comp_def]
    have hkid : specAll ((sufsNode c).map (fun sr => (Tok.catchAll nm :: sr.1, sr.2))) (b :: rest) ps =
        if b = SLASH then [] else specInfix (sufsNode c) nm [b] rest ps := by
      rw [specAll_infix hInf, htl]
    -- split the spec over route part ++ kids part
    rw [hS, specAll_cons]
    rw [advLit_append, advLit_allHead_other hInf.allHead (by intro c; simp)]
    rw [paramPart_of_advParam_nil (by
      rw [advParam_append, advParam_allHead_other hInf.allHead (by intro m; simp)]
      cases n.route <;> simp [advParam, routeSuf])]
    rw [infixPart_congr (S' := (sufsNode c).map (fun sr => (Tok.catchAll nm :: sr.1, sr.2))) (by
      rw [advInfix_append]; cases n.route <;> simp [advInfix, routeSuf])]
    rw [suffixCatch_append, suffixCatch_allInfix hInf]
    have hinfix : infixPart ((sufsNode c).map (fun sr => (Tok.catchAll nm :: sr.1, sr.2))) b rest ps =
        if b = SLASH then [] else specInfix (sufsNode c) nm [b] rest ps := by
      rw [← hkid, specAll_cons, advLit_allHead_other hInf.allHead (by intro c; simp),
        paramPart_of_advParam_nil (advParam_allHead_other hInf.allHead (by intro m; simp)),
        suffixCatch_allInfix hInf]
      simp [specAll_nil]
    rw [hinfix]
    have hlit0 : advLit b (routeSuf n.route [Tok.catchAll nm]) = [] := by
      cases n.route <;> simp [advLit, routeSuf]
    rw [hlit0]
    simp only [List.nil_append, specAll_nil, List.append_nil]
    congr 1
    · by_cases hb : b = SLASH
      · simp [hb]
      · simp only [hb, if_false]
        exact ih hkc.1 hkc.2.1 hkc.2.2
    · cases n.route <;> simp [suffixCatch, routeSuf]
  -- *{nm} followed by more key: continuations on the sub-node
  · intro n pre pr ps nm b rest t k'' ih hw hd hc
    unfold walk
    rw [specAll_infix (allInfix_sufsFrom n nm t k''), tails_sufsFrom]
    by_cases hb : b = SLASH
    · simp [hb]
    · simp only [hb, if_false]
      rw [directs_append]
      have := ih (by simpa [Node.children] using hw) (by simpa [Node.children] using hd)
        (by
          intro h
          simp only [Node.children]
          apply hc
          rw [endsWithCatchAll_cons]; exact h)
      rw [this, sufsNode_mk]
      rw [sufsFrom_congr (.mk (t :: k'') n.route n.children) n (t :: k'') rfl rfl]
      split
      · split <;> simp
      · simp
  -- walkInfix
  · intro inode nm acc ps _ _ _
    unfold walkInfix specInfix; rfl
  · intro inode nm acc ps rest hacc _ _ _
    unfold walkInfix specInfix
    simp [hacc]
  · intro inode nm acc ps rest hacc ih1 ih2 hw hd hc
    unfold walkInfix
    conv => rhs; unfold specInfix
    simp only [if_true, hacc, if_false]
    rw [directs_append, ih1 hw hd hc, ih2 hw hd hc, sufsNode_eq]
  · intro inode nm acc ps b rest hb ih hw hd hc
    unfold walkInfix
    conv => rhs; unfold specInfix
    simp only [hb, if_false]
    exact ih hw hd hc
  -- walkKids
  · intro sel pr path ps _
    unfold walkKids; simp
  · intro sel pr path ps c cs' ih1 ih3 hw
    have hw' := wfKids_cons.mp hw
    unfold walkKids
    rw [directs_append, ih3 hw'.2, List.filter_cons]
    have hkc : wfKids c.children = true ∧ nodupB (kindsOf c.children) = true ∧
        (endsWithCatchAll c.key = true → allSlash c.children = true) := by
      cases c with
      | mk ck cr ccs =>
        have := wfNode_kids hw'.1
        exact ⟨this.1, this.2.1, fun h => (this.2.2 h).2⟩
    by_cases hm : sel.matches c.key = true
    · simp only [hm, if_true, List.flatMap_cons]
      rw [ih1 hkc.1 hkc.2.1 hkc.2.2, sufsNode_eq]
    · simp [hm]

end Fox.Model
