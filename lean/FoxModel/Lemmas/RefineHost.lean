import FoxModel.Lemmas.Refine
/-
  Refinement of the hostname walk (lookupByDomain) to `specHost`, for direct matches, and the top-level statement
  about `lookup` on a method root.
-/
namespace Fox.Model
open Fox Fox.Spec

theorem hostOkKids_cons {c : Node} {cs : List Node} :
    hostOkKids (c :: cs) = true ↔ hostOkNode c = true ∧ hostOkKids cs = true := by
  simp [hostOkKids]

theorem wfNode_parts {c : Node} (h : wfNode c = true) :
    wfKids c.children = true ∧ nodupB (kindsOf c.children) = true ∧
      (endsWithCatchAll c.key = true → allSlash c.children = true) := by
  cases c with
  | mk ck cr ccs =>
    have := wfNode_kids h
    exact ⟨this.1, this.2.1, fun h => (this.2.2 h).2⟩

/-- direct matches of `lookupByPath` on a well-formed node -/
theorem pathEvents_direct {c : Node} (h : wfNode c = true) (path : Bytes) (ps : Binds) :
    directs (pathEvents c path ps) = specAll (sufsNode c) path ps := by
  unfold pathEvents
  have hp := wfNode_parts h
  rw [(walk_refines_all (endsWithSlash path)).1 c [] c.key none path ps hp.1 hp.2.1 hp.2.2, sufsNode_eq]

theorem startsWithSlash_iff {k : List Tok} : startsWithSlash k = true ↔ kindOf k = some (.static SLASH) := by
  constructor
  · exact kindOf_of_startsWithSlash
  · intro h
    cases k with
    | nil => simp [kindOf] at h
    | cons t k' =>
      cases t with
      | lit b => simp [kindOf] at h; simp [startsWithSlash, h]
      | param n => simp [kindOf] at h
      | catchAll n => simp [kindOf] at h

theorem filter_headSlash_child {c : Node} (h : wfNode c = true) :
    (sufsNode c).filter headSlash = if startsWithSlash c.key = true then sufsNode c else [] := by
  obtain ⟨t, k', hk, hh⟩ := wfNode_head h
  by_cases hs : startsWithSlash c.key = true
  · simp only [hs, if_true]
    have : t = .lit SLASH := by
      have := kindOf_of_startsWithSlash hs
      rw [hk] at this
      exact kindOf_cons_static.mp this
    subst this
    exact filter_headSlash_allHead_slash hh
  · simp only [hs, if_false]
    apply filter_headSlash_allHead hh
    intro ht; subst ht
    apply hs; rw [hk]; simp [startsWithSlash]

theorem filter_headSlash_kids_none {cs : List Node} (hw : wfKids cs = true)
    (hn : ∀ c ∈ cs, startsWithSlash c.key = false) : (sufsKids cs).filter headSlash = [] := by
  induction cs with
  | nil => simp
  | cons c cs ih =>
    have hw' := wfKids_cons.mp hw
    rw [sufsKids_cons, List.filter_append, filter_headSlash_child hw'.1, hn c (by simp),
        ih hw'.2 (fun x hx => hn x (by simp [hx]))]
    simp

theorem filter_headSlash_kids {cs : List Node} (hw : wfKids cs = true) (hd : nodupB (kindsOf cs) = true) :
    (sufsKids cs).filter headSlash =
      (match cs.find? (fun c => startsWithSlash c.key) with | some c => sufsNode c | none => []) := by
  induction cs with
  | nil => simp
  | cons c cs ih =>
    have hw' := wfKids_cons.mp hw
    rw [sufsKids_cons, List.filter_append, filter_headSlash_child hw'.1, List.find?_cons]
    by_cases hs : startsWithSlash c.key = true
    · simp only [hs, if_true]
      have hothers := nodup_others hd (kindOf_of_startsWithSlash hs)
      rw [filter_headSlash_kids_none hw'.2 (by
        intro x hx
        cases hx' : startsWithSlash x.key with
        | false => rfl
        | true => exact absurd (kindOf_of_startsWithSlash hx') (hothers x hx))]
      simp
    · have hs' : startsWithSlash c.key = false := by simpa using hs
      simp only [hs', Bool.false_eq_true, if_false, List.nil_append]
      exact ih hw'.2 (nodup_tail hd)

/-! ### children alternatives for the hostname walk -/

theorem hpart_static {cs : List Node} (hw : wfKids cs = true) (hd : nodupB (kindsOf cs) = true)
    (b : UInt8) (rest path : Bytes) (ps : Binds) :
    specHost (advLit b (sufsKids cs)) rest path ps =
      (cs.filter (fun c => (Sel.static b).matches c.key)).flatMap (fun c => specHost (sufsNode c) (b :: rest) path ps) := by
  induction cs with
  | nil => simp [specHost_nil]
  | cons c cs ih =>
    have hw' := wfKids_cons.mp hw
    rw [sufsKids_cons, advLit_append, advLit_child hw'.1]
    by_cases hk : kindOf c.key = some (.static b)
    · have hothers := nodup_others hd hk
      rw [advLit_kids_none hw'.2 hothers]
      simp only [hk, if_true, List.append_nil]
      rw [List.filter_cons]
      obtain ⟨t, k', hk', hh⟩ := wfNode_head hw'.1
      rw [hk'] at hk
      have ht : t = .lit b := kindOf_cons_static.mp hk
      subst ht
      have hm : (Sel.static b).matches c.key = true := by rw [hk']; simp [Sel.matches]
      simp [hm, filter_none hothers, specHost_lit hh]
    · simp only [hk, if_false, List.nil_append]
      rw [ih hw'.2 (nodup_tail hd), List.filter_cons]
      simp [matches_false hk]

theorem hpart_param {cs : List Node} (hw : wfKids cs = true) (hd : nodupB (kindsOf cs) = true)
    (b : UInt8) (rest path : Bytes) (ps : Binds) :
    hostParamPart (sufsKids cs) (b :: rest) path ps =
      (cs.filter (fun c => Sel.param.matches c.key)).flatMap (fun c => specHost (sufsNode c) (b :: rest) path ps) := by
  induction cs with
  | nil => simp [hostParamPart]
  | cons c cs ih =>
    have hw' := wfKids_cons.mp hw
    rw [List.filter_cons]
    by_cases hk : kindOf c.key = some .param
    · have hothers := nodup_others hd hk
      have hA : advParam (sufsKids (c :: cs)) = advParam (sufsNode c) := by
        rw [sufsKids_cons, advParam_append, advParam_kids_none hw'.2 hothers]; simp
      rw [hostParamPart_congr hA]
      obtain ⟨t, k', hk', hh⟩ := wfNode_head hw'.1
      have hk2 := hk
      rw [hk'] at hk2
      obtain ⟨n, rfl⟩ := kindOf_cons_param.mp hk2
      have hspec : specHost (sufsNode c) (b :: rest) path ps = hostParamPart (sufsNode c) (b :: rest) path ps := by
        rw [specHost_cons, advLit_allHead_other hh (by intro c; simp)]; simp [specHost_nil]
      simp [(sel_matches_iff _ _).mpr hk, filter_none hothers, hspec]
    · have hA : advParam (sufsKids (c :: cs)) = advParam (sufsKids cs) := by
        rw [sufsKids_cons, advParam_append, advParam_child_nonparam hw'.1 hk]; simp
      rw [hostParamPart_congr hA, ih hw'.2 (nodup_tail hd)]
      simp [matches_false hk]

theorem specHost_kids {cs : List Node} (hw : wfKids cs = true) (hd : nodupB (kindsOf cs) = true)
    (b : UInt8) (rest path : Bytes) (ps : Binds) :
    specHost (sufsKids cs) (b :: rest) path ps =
      (cs.filter (fun c => (Sel.static b).matches c.key)).flatMap (fun c => specHost (sufsNode c) (b :: rest) path ps)
      ++ (cs.filter (fun c => Sel.param.matches c.key)).flatMap (fun c => specHost (sufsNode c) (b :: rest) path ps) := by
  rw [specHost_cons, hpart_static hw hd, hpart_param hw hd]

theorem specHost_sufsFrom_nil_cons (n : Node) (b rest path ps) :
    specHost (sufsFrom n []) (b :: rest) path ps = specHost (sufsKids n.children) (b :: rest) path ps := by
  have hmap : (sufsKids n.children).map (fun sr => (([] : List Tok) ++ sr.1, sr.2)) = sufsKids n.children := by simp
  rw [sufsFrom_eq, hmap, specHost_cons, specHost_cons (sufsKids n.children), advLit_append]
  have h1 : advLit b (routeSuf n.route []) = [] := by cases n.route <;> simp [routeSuf, advLit]
  have h2 : advParam (routeSuf n.route [] ++ sufsKids n.children) = advParam (sufsKids n.children) := by
    rw [advParam_append]; cases n.route <;> simp [routeSuf, advParam]
  rw [h1, hostParamPart_congr h2]; simp

theorem noSlashTok_cons {t : Tok} {k : List Tok} :
    noSlashTok (t :: k) = true ↔ t ≠ .lit SLASH ∧ noSlashTok k = true := by
  unfold noSlashTok
  rw [List.contains_cons]
  cases hb : (Tok.lit SLASH == t) with
  | false =>
    have : t ≠ Tok.lit SLASH := by intro ht; subst ht; simp at hb
    simp [this]
  | true =>
    have : t = Tok.lit SLASH := (eq_of_beq hb).symm
    simp [this]

/-! ### main statement -/

def H1 (path : Bytes) (n : Node) (k : List Tok) (host : Bytes) (ps : Binds) : Prop :=
  wfKids n.children = true → nodupB (kindsOf n.children) = true → hostOkKids n.children = true →
  noSlashTok k = true → SLASH ∉ host →
  directs (hostWalk n k host path ps) = specHost (sufsFrom n k) host path ps

def H2 (path : Bytes) (sel : Sel) (cs : List Node) (host : Bytes) (ps : Binds) : Prop :=
  wfKids cs = true → hostOkKids cs = true → sel ≠ .static SLASH → sel ≠ .catchAll → SLASH ∉ host →
  directs (hostKids sel cs host path ps) =
    (cs.filter (fun c => sel.matches c.key)).flatMap (fun c => specHost (sufsNode c) host path ps)

theorem hostWalk_refines_all (path : Bytes) :
    (∀ n k host ps, H1 path n k host ps) ∧ (∀ sel cs host ps, H2 path sel cs host ps) := by
  apply hostWalk.mutual_induct (H1 path) (H2 path)
  -- end of key, end of host: continue with the path below the "/" child
  · intro n ps c hc hw hd _ _ _
    unfold hostWalk
    simp only [hc]
    rw [specHost_nil_host, sufsFrom_eq, List.filter_append]
    have hmap : (sufsKids n.children).map (fun sr => (([] : List Tok) ++ sr.1, sr.2)) = sufsKids n.children := by simp
    have h1 : (routeSuf n.route []).filter headSlash = [] := by cases n.route <;> simp [routeSuf, headSlash]
    rw [hmap, h1, filter_headSlash_kids hw hd, hc]
    simp only [List.nil_append]
    have hcw : wfNode c = true := by
      have hmem := List.mem_of_find?_eq_some hc
      generalize n.children = cs at hw hmem
      induction cs with
      | nil => cases hmem
      | cons x xs ih =>
        have hw' := wfKids_cons.mp hw
        cases hmem with
        | head => exact hw'.1
        | tail _ h' => exact ih hw'.2 h'
    exact pathEvents_direct hcw path ps
  · intro n ps hc hw hd _ _ _
    unfold hostWalk
    simp only [hc]
    rw [specHost_nil_host, sufsFrom_eq, List.filter_append]
    have hmap : (sufsKids n.children).map (fun sr => (([] : List Tok) ++ sr.1, sr.2)) = sufsKids n.children := by simp
    have h1 : (routeSuf n.route []).filter headSlash = [] := by cases n.route <;> simp [routeSuf, headSlash]
    rw [hmap, h1, filter_headSlash_kids hw hd, hc]
    simp [specAll_nil]
  -- end of key, host continues: static child, then param child
  · intro n ps b rest ih1 ih2 hw hd hh _ hs
    unfold hostWalk
    rw [specHost_sufsFrom_nil_cons, specHost_kids hw hd, directs_append]
    have hb : b ≠ SLASH := by intro h; apply hs; simp [h]
    rw [ih1 hw hh (by intro h; injection h with h; exact hb h) (by simp) hs, ih2 hw hh (by simp) (by simp) hs]
  -- literal
  · intro n ps c k' _ _ _ hk _
    unfold hostWalk
    rw [specHost_nil_host, filter_headSlash_allHead (allHead_sufsFrom n _ _) (noSlashTok_cons.mp hk).1]
    simp [specAll_nil]
  · intro n ps k' b rest ih hw hd hh hk hs
    unfold hostWalk
    simp only [if_true]
    rw [ih hw hd hh (noSlashTok_cons.mp hk).2 (by intro h; apply hs; simp [h]),
        specHost_lit (allHead_sufsFrom n _ _), tails_sufsFrom]
    simp
  · intro n ps c k' b rest hcb _ _ _ _ _
    unfold hostWalk
    simp only [hcb, if_false]
    rw [specHost_lit (allHead_sufsFrom n _ _)]; simp [hcb]
  -- param
  · intro n ps nm k' _ _ _ hk _
    unfold hostWalk
    rw [specHost_nil_host, filter_headSlash_allHead (allHead_sufsFrom n _ _) (by simp)]
    simp [specAll_nil]
  · intro n ps nm k' b rest he _ _ _ _ _
    unfold hostWalk
    simp only [he, if_true]
    rw [specHost_param (allHead_sufsFrom n _ _)]; simp [he]
  · intro n ps nm k' b rest he ih hw hd hh hk hs
    unfold hostWalk
    simp only [he, if_false]
    rw [ih hw hd hh (noSlashTok_cons.mp hk).2 (by
          intro h; apply hs
          exact List.mem_of_mem_drop h),
        specHost_param (allHead_sufsFrom n _ _), tails_sufsFrom]
    simp [he]
  -- catch-all (never in hostnames)
  · intro n host ps nm k' _ _ _ _ _
    unfold hostWalk
    cases host with
    | nil =>
      rw [specHost_nil_host, filter_headSlash_allHead (allHead_sufsFrom n _ _) (by simp)]
      simp [specAll_nil]
    | cons b rest => rw [specHost_catch (allHead_sufsFrom n _ _)]; rfl
  -- hostKids
  · intro sel host ps _ _ _ _ _
    unfold hostKids; simp
  · intro sel host ps c cs' ih1 ih2 hw hh hsel hsel2 hs
    have hw' := wfKids_cons.mp hw
    have hh' := hostOkKids_cons.mp hh
    unfold hostKids
    rw [directs_append, ih2 hw'.2 hh'.2 hsel hsel2 hs, List.filter_cons]
    by_cases hm : sel.matches c.key = true
    · simp only [hm, if_true, List.flatMap_cons]
      have hp := wfNode_parts hw'.1
      have hns : startsWithSlash c.key = false := by
        cases hx : startsWithSlash c.key with
        | false => rfl
        | true =>
          exfalso
          have := (sel_matches_iff _ _).mp hm
          rw [kindOf_of_startsWithSlash hx] at this
          injection this with this
          exact hsel this.symm
      have hok : noSlashTok c.key = true ∧ hostOkKids c.children = true := by
        cases c with
        | mk ck cr ccs =>
          simp only [hostOkNode, Bool.or_eq_true, Bool.and_eq_true] at hh'
          simp only [Node.key] at hns
          rcases hh'.1 with h | h
          · rw [hns] at h; cases h
          · exact h
      rw [ih1 hp.1 hp.2.1 hok.2 hok.1 hs, sufsNode_eq]
    · simp [hm]

end Fox.Model
