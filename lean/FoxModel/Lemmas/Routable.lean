import FoxModel.Props.C01Map
import FoxModel.Props.C10
set_option linter.unusedSimpArgs false
set_option linter.unusedVariables false
/-
  FoxModel.Lemmas.Routable — helper definitions and lemmas for the second half of property C10
  ("every accepted pattern is routable"), stated in `FoxModel/Props/C10Routable.lean`.

  Contents
   1. `instantiate`, `bindsOf`, `valsOk` : substituting values for the wildcards of a pattern;
   2. what the grammar (`Spec.validToks`) says about the shape of a pattern: the path part starts with '/',
      every wildcard is the last token of its segment / label, no catch-all in the hostname part;
   3. a well-formed instance of a well-shaped pattern is a declarative match (`Match` / `MatchHP`);
   4. a match of a pattern without infix catch-all is unique;
   5. `Spec.route` on a route list that contains a matching route answers directly.
-/
namespace Fox.C10
open Fox Fox.Model Fox.Spec

/-! ## 1. instances of a pattern -/

/-- the pattern with the i-th value substituted for the i-th wildcard (literals stand for themselves;
    a wildcard without a value contributes nothing) -/
def instantiate : List Tok → List Bytes → Bytes
  | [], _ => []
  | .lit b :: ts, vs => b :: instantiate ts vs
  | .param _ :: ts, v :: vs => v ++ instantiate ts vs
  | .catchAll _ :: ts, v :: vs => v ++ instantiate ts vs
  | .param _ :: ts, [] => instantiate ts []
  | .catchAll _ :: ts, [] => instantiate ts []

/-- the substituted values paired with the wildcard names, in pattern order -/
def bindsOf : List Tok → List Bytes → Binds
  | [], _ => []
  | .lit _ :: ts, vs => bindsOf ts vs
  | .param n :: ts, v :: vs => (n, v) :: bindsOf ts vs
  | .catchAll n :: ts, v :: vs => (n, v) :: bindsOf ts vs
  | .param _ :: _, [] => []
  | .catchAll _ :: _, [] => []

theorem bindsOf_eq_zip (ts : List Tok) (vs : List Bytes) : bindsOf ts vs = (wildNames ts).zip vs := by
  induction ts generalizing vs with
  | nil => simp [bindsOf, wildNames]
  | cons t ts ih =>
    cases t with
    | lit b => simp [bindsOf, wildNames, ih]
    | param n => cases vs <;> simp [bindsOf, wildNames, ih]
    | catchAll n => cases vs <;> simp [bindsOf, wildNames, ih]

/-- a `{param}` value: non-empty, without '/', and in the hostname part without '.' -/
def paramValOk (inHost : Bool) (v : Bytes) : Bool :=
  !v.isEmpty && !v.contains SLASH && !(inHost && v.contains DOT)

/-- a catch-all value: non-empty if the catch-all ends the pattern; for a catch-all followed by more pattern text
    the value must be one the router can capture there (`InfixCap`): non-empty, not starting with '/', not ending
    with '/', without empty segment "//" -/
def catchValOk (last : Bool) (v : Bytes) : Bool :=
  if last then !v.isEmpty else decide (InfixCap v)

/-- well-formed substitution, token by token; `inHost` = still in front of the first literal '/' (hostname part).
    Exactly one value per wildcard. A catch-all in the hostname part is never well-formed (the grammar has none). -/
def valsOkAux : Bool → List Tok → List Bytes → Bool
  | _, [], vs => vs.isEmpty
  | inHost, .lit b :: ts, vs => valsOkAux (inHost && b != SLASH) ts vs
  | inHost, .param _ :: ts, v :: vs => paramValOk inHost v && valsOkAux inHost ts vs
  | inHost, .catchAll _ :: ts, v :: vs => !inHost && catchValOk ts.isEmpty v && valsOkAux inHost ts vs
  | _, .param _ :: _, [] => false
  | _, .catchAll _ :: _, [] => false

/-- **well-formed substitution** for a whole pattern `hostpattern/pathpattern` -/
def valsOk (toks : List Tok) (vals : List Bytes) : Bool := valsOkAux true toks vals

/-- the request an instantiated pattern stands for: Host = the bytes before the first '/', path = the rest -/
def reqHost (x : Bytes) : Bytes := x.takeWhile (· != SLASH)
def reqPath (x : Bytes) : Bytes := x.dropWhile (· != SLASH)

theorem reqHost_append_reqPath (x : Bytes) : reqHost x ++ reqPath x = x := List.takeWhile_append_dropWhile

theorem req_split {a b : Bytes} (ha : SLASH ∉ a) (hb : b.head? = some SLASH) :
    reqHost (a ++ b) = a ∧ reqPath (a ++ b) = b := by
  induction a with
  | nil =>
    cases b with
    | nil => simp at hb
    | cons c b' =>
      simp at hb; subst hb
      simp [reqHost, reqPath, List.takeWhile, List.dropWhile]
  | cons c a ih =>
    simp only [List.mem_cons, not_or] at ha
    have hc : (c != SLASH) = true := by simp; exact fun e => ha.1 e.symm
    obtain ⟨h1, h2⟩ := ih ha.2
    simp only [reqHost, reqPath] at h1 h2 ⊢
    simp [List.takeWhile, List.dropWhile, hc, h1, h2]

/-! ## 2. the shape of a valid pattern -/

def nextIsLit (d : UInt8) : List Tok → Bool
  | [] => true
  | t :: _ => t == .lit d

/-- every wildcard is the last token of the list or is followed by the literal `d` -/
def wildAtEnd (d : UInt8) : List Tok → Bool
  | [] => true
  | .lit _ :: ts => wildAtEnd d ts
  | .param _ :: ts => nextIsLit d ts && wildAtEnd d ts
  | .catchAll _ :: ts => nextIsLit d ts && wildAtEnd d ts

theorem shape_lit (b : UInt8) (l : List Tok) : shape (.lit b :: l) = (shape l).map fun p => (b :: p.1, p.2) := by
  simp only [shape]

theorem shape_param (n : Bytes) (l : List Tok) :
    shape (.param n :: l) = if l = [] then some ([], some (.param n)) else none := by
  cases l <;> simp [shape]

theorem shape_catchAll (n : Bytes) (l : List Tok) :
    shape (.catchAll n :: l) = if l = [] then some ([], some (.catchAll n)) else none := by
  cases l <;> simp [shape]

theorem splitAtLit_head_nil {d : UInt8} {ts : List Tok} {ls : List (List Tok)} (h : splitAtLit d ts = [] :: ls) :
    nextIsLit d ts = true := by
  cases ts with
  | nil => rfl
  | cons t ts' =>
    by_cases ht : t = .lit d
    · subst ht; simp [nextIsLit]
    · obtain ⟨l, ls', _, h2⟩ := splitAtLit_cons ts' ht
      rw [h2] at h; simp at h

/-- pieces that are "text then at most one wildcard" put every wildcard in front of a separator -/
theorem wildAtEnd_of_shape (d : UInt8) : ∀ ts : List Tok,
    (splitAtLit d ts).all (fun l => (shape l).isSome) = true → wildAtEnd d ts = true := by
  intro ts
  induction ts with
  | nil => intro _; rfl
  | cons t ts ih =>
    intro h
    by_cases ht : t = .lit d
    · subst ht
      rw [splitAtLit_sep] at h
      simp only [List.all_cons, Bool.and_eq_true] at h
      simp only [wildAtEnd]; exact ih h.2
    · obtain ⟨l, ls, h1, h2⟩ := splitAtLit_cons ts ht
      rw [h2] at h
      simp only [List.all_cons, Bool.and_eq_true] at h
      cases t with
      | lit b =>
        simp only [wildAtEnd]
        apply ih; rw [h1]
        simp only [List.all_cons, Bool.and_eq_true]
        refine ⟨?_, h.2⟩
        have := h.1; rw [shape_lit] at this
        cases hs : shape l with
        | none => rw [hs] at this; simp at this
        | some _ => rfl
      | param n =>
        have hl : l = [] := by
          have := h.1; rw [shape_param] at this
          by_cases hl : l = []
          · exact hl
          · rw [if_neg hl] at this; simp at this
        subst hl
        simp only [wildAtEnd, Bool.and_eq_true]
        refine ⟨splitAtLit_head_nil h1, ih ?_⟩
        rw [h1]; simp only [List.all_cons, Bool.and_eq_true]; exact ⟨rfl, h.2⟩
      | catchAll n =>
        have hl : l = [] := by
          have := h.1; rw [shape_catchAll] at this
          by_cases hl : l = []
          · exact hl
          · rw [if_neg hl] at this; simp at this
        subst hl
        simp only [wildAtEnd, Bool.and_eq_true]
        refine ⟨splitAtLit_head_nil h1, ih ?_⟩
        rw [h1]; simp only [List.all_cons, Bool.and_eq_true]; exact ⟨rfl, h.2⟩

theorem segOk_shape {lim : Limits} {l : List Tok} (h : segOk lim l = true) : (shape l).isSome = true := by
  unfold segOk at h
  cases hs : shape l with
  | none => rw [hs] at h; simp at h
  | some _ => rfl

/-- a hostname label as far as the routing proofs care: text, then nothing or one `{param}` -/
def labelShape (l : List Tok) : Bool :=
  match shape l with
  | some (_, none) => true
  | some (_, some (.param _)) => true
  | _ => false

theorem labelOk_labelShape {lim : Limits} {l : List Tok} (h : labelOk lim l = true) : labelShape l = true := by
  unfold labelOk at h
  unfold labelShape
  cases hs : shape l with
  | none => rw [hs] at h; simp at h
  | some p =>
    obtain ⟨txt, w⟩ := p
    rw [hs] at h
    simp only [Bool.and_eq_true] at h
    cases w with
    | none => rfl
    | some t =>
      cases t with
      | param n => rfl
      | lit b => simp at h
      | catchAll n => simp at h

theorem labelShape_isSome {l : List Tok} (h : labelShape l = true) : (shape l).isSome = true := by
  unfold labelShape at h
  cases hs : shape l with
  | none => rw [hs] at h; simp at h
  | some _ => rfl

theorem labelShape_lit {b : UInt8} {l : List Tok} (h : labelShape (.lit b :: l) = true) : labelShape l = true := by
  unfold labelShape at h ⊢
  rw [shape_lit] at h
  cases hs : shape l with
  | none => rw [hs] at h; simp at h
  | some p =>
    obtain ⟨txt, w⟩ := p
    rw [hs] at h
    cases w with
    | none => rfl
    | some t => cases t <;> first | rfl | (simp at h)

/-- labels without catch-all: the hostname part has no catch-all -/
theorem noCatch_of_labels (d : UInt8) : ∀ ts : List Tok,
    (splitAtLit d ts).all labelShape = true → NoCatch ts := by
  intro ts
  induction ts with
  | nil => intro _ t ht; simp at ht
  | cons t ts ih =>
    intro h
    by_cases ht : t = .lit d
    · subst ht
      rw [splitAtLit_sep] at h
      simp only [List.all_cons, Bool.and_eq_true] at h
      intro t' ht'
      rcases List.mem_cons.1 ht' with rfl | hm
      · rfl
      · exact ih h.2 t' hm
    · obtain ⟨l, ls, h1, h2⟩ := splitAtLit_cons ts ht
      rw [h2] at h
      simp only [List.all_cons, Bool.and_eq_true] at h
      have hrest : (splitAtLit d ts).all labelShape = true ∧ t.isCatch = false := by
        rw [h1]; simp only [List.all_cons, Bool.and_eq_true]
        cases t with
        | lit b => exact ⟨⟨labelShape_lit h.1, h.2⟩, rfl⟩
        | param n =>
          have hl : l = [] := by
            have := labelShape_isSome h.1; rw [shape_param] at this
            by_cases hl : l = []
            · exact hl
            · rw [if_neg hl] at this; simp at this
          subst hl
          exact ⟨⟨rfl, h.2⟩, rfl⟩
        | catchAll n =>
          exfalso
          have := h.1
          unfold labelShape at this
          rw [shape_catchAll] at this
          by_cases hl : l = []
          · rw [if_pos hl] at this; simp at this
          · rw [if_neg hl] at this; simp at this
      intro t' ht'
      rcases List.mem_cons.1 ht' with rfl | hm
      · exact hrest.2
      · exact ih hrest.1 t' hm

theorem all_imp {α} {p q : α → Bool} {l : List α} (h : l.all p = true) (hpq : ∀ a, p a = true → q a = true) :
    l.all q = true := by
  rw [List.all_eq_true] at h ⊢
  exact fun a ha => hpq a (h a ha)

/-- **What the grammar says about the shape of a pattern** (all the routing proofs need): split at the first
    literal '/', the path part is not empty (so it starts with '/'), each path wildcard ends its segment, the
    hostname part has no catch-all and each hostname `{param}` ends its label. -/
theorem shape_of_valid {lim : Limits} {toks : List Tok} (h : validToks lim toks = true) :
    (∃ p', toks.dropWhile (!isSlash ·) = .lit SLASH :: p') ∧
    wildAtEnd SLASH (toks.dropWhile (!isSlash ·)) = true ∧
    NoCatch (toks.takeWhile (!isSlash ·)) ∧
    wildAtEnd DOT (toks.takeWhile (!isSlash ·)) = true := by
  simp only [validToks, Bool.and_eq_true, Bool.or_eq_true] at h
  obtain ⟨⟨⟨⟨h1, h2⟩, h3⟩, _⟩, _⟩ := h
  refine ⟨?_, ?_, ?_, ?_⟩
  · rcases dropWhile_head toks with hp | ⟨p, hp⟩
    · rw [hp] at h1; simp at h1
    · exact ⟨p, hp⟩
  · exact wildAtEnd_of_shape SLASH _ (all_imp h3 fun l hl => segOk_shape hl)
  · rcases h2 with h2 | h2
    · rw [List.isEmpty_iff] at h2; rw [h2]; intro t ht; simp at ht
    · simp only [hostOk, Bool.and_eq_true] at h2
      exact noCatch_of_labels DOT _ (all_imp h2.1.1 fun l hl => labelOk_labelShape hl)
  · rcases h2 with h2 | h2
    · rw [List.isEmpty_iff] at h2; rw [h2]; rfl
    · simp only [hostOk, Bool.and_eq_true] at h2
      exact wildAtEnd_of_shape DOT _ (all_imp h2.1.1 fun l hl => labelShape_isSome (labelOk_labelShape hl))

/-! ## 3. a well-formed instance is a declarative match -/

theorem head_inst_of_nextIsLit {d : UInt8} {ts : List Tok} {vs : List Bytes} (h : nextIsLit d ts = true) :
    ∀ c, (instantiate ts vs).head? = some c → c = d := by
  intro c hc
  cases ts with
  | nil => simp [instantiate] at hc
  | cons t ts' =>
    simp only [nextIsLit, beq_iff_eq] at h
    subst h
    simp [instantiate] at hc
    exact hc.symm

theorem paramValOk_iff {inHost : Bool} {v : Bytes} :
    paramValOk inHost v = true ↔ v ≠ [] ∧ SLASH ∉ v ∧ (inHost = true → DOT ∉ v) := by
  cases inHost <;> simp [paramValOk, List.isEmpty_iff, and_assoc]

theorem catchValOk_ne_nil {last : Bool} {v : Bytes} (h : catchValOk last v = true) : v ≠ [] := by
  unfold catchValOk at h
  split at h
  · simpa [List.isEmpty_iff] using h
  · exact (of_decide_eq_true h).1

theorem valsOkAux_false_lit (b : UInt8) (ts : List Tok) (vs : List Bytes) :
    valsOkAux false (.lit b :: ts) vs = valsOkAux false ts vs := by
  simp [valsOkAux]

theorem valsOkAux_true_lit {b : UInt8} (hb : b ≠ SLASH) (ts : List Tok) (vs : List Bytes) :
    valsOkAux true (.lit b :: ts) vs = valsOkAux true ts vs := by
  have : (b != SLASH) = true := by simpa using hb
  simp [valsOkAux, this]

theorem valsOkAux_true_slash (ts : List Tok) (vs : List Bytes) :
    valsOkAux true (.lit SLASH :: ts) vs = valsOkAux false (.lit SLASH :: ts) vs := by
  simp [valsOkAux]

/-- the path part: a well-formed instance of a pattern whose wildcards end their segments matches, with the
    substituted values as captures -/
theorem match_path : ∀ (p : List Tok) (vp : List Bytes), wildAtEnd SLASH p = true → valsOkAux false p vp = true →
    Match SLASH p (instantiate p vp) (bindsOf p vp) := by
  intro p
  induction p with
  | nil =>
    intro vp _ hv
    simp only [valsOkAux, List.isEmpty_iff] at hv; subst hv
    exact Match.nil
  | cons t ts ih =>
    intro vp hw hv
    cases t with
    | lit b =>
      rw [valsOkAux_false_lit] at hv
      simp only [wildAtEnd] at hw
      simp only [instantiate, bindsOf]
      exact Match.lit (ih vp hw hv)
    | param n =>
      cases vp with
      | nil => simp [valsOkAux] at hv
      | cons v vs =>
        simp only [valsOkAux, Bool.and_eq_true] at hv
        simp only [wildAtEnd, Bool.and_eq_true] at hw
        obtain ⟨h1, h2, _⟩ := paramValOk_iff.1 hv.1
        simp only [instantiate, bindsOf]
        exact Match.param h1 h2 (head_inst_of_nextIsLit hw.1) (ih vs hw.2 hv.2)
    | catchAll n =>
      cases vp with
      | nil => simp [valsOkAux] at hv
      | cons v vs =>
        simp only [valsOkAux, Bool.and_eq_true, Bool.not_false, true_and] at hv
        simp only [wildAtEnd, Bool.and_eq_true] at hw
        simp only [instantiate, bindsOf]
        cases ts with
        | nil =>
          have hvs : vs = [] := by simpa [valsOkAux, List.isEmpty_iff] using hv.2
          subst hvs
          simp only [instantiate, bindsOf, List.append_nil]
          exact Match.suffix (catchValOk_ne_nil hv.1)
        | cons t' ts' =>
          have hcap : InfixCap v := by
            have := hv.1; simp only [catchValOk, List.isEmpty_cons] at this
            exact of_decide_eq_true (by simpa using this)
          have ht' : t' = .lit SLASH := by simpa [nextIsLit] using hw.1
          subst ht'
          refine Match.infix hcap (by simp) ?_ (ih vs hw.2 hv.2)
          simp [instantiate]

/-- the hostname part (no literal '/'): a well-formed instance matches label-wise, and contains no '/' -/
theorem match_host : ∀ (h : List Tok) (vh : List Bytes), wildAtEnd DOT h = true → Tok.lit SLASH ∉ h →
    valsOkAux true h vh = true →
    Match DOT h (instantiate h vh) (bindsOf h vh) ∧ SLASH ∉ instantiate h vh := by
  intro h
  induction h with
  | nil =>
    intro vh _ _ hv
    simp only [valsOkAux, List.isEmpty_iff] at hv; subst hv
    exact ⟨Match.nil, by simp [instantiate]⟩
  | cons t ts ih =>
    intro vh hw hs hv
    simp only [List.mem_cons, not_or] at hs
    cases t with
    | lit b =>
      have hb : b ≠ SLASH := fun e => hs.1 (by rw [e])
      rw [valsOkAux_true_lit hb] at hv
      simp only [wildAtEnd] at hw
      obtain ⟨h1, h2⟩ := ih vh hw hs.2 hv
      simp only [instantiate, bindsOf]
      exact ⟨Match.lit h1, by simp only [List.mem_cons, not_or]; exact ⟨fun e => hb e.symm, h2⟩⟩
    | param n =>
      cases vh with
      | nil => simp [valsOkAux] at hv
      | cons v vs =>
        simp only [valsOkAux, Bool.and_eq_true] at hv
        simp only [wildAtEnd, Bool.and_eq_true] at hw
        obtain ⟨h1, h2, h3⟩ := paramValOk_iff.1 hv.1
        obtain ⟨i1, i2⟩ := ih vs hw.2 hs.2 hv.2
        simp only [instantiate, bindsOf]
        refine ⟨Match.param h1 (h3 rfl) (head_inst_of_nextIsLit hw.1) i1, ?_⟩
        simp only [List.mem_append, not_or]; exact ⟨h2, i2⟩
    | catchAll n =>
      cases vh with
      | nil => simp [valsOkAux] at hv
      | cons v vs => simp [valsOkAux] at hv

theorem instantiate_ne_nil : ∀ (inHost : Bool) (ts : List Tok) (vs : List Bytes), ts ≠ [] →
    valsOkAux inHost ts vs = true → instantiate ts vs ≠ [] := by
  intro inHost ts vs hne hv
  cases ts with
  | nil => exact absurd rfl hne
  | cons t ts' =>
    cases t with
    | lit b => simp [instantiate]
    | param n =>
      cases vs with
      | nil => simp [valsOkAux] at hv
      | cons v vs' =>
        simp only [valsOkAux, Bool.and_eq_true] at hv
        have := (paramValOk_iff.1 hv.1).1
        simp [instantiate, this]
    | catchAll n =>
      cases vs with
      | nil => simp [valsOkAux] at hv
      | cons v vs' =>
        simp only [valsOkAux, Bool.and_eq_true] at hv
        have := catchValOk_ne_nil hv.1.2
        simp [instantiate, this]

/-- splitting a well-formed substitution at the first literal '/' -/
theorem valsOk_split : ∀ (h : List Tok) (p' : List Tok) (vals : List Bytes), Tok.lit SLASH ∉ h →
    valsOkAux true (h ++ .lit SLASH :: p') vals = true →
    ∃ vh vp, vals = vh ++ vp ∧ valsOkAux true h vh = true ∧ valsOkAux false (.lit SLASH :: p') vp = true ∧
      instantiate (h ++ .lit SLASH :: p') vals = instantiate h vh ++ instantiate (.lit SLASH :: p') vp ∧
      bindsOf (h ++ .lit SLASH :: p') vals = bindsOf h vh ++ bindsOf (.lit SLASH :: p') vp := by
  intro h
  induction h with
  | nil =>
    intro p' vals _ hv
    rw [List.nil_append, valsOkAux_true_slash] at hv
    exact ⟨[], vals, rfl, rfl, hv, by simp [instantiate], by simp [bindsOf]⟩
  | cons t ts ih =>
    intro p' vals hs hv
    simp only [List.mem_cons, not_or] at hs
    cases t with
    | lit b =>
      have hb : b ≠ SLASH := fun e => hs.1 (by rw [e])
      rw [List.cons_append, valsOkAux_true_lit hb] at hv
      obtain ⟨vh, vp, e1, e2, e3, e4, e5⟩ := ih p' vals hs.2 hv
      refine ⟨vh, vp, e1, by rw [valsOkAux_true_lit hb]; exact e2, e3, ?_, ?_⟩
      · simp only [List.cons_append, instantiate, e4]
      · simp only [List.cons_append, bindsOf, e5]
    | param n =>
      cases vals with
      | nil => simp [valsOkAux] at hv
      | cons v vs =>
        simp only [List.cons_append, valsOkAux, Bool.and_eq_true] at hv
        obtain ⟨vh, vp, e1, e2, e3, e4, e5⟩ := ih p' vs hs.2 hv.2
        refine ⟨v :: vh, vp, by rw [e1]; rfl, ?_, e3, ?_, ?_⟩
        · simp only [valsOkAux, Bool.and_eq_true]; exact ⟨hv.1, e2⟩
        · simp only [List.cons_append, instantiate, e4, List.append_assoc]
        · simp only [List.cons_append, bindsOf, e5]
    | catchAll n =>
      cases vals with
      | nil => simp [valsOkAux] at hv
      | cons v vs => simp [valsOkAux] at hv

/-! ## 4. without infix catch-all a match is unique -/

/-- no catch-all is followed by further pattern text (a catch-all, if any, is the last token) -/
def noInfix : List Tok → Bool
  | [] => true
  | .lit _ :: ts => noInfix ts
  | .param _ :: ts => noInfix ts
  | .catchAll _ :: ts => ts.isEmpty

theorem match_unique {d : UInt8} : ∀ (s : List Tok) (x : Bytes) (bs bs' : Binds), noInfix s = true →
    Match d s x bs → Match d s x bs' → bs = bs' := by
  intro s
  induction s with
  | nil =>
    intro x bs bs' _ h1 h2
    rw [h1.nil_inv.2, h2.nil_inv.2]
  | cons t ts ih =>
    intro x bs bs' hn h1 h2
    cases t with
    | lit b =>
      obtain ⟨s1, e1, m1⟩ := h1.lit_inv
      obtain ⟨s2, e2, m2⟩ := h2.lit_inv
      rw [e1] at e2; simp only [List.cons.injEq, true_and] at e2; subst e2
      exact ih _ _ _ hn m1 m2
    | param n =>
      obtain ⟨v1, s1, b1, e1, rfl, _, d1, hd1, m1⟩ := h1.param_inv
      obtain ⟨v2, s2, b2, e2, rfl, _, d2, hd2, m2⟩ := h2.param_inv
      rw [e1] at e2
      obtain ⟨rfl, rfl⟩ := Spec.param_split_unique e2 d1 d2 hd1 hd2
      rw [ih _ _ _ hn m1 m2]
    | catchAll n =>
      simp only [noInfix, List.isEmpty_iff] at hn
      rcases h1.catch_inv with ⟨_, _, rfl⟩ | ⟨hne, _⟩
      · rcases h2.catch_inv with ⟨_, _, rfl⟩ | ⟨hne, _⟩
        · rfl
        · exact absurd hn hne
      · exact absurd hn hne

theorem noInfix_of_noCatch {h : List Tok} (hc : NoCatch h) : noInfix h = true := by
  induction h with
  | nil => rfl
  | cons t ts ih =>
    cases t with
    | lit b => exact ih hc.tail
    | param n => exact ih hc.tail
    | catchAll n => exact absurd (hc _ (List.mem_cons_self ..)) (by simp [Tok.isCatch])

theorem noInfix_append_right {h p : List Tok} (hc : NoCatch h) (hn : noInfix (h ++ p) = true) :
    noInfix p = true := by
  induction h with
  | nil => exact hn
  | cons t ts ih =>
    cases t with
    | lit b => exact ih hc.tail hn
    | param n => exact ih hc.tail hn
    | catchAll n => exact absurd (hc _ (List.mem_cons_self ..)) (by simp [Tok.isCatch])

/-! ## 5. a registered route that matches is never dead -/

theorem pathOutcome_of_match {P : List Route} {path : Bytes} {o : Option Found} {r : Route} {bs : Binds}
    (hp : C01Spec.PathOutcome C01Spec.HitP P path o) (hr : r ∈ P) (hM : Match SLASH r.pattern path bs) :
    ∃ f, o = some f ∧ f.tsr = false ∧ f.route ∈ P ∧ Match SLASH f.route.pattern path f.params := by
  cases o with
  | none => exact absurd hM (hp.1 r hr bs)
  | some f =>
    rcases hp with ⟨ht, hq⟩ | ⟨_, hn, _⟩
    · exact ⟨f, rfl, ht, hq.1, hq.2⟩
    · exact absurd hM (hn r hr bs)

/-- **A registered route that matches a request is never dead**: if some route `r` of the list matches the request
    directly (a hostname route the stripped non-empty host and the path, a path-only route the path), `Spec.route`
    answers, with a registered route that matches the request directly - except that a path-only `r` may be
    outranked by a slash-adjusted match of a *hostname* route (hostname routes are staged first, C09). -/
theorem route_of_match {rs : List Route} {r : Route} {hostPort path : Bytes} {bs : Binds} (hr : r ∈ rs)
    (hm : (isHostRoute r = true ∧ stripHostPort hostPort ≠ [] ∧
            MatchHP r.pattern (stripHostPort hostPort) path bs) ∨
          (isHostRoute r = false ∧ Match SLASH r.pattern path bs)) :
    ∃ f, Spec.route rs hostPort path = some f ∧ f.route ∈ rs ∧
      ((f.tsr = false ∧
          ((isHostRoute f.route = true ∧ MatchHP f.route.pattern (stripHostPort hostPort) path f.params) ∨
           (isHostRoute f.route = false ∧ Match SLASH f.route.pattern path f.params))) ∨
       (f.tsr = true ∧ isHostRoute r = false ∧ isHostRoute f.route = true ∧ C01Spec.HostMode rs hostPort)) := by
  have ho := C01Spec.route_outcome_hit rs hostPort path
  have pathCase : isHostRoute r = false → Match SLASH r.pattern path bs →
      C01Spec.PathOutcome C01Spec.HitP (C01Spec.pathRoutes rs) path (Spec.route rs hostPort path) →
      ∃ f, Spec.route rs hostPort path = some f ∧ f.route ∈ rs ∧
      ((f.tsr = false ∧
          ((isHostRoute f.route = true ∧ MatchHP f.route.pattern (stripHostPort hostPort) path f.params) ∨
           (isHostRoute f.route = false ∧ Match SLASH f.route.pattern path f.params))) ∨
       (f.tsr = true ∧ isHostRoute r = false ∧ isHostRoute f.route = true ∧ C01Spec.HostMode rs hostPort)) := by
    intro h1 h2 hp
    have hrP : r ∈ C01Spec.pathRoutes rs := List.mem_filter.2 ⟨hr, by simp [h1]⟩
    obtain ⟨f, e, ht, hf, hM⟩ := pathOutcome_of_match hp hrP h2
    have := List.mem_filter.1 hf
    exact ⟨f, e, this.1, Or.inl ⟨ht, Or.inr ⟨by simpa using this.2, hM⟩⟩⟩
  by_cases hmode : C01Spec.HostMode rs hostPort
  · rcases ho.1 hmode with ⟨f, e, ht, hq⟩ | ⟨hn, f, e, ht, p', added, ha, hq⟩ | ⟨hn, _, hp⟩
    · have := List.mem_filter.1 hq.1
      exact ⟨f, e, this.1, Or.inl ⟨ht, Or.inl ⟨this.2, hq.2⟩⟩⟩
    · rcases hm with ⟨h1, _, h3⟩ | ⟨h1, h2⟩
      · exact absurd h3 (hn r (List.mem_filter.2 ⟨hr, h1⟩) bs)
      · have := List.mem_filter.1 (C01Spec.mem_cand hq.1)
        exact ⟨f, e, this.1, Or.inr ⟨ht, h1, this.2, hmode⟩⟩
    · rcases hm with ⟨h1, _, h3⟩ | ⟨h1, h2⟩
      · exact absurd h3 (hn r (List.mem_filter.2 ⟨hr, h1⟩) bs)
      · exact pathCase h1 h2 hp
  · rcases hm with ⟨h1, h2, _⟩ | ⟨h1, h2⟩
    · exfalso
      apply hmode
      refine ⟨?_, h2⟩
      intro e
      have : r ∈ C01Spec.hostRoutes rs := List.mem_filter.2 ⟨hr, h1⟩
      rw [e] at this; simp at this
    · exact pathCase h1 h2 (ho.2 hmode)

/-! ## 6. an accepted pattern with the parser's host/path split is a `validPattern` -/

/-- literal tokens are never the wildcard delimiters -/
def litsOk (toks : List Tok) : Bool :=
  toks.all fun | .lit b => b != STAR && b != LBR | _ => true

theorem tokenize_litsOk : ∀ (k : Nat) (s : Bytes) (toks : List Tok), s.length = k → tokenize s = some toks →
    litsOk toks = true := by
  intro k
  induction k using Nat.strongRecOn with
  | _ k ih =>
    intro s toks hk h
    cases s with
    | nil => rw [tokenize_nil] at h; cases h; rfl
    | cons b bs =>
      by_cases h1 : b = LBR
      · subst h1; rw [tokenize_lbr] at h
        cases htn : takeName bs with
        | none => rw [htn] at h; cases h
        | some nr =>
          obtain ⟨n, r⟩ := nr
          rw [htn] at h; simp only at h
          obtain ⟨hbs, _⟩ := takeName_spec htn
          cases hr : tokenize r with
          | none => rw [hr] at h; cases h
          | some ts =>
            rw [hr] at h; simp at h; subst h
            have := ih r.length (by rw [← hk, hbs]; simp; omega) r ts rfl hr
            simpa [litsOk] using this
      · by_cases h2 : b = STAR
        · subst h2
          cases bs with
          | nil => rw [tokenize_star_nil] at h; cases h
          | cons c cs =>
            by_cases h3 : c = LBR
            · subst h3; rw [tokenize_star_lbr] at h
              cases htn : takeName cs with
              | none => rw [htn] at h; cases h
              | some nr =>
                obtain ⟨n, r⟩ := nr
                rw [htn] at h; simp only at h
                obtain ⟨hbs, _⟩ := takeName_spec htn
                cases hr : tokenize r with
                | none => rw [hr] at h; cases h
                | some ts =>
                  rw [hr] at h; simp at h; subst h
                  have := ih r.length (by rw [← hk, hbs]; simp; omega) r ts rfl hr
                  simpa [litsOk] using this
            · rw [tokenize_star_other c cs h3] at h; cases h
        · rw [tokenize_lit b bs h1 h2] at h
          cases hr : tokenize bs with
          | none => rw [hr] at h; cases h
          | some ts =>
            rw [hr] at h; simp at h; subst h
            have := ih bs.length (by rw [← hk]; simp) bs ts rfl hr
            simp only [litsOk, List.all_cons, Bool.and_eq_true, bne_iff_ne, ne_eq] at this ⊢
            exact ⟨⟨h2, h1⟩, this⟩

theorem keyOk_path : ∀ p : List Tok, litsOk p = true → wildAtEnd SLASH p = true → keyOk p = true := by
  intro p
  induction p with
  | nil => intro _ _; rfl
  | cons t ts ih =>
    intro hl hw
    simp only [litsOk, List.all_cons, Bool.and_eq_true] at hl
    have hl' : litsOk ts = true := hl.2
    cases t with
    | lit b =>
      simp only [wildAtEnd] at hw
      simp only [keyOk, Bool.and_eq_true]
      exact ⟨by simpa using hl.1, ih hl' hw⟩
    | param n =>
      simp only [wildAtEnd, Bool.and_eq_true] at hw
      simp only [keyOk]; exact ih hl' hw.2
    | catchAll n =>
      simp only [wildAtEnd, Bool.and_eq_true] at hw
      simp only [keyOk, Bool.and_eq_true]
      refine ⟨?_, ih hl' hw.2⟩
      cases ts with
      | nil => rfl
      | cons t' ts' => exact hw.1

theorem keyOk_append : ∀ h p : List Tok, NoCatch h → litsOk h = true → keyOk p = true → keyOk (h ++ p) = true := by
  intro h
  induction h with
  | nil => intro p _ _ hp; exact hp
  | cons t ts ih =>
    intro p hc hl hp
    simp only [litsOk, List.all_cons, Bool.and_eq_true] at hl
    have hl' : litsOk ts = true := hl.2
    cases t with
    | lit b =>
      simp only [List.cons_append, keyOk, Bool.and_eq_true]
      exact ⟨by simpa using hl.1, ih p hc.tail hl' hp⟩
    | param n => simp only [List.cons_append, keyOk]; exact ih p hc.tail hl' hp
    | catchAll n => exact absurd (hc _ (List.mem_cons_self ..)) (by simp [Tok.isCatch])

theorem litsOk_append (a b : List Tok) : litsOk (a ++ b) = (litsOk a && litsOk b) := by
  simp [litsOk]

theorem endsWithCatchAll_of_noCatch {h : List Tok} (hc : NoCatch h) : endsWithCatchAll h = false := by
  unfold endsWithCatchAll
  cases hg : h.getLast? with
  | none => rfl
  | some t =>
    have hm : t ∈ h := List.mem_of_getLast? hg
    have := hc t hm
    cases t <;> simp_all [Tok.isCatch]

/-- the split of a pattern in front of its first literal '/' is unique -/
theorem split_first_slash {toks a b' : List Tok} (h : toks = a ++ .lit SLASH :: b') (ha : Tok.lit SLASH ∉ a) :
    toks.takeWhile (!isSlash ·) = a ∧ toks.dropWhile (!isSlash ·) = .lit SLASH :: b' := by
  subst h
  induction a with
  | nil => simp [List.takeWhile, List.dropWhile, isSlash]
  | cons t ts ih =>
    simp only [List.mem_cons, not_or] at ha
    have ht : isSlash t = false := by
      cases hs : isSlash t with
      | false => rfl
      | true => exact absurd ((isSlash_iff t).mp hs).symm ha.1
    obtain ⟨i1, i2⟩ := ih ha.2
    simp [List.takeWhile, List.dropWhile, ht, i1, i2]

theorem startsWithSlash_iff {k : List Tok} : startsWithSlash k = true ↔ ∃ k', k = .lit SLASH :: k' := by
  cases k with
  | nil => simp [startsWithSlash]
  | cons t ts =>
    cases t with
    | lit b => simp [startsWithSlash]
    | param n => simp [startsWithSlash]
    | catchAll n => simp [startsWithSlash]

theorem noSlashTok_iff {k : List Tok} : noSlashTok k = true ↔ Tok.lit SLASH ∉ k := by
  simp [noSlashTok]

/-- the recorded split of a `splitOk` route is the split at the first literal '/' -/
theorem splitOk_split {r : Route} (h : splitOk r = true) :
    ∃ p', r.pattern = r.hostPart ++ .lit SLASH :: p' ∧ Tok.lit SLASH ∉ r.hostPart ∧
      r.pattern.takeWhile (!isSlash ·) = r.hostPart ∧ r.pattern.dropWhile (!isSlash ·) = .lit SLASH :: p' ∧
      (r.hostToks = 0 ↔ r.hostPart = []) := by
  unfold splitOk at h
  simp only [Bool.and_eq_true] at h
  obtain ⟨p', hp'⟩ := startsWithSlash_iff.1 h.1
  have hno := noSlashTok_iff.1 h.2
  have hp : r.pattern = r.hostPart ++ .lit SLASH :: p' := by
    rw [← hp']; exact (List.take_append_drop _ _).symm
  obtain ⟨e1, e2⟩ := split_first_slash hp hno
  refine ⟨p', hp, hno, e1, e2, ?_⟩
  unfold Route.hostPart
  constructor
  · intro h0; rw [h0]; rfl
  · intro h0
    rw [List.take_eq_nil_iff] at h0
    rcases h0 with h0 | h0
    · exact h0
    · rw [h0] at hp; simp at hp

/-! ## 7. the instance of a grammatical pattern, decomposed at the first '/' -/

theorem instance_decomp {lim : Limits} {toks : List Tok} {vals : List Bytes}
    (hv : validToks lim toks = true) (hvals : valsOk toks vals = true) :
    ∃ h p' vh vp, toks = h ++ .lit SLASH :: p' ∧ Tok.lit SLASH ∉ h ∧ NoCatch h ∧ vals = vh ++ vp ∧
      reqHost (instantiate toks vals) = instantiate h vh ∧
      reqPath (instantiate toks vals) = instantiate (.lit SLASH :: p') vp ∧
      Match DOT h (instantiate h vh) (bindsOf h vh) ∧
      Match SLASH (.lit SLASH :: p') (instantiate (.lit SLASH :: p') vp) (bindsOf (.lit SLASH :: p') vp) ∧
      bindsOf toks vals = bindsOf h vh ++ bindsOf (.lit SLASH :: p') vp ∧
      SLASH ∉ instantiate h vh ∧ (h ≠ [] → instantiate h vh ≠ []) ∧ (h = [] → vh = []) ∧
      wildAtEnd SLASH (.lit SLASH :: p') = true ∧ valsOkAux true h vh = true := by
  obtain ⟨⟨p', hp⟩, hwP, hnc, hwH⟩ := shape_of_valid hv
  have hno := takeWhile_no_slash toks
  have htoks : toks = toks.takeWhile (!isSlash ·) ++ toks.dropWhile (!isSlash ·) :=
    (List.takeWhile_append_dropWhile).symm
  rw [hp] at htoks hwP
  obtain ⟨h, hh⟩ : ∃ h, h = toks.takeWhile (!isSlash ·) := ⟨_, rfl⟩
  rw [← hh] at htoks hno hnc hwH
  unfold valsOk at hvals
  rw [htoks] at hvals
  obtain ⟨vh, vp, e1, e2, e3, e4, e5⟩ := valsOk_split h p' vals hno hvals
  obtain ⟨mh, hsl⟩ := match_host h vh hwH hno e2
  have mp := match_path _ vp hwP e3
  have hhead : (instantiate (.lit SLASH :: p') vp).head? = some SLASH := by simp [instantiate]
  obtain ⟨r1, r2⟩ := req_split hsl hhead
  refine ⟨h, p', vh, vp, htoks, hno, hnc, e1, ?_, ?_, mh, mp, ?_, hsl, ?_, ?_, hwP, e2⟩
  · rw [htoks, e4]; exact r1
  · rw [htoks, e4]; exact r2
  · rw [htoks]; exact e5
  · intro hne; exact instantiate_ne_nil true h vh hne e2
  · intro he; subst he; simpa [valsOkAux, List.isEmpty_iff] using e2

/-! ## 8. the same for a route carrying the pattern -/

theorem isHostRoute_false_iff (r : Route) : isHostRoute r = false ↔ r.hostToks = 0 := by
  simp [isHostRoute]

theorem isHostRoute_true_iff (r : Route) : isHostRoute r = true ↔ r.hostToks ≠ 0 := by
  simp [isHostRoute]

/-- a well-formed instance of a grammatical pattern matches the route that carries the pattern (with the split in
    front of the first literal '/'), with exactly the substituted values as captures -/
theorem instance_matches {lim : Limits} {r : Route} {vals : List Bytes}
    (hv : validToks lim r.pattern = true) (hs : splitOk r = true) (hvals : valsOk r.pattern vals = true) :
    SLASH ∉ reqHost (instantiate r.pattern vals) ∧
    (isHostRoute r = false → reqHost (instantiate r.pattern vals) = [] ∧
      Match SLASH r.pattern (reqPath (instantiate r.pattern vals)) (bindsOf r.pattern vals)) ∧
    (isHostRoute r = true → reqHost (instantiate r.pattern vals) ≠ [] ∧
      MatchHP r.pattern (reqHost (instantiate r.pattern vals)) (reqPath (instantiate r.pattern vals))
        (bindsOf r.pattern vals)) := by
  obtain ⟨h, p', vh, vp, e1, e2, e3, e4, e5, e6, mh, mp, eb, hsl, hne, hnil, _⟩ := instance_decomp hv hvals
  obtain ⟨q', s1, s2, s3, s4, s5⟩ := splitOk_split hs
  have hh : r.hostPart = h := by rw [← s3]; exact (split_first_slash e1 e2).1
  refine ⟨by rw [e5]; exact hsl, fun h0 => ?_, fun h0 => ?_⟩
  · have hnil' : h = [] := by rw [← hh]; exact s5.1 ((isHostRoute_false_iff r).1 h0)
    have hvh := hnil hnil'
    subst hnil'; subst hvh
    rw [e5, e6, eb]
    refine ⟨rfl, ?_⟩
    rw [e1]; simpa [bindsOf] using mp
  · have hne' : h ≠ [] := by
      rw [← hh]; intro e; exact (isHostRoute_true_iff r).1 h0 (s5.2 e)
    rw [e5, e6, eb]
    exact ⟨hne hne', h, _, _, _, e1, rfl, e3, mh, mp, rfl⟩

/-- ... and without infix catch-all these are the only captures -/
theorem instance_unique {lim : Limits} {r : Route} {vals : List Bytes} {ps : Binds}
    (hv : validToks lim r.pattern = true) (hs : splitOk r = true) (hvals : valsOk r.pattern vals = true)
    (hni : noInfix r.pattern = true) :
    (isHostRoute r = false → Match SLASH r.pattern (reqPath (instantiate r.pattern vals)) ps →
      ps = bindsOf r.pattern vals) ∧
    (isHostRoute r = true →
      MatchHP r.pattern (reqHost (instantiate r.pattern vals)) (reqPath (instantiate r.pattern vals)) ps →
      ps = bindsOf r.pattern vals) := by
  obtain ⟨h1, h2, h3⟩ := instance_matches hv hs hvals
  refine ⟨fun h0 hM => ?_, fun h0 hM => ?_⟩
  · exact match_unique _ _ _ _ hni hM (h2 h0).2
  · obtain ⟨h, p', vh, vp, e1, e2, e3, e4, e5, e6, mh, mp, eb, hsl, hne, hnil, _⟩ := instance_decomp hv hvals
    obtain ⟨_, bh, bp, m1, m2, rfl⟩ := C01Spec.matchHP_split_unique hM h1 e1 rfl e2
    rw [e5] at m1; rw [e6] at m2
    rw [e1] at hni
    have u1 := match_unique _ _ _ _ (noInfix_of_noCatch e3) m1 mh
    have u2 := match_unique _ _ _ _ (noInfix_append_right e3 hni) m2 mp
    rw [u1, u2, eb]

/-! ## 9. the instantiated hostname has no trailing dot (so a port-free Host is its own stripped form) -/

theorem splitAtLit_last_sep (d : UInt8) : ∀ ts : List Tok, ts.getLast? = some (.lit d) →
    ∃ l ls, splitAtLit d ts = l :: ls ∧ [] ∈ ls := by
  intro ts
  induction ts with
  | nil => intro h; simp at h
  | cons t ts ih =>
    intro h
    cases ts with
    | nil =>
      simp at h; subst h
      exact ⟨[], [[]], by simp [splitAtLit], by simp⟩
    | cons t2 rest =>
      rw [List.getLast?_cons_cons] at h
      obtain ⟨l, ls, e, hm⟩ := ih h
      by_cases ht : t = .lit d
      · subst ht
        exact ⟨[], l :: ls, by rw [splitAtLit_sep, e], List.mem_cons_of_mem _ hm⟩
      · obtain ⟨l', ls', e1, e2⟩ := splitAtLit_cons (t2 :: rest) ht
        rw [e] at e1; injection e1 with e1 e1'; subst e1; subst e1'
        exact ⟨t :: l, ls, e2, hm⟩

theorem labelOk_nil (lim : Limits) : labelOk lim [] = false := by simp [labelOk, shape]

theorem hostOk_no_trailing_dot {lim : Limits} {h : List Tok} (hh : hostOk lim h = true) :
    h.getLast? ≠ some (.lit DOT) := by
  intro hl
  obtain ⟨l, ls, e, hm⟩ := splitAtLit_last_sep DOT h hl
  simp only [hostOk, Bool.and_eq_true] at hh
  have := hh.1.1
  rw [List.all_eq_true] at this
  have := this [] (by rw [e]; exact List.mem_cons_of_mem _ hm)
  rw [labelOk_nil] at this; cases this

theorem getLast?_append_of_ne_nil' {α} (a : List α) {b : List α} (h : b ≠ []) :
    (a ++ b).getLast? = b.getLast? := by
  rw [List.getLast?_append]
  cases hb : b.getLast? with
  | none => simp at hb; exact absurd hb h
  | some x => simp

theorem instantiate_last_not_dot : ∀ (h : List Tok) (vh : List Bytes), valsOkAux true h vh = true →
    Tok.lit SLASH ∉ h → h.getLast? ≠ some (.lit DOT) → (instantiate h vh).getLast? ≠ some DOT := by
  intro h
  induction h with
  | nil => intro vh _ _ _; simp [instantiate]
  | cons t ts ih =>
    intro vh hv hs hl
    simp only [List.mem_cons, not_or] at hs
    cases ts with
    | nil =>
      cases t with
      | lit b =>
        simp only [instantiate, List.getLast?_singleton, ne_eq, Option.some.injEq]
        intro e; subst e; exact hl rfl
      | param n =>
        cases vh with
        | nil => simp [valsOkAux] at hv
        | cons v vs =>
          simp only [valsOkAux, Bool.and_eq_true] at hv
          obtain ⟨_, _, h3⟩ := paramValOk_iff.1 hv.1
          simp only [instantiate, List.append_nil]
          intro e
          exact h3 rfl (List.mem_of_getLast? e)
      | catchAll n =>
        cases vh with
        | nil => simp [valsOkAux] at hv
        | cons v vs => simp [valsOkAux] at hv
    | cons t2 rest =>
      rw [List.getLast?_cons_cons] at hl
      cases t with
      | lit b =>
        have hb : b ≠ SLASH := fun e => hs.1 (by rw [e])
        rw [valsOkAux_true_lit hb] at hv
        have hne := instantiate_ne_nil true (t2 :: rest) vh (by simp) hv
        have := ih vh hv hs.2 hl
        simp only [instantiate]
        rw [show b :: instantiate (t2 :: rest) vh = [b] ++ instantiate (t2 :: rest) vh from rfl,
          getLast?_append_of_ne_nil' _ hne]
        exact this
      | param n =>
        cases vh with
        | nil => simp [valsOkAux] at hv
        | cons v vs =>
          simp only [valsOkAux, Bool.and_eq_true] at hv
          have hne := instantiate_ne_nil true (t2 :: rest) vs (by simp) hv.2
          have := ih vs hv.2 hs.2 hl
          simp only [instantiate]
          rw [getLast?_append_of_ne_nil' _ hne]
          exact this
      | catchAll n =>
        cases vh with
        | nil => simp [valsOkAux] at hv
        | cons v vs => simp [valsOkAux] at hv

/-- the instantiated hostname of a grammatical pattern does not end with '.' -/
theorem reqHost_no_trailing_dot {lim : Limits} {toks : List Tok} {vals : List Bytes}
    (hv : validToks lim toks = true) (hvals : valsOk toks vals = true) :
    (reqHost (instantiate toks vals)).getLast? ≠ some DOT := by
  obtain ⟨h, p', vh, vp, e1, e2, e3, e4, e5, e6, mh, mp, eb, hsl, hne, hnil, _, hval⟩ := instance_decomp hv hvals
  rw [e5]
  have hh : toks.takeWhile (!isSlash ·) = h := (split_first_slash e1 e2).1
  by_cases h0 : h = []
  · subst h0; simp [instantiate]
  · apply instantiate_last_not_dot h vh hval e2
    have hv' := hv
    simp only [validToks, Bool.and_eq_true, Bool.or_eq_true] at hv'
    obtain ⟨⟨⟨⟨_, h2⟩, _⟩, _⟩, _⟩ := hv'
    rw [hh] at h2
    rcases h2 with h2 | h2
    · exact absurd (List.isEmpty_iff.1 h2) h0
    · exact hostOk_no_trailing_dot h2

/-- hence a Host header equal to the instantiated hostname (no port) is its own stripped form, provided the
    substituted hostname values contain no ':' -/
theorem strip_reqHost {lim : Limits} {toks : List Tok} {vals : List Bytes}
    (hv : validToks lim toks = true) (hvals : valsOk toks vals = true)
    (hc : COLON ∉ reqHost (instantiate toks vals)) :
    stripHostPort (reqHost (instantiate toks vals)) = reqHost (instantiate toks vals) :=
  C01Spec.stripHostPort_id _ hc (reqHost_no_trailing_dot hv hvals)

end Fox.C10
