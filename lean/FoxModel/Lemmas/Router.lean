import FoxModel.Model.Router
/-
  FoxModel.Lemmas.Router — bookkeeping lemmas about the transaction table of `Model/Router` and the invariants a managed
  function body preserves (used by C04).
-/
namespace Fox.Model.Router

theorem list_find_map {l : List TxnSt} {t : TxnId} {x y : TxnSt} (h : l.find? (·.id == t) = some y) (hx : x.id = t) :
    (l.map fun z => if z.id == t then x else z).find? (·.id == t) = some x := by
  induction l with
  | nil => simp at h
  | cons a l ih =>
    simp only [List.map_cons, List.find?_cons]
    by_cases ha : (a.id == t) = true
    · have hxt : (x.id == t) = true := by simp [hx]
      simp only [ha, if_true, hxt]
    · have ha' : (a.id == t) = false := by simpa using ha
      simp only [List.find?_cons, ha'] at h
      simp only [ha', Bool.false_eq_true, if_false]
      exact ih h

theorem find_set {s : State} {t : TxnId} {x y : TxnSt} (h : s.find t = some y) (hx : x.id = t) :
    (s.set t x).find t = some x := list_find_map h hx

@[simp] theorem set_published (s : State) (t : TxnId) (x : TxnSt) : (s.set t x).published = s.published := rfl
@[simp] theorem set_mu (s : State) (t : TxnId) (x : TxnSt) : (s.set t x).mu = s.mu := rfl
@[simp] theorem set_next (s : State) (t : TxnId) (x : TxnSt) : (s.set t x).next = s.next := rfl

/-- adding a fresh entry in front does not hide an older transaction -/
theorem find_cons_fresh {s : State} {t : TxnId} (ht : t < s.next) (n : TxnSt) (hn : n.id = s.next) (p : Tree) (m : Option TxnId) :
    ({ s with published := p, mu := m, txns := n :: s.txns, next := s.next + 1 } : State).find t = s.find t := by
  unfold State.find
  simp only [List.find?_cons]
  have : (n.id == t) = false := by
    rw [hn]; exact beq_false_of_ne (Nat.ne_of_gt ht)
  simp [this]

/-- every operation of a managed function except `Commit` leaves the published tree alone -/
theorem bodyStep_published (s : State) (t : TxnId) (b : BOp) (hb : b ≠ .commit) :
    (bodyStep s t b).1.published = s.published := by
  cases b with
  | w x => simp only [bodyStep, txnWrite]; split <;> try rfl
           split <;> try rfl
           split <;> rfl
  | r q => simp only [bodyStep, txnRead]; split <;> try rfl
           split <;> rfl
  | snap => simp only [bodyStep, snapshot]; split <;> try rfl
            split <;> rfl
  | iter => simp only [bodyStep, iter]; split <;> try rfl
            split <;> rfl
  | commit => exact absurd rfl hb
  | abort => simp only [bodyStep, abort]; split <;> try rfl
             split <;> try rfl
             split <;> rfl

theorem runBody_published (s : State) (t : TxnId) (body : List BOp) (hb : BOp.commit ∉ body) :
    (runBody s t body).1.published = s.published := by
  induction body generalizing s with
  | nil => rfl
  | cons b bs ih =>
    simp only [runBody]
    rw [ih _ (fun h => hb (List.mem_cons_of_mem _ h))]
    exact bodyStep_published s t b (fun h => hb (by simp [h]))

theorem abort_published (s : State) (t : TxnId) : (abort s t).1.published = s.published :=
  bodyStep_published s t .abort (by simp)

/-- what is known about the managed write transaction `t` while its function runs: either it is open and holds the
    lock, or it has been settled (by a Commit/Abort inside the function) and the lock is free -/
def Managed (t : TxnId) (s : State) : Prop :=
  t < s.next ∧
  ((s.mu = some t ∧ ∃ x, s.find t = some x ∧ x.id = t ∧ x.write = true ∧ x.settled = false) ∨
   (s.mu = none ∧ ∃ x, s.find t = some x ∧ x.id = t ∧ x.write = true ∧ x.settled = true))

theorem managed_begin (s : State) (hmu : s.mu = none) : Managed s.next (begin s true).1 := by
  simp only [begin, hmu]
  refine ⟨by simp, Or.inl ⟨rfl, ⟨s.next, true, false, s.published⟩, ?_, rfl, rfl, rfl⟩⟩
  simp [State.find]

theorem managed_step {t : TxnId} {s : State} (h : Managed t s) (b : BOp) : Managed t (bodyStep s t b).1 := by
  obtain ⟨hlt, hcase⟩ := h
  rcases hcase with ⟨hmu, x, hf, hid, hw, hs⟩ | ⟨hmu, x, hf, hid, hw, hs⟩
  · -- open
    cases x with
    | mk xi xw xs xt =>
    simp only at hid hw hs
    subst hid hw hs
    cases b with
    | w op =>
      simp only [bodyStep, txnWrite, hf]
      simp only [Bool.false_eq_true, ↓reduceIte, Bool.not_true]
      exact ⟨hlt, Or.inl ⟨hmu, _, find_set hf rfl, rfl, rfl, rfl⟩⟩
    | r q =>
      simp only [bodyStep, txnRead, hf]
      exact ⟨hlt, Or.inl ⟨hmu, _, hf, rfl, rfl, rfl⟩⟩
    | snap =>
      simp only [bodyStep, snapshot, hf]
      simp only [Bool.false_eq_true, ↓reduceIte]
      refine ⟨Nat.lt_succ_of_lt hlt, Or.inl ⟨hmu, ⟨xi, true, false, xt⟩, ?_, rfl, rfl, rfl⟩⟩
      rw [← hf]; exact find_cons_fresh hlt _ rfl _ _
    | iter =>
      simp only [bodyStep, iter, hf]
      simp only [Bool.false_eq_true, ↓reduceIte]
      refine ⟨Nat.lt_succ_of_lt hlt, Or.inl ⟨hmu, ⟨xi, true, false, xt⟩, ?_, rfl, rfl, rfl⟩⟩
      rw [← hf]; exact find_cons_fresh hlt _ rfl _ _
    | commit =>
      simp only [bodyStep, commit, hf]
      simp only [Bool.not_true, Bool.false_eq_true, ↓reduceIte]
      exact ⟨hlt, Or.inr ⟨rfl, ⟨xi, true, true, xt⟩, find_set hf rfl, rfl, rfl, rfl⟩⟩
    | abort =>
      simp only [bodyStep, abort, hf]
      simp only [Bool.not_true, Bool.false_eq_true, ↓reduceIte]
      exact ⟨hlt, Or.inr ⟨rfl, ⟨xi, true, true, xt⟩, find_set hf rfl, rfl, rfl, rfl⟩⟩
  · -- settled
    have keep : Managed t s := ⟨hlt, Or.inr ⟨hmu, x, hf, hid, hw, hs⟩⟩
    cases b with
    | w op => simp only [bodyStep, txnWrite, hf, hs]; exact keep
    | r q => simp only [bodyStep, txnRead, hf, hs]; exact keep
    | snap => simp only [bodyStep, snapshot, hf, hs]; exact keep
    | iter => simp only [bodyStep, iter, hf, hs]; exact keep
    | commit => simp only [bodyStep, commit, hf, hs, hw]; exact keep
    | abort => simp only [bodyStep, abort, hf, hs, hw]; exact keep

theorem managed_runBody {t : TxnId} {s : State} (h : Managed t s) (body : List BOp) : Managed t (runBody s t body).1 := by
  induction body generalizing s with
  | nil => exact h
  | cons b bs ih => simp only [runBody]; exact ih (managed_step h b)

/-- both `Commit` and `Abort` of a managed transaction leave the lock free -/
theorem managed_commit_mu {t : TxnId} {s : State} (h : Managed t s) :
    (commit s t).1.mu = none ∧ Managed t (commit s t).1 := by
  have hm := managed_step h .commit
  simp only [bodyStep] at hm
  refine ⟨?_, hm⟩
  obtain ⟨_, hcase⟩ := h
  rcases hcase with ⟨_, x, hf, _, hw, hs⟩ | ⟨hmu, x, hf, _, hw, hs⟩
  · simp [commit, hf, hs, hw]
  · simp [commit, hf, hs, hw, hmu]

theorem managed_abort_mu {t : TxnId} {s : State} (h : Managed t s) : (abort s t).1.mu = none := by
  obtain ⟨_, hcase⟩ := h
  rcases hcase with ⟨_, x, hf, _, hw, hs⟩ | ⟨hmu, x, hf, _, hw, hs⟩
  · simp [abort, hf, hs, hw]
  · simp [abort, hf, hs, hw, hmu]

/-- the private tree of an open write transaction after a sequence of writes through it -/
theorem runBody_writes {t : TxnId} {s : State} {tr : Tree} (hf : s.find t = some ⟨t, true, false, tr⟩) (ws : List WOp) :
    (runBody s t (ws.map .w)).1.find t = some ⟨t, true, false, applyWs tr ws⟩ ∧
    (runBody s t (ws.map .w)).1.published = s.published ∧ (runBody s t (ws.map .w)).1.mu = s.mu := by
  induction ws generalizing s tr with
  | nil => exact ⟨hf, rfl, rfl⟩
  | cons w ws ih =>
    simp only [List.map_cons, runBody, bodyStep]
    have hstep : (txnWrite s t w).1 = s.set t ⟨t, true, false, (applyW tr w).1⟩ := by
      simp [txnWrite, hf]
    have hf' : (txnWrite s t w).1.find t = some ⟨t, true, false, (applyW tr w).1⟩ := by
      rw [hstep]; exact find_set hf rfl
    obtain ⟨a, b, c⟩ := ih hf'
    refine ⟨?_, ?_, ?_⟩
    · simpa [applyWs] using a
    · rw [b, hstep]; rfl
    · rw [c, hstep]; rfl


/-! equation lemmas (so that proofs do not unfold the machine) -/

/-- the state right after a write transaction began -/
def afterBegin (s : State) : State :=
  { s with mu := some s.next, txns := ⟨s.next, true, false, s.published⟩ :: s.txns, next := s.next + 1 }

theorem begin_write_free {s : State} (hmu : s.mu = none) : begin s true = (afterBegin s, .opened s.next) := by
  simp [begin, hmu, afterBegin]

theorem afterBegin_find (s : State) : (afterBegin s).find s.next = some ⟨s.next, true, false, s.published⟩ := by
  simp [afterBegin, State.find]

theorem txnWrite_open {s : State} {t : TxnId} {x : TxnSt} (hf : s.find t = some x) (hs : x.settled = false)
    (hw : x.write = true) (w : WOp) :
    txnWrite s t w = (s.set t { x with tree := (applyW x.tree w).1 }, .w (applyW x.tree w).2) := by
  simp [txnWrite, hf, hs, hw]

theorem commit_open {s : State} {t : TxnId} {x : TxnSt} (hf : s.find t = some x) (hs : x.settled = false)
    (hw : x.write = true) :
    commit s t = ({ s.set t { x with settled := true } with published := x.tree, mu := none }, .done) := by
  simp [commit, hf, hs, hw]

theorem abort_open {s : State} {t : TxnId} {x : TxnSt} (hf : s.find t = some x) (hs : x.settled = false)
    (hw : x.write = true) :
    abort s t = ({ s.set t { x with settled := true } with mu := none }, .done) := by
  simp [abort, hf, hs, hw]

theorem commit_settled {s : State} {t : TxnId} {x : TxnSt} (hf : s.find t = some x) (hs : x.settled = true) :
    commit s t = (s, .done) := by
  simp [commit, hf, hs]

theorem abort_settled {s : State} {t : TxnId} {x : TxnSt} (hf : s.find t = some x) (hs : x.settled = true) :
    abort s t = (s, .done) := by
  simp [abort, hf, hs]

theorem find_id {s : State} {t : TxnId} {x : TxnSt} (hf : s.find t = some x) : x.id = t := by
  have := List.find?_some (p := fun y : TxnSt => y.id == t) hf
  simpa using this

/-- on an error the transaction's tree is the one it was -/
theorem applyW_err (t : Tree) (w : WOp) (h : (applyW t w).2.isErr = true) : (applyW t w).1 = t := by
  cases w with
  | handle m r => simp only [applyW] at h ⊢; split <;> simp_all [WRes.isErr]
  | update m r => simp only [applyW] at h ⊢; split <;> simp_all [WRes.isErr]
  | delete m p => simp only [applyW] at h ⊢; split <;> simp_all [WRes.isErr]
  | truncate ms => simp [applyW, WRes.isErr] at h

end Fox.Model.Router
