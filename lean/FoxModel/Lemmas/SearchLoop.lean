import FoxModel.Model.SearchLoop
import FoxModel.Lemmas.InsScan
import FoxModel.Lemmas.TreeInv
/-
  FoxModel.Lemmas.SearchLoop — the two nested loops of `roots.search` compute `Model.searchNode`.
-/
namespace Fox.Model.SearchLoop
open Fox Fox.Model Fox.Model.InsScan

theorem lcpB_eq_right_iff : ∀ (a b : Bytes), lcpB a b = b.length ↔ a.take b.length = b
  | [], [] => by simp [lcpB]
  | [], y :: b => by simp [lcpB]
  | x :: a, [] => by simp [lcpB]
  | x :: a, y :: b => by
    by_cases h : x = y
    · subst h
      simp only [lcpB, if_true, List.length_cons, Nat.add_right_cancel_iff, List.take_succ_cons, List.cons.injEq,
        true_and]
      exact lcpB_eq_right_iff a b
    · simp [lcpB, h]

theorem lcpB_eq_left_iff (a b : Bytes) : lcpB a b = a.length ↔ b.take a.length = a := by
  rw [lcpB_comm]; exact lcpB_eq_right_iff b a

theorem search_at_eq (n : Node) : ∀ p : Bytes, searchAt n p = searchNode n p := by
  induction n using Node.ind with
  | h key route cs ih =>
    intro p
    have hkids : ∀ (ds : List Node), (∀ c ∈ ds, ∀ p, searchAt c p = searchNode c p) →
        ∀ q, searchEdge ds q = searchKids ds q := by
      intro ds
      induction ds with
      | nil => intro _ q; simp [searchEdge, searchKids]
      | cons d ds ihd =>
        intro hd q
        simp only [searchEdge, searchKids]
        rw [hd d (by simp) q, ihd (fun c hc => hd c (by simp [hc])) q]
    obtain ⟨h1, h2⟩ := cowInner_eq (render key) p
    have hl := lcpB_le_left (render key) p
    have hr := lcpB_le_right (render key) p
    unfold searchAt searchNode
    simp only []
    rw [h1]
    by_cases hlen : p.length ≤ (render key).length
    · simp only [hlen, if_true]
      by_cases hpre : (render key).take p.length = p
      · have hlp := (lcpB_eq_right_iff _ _).mpr hpre
        have hstop : (cowInner (render key) p).2 = false := by
          cases hs : (cowInner (render key) p).2 with
          | false => rfl
          | true => have := (h2.mp hs).2; omega
        simp [hstop, hpre, hlp]
      · have hne : lcpB (render key) p ≠ p.length := fun e => hpre ((lcpB_eq_right_iff _ _).mp e)
        have hstop : (cowInner (render key) p).2 = true := h2.mpr ⟨by omega, by omega⟩
        simp [hstop, hpre]
    · simp only [hlen, if_false]
      by_cases hpre : p.take (render key).length = render key
      · have hlp := (lcpB_eq_left_iff _ _).mpr hpre
        have hstop : (cowInner (render key) p).2 = false := by
          cases hs : (cowInner (render key) p).2 with
          | false => rfl
          | true => have := (h2.mp hs).1; omega
        simp only [hstop, Bool.false_eq_true, if_false, hpre, if_true, hlp]
        have hd : p.drop (render key).length ≠ [] := by
          intro e
          have := congrArg List.length e
          simp at this; omega
        cases hq : p.drop (render key).length with
        | nil => exact absurd hq hd
        | cons b bs => simp only []; exact hkids cs ih (b :: bs)
      · have hne : lcpB (render key) p ≠ (render key).length := fun e => hpre ((lcpB_eq_left_iff _ _).mp e)
        have hstop : (cowInner (render key) p).2 = true := h2.mpr ⟨by omega, by omega⟩
        simp [hstop, hpre]

theorem search_edge_eq : ∀ (cs : List Node) (p : Bytes), searchEdge cs p = searchKids cs p
  | [], p => by simp [searchEdge, searchKids]
  | c :: cs, p => by
    simp only [searchEdge, searchKids]
    rw [search_at_eq c p, search_edge_eq cs p]

/-- **`roots.search` as the Go code runs it = the model's search**, for every tree and every byte string -/
theorem search_from_eq (root : Node) (p : Bytes) : searchFrom root p = searchRoot root p := by
  unfold searchFrom searchRoot
  cases p with
  | nil => simp
  | cons b bs => simp [search_edge_eq]

end Fox.Model.SearchLoop
