import FoxModel.Model.Serve
import FoxModel.Lemmas.PathStage
import FoxModel.Lemmas.SpecAlg
set_option linter.unusedSimpArgs false
set_option linter.unusedVariables false
/-
  FoxModel.Lemmas.ServeSpec — the model of `ServeHTTP` (`Model.serve`) against the specification `Spec.serve`, for an
  *abstract* pair (method roots, route lists per method) related by

    (H1) `lookup rs x host path = toResult (Spec.route (store x) host path)` for every probe method `x`,
    (H2) `x ∈ methods ↔ rs has a root for x with children`,
  and, for the Allow part only, the request hypothesis (H3) `urlPath = "/" → path = "/"`.

  No radix tree, no history here: `Props/C08Serve.lean` discharges (H1) by the end-to-end routing theorem
  (`Props/C01Map.lean`) and (H2) by `C02_methods`.
-/
namespace Fox.ServeSpec
open Fox Fox.Model Fox.Spec

/-- the provenance tag of finding F17 -/
def F17 : String := "allow-connect-tsr"

/-! ### the specification, with its `special` part named -/

/-- the OPTIONS / 405 / 404 part of `Spec.serve` (the `let special` of its definition) -/
def specSpecial (cfg : Cfg) (methods : List Bytes) (store : Bytes → List Route) (m host path urlPath : Bytes) : Served :=
  if m == OPTIONS && cfg.autoOptions then
    let a := if path == [STAR] then methods.filter (· != OPTIONS)
             else methods.filter fun x => serves (store x) x host path urlPath
    if a.isEmpty then { kind := .noRoute } else { kind := .options, allow := (a ++ [OPTIONS]).eraseDups }
  else if cfg.noMethod then
    let a := methods.filter fun x => x != m && serves (store x) x host path urlPath
    if a.isEmpty then { kind := .noRoute }
    else { kind := .noMethod, allow := (a ++ (if cfg.autoOptions then [OPTIONS] else [])).eraseDups }
  else { kind := .noRoute }

theorem spec_serve_eq (cfg : Cfg) (methods : List Bytes) (store : Bytes → List Route) (m host path urlPath : Bytes) :
    Spec.serve cfg methods store m host path urlPath =
      match route (store m) host path with
      | some ⟨r, ps, false⟩ => { kind := .route, route := some r, params := ps }
      | some ⟨r, ps, true⟩ =>
        if m != CONNECT && urlPath != [SLASH] then
          if r.ignoreTS then { kind := .route, route := some r, params := ps }
          else if r.redirectTS && path == cleanRef path then
            { kind := .redirect, code := if m == GET then 301 else 308, route := some r }
          else specSpecial cfg methods store m host path urlPath
        else specSpecial cfg methods store m host path urlPath
      | none => specSpecial cfg methods store m host path urlPath := rfl

theorem specSpecial_kind (cfg : Cfg) (methods : List Bytes) (store : Bytes → List Route) (m host path urlPath : Bytes) :
    (specSpecial cfg methods store m host path urlPath).kind = .options ∨
    (specSpecial cfg methods store m host path urlPath).kind = .noMethod ∨
    (specSpecial cfg methods store m host path urlPath).kind = .noRoute := by
  unfold specSpecial
  simp only []
  by_cases h1 : (m == OPTIONS && cfg.autoOptions) = true
  · simp only [h1, if_true]
    generalize (if (path == [STAR]) = true then methods.filter (· != OPTIONS)
      else methods.filter fun x => serves (store x) x host path urlPath) = a
    cases a.isEmpty <;> simp
  · simp only [h1, Bool.false_eq_true, if_false]
    by_cases h2 : cfg.noMethod = true
    · simp only [h2, if_true]
      generalize (methods.filter fun x => x != m && serves (store x) x host path urlPath) = a
      cases a.isEmpty <;> simp
    · simp [h2]

theorem spec_serve_kind_ne_bad (cfg : Cfg) (methods : List Bytes) (store : Bytes → List Route) (m host path urlPath : Bytes) :
    (Spec.serve cfg methods store m host path urlPath).kind ≠ .bad := by
  rw [spec_serve_eq]
  have := specSpecial_kind cfg methods store m host path urlPath
  have hsp : (specSpecial cfg methods store m host path urlPath).kind ≠ .bad := by
    intro h; rw [h] at this; simp at this
  split
  · simp
  · split
    · split
      · simp
      · split
        · simp
        · exact hsp
    · exact hsp
  · exact hsp

/-! ### `Spec.route` on the root path -/

theorem first_tsr {res : Res} {b : Bool} {f : Found} (h : first res b = some f) : f.tsr = b := by
  cases res with
  | nil => simp [first] at h
  | cons x xs => obtain ⟨r, ps⟩ := x; simp only [first, Option.some.injEq] at h; rw [← h]

theorem bestTsr_root (rs : List Route) (run : List Route → Bytes → Res) : bestTsr rs [SLASH] run = none := by
  simp [bestTsr, adjust]

theorem pathOnly_root {P : List Route} {f : Found} (h : pathOnly P [SLASH] = some f) : f.tsr = false := by
  unfold pathOnly at h
  rw [bestTsr_root] at h
  cases hf : first (specAll (sufsOf P) [SLASH] []) false with
  | none => simp [hf] at h
  | some g => simp only [hf, Option.orElse_some, Option.some.injEq] at h; rw [← h]; exact first_tsr hf

/-- the root path "/" is never matched by adjusting a trailing slash (`Spec.adjust` refuses it) -/
theorem route_root_no_tsr {rs : List Route} {host : Bytes} {f : Found} (h : route rs host [SLASH] = some f) :
    f.tsr = false := by
  unfold route at h
  simp only at h
  split at h
  · exact pathOnly_root h
  · rw [bestTsr_root] at h
    cases hf : first (specHost (sufsOf (rs.filter isHostRoute)) (stripHostPort host) [SLASH] []) false with
    | none =>
      simp only [hf, Option.orElse_none] at h
      exact pathOnly_root h
    | some g =>
      simp only [hf, Option.orElse_some, Option.some.injEq] at h
      rw [← h]; exact first_tsr hf

/-! ### one probe of the Allow loops -/

/-- the Allow test and the F17 marker, read off the specification's answer -/
def looseOf (o : Option Found) (x : Bytes) : Bool × Bool :=
  match o with
  | some f => (!f.tsr || f.route.ignoreTS, f.tsr && f.route.ignoreTS && x == CONNECT)
  | none => (false, false)

theorem allows_of_route {rs : Roots} {x host path : Bytes} {o : Option Found}
    (h : lookup rs x host path = toResult o) : allows rs x host path = looseOf o x := by
  unfold allows looseOf
  rw [h]
  cases o with
  | none => rfl
  | some f => rfl

theorem serves_eq (R : List Route) (x host path urlPath : Bytes) :
    serves R x host path urlPath =
      match route R host path with
      | some f => !f.tsr || (f.route.ignoreTS && x != CONNECT && urlPath != [SLASH])
      | none => false := rfl

/-- what dispatch serves, the Allow loops list -/
theorem loose_of_serves {R : List Route} {x host path urlPath : Bytes}
    (h : serves R x host path urlPath = true) : (looseOf (route R host path) x).1 = true := by
  rw [serves_eq] at h
  unfold looseOf
  cases ho : route R host path with
  | none => simp [ho] at h
  | some f =>
    simp only [ho] at h ⊢
    cases ht : f.tsr <;> simp [ht] at h ⊢
    exact h.1.1

/-- what the Allow loops list without the F17 marker, dispatch serves - provided the root path is really the root path -/
theorem serves_of_loose {R : List Route} {x host path urlPath : Bytes} (hroot : urlPath = [SLASH] → path = [SLASH])
    (h1 : (looseOf (route R host path) x).1 = true) (h2 : (looseOf (route R host path) x).2 = false) :
    serves R x host path urlPath = true := by
  rw [serves_eq]
  unfold looseOf at h1 h2
  cases ho : route R host path with
  | none => simp [ho] at h1
  | some f =>
    simp only [ho] at h1 h2 ⊢
    cases ht : f.tsr with
    | false => simp
    | true =>
      have hu : urlPath ≠ [SLASH] := by
        intro hu
        have hp := hroot hu
        rw [hp] at ho
        have := route_root_no_tsr ho
        rw [ht] at this; cases this
      simp only [ht, Bool.not_true, Bool.false_or, Bool.true_and] at h1 h2 ⊢
      have hx : (x == CONNECT) = false := by simpa [h1] using h2
      simp [h1, hu, bne, hx]

/-! ### the hit lists -/

theorem mem_optionsHits_star {rs : Roots} {host : Bytes} {y : Bytes × Bool} :
    y ∈ optionsHits rs host [STAR] ↔
      y.2 = false ∧ y.1 ≠ OPTIONS ∧ ∃ n, (y.1, n) ∈ rs ∧ n.children.isEmpty = false := by
  unfold optionsHits
  simp only [beq_self_eq_true, if_true, List.mem_map, List.mem_filter, Bool.and_eq_true, bne_iff_ne, ne_eq,
    Bool.not_eq_true']
  constructor
  · rintro ⟨a, ⟨ha, h1, h2⟩, rfl⟩
    exact ⟨rfl, h1, a.2, ha, h2⟩
  · rintro ⟨h0, h1, n, hn, h2⟩
    refine ⟨(y.1, n), ⟨hn, h1, h2⟩, ?_⟩
    obtain ⟨a, b⟩ := y
    simp only at h0; subst h0; rfl

theorem mem_optionsHits {rs : Roots} {host path : Bytes} (hp : path ≠ [STAR]) {y : Bytes × Bool} :
    y ∈ optionsHits rs host path ↔
      (∃ n, (y.1, n) ∈ rs) ∧ (allows rs y.1 host path).1 = true ∧ y.2 = (allows rs y.1 host path).2 := by
  unfold optionsHits
  have : (path == [STAR]) = false := by simpa using hp
  simp only [this, Bool.false_eq_true, if_false, List.mem_filterMap]
  constructor
  · rintro ⟨a, ha, h⟩
    by_cases hc : (allows rs a.1 host path).1 = true
    · simp only [hc, if_true, Option.some.injEq] at h
      subst h
      exact ⟨⟨a.2, ha⟩, hc, rfl⟩
    · simp [hc] at h
  · rintro ⟨⟨n, hn⟩, h1, h2⟩
    refine ⟨(y.1, n), hn, ?_⟩
    obtain ⟨a, b⟩ := y
    simp only at h1 h2 ⊢
    simp [h1, h2]

theorem mem_noMethodHits {rs : Roots} {m host path : Bytes} {y : Bytes × Bool} :
    y ∈ noMethodHits rs m host path ↔
      (∃ n, (y.1, n) ∈ rs) ∧ y.1 ≠ m ∧ (allows rs y.1 host path).1 = true ∧ y.2 = (allows rs y.1 host path).2 := by
  unfold noMethodHits
  simp only [List.mem_filterMap]
  constructor
  · rintro ⟨a, ha, h⟩
    by_cases hm : (a.1 == m) = true
    · simp [hm] at h
    · by_cases hc : (allows rs a.1 host path).1 = true
      · simp only [hm, hc, if_true, Bool.false_eq_true, if_false, Option.some.injEq] at h
        subst h
        exact ⟨⟨a.2, ha⟩, by simpa using hm, hc, rfl⟩
      · simp [hm, hc] at h
  · rintro ⟨⟨n, hn⟩, hm, h1, h2⟩
    refine ⟨(y.1, n), hn, ?_⟩
    obtain ⟨a, b⟩ := y
    simp only at hm h1 h2 ⊢
    have : (a == m) = false := by simpa using hm
    simp [this, h1, h2]

theorem any_snd_iff {l : List (Bytes × Bool)} : l.any (·.2) = true ↔ ∃ x, (x, true) ∈ l := by
  simp only [List.any_eq_true]
  constructor
  · rintro ⟨⟨a, b⟩, h, hb⟩; simp only at hb; subst hb; exact ⟨a, h⟩
  · rintro ⟨x, h⟩; exact ⟨(x, true), h, rfl⟩

theorem mem_map_fst {l : List (Bytes × Bool)} {x : Bytes} : x ∈ l.map (·.1) ↔ ∃ b, (x, b) ∈ l := by
  simp only [List.mem_map]
  constructor
  · rintro ⟨⟨a, b⟩, h, rfl⟩; exact ⟨b, h⟩
  · rintro ⟨b, h⟩; exact ⟨(x, b), h, rfl⟩

theorem star_untagged (rs : Roots) (host : Bytes) : (optionsHits rs host [STAR]).any (·.2) = false := by
  cases h : (optionsHits rs host [STAR]).any (·.2) with
  | false => rfl
  | true =>
    obtain ⟨x, hx⟩ := any_snd_iff.1 h
    have := (mem_optionsHits_star.1 hx).1
    cases this

/-! ### the abstract refinement hypotheses -/

/-- the matcher on the method roots answers as the routing specification on the route lists, for every probe method;
    `methods` are the methods whose root has children -/
structure Rel (rs : Roots) (methods : List Bytes) (store : Bytes → List Route) (host path : Bytes) : Prop where
  look : ∀ x, lookup rs x host path = toResult (route (store x) host path)
  meth : ∀ x, x ∈ methods ↔ ∃ n, (x, n) ∈ rs ∧ n.children.isEmpty = false

section
variable {rs : Roots} {methods : List Bytes} {store : Bytes → List Route} {host path urlPath : Bytes}
variable (H : Rel rs methods store host path)
include H

theorem Rel.allows (x : Bytes) : Model.allows rs x host path = looseOf (route (store x) host path) x :=
  allows_of_route (H.look x)

/-- a method the matcher answers for has a root with children -/
theorem Rel.method_of_loose {x : Bytes} (h : (Model.allows rs x host path).1 = true) : x ∈ methods := by
  rw [H.meth]
  unfold Model.allows at h
  cases hl : lookup rs x host path with
  | none => simp [hl] at h
  | bad => simp [hl] at h
  | found r ps tsr =>
    unfold lookup at hl
    cases hm : methodRoot rs x with
    | none => simp [hm] at hl
    | some root =>
      simp only [hm] at hl
      refine ⟨root, ?_, ?_⟩
      · simp only [methodRoot, Option.map_eq_some_iff] at hm
        obtain ⟨a, ha, rfl⟩ := hm
        have h1 := List.mem_of_find?_eq_some ha
        have h2 := List.find?_some ha
        simp only [beq_iff_eq] at h2
        obtain ⟨a1, a2⟩ := a
        simp only at h2; subst h2; exact h1
      · cases hc : root.children with
        | nil => simp [hc] at hl
        | cons c cs => rfl

/-- a method with a serving route has a root -/
theorem Rel.root_of_serves {x : Bytes} (h : serves (store x) x host path urlPath = true) : ∃ n, (x, n) ∈ rs := by
  have h1 := loose_of_serves h
  rw [← H.allows x] at h1
  obtain ⟨n, hn, _⟩ := (H.meth x).1 (H.method_of_loose h1)
  exact ⟨n, hn⟩

/-- spec ⊆ model, ordinary target, OPTIONS -/
theorem Rel.options_sub (hp : path ≠ [STAR]) {x : Bytes} (hx : x ∈ methods)
    (hs : serves (store x) x host path urlPath = true) : x ∈ (optionsHits rs host path).map (·.1) := by
  rw [mem_map_fst]
  refine ⟨(Model.allows rs x host path).2, ?_⟩
  rw [mem_optionsHits hp]
  refine ⟨H.root_of_serves hs, ?_, rfl⟩
  rw [H.allows x]; exact loose_of_serves hs

/-- model ⊆ spec without F17, ordinary target, OPTIONS -/
theorem Rel.options_sup (hroot : urlPath = [SLASH] → path = [SLASH]) (hp : path ≠ [STAR]) (hf : (optionsHits rs host path).any (·.2) = false) {x : Bytes}
    (hx : x ∈ (optionsHits rs host path).map (·.1)) :
    x ∈ methods ∧ serves (store x) x host path urlPath = true := by
  rw [mem_map_fst] at hx
  obtain ⟨b, hb⟩ := hx
  have hb' : b = false := by
    cases b with
    | false => rfl
    | true => have := any_snd_iff.2 ⟨x, hb⟩; rw [hf] at this; cases this
  subst hb'
  rw [mem_optionsHits hp] at hb
  obtain ⟨_, h1, h2⟩ := hb
  simp only at h1 h2
  refine ⟨H.method_of_loose h1, ?_⟩
  rw [H.allows x] at h1 h2
  exact serves_of_loose hroot h1 h2.symm

theorem Rel.star_iff (x : Bytes) :
    x ∈ (optionsHits rs host [STAR]).map (·.1) ↔ x ∈ methods.filter (· != OPTIONS) := by
  rw [mem_map_fst, List.mem_filter, H.meth]
  simp only [mem_optionsHits_star, bne_iff_ne, ne_eq]
  constructor
  · rintro ⟨b, _, h1, h2⟩; exact ⟨h2, h1⟩
  · rintro ⟨h2, h1⟩; exact ⟨false, rfl, h1, h2⟩

/-- spec ⊆ model, 405 -/
theorem Rel.noMethod_sub (m : Bytes) {x : Bytes} (hx : x ∈ methods) (hm : x ≠ m)
    (hs : serves (store x) x host path urlPath = true) : x ∈ (noMethodHits rs m host path).map (·.1) := by
  rw [mem_map_fst]
  refine ⟨(Model.allows rs x host path).2, ?_⟩
  rw [mem_noMethodHits]
  refine ⟨H.root_of_serves hs, hm, ?_, rfl⟩
  rw [H.allows x]; exact loose_of_serves hs

/-- model ⊆ spec without F17, 405 -/
theorem Rel.noMethod_sup (hroot : urlPath = [SLASH] → path = [SLASH]) (m : Bytes) (hf : (noMethodHits rs m host path).any (·.2) = false) {x : Bytes}
    (hx : x ∈ (noMethodHits rs m host path).map (·.1)) :
    x ∈ methods ∧ x ≠ m ∧ serves (store x) x host path urlPath = true := by
  rw [mem_map_fst] at hx
  obtain ⟨b, hb⟩ := hx
  have hb' : b = false := by
    cases b with
    | false => rfl
    | true => have := any_snd_iff.2 ⟨x, hb⟩; rw [hf] at this; cases this
  subst hb'
  rw [mem_noMethodHits] at hb
  obtain ⟨_, hm, h1, h2⟩ := hb
  simp only at hm h1 h2
  refine ⟨H.method_of_loose h1, hm, ?_⟩
  rw [H.allows x] at h1 h2
  exact serves_of_loose hroot h1 h2.symm

end

/-! ### agreement of an outcome of the model with an answer of the specification -/

/-- `o` (model of the code) agrees with `sp` (specification): same route, parameters and redirect code; every method the
    specification allows is listed; and unless the F17 tag is present, same kind of answer and same set of allowed
    methods. With the tag the only possible difference of kind is that the code answers OPTIONS / 405 where the
    specification says 404. -/
structure Agree (o : Outcome) (sp : Served) : Prop where
  route : o.route = sp.route
  params : o.params = sp.params
  code : o.code = sp.code
  sub : ∀ x, x ∈ sp.allow → x ∈ o.allow
  exact : F17 ∉ o.tags → o.kind = sp.kind ∧ ∀ x, x ∈ o.allow ↔ x ∈ sp.allow
  kind : o.kind = sp.kind ∨ (sp.kind = .noRoute ∧ (o.kind = .options ∨ o.kind = .noMethod) ∧ F17 ∈ o.tags)

theorem Agree.retag {o : Outcome} {sp : Served} (h : Agree o sp) (t : String) (ht : t ≠ F17) :
    Agree { o with tags := o.tags ++ [t] } sp := by
  have hmem : F17 ∈ o.tags ++ [t] ↔ F17 ∈ o.tags := by
    simp only [List.mem_append, List.mem_singleton]
    constructor
    · rintro (h | h)
      · exact h
      · exact absurd h.symm ht
    · exact Or.inl
  refine ⟨h.route, h.params, h.code, h.sub, ?_, ?_⟩
  · intro hn; exact h.exact (fun hc => hn (hmem.2 hc))
  · rcases h.kind with hk | ⟨h1, h2, h3⟩
    · exact Or.inl hk
    · exact Or.inr ⟨h1, h2, hmem.2 h3⟩

theorem agree_noRoute : Agree { kind := .noRoute } { kind := .noRoute } :=
  ⟨rfl, rfl, rfl, fun _ h => h, fun _ => ⟨rfl, fun _ => Iff.rfl⟩, Or.inl rfl⟩

theorem tags_mem (b : Bool) : F17 ∈ (if b = true then ["allow-connect-tsr"] else []) ↔ b = true := by
  cases b <;> simp [F17]

theorem names_nil {hits : List (Bytes × Bool)} : hits.map (·.1) = [] ↔ hits = [] := by simp

/-- the OPTIONS answer: `a` (specification) below the listed names, and equal to them without the F17 marker -/
theorem agree_options (hits : List (Bytes × Bool)) (a : List Bytes)
    (hsub : ∀ x, x ∈ a → x ∈ hits.map (·.1))
    (hsup : hits.any (·.2) = false → ∀ x, x ∈ hits.map (·.1) → x ∈ a) :
    Agree (optionsOutcome hits)
      (if a.isEmpty then { kind := .noRoute } else { kind := .options, allow := (a ++ [OPTIONS]).eraseDups }) := by
  unfold optionsOutcome
  by_cases hh : hits = []
  · have ha : a = [] := by
      rw [List.eq_nil_iff_forall_not_mem]; intro x hx; have := hsub x hx; rw [hh] at this; cases this
    subst hh; subst ha
    exact agree_noRoute
  · have hh' : hits.isEmpty = false := by simpa using hh
    simp only [hh', Bool.false_eq_true, if_false]
    by_cases ha : a = []
    · subst ha
      have hany : hits.any (·.2) = true := by
        cases hc : hits.any (·.2) with
        | true => rfl
        | false =>
          exfalso; apply hh
          rw [← names_nil, List.eq_nil_iff_forall_not_mem]
          intro x hx; have := hsup hc x hx; cases this
      simp only [List.isEmpty_nil, if_true]
      refine ⟨rfl, rfl, rfl, (fun _ h => by cases h), ?_, Or.inr ⟨rfl, Or.inl rfl, ?_⟩⟩
      · intro hn; exact absurd ((tags_mem _).2 hany) hn
      · exact (tags_mem _).2 hany
    · have ha' : a.isEmpty = false := by simpa using ha
      simp only [ha', Bool.false_eq_true, if_false]
      refine ⟨rfl, rfl, rfl, ?_, ?_, Or.inl rfl⟩
      · intro x hx
        simp only [List.mem_eraseDups, List.mem_append, List.mem_singleton] at hx ⊢
        exact hx.imp (hsub x) id
      · intro hn
        have hc : hits.any (·.2) = false := by
          cases hc : hits.any (·.2) with
          | false => rfl
          | true => exact absurd ((tags_mem _).2 hc) hn
        refine ⟨rfl, fun x => ?_⟩
        simp only [List.mem_eraseDups, List.mem_append, List.mem_singleton]
        exact ⟨fun h => h.imp (hsup hc x) id, fun h => h.imp (hsub x) id⟩

/-- the 405 answer -/
theorem agree_noMethod (cfg : Cfg) (hits : List (Bytes × Bool)) (a : List Bytes)
    (hsub : ∀ x, x ∈ a → x ∈ hits.map (·.1))
    (hsup : hits.any (·.2) = false → ∀ x, x ∈ hits.map (·.1) → x ∈ a) :
    Agree (noMethodOutcome cfg hits)
      (if a.isEmpty then { kind := .noRoute }
       else { kind := .noMethod, allow := (a ++ (if cfg.autoOptions then [OPTIONS] else [])).eraseDups }) := by
  unfold noMethodOutcome
  -- membership in the list the code writes
  have hallow : ∀ x, x ∈ hits.map (·.1) ++
        (if (cfg.autoOptions && !(hits.any (·.1 == OPTIONS))) = true then [OPTIONS] else []) ↔
      x ∈ hits.map (·.1) ∨ (cfg.autoOptions = true ∧ x = OPTIONS) := by
    intro x
    simp only [List.mem_append]
    constructor
    · rintro (h | h)
      · exact Or.inl h
      · split at h
        · rename_i hc
          simp only [Bool.and_eq_true] at hc
          simp only [List.mem_singleton] at h
          exact Or.inr ⟨hc.1, h⟩
        · cases h
    · rintro (h | ⟨h1, h2⟩)
      · exact Or.inl h
      · by_cases hc : hits.any (·.1 == OPTIONS) = true
        · left
          simp only [List.any_eq_true, beq_iff_eq] at hc
          obtain ⟨y, hy, hy2⟩ := hc
          rw [h2, ← hy2]
          exact List.mem_map_of_mem hy
        · right
          have : hits.any (·.1 == OPTIONS) = false := Bool.eq_false_iff.2 hc
          simp [h1, this, h2]
  have hspec : ∀ x, x ∈ (a ++ (if cfg.autoOptions = true then [OPTIONS] else [])).eraseDups ↔
      x ∈ a ∨ (cfg.autoOptions = true ∧ x = OPTIONS) := by
    intro x
    simp only [List.mem_eraseDups, List.mem_append]
    cases cfg.autoOptions <;> simp
  by_cases hh : hits = []
  · have ha : a = [] := by
      rw [List.eq_nil_iff_forall_not_mem]; intro x hx; have := hsub x hx; rw [hh] at this; cases this
    subst hh; subst ha
    exact agree_noRoute
  · have hh' : hits.isEmpty = false := by simpa using hh
    simp only [hh', Bool.false_eq_true, if_false]
    by_cases ha : a = []
    · subst ha
      have hany : hits.any (·.2) = true := by
        cases hc : hits.any (·.2) with
        | true => rfl
        | false =>
          exfalso; apply hh
          rw [← names_nil, List.eq_nil_iff_forall_not_mem]
          intro x hx; have := hsup hc x hx; cases this
      simp only [List.isEmpty_nil, if_true]
      refine ⟨rfl, rfl, rfl, (fun _ h => by cases h), ?_, Or.inr ⟨rfl, Or.inr rfl, ?_⟩⟩
      · intro hn; exact absurd ((tags_mem _).2 hany) hn
      · exact (tags_mem _).2 hany
    · have ha' : a.isEmpty = false := by simpa using ha
      simp only [ha', Bool.false_eq_true, if_false]
      refine ⟨rfl, rfl, rfl, ?_, ?_, Or.inl rfl⟩
      · intro x hx
        rw [hspec] at hx
        exact (hallow x).2 (hx.imp (hsub x) id)
      · intro hn
        have hc : hits.any (·.2) = false := by
          cases hc : hits.any (·.2) with
          | false => rfl
          | true => exact absurd ((tags_mem _).2 hc) hn
        refine ⟨rfl, fun x => ?_⟩
        show x ∈ _ ↔ x ∈ _
        rw [hspec]
        exact ⟨fun h => ((hallow x).1 h).imp (hsup hc x) id, fun h => (hallow x).2 (h.imp (hsub x) id)⟩

section
variable {rs : Roots} {methods : List Bytes} {store : Bytes → List Route} {host path urlPath : Bytes}
variable (H : Rel rs methods store host path)
include H

/-- the OPTIONS / 405 / 404 part of ServeHTTP against the one of the specification -/
theorem Rel.special (hroot : urlPath = [SLASH] → path = [SLASH]) (cfg : Cfg) (m : Bytes) :
    Agree (Model.special cfg rs m host path) (specSpecial cfg methods store m host path urlPath) := by
  unfold Model.special specSpecial
  by_cases h1 : (m == OPTIONS && cfg.autoOptions) = true
  · simp only [h1, if_true]
    by_cases hp : path = [STAR]
    · subst hp
      simp only [beq_self_eq_true, if_true]
      apply agree_options
      · intro x hx; exact (H.star_iff x).2 hx
      · intro _ x hx; exact (H.star_iff x).1 hx
    · have hp' : (path == [STAR]) = false := by simpa using hp
      simp only [hp', Bool.false_eq_true, if_false]
      apply agree_options
      · intro x hx
        rw [List.mem_filter] at hx
        exact H.options_sub hp hx.1 hx.2
      · intro hf x hx
        rw [List.mem_filter]
        exact H.options_sup hroot hp hf hx
  · simp only [h1, Bool.false_eq_true, if_false]
    by_cases h2 : cfg.noMethod = true
    · simp only [h2, if_true]
      apply agree_noMethod
      · intro x hx
        simp only [List.mem_filter, Bool.and_eq_true, bne_iff_ne, ne_eq] at hx
        exact H.noMethod_sub m hx.1 hx.2.1 hx.2.2
      · intro hf x hx
        simp only [List.mem_filter, Bool.and_eq_true, bne_iff_ne, ne_eq]
        exact H.noMethod_sup hroot m hf hx
    · simp only [h2, Bool.false_eq_true, if_false]
      exact agree_noRoute

/-- **`Model.serve` agrees with `Spec.serve`** for related (method roots, route lists). -/
theorem Rel.serve (hroot : urlPath = [SLASH] → path = [SLASH]) (cfg : Cfg) (m : Bytes) :
    Agree (Model.serve cfg rs m host path urlPath) (Spec.serve cfg methods store m host path urlPath) := by
  rw [spec_serve_eq]
  unfold Model.serve
  rw [H.look m]
  have hsp := H.special hroot cfg m
  cases ho : route (store m) host path with
  | none => simpa only [toResult] using hsp
  | some f =>
    obtain ⟨r, ps, tsr⟩ := f
    cases tsr with
    | false =>
      simp only [toResult]
      exact ⟨rfl, rfl, rfl, fun _ h => h, fun _ => ⟨rfl, fun _ => Iff.rfl⟩, Or.inl rfl⟩
    | true =>
      simp only [toResult]
      unfold onTsr
      by_cases hc : (m != CONNECT && urlPath != [SLASH]) = true
      · simp only [hc, if_true]
        by_cases hi : r.ignoreTS = true
        · simp only [hi, if_true]
          exact ⟨rfl, rfl, rfl, fun _ h => h, fun _ => ⟨rfl, fun _ => Iff.rfl⟩, Or.inl rfl⟩
        · simp only [hi, Bool.false_eq_true, if_false]
          by_cases hr : (r.redirectTS && path == cleanRef path) = true
          · simp only [hr, if_true]
            exact ⟨rfl, rfl, rfl, fun _ h => h, fun _ => ⟨rfl, fun _ => Iff.rfl⟩, Or.inl rfl⟩
          · simp only [hr, Bool.false_eq_true, if_false]
            exact hsp.retag "tsr-unserved" (by decide)
      · simp only [hc, Bool.false_eq_true, if_false]
        exact hsp.retag "tsr-guarded" (by decide)

end

/-! ### reading the specification: who is dispatched, what the special part lists -/

theorem route_nil (host path : Bytes) : route [] host path = none := by
  unfold route
  simp only [List.filter_nil, true_or, if_true]
  unfold pathOnly bestTsr
  simp only [sufsOf, List.map_nil, List.filter_nil, specAll_nil, first, Option.orElse_none]
  cases adjust path with
  | none => rfl
  | some x => obtain ⟨p', added⟩ := x; cases added <;> simp [specAll_nil, first]

theorem serves_nil (x host path urlPath : Bytes) : serves [] x host path urlPath = false := by
  rw [serves_eq, route_nil]

theorem routes_of_serves {R : List Route} {x host path urlPath : Bytes} (h : serves R x host path urlPath = true) :
    R ≠ [] := by
  intro hR; rw [hR, serves_nil] at h; cases h

/-- the route dispatch of the specification acts on the request (serves it by a route or redirects it) -/
def dispatched (R : List Route) (m host path urlPath : Bytes) : Bool :=
  match route R host path with
  | some ⟨_, _, false⟩ => true
  | some ⟨r, _, true⟩ => m != CONNECT && urlPath != [SLASH] && (r.ignoreTS || (r.redirectTS && path == cleanRef path))
  | none => false

theorem spec_serve_undispatched {cfg : Cfg} {methods : List Bytes} {store : Bytes → List Route}
    {m host path urlPath : Bytes} (h : dispatched (store m) m host path urlPath = false) :
    Spec.serve cfg methods store m host path urlPath = specSpecial cfg methods store m host path urlPath := by
  rw [spec_serve_eq]
  unfold dispatched at h
  cases ho : route (store m) host path with
  | none => rfl
  | some f =>
    obtain ⟨r, ps, tsr⟩ := f
    cases tsr with
    | false => simp [ho] at h
    | true =>
      simp only [ho] at h ⊢
      by_cases hc : (m != CONNECT && urlPath != [SLASH]) = true
      · simp only [hc, Bool.true_and, if_true] at h ⊢
        simp only [Bool.or_eq_false_iff] at h
        simp [h.1, h.2]
      · simp [hc]

theorem spec_serve_dispatched {cfg : Cfg} {methods : List Bytes} {store : Bytes → List Route}
    {m host path urlPath : Bytes} (h : dispatched (store m) m host path urlPath = true) :
    ((Spec.serve cfg methods store m host path urlPath).kind = .route ∨
     (Spec.serve cfg methods store m host path urlPath).kind = .redirect) ∧
    (Spec.serve cfg methods store m host path urlPath).allow = [] := by
  rw [spec_serve_eq]
  unfold dispatched at h
  cases ho : route (store m) host path with
  | none => simp [ho] at h
  | some f =>
    obtain ⟨r, ps, tsr⟩ := f
    cases tsr with
    | false => simp
    | true =>
      simp only [ho] at h ⊢
      simp only [Bool.and_eq_true, Bool.or_eq_true] at h
      have hc : (m != CONNECT && urlPath != [SLASH]) = true := by simp only [Bool.and_eq_true]; exact h.1
      simp only [hc, if_true]
      by_cases hi : r.ignoreTS = true
      · simp [hi]
      · have hr : (r.redirectTS && path == cleanRef path) = true := by
          rcases h.2 with h2 | h2
          · exact absurd h2 hi
          · simp [h2.1, h2.2]
        simp [hi, hr]

/-- what the OPTIONS handler of the specification lists for method `x` -/
def optListed (store : Bytes → List Route) (host path urlPath x : Bytes) : Prop :=
  if path = [STAR] then x ≠ OPTIONS ∧ store x ≠ [] else serves (store x) x host path urlPath = true

section
variable {cfg : Cfg} {methods : List Bytes} {store : Bytes → List Route} {m host path urlPath : Bytes}
variable (hM : ∀ x, x ∈ methods ↔ store x ≠ [])
include hM

theorem mem_optList (x : Bytes) :
    x ∈ (if (path == [STAR]) = true then methods.filter (· != OPTIONS)
         else methods.filter fun x => serves (store x) x host path urlPath) ↔ optListed store host path urlPath x := by
  unfold optListed
  by_cases hp : path = [STAR]
  · simp only [hp, beq_self_eq_true, if_true, List.mem_filter, bne_iff_ne, ne_eq, hM]
    exact ⟨fun h => ⟨h.2, h.1⟩, fun h => ⟨h.2, h.1⟩⟩
  · have hp' : (path == [STAR]) = false := by simpa using hp
    simp only [hp', Bool.false_eq_true, hp, if_false, List.mem_filter, hM]
    exact ⟨fun h => h.2, fun h => ⟨routes_of_serves h, h⟩⟩

theorem mem_noMethodList (x : Bytes) :
    x ∈ (methods.filter fun x => x != m && serves (store x) x host path urlPath) ↔
      x ≠ m ∧ serves (store x) x host path urlPath = true := by
  simp only [List.mem_filter, Bool.and_eq_true, bne_iff_ne, ne_eq, hM]
  exact ⟨fun h => h.2, fun h => ⟨routes_of_serves h.2, h⟩⟩

/-- the specification answers with the OPTIONS handler exactly for OPTIONS requests with automatic replies on when some
    method is listed -/
theorem specSpecial_options_iff :
    (specSpecial cfg methods store m host path urlPath).kind = .options ↔
      m = OPTIONS ∧ cfg.autoOptions = true ∧ ∃ x, optListed store host path urlPath x := by
  unfold specSpecial
  simp only []
  by_cases h1 : (m == OPTIONS && cfg.autoOptions) = true
  · simp only [h1, if_true]
    have h1' := h1
    simp only [Bool.and_eq_true, beq_iff_eq] at h1'
    have hmem := mem_optList (host := host) (path := path) (urlPath := urlPath) hM
    generalize (if (path == [STAR]) = true then methods.filter (· != OPTIONS)
      else methods.filter fun x => serves (store x) x host path urlPath) = a at hmem
    cases a with
    | nil =>
      simp only [List.isEmpty_nil, if_true]
      constructor
      · intro h; cases h
      · rintro ⟨_, _, x, hx⟩; have := (hmem x).2 hx; cases this
    | cons y ys =>
      simp only [List.isEmpty_cons, Bool.false_eq_true, if_false, true_iff]
      exact ⟨h1'.1, h1'.2, y, (hmem y).1 (List.mem_cons_self ..)⟩
  · simp only [h1, Bool.false_eq_true, if_false]
    have hno : ¬(m = OPTIONS ∧ cfg.autoOptions = true) := by
      simpa only [Bool.and_eq_true, beq_iff_eq] using h1
    by_cases h2 : cfg.noMethod = true
    · simp only [h2, if_true]
      generalize (methods.filter fun x => x != m && serves (store x) x host path urlPath) = a
      cases a <;> simp <;> exact fun h3 h4 => absurd ⟨h3, h4⟩ hno
    · simp only [h2, Bool.false_eq_true, if_false]
      constructor
      · intro h; cases h
      · rintro ⟨h3, h4, _⟩; exact absurd ⟨h3, h4⟩ hno

/-- its Allow header: OPTIONS and the listed methods -/
theorem specSpecial_options_allow (hk : (specSpecial cfg methods store m host path urlPath).kind = .options) (x : Bytes) :
    x ∈ (specSpecial cfg methods store m host path urlPath).allow ↔ x = OPTIONS ∨ optListed store host path urlPath x := by
  have h0 := (specSpecial_options_iff hM).1 hk
  have h1 : (m == OPTIONS && cfg.autoOptions) = true := by simp [h0.1, h0.2.1]
  unfold specSpecial at hk ⊢
  simp only [h1, if_true] at hk ⊢
  have hmem := mem_optList (host := host) (path := path) (urlPath := urlPath) hM
  generalize (if (path == [STAR]) = true then methods.filter (· != OPTIONS)
    else methods.filter fun x => serves (store x) x host path urlPath) = a at hmem hk
  cases a with
  | nil => simp at hk
  | cons y ys =>
    simp only [List.isEmpty_cons, Bool.false_eq_true, if_false, List.mem_eraseDups, List.mem_append, List.mem_singleton]
    rw [hmem]
    exact Or.comm

/-- the specification answers with the 405 handler exactly when method-not-allowed is on, the request is not an
    automatic OPTIONS one, and some *other* method serves the host and path -/
theorem specSpecial_noMethod_iff :
    (specSpecial cfg methods store m host path urlPath).kind = .noMethod ↔
      ¬(m = OPTIONS ∧ cfg.autoOptions = true) ∧ cfg.noMethod = true ∧
        ∃ x, x ≠ m ∧ serves (store x) x host path urlPath = true := by
  unfold specSpecial
  simp only []
  by_cases h1 : (m == OPTIONS && cfg.autoOptions) = true
  · simp only [h1, if_true]
    have h1' := h1
    simp only [Bool.and_eq_true, beq_iff_eq] at h1'
    generalize (if (path == [STAR]) = true then methods.filter (· != OPTIONS)
      else methods.filter fun x => serves (store x) x host path urlPath) = a
    cases a <;> simp <;> exact fun h => by have := h h1'.1; rw [h1'.2] at this; cases this
  · simp only [h1, Bool.false_eq_true, if_false]
    have hno : ¬(m = OPTIONS ∧ cfg.autoOptions = true) := by
      simpa only [Bool.and_eq_true, beq_iff_eq] using h1
    by_cases h2 : cfg.noMethod = true
    · simp only [h2, if_true]
      have hmem := mem_noMethodList (m := m) (host := host) (path := path) (urlPath := urlPath) hM
      generalize (methods.filter fun x => x != m && serves (store x) x host path urlPath) = a at hmem
      cases a with
      | nil =>
        simp only [List.isEmpty_nil, if_true]
        constructor
        · intro h; cases h
        · rintro ⟨_, _, x, hx⟩; have := (hmem x).2 hx; cases this
      | cons y ys =>
        simp only [List.isEmpty_cons, Bool.false_eq_true, if_false, true_iff]
        exact ⟨hno, trivial, y, (hmem y).1 (List.mem_cons_self ..)⟩
    · simp only [h2, Bool.false_eq_true, if_false]
      constructor
      · intro h; cases h
      · rintro ⟨_, h3, _⟩; cases h3

/-- its Allow header: the other serving methods, and OPTIONS when automatic replies are on -/
theorem specSpecial_noMethod_allow (hk : (specSpecial cfg methods store m host path urlPath).kind = .noMethod) (x : Bytes) :
    x ∈ (specSpecial cfg methods store m host path urlPath).allow ↔
      (x ≠ m ∧ serves (store x) x host path urlPath = true) ∨ (cfg.autoOptions = true ∧ x = OPTIONS) := by
  have h0 := (specSpecial_noMethod_iff hM).1 hk
  have h1 : (m == OPTIONS && cfg.autoOptions) = false := by
    cases hc : (m == OPTIONS && cfg.autoOptions) with
    | false => rfl
    | true => simp only [Bool.and_eq_true, beq_iff_eq] at hc; exact absurd hc h0.1
  unfold specSpecial at hk ⊢
  simp only [h1, Bool.false_eq_true, if_false, h0.2.1, if_true] at hk ⊢
  have hmem := mem_noMethodList (m := m) (host := host) (path := path) (urlPath := urlPath) hM
  generalize (methods.filter fun x => x != m && serves (store x) x host path urlPath) = a at hmem hk
  cases a with
  | nil => simp at hk
  | cons y ys =>
    simp only [List.isEmpty_cons, Bool.false_eq_true, if_false, List.mem_eraseDups, List.mem_append]
    rw [hmem]
    cases cfg.autoOptions <;> simp

end

/-! ### exactly when the F17 tag appears -/

/-- an F17 hit: the routes registered for CONNECT match (host, path) only by adjusting a trailing slash, on a route that
    ignores trailing slashes (dispatch never serves CONNECT that way, the Allow loops list it) -/
def f17Hit (store : Bytes → List Route) (host path : Bytes) : Prop :=
  ∃ r ps, route (store CONNECT) host path = some ⟨r, ps, true⟩ ∧ r.ignoreTS = true

theorem looseOf_snd {o : Option Found} {x : Bytes} :
    (looseOf o x).2 = true ↔ x = CONNECT ∧ ∃ r ps, o = some ⟨r, ps, true⟩ ∧ r.ignoreTS = true := by
  unfold looseOf
  cases o with
  | none => simp
  | some f =>
    obtain ⟨r, ps, tsr⟩ := f
    simp only [Bool.and_eq_true, beq_iff_eq, Option.some.injEq, Found.mk.injEq]
    constructor
    · rintro ⟨⟨h1, h2⟩, h3⟩; exact ⟨h3, r, ps, ⟨rfl, rfl, h1⟩, h2⟩
    · rintro ⟨h3, r', ps', ⟨rfl, rfl, h1⟩, h2⟩; exact ⟨⟨h1, h2⟩, h3⟩

theorem looseOf_fst_of_snd {o : Option Found} {x : Bytes} (h : (looseOf o x).2 = true) : (looseOf o x).1 = true := by
  obtain ⟨_, r, ps, rfl, hi⟩ := looseOf_snd.1 h
  simp [looseOf, hi]

theorem optionsOutcome_tag (hits : List (Bytes × Bool)) :
    F17 ∈ (optionsOutcome hits).tags ↔ hits.any (·.2) = true := by
  unfold optionsOutcome
  cases hits with
  | nil => simp
  | cons y ys =>
    simp only [List.isEmpty_cons, Bool.false_eq_true, if_false]
    exact tags_mem _

theorem noMethodOutcome_tag (cfg : Cfg) (hits : List (Bytes × Bool)) :
    F17 ∈ (noMethodOutcome cfg hits).tags ↔ hits.any (·.2) = true := by
  unfold noMethodOutcome
  cases hits with
  | nil => simp
  | cons y ys =>
    simp only [List.isEmpty_cons, Bool.false_eq_true, if_false]
    exact tags_mem _

section
variable {rs : Roots} {methods : List Bytes} {store : Bytes → List Route} {host path urlPath : Bytes}
variable (H : Rel rs methods store host path)
include H

theorem Rel.connect_root (h : f17Hit store host path) :
    (∃ n, (CONNECT, n) ∈ rs) ∧ (Model.allows rs CONNECT host path).1 = true ∧
      (Model.allows rs CONNECT host path).2 = true := by
  obtain ⟨r, ps, ho, hi⟩ := h
  have h2 : (Model.allows rs CONNECT host path).2 = true := by
    rw [H.allows]; exact looseOf_snd.2 ⟨rfl, r, ps, ho, hi⟩
  have h1 : (Model.allows rs CONNECT host path).1 = true := by
    rw [H.allows] at h2 ⊢; exact looseOf_fst_of_snd h2
  obtain ⟨n, hn, _⟩ := (H.meth CONNECT).1 (H.method_of_loose h1)
  exact ⟨⟨n, hn⟩, h1, h2⟩

theorem Rel.options_tag (hp : path ≠ [STAR]) :
    (optionsHits rs host path).any (·.2) = true ↔ f17Hit store host path := by
  rw [any_snd_iff]
  constructor
  · rintro ⟨x, hx⟩
    rw [mem_optionsHits hp] at hx
    obtain ⟨_, _, h2⟩ := hx
    simp only at h2
    rw [H.allows] at h2
    obtain ⟨rfl, r, ps, ho, hi⟩ := looseOf_snd.1 h2.symm
    exact ⟨r, ps, ho, hi⟩
  · intro h
    obtain ⟨hr, h1, h2⟩ := H.connect_root h
    exact ⟨CONNECT, (mem_optionsHits hp).2 ⟨hr, h1, h2.symm⟩⟩

theorem Rel.noMethod_tag (m : Bytes) :
    (noMethodHits rs m host path).any (·.2) = true ↔ m ≠ CONNECT ∧ f17Hit store host path := by
  rw [any_snd_iff]
  constructor
  · rintro ⟨x, hx⟩
    rw [mem_noMethodHits] at hx
    obtain ⟨_, hm, _, h2⟩ := hx
    simp only at h2 hm
    rw [H.allows] at h2
    obtain ⟨rfl, r, ps, ho, hi⟩ := looseOf_snd.1 h2.symm
    exact ⟨Ne.symm hm, r, ps, ho, hi⟩
  · rintro ⟨hm, h⟩
    obtain ⟨hr, h1, h2⟩ := H.connect_root h
    exact ⟨CONNECT, mem_noMethodHits.2 ⟨hr, Ne.symm hm, h1, h2.symm⟩⟩

/-- the special part carries the F17 tag exactly when the loop that runs meets an F17 hit -/
theorem Rel.special_tag (cfg : Cfg) (m : Bytes) :
    F17 ∈ (Model.special cfg rs m host path).tags ↔
      f17Hit store host path ∧
        if m = OPTIONS ∧ cfg.autoOptions = true then path ≠ [STAR] else cfg.noMethod = true ∧ m ≠ CONNECT := by
  unfold Model.special
  by_cases h1 : (m == OPTIONS && cfg.autoOptions) = true
  · have h1' : m = OPTIONS ∧ cfg.autoOptions = true := by simpa only [Bool.and_eq_true, beq_iff_eq] using h1
    simp only [h1, if_true]
    rw [if_pos h1', optionsOutcome_tag]
    by_cases hp : path = [STAR]
    · subst hp
      rw [star_untagged]
      simp
    · rw [H.options_tag hp]
      exact ⟨fun h => ⟨h, hp⟩, fun h => h.1⟩
  · have h1' : ¬(m = OPTIONS ∧ cfg.autoOptions = true) := by simpa only [Bool.and_eq_true, beq_iff_eq] using h1
    simp only [h1, Bool.false_eq_true, if_false]
    rw [if_neg h1']
    by_cases h2 : cfg.noMethod = true
    · simp only [h2, if_true, true_and]
      rw [noMethodOutcome_tag, H.noMethod_tag]
      exact And.comm
    · simp [h2, F17]

/-- **exactly when the F17 tag appears**: the request is unmatched (the specification's dispatch does not act), the
    routes registered for CONNECT match the host and path only through an ignored trailing slash, and an Allow loop that
    probes CONNECT runs - the OPTIONS loop for a target other than "*", or the 405 loop of a non-CONNECT request -/
theorem Rel.serve_tag (cfg : Cfg) (m : Bytes) :
    F17 ∈ (Model.serve cfg rs m host path urlPath).tags ↔
      dispatched (store m) m host path urlPath = false ∧ f17Hit store host path ∧
        if m = OPTIONS ∧ cfg.autoOptions = true then path ≠ [STAR] else cfg.noMethod = true ∧ m ≠ CONNECT := by
  have hsp := H.special_tag cfg m
  have happ : ∀ t : String, t ≠ F17 → (F17 ∈ (Model.special cfg rs m host path).tags ++ [t] ↔
      F17 ∈ (Model.special cfg rs m host path).tags) := by
    intro t ht
    simp only [List.mem_append, List.mem_singleton]
    exact ⟨fun h => h.elim id (fun e => absurd e.symm ht), Or.inl⟩
  unfold Model.serve dispatched
  rw [H.look m]
  cases ho : route (store m) host path with
  | none => simpa only [toResult, true_and] using hsp
  | some f =>
    obtain ⟨r, ps, tsr⟩ := f
    cases tsr with
    | false => simp [toResult, F17]
    | true =>
      simp only [toResult]
      unfold onTsr
      by_cases hc : (m != CONNECT && urlPath != [SLASH]) = true
      · simp only [hc, if_true, Bool.true_and]
        by_cases hi : r.ignoreTS = true
        · simp [hi, F17]
        · simp only [hi, Bool.false_eq_true, if_false, Bool.false_or]
          by_cases hr : (r.redirectTS && path == cleanRef path) = true
          · simp [hr, F17]
          · have hr' : (r.redirectTS && path == cleanRef path) = false := Bool.eq_false_iff.2 hr
            simp only [hr', Bool.false_eq_true, if_false, true_and]
            rw [happ _ (by decide)]
            exact hsp
      · have hc' : (m != CONNECT && urlPath != [SLASH]) = false := Bool.eq_false_iff.2 hc
        simp only [hc', Bool.false_eq_true, if_false, Bool.false_and, true_and]
        rw [happ _ (by decide)]
        exact hsp

end

end Fox.ServeSpec
