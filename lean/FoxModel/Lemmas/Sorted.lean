import FoxModel.Lemmas.NodeRep
import FoxModel.Props.C02
/-
  FoxModel.Lemmas.Sorted — in every reachable tree the children of every node are in strictly ascending order of
  their first byte (`srtRoots`): `newNode` sorts, and every other way a node is rebuilt (edge replacement by
  `updateEdge`, `newNodeFromRef` on the children of an existing node) keeps the first bytes of the child list.
-/
namespace Fox.Model.NodeRep
open Fox Fox.Model

theorem srtKids_iff (cs : List Node) : srtKids cs = true ↔ ∀ c ∈ cs, srtNode c = true := by
  induction cs with
  | nil => simp [srtKids]
  | cons c cs ih => simp [srtKids, ih]

theorem srtNode_iff (k : List Tok) (r : Option Route) (cs : List Node) :
    srtNode (.mk k r cs) = true ↔ (fbs cs).Pairwise (· < ·) ∧ ∀ c ∈ cs, srtNode c = true := by
  conv => lhs; unfold srtNode
  simp only [Bool.and_eq_true, decide_eq_true_eq, srtKids_iff]

theorem srtNode_eta {key : List Tok} {e : Node} (h : srtNode e = true) :
    srtNode (.mk (key ++ e.key) e.route e.children) = true := by
  obtain ⟨k, ro, ks⟩ := e
  rw [srtNode_iff] at h ⊢
  exact h

/-! ### `newNode`'s sort -/

theorem render_head {k : List Tok} (h : k ≠ []) : ∃ tl, render k = firstByte k :: tl := by
  cases k with
  | nil => exact absurd rfl h
  | cons t ts =>
    cases t with
    | lit b => exact ⟨render ts, by simp [render, Tok.render, firstByte]⟩
    | param n => exact ⟨n ++ [RBR] ++ render ts, by simp [render, Tok.render, firstByte]⟩
    | catchAll n => exact ⟨LBR :: n ++ [RBR] ++ render ts, by simp [render, Tok.render, firstByte]⟩

theorem bytesLt_true_le {a b : Node} (ha : a.key ≠ []) (hb : b.key ≠ [])
    (h : bytesLt (render a.key) (render b.key) = true) : fb a ≤ fb b := by
  obtain ⟨ta, ea⟩ := render_head ha
  obtain ⟨tb, eb⟩ := render_head hb
  rw [ea, eb, bytesLt] at h
  simp only [fb]
  by_cases h1 : firstByte a.key < firstByte b.key
  · rw [uint8_lt_iff] at h1; omega
  · simp only [h1, if_false] at h
    by_cases h2 : firstByte b.key < firstByte a.key
    · simp [h2] at h
    · rw [uint8_eq_of_not_lt h1 h2]; omega

theorem bytesLt_false_le {a b : Node} (ha : a.key ≠ []) (hb : b.key ≠ [])
    (h : bytesLt (render a.key) (render b.key) = false) : fb b ≤ fb a := by
  obtain ⟨ta, ea⟩ := render_head ha
  obtain ⟨tb, eb⟩ := render_head hb
  rw [ea, eb, bytesLt] at h
  simp only [fb]
  by_cases h1 : firstByte a.key < firstByte b.key
  · simp [h1] at h
  · rw [uint8_lt_iff] at h1; omega

theorem insertSorted_le (c : Node) (hc : c.key ≠ []) : ∀ ds : List Node, (∀ d ∈ ds, d.key ≠ []) →
    (fbs ds).Pairwise (· ≤ ·) → (fbs (insertSorted c ds)).Pairwise (· ≤ ·)
  | [], _, _ => by simp [insertSorted, fbs]
  | d :: ds, hne, hs => by
    simp only [fbs, List.map_cons, List.pairwise_cons] at hs
    unfold insertSorted
    cases hlt : bytesLt (render c.key) (render d.key) with
    | true =>
      simp only [if_true, fbs, List.map_cons, List.pairwise_cons]
      have hcd := bytesLt_true_le hc (hne d (by simp)) hlt
      refine ⟨?_, hs.1, hs.2⟩
      intro x hx
      rcases List.mem_cons.mp hx with rfl | hx
      · exact hcd
      · exact Nat.le_trans hcd (hs.1 x hx)
    | false =>
      simp only [Bool.false_eq_true, if_false, fbs, List.map_cons, List.pairwise_cons]
      have hdc := bytesLt_false_le hc (hne d (by simp)) hlt
      refine ⟨?_, insertSorted_le c hc ds (fun x hx => hne x (by simp [hx])) hs.2⟩
      intro x hx
      have hp := ((insertSorted_perm c ds).map fb).mem_iff.mp hx
      rcases List.mem_cons.mp hp with rfl | hx
      · exact hdc
      · exact hs.1 x hx

theorem sortKids_le : ∀ cs : List Node, (∀ c ∈ cs, c.key ≠ []) → (fbs (sortKids cs)).Pairwise (· ≤ ·)
  | [], _ => by simp [sortKids, fbs]
  | c :: cs, hne => by
    have : sortKids (c :: cs) = insertSorted c (sortKids cs) := by simp [sortKids]
    rw [this]
    refine insertSorted_le c (hne c (by simp)) _ ?_ (sortKids_le cs (fun x hx => hne x (by simp [hx])))
    intro d hd
    exact hne d (by simp [(sortKids_perm cs).mem_iff.mp hd])

theorem nodup_map_of {α β γ} (f : α → β) (g : α → γ) : ∀ l : List α,
    (∀ a ∈ l, ∀ b ∈ l, g a = g b → f a = f b) → (l.map f).Nodup → (l.map g).Nodup
  | [], _, _ => by simp
  | a :: l, hinj, hnd => by
    simp only [List.map_cons, List.nodup_cons] at hnd ⊢
    refine ⟨?_, nodup_map_of f g l (fun x hx y hy => hinj x (by simp [hx]) y (by simp [hy])) hnd.2⟩
    intro hmem
    obtain ⟨b, hb, hgb⟩ := List.mem_map.mp hmem
    exact hnd.1 (List.mem_map.mpr ⟨b, hb, (hinj a (by simp) b (by simp [hb]) hgb.symm).symm⟩)

/-- distinct kinds = distinct first bytes, on well-formed children -/
theorem fbs_nodup {cs : List Node} (hwf : wfKids cs = true) (hnd : (kindsOf cs).Nodup) : (fbs cs).Nodup := by
  rw [kindsOf_eq_map] at hnd
  refine nodup_map_of _ fb cs ?_ hnd
  intro a ha b hb hab
  obtain ⟨ka, ra, ca⟩ := a
  obtain ⟨kb, rb, cb⟩ := b
  have wa := (wfNode_iff _ _ _).mp (wfKids_mem hwf ha)
  have wb := (wfNode_iff _ _ _).mp (wfKids_mem hwf hb)
  simp only [fb, Node.key_mk] at hab ⊢
  exact (firstByte_eq_iff wa.1 wb.1 wa.2.1 wb.2.1).mp (UInt8.toNat_inj.mp hab)

theorem keys_ne {cs : List Node} (hwf : wfKids cs = true) : ∀ c ∈ cs, c.key ≠ [] := by
  intro c hc
  obtain ⟨k, r, ks⟩ := c
  exact ((wfNode_iff _ _ _).mp (wfKids_mem hwf hc)).1

/-- the children of `newNode` are strictly ascending: the sort orders them by first byte, and first bytes are
    distinct -/
theorem sortKids_lt {cs : List Node} (hwf : wfKids cs = true) (hnd : (kindsOf cs).Nodup) :
    (fbs (sortKids cs)).Pairwise (· < ·) := by
  have hle := sortKids_le cs (keys_ne hwf)
  have hnd' : (fbs (sortKids cs)).Nodup := ((sortKids_perm cs).map fb).nodup_iff.mpr (fbs_nodup hwf hnd)
  exact (hle.and hnd').imp (fun ⟨h1, h2⟩ => Nat.lt_of_le_of_ne h1 h2)

theorem srt_newNode {k : List Tok} {r : Option Route} {cs : List Node} (hwf : wfKids cs = true)
    (hnd : (kindsOf cs).Nodup) (h : ∀ c ∈ cs, srtNode c = true) : srtNode (newNode k r cs) = true := by
  rw [newNode, srtNode_iff]
  exact ⟨sortKids_lt hwf hnd, fun c hc => h c ((sortKids_perm cs).mem_iff.mp hc)⟩

/-- whatever algorithm sorts the children (Go: `slices.SortFunc`, not stable): a permutation in ascending order of
    the first bytes is the list `sortKids` builds -/
theorem sorted_perm_unique {cs ds : List Node} (hwf : wfKids cs = true) (hnd : (kindsOf cs).Nodup)
    (hp : ds.Perm cs) (hs : (fbs ds).Pairwise (· < ·)) : ds = sortKids cs := by
  have h1 : ds.Pairwise (fun a b => fb a < fb b) := by simpa [fbs, List.pairwise_map] using hs
  have h2 : (sortKids cs).Pairwise (fun a b => fb a < fb b) := by
    simpa [fbs, List.pairwise_map] using sortKids_lt hwf hnd
  refine List.Perm.eq_of_pairwise ?_ h1 h2 (hp.trans (sortKids_perm cs).symm)
  intro a b _ _ hab hba
  exact absurd hab (by omega)

theorem srt_newLeaf (r : Route) (c : Nat) (suf : List Tok) : srtNode (newLeaf r c suf).1 = true := by
  unfold newLeaf
  split
  · simp [newNode, sortKids, insertSorted, srtNode_iff, fbs]
  · simp [newNode, sortKids, srtNode_iff, fbs]

/-! ### the tree operations keep the order -/

theorem fbs_mid (pre : List Node) (c c' : Node) (post : List Node) (h : fb c' = fb c) :
    fbs (pre ++ c' :: post) = fbs (pre ++ c :: post) := by
  simp [fbs, h]

theorem fb_of_kind {a b : Node} (wa : wfNode a = true) (wb : wfNode b = true) (h : kindOf a.key = kindOf b.key) :
    fb a = fb b := by
  obtain ⟨ka, ra, ca⟩ := a
  obtain ⟨kb, rb, cb⟩ := b
  have wa := (wfNode_iff _ _ _).mp wa
  have wb := (wfNode_iff _ _ _).mp wb
  simp only [fb, Node.key_mk] at h ⊢
  rw [(firstByte_eq_iff wa.1 wb.1 wa.2.1 wb.2.1).mpr h]

theorem srt_mid {pre post : List Node} {c c' : Node} (hk : ∀ x ∈ pre ++ c :: post, srtNode x = true)
    (hc' : srtNode c' = true) : ∀ x ∈ pre ++ c' :: post, srtNode x = true := by
  intro x hx
  rcases List.mem_append.mp hx with h1 | h1
  · exact hk x (by simp [h1])
  · rcases List.mem_cons.mp h1 with rfl | h1
    · exact hc'
    · exact hk x (by simp [h1])

theorem srt_insertNode (r : Route) (n : Node) : ∀ (consumed d : Nat) (toks : List Tok) (res : InsOk),
    wfNode n = true → srtNode n = true → toks ≠ [] → keyOk toks = true → kindOf n.key = kindOf toks →
    HostOk r consumed toks → insertNode n false consumed d toks r = .ok res → srtNode res.node = true := by
  induction n using Node.ind with
  | h key route cs ih =>
    intro consumed d toks res hwf hs hne hok hkind hpos h
    have hwr := (wf_insertNode r _ consumed d toks res hwf hne hok hkind hpos h).1
    rw [srtNode_iff] at hs
    obtain ⟨hasc, hkids⟩ := hs
    have hwf' := (wfNode_iff _ _ _).mp hwf
    rcases insertNode_ok_inv h with ⟨rfl, rfl, hn⟩ | ⟨a, as, rfl, hn⟩ |
      ⟨t, ts, pre, c, post, cres, rfl, hp, hi, hn⟩ | ⟨t, ts, rfl, hp, hn⟩ |
      ⟨p, a, as, b, bs, rfl, rfl, hab, _, hw, hn⟩ <;> rw [hn] at hwr ⊢
    · exact (srtNode_iff _ _ _).mpr ⟨hasc, hkids⟩
    · rw [wfNode_newNode, wfNode_iff] at hwr
      refine srt_newNode hwr.2.2.2.2 hwr.2.2.1 ?_
      intro x hx; simp only [List.mem_singleton] at hx; subst hx
      exact (srtNode_iff _ _ _).mpr ⟨hasc, hkids⟩
    · obtain ⟨rfl, hfb, _⟩ := pick_some hp
      have hcw : wfNode c = true := wfKids_mem hwf'.2.2.2.2 (by simp)
      have hok' : keyOk (t :: ts) = true := keyOk_append_right key _ hok
      have hpos' := HostOk_advance key (t :: ts) hpos
      have hck : kindOf c.key = kindOf (t :: ts) := by
        obtain ⟨k, ro, ks⟩ := c
        have w := (wfNode_iff _ _ _).mp hcw
        exact (firstByte_eq_iff w.1 (by simp) w.2.1 hok').mp hfb
      have hres := wf_insertNode r c _ _ _ cres hcw (by simp) hok' hck hpos' hi
      have hc' := ih c (by simp) _ _ _ _ hcw (hkids c (by simp)) (by simp) hok' hck hpos' hi
      rw [srtNode_iff]
      refine ⟨?_, srt_mid hkids hc'⟩
      rw [fbs_mid _ _ _ _ (fb_of_kind hres.1 hcw hres.2)]; exact hasc
    · rw [wfNode_newNode, wfNode_iff] at hwr
      refine srt_newNode hwr.2.2.2.2 hwr.2.2.1 ?_
      intro x hx
      rcases List.mem_append.mp hx with h1 | h1
      · exact hkids x h1
      · simp only [List.mem_singleton] at h1; subst h1; exact srt_newLeaf _ _ _
    · rw [wfNode_newNode, wfNode_iff] at hwr
      refine srt_newNode hwr.2.2.2.2 hwr.2.2.1 ?_
      intro x hx
      simp only [List.mem_cons, List.not_mem_nil, or_false] at hx
      rcases hx with rfl | rfl
      · exact srt_newLeaf _ _ _
      · exact (srtNode_iff _ _ _).mpr ⟨hasc, hkids⟩

theorem wfRoot_newNode_kids {k : List Tok} {r : Option Route} {cs : List Node} (h : wfRoot (newNode k r cs) = true) :
    (kindsOf cs).Nodup ∧ wfKids cs = true := by
  rw [newNode, wfRoot_iff] at h
  exact ⟨(kindsOf_sortKids cs).nodup_iff.mp h.2.2.1, by rw [← wfKids_perm (sortKids_perm cs)]; exact h.2.2.2⟩

theorem srt_insertRoot (r : Route) (root : Node) (toks : List Tok) (res : InsOk)
    (hwf : wfRoot root = true) (hs : srtNode root = true) (hne : toks ≠ []) (hok : keyOk toks = true)
    (hpos : HostOk r 0 toks) (h : insertNode root true 0 0 toks r = .ok res) : srtNode res.node = true := by
  have hwr := wf_insertRoot r root toks res hwf hne hok hpos h
  obtain ⟨key, route, cs⟩ := root
  have hwf' := (wfRoot_iff _ _ _).mp hwf
  obtain ⟨rfl, rfl, hnd, hkw⟩ := hwf'
  rw [srtNode_iff] at hs
  obtain ⟨hasc, hkids⟩ := hs
  rcases insertNode_ok_inv h with ⟨rfl, _, hn⟩ | ⟨a, as, hk, hn⟩ |
    ⟨t, ts, pre, c, post, cres, rfl, hp, hi, hn⟩ | ⟨t, ts, rfl, hp, hn⟩ |
    ⟨p, a, as, b, bs, _, _, hab, hr, hw, hn⟩
  · exact absurd rfl hne
  · simp at hk
  · rw [hn] at hwr ⊢
    obtain ⟨rfl, hfb, _⟩ := pick_some hp
    have hcw : wfNode c = true := wfKids_mem hkw (by simp)
    have hok' : keyOk (t :: ts) = true := by simpa using hok
    have hpos' : HostOk r (0 + ([] : List Tok).length) (t :: ts) := by simpa using hpos
    have hck : kindOf c.key = kindOf (t :: ts) := by
      obtain ⟨k, ro, ks⟩ := c
      have w := (wfNode_iff _ _ _).mp hcw
      exact (firstByte_eq_iff w.1 (by simp) w.2.1 hok').mp hfb
    have hres := wf_insertNode r c _ _ _ cres hcw (by simp) hok' hck hpos' hi
    have hc' := srt_insertNode r c _ _ _ cres hcw (hkids c (by simp)) (by simp) hok' hck hpos' hi
    rw [srtNode_iff]
    refine ⟨?_, srt_mid hkids hc'⟩
    rw [fbs_mid _ _ _ _ (fb_of_kind hres.1 hcw hres.2)]; exact hasc
  · rw [hn] at hwr ⊢
    obtain ⟨h1, h2⟩ := wfRoot_newNode_kids hwr
    refine srt_newNode h2 h1 ?_
    intro x hx
    rcases List.mem_append.mp hx with h1 | h1
    · exact hkids x h1
    · simp only [List.mem_singleton] at h1; subst h1; exact srt_newLeaf _ _ _
  · cases hr

theorem srt_updateNode (r : Route) (n : Node) : ∀ (toks : List Tok) (n' : Node), srtNode n = true →
    updateNode n toks r = some n' → srtNode n' = true := by
  induction n using Node.ind with
  | h key route cs ih =>
    intro toks n' hs h
    rw [srtNode_iff] at hs
    obtain ⟨hasc, hkids⟩ := hs
    rcases updateNode_inv h with ⟨old, rfl, rfl, rfl⟩ | ⟨t, ts, pre, c, post, c', rfl, hp, hu, rfl⟩
    · exact (srtNode_iff _ _ _).mpr ⟨hasc, hkids⟩
    · obtain ⟨rfl, _, _⟩ := pick_some hp
      have hc' := ih c (by simp) _ _ (hkids c (by simp)) hu
      rw [srtNode_iff]
      refine ⟨?_, srt_mid hkids hc'⟩
      rw [fbs_mid _ _ _ _ (show fb c' = fb c by unfold fb; rw [updateNode_key hu])]; exact hasc

theorem wfN_kids {isRoot : Bool} {k : List Tok} {r : Option Route} {cs : List Node}
    (h : wfN isRoot (.mk k r cs) = true) : (kindsOf cs).Nodup ∧ wfKids cs = true := by
  cases isRoot
  · have := (wfNode_iff _ _ _).mp (by simpa [wfN] using h); exact ⟨this.2.2.1, this.2.2.2.2⟩
  · have := (wfRoot_iff _ _ _).mp (by simpa [wfN] using h); exact ⟨this.2.2.1, this.2.2.2⟩

theorem srt_removeNode (n : Node) : ∀ (isRoot : Bool) (toks : List Tok) (res : Rem) (r : Route) (cse : RemCase),
    wfN isRoot n = true → srtNode n = true → removeNode n isRoot toks = some (res, r, cse) →
    ∀ n', res = .replaced n' → srtNode n' = true := by
  induction n using Node.ind with
  | h key route cs ih =>
    intro isRoot toks res r cse hwf hs h
    obtain ⟨hnd, hkw⟩ := wfN_kids hwf
    rw [srtNode_iff] at hs
    obtain ⟨hasc, hkids⟩ := hs
    rcases removeNode_inv h with ⟨rfl, rfl, rfl⟩ | ⟨t, ts, pre, c, post, resc, csec, rfl, hp, hr, rfl⟩
    · rcases cs with _ | ⟨c, _ | ⟨c2, cs⟩⟩
      · simp [remHere]
      · simp only [remHere, Rem.replaced.injEq]
        rintro n' rfl
        exact srtNode_eta (hkids c (by simp))
      · simp only [remHere, Rem.replaced.injEq]
        rintro n' rfl
        exact (srtNode_iff _ _ _).mpr ⟨hasc, hkids⟩
    · obtain ⟨rfl, _, _⟩ := pick_some hp
      have hcw : wfNode c = true := wfKids_mem hkw (by simp)
      have ihr := ih c (by simp) false _ _ _ _ (by simpa [wfN] using hcw) (hkids c (by simp)) hr
      have hkids' : ∀ x ∈ pre ++ post, srtNode x = true := by
        intro x hx; apply hkids
        rcases List.mem_append.mp hx with h1 | h1 <;> simp [h1]
      have hsub : (pre ++ post).Sublist (pre ++ c :: post) :=
        List.Sublist.append_left (List.sublist_cons_self c post) pre
      rcases remUp_cases key route isRoot pre post resc csec with
        ⟨c', rfl, he⟩ | ⟨rfl, hed, rfl, _, he⟩ | ⟨e, hed, rfl, _, hor, he⟩ | ⟨he, hor⟩ <;> rw [he]
      · simp only [Rem.replaced.injEq]
        rintro n' rfl
        have hres := wf_removeNode c false _ _ _ _ (by simpa [wfN] using hcw) hr c' rfl
        have hcw' : wfNode c' = true := by simpa [wfN] using hres.1
        rw [srtNode_iff]
        refine ⟨?_, srt_mid hkids (ihr _ rfl)⟩
        rw [fbs_mid _ _ _ _ (fb_of_kind hcw' hcw (hres.2 rfl))]; exact hasc
      · simp
      · simp only [Rem.replaced.injEq]
        rintro n' rfl
        exact srtNode_eta (hkids' e (by rw [hed]; simp))
      · simp only [Rem.replaced.injEq]
        rintro n' rfl
        refine srt_newNode ?_ ?_ hkids'
        · exact wfKids_of_forall fun x hx => wfKids_mem hkw (hsub.subset hx)
        · rw [kindsOf_eq_map] at hnd ⊢
          exact hnd.sublist (hsub.map _)

/-! ### trees -/

theorem srtRoots_iff (rs : Roots) : srtRoots rs = true ↔ ∀ x ∈ rs, srtNode x.2 = true := by
  simp [srtRoots, List.all_eq_true]

theorem srtRoots_setRoot {rs : Roots} (h : srtRoots rs = true) (m : Bytes) {n : Node} (hn : srtNode n = true) :
    srtRoots (setRoot rs m n) = true := by
  rw [srtRoots_iff] at h ⊢
  intro x hx
  simp only [setRoot, List.mem_map] at hx
  obtain ⟨y, hy, rfl⟩ := hx
  split
  · exact hn
  · exact h y hy

theorem srtRoots_filter {rs : Roots} (h : srtRoots rs = true) (p : Bytes × Node → Bool) :
    srtRoots (rs.filter p) = true := by
  rw [srtRoots_iff] at h ⊢
  exact fun x hx => h x (List.mem_filter.mp hx).1

theorem srt_empty : srtNode emptyNode = true := by decide

open Fox.C02 in
theorem srt_insert {t t' : Tree} {m : Bytes} {r : Route} {c : InsCase} (hwf : wfRoots t.roots = true)
    (hs : srtRoots t.roots = true) (hv : validPattern r = true) (h : t.insert m r = .ok (t', c)) :
    srtRoots t'.roots = true := by
  have hne := validPattern_ne_nil hv
  have hok := ((validPattern_iff r).mp hv).1
  have hho := validPattern_hostOk hv
  unfold Tree.insert at h
  simp only [] at h
  cases hm : methodRoot t.roots m with
  | some root =>
    simp only [hm] at h
    cases hi : insertNode root true 0 0 r.pattern r with
    | error e => rw [hi] at h; simp at h
    | ok res =>
      rw [hi] at h
      simp only [Except.ok.injEq, Prod.mk.injEq] at h
      obtain ⟨rfl, _⟩ := h
      have hroot := ((wfRoots_iff _).mp hwf).1 _ (methodRoot_some hm)
      have hsroot := (srtRoots_iff _).mp hs _ (methodRoot_some hm)
      exact srtRoots_setRoot hs m (srt_insertRoot r root r.pattern res hroot hsroot hne hok hho hi)
  | none =>
    have hm2 : methodRoot (t.roots ++ [(m, emptyNode)]) m = some emptyNode := methodRoot_append_same _ hm
    simp only [hm, hm2] at h
    cases hi : insertNode emptyNode true 0 0 r.pattern r with
    | error e => rw [hi] at h; simp at h
    | ok res =>
      rw [hi] at h
      simp only [Except.ok.injEq, Prod.mk.injEq] at h
      obtain ⟨rfl, _⟩ := h
      have hs2 : srtRoots (t.roots ++ [(m, emptyNode)]) = true := by
        rw [srtRoots_iff] at hs ⊢
        intro x hx
        rcases List.mem_append.mp hx with h1 | h1
        · exact hs x h1
        · simp only [List.mem_singleton] at h1; subst h1; exact srt_empty
      exact srtRoots_setRoot hs2 m
        (srt_insertRoot r emptyNode r.pattern res (by decide) srt_empty hne hok hho hi)

open Fox.C02 in
theorem srt_update {t t' : Tree} {m : Bytes} {r : Route} (hs : srtRoots t.roots = true)
    (h : t.update m r = some t') : srtRoots t'.roots = true := by
  unfold Tree.update at h
  cases hm : methodRoot t.roots m with
  | none => simp [hm] at h
  | some root =>
    simp only [hm] at h
    cases hu : updateNode root r.pattern r with
    | none => simp [hu] at h
    | some root' =>
      simp only [hu, Option.some.injEq] at h
      subst h
      exact srtRoots_setRoot hs m (srt_updateNode r root _ _ ((srtRoots_iff _).mp hs _ (methodRoot_some hm)) hu)

open Fox.C02 in
theorem srt_remove {t t' : Tree} {m : Bytes} {toks : List Tok} {old : Route} {c : RemCase}
    (hwf : wfRoots t.roots = true) (hs : srtRoots t.roots = true)
    (h : t.remove m toks = some (t', old, c)) : srtRoots t'.roots = true := by
  unfold Tree.remove at h
  cases hm : methodRoot t.roots m with
  | none => simp [hm] at h
  | some root =>
    simp only [hm] at h
    cases hr : removeNode root true toks with
    | none => simp [hr] at h
    | some y =>
      obtain ⟨res, old', cse⟩ := y
      simp only [hr, Option.some.injEq, Prod.mk.injEq] at h
      obtain ⟨rfl, _, _⟩ := h
      have hroot := ((wfRoots_iff _).mp hwf).1 _ (methodRoot_some hm)
      have hsroot := (srtRoots_iff _).mp hs _ (methodRoot_some hm)
      cases res with
      | replaced n =>
        have hn : srtNode n = true :=
          srt_removeNode root true toks _ old' cse (by simpa [wfN] using hroot) hsroot hr n rfl
        simp only []
        split
        · exact srtRoots_filter hs _
        · exact srtRoots_setRoot hs m hn
      | vanished =>
        simp only []
        split
        · exact srtRoots_filter hs _
        · exact srtRoots_setRoot hs m hsroot
      | vanishedHost =>
        simp only []
        split
        · exact srtRoots_filter hs _
        · exact srtRoots_setRoot hs m hsroot

theorem srt_truncateOne {rs : Roots} (sz : Nat) (m : Bytes) (hs : srtRoots rs = true) :
    srtRoots (truncateOne (rs, sz) m).1 = true := by
  unfold truncateOne
  simp only []
  cases methodRoot rs m with
  | none => exact hs
  | some root =>
    simp only []
    split
    · exact srtRoots_filter hs _
    · exact srtRoots_setRoot hs m srt_empty

theorem srt_truncate {t : Tree} (ms : List Bytes) (hs : srtRoots t.roots = true) :
    srtRoots (t.truncate ms).roots = true := by
  unfold Tree.truncate
  split
  · exact (by decide : srtRoots newRoots = true)
  · simp only []
    have : ∀ (ms : List Bytes) (rs : Roots) (sz : Nat), srtRoots rs = true →
        srtRoots (ms.foldl truncateOne (rs, sz)).1 = true := by
      intro ms
      induction ms with
      | nil => intro rs sz h; exact h
      | cons m ms ih => intro rs sz h; exact ih _ _ (srt_truncateOne sz m h)
    exact this ms t.roots t.size hs

open Fox.C02 in
theorem srt_step {t : Tree} (op : Op) (hg : Good t) (hs : srtRoots t.roots = true) (hv : op.valid = true) :
    srtRoots (stepModel t op).1.roots = true := by
  cases op with
  | handle m r =>
    simp only [stepModel]
    cases hi : t.insert m r with
    | ok y => obtain ⟨t', c⟩ := y; exact srt_insert hg.wfRoots hs hv hi
    | error e => cases e <;> exact hs
  | update m r =>
    simp only [stepModel]
    cases hu : t.update m r with
    | some t' => exact srt_update hs hu
    | none => exact hs
  | delete m pat =>
    simp only [stepModel]
    cases hr : t.remove m pat with
    | some y => obtain ⟨t', old, c⟩ := y; exact srt_remove hg.wfRoots hs hr
    | none => exact hs
  | truncate ms => exact srt_truncate ms hs

open Fox.C02 in
theorem srt_run : ∀ (ops : List Op) {t : Tree} {s : Spec.Store}, Sim t s → srtRoots t.roots = true →
    (∀ op ∈ ops, op.valid = true) → srtRoots (runModel t ops).1.roots = true
  | [], _, _, _, hs, _ => hs
  | op :: ops, t, s, h, hs, hv => by
    have h1 := (step_refines op h (hv op (by simp))).1
    exact srt_run ops h1 (srt_step op h.good hs (hv op (by simp))) (fun o ho => hv o (by simp [ho]))

end Fox.Model.NodeRep
