import FoxModel.Spec.Route
/-
  Spec-side algebra of `specAll`: behaviour on the empty set, on unions, and on sets whose members all begin with
  the same token ("uniform head"). Used by the refinement of the radix-tree walk (Lemmas/Refine.lean).
-/
namespace Fox.Spec
open Fox

@[simp] theorem advLit_nil (b) : advLit b [] = [] := rfl
@[simp] theorem advParam_nil : advParam [] = [] := rfl
@[simp] theorem advInfix_nil : advInfix [] = [] := rfl
@[simp] theorem paramNames_nil : paramNames [] = [] := by simp [paramNames, names]
@[simp] theorem infixNames_nil : infixNames [] = [] := by simp [infixNames, names]
@[simp] theorem endsHere_nil (ps) : endsHere [] ps = [] := rfl
@[simp] theorem suffixCatch_nil (p ps) : suffixCatch [] p ps = [] := rfl

theorem advLit_append (b) (S T : SufSet) : advLit b (S ++ T) = advLit b S ++ advLit b T := by
  simp [advLit, List.filterMap_append]
theorem advParam_append (S T : SufSet) : advParam (S ++ T) = advParam S ++ advParam T := by
  simp [advParam, List.filterMap_append]
theorem advInfix_append (S T : SufSet) : advInfix (S ++ T) = advInfix S ++ advInfix T := by
  simp [advInfix, List.filterMap_append]
theorem suffixCatch_append (S T : SufSet) (p ps) : suffixCatch (S ++ T) p ps = suffixCatch S p ps ++ suffixCatch T p ps := by
  simp [suffixCatch, List.filterMap_append]
theorem endsHere_append (S T : SufSet) (ps) : endsHere (S ++ T) ps = endsHere S ps ++ endsHere T ps := by
  simp [endsHere, List.filterMap_append]

mutual
theorem specAll_nil (path : Bytes) (ps : Binds) : specAll [] path ps = [] := by
  match path with
  | [] => simp [specAll]
  | b :: rest =>
    unfold specAll
    simp [specAll_nil rest]
end

theorem specInfix_nil (n acc rest ps) : specInfix [] n acc rest ps = [] := by
  induction rest generalizing acc with
  | nil => simp [specInfix]
  | cons c rest' ih =>
    unfold specInfix
    split
    · split
      · rfl
      · simp [specAll_nil, ih]
    · exact ih _

/-- the four alternatives at a non-empty path, named -/
def paramPart (S : SufSet) (p : Bytes) (ps : Binds) : Res :=
  if segEnd SLASH p = 0 then [] else
    (paramNames S).flatMap fun n =>
      specAll (advParamNamed n S) (p.drop (segEnd SLASH p)) (ps ++ [(n, p.take (segEnd SLASH p))])

def infixPart (S : SufSet) (b : UInt8) (rest : Bytes) (ps : Binds) : Res :=
  if b = SLASH then [] else (infixNames S).flatMap fun n => specInfix (advInfixNamed n S) n [b] rest ps

theorem specAll_cons (S : SufSet) (b : UInt8) (rest : Bytes) (ps : Binds) :
    specAll S (b :: rest) ps =
      specAll (advLit b S) rest ps ++ paramPart S (b :: rest) ps ++ infixPart S b rest ps
        ++ suffixCatch S (b :: rest) ps := by
  conv => lhs; unfold specAll
  simp [paramPart, infixPart]

theorem paramPart_congr {S S' : SufSet} (h : advParam S = advParam S') (p ps) : paramPart S p ps = paramPart S' p ps := by
  unfold paramPart paramNames advParamNamed
  rw [h]

theorem infixPart_congr {S S' : SufSet} (h : advInfix S = advInfix S') (b rest ps) :
    infixPart S b rest ps = infixPart S' b rest ps := by
  unfold infixPart infixNames advInfixNamed
  rw [h]

/-- every member of `S` begins with token `t` -/
def AllHead (t : Tok) (S : SufSet) : Prop := ∀ sr ∈ S, ∃ s', sr.1 = t :: s'

def tails (S : SufSet) : SufSet := S.map fun sr => (sr.1.tail, sr.2)

theorem AllHead.tail {t : Tok} {x} {S : SufSet} (h : AllHead t (x :: S)) : AllHead t S :=
  fun y hy => h y (by simp [hy])

theorem advLit_allHead_lit {c b : UInt8} {S : SufSet} (h : AllHead (.lit c) S) :
    advLit b S = if c = b then tails S else [] := by
  induction S with
  | nil => simp [tails]
  | cons sr S ih =>
    obtain ⟨s', hs⟩ := h sr (by simp)
    have ih' := ih h.tail
    simp only [advLit, List.filterMap_cons] at ih' ⊢
    rw [hs]
    by_cases hcb : c = b
    · simp [hcb, tails] at ih' ⊢
      rw [hs]; simp [ih']
    · simp [hcb] at ih' ⊢
      exact ih'

theorem advLit_allHead_other {t : Tok} {b : UInt8} {S : SufSet} (h : AllHead t S) (ht : ∀ c, t ≠ .lit c) :
    advLit b S = [] := by
  induction S with
  | nil => simp
  | cons sr S ih =>
    obtain ⟨s', hs⟩ := h sr (by simp)
    have ih' := ih h.tail
    simp only [advLit, List.filterMap_cons] at ih' ⊢
    rw [hs]
    cases t with
    | lit c => exact absurd rfl (ht c)
    | param n => simpa using ih'
    | catchAll n => simpa using ih'

theorem advParam_allHead_param {n : Bytes} {S : SufSet} (h : AllHead (.param n) S) :
    advParam S = S.map fun sr => (n, (sr.1.tail, sr.2)) := by
  induction S with
  | nil => simp
  | cons sr S ih =>
    obtain ⟨s', hs⟩ := h sr (by simp)
    have ih' := ih h.tail
    simp only [advParam, List.filterMap_cons, List.map_cons] at ih' ⊢
    rw [hs]; simp [ih']

theorem advParam_allHead_other {t : Tok} {S : SufSet} (h : AllHead t S) (ht : ∀ n, t ≠ .param n) :
    advParam S = [] := by
  induction S with
  | nil => simp
  | cons sr S ih =>
    obtain ⟨s', hs⟩ := h sr (by simp)
    have ih' := ih h.tail
    simp only [advParam, List.filterMap_cons] at ih' ⊢
    rw [hs]
    cases t with
    | param n => exact absurd rfl (ht n)
    | lit c => simpa using ih'
    | catchAll n => simpa using ih'

theorem advInfix_allHead_other {t : Tok} {S : SufSet} (h : AllHead t S) (ht : ∀ n, t ≠ .catchAll n) :
    advInfix S = [] := by
  induction S with
  | nil => simp
  | cons sr S ih =>
    obtain ⟨s', hs⟩ := h sr (by simp)
    have ih' := ih h.tail
    simp only [advInfix, List.filterMap_cons] at ih' ⊢
    rw [hs]
    cases t with
    | catchAll n => exact absurd rfl (ht n)
    | lit c => simpa using ih'
    | param n => simpa using ih'

theorem endsHere_allHead {t : Tok} {S : SufSet} (h : AllHead t S) (ps) : endsHere S ps = [] := by
  induction S with
  | nil => simp
  | cons sr S ih =>
    obtain ⟨s', hs⟩ := h sr (by simp)
    have ih' := ih h.tail
    simp only [endsHere, List.filterMap_cons] at ih' ⊢
    rw [hs]; simpa using ih'

theorem suffixCatch_allHead_other {t : Tok} {S : SufSet} (h : AllHead t S) (ht : ∀ n, t ≠ .catchAll n) (p ps) :
    suffixCatch S p ps = [] := by
  induction S with
  | nil => simp
  | cons sr S ih =>
    obtain ⟨s', hs⟩ := h sr (by simp)
    have ih' := ih h.tail
    simp only [suffixCatch, List.filterMap_cons] at ih' ⊢
    rw [hs]
    cases t with
    | catchAll n => exact absurd rfl (ht n)
    | lit c => simpa using ih'
    | param n => simpa using ih'

theorem names_const {n : Bytes} {l : List Bytes} (h : ∀ y ∈ l, y = n) : names l = if l = [] then [] else [n] := by
  induction l with
  | nil => simp [names]
  | cons x xs ih =>
    have hx : x = n := h x (by simp)
    have ih' := ih (fun y hy => h y (by simp [hy]))
    subst hx
    simp only [names, ih']
    split <;> simp

theorem paramNames_allHead_param {n : Bytes} {S : SufSet} (h : AllHead (.param n) S) :
    paramNames S = if S = [] then [] else [n] := by
  unfold paramNames
  rw [advParam_allHead_param h, names_const (n := n)]
  · cases S <;> simp
  · intro y hy; simp at hy; obtain ⟨_, _, _, rfl⟩ := hy; rfl

theorem advParamNamed_allHead_param {n : Bytes} {S : SufSet} (h : AllHead (.param n) S) :
    advParamNamed n S = tails S := by
  unfold advParamNamed
  rw [advParam_allHead_param h]
  simp [tails, List.filterMap_map, Function.comp_def]

theorem paramPart_nil (p ps) : paramPart [] p ps = [] := by simp [paramPart]
theorem infixPart_nil (b rest ps) : infixPart [] b rest ps = [] := by simp [infixPart]

theorem paramPart_of_advParam_nil {S : SufSet} (h : advParam S = []) (p ps) : paramPart S p ps = [] := by
  rw [paramPart_congr (S' := []) (by simpa using h)]; exact paramPart_nil p ps

theorem infixPart_of_advInfix_nil {S : SufSet} (h : advInfix S = []) (b rest ps) : infixPart S b rest ps = [] := by
  rw [infixPart_congr (S' := []) (by simpa using h)]; exact infixPart_nil b rest ps

/-- a set whose members all begin with the literal `c` -/
theorem specAll_lit {c : UInt8} {S : SufSet} (h : AllHead (.lit c) S) (b rest ps) :
    specAll S (b :: rest) ps = if c = b then specAll (tails S) rest ps else [] := by
  rw [specAll_cons, advLit_allHead_lit h,
      paramPart_of_advParam_nil (advParam_allHead_other h (by intro n; simp)),
      infixPart_of_advInfix_nil (advInfix_allHead_other h (by intro n; simp)),
      suffixCatch_allHead_other h (by intro n; simp)]
  by_cases hcb : c = b <;> simp [hcb, specAll_nil]

theorem specAll_head_nil {t : Tok} {S : SufSet} (h : AllHead t S) (ps) : specAll S [] ps = [] := by
  unfold specAll; exact endsHere_allHead h ps

/-- a set whose members all begin with the parameter `{n}` -/
theorem specAll_param {n : Bytes} {S : SufSet} (h : AllHead (.param n) S) (b rest ps) :
    specAll S (b :: rest) ps = if segEnd SLASH (b :: rest) = 0 then [] else
      specAll (tails S) ((b :: rest).drop (segEnd SLASH (b :: rest)))
        (ps ++ [(n, (b :: rest).take (segEnd SLASH (b :: rest)))]) := by
  rw [specAll_cons, advLit_allHead_other h (by intro c; simp),
      infixPart_of_advInfix_nil (advInfix_allHead_other h (by intro m; simp)),
      suffixCatch_allHead_other h (by intro m; simp)]
  unfold paramPart
  rw [paramNames_allHead_param h]
  by_cases he : segEnd SLASH (b :: rest) = 0
  · simp [he, specAll_nil]
  · by_cases hS : S = []
    · subst hS; simp [he, specAll_nil, tails]
    · simp [he, hS, specAll_nil, advParamNamed_allHead_param h]

/-- members `*{n} t …` (the catch-all is followed by more pattern) -/
def AllInfix (n : Bytes) (S : SufSet) : Prop := ∀ sr ∈ S, ∃ t s', sr.1 = .catchAll n :: t :: s'

theorem AllInfix.allHead {n : Bytes} {S : SufSet} (h : AllInfix n S) : AllHead (.catchAll n) S := by
  intro sr hsr; obtain ⟨t, s', hs⟩ := h sr hsr; exact ⟨t :: s', hs⟩

theorem advInfix_allInfix {n : Bytes} {S : SufSet} (h : AllInfix n S) :
    advInfix S = S.map fun sr => (n, (sr.1.tail, sr.2)) := by
  induction S with
  | nil => simp
  | cons sr S ih =>
    obtain ⟨t, s', hs⟩ := h sr (by simp)
    have ih' := ih (fun y hy => h y (by simp [hy]))
    simp only [advInfix, List.filterMap_cons, List.map_cons] at ih' ⊢
    rw [hs]; simp [ih']

theorem suffixCatch_allInfix {n : Bytes} {S : SufSet} (h : AllInfix n S) (p ps) : suffixCatch S p ps = [] := by
  induction S with
  | nil => simp
  | cons sr S ih =>
    obtain ⟨t, s', hs⟩ := h sr (by simp)
    have ih' := ih (fun y hy => h y (by simp [hy]))
    simp only [suffixCatch, List.filterMap_cons] at ih' ⊢
    rw [hs]; simpa using ih'

theorem infixNames_allInfix {n : Bytes} {S : SufSet} (h : AllInfix n S) :
    infixNames S = if S = [] then [] else [n] := by
  unfold infixNames
  rw [advInfix_allInfix h, names_const (n := n)]
  · cases S <;> simp
  · intro y hy; simp at hy; obtain ⟨_, _, _, rfl⟩ := hy; rfl

theorem advInfixNamed_allInfix {n : Bytes} {S : SufSet} (h : AllInfix n S) :
    advInfixNamed n S = tails S := by
  unfold advInfixNamed
  rw [advInfix_allInfix h]
  simp [tails, List.filterMap_map, Function.comp_def]

/-- a set whose members all begin with an infix catch-all `*{n}` followed by more pattern -/
theorem specAll_infix {n : Bytes} {S : SufSet} (h : AllInfix n S) (b rest ps) :
    specAll S (b :: rest) ps = if b = SLASH then [] else specInfix (tails S) n [b] rest ps := by
  rw [specAll_cons, advLit_allHead_other h.allHead (by intro c; simp),
      paramPart_of_advParam_nil (advParam_allHead_other h.allHead (by intro m; simp)),
      suffixCatch_allInfix h]
  unfold infixPart
  rw [infixNames_allInfix h]
  by_cases hb : b = SLASH
  · simp [hb, specAll_nil]
  · by_cases hS : S = []
    · subst hS; simp [hb, specAll_nil, tails, specInfix_nil]
    · simp [hb, hS, specAll_nil, advInfixNamed_allInfix h]

end Fox.Spec

namespace Fox.Spec
open Fox

/-! ### hostname part -/

def headSlash (sr : List Tok × Route) : Bool := match sr.1 with | .lit c :: _ => c == SLASH | _ => false

theorem specHost_nil_host (S : SufSet) (path ps) : specHost S [] path ps = specAll (S.filter headSlash) path ps := by
  unfold specHost; rfl

def hostParamPart (S : SufSet) (h : Bytes) (path : Bytes) (ps : Binds) : Res :=
  if segEnd DOT h = 0 then [] else
    (paramNames S).flatMap fun n =>
      specHost (advParamNamed n S) (h.drop (segEnd DOT h)) path (ps ++ [(n, h.take (segEnd DOT h))])

theorem specHost_cons (S : SufSet) (b : UInt8) (rest : Bytes) (path ps) :
    specHost S (b :: rest) path ps = specHost (advLit b S) rest path ps ++ hostParamPart S (b :: rest) path ps := by
  conv => lhs; unfold specHost
  simp [hostParamPart]

theorem specHost_nil (host path : Bytes) (ps : Binds) : specHost [] host path ps = [] := by
  induction host generalizing ps with
  | nil => rw [specHost_nil_host]; simp [specAll_nil]
  | cons b rest ih => rw [specHost_cons]; simp [ih, hostParamPart]

theorem hostParamPart_congr {S S' : SufSet} (h : advParam S = advParam S') (hh path ps) :
    hostParamPart S hh path ps = hostParamPart S' hh path ps := by
  unfold hostParamPart paramNames advParamNamed
  rw [h]

theorem hostParamPart_of_advParam_nil {S : SufSet} (h : advParam S = []) (hh path ps) : hostParamPart S hh path ps = [] := by
  rw [hostParamPart_congr (S' := []) (by simpa using h)]; simp [hostParamPart]

theorem specHost_lit {c : UInt8} {S : SufSet} (h : AllHead (.lit c) S) (b rest path ps) :
    specHost S (b :: rest) path ps = if c = b then specHost (tails S) rest path ps else [] := by
  rw [specHost_cons, advLit_allHead_lit h,
      hostParamPart_of_advParam_nil (advParam_allHead_other h (by intro n; simp))]
  by_cases hcb : c = b <;> simp [hcb, specHost_nil]

theorem specHost_param {n : Bytes} {S : SufSet} (h : AllHead (.param n) S) (b rest path ps) :
    specHost S (b :: rest) path ps = if segEnd DOT (b :: rest) = 0 then [] else
      specHost (tails S) ((b :: rest).drop (segEnd DOT (b :: rest))) path
        (ps ++ [(n, (b :: rest).take (segEnd DOT (b :: rest)))]) := by
  rw [specHost_cons, advLit_allHead_other h (by intro c; simp)]
  unfold hostParamPart
  rw [paramNames_allHead_param h]
  by_cases he : segEnd DOT (b :: rest) = 0
  · simp [he, specHost_nil]
  · by_cases hS : S = []
    · subst hS; simp [he, specHost_nil, tails]
    · simp [he, hS, specHost_nil, advParamNamed_allHead_param h]

theorem specHost_catch {n : Bytes} {S : SufSet} (h : AllHead (.catchAll n) S) (b rest path ps) :
    specHost S (b :: rest) path ps = [] := by
  rw [specHost_cons, advLit_allHead_other h (by intro c; simp),
      hostParamPart_of_advParam_nil (advParam_allHead_other h (by intro m; simp))]
  simp [specHost_nil]

theorem filter_headSlash_allHead {t : Tok} {S : SufSet} (h : AllHead t S) (ht : t ≠ .lit SLASH) :
    S.filter headSlash = [] := by
  rw [List.filter_eq_nil_iff]
  intro sr hsr
  obtain ⟨s', hs⟩ := h sr hsr
  unfold headSlash; rw [hs]
  cases t with
  | lit c => simp; intro hc; exact ht (by rw [hc])
  | param n => simp
  | catchAll n => simp

theorem filter_headSlash_allHead_slash {S : SufSet} (h : AllHead (.lit SLASH) S) : S.filter headSlash = S := by
  rw [List.filter_eq_self]
  intro sr hsr
  obtain ⟨s', hs⟩ := h sr hsr
  unfold headSlash; rw [hs]; simp

end Fox.Spec
