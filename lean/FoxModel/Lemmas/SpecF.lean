import FoxModel.Lemmas.Refine
/-
  The specification enumeration over a *filtered* suffix set (filter on the route component, e.g. "the route's pattern
  ends with a literal '/'"): the uniform-head and children-decomposition lemmas of SpecAlg/Refine carry over because such
  a filter commutes with every set operation of `specAll`.
-/
namespace Fox.Spec
open Fox

/-- filter a suffix set by a predicate on the route -/
def flt (p : Route → Bool) (S : SufSet) : SufSet := S.filter (fun sr => p sr.2)

@[simp] theorem flt_nil (p) : flt p [] = [] := rfl
theorem flt_append (p) (S T : SufSet) : flt p (S ++ T) = flt p S ++ flt p T := by simp [flt]

theorem AllHead.flt {t : Tok} {S : SufSet} (h : AllHead t S) (p) : AllHead t (flt p S) := by
  intro sr hsr; exact h sr (List.mem_filter.mp hsr).1

theorem AllInfix.flt {n : Bytes} {S : SufSet} (h : AllInfix n S) (p) : AllInfix n (flt p S) := by
  intro sr hsr; exact h sr (List.mem_filter.mp hsr).1

theorem tails_flt (p) (S : SufSet) : tails (flt p S) = flt p (tails S) := by
  induction S with
  | nil => rfl
  | cons x xs ih =>
    simp only [flt, tails, List.filter_cons, List.map_cons] at ih ⊢
    by_cases h : p x.2 = true <;> simp [h, ih]

theorem flt_map_fst (p) (S : SufSet) (g : List Tok → List Tok) :
    flt p (S.map fun sr => (g sr.1, sr.2)) = (flt p S).map fun sr => (g sr.1, sr.2) := by
  induction S with
  | nil => rfl
  | cons x xs ih =>
    simp only [flt, List.filter_cons, List.map_cons] at ih ⊢
    by_cases h : p x.2 = true <;> simp [h, ih]

end Fox.Spec

namespace Fox.Model
open Fox Fox.Spec

theorem sufsFrom_flt (p) (n : Node) (k : List Tok) :
    flt p (sufsFrom n k) = flt p (routeSuf n.route k) ++ (flt p (sufsKids n.children)).map (fun sr => (k ++ sr.1, sr.2)) := by
  rw [sufsFrom_eq, flt_append, flt_map_fst]

theorem tails_flt_sufsFrom (p) (n : Node) (t : Tok) (k : List Tok) :
    tails (flt p (sufsFrom n (t :: k))) = flt p (sufsFrom n k) := by
  rw [tails_flt, tails_sufsFrom]

theorem wfNode_head_flt {c : Node} (h : wfNode c = true) (p) :
    ∃ t k', c.key = t :: k' ∧ AllHead t (flt p (sufsNode c)) := by
  obtain ⟨t, k', hk, hh⟩ := wfNode_head h
  exact ⟨t, k', hk, hh.flt p⟩

theorem sufsKids_flt_cons (p) (c : Node) (cs : List Node) :
    flt p (sufsKids (c :: cs)) = flt p (sufsNode c) ++ flt p (sufsKids cs) := by
  rw [sufsKids_cons, flt_append]

/-! ### single child -/

theorem advLit_child_f {c : Node} (h : wfNode c = true) (p) (b : UInt8) :
    advLit b (flt p (sufsNode c)) = if kindOf c.key = some (.static b) then tails (flt p (sufsNode c)) else [] := by
  obtain ⟨t, k', hk, hh⟩ := wfNode_head_flt h p
  rw [hk]
  cases t with
  | lit c0 =>
    rw [advLit_allHead_lit hh]
    by_cases hcb : c0 = b <;> simp [kindOf, hcb]
  | param n => rw [advLit_allHead_other hh (by intro c; simp)]; simp [kindOf]
  | catchAll n => rw [advLit_allHead_other hh (by intro c; simp)]; simp [kindOf]

theorem advParam_child_nonparam_f {c : Node} (h : wfNode c = true) (p) (hk : kindOf c.key ≠ some .param) :
    advParam (flt p (sufsNode c)) = [] := by
  obtain ⟨t, k', hk', hh⟩ := wfNode_head_flt h p
  rw [hk'] at hk
  apply advParam_allHead_other hh
  intro n hn; subst hn; simp [kindOf] at hk

theorem advInfix_child_noncatch_f {c : Node} (h : wfNode c = true) (p) (hk : kindOf c.key ≠ some .catchAll) :
    advInfix (flt p (sufsNode c)) = [] := by
  obtain ⟨t, k', hk', hh⟩ := wfNode_head_flt h p
  rw [hk'] at hk
  apply advInfix_allHead_other hh
  intro n hn; subst hn; simp [kindOf] at hk

theorem suffixCatch_child_noncatch_f {c : Node} (h : wfNode c = true) (p) (hk : kindOf c.key ≠ some .catchAll) (pa ps) :
    suffixCatch (flt p (sufsNode c)) pa ps = [] := by
  obtain ⟨t, k', hk', hh⟩ := wfNode_head_flt h p
  rw [hk'] at hk
  apply suffixCatch_allHead_other hh
  intro n hn; subst hn; simp [kindOf] at hk

theorem specAll_child_static_f {c : Node} (h : wfNode c = true) (p) {b : UInt8} (hk : kindOf c.key = some (.static b)) (rest ps) :
    specAll (flt p (sufsNode c)) (b :: rest) ps = specAll (tails (flt p (sufsNode c))) rest ps := by
  obtain ⟨t, k', hk', hh⟩ := wfNode_head_flt h p
  rw [hk'] at hk
  have ht : t = .lit b := kindOf_cons_static.mp hk
  subst ht
  rw [specAll_lit hh]; simp

theorem specAll_child_param_f {c : Node} (h : wfNode c = true) (p) (hk : kindOf c.key = some .param) (b rest ps) :
    specAll (flt p (sufsNode c)) (b :: rest) ps = paramPart (flt p (sufsNode c)) (b :: rest) ps := by
  obtain ⟨t, k', hk', hh⟩ := wfNode_head_flt h p
  rw [hk'] at hk
  obtain ⟨n, rfl⟩ := kindOf_cons_param.mp hk
  rw [specAll_cons, advLit_allHead_other hh (by intro c; simp),
      infixPart_of_advInfix_nil (advInfix_allHead_other hh (by intro m; simp)),
      suffixCatch_allHead_other hh (by intro m; simp)]
  simp [specAll_nil]

theorem specAll_child_catch_f {c : Node} (h : wfNode c = true) (p) (hk : kindOf c.key = some .catchAll) (b rest ps) :
    specAll (flt p (sufsNode c)) (b :: rest) ps =
      infixPart (flt p (sufsNode c)) b rest ps ++ suffixCatch (flt p (sufsNode c)) (b :: rest) ps := by
  obtain ⟨t, k', hk', hh⟩ := wfNode_head_flt h p
  rw [hk'] at hk
  obtain ⟨n, rfl⟩ := kindOf_cons_catch.mp hk
  rw [specAll_cons, advLit_allHead_other hh (by intro c; simp),
      paramPart_of_advParam_nil (advParam_allHead_other hh (by intro m; simp))]
  simp [specAll_nil]

/-! ### children lists -/

theorem advLit_kids_none_f {cs : List Node} (hw : wfKids cs = true) (p) {b : UInt8}
    (hn : ∀ c ∈ cs, kindOf c.key ≠ some (.static b)) : advLit b (flt p (sufsKids cs)) = [] := by
  induction cs with
  | nil => simp
  | cons c cs ih =>
    rw [wfKids_cons] at hw
    rw [sufsKids_flt_cons, advLit_append, advLit_child_f hw.1, ih hw.2 (fun x hx => hn x (by simp [hx]))]
    simp [hn c (by simp)]

theorem advParam_kids_none_f {cs : List Node} (hw : wfKids cs = true) (p)
    (hn : ∀ c ∈ cs, kindOf c.key ≠ some .param) : advParam (flt p (sufsKids cs)) = [] := by
  induction cs with
  | nil => simp
  | cons c cs ih =>
    rw [wfKids_cons] at hw
    rw [sufsKids_flt_cons, advParam_append, advParam_child_nonparam_f hw.1 p (hn c (by simp)),
        ih hw.2 (fun x hx => hn x (by simp [hx]))]
    simp

theorem advInfix_kids_none_f {cs : List Node} (hw : wfKids cs = true) (p)
    (hn : ∀ c ∈ cs, kindOf c.key ≠ some .catchAll) : advInfix (flt p (sufsKids cs)) = [] := by
  induction cs with
  | nil => simp
  | cons c cs ih =>
    rw [wfKids_cons] at hw
    rw [sufsKids_flt_cons, advInfix_append, advInfix_child_noncatch_f hw.1 p (hn c (by simp)),
        ih hw.2 (fun x hx => hn x (by simp [hx]))]
    simp

theorem suffixCatch_kids_none_f {cs : List Node} (hw : wfKids cs = true) (p)
    (hn : ∀ c ∈ cs, kindOf c.key ≠ some .catchAll) (pa ps) : suffixCatch (flt p (sufsKids cs)) pa ps = [] := by
  induction cs with
  | nil => simp
  | cons c cs ih =>
    rw [wfKids_cons] at hw
    rw [sufsKids_flt_cons, suffixCatch_append, suffixCatch_child_noncatch_f hw.1 p (hn c (by simp)),
        ih hw.2 (fun x hx => hn x (by simp [hx]))]
    simp

theorem part_static_f {cs : List Node} (hw : wfKids cs = true) (hd : nodupB (kindsOf cs) = true) (p)
    (b : UInt8) (rest : Bytes) (ps : Binds) :
    specAll (advLit b (flt p (sufsKids cs))) rest ps =
      (cs.filter (fun c => (Sel.static b).matches c.key)).flatMap (fun c => specAll (flt p (sufsNode c)) (b :: rest) ps) := by
  induction cs with
  | nil => simp [specAll_nil]
  | cons c cs ih =>
    have hw' := wfKids_cons.mp hw
    rw [sufsKids_flt_cons, advLit_append, advLit_child_f hw'.1]
    by_cases hk : kindOf c.key = some (.static b)
    · have hothers := nodup_others hd hk
      rw [advLit_kids_none_f hw'.2 p hothers]
      simp only [hk, if_true, List.append_nil]
      rw [List.filter_cons]
      simp [(sel_matches_iff _ _).mpr hk, filter_none hothers, specAll_child_static_f hw'.1 p hk]
    · simp only [hk, if_false, List.nil_append]
      rw [ih hw'.2 (nodup_tail hd), List.filter_cons]
      simp [matches_false hk]

theorem part_param_f {cs : List Node} (hw : wfKids cs = true) (hd : nodupB (kindsOf cs) = true) (p)
    (b : UInt8) (rest : Bytes) (ps : Binds) :
    paramPart (flt p (sufsKids cs)) (b :: rest) ps =
      (cs.filter (fun c => Sel.param.matches c.key)).flatMap (fun c => specAll (flt p (sufsNode c)) (b :: rest) ps) := by
  induction cs with
  | nil => simp [paramPart]
  | cons c cs ih =>
    have hw' := wfKids_cons.mp hw
    rw [List.filter_cons]
    by_cases hk : kindOf c.key = some .param
    · have hothers := nodup_others hd hk
      have hA : advParam (flt p (sufsKids (c :: cs))) = advParam (flt p (sufsNode c)) := by
        rw [sufsKids_flt_cons, advParam_append, advParam_kids_none_f hw'.2 p hothers]; simp
      rw [paramPart_congr hA]
      simp [(sel_matches_iff _ _).mpr hk, filter_none hothers, specAll_child_param_f hw'.1 p hk]
    · have hA : advParam (flt p (sufsKids (c :: cs))) = advParam (flt p (sufsKids cs)) := by
        rw [sufsKids_flt_cons, advParam_append, advParam_child_nonparam_f hw'.1 p hk]; simp
      rw [paramPart_congr hA, ih hw'.2 (nodup_tail hd)]
      simp [matches_false hk]

theorem part_catch_f {cs : List Node} (hw : wfKids cs = true) (hd : nodupB (kindsOf cs) = true) (p)
    (b : UInt8) (rest : Bytes) (ps : Binds) :
    infixPart (flt p (sufsKids cs)) b rest ps ++ suffixCatch (flt p (sufsKids cs)) (b :: rest) ps =
      (cs.filter (fun c => Sel.catchAll.matches c.key)).flatMap (fun c => specAll (flt p (sufsNode c)) (b :: rest) ps) := by
  induction cs with
  | nil => simp [infixPart]
  | cons c cs ih =>
    have hw' := wfKids_cons.mp hw
    rw [List.filter_cons]
    by_cases hk : kindOf c.key = some .catchAll
    · have hothers := nodup_others hd hk
      have hA : advInfix (flt p (sufsKids (c :: cs))) = advInfix (flt p (sufsNode c)) := by
        rw [sufsKids_flt_cons, advInfix_append, advInfix_kids_none_f hw'.2 p hothers]; simp
      rw [infixPart_congr hA, sufsKids_flt_cons, suffixCatch_append, suffixCatch_kids_none_f hw'.2 p hothers]
      simp [(sel_matches_iff _ _).mpr hk, filter_none hothers, specAll_child_catch_f hw'.1 p hk]
    · have hA : advInfix (flt p (sufsKids (c :: cs))) = advInfix (flt p (sufsKids cs)) := by
        rw [sufsKids_flt_cons, advInfix_append, advInfix_child_noncatch_f hw'.1 p hk]; simp
      rw [infixPart_congr hA, sufsKids_flt_cons, suffixCatch_append, suffixCatch_child_noncatch_f hw'.1 p hk]
      simp only [List.nil_append]
      rw [ih hw'.2 (nodup_tail hd)]
      simp [matches_false hk]

/-- **K** for filtered sets -/
theorem specAll_kids_f {cs : List Node} (hw : wfKids cs = true) (hd : nodupB (kindsOf cs) = true) (p)
    (b : UInt8) (rest : Bytes) (ps : Binds) :
    specAll (flt p (sufsKids cs)) (b :: rest) ps =
      (cs.filter (fun c => (Sel.static b).matches c.key)).flatMap (fun c => specAll (flt p (sufsNode c)) (b :: rest) ps)
      ++ (cs.filter (fun c => Sel.param.matches c.key)).flatMap (fun c => specAll (flt p (sufsNode c)) (b :: rest) ps)
      ++ (cs.filter (fun c => Sel.catchAll.matches c.key)).flatMap (fun c => specAll (flt p (sufsNode c)) (b :: rest) ps) := by
  rw [specAll_cons, part_static_f hw hd, part_param_f hw hd, List.append_assoc, List.append_assoc, part_catch_f hw hd]
  simp [List.append_assoc]

theorem sufsFrom_nil_cons_f (p) (n : Node) (b rest ps) :
    specAll (flt p (sufsFrom n [])) (b :: rest) ps = specAll (flt p (sufsKids n.children)) (b :: rest) ps := by
  have hmap : (flt p (sufsKids n.children)).map (fun sr => (([] : List Tok) ++ sr.1, sr.2)) = flt p (sufsKids n.children) := by simp
  rw [sufsFrom_flt, hmap]
  cases hr : n.route with
  | none => simp [routeSuf]
  | some r =>
    have : flt p (routeSuf (some r) []) = if p r then [([], r)] else [] := by
      simp [routeSuf, flt, List.filter_cons]
    rw [this]
    by_cases hp : p r = true
    · simp only [hp, if_true]
      rw [specAll_cons, specAll_cons (flt p (sufsKids n.children))]
      simp [advLit, paramPart, infixPart, paramNames, advParam, advParamNamed, infixNames, advInfix, advInfixNamed,
        suffixCatch, List.filterMap_cons]
    · simp [hp]

end Fox.Model
