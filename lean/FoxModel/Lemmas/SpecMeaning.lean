import FoxModel.Spec.Route
import FoxModel.Spec.Match
/-
  FoxModel.Lemmas.SpecMeaning — the executable routing specification (`Spec/Route.lean`) means what the
  declarative relation (`Spec/Match.lean`) says: soundness, completeness, priority order.
  Core Lean only.
-/
namespace Fox.Spec
open Fox

/-! ### segments -/

theorem segEnd_take_no_delim (d : UInt8) (p : Bytes) : d ∉ p.take (segEnd d p) := by
  induction p with
  | nil => simp [segEnd]
  | cons x xs ih =>
    simp only [segEnd]
    split
    · simp
    · rename_i hx
      rw [Nat.add_comm, List.take_succ_cons]
      simp [ih]
      exact fun h => hx h.symm

theorem segEnd_drop_head (d : UInt8) (p : Bytes) : ∀ c, (p.drop (segEnd d p)).head? = some c → c = d := by
  induction p with
  | nil => simp [segEnd]
  | cons x xs ih =>
    simp only [segEnd]
    split
    · rename_i hx; intro c; simp; intro h; rw [← h, hx]
    · rw [Nat.add_comm, List.drop_succ_cons]; exact ih

theorem segEnd_append (d : UInt8) (v s : Bytes) (hv : d ∉ v) (hs : ∀ c, s.head? = some c → c = d) :
    segEnd d (v ++ s) = v.length := by
  induction v with
  | nil =>
    cases s with
    | nil => simp [segEnd]
    | cons c s' => have := hs c (by simp); subst this; simp [segEnd]
  | cons x xs ih =>
    simp at hv
    have hx : ¬ x = d := fun h => hv.1 h.symm
    simp [segEnd, hx, ih hv.2]; omega

theorem NoDbl_append_singleton (acc : Bytes) (c : UInt8) :
    NoDbl (acc ++ [c]) ↔ NoDbl acc ∧ ¬ (acc.getLast? = some SLASH ∧ c = SLASH) := by
  induction acc with
  | nil => simp [NoDbl]
  | cons x xs ih =>
    cases xs with
    | nil => simp [NoDbl]
    | cons y ys =>
      have : (x :: y :: ys) ++ [c] = x :: y :: (ys ++ [c]) := rfl
      rw [this]
      simp only [NoDbl]
      have ih' : NoDbl (y :: (ys ++ [c])) ↔ _ := ih
      rw [ih']
      simp [List.getLast?_cons_cons, and_assoc]

theorem NoDbl_append_left {a b : Bytes} (h : NoDbl (a ++ b)) : NoDbl a := by
  induction a with
  | nil => trivial
  | cons x xs ih =>
    cases xs with
    | nil => trivial
    | cons y ys =>
      have : (x :: y :: ys) ++ b = x :: y :: (ys ++ b) := rfl
      rw [this] at h
      simp only [NoDbl] at h ⊢
      exact ⟨h.1, ih h.2⟩

/-! ### the set operations -/

theorem mem_names {x : Bytes} {l : List Bytes} : x ∈ names l ↔ x ∈ l := by
  induction l with
  | nil => simp [names]
  | cons y ys ih =>
    simp only [names, List.mem_cons, List.mem_filter, ih]
    by_cases h : x = y <;> simp [h]

theorem mem_advLit {b : UInt8} {S : SufSet} {s' : List Tok} {r : Route} :
    (s', r) ∈ advLit b S ↔ (.lit b :: s', r) ∈ S := by
  simp only [advLit, List.mem_filterMap]
  constructor
  · rintro ⟨⟨s, r0⟩, hm, hf⟩
    match s, hf with
    | .lit c :: ts, hf =>
      by_cases hc : c = b
      · subst hc; simp at hf; obtain ⟨rfl, rfl⟩ := hf; exact hm
      · simp [hc] at hf
    | [], hf => simp at hf
    | .param _ :: _, hf => simp at hf
    | .catchAll _ :: _, hf => simp at hf
  · intro h; exact ⟨_, h, by simp⟩

theorem mem_advParam {n : Bytes} {S : SufSet} {s' : List Tok} {r : Route} :
    (n, (s', r)) ∈ advParam S ↔ (.param n :: s', r) ∈ S := by
  simp only [advParam, List.mem_filterMap]
  constructor
  · rintro ⟨⟨s, r0⟩, hm, hf⟩
    match s, hf with
    | .param k :: ts, hf => simp at hf; obtain ⟨rfl, rfl, rfl⟩ := hf; exact hm
    | [], hf => simp at hf
    | .lit _ :: _, hf => simp at hf
    | .catchAll _ :: _, hf => simp at hf
  · intro h; exact ⟨_, h, by simp⟩

theorem mem_advParamNamed {n : Bytes} {S : SufSet} {s' : List Tok} {r : Route} :
    (s', r) ∈ advParamNamed n S ↔ (.param n :: s', r) ∈ S := by
  simp only [advParamNamed, List.mem_filterMap]
  constructor
  · rintro ⟨⟨m, s1, r1⟩, hm, hg⟩
    by_cases hk : m = n
    · subst hk; simp at hg; obtain ⟨rfl, rfl⟩ := hg; exact mem_advParam.1 hm
    · simp [hk] at hg
  · intro h; exact ⟨(n, (s', r)), mem_advParam.2 h, by simp⟩

theorem mem_paramNames {n : Bytes} {S : SufSet} :
    n ∈ paramNames S ↔ ∃ s' r, (.param n :: s', r) ∈ S := by
  simp only [paramNames, mem_names, List.mem_map]
  constructor
  · rintro ⟨⟨m, s', r⟩, hm, rfl⟩; exact ⟨s', r, mem_advParam.1 hm⟩
  · rintro ⟨s', r, h⟩; exact ⟨(n, (s', r)), mem_advParam.2 h, rfl⟩

theorem mem_advInfix {n : Bytes} {S : SufSet} {s' : List Tok} {r : Route} :
    (n, (s', r)) ∈ advInfix S ↔ s' ≠ [] ∧ (.catchAll n :: s', r) ∈ S := by
  simp only [advInfix, List.mem_filterMap]
  constructor
  · rintro ⟨⟨s, r0⟩, hm, hf⟩
    match s, hf with
    | .catchAll k :: t :: ts, hf => simp at hf; obtain ⟨rfl, rfl, rfl⟩ := hf; exact ⟨by simp, hm⟩
    | [], hf => simp at hf
    | [.catchAll _], hf => simp at hf
    | .lit _ :: _, hf => simp at hf
    | .param _ :: _, hf => simp at hf
  · rintro ⟨hne, h⟩
    cases s' with
    | nil => exact absurd rfl hne
    | cons t ts => exact ⟨_, h, by simp⟩

theorem mem_advInfixNamed {n : Bytes} {S : SufSet} {s' : List Tok} {r : Route} :
    (s', r) ∈ advInfixNamed n S ↔ s' ≠ [] ∧ (.catchAll n :: s', r) ∈ S := by
  simp only [advInfixNamed, List.mem_filterMap]
  constructor
  · rintro ⟨⟨m, s1, r1⟩, hm, hg⟩
    by_cases hk : m = n
    · subst hk; simp at hg; obtain ⟨rfl, rfl⟩ := hg; exact mem_advInfix.1 hm
    · simp [hk] at hg
  · intro h; exact ⟨(n, (s', r)), mem_advInfix.2 h, by simp⟩

theorem mem_infixNames {n : Bytes} {S : SufSet} :
    n ∈ infixNames S ↔ ∃ s' r, s' ≠ [] ∧ (.catchAll n :: s', r) ∈ S := by
  simp only [infixNames, mem_names, List.mem_map]
  constructor
  · rintro ⟨⟨m, s', r⟩, hm, rfl⟩; exact ⟨s', r, mem_advInfix.1 hm⟩
  · rintro ⟨s', r, h⟩; exact ⟨(n, (s', r)), mem_advInfix.2 h, rfl⟩

theorem mem_endsHere {S : SufSet} {ps : Binds} {r : Route} {bs : Binds} :
    (r, bs) ∈ endsHere S ps ↔ ([], r) ∈ S ∧ bs = ps := by
  simp only [endsHere, List.mem_filterMap]
  constructor
  · rintro ⟨⟨s, r0⟩, hm, hf⟩
    by_cases hs : s = []
    · subst hs; simp at hf; obtain ⟨rfl, rfl⟩ := hf; exact ⟨hm, rfl⟩
    · simp [hs] at hf
  · rintro ⟨h, rfl⟩; exact ⟨_, h, by simp⟩

theorem mem_suffixCatch {S : SufSet} {path : Bytes} {ps : Binds} {r : Route} {bs : Binds} :
    (r, bs) ∈ suffixCatch S path ps ↔ ∃ n, ([.catchAll n], r) ∈ S ∧ bs = ps ++ [(n, path)] := by
  simp only [suffixCatch, List.mem_filterMap]
  constructor
  · rintro ⟨⟨s, r0⟩, hm, hf⟩
    match s, hf with
    | [.catchAll n], hf => simp at hf; obtain ⟨rfl, rfl⟩ := hf; exact ⟨n, hm, rfl⟩
    | [], hf => simp at hf
    | .lit _ :: _, hf => simp at hf
    | .param _ :: _, hf => simp at hf
    | .catchAll _ :: _ :: _, hf => simp at hf
  · rintro ⟨n, h, rfl⟩; exact ⟨_, h, by simp⟩

/-! ### the enumeration instrumented with the choice trace -/

abbrev ResT := List (Route × Binds × List Choice)

def tag (c : Choice) (l : ResT) : ResT := l.map fun x => (x.1, x.2.1, c :: x.2.2)
def untag (l : ResT) : Res := l.map fun x => (x.1, x.2.1)
def tagWith (tr : List Choice) (l : Res) : ResT := l.map fun x => (x.1, x.2, tr)

@[simp] theorem untag_tag (c : Choice) (l : ResT) : untag (tag c l) = untag l := by
  simp [untag, tag, List.map_map, Function.comp_def]
@[simp] theorem untag_tagWith (tr : List Choice) (l : Res) : untag (tagWith tr l) = l := by
  simp [untag, tagWith, List.map_map, Function.comp_def]
@[simp] theorem untag_append (a b : ResT) : untag (a ++ b) = untag a ++ untag b := by simp [untag]
@[simp] theorem untag_nil : untag [] = [] := rfl

theorem mem_tag {c : Choice} {l : ResT} {r : Route} {bs : Binds} {tr : List Choice} :
    (r, bs, tr) ∈ tag c l ↔ ∃ tr', tr = c :: tr' ∧ (r, bs, tr') ∈ l := by
  simp only [tag, List.mem_map]
  constructor
  · rintro ⟨⟨r', bs', tr'⟩, hm, he⟩
    simp at he; obtain ⟨rfl, rfl, rfl⟩ := he; exact ⟨tr', rfl, hm⟩
  · rintro ⟨tr', rfl, hm⟩; exact ⟨_, hm, rfl⟩

theorem mem_tagWith {t : List Choice} {l : Res} {r : Route} {bs : Binds} {tr : List Choice} :
    (r, bs, tr) ∈ tagWith t l ↔ tr = t ∧ (r, bs) ∈ l := by
  simp only [tagWith, List.mem_map]
  constructor
  · rintro ⟨⟨r', bs'⟩, hm, he⟩
    simp at he; obtain ⟨rfl, rfl, rfl⟩ := he; exact ⟨rfl, hm⟩
  · rintro ⟨rfl, hm⟩; exact ⟨_, hm, rfl⟩

mutual
/-- `specAll` with the choice trace of every result (same recursion, same order) -/
def specAllT (S : SufSet) (path : Bytes) (ps : Binds) : ResT :=
  match path with
  | [] => tagWith [] (endsHere S ps)
  | b :: rest =>
    tag .static (specAllT (advLit b S) rest ps)
    ++ (if _h : segEnd SLASH (b :: rest) = 0 then [] else
         (paramNames S).flatMap fun n =>
           tag .param (specAllT (advParamNamed n S) ((b :: rest).drop (segEnd SLASH (b :: rest)))
             (ps ++ [(n, (b :: rest).take (segEnd SLASH (b :: rest)))])))
    ++ (if b = SLASH then [] else
         (infixNames S).flatMap fun n => specInfixT (advInfixNamed n S) n [b] rest ps)
    ++ tagWith [.suffix] (suffixCatch S (b :: rest) ps)
termination_by (path.length, 0)
decreasing_by
  all_goals simp_wf
  · simp [Prod.lex_def]
  · have := segEnd_le SLASH (b :: rest); simp [Prod.lex_def] at *; omega
  · simp [Prod.lex_def]

def specInfixT (S : SufSet) (n : Bytes) (acc : Bytes) (rest : Bytes) (ps : Binds) : ResT :=
  match rest with
  | [] => []
  | c :: rest' =>
    if c = SLASH then
      if acc.getLast? = some SLASH then []
      else tag (.infix acc.length) (specAllT S (c :: rest') (ps ++ [(n, acc)]))
           ++ specInfixT S n (acc ++ [c]) rest' ps
    else specInfixT S n (acc ++ [c]) rest' ps
termination_by (rest.length, 1)
decreasing_by
  all_goals simp_wf
  all_goals simp [Prod.lex_def]
end

theorem untag_flatMap {α} (l : List α) (f : α → ResT) : untag (l.flatMap f) = l.flatMap fun a => untag (f a) := by
  simp [untag, List.map_flatMap]

/-- forgetting the traces gives back the specification's enumeration -/
theorem untag_specT :
    (∀ S path ps, untag (specAllT S path ps) = specAll S path ps) ∧
    (∀ S n acc rest ps, untag (specInfixT S n acc rest ps) = specInfix S n acc rest ps) := by
  apply specAll.mutual_induct
  · intro S ps; unfold specAllT specAll; simp
  · intro S ps b rest ih1 ih2 ih3
    unfold specAllT specAll
    simp only [untag_append, untag_tag, untag_tagWith, ih1]
    congr 1; congr 1; congr 1
    · split
      · rfl
      · rename_i he
        rw [untag_flatMap]
        congr 1; funext n; rw [untag_tag]; exact ih2 he n
    · split
      · rfl
      · rw [untag_flatMap]; congr 1; funext n; exact ih3 n
  · intro S n acc ps; unfold specInfixT specInfix; rfl
  · intro S n acc ps rest h; unfold specInfixT specInfix; simp [h]
  · intro S n acc ps rest h ih1 ih2; unfold specInfixT specInfix; simp [h, ih1, ih2]
  · intro S n acc ps b rest hb ih; unfold specInfixT specInfix; simp [hb, ih]

theorem untag_specAllT (S : SufSet) (path : Bytes) (ps : Binds) : untag (specAllT S path ps) = specAll S path ps :=
  untag_specT.1 S path ps

/-! ### soundness -/

theorem trace_infix {n : Bytes} {ts : List Tok} (hts : ts ≠ []) (v : Bytes) (bs : Binds) :
    trace (.catchAll n :: ts) ((n, v) :: bs) = .infix v.length :: trace ts bs := by
  cases ts with
  | nil => exact absurd rfl hts
  | cons t ts' => simp [trace]

def SoundAll (S : SufSet) (path : Bytes) (ps : Binds) : Prop :=
  ∀ r bs tr, (r, bs, tr) ∈ specAllT S path ps →
    ∃ s bs', (s, r) ∈ S ∧ bs = ps ++ bs' ∧ Match SLASH s path bs' ∧ tr = trace s bs'

def SoundInfix (S : SufSet) (n acc rest : Bytes) (ps : Binds) : Prop :=
  ∀ r bs tr, (r, bs, tr) ∈ specInfixT S n acc rest ps →
    ∃ w s' ts bs', rest = w ++ s' ∧ s'.head? = some SLASH ∧ (acc ++ w).getLast? ≠ some SLASH ∧
      (NoDbl acc → NoDbl (acc ++ w)) ∧ (ts, r) ∈ S ∧ Match SLASH ts s' bs' ∧
      bs = ps ++ (n, acc ++ w) :: bs' ∧ tr = .infix (acc ++ w).length :: trace ts bs'

theorem specT_sound :
    (∀ S path ps, SoundAll S path ps) ∧ (∀ S n acc rest ps, SoundInfix S n acc rest ps) := by
  apply specAll.mutual_induct
  · intro S ps r bs tr h
    unfold specAllT at h
    rw [mem_tagWith, mem_endsHere] at h
    obtain ⟨rfl, hm, rfl⟩ := h
    exact ⟨[], [], hm, by simp, Match.nil, rfl⟩
  · intro S ps b rest ih1 ih2 ih3 r bs tr h
    unfold specAllT at h
    simp only [List.mem_append] at h
    rcases h with ((h | h) | h) | h
    · -- static
      rw [mem_tag] at h
      obtain ⟨tr', rfl, h⟩ := h
      obtain ⟨s', bs', hm, rfl, hM, rfl⟩ := ih1 r bs tr' h
      exact ⟨.lit b :: s', bs', mem_advLit.1 hm, rfl, Match.lit hM, rfl⟩
    · -- param
      split at h
      · simp at h
      · rename_i he
        simp only [List.mem_flatMap] at h
        obtain ⟨n, _, hn⟩ := h
        rw [mem_tag] at hn
        obtain ⟨tr', rfl, hn⟩ := hn
        obtain ⟨s', bs', hm, rfl, hM, rfl⟩ := ih2 he n r bs tr' hn
        refine ⟨.param n :: s', (n, (b :: rest).take (segEnd SLASH (b :: rest))) :: bs',
          mem_advParamNamed.1 hm, by simp, ?_, rfl⟩
        have hsplit := (List.take_append_drop (segEnd SLASH (b :: rest)) (b :: rest))
        conv => arg 3; rw [← hsplit]
        apply Match.param
        · intro hnil
          have := congrArg List.length hnil
          simp at this
          have hle := segEnd_le SLASH (b :: rest)
          simp at hle
          omega
        · exact segEnd_take_no_delim _ _
        · exact segEnd_drop_head _ _
        · exact hM
    · -- infix
      split at h
      · simp at h
      · rename_i hb
        simp only [List.mem_flatMap] at h
        obtain ⟨n, _, hn⟩ := h
        obtain ⟨w, s', ts, bs', rfl, hhd, hlast, hdbl, hm, hM, rfl, rfl⟩ := ih3 n r bs tr hn
        obtain ⟨hts, hm⟩ := mem_advInfixNamed.1 hm
        refine ⟨.catchAll n :: ts, (n, [b] ++ w) :: bs', hm, rfl, ?_, (trace_infix hts _ _).symm⟩
        have : b :: (w ++ s') = ([b] ++ w) ++ s' := by simp
        rw [this]
        exact Match.infix ⟨by simp, by simpa using hb, hlast, hdbl trivial⟩ hts hhd hM
    · -- suffix
      rw [mem_tagWith, mem_suffixCatch] at h
      obtain ⟨rfl, n, hm, rfl⟩ := h
      exact ⟨[.catchAll n], [(n, b :: rest)], hm, rfl, Match.suffix (by simp), rfl⟩
  · intro S n acc ps r bs tr h; unfold specInfixT at h; simp at h
  · intro S n acc ps rest hl r bs tr h; unfold specInfixT at h; simp [hl] at h
  · intro S n acc ps rest hl ih1 ih2 r bs tr h
    unfold specInfixT at h
    simp only [hl, if_true, if_false, List.mem_append] at h
    rcases h with h | h
    · rw [mem_tag] at h
      obtain ⟨tr', rfl, h⟩ := h
      obtain ⟨s, bs', hm, rfl, hM, rfl⟩ := ih1 r bs tr' h
      exact ⟨[], SLASH :: rest, s, bs', rfl, rfl, by simpa using hl, by simp, hm, hM, by simp, by simp⟩
    · obtain ⟨w, s', ts, bs', rfl, hhd, hlast, hdbl, hm, hM, rfl, rfl⟩ := ih2 r bs tr h
      refine ⟨SLASH :: w, s', ts, bs', rfl, hhd, by simpa using hlast, ?_, hm, hM, by simp, by simp⟩
      intro hacc
      have := hdbl ((NoDbl_append_singleton acc SLASH).2 ⟨hacc, fun hh => hl hh.1⟩)
      simpa using this
  · intro S n acc ps b rest hb ih r bs tr h
    unfold specInfixT at h
    simp only [hb, if_false] at h
    obtain ⟨w, s', ts, bs', rfl, hhd, hlast, hdbl, hm, hM, rfl, rfl⟩ := ih r bs tr h
    refine ⟨b :: w, s', ts, bs', rfl, hhd, by simpa using hlast, ?_, hm, hM, by simp, by simp⟩
    intro hacc
    have := hdbl ((NoDbl_append_singleton acc b).2 ⟨hacc, fun hh => hb hh.2⟩)
    simpa using this

/-! ### inversion of `Match` -/

theorem _root_.Fox.Match.of_nil {d : UInt8} {s : List Tok} {bs : Binds} (h : Match d s [] bs) : s = [] ∧ bs = [] := by
  generalize hx : ([] : Bytes) = x at h
  cases h with
  | nil => exact ⟨rfl, rfl⟩
  | lit _ => simp at hx
  | param hv _ _ _ => simp at hx; exact absurd hx.1 hv
  | suffix hv => exact absurd hx.symm hv
  | «infix» hc _ _ _ => simp at hx; exact absurd hx.1 hc.1

theorem _root_.Fox.Match.nil_inv {d : UInt8} {x : Bytes} {bs : Binds} (h : Match d [] x bs) : x = [] ∧ bs = [] := by
  cases h; exact ⟨rfl, rfl⟩

theorem _root_.Fox.Match.lit_inv {d : UInt8} {b : UInt8} {ts : List Tok} {x : Bytes} {bs : Binds}
    (h : Match d (.lit b :: ts) x bs) : ∃ s, x = b :: s ∧ Match d ts s bs := by
  cases h with
  | lit h => exact ⟨_, rfl, h⟩

theorem _root_.Fox.Match.param_inv {d : UInt8} {n : Bytes} {ts : List Tok} {x : Bytes} {bs : Binds}
    (h : Match d (.param n :: ts) x bs) :
    ∃ v s bs', x = v ++ s ∧ bs = (n, v) :: bs' ∧ v ≠ [] ∧ d ∉ v ∧ (∀ c, s.head? = some c → c = d) ∧
      Match d ts s bs' := by
  cases h with
  | param h1 h2 h3 h4 => exact ⟨_, _, _, rfl, rfl, h1, h2, h3, h4⟩

theorem _root_.Fox.Match.catch_inv {d : UInt8} {n : Bytes} {ts : List Tok} {x : Bytes} {bs : Binds}
    (h : Match d (.catchAll n :: ts) x bs) :
    (ts = [] ∧ x ≠ [] ∧ bs = [(n, x)]) ∨
    (ts ≠ [] ∧ ∃ v s bs', x = v ++ s ∧ bs = (n, v) :: bs' ∧ InfixCap v ∧ s.head? = some SLASH ∧
      Match d ts s bs') := by
  cases h with
  | suffix h => exact Or.inl ⟨rfl, h, rfl⟩
  | «infix» h1 h2 h3 h4 => exact Or.inr ⟨h2, _, _, _, rfl, rfl, h1, h3, h4⟩

/-! ### completeness -/

def CompleteAll (S : SufSet) (path : Bytes) (ps : Binds) : Prop :=
  ∀ s r bs', (s, r) ∈ S → Match SLASH s path bs' → (r, ps ++ bs', trace s bs') ∈ specAllT S path ps

def CompleteInfix (S : SufSet) (n acc rest : Bytes) (ps : Binds) : Prop :=
  ∀ w s' ts r bs', rest = w ++ s' → s'.head? = some SLASH → (acc ++ w).getLast? ≠ some SLASH →
    NoDbl (acc ++ w) → (ts, r) ∈ S → Match SLASH ts s' bs' →
    (r, ps ++ (n, acc ++ w) :: bs', .infix (acc ++ w).length :: trace ts bs') ∈ specInfixT S n acc rest ps

theorem specT_complete :
    (∀ S path ps, CompleteAll S path ps) ∧ (∀ S n acc rest ps, CompleteInfix S n acc rest ps) := by
  apply specAll.mutual_induct
  · intro S ps s r bs' hm hM
    obtain ⟨rfl, rfl⟩ := hM.of_nil
    unfold specAllT
    rw [mem_tagWith, mem_endsHere]
    exact ⟨rfl, hm, by simp⟩
  · intro S ps b rest ih1 ih2 ih3 s r bs' hm hM
    unfold specAllT
    simp only [List.mem_append]
    match s, hm, hM with
    | [], hm, hM => exact absurd hM.nil_inv.1 (by simp)
    | .lit c :: ts, hm, hM =>
      obtain ⟨s0, hx, hM'⟩ := hM.lit_inv
      simp at hx; obtain ⟨rfl, rfl⟩ := hx
      refine Or.inl (Or.inl (Or.inl ?_))
      exact mem_tag.2 ⟨_, rfl, ih1 ts r bs' (mem_advLit.2 hm) hM'⟩
    | .param n :: ts, hm, hM =>
      obtain ⟨v, s0, bs0, hx, rfl, hv, hd, hs0, hM'⟩ := hM.param_inv
      have hseg : segEnd SLASH (b :: rest) = v.length := by rw [hx]; exact segEnd_append _ _ _ hd hs0
      have he : ¬ segEnd SLASH (b :: rest) = 0 := by
        rw [hseg]; intro h0; exact hv (List.eq_nil_of_length_eq_zero h0)
      have htake : (b :: rest).take (segEnd SLASH (b :: rest)) = v := by rw [hseg, hx]; simp
      have hdrop : (b :: rest).drop (segEnd SLASH (b :: rest)) = s0 := by rw [hseg, hx]; simp
      refine Or.inl (Or.inl (Or.inr ?_))
      rw [dif_neg he]
      refine List.mem_flatMap.2 ⟨n, mem_paramNames.2 ⟨ts, r, hm⟩, mem_tag.2 ⟨_, rfl, ?_⟩⟩
      have := ih2 he n ts r bs0 (mem_advParamNamed.2 hm) (by rw [hdrop]; exact hM')
      rw [htake] at this ⊢
      simpa using this
    | .catchAll n :: ts, hm, hM =>
      rcases hM.catch_inv with ⟨rfl, _, rfl⟩ | ⟨hts, v, s0, bs0, hx, rfl, hc, hhd, hM'⟩
      · exact Or.inr (mem_tagWith.2 ⟨rfl, mem_suffixCatch.2 ⟨n, hm, rfl⟩⟩)
      · refine Or.inl (Or.inr ?_)
        match v, hc, hx with
        | [], hc, _ => exact absurd rfl hc.1
        | b' :: w, hc, hx =>
          simp at hx; obtain ⟨rfl, rfl⟩ := hx
          have hb : ¬ b = SLASH := by simpa using hc.2.1
          rw [if_neg hb]
          refine List.mem_flatMap.2 ⟨n, mem_infixNames.2 ⟨ts, r, hts, hm⟩, ?_⟩
          have := ih3 n w s0 ts r bs0 rfl hhd hc.2.2.1 hc.2.2.2 (mem_advInfixNamed.2 ⟨hts, hm⟩) hM'
          rw [trace_infix hts]
          exact this
  · intro S n acc ps w s' ts r bs' hr hhd
    simp at hr; rw [hr.2] at hhd; simp at hhd
  · intro S n acc ps rest hl w s' ts r bs' hr hhd hlast hdbl hm hM
    exfalso
    cases w with
    | nil => simp at hlast; exact hlast hl
    | cons c w' =>
      simp at hr; obtain ⟨rfl, rfl⟩ := hr
      have : acc ++ SLASH :: w' = (acc ++ [SLASH]) ++ w' := by simp
      rw [this] at hdbl
      exact ((NoDbl_append_singleton acc SLASH).1 (NoDbl_append_left hdbl)).2 ⟨hl, rfl⟩
  · intro S n acc ps rest hl ih1 ih2 w s' ts r bs' hr hhd hlast hdbl hm hM
    unfold specInfixT
    simp only [hl, if_true, if_false, List.mem_append]
    cases w with
    | nil =>
      simp at hr; subst hr
      refine Or.inl (mem_tag.2 ⟨trace ts bs', by simp, ?_⟩)
      have := ih1 ts r bs' hm hM
      simpa using this
    | cons c w' =>
      simp at hr; obtain ⟨rfl, rfl⟩ := hr
      have e : acc ++ SLASH :: w' = (acc ++ [SLASH]) ++ w' := by simp
      refine Or.inr ?_
      rw [e] at hlast hdbl ⊢
      exact ih2 w' s' ts r bs' rfl hhd hlast hdbl hm hM
  · intro S n acc ps b rest hb ih w s' ts r bs' hr hhd hlast hdbl hm hM
    unfold specInfixT
    simp only [hb, if_false]
    cases w with
    | nil =>
      simp at hr; subst hr; simp at hhd; exact absurd hhd hb
    | cons c w' =>
      simp at hr; obtain ⟨rfl, rfl⟩ := hr
      have e : acc ++ b :: w' = (acc ++ [b]) ++ w' := by simp
      rw [e] at hlast hdbl ⊢
      exact ih w' s' ts r bs' rfl hhd hlast hdbl hm hM

theorem mem_untag {l : ResT} {r : Route} {bs : Binds} : (r, bs) ∈ untag l ↔ ∃ tr, (r, bs, tr) ∈ l := by
  simp only [untag, List.mem_map]
  constructor
  · rintro ⟨⟨r', bs', tr⟩, hm, he⟩; simp at he; obtain ⟨rfl, rfl⟩ := he; exact ⟨tr, hm⟩
  · rintro ⟨tr, hm⟩; exact ⟨_, hm, rfl⟩

theorem specAll_sound {S : SufSet} {path : Bytes} {ps : Binds} {r : Route} {bs : Binds}
    (h : (r, bs) ∈ specAll S path ps) :
    ∃ s bs', (s, r) ∈ S ∧ bs = ps ++ bs' ∧ Match SLASH s path bs' := by
  rw [← untag_specAllT, mem_untag] at h
  obtain ⟨tr, h⟩ := h
  obtain ⟨s, bs', h1, h2, h3, _⟩ := specT_sound.1 S path ps r bs tr h
  exact ⟨s, bs', h1, h2, h3⟩

theorem specAll_complete {S : SufSet} {path : Bytes} {ps : Binds} {s : List Tok} {r : Route} {bs' : Binds}
    (hm : (s, r) ∈ S) (hM : Match SLASH s path bs') : (r, ps ++ bs') ∈ specAll S path ps := by
  rw [← untag_specAllT, mem_untag]
  exact ⟨_, specT_complete.1 S path ps s r bs' hm hM⟩

/-! ### consequences of a match: substitution, names, capture shape -/

theorem subst_of_match {d : UInt8} {s : List Tok} {x : Bytes} {bs : Binds} (h : Match d s x bs) :
    subst s bs = some x := by
  induction h with
  | nil => rfl
  | lit _ ih => simp [subst, ih]
  | param _ _ _ _ ih => simp [subst, ih]
  | suffix _ => simp [subst]
  | «infix» _ _ _ _ ih => simp [subst, ih]

theorem subst_append {a b : List Tok} {ba bb : Binds} {x y : Bytes}
    (ha : subst a ba = some x) (hb : subst b bb = some y) : subst (a ++ b) (ba ++ bb) = some (x ++ y) := by
  induction a generalizing ba x with
  | nil =>
    cases ba with
    | nil => simp [subst] at ha; subst ha; simpa using hb
    | cons _ _ => simp [subst] at ha
  | cons t ts ih =>
    cases t with
    | lit c =>
      simp only [subst, Option.map_eq_some_iff] at ha
      obtain ⟨x', hx', rfl⟩ := ha
      simp [subst, ih hx']
    | param n =>
      cases ba with
      | nil => simp [subst] at ha
      | cons p ba' =>
        obtain ⟨m, v⟩ := p
        simp only [subst] at ha
        split at ha
        · rename_i hn
          simp only [Option.map_eq_some_iff] at ha
          obtain ⟨x', hx', rfl⟩ := ha
          simp [subst, hn, ih hx']
        · simp at ha
    | catchAll n =>
      cases ba with
      | nil => simp [subst] at ha
      | cons p ba' =>
        obtain ⟨m, v⟩ := p
        simp only [subst] at ha
        split at ha
        · rename_i hn
          simp only [Option.map_eq_some_iff] at ha
          obtain ⟨x', hx', rfl⟩ := ha
          simp [subst, hn, ih hx']
        · simp at ha

theorem names_of_match {d : UInt8} {s : List Tok} {x : Bytes} {bs : Binds} (h : Match d s x bs) :
    bs.map Prod.fst = wildNames s := by
  induction h with
  | nil => rfl
  | lit _ ih => simpa [wildNames] using ih
  | param _ _ _ _ ih => simp [wildNames, ih]
  | suffix _ => simp [wildNames]
  | «infix» _ _ _ _ ih => simp [wildNames, ih]

theorem wildNames_append (a b : List Tok) : wildNames (a ++ b) = wildNames a ++ wildNames b := by
  induction a with
  | nil => rfl
  | cons t ts ih => cases t <;> simp [wildNames, ih]

theorem wildNames_length (s : List Tok) : (wildNames s).length = (s.filter isWild).length := by
  induction s with
  | nil => rfl
  | cons t ts ih => cases t <;> simp [wildNames, isWild, List.filter_cons, ih]

theorem caps_of_match {d : UInt8} {s : List Tok} {x : Bytes} {bs : Binds} (h : Match d s x bs) :
    CapsOK d s bs := by
  induction h with
  | nil => trivial
  | lit _ ih => simpa [CapsOK] using ih
  | param h1 h2 _ _ ih => exact ⟨rfl, h1, h2, ih⟩
  | suffix h1 => exact ⟨rfl, h1, trivial⟩
  | «infix» h1 _ _ _ ih => exact ⟨rfl, h1.1, ih⟩

/-- every byte of a captured value is a byte of the matched text -/
theorem values_subset {d : UInt8} {s : List Tok} {x : Bytes} {bs : Binds} (h : Match d s x bs) :
    ∀ nv ∈ bs, ∀ c ∈ nv.2, c ∈ x := by
  induction h with
  | nil => simp
  | lit _ ih => intro nv hnv c hc; exact List.mem_cons_of_mem _ (ih nv hnv c hc)
  | param _ _ _ _ ih =>
    intro nv hnv c hc
    simp only [List.mem_cons] at hnv
    rcases hnv with rfl | hnv
    · exact List.mem_append_left _ hc
    · exact List.mem_append_right _ (ih nv hnv c hc)
  | suffix _ => intro nv hnv c hc; simp at hnv; subst hnv; exact hc
  | «infix» _ _ _ _ ih =>
    intro nv hnv c hc
    simp only [List.mem_cons] at hnv
    rcases hnv with rfl | hnv
    · exact List.mem_append_left _ hc
    · exact List.mem_append_right _ (ih nv hnv c hc)

/-- on a text without empty segments the side conditions of an infix capture reduce to
    "non-empty and not starting with '/'" -/
theorem InfixCap.of_clean {v s : Bytes} (hv : v ≠ []) (hh : v.head? ≠ some SLASH) (hs : s.head? = some SLASH)
    (hclean : NoDbl (v ++ s)) : InfixCap v := by
  refine ⟨hv, hh, ?_, NoDbl_append_left hclean⟩
  intro hl
  cases s with
  | nil => simp at hs
  | cons c s' =>
    simp at hs; subst hs
    have : v ++ SLASH :: s' = (v ++ [SLASH]) ++ s' := by simp
    rw [this] at hclean
    exact ((NoDbl_append_singleton v SLASH).1 (NoDbl_append_left hclean)).2 ⟨hl, rfl⟩

/-! ### the hostname part -/

/-- the members standing at their host/path boundary -/
def atBoundary (S : SufSet) : SufSet :=
  S.filter fun sr => match sr.1 with | .lit c :: _ => c == SLASH | _ => false

theorem mem_atBoundary {S : SufSet} {s : List Tok} {r : Route} :
    (s, r) ∈ atBoundary S ↔ (s, r) ∈ S ∧ s.head? = some (.lit SLASH) := by
  simp only [atBoundary, List.mem_filter]
  constructor
  · rintro ⟨hm, hf⟩
    refine ⟨hm, ?_⟩
    match s, hf with
    | .lit c :: ts, hf => simp at hf; simp [hf]
    | [], hf => simp at hf
    | .param _ :: _, hf => simp at hf
    | .catchAll _ :: _, hf => simp at hf
  · rintro ⟨hm, hh⟩
    refine ⟨hm, ?_⟩
    match s, hh with
    | .lit c :: ts, hh => simp at hh; simp [hh]
    | [], hh => simp at hh
    | .param _ :: _, hh => simp at hh
    | .catchAll _ :: _, hh => simp at hh

/-- `specHost` with the choice trace of every result -/
def specHostT (S : SufSet) (host : Bytes) (path : Bytes) (ps : Binds) : ResT :=
  match host with
  | [] => specAllT (atBoundary S) path ps
  | b :: rest =>
    tag .static (specHostT (advLit b S) rest path ps)
    ++ (if _h : segEnd DOT (b :: rest) = 0 then [] else
         (paramNames S).flatMap fun n =>
           tag .param (specHostT (advParamNamed n S) ((b :: rest).drop (segEnd DOT (b :: rest))) path
             (ps ++ [(n, (b :: rest).take (segEnd DOT (b :: rest)))])))
termination_by host.length
decreasing_by
  all_goals simp_wf
  · have := segEnd_le DOT (b :: rest); simp at *; omega

theorem untag_specHostT (S : SufSet) (host path : Bytes) (ps : Binds) :
    untag (specHostT S host path ps) = specHost S host path ps := by
  induction S, host, ps using specHost.induct with
  | case1 S ps => unfold specHostT specHost; exact untag_specAllT _ _ _
  | case2 S ps b rest ih1 ih2 =>
    unfold specHostT specHost
    simp only [untag_append, untag_tag, ih1]
    congr 1
    split
    · rfl
    · rename_i he
      rw [untag_flatMap]
      congr 1; funext n; rw [untag_tag]; exact ih2 he n

theorem trace_append {d : UInt8} {hs : List Tok} {x : Bytes} {bh : Binds} (h : Match d hs x bh)
    (hnc : NoCatch hs) (pp : List Tok) (bp : Binds) :
    trace (hs ++ pp) (bh ++ bp) = trace hs bh ++ trace pp bp := by
  induction h with
  | nil => simp [trace]
  | lit _ ih =>
    simp only [List.cons_append, trace, List.cons.injEq, true_and]
    exact ih (fun t ht => hnc t (List.mem_cons_of_mem _ ht))
  | param _ _ _ _ ih =>
    simp only [List.cons_append, trace, List.cons.injEq, true_and]
    exact ih (fun t ht => hnc t (List.mem_cons_of_mem _ ht))
  | suffix _ => exact absurd (hnc _ (List.mem_cons_self ..)) (by simp [Tok.isCatch])
  | «infix» _ _ _ _ _ => exact absurd (hnc _ (List.mem_cons_self ..)) (by simp [Tok.isCatch])

def SoundHost (S : SufSet) (host path : Bytes) (ps : Binds) : Prop :=
  ∀ r bs tr, (r, bs, tr) ∈ specHostT S host path ps →
    ∃ hs pp bh bp, (hs ++ pp, r) ∈ S ∧ pp.head? = some (.lit SLASH) ∧ NoCatch hs ∧
      Match DOT hs host bh ∧ Match SLASH pp path bp ∧ bs = ps ++ (bh ++ bp) ∧
      tr = trace (hs ++ pp) (bh ++ bp)

theorem specHostT_sound (S : SufSet) (host path : Bytes) (ps : Binds) : SoundHost S host path ps := by
  induction S, host, ps using specHost.induct with
  | case1 S ps =>
    intro r bs tr h
    unfold specHostT at h
    obtain ⟨s, bs', hm, rfl, hM, rfl⟩ := specT_sound.1 _ _ _ r bs tr h
    obtain ⟨hm, hh⟩ := mem_atBoundary.1 hm
    exact ⟨[], s, [], bs', hm, hh, by simp [NoCatch], Match.nil, hM, rfl, rfl⟩
  | case2 S ps b rest ih1 ih2 =>
    intro r bs tr h
    unfold specHostT at h
    simp only [List.mem_append] at h
    rcases h with h | h
    · rw [mem_tag] at h
      obtain ⟨tr', rfl, h⟩ := h
      obtain ⟨hs, pp, bh, bp, hm, hh, hnc, hMh, hMp, rfl, rfl⟩ := ih1 r bs tr' h
      refine ⟨.lit b :: hs, pp, bh, bp, mem_advLit.1 hm, hh, ?_, Match.lit hMh, hMp, rfl, rfl⟩
      intro t ht
      simp only [List.mem_cons] at ht
      rcases ht with rfl | ht
      · rfl
      · exact hnc t ht
    · split at h
      · simp at h
      · rename_i he
        simp only [List.mem_flatMap] at h
        obtain ⟨n, _, hn⟩ := h
        rw [mem_tag] at hn
        obtain ⟨tr', rfl, hn⟩ := hn
        obtain ⟨hs, pp, bh, bp, hm, hh, hnc, hMh, hMp, rfl, rfl⟩ := ih2 he n r bs tr' hn
        refine ⟨.param n :: hs, pp, (n, (b :: rest).take (segEnd DOT (b :: rest))) :: bh, bp,
          mem_advParamNamed.1 hm, hh, ?_, ?_, hMp, by simp, rfl⟩
        · intro t ht
          simp only [List.mem_cons] at ht
          rcases ht with rfl | ht
          · rfl
          · exact hnc t ht
        · have hsplit := (List.take_append_drop (segEnd DOT (b :: rest)) (b :: rest))
          conv => arg 3; rw [← hsplit]
          apply Match.param
          · intro hnil
            have := congrArg List.length hnil
            simp at this
            have hle := segEnd_le DOT (b :: rest)
            simp at hle
            omega
          · exact segEnd_take_no_delim _ _
          · exact segEnd_drop_head _ _
          · exact hMh

def CompleteHost (S : SufSet) (host path : Bytes) (ps : Binds) : Prop :=
  ∀ hs pp r bh bp, (hs ++ pp, r) ∈ S → pp.head? = some (.lit SLASH) → NoCatch hs →
    Match DOT hs host bh → Match SLASH pp path bp →
    (r, ps ++ (bh ++ bp), trace (hs ++ pp) (bh ++ bp)) ∈ specHostT S host path ps

theorem specHostT_complete (S : SufSet) (host path : Bytes) (ps : Binds) : CompleteHost S host path ps := by
  induction S, host, ps using specHost.induct with
  | case1 S ps =>
    intro hs pp r bh bp hm hh hnc hMh hMp
    obtain ⟨rfl, rfl⟩ := hMh.of_nil
    unfold specHostT
    exact specT_complete.1 _ _ _ pp r bp (mem_atBoundary.2 ⟨hm, hh⟩) hMp
  | case2 S ps b rest ih1 ih2 =>
    intro hs pp r bh bp hm hh hnc hMh hMp
    unfold specHostT
    simp only [List.mem_append]
    match hs, hm, hnc, hMh with
    | [], _, _, hMh => exact absurd hMh.nil_inv.1 (by simp)
    | .lit c :: ts, hm, hnc, hMh =>
      obtain ⟨s0, hx, hM'⟩ := hMh.lit_inv
      simp at hx; obtain ⟨rfl, rfl⟩ := hx
      refine Or.inl (mem_tag.2 ⟨_, rfl, ?_⟩)
      exact ih1 ts pp r bh bp (mem_advLit.2 hm) hh (fun t ht => hnc t (List.mem_cons_of_mem _ ht)) hM' hMp
    | .param n :: ts, hm, hnc, hMh =>
      obtain ⟨v, s0, bs0, hx, rfl, hv, hd, hs0, hM'⟩ := hMh.param_inv
      have hseg : segEnd DOT (b :: rest) = v.length := by rw [hx]; exact segEnd_append _ _ _ hd hs0
      have he : ¬ segEnd DOT (b :: rest) = 0 := by
        rw [hseg]; intro h0; exact hv (List.eq_nil_of_length_eq_zero h0)
      have htake : (b :: rest).take (segEnd DOT (b :: rest)) = v := by rw [hseg, hx]; simp
      have hdrop : (b :: rest).drop (segEnd DOT (b :: rest)) = s0 := by rw [hseg, hx]; simp
      refine Or.inr ?_
      rw [dif_neg he]
      refine List.mem_flatMap.2 ⟨n, mem_paramNames.2 ⟨ts ++ pp, r, hm⟩, mem_tag.2 ⟨_, rfl, ?_⟩⟩
      have := ih2 he n ts pp r bs0 bp (mem_advParamNamed.2 hm) hh
        (fun t ht => hnc t (List.mem_cons_of_mem _ ht)) (by rw [hdrop]; exact hM') hMp
      rw [htake] at this ⊢
      simpa using this
    | .catchAll n :: ts, _, hnc, _ => exact absurd (hnc _ (List.mem_cons_self ..)) (by simp [Tok.isCatch])

theorem specHost_sound {S : SufSet} {host path : Bytes} {ps : Binds} {r : Route} {bs : Binds}
    (h : (r, bs) ∈ specHost S host path ps) :
    ∃ s bs', (s, r) ∈ S ∧ bs = ps ++ bs' ∧ MatchHP s host path bs' := by
  rw [← untag_specHostT, mem_untag] at h
  obtain ⟨tr, h⟩ := h
  obtain ⟨hs, pp, bh, bp, h1, h2, h3, h4, h5, h6, _⟩ := specHostT_sound S host path ps r bs tr h
  exact ⟨hs ++ pp, bh ++ bp, h1, h6, hs, pp, bh, bp, rfl, h2, h3, h4, h5, rfl⟩

theorem specHost_complete {S : SufSet} {host path : Bytes} {ps : Binds} {s : List Tok} {r : Route} {bs' : Binds}
    (hm : (s, r) ∈ S) (hM : MatchHP s host path bs') : (r, ps ++ bs') ∈ specHost S host path ps := by
  obtain ⟨hs, pp, bh, bp, rfl, h2, h3, h4, h5, rfl⟩ := hM
  rw [← untag_specHostT, mem_untag]
  exact ⟨_, specHostT_complete S host path ps hs pp r bh bp hm h2 h3 h4 h5⟩

/-! ### priority: the enumeration is sorted by choice trace -/

theorem Choice.lt_irrefl (c : Choice) : ¬ c.lt c := by simp [Choice.lt]

theorem traceLe_refl (t : List Choice) : traceLe t t := by
  induction t with
  | nil => trivial
  | cons c t ih => exact Or.inr ⟨rfl, ih⟩

theorem traceLe_cons_cons (c : Choice) (a b : List Choice) : traceLe (c :: a) (c :: b) ↔ traceLe a b := by
  simp [traceLe, Choice.lt_irrefl]

theorem Choice.eq_of_rank_len {a b : Choice} (h1 : a.rank = b.rank) (h2 : a.len = b.len) : a = b := by
  cases a <;> cases b <;> simp_all [Choice.rank, Choice.len]

theorem Choice.lt_trans {a b c : Choice} (h1 : a.lt b) (h2 : b.lt c) : a.lt c := by
  unfold Choice.lt at *; omega

theorem Choice.lt_trichotomy (a b : Choice) : a.lt b ∨ a = b ∨ b.lt a := by
  by_cases h1 : a.rank = b.rank
  · by_cases h2 : a.len = b.len
    · exact Or.inr (Or.inl (Choice.eq_of_rank_len h1 h2))
    · unfold Choice.lt; omega
  · unfold Choice.lt; omega

theorem traceLe_trans {a b c : List Choice} (h1 : traceLe a b) (h2 : traceLe b c) : traceLe a c := by
  induction a generalizing b c with
  | nil => trivial
  | cons x xs ih =>
    cases b with
    | nil => exact absurd h1 id
    | cons y ys =>
      cases c with
      | nil => exact absurd h2 id
      | cons z zs =>
        simp only [traceLe] at *
        rcases h1 with h1 | ⟨rfl, h1⟩
        · rcases h2 with h2 | ⟨rfl, _⟩
          · exact Or.inl (Choice.lt_trans h1 h2)
          · exact Or.inl h1
        · rcases h2 with h2 | ⟨rfl, h2⟩
          · exact Or.inl h2
          · exact Or.inr ⟨rfl, ih h1 h2⟩

theorem traceLe_total (a b : List Choice) : traceLe a b ∨ traceLe b a := by
  induction a generalizing b with
  | nil => exact Or.inl trivial
  | cons x xs ih =>
    cases b with
    | nil => exact Or.inr trivial
    | cons y ys =>
      simp only [traceLe]
      rcases Choice.lt_trichotomy x y with h | rfl | h
      · exact Or.inl (Or.inl h)
      · rcases ih ys with h | h
        · exact Or.inl (Or.inr ⟨rfl, h⟩)
        · exact Or.inr (Or.inr ⟨rfl, h⟩)
      · exact Or.inr (Or.inl h)

theorem traceLe_antisymm {a b : List Choice} (h1 : traceLe a b) (h2 : traceLe b a) : a = b := by
  induction a generalizing b with
  | nil =>
    cases b with
    | nil => rfl
    | cons _ _ => exact absurd h2 id
  | cons x xs ih =>
    cases b with
    | nil => exact absurd h1 id
    | cons y ys =>
      simp only [traceLe] at h1 h2
      rcases h1 with h1 | ⟨rfl, h1⟩
      · rcases h2 with h2 | ⟨rfl, _⟩
        · exact absurd (Choice.lt_trans h1 h2) (Choice.lt_irrefl _)
        · exact absurd h1 (Choice.lt_irrefl _)
      · rcases h2 with h2 | ⟨_, h2⟩
        · exact absurd h2 (Choice.lt_irrefl _)
        · rw [ih h1 h2]

/-- pairwise name coherence of a suffix set (see `cohPair`) -/
def Coherent (S : SufSet) : Prop := ∀ x ∈ S, ∀ y ∈ S, cohPair x.1 y.1 = true

theorem Coherent.advLit {S : SufSet} (h : Coherent S) (b : UInt8) : Coherent (advLit b S) := by
  intro ⟨s1, r1⟩ h1 ⟨s2, r2⟩ h2
  have := h _ (mem_advLit.1 h1) _ (mem_advLit.1 h2)
  simpa [cohPair] using this

theorem Coherent.advParamNamed {S : SufSet} (h : Coherent S) (n : Bytes) : Coherent (advParamNamed n S) := by
  intro ⟨s1, r1⟩ h1 ⟨s2, r2⟩ h2
  have := h _ (mem_advParamNamed.1 h1) _ (mem_advParamNamed.1 h2)
  simpa [cohPair] using this

theorem Coherent.advInfixNamed {S : SufSet} (h : Coherent S) (n : Bytes) : Coherent (advInfixNamed n S) := by
  intro ⟨s1, r1⟩ h1 ⟨s2, r2⟩ h2
  obtain ⟨hn1, h1⟩ := mem_advInfixNamed.1 h1
  obtain ⟨hn2, h2⟩ := mem_advInfixNamed.1 h2
  have := h _ h1 _ h2
  simpa [cohPair, hn1, hn2] using this

theorem Coherent.atBoundary {S : SufSet} (h : Coherent S) : Coherent (atBoundary S) := by
  intro x h1 y h2
  exact h x (List.mem_filter.1 h1).1 y (List.mem_filter.1 h2).1

theorem names_of_all_eq {l : List Bytes} (h : ∀ x ∈ l, ∀ y ∈ l, x = y) : names l = [] ∨ ∃ n, names l = [n] := by
  cases l with
  | nil => exact Or.inl rfl
  | cons x xs =>
    refine Or.inr ⟨x, ?_⟩
    simp only [names, List.cons.injEq, true_and, List.filter_eq_nil_iff]
    intro y hy
    have := h y (List.mem_cons_of_mem _ (mem_names.1 hy)) x (List.mem_cons_self ..)
    simp [this]

theorem Coherent.paramNames {S : SufSet} (h : Coherent S) : paramNames S = [] ∨ ∃ n, paramNames S = [n] := by
  apply names_of_all_eq
  intro x hx y hy
  simp only [List.mem_map] at hx hy
  obtain ⟨⟨n1, s1, r1⟩, hm1, rfl⟩ := hx
  obtain ⟨⟨n2, s2, r2⟩, hm2, rfl⟩ := hy
  have := h _ (mem_advParam.1 hm1) _ (mem_advParam.1 hm2)
  simp [cohPair] at this
  exact this.1

theorem Coherent.infixNames {S : SufSet} (h : Coherent S) : infixNames S = [] ∨ ∃ n, infixNames S = [n] := by
  apply names_of_all_eq
  intro x hx y hy
  simp only [List.mem_map] at hx hy
  obtain ⟨⟨n1, s1, r1⟩, hm1, rfl⟩ := hx
  obtain ⟨⟨n2, s2, r2⟩, hm2, rfl⟩ := hy
  obtain ⟨hn1, hm1⟩ := mem_advInfix.1 hm1
  obtain ⟨hn2, hm2⟩ := mem_advInfix.1 hm2
  have := h _ hm1 _ hm2
  simp [cohPair, hn1, hn2] at this
  exact this.1

def SortedT (l : ResT) : Prop := l.Pairwise fun x y => traceLe x.2.2 y.2.2

/-- every trace in `l` starts with a choice whose rank satisfies `P` -/
def Rk (P : Nat → Prop) (l : ResT) : Prop := ∀ x ∈ l, ∃ c tr', x.2.2 = c :: tr' ∧ P c.rank

theorem Rk.append {P : Nat → Prop} {a b : ResT} (ha : Rk P a) (hb : Rk P b) : Rk P (a ++ b) := by
  intro x hx; rcases List.mem_append.1 hx with h | h
  · exact ha x h
  · exact hb x h

theorem Rk.mono {P Q : Nat → Prop} {a : ResT} (ha : Rk P a) (h : ∀ i, P i → Q i) : Rk Q a := by
  intro x hx; obtain ⟨c, tr', h1, h2⟩ := ha x hx; exact ⟨c, tr', h1, h _ h2⟩

theorem Rk.nil (P : Nat → Prop) : Rk P [] := by intro x hx; simp at hx

theorem Rk.tag (c : Choice) (l : ResT) : Rk (· = c.rank) (tag c l) := by
  intro ⟨r, bs, tr⟩ hx
  obtain ⟨tr', rfl, _⟩ := mem_tag.1 hx
  exact ⟨c, tr', rfl, rfl⟩

theorem Rk.tagWith (c : Choice) (l : Res) : Rk (· = c.rank) (tagWith [c] l) := by
  intro ⟨r, bs, tr⟩ hx
  obtain ⟨rfl, _⟩ := mem_tagWith.1 hx
  exact ⟨c, [], rfl, rfl⟩

theorem SortedT.append {a b : ResT} {P Q : Nat → Prop} (ha : SortedT a) (hb : SortedT b)
    (hP : Rk P a) (hQ : Rk Q b) (hlt : ∀ i j, P i → Q j → i < j) : SortedT (a ++ b) := by
  refine List.pairwise_append.2 ⟨ha, hb, ?_⟩
  intro x hx y hy
  obtain ⟨c, tr1, e1, h1⟩ := hP x hx
  obtain ⟨c', tr2, e2, h2⟩ := hQ y hy
  rw [e1, e2]
  exact Or.inl (Or.inl (hlt _ _ h1 h2))

theorem SortedT.tag {l : ResT} (h : SortedT l) (c : Choice) : SortedT (tag c l) := by
  unfold SortedT Spec.tag
  rw [List.pairwise_map]
  exact h.imp fun hxy => (traceLe_cons_cons _ _ _).2 hxy

theorem SortedT.tagWith (t : List Choice) (l : Res) : SortedT (tagWith t l) := by
  unfold SortedT Spec.tagWith
  rw [List.pairwise_map]
  exact List.pairwise_of_forall (fun _ _ => traceLe_refl t)

theorem SortedT.nil : SortedT [] := List.Pairwise.nil

theorem sorted4 {A B C D : ResT} (hA : SortedT A) (hB : SortedT B) (hC : SortedT C) (hD : SortedT D)
    (rA : Rk (· = 0) A) (rB : Rk (· = 1) B) (rC : Rk (· = 2) C) (rD : Rk (· = 3) D) :
    SortedT (A ++ B ++ C ++ D) := by
  have hAB := SortedT.append hA hB rA rB (by intro i j hi hj; omega)
  have hABr : Rk (· ≤ 1) (A ++ B) := (rA.mono (by intro i hi; omega)).append (rB.mono (by intro i hi; omega))
  have hABC := SortedT.append hAB hC hABr rC (by intro i j hi hj; omega)
  have hABCr : Rk (· ≤ 2) (A ++ B ++ C) :=
    (hABr.mono (by intro i hi; omega)).append (rC.mono (by intro i hi; omega))
  exact SortedT.append hABC hD hABCr rD (by intro i j hi hj; omega)

def SortedAll (S : SufSet) (path : Bytes) (ps : Binds) : Prop := Coherent S → SortedT (specAllT S path ps)

def SortedInfix (S : SufSet) (n acc rest : Bytes) (ps : Binds) : Prop :=
  Coherent S → SortedT (specInfixT S n acc rest ps) ∧
    ∀ x ∈ specInfixT S n acc rest ps, ∃ l tr', x.2.2 = .infix l :: tr' ∧ acc.length ≤ l

theorem specT_sorted :
    (∀ S path ps, SortedAll S path ps) ∧ (∀ S n acc rest ps, SortedInfix S n acc rest ps) := by
  apply specAll.mutual_induct
  · intro S ps _; unfold specAllT; exact SortedT.tagWith _ _
  · intro S ps b rest ih1 ih2 ih3 hS
    unfold specAllT
    -- the four branches
    have hA : SortedT (tag .static (specAllT (advLit b S) rest ps)) := (ih1 (hS.advLit b)).tag _
    have hB : SortedT (if _h : segEnd SLASH (b :: rest) = 0 then [] else
         (paramNames S).flatMap fun n =>
           tag .param (specAllT (advParamNamed n S) ((b :: rest).drop (segEnd SLASH (b :: rest)))
             (ps ++ [(n, (b :: rest).take (segEnd SLASH (b :: rest)))]))) := by
      split
      · exact SortedT.nil
      · rename_i he
        rcases hS.paramNames with h | ⟨n, h⟩
        · rw [h]; exact SortedT.nil
        · rw [h]; simp only [List.flatMap_cons, List.flatMap_nil, List.append_nil]
          exact (ih2 he n (hS.advParamNamed n)).tag _
    have hBr : Rk (· = 1) (if _h : segEnd SLASH (b :: rest) = 0 then [] else
         (paramNames S).flatMap fun n =>
           tag .param (specAllT (advParamNamed n S) ((b :: rest).drop (segEnd SLASH (b :: rest)))
             (ps ++ [(n, (b :: rest).take (segEnd SLASH (b :: rest)))]))) := by
      split
      · exact Rk.nil _
      · intro x hx
        obtain ⟨n, _, hx⟩ := List.mem_flatMap.1 hx
        exact Rk.tag .param _ x hx
    have hC : SortedT (if b = SLASH then [] else
         (infixNames S).flatMap fun n => specInfixT (advInfixNamed n S) n [b] rest ps) := by
      split
      · exact SortedT.nil
      · rcases hS.infixNames with h | ⟨n, h⟩
        · rw [h]; exact SortedT.nil
        · rw [h]; simp only [List.flatMap_cons, List.flatMap_nil, List.append_nil]
          exact (ih3 n (hS.advInfixNamed n)).1
    have hCr : Rk (· = 2) (if b = SLASH then [] else
         (infixNames S).flatMap fun n => specInfixT (advInfixNamed n S) n [b] rest ps) := by
      split
      · exact Rk.nil _
      · intro x hx
        obtain ⟨n, _, hx⟩ := List.mem_flatMap.1 hx
        obtain ⟨l, tr', e, _⟩ := (ih3 n (hS.advInfixNamed n)).2 x hx
        exact ⟨_, _, e, rfl⟩
    exact sorted4 hA hB hC (SortedT.tagWith _ _) (Rk.tag .static _) hBr hCr (Rk.tagWith .suffix _)
  · intro S n acc ps _; unfold specInfixT; exact ⟨SortedT.nil, by simp⟩
  · intro S n acc ps rest hl _; unfold specInfixT; simp only [hl, if_true]; exact ⟨SortedT.nil, by simp⟩
  · intro S n acc ps rest hl ih1 ih2 hS
    unfold specInfixT
    simp only [hl, if_true, if_false]
    obtain ⟨h2s, h2r⟩ := ih2 hS
    refine ⟨List.pairwise_append.2 ⟨(ih1 hS).tag _, h2s, ?_⟩, ?_⟩
    · intro ⟨r, bs, tr⟩ hx y hy
      obtain ⟨tr', rfl, _⟩ := mem_tag.1 hx
      obtain ⟨l, tr2, e, hle⟩ := h2r y hy
      rw [e]
      simp at hle
      exact Or.inl (Or.inr ⟨rfl, by simp [Choice.len]; omega⟩)
    · intro x hx
      rcases List.mem_append.1 hx with h | h
      · obtain ⟨r, bs, tr⟩ := x
        obtain ⟨tr', rfl, _⟩ := mem_tag.1 h
        exact ⟨_, _, rfl, Nat.le_refl _⟩
      · obtain ⟨l, tr2, e, hle⟩ := h2r x h
        simp at hle
        exact ⟨l, tr2, e, by omega⟩
  · intro S n acc ps b rest hb ih hS
    unfold specInfixT
    simp only [hb, if_false]
    obtain ⟨h2s, h2r⟩ := ih hS
    refine ⟨h2s, ?_⟩
    intro x hx
    obtain ⟨l, tr2, e, hle⟩ := h2r x hx
    simp at hle
    exact ⟨l, tr2, e, by omega⟩

theorem specHostT_sorted (S : SufSet) (host path : Bytes) (ps : Binds) (hS : Coherent S) :
    SortedT (specHostT S host path ps) := by
  induction S, host, ps using specHost.induct with
  | case1 S ps => unfold specHostT; exact specT_sorted.1 _ _ _ hS.atBoundary
  | case2 S ps b rest ih1 ih2 =>
    unfold specHostT
    refine SortedT.append ((ih1 (hS.advLit b)).tag _) ?_ (Rk.tag .static _) (Q := (· = 1)) ?_
      (by intro i j hi hj; simp [Choice.rank] at hi; omega)
    · split
      · exact SortedT.nil
      · rename_i he
        rcases hS.paramNames with h | ⟨n, h⟩
        · rw [h]; exact SortedT.nil
        · rw [h]; simp only [List.flatMap_cons, List.flatMap_nil, List.append_nil]
          exact (ih2 he n (hS.advParamNamed n)).tag _
    · split
      · exact Rk.nil _
      · intro x hx
        obtain ⟨n, _, hx⟩ := List.mem_flatMap.1 hx
        exact Rk.tag .param _ x hx

theorem head_le_of_sorted {x : Route × Binds × List Choice} {tl : ResT} (h : SortedT (x :: tl))
    {y : Route × Binds × List Choice} (hy : y ∈ x :: tl) : traceLe x.2.2 y.2.2 := by
  rcases List.mem_cons.1 hy with rfl | hy
  · exact traceLe_refl _
  · exact (List.pairwise_cons.1 h).1 y hy

theorem untag_eq_cons {l : ResT} {r : Route} {bs : Binds} {tl : Res} (h : untag l = (r, bs) :: tl) :
    ∃ tr tlT, l = (r, bs, tr) :: tlT := by
  cases l with
  | nil => simp [untag] at h
  | cons x xs =>
    obtain ⟨r', bs', tr⟩ := x
    simp [untag] at h
    obtain ⟨⟨rfl, rfl⟩, _⟩ := h
    exact ⟨tr, xs, rfl⟩

/-- the first enumerated match is a match with the smallest choice trace -/
theorem specAll_head_best {S : SufSet} (hS : Coherent S) {path : Bytes} {ps : Binds} {r : Route} {bs : Binds}
    {tl : Res} (h : specAll S path ps = (r, bs) :: tl) :
    ∃ s bs0, (s, r) ∈ S ∧ bs = ps ++ bs0 ∧ Match SLASH s path bs0 ∧
      ∀ s' r' bs', (s', r') ∈ S → Match SLASH s' path bs' → traceLe (trace s bs0) (trace s' bs') := by
  rw [← untag_specAllT] at h
  obtain ⟨tr, tlT, hT⟩ := untag_eq_cons h
  obtain ⟨s, bs0, hm, hbs, hM, rfl⟩ := specT_sound.1 S path ps r bs _ (by rw [hT]; exact List.mem_cons_self ..)
  refine ⟨s, bs0, hm, hbs, hM, ?_⟩
  intro s' r' bs' hm' hM'
  have hmem := specT_complete.1 S path ps s' r' bs' hm' hM'
  have hsorted := specT_sorted.1 S path ps hS
  rw [hT] at hmem hsorted
  exact head_le_of_sorted hsorted hmem

theorem specHost_head_best {S : SufSet} (hS : Coherent S) {host path : Bytes} {ps : Binds} {r : Route}
    {bs : Binds} {tl : Res} (h : specHost S host path ps = (r, bs) :: tl) :
    ∃ s bs0, (s, r) ∈ S ∧ bs = ps ++ bs0 ∧ MatchHP s host path bs0 ∧
      ∀ s' r' bs', (s', r') ∈ S → MatchHP s' host path bs' → traceLe (trace s bs0) (trace s' bs') := by
  rw [← untag_specHostT] at h
  obtain ⟨tr, tlT, hT⟩ := untag_eq_cons h
  obtain ⟨hs, pp, bh, bp, hm, h2, h3, h4, h5, hbs, rfl⟩ :=
    specHostT_sound S host path ps r bs _ (by rw [hT]; exact List.mem_cons_self ..)
  refine ⟨hs ++ pp, bh ++ bp, hm, hbs, ⟨hs, pp, bh, bp, rfl, h2, h3, h4, h5, rfl⟩, ?_⟩
  intro s' r' bs' hm' hM'
  obtain ⟨hs', pp', bh', bp', rfl, g2, g3, g4, g5, rfl⟩ := hM'
  have hmem := specHostT_complete S host path ps hs' pp' r' bh' bp' hm' g2 g3 g4 g5
  have hsorted := specHostT_sorted S host path ps hS
  rw [hT] at hmem hsorted
  exact head_le_of_sorted hsorted hmem

/-! ### route lists -/

theorem mem_sufsOf {R : List Route} {s : List Tok} {r : Route} : (s, r) ∈ sufsOf R ↔ r ∈ R ∧ s = r.pattern := by
  simp only [sufsOf, List.mem_map]
  constructor
  · rintro ⟨r', hm, he⟩; simp at he; obtain ⟨rfl, rfl⟩ := he; exact ⟨hm, rfl⟩
  · rintro ⟨hm, rfl⟩; exact ⟨r, hm, rfl⟩

theorem coherent_sufsOf {R : List Route} (h : CoherentRoutes R) : Coherent (sufsOf R) := by
  intro ⟨s1, r1⟩ h1 ⟨s2, r2⟩ h2
  obtain ⟨m1, rfl⟩ := mem_sufsOf.1 h1
  obtain ⟨m2, rfl⟩ := mem_sufsOf.1 h2
  exact h r1 m1 r2 m2

theorem _root_.Fox.CoherentRoutes.filter {R : List Route} (h : CoherentRoutes R) (p : Route → Bool) :
    CoherentRoutes (R.filter p) :=
  fun r1 h1 r2 h2 => h r1 (List.mem_filter.1 h1).1 r2 (List.mem_filter.1 h2).1

/-! ### members that do not match are irrelevant -/

theorem specAll_branches (S : SufSet) (b : UInt8) (rest : Bytes) (ps : Binds) :
    specAll S (b :: rest) ps =
      specAll (advLit b S) rest ps
      ++ (if segEnd SLASH (b :: rest) = 0 then [] else
           (paramNames S).flatMap fun n =>
             specAll (advParamNamed n S) ((b :: rest).drop (segEnd SLASH (b :: rest)))
               (ps ++ [(n, (b :: rest).take (segEnd SLASH (b :: rest)))]))
      ++ (if b = SLASH then [] else (infixNames S).flatMap fun n => specInfix (advInfixNamed n S) n [b] rest ps)
      ++ suffixCatch S (b :: rest) ps := by
  conv => lhs; unfold specAll
  rfl

theorem specHost_branches (S : SufSet) (b : UInt8) (rest path : Bytes) (ps : Binds) :
    specHost S (b :: rest) path ps =
      specHost (advLit b S) rest path ps
      ++ (if segEnd DOT (b :: rest) = 0 then [] else
           (paramNames S).flatMap fun n =>
             specHost (advParamNamed n S) ((b :: rest).drop (segEnd DOT (b :: rest))) path
               (ps ++ [(n, (b :: rest).take (segEnd DOT (b :: rest)))])) := by
  conv => lhs; unfold specHost
  rfl

theorem specAll_empty (path : Bytes) (ps : Binds) : specAll [] path ps = [] := by
  apply List.eq_nil_iff_forall_not_mem.2
  intro ⟨r, bs⟩ hm
  obtain ⟨s, _, hs, _⟩ := specAll_sound hm
  simp at hs

theorem specHost_empty (host path : Bytes) (ps : Binds) : specHost [] host path ps = [] := by
  apply List.eq_nil_iff_forall_not_mem.2
  intro ⟨r, bs⟩ hm
  obtain ⟨s, _, hs, _⟩ := specHost_sound hm
  simp at hs

theorem specInfix_empty (n acc rest : Bytes) (ps : Binds) : specInfix [] n acc rest ps = [] := by
  apply List.eq_nil_iff_forall_not_mem.2
  intro ⟨r, bs⟩ hm
  rw [← untag_specT.2, mem_untag] at hm
  obtain ⟨tr, hm⟩ := hm
  obtain ⟨_, _, ts, _, _, _, _, _, hs, _⟩ := specT_sound.2 [] n acc rest ps r bs tr hm
  simp at hs

theorem match_param_seg {d : UInt8} {p : Bytes} {n : Bytes} {s' : List Tok} {bs : Binds}
    (he : ¬ segEnd d p = 0) (hM : Match d s' (p.drop (segEnd d p)) bs) :
    Match d (.param n :: s') p ((n, p.take (segEnd d p)) :: bs) := by
  have hsplit := List.take_append_drop (segEnd d p) p
  conv => arg 3; rw [← hsplit]
  apply Match.param
  · intro hnil
    have := congrArg List.length hnil
    rw [List.length_take, List.length_nil] at this
    have hle := segEnd_le d p
    omega
  · exact segEnd_take_no_delim _ _
  · exact segEnd_drop_head _ _
  · exact hM

theorem filterMap_filter_comm {α β} (f : α → Option β) (q : α → Bool) (q' : β → Bool)
    (h : ∀ x y, f x = some y → q x = q' y) (l : List α) :
    (l.filter q).filterMap f = (l.filterMap f).filter q' := by
  induction l with
  | nil => rfl
  | cons x xs ih =>
    cases hf : f x with
    | none =>
      by_cases hq : q x = true
      · simp [hq, hf, ih]
      · simp [hq, hf, ih]
    | some y =>
      have := h x y hf
      by_cases hq : q x = true
      · have hq' : q' y = true := by rw [← this]; exact hq
        simp [hq, hq', hf, ih]
      · have hq' : ¬ q' y = true := by rw [← this]; exact hq
        simp [hq, hq', hf, ih]

theorem filterMap_filter_of_none {α β} (f : α → Option β) (q : α → Bool) (l : List α)
    (h : ∀ x ∈ l, q x = false → f x = none) : (l.filter q).filterMap f = l.filterMap f := by
  induction l with
  | nil => rfl
  | cons x xs ih =>
    have ih' := ih (fun y hy => h y (List.mem_cons_of_mem _ hy))
    by_cases hq : q x = true
    · simp [hq, List.filterMap_cons, ih']
    · have := h x (List.mem_cons_self ..) (by simpa using hq)
      simp [hq, this, ih']

/-- a set operation that strips one leading token `t`, written as a single `filterMap` -/
theorem adv_filter_comm (op : SufSet → SufSet) (F : (List Tok × Route) → Option (List Tok × Route))
    (hop : ∀ S, op S = S.filterMap F) (t : Tok)
    (hmem : ∀ S y, y ∈ op S → (t :: y.1, y.2) ∈ S) (q : List Tok × Route → Bool) (S : SufSet) :
    op (S.filter q) = (op S).filter (fun y => q (t :: y.1, y.2)) := by
  rw [hop, hop]
  apply filterMap_filter_comm
  intro x y hf
  have : y ∈ op [x] := by rw [hop]; simp [hf]
  have := hmem [x] y this
  simp at this
  rw [this]

theorem advLit_filter (b : UInt8) (q : List Tok × Route → Bool) (S : SufSet) :
    advLit b (S.filter q) = (advLit b S).filter (fun y => q (.lit b :: y.1, y.2)) :=
  adv_filter_comm (advLit b) _ (fun _ => rfl) _ (fun _ _ h => mem_advLit.1 h) q S

theorem advParamNamed_filter (n : Bytes) (q : List Tok × Route → Bool) (S : SufSet) :
    advParamNamed n (S.filter q) = (advParamNamed n S).filter (fun y => q (.param n :: y.1, y.2)) :=
  adv_filter_comm (advParamNamed n) _ (fun _ => by unfold advParamNamed advParam; rw [List.filterMap_filterMap])
    _ (fun _ _ h => mem_advParamNamed.1 h) q S

theorem advInfixNamed_filter (n : Bytes) (q : List Tok × Route → Bool) (S : SufSet) :
    advInfixNamed n (S.filter q) = (advInfixNamed n S).filter (fun y => q (.catchAll n :: y.1, y.2)) :=
  adv_filter_comm (advInfixNamed n) _ (fun _ => by unfold advInfixNamed advInfix; rw [List.filterMap_filterMap])
    _ (fun _ _ h => (mem_advInfixNamed.1 h).2) q S

theorem Coherent.filter {S : SufSet} (h : Coherent S) (q : List Tok × Route → Bool) : Coherent (S.filter q) :=
  fun x hx y hy => h x (List.mem_filter.1 hx).1 y (List.mem_filter.1 hy).1

theorem flatMap_names_filter {g : Bytes → Res} {l l' : List Bytes} (hl : l = [] ∨ ∃ n, l = [n])
    (hl' : l' = [] ∨ ∃ n, l' = [n]) (hsub : ∀ m ∈ l', m ∈ l) (hdead : ∀ m ∈ l, m ∉ l' → g m = []) :
    l.flatMap g = l'.flatMap g := by
  rcases hl with rfl | ⟨n, rfl⟩
  · rcases hl' with rfl | ⟨n', rfl⟩
    · rfl
    · exact absurd (hsub n' (List.mem_cons_self ..)) (by simp)
  · rcases hl' with rfl | ⟨n', rfl⟩
    · simp [hdead n (List.mem_cons_self ..) (by simp)]
    · have := hsub n' (List.mem_cons_self ..)
      simp at this; subst this; rfl

def DeadAt (x : List Tok × Route) (path : Bytes) : Prop := ¬ ∃ bs, Match SLASH x.1 path bs

def DeadInfix (x : List Tok × Route) (acc rest : Bytes) : Prop :=
  ∀ w s', rest = w ++ s' → s'.head? = some SLASH → (acc ++ w).getLast? ≠ some SLASH → NoDbl (acc ++ w) →
    DeadAt x s'

def FilterAll (S : SufSet) (path : Bytes) (ps : Binds) : Prop :=
  ∀ q : List Tok × Route → Bool, (∀ x ∈ S, q x = false → DeadAt x path) → Coherent S →
    specAll S path ps = specAll (S.filter q) path ps

def FilterInfix (S : SufSet) (n acc rest : Bytes) (ps : Binds) : Prop :=
  ∀ q : List Tok × Route → Bool, NoDbl acc → (∀ x ∈ S, q x = false → DeadInfix x acc rest) → Coherent S →
    specInfix S n acc rest ps = specInfix (S.filter q) n acc rest ps

theorem paramNames_filter_sub {S : SufSet} {q : List Tok × Route → Bool} :
    ∀ m ∈ paramNames (S.filter q), m ∈ paramNames S := by
  intro m hm
  obtain ⟨s', r, h⟩ := mem_paramNames.1 hm
  exact mem_paramNames.2 ⟨s', r, (List.mem_filter.1 h).1⟩

theorem infixNames_filter_sub {S : SufSet} {q : List Tok × Route → Bool} :
    ∀ m ∈ infixNames (S.filter q), m ∈ infixNames S := by
  intro m hm
  obtain ⟨s', r, hne, h⟩ := mem_infixNames.1 hm
  exact mem_infixNames.2 ⟨s', r, hne, (List.mem_filter.1 h).1⟩

theorem advParamNamed_nil_of_not_mem {S : SufSet} {n : Bytes} (h : n ∉ paramNames S) : advParamNamed n S = [] := by
  apply List.eq_nil_iff_forall_not_mem.2
  intro ⟨s', r⟩ hm
  exact h (mem_paramNames.2 ⟨s', r, mem_advParamNamed.1 hm⟩)

theorem advInfixNamed_nil_of_not_mem {S : SufSet} {n : Bytes} (h : n ∉ infixNames S) : advInfixNamed n S = [] := by
  apply List.eq_nil_iff_forall_not_mem.2
  intro ⟨s', r⟩ hm
  obtain ⟨hne, hm⟩ := mem_advInfixNamed.1 hm
  exact h (mem_infixNames.2 ⟨s', r, hne, hm⟩)

theorem spec_filter :
    (∀ S path ps, FilterAll S path ps) ∧ (∀ S n acc rest ps, FilterInfix S n acc rest ps) := by
  apply specAll.mutual_induct
  · intro S ps q hq hS
    unfold specAll
    symm
    apply filterMap_filter_of_none
    intro ⟨s, r⟩ hx hqx
    cases s with
    | nil => exact absurd ⟨[], Match.nil⟩ (hq _ hx hqx)
    | cons t ts => simp
  · intro S ps b rest ih1 ih2 ih3 q hq hS
    rw [specAll_branches S, specAll_branches (S.filter q)]
    congr 1; congr 1; congr 1
    · -- static
      rw [advLit_filter]
      apply ih1 _ _ (hS.advLit b)
      intro ⟨s', r⟩ hx hqx
      have := hq _ (mem_advLit.1 hx) hqx
      rintro ⟨bs, hM⟩
      exact this ⟨bs, Match.lit hM⟩
    · -- param
      split
      · rfl
      · rename_i he
        have hg : ∀ n, specAll (advParamNamed n (S.filter q)) ((b :: rest).drop (segEnd SLASH (b :: rest)))
              (ps ++ [(n, (b :: rest).take (segEnd SLASH (b :: rest)))]) =
            specAll (advParamNamed n S) ((b :: rest).drop (segEnd SLASH (b :: rest)))
              (ps ++ [(n, (b :: rest).take (segEnd SLASH (b :: rest)))]) := by
          intro n
          rw [advParamNamed_filter]
          symm
          apply ih2 he n _ _ (hS.advParamNamed n)
          intro ⟨s', r⟩ hx hqx
          have := hq _ (mem_advParamNamed.1 hx) hqx
          rintro ⟨bs, hM⟩
          exact this ⟨_, match_param_seg he hM⟩
        simp only [hg]
        apply flatMap_names_filter hS.paramNames (hS.filter q).paramNames paramNames_filter_sub
        intro m _ hm'
        rw [← hg m, advParamNamed_nil_of_not_mem hm', specAll_empty]
    · -- infix
      split
      · rfl
      · rename_i hb
        have hg : ∀ n, specInfix (advInfixNamed n (S.filter q)) n [b] rest ps =
            specInfix (advInfixNamed n S) n [b] rest ps := by
          intro n
          rw [advInfixNamed_filter]
          symm
          apply ih3 n _ trivial _ (hS.advInfixNamed n)
          intro ⟨ts, r⟩ hx hqx
          obtain ⟨hts, hx⟩ := mem_advInfixNamed.1 hx
          have := hq _ hx hqx
          intro w s' hr hhd hlast hdbl
          rintro ⟨bs, hM⟩
          apply this
          refine ⟨(n, [b] ++ w) :: bs, ?_⟩
          have e : b :: rest = ([b] ++ w) ++ s' := by rw [hr]; simp
          show Match SLASH (.catchAll n :: ts) (b :: rest) _
          rw [e]
          exact Match.infix ⟨by simp, by simpa using hb, hlast, hdbl⟩ hts hhd hM
        simp only [hg]
        apply flatMap_names_filter hS.infixNames (hS.filter q).infixNames infixNames_filter_sub
        intro m _ hm'
        rw [← hg m, advInfixNamed_nil_of_not_mem hm', specInfix_empty]
    · -- suffix
      symm
      apply filterMap_filter_of_none
      intro ⟨s, r⟩ hx hqx
      have := hq _ hx hqx
      match s, this with
      | [.catchAll n], this => exact absurd ⟨_, Match.suffix (by simp)⟩ this
      | [], _ => simp
      | .lit _ :: _, _ => simp
      | .param _ :: _, _ => simp
      | .catchAll _ :: _ :: _, _ => simp
  · intro S n acc ps q _ _ _; unfold specInfix; rfl
  · intro S n acc ps rest hl q _ _ _
    conv => lhs; unfold specInfix
    conv => rhs; unfold specInfix
    simp [hl]
  · intro S n acc ps rest hl ih1 ih2 q hacc hq hS
    conv => lhs; unfold specInfix
    conv => rhs; unfold specInfix
    simp only [hl, if_true, if_false]
    congr 1
    · apply ih1 q _ hS
      intro x hx hqx
      exact hq x hx hqx [] (SLASH :: rest) rfl rfl (by simpa using hl) (by simpa using hacc)
    · apply ih2 q ((NoDbl_append_singleton acc SLASH).2 ⟨hacc, fun hh => hl hh.1⟩) _ hS
      intro x hx hqx w s' hr hhd hlast hdbl
      have e : (acc ++ [SLASH]) ++ w = acc ++ (SLASH :: w) := by simp
      rw [e] at hlast hdbl
      exact hq x hx hqx (SLASH :: w) s' (by rw [hr]; rfl) hhd hlast hdbl
  · intro S n acc ps b rest hb ih q hacc hq hS
    conv => lhs; unfold specInfix
    conv => rhs; unfold specInfix
    simp only [hb, if_false]
    apply ih q ((NoDbl_append_singleton acc b).2 ⟨hacc, fun hh => hb hh.2⟩) _ hS
    intro x hx hqx w s' hr hhd hlast hdbl
    have e : (acc ++ [b]) ++ w = acc ++ (b :: w) := by simp
    rw [e] at hlast hdbl
    exact hq x hx hqx (b :: w) s' (by rw [hr]; rfl) hhd hlast hdbl

def DeadHP (x : List Tok × Route) (host path : Bytes) : Prop := ¬ ∃ bs, MatchHP x.1 host path bs

theorem atBoundary_filter (q : List Tok × Route → Bool) (S : SufSet) :
    atBoundary (S.filter q) = (atBoundary S).filter q := by
  unfold atBoundary
  rw [List.filter_filter, List.filter_filter]
  congr 1; funext x; exact Bool.and_comm _ _

theorem specHost_filter (S : SufSet) (host path : Bytes) (ps : Binds) :
    ∀ q : List Tok × Route → Bool, (∀ x ∈ S, q x = false → DeadHP x host path) → Coherent S →
      specHost S host path ps = specHost (S.filter q) host path ps := by
  induction S, host, ps using specHost.induct with
  | case1 S ps =>
    intro q hq hS
    conv => lhs; unfold specHost
    conv => rhs; unfold specHost
    show specAll (atBoundary S) path ps = specAll (atBoundary (S.filter q)) path ps
    rw [atBoundary_filter]
    apply spec_filter.1 _ _ _ q _ hS.atBoundary
    intro x hx hqx
    obtain ⟨hx, hh⟩ := mem_atBoundary.1 (show (x.1, x.2) ∈ atBoundary S from hx)
    have := hq _ hx hqx
    rintro ⟨bs, hM⟩
    exact this ⟨bs, [], x.1, [], bs, rfl, hh, by simp [NoCatch], Match.nil, hM, rfl⟩
  | case2 S ps b rest ih1 ih2 =>
    intro q hq hS
    rw [specHost_branches S, specHost_branches (S.filter q)]
    congr 1
    · rw [advLit_filter]
      apply ih1 _ _ (hS.advLit b)
      intro ⟨s', r⟩ hx hqx
      have := hq _ (mem_advLit.1 hx) hqx
      rintro ⟨bs, hs, pp, bh, bp, e, h2, h3, h4, h5, rfl⟩
      simp only at e; subst e
      refine this ⟨_, .lit b :: hs, pp, bh, bp, rfl, h2, ?_, Match.lit h4, h5, rfl⟩
      intro t ht
      simp only [List.mem_cons] at ht
      rcases ht with rfl | ht
      · rfl
      · exact h3 t ht
    · split
      · rfl
      · rename_i he
        have hg : ∀ n, specHost (advParamNamed n (S.filter q)) ((b :: rest).drop (segEnd DOT (b :: rest))) path
              (ps ++ [(n, (b :: rest).take (segEnd DOT (b :: rest)))]) =
            specHost (advParamNamed n S) ((b :: rest).drop (segEnd DOT (b :: rest))) path
              (ps ++ [(n, (b :: rest).take (segEnd DOT (b :: rest)))]) := by
          intro n
          rw [advParamNamed_filter]
          symm
          apply ih2 he n _ _ (hS.advParamNamed n)
          intro ⟨s', r⟩ hx hqx
          have := hq _ (mem_advParamNamed.1 hx) hqx
          rintro ⟨bs, hs, pp, bh, bp, e, h2, h3, h4, h5, rfl⟩
          simp only at e; subst e
          refine this ⟨_, .param n :: hs, pp, _, bp, rfl, h2, ?_, match_param_seg he h4, h5, rfl⟩
          intro t ht
          simp only [List.mem_cons] at ht
          rcases ht with rfl | ht
          · rfl
          · exact h3 t ht
        simp only [hg]
        apply flatMap_names_filter hS.paramNames (hS.filter q).paramNames paramNames_filter_sub
        intro m _ hm'
        rw [← hg m, advParamNamed_nil_of_not_mem hm', specHost_empty]

theorem sufsOf_append (R1 R2 : List Route) : sufsOf (R1 ++ R2) = sufsOf R1 ++ sufsOf R2 := by simp [sufsOf]

theorem sufsOf_filter_ne (R1 R2 : List Route) (r : Route) :
    (sufsOf (R1 ++ r :: R2)).filter (fun x => decide (x ≠ (r.pattern, r))) =
    (sufsOf (R1 ++ R2)).filter (fun x => decide (x ≠ (r.pattern, r))) := by
  simp [sufsOf]

theorem CoherentRoutes.remove {R1 R2 : List Route} {r : Route} (h : CoherentRoutes (R1 ++ r :: R2)) :
    CoherentRoutes (R1 ++ R2) := by
  intro a ha b hb
  apply h
  · rcases List.mem_append.1 ha with h' | h'
    · exact List.mem_append_left _ h'
    · exact List.mem_append_right _ (List.mem_cons_of_mem _ h')
  · rcases List.mem_append.1 hb with h' | h'
    · exact List.mem_append_left _ h'
    · exact List.mem_append_right _ (List.mem_cons_of_mem _ h')

/-- a route that does not match `path` does not change the enumeration for `path` -/
theorem specAll_irrelevant {R1 R2 : List Route} {r : Route} {path : Bytes}
    (hc : CoherentRoutes (R1 ++ r :: R2)) (hdead : ∀ bs, ¬ Match SLASH r.pattern path bs) :
    specAll (sufsOf (R1 ++ r :: R2)) path [] = specAll (sufsOf (R1 ++ R2)) path [] := by
  have hq : ∀ S : SufSet, ∀ x ∈ S, decide (x ≠ (r.pattern, r)) = false → DeadAt x path := by
    intro S x _ hx
    simp at hx; subst hx
    rintro ⟨bs, hM⟩; exact hdead bs hM
  rw [spec_filter.1 _ _ _ _ (hq _) (coherent_sufsOf hc),
    spec_filter.1 (sufsOf (R1 ++ R2)) _ _ _ (hq _) (coherent_sufsOf (CoherentRoutes.remove hc)),
    sufsOf_filter_ne]

theorem specHost_irrelevant {R1 R2 : List Route} {r : Route} {host path : Bytes}
    (hc : CoherentRoutes (R1 ++ r :: R2)) (hdead : ∀ bs, ¬ MatchHP r.pattern host path bs) :
    specHost (sufsOf (R1 ++ r :: R2)) host path [] = specHost (sufsOf (R1 ++ R2)) host path [] := by
  have hq : ∀ S : SufSet, ∀ x ∈ S, decide (x ≠ (r.pattern, r)) = false → DeadHP x host path := by
    intro S x _ hx
    simp at hx; subst hx
    rintro ⟨bs, hM⟩; exact hdead bs hM
  rw [specHost_filter _ _ _ _ _ (hq _) (coherent_sufsOf hc),
    specHost_filter (sufsOf (R1 ++ R2)) _ _ _ _ (hq _) (coherent_sufsOf (CoherentRoutes.remove hc)),
    sufsOf_filter_ne]

end Fox.Spec
