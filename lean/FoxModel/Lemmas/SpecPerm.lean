import FoxModel.Props.C01Spec
import FoxModel.Lemmas.LookupSpec
import FoxModel.Lemmas.TreeInv
set_option linter.unusedSimpArgs false
set_option linter.unusedVariables false
/-
  FoxModel.Lemmas.SpecPerm — the routing specification does not depend on the ORDER in which the registered routes are
  listed.  (1) the conflict rule of `Store.handle` implies name coherence; (2) a match is determined by its choice trace;
  (3) hence the best match is unique and the head of the enumeration is the same for every listing of the same routes;
  (4) `routeS` on the patterns of a route list is `Spec.route` on that list.
-/
namespace Fox.Spec
open Fox

/-! ### 1. conflict rule ⇒ name coherence -/

theorem dropCommon_symm (a b : List Tok) : dropCommon b a = ((dropCommon a b).2, (dropCommon a b).1) := by
  induction a generalizing b with
  | nil => cases b <;> simp [dropCommon]
  | cons x xs ih =>
    cases b with
    | nil => simp [dropCommon]
    | cons y ys =>
      by_cases h : x = y
      · subst h; simp [dropCommon, ih]
      · have h' : ¬ y = x := fun e => h e.symm
        simp [dropCommon, h, h']

/-- the conflict relation between two patterns is symmetric -/
theorem conflictWith_symm (a b : List Tok) : conflictWith a b = conflictWith b a := by
  unfold conflictWith
  rw [dropCommon_symm a b]
  cases dropCommon a b with
  | mk x y =>
    rcases x with _ | ⟨(_ | _ | _), _⟩ <;> rcases y with _ | ⟨(_ | _ | _), _⟩ <;> simp [bne_comm]

theorem dropCommon_self (a : List Tok) : dropCommon a a = ([], []) := by
  induction a with
  | nil => rfl
  | cons x xs ih => simp [dropCommon, ih]

theorem conflictWith_self (a : List Tok) : conflictWith a a = false := by
  simp [conflictWith, dropCommon_self]

theorem conflictWith_cons_same (x : Tok) (xs ys : List Tok) :
    conflictWith (x :: xs) (x :: ys) = conflictWith xs ys := by
  simp [conflictWith, dropCommon]

/-- two patterns that do not conflict are name-coherent -/
theorem cohPair_of_noConflict (a b : List Tok) (h : conflictWith a b = false) : cohPair a b = true := by
  induction a generalizing b with
  | nil => cases b <;> simp [cohPair]
  | cons x xs ih =>
    cases b with
    | nil => simp [cohPair]
    | cons y ys =>
      cases x with
      | lit c =>
        cases y with
        | lit c' =>
          by_cases hc : c = c'
          · subst hc; rw [conflictWith_cons_same] at h; simp [cohPair, ih _ h]
          · simp [cohPair, hc]
        | param _ => simp [cohPair]
        | catchAll _ => simp [cohPair]
      | param n =>
        cases y with
        | lit _ => simp [cohPair]
        | param n' =>
          by_cases hc : n = n'
          · subst hc; rw [conflictWith_cons_same] at h; simp [cohPair, ih _ h]
          · simp [conflictWith, dropCommon, hc] at h
        | catchAll _ => simp [cohPair]
      | catchAll n =>
        cases y with
        | lit _ => simp [cohPair]
        | param _ => simp [cohPair]
        | catchAll n' =>
          by_cases hc : n = n'
          · subst hc; rw [conflictWith_cons_same] at h; simp [cohPair, ih _ h]
          · simp [conflictWith, dropCommon, hc] at h

/-- no two patterns of the list conflict (the rule enforced by `Store.handle`) -/
def NoConfl (R : List Route) : Prop := ∀ r1 ∈ R, ∀ r2 ∈ R, conflictWith r1.pattern r2.pattern = false

/-- at most one route per pattern -/
def PatInj (R : List Route) : Prop := ∀ r1 ∈ R, ∀ r2 ∈ R, r1.pattern = r2.pattern → r1 = r2

theorem coherent_of_noConflict {R : List Route} (h : NoConfl R) : CoherentRoutes R :=
  fun r1 h1 r2 h2 => cohPair_of_noConflict _ _ (h r1 h1 r2 h2)

theorem NoConfl.sub {R R' : List Route} (h : NoConfl R) (hs : ∀ r ∈ R', r ∈ R) : NoConfl R' :=
  fun r1 h1 r2 h2 => h r1 (hs _ h1) r2 (hs _ h2)

theorem PatInj.sub {R R' : List Route} (h : PatInj R) (hs : ∀ r ∈ R', r ∈ R) : PatInj R' :=
  fun r1 h1 r2 h2 => h r1 (hs _ h1) r2 (hs _ h2)

/-! ### 2. a match is determined by its trace -/

theorem param_split_unique {d : UInt8} {v v' s s' : Bytes} (h : v ++ s = v' ++ s') (hv : d ∉ v) (hv' : d ∉ v')
    (hs : ∀ c, s.head? = some c → c = d) (hs' : ∀ c, s'.head? = some c → c = d) : v = v' ∧ s = s' := by
  induction v generalizing v' with
  | nil =>
    cases v' with
    | nil => exact ⟨rfl, by simpa using h⟩
    | cons c w =>
      exfalso
      simp at h
      have := hs c (by rw [h]; rfl)
      exact hv' (by rw [this]; exact List.mem_cons_self ..)
  | cons c w ih =>
    cases v' with
    | nil =>
      exfalso
      simp at h
      have := hs' c (by rw [← h]; rfl)
      exact hv (by rw [this]; exact List.mem_cons_self ..)
    | cons c' w' =>
      simp at h
      obtain ⟨rfl, h⟩ := h
      obtain ⟨rfl, rfl⟩ := ih h (fun hm => hv (List.mem_cons_of_mem _ hm)) (fun hm => hv' (List.mem_cons_of_mem _ hm))
      exact ⟨rfl, rfl⟩

theorem trace_static_inv {d : UInt8} {s : List Tok} {p : Bytes} {bs : Binds} {tr : List Choice}
    (h : Match d s p bs) (ht : trace s bs = .static :: tr) :
    ∃ c ts, s = .lit c :: ts ∧ tr = trace ts bs := by
  cases h with
  | nil => simp [trace] at ht
  | lit _ => simp [trace] at ht; exact ⟨_, _, rfl, ht.symm⟩
  | param _ _ _ _ => simp [trace] at ht
  | suffix _ => simp [trace] at ht
  | «infix» _ h2 _ _ => rw [trace_infix h2] at ht; simp at ht

theorem trace_param_inv {d : UInt8} {s : List Tok} {p : Bytes} {bs : Binds} {tr : List Choice}
    (h : Match d s p bs) (ht : trace s bs = .param :: tr) :
    ∃ n ts v bs0, s = .param n :: ts ∧ bs = (n, v) :: bs0 ∧ tr = trace ts bs0 := by
  cases h with
  | nil => simp [trace] at ht
  | lit _ => simp [trace] at ht
  | param _ _ _ _ => simp [trace] at ht; exact ⟨_, _, _, _, rfl, rfl, ht.symm⟩
  | suffix _ => simp [trace] at ht
  | «infix» _ h2 _ _ => rw [trace_infix h2] at ht; simp at ht

theorem trace_suffix_inv {d : UInt8} {s : List Tok} {p : Bytes} {bs : Binds} {tr : List Choice}
    (h : Match d s p bs) (ht : trace s bs = .suffix :: tr) :
    ∃ n, s = [.catchAll n] := by
  cases h with
  | nil => simp [trace] at ht
  | lit _ => simp [trace] at ht
  | param _ _ _ _ => simp [trace] at ht
  | suffix _ => exact ⟨_, rfl⟩
  | «infix» _ h2 _ _ => rw [trace_infix h2] at ht; simp at ht

theorem trace_infix_inv {d : UInt8} {s : List Tok} {p : Bytes} {bs : Binds} {tr : List Choice} {l : Nat}
    (h : Match d s p bs) (ht : trace s bs = .infix l :: tr) :
    ∃ n ts v bs0, s = .catchAll n :: ts ∧ ts ≠ [] ∧ bs = (n, v) :: bs0 ∧ v.length = l ∧ tr = trace ts bs0 := by
  cases h with
  | nil => simp [trace] at ht
  | lit _ => simp [trace] at ht
  | param _ _ _ _ => simp [trace] at ht
  | suffix _ => simp [trace] at ht
  | «infix» _ h2 _ _ =>
    rw [trace_infix h2] at ht; simp at ht
    exact ⟨_, _, _, _, rfl, h2, rfl, ht.1, ht.2.symm⟩

/-- **A match is determined by its choice trace.** Two non-conflicting patterns that match the same text with the same
    trace are the same pattern with the same captures. -/
theorem best_unique {d : UInt8} {s s' : List Tok} {p : Bytes} {bs bs' : Binds}
    (h1 : Match d s p bs) (h2 : Match d s' p bs') (hc : conflictWith s s' = false)
    (ht : trace s bs = trace s' bs') : s = s' ∧ bs = bs' := by
  induction h1 generalizing s' bs' with
  | nil =>
    obtain ⟨rfl, rfl⟩ := h2.of_nil
    exact ⟨rfl, rfl⟩
  | @lit b ts x bs0 hm ih =>
    simp only [trace] at ht
    obtain ⟨c, ts', rfl, -⟩ := trace_static_inv h2 ht.symm
    obtain ⟨x', hx, hm'⟩ := h2.lit_inv
    simp only [trace, List.cons.injEq, true_and] at ht
    simp only [List.cons.injEq] at hx
    obtain ⟨rfl, rfl⟩ := hx
    rw [conflictWith_cons_same] at hc
    obtain ⟨rfl, rfl⟩ := ih hm' hc ht
    exact ⟨rfl, rfl⟩
  | @param n v ts x bs0 hv hd hh hm ih =>
    simp only [trace] at ht
    obtain ⟨n', ts', v', bs0', rfl, rfl, -⟩ := trace_param_inv h2 ht.symm
    obtain ⟨v'', x', bs'', hx, hb, hv', hd', hh', hm'⟩ := h2.param_inv
    simp only [List.cons.injEq, Prod.mk.injEq, true_and] at hb
    obtain ⟨rfl, rfl⟩ := hb
    simp only [trace, List.cons.injEq, true_and] at ht
    obtain ⟨rfl, rfl⟩ := param_split_unique hx hd hd' hh hh'
    have hn : n = n' := by
      by_cases hn : n = n'
      · exact hn
      · simp [conflictWith, dropCommon, hn] at hc
    subst hn
    rw [conflictWith_cons_same] at hc
    obtain ⟨rfl, rfl⟩ := ih hm' hc ht
    exact ⟨rfl, rfl⟩
  | @suffix n v hv =>
    simp only [trace] at ht
    obtain ⟨n', rfl⟩ := trace_suffix_inv h2 ht.symm
    have hn : n = n' := by
      by_cases hn : n = n'
      · exact hn
      · simp [conflictWith, dropCommon, hn] at hc
    subst hn
    rcases h2.catch_inv with ⟨-, -, rfl⟩ | ⟨h, -⟩
    · exact ⟨rfl, rfl⟩
    · exact absurd rfl h
  | @«infix» n v ts x bs0 hv hts hh hm ih =>
    rw [trace_infix hts] at ht
    obtain ⟨n', ts', v', bs0', rfl, hts', rfl, hl, -⟩ := trace_infix_inv h2 ht.symm
    rw [trace_infix hts'] at ht
    simp only [List.cons.injEq, Choice.infix.injEq] at ht
    rcases h2.catch_inv with ⟨h, -⟩ | ⟨-, v'', x', bs'', hx, hb, hv', hh', hm'⟩
    · exact absurd h hts'
    · simp only [List.cons.injEq, Prod.mk.injEq, true_and] at hb
      obtain ⟨rfl, rfl⟩ := hb
      obtain ⟨rfl, rfl⟩ := List.append_inj hx ht.1
      have hn : n = n' := by
        by_cases hn : n = n'
        · exact hn
        · simp [conflictWith, dropCommon, hn] at hc
      subst hn
      rw [conflictWith_cons_same] at hc
      obtain ⟨rfl, rfl⟩ := ih hm' hc ht.2
      exact ⟨rfl, rfl⟩

theorem _root_.Fox.NoCatch.tail {t : Tok} {ts : List Tok} (h : NoCatch (t :: ts)) : NoCatch ts :=
  fun x hx => h x (List.mem_cons_of_mem _ hx)

/-- two-stage version: hostname part (delimiter '.', no catch-all) followed by the path part -/
theorem best_unique_two {hs hs' pp pp' : List Tok} {host path : Bytes} {bh bh' bp bp' : Binds}
    (h1 : Match DOT hs host bh) (hn : NoCatch hs) (h1' : Match DOT hs' host bh') (hn' : NoCatch hs')
    (h2 : Match SLASH pp path bp) (h2' : Match SLASH pp' path bp')
    (hc : conflictWith (hs ++ pp) (hs' ++ pp') = false)
    (ht : trace (hs ++ pp) (bh ++ bp) = trace (hs' ++ pp') (bh' ++ bp')) :
    hs ++ pp = hs' ++ pp' ∧ bh ++ bp = bh' ++ bp' := by
  induction h1 generalizing hs' bh' with
  | nil =>
    obtain ⟨rfl, rfl⟩ := h1'.of_nil
    simp only [List.nil_append] at hc ht ⊢
    exact best_unique h2 h2' hc ht
  | @lit b ts x bs0 hm ih =>
    cases hs' with
    | nil => have := h1'.nil_inv; simp at this
    | cons t ts' =>
      cases t with
      | lit c =>
        obtain ⟨x', hx, hm'⟩ := h1'.lit_inv
        simp only [List.cons.injEq] at hx
        obtain ⟨rfl, rfl⟩ := hx
        simp only [List.cons_append, trace, List.cons.injEq, true_and] at ht hc ⊢
        rw [conflictWith_cons_same] at hc
        exact ih (NoCatch.tail hn) hm' (NoCatch.tail hn') hc ht
      | param n' =>
        obtain ⟨v'', x', bs'', hx, rfl, -⟩ := h1'.param_inv
        simp [trace] at ht
      | catchAll n' => exact absurd (hn' _ (List.mem_cons_self ..)) (by simp [Tok.isCatch])
  | @param n v ts x bs0 hv hd hh hm ih =>
    cases hs' with
    | nil =>
      have := h1'.nil_inv
      simp at this
      exact absurd this.1.1 hv
    | cons t ts' =>
      cases t with
      | lit c =>
        simp [trace] at ht
      | param n' =>
        obtain ⟨v'', x', bs'', hx, rfl, hv', hd', hh', hm'⟩ := h1'.param_inv
        obtain ⟨rfl, rfl⟩ := param_split_unique hx hd hd' hh hh'
        have hn0 : n = n' := by
          by_cases hn0 : n = n'
          · exact hn0
          · simp [conflictWith, dropCommon, hn0] at hc
        subst hn0
        simp only [List.cons_append, trace, List.cons.injEq, true_and] at ht hc ⊢
        rw [conflictWith_cons_same] at hc
        exact ih (NoCatch.tail hn) hm' (NoCatch.tail hn') hc ht
      | catchAll n' => exact absurd (hn' _ (List.mem_cons_self ..)) (by simp [Tok.isCatch])
  | suffix _ => exact absurd (hn _ (List.mem_cons_self ..)) (by simp [Tok.isCatch])
  | «infix» _ _ _ _ _ => exact absurd (hn _ (List.mem_cons_self ..)) (by simp [Tok.isCatch])

/-- **A whole-pattern match is determined by its choice trace.** -/
theorem best_unique_hp {s s' : List Tok} {host path : Bytes} {bs bs' : Binds}
    (h1 : MatchHP s host path bs) (h2 : MatchHP s' host path bs') (hc : conflictWith s s' = false)
    (ht : trace s bs = trace s' bs') : s = s' ∧ bs = bs' := by
  obtain ⟨hs, pp, bh, bp, rfl, -, hn, hm1, hm2, rfl⟩ := h1
  obtain ⟨hs', pp', bh', bp', rfl, -, hn', hm1', hm2', rfl⟩ := h2
  exact best_unique_two hm1 hn hm1' hn' hm2 hm2' hc ht

/-! ### 3. the best match does not depend on the listing -/

/-- two best matches over route lists with the same members are equal -/
theorem isBest_unique {R R' : List Route} (hc : NoConfl R) (hi : PatInj R) (hmem : ∀ r, r ∈ R ↔ r ∈ R')
    {path : Bytes} {r r' : Route} {bs bs' : Binds} (h : IsBest R path r bs) (h' : IsBest R' path r' bs') :
    r = r' ∧ bs = bs' := by
  obtain ⟨hr, hM, hmin⟩ := h
  obtain ⟨hr', hM', hmin'⟩ := h'
  have hr'R : r' ∈ R := (hmem _).2 hr'
  have ht := traceLe_antisymm (hmin r' hr'R bs' hM') (hmin' r ((hmem _).1 hr) bs hM)
  obtain ⟨hp, hb⟩ := best_unique hM hM' (hc r hr r' hr'R) ht
  exact ⟨hi r hr r' hr'R hp, hb⟩

theorem isBestHP_unique {R R' : List Route} (hc : NoConfl R) (hi : PatInj R) (hmem : ∀ r, r ∈ R ↔ r ∈ R')
    {host path : Bytes} {r r' : Route} {bs bs' : Binds} (h : IsBestHP R host path r bs)
    (h' : IsBestHP R' host path r' bs') : r = r' ∧ bs = bs' := by
  obtain ⟨hr, hM, hmin⟩ := h
  obtain ⟨hr', hM', hmin'⟩ := h'
  have hr'R : r' ∈ R := (hmem _).2 hr'
  have ht := traceLe_antisymm (hmin r' hr'R bs' hM') (hmin' r ((hmem _).1 hr) bs hM)
  obtain ⟨hp, hb⟩ := best_unique_hp hM hM' (hc r hr r' hr'R) ht
  exact ⟨hi r hr r' hr'R hp, hb⟩

theorem mem_filter_congr {R R' : List Route} (hmem : ∀ r, r ∈ R ↔ r ∈ R') (p : Route → Bool) :
    ∀ r, r ∈ R.filter p ↔ r ∈ R'.filter p := by
  intro r; simp only [List.mem_filter, hmem]

theorem NoConfl.filter {R : List Route} (h : NoConfl R) (p : Route → Bool) : NoConfl (R.filter p) :=
  h.sub fun r hr => (List.mem_filter.1 hr).1

theorem PatInj.filter {R : List Route} (h : PatInj R) (p : Route → Bool) : PatInj (R.filter p) :=
  h.sub fun r hr => (List.mem_filter.1 hr).1

/-- the first result of the path search is the same for every listing of the same (conflict-free, one route per
    pattern) routes -/
theorem first_specAll_congr {R R' : List Route} (hc : NoConfl R) (hi : PatInj R) (hmem : ∀ r, r ∈ R ↔ r ∈ R')
    (path : Bytes) (b : Bool) :
    first (specAll (sufsOf R) path []) b = first (specAll (sufsOf R') path []) b := by
  have hc' : NoConfl R' := hc.sub fun r hr => (hmem r).2 hr
  cases h : specAll (sufsOf R) path [] with
  | nil =>
    cases h' : specAll (sufsOf R') path [] with
    | nil => rfl
    | cons x tl =>
      exfalso
      obtain ⟨r', bs'⟩ := x
      have hb := C01Spec.specAll_head_isBest (coherent_of_noConflict hc') h'
      exact (C01Spec.specAll_nil_iff.1 h) r' ((hmem _).2 hb.1) bs' hb.2.1
  | cons x tl =>
    obtain ⟨r, bs⟩ := x
    have hb := C01Spec.specAll_head_isBest (coherent_of_noConflict hc) h
    cases h' : specAll (sufsOf R') path [] with
    | nil => exfalso; exact (C01Spec.specAll_nil_iff.1 h') r ((hmem _).1 hb.1) bs hb.2.1
    | cons x' tl' =>
      obtain ⟨r', bs'⟩ := x'
      have hb' := C01Spec.specAll_head_isBest (coherent_of_noConflict hc') h'
      obtain ⟨rfl, rfl⟩ := isBest_unique hc hi hmem hb hb'
      rfl

/-- the same for the hostname search -/
theorem first_specHost_congr {R R' : List Route} (hc : NoConfl R) (hi : PatInj R) (hmem : ∀ r, r ∈ R ↔ r ∈ R')
    (host path : Bytes) (b : Bool) :
    first (specHost (sufsOf R) host path []) b = first (specHost (sufsOf R') host path []) b := by
  have hc' : NoConfl R' := hc.sub fun r hr => (hmem r).2 hr
  cases h : specHost (sufsOf R) host path [] with
  | nil =>
    cases h' : specHost (sufsOf R') host path [] with
    | nil => rfl
    | cons x tl =>
      exfalso
      obtain ⟨r', bs'⟩ := x
      have hb := C01Spec.specHost_head_isBest (coherent_of_noConflict hc') h'
      exact (C01Spec.specHost_nil_iff.1 h) r' ((hmem _).2 hb.1) bs' hb.2.1
  | cons x tl =>
    obtain ⟨r, bs⟩ := x
    have hb := C01Spec.specHost_head_isBest (coherent_of_noConflict hc) h
    cases h' : specHost (sufsOf R') host path [] with
    | nil => exfalso; exact (C01Spec.specHost_nil_iff.1 h') r ((hmem _).1 hb.1) bs hb.2.1
    | cons x' tl' =>
      obtain ⟨r', bs'⟩ := x'
      have hb' := C01Spec.specHost_head_isBest (coherent_of_noConflict hc') h'
      obtain ⟨rfl, rfl⟩ := isBestHP_unique hc hi hmem hb hb'
      rfl

theorem head?_of_first {l l' : Res} (h : first l false = first l' false) : l.head? = l'.head? := by
  cases l with
  | nil =>
    cases l' with
    | nil => rfl
    | cons y _ => obtain ⟨_, _⟩ := y; simp [first] at h
  | cons x _ =>
    obtain ⟨r, bs⟩ := x
    cases l' with
    | nil => simp [first] at h
    | cons y _ => obtain ⟨r', bs'⟩ := y; simp [first] at h; simp [h.1, h.2]

/-- `head?` form of the two statements above -/
theorem specAll_head_perm {R R' : List Route} (hc : NoConfl R) (hi : PatInj R) (hmem : ∀ r, r ∈ R ↔ r ∈ R')
    (path : Bytes) : (specAll (sufsOf R) path []).head? = (specAll (sufsOf R') path []).head? :=
  head?_of_first (first_specAll_congr hc hi hmem path false)

theorem specHost_head_perm {R R' : List Route} (hc : NoConfl R) (hi : PatInj R) (hmem : ∀ r, r ∈ R ↔ r ∈ R')
    (host path : Bytes) :
    (specHost (sufsOf R) host path []).head? = (specHost (sufsOf R') host path []).head? :=
  head?_of_first (first_specHost_congr hc hi hmem host path false)

theorem bestTsr_congr {R R' : List Route} {run : List Route → Bytes → Res}
    (hrun : ∀ (p : Route → Bool) q, first (run (R.filter p) q) true = first (run (R'.filter p) q) true)
    (path : Bytes) : bestTsr R path run = bestTsr R' path run := by
  unfold bestTsr
  cases adjust path with
  | none => rfl
  | some x =>
    obtain ⟨p', added⟩ := x
    cases added
    · have := hrun (fun _ => true) p'
      rw [List.filter_eq_self.2 (fun _ _ => rfl), List.filter_eq_self.2 (fun _ _ => rfl)] at this
      exact this
    · exact hrun endsWithLitSlash p'

theorem pathOnly_congr {R R' : List Route} (hc : NoConfl R) (hi : PatInj R) (hmem : ∀ r, r ∈ R ↔ r ∈ R')
    (path : Bytes) : pathOnly R path = pathOnly R' path := by
  unfold pathOnly
  rw [first_specAll_congr hc hi hmem path false,
    bestTsr_congr (R := R) (R' := R') (run := fun rs p => specAll (sufsOf rs) p [])
      (fun p q => first_specAll_congr (hc.filter p) (hi.filter p) (mem_filter_congr hmem p) q true) path]

/-- **The routing specification depends only on the SET of registered routes**, provided no two patterns conflict
    and there is one route per pattern (both guaranteed by the sequential map). -/
theorem route_congr {R R' : List Route} (hc : NoConfl R) (hi : PatInj R) (hmem : ∀ r, r ∈ R ↔ r ∈ R')
    (hostPort path : Bytes) : route R hostPort path = route R' hostPort path := by
  have hH := mem_filter_congr hmem isHostRoute
  have hnil : (R.filter isHostRoute = []) ↔ (R'.filter isHostRoute = []) := by
    simp only [List.eq_nil_iff_forall_not_mem]
    constructor
    · intro h r hr; exact h r ((hH r).2 hr)
    · intro h r hr; exact h r ((hH r).1 hr)
  unfold route
  simp only [hnil]
  rw [pathOnly_congr (hc.filter _) (hi.filter _) (mem_filter_congr hmem _) path,
    first_specHost_congr (hc.filter _) (hi.filter _) hH (stripHostPort hostPort) path false,
    bestTsr_congr (R := R.filter isHostRoute) (R' := R'.filter isHostRoute)
      (run := fun rs p => specHost (sufsOf rs) (stripHostPort hostPort) p [])
      (fun p q => first_specHost_congr ((hc.filter _).filter p) ((hi.filter _).filter p)
        (mem_filter_congr hH p) (stripHostPort hostPort) q true) path]

/-! ### 4. `routeS` on the patterns of a route list is `Spec.route` on the list -/

/-- the recorded host/path split of a route is in front of the first literal '/' of its pattern -/
def splitOk (r : Route) : Bool :=
  Model.startsWithSlash (r.pattern.drop r.hostToks) && Model.noSlashTok (r.pattern.take r.hostToks)

theorem headSlash_eq_not_host {r : Route} (h : splitOk r = true) : headSlash (r.pattern, r) = !isHostRoute r := by
  unfold splitOk at h
  simp only [Bool.and_eq_true] at h
  obtain ⟨h1, h2⟩ := h
  unfold isHostRoute
  cases hp : r.pattern with
  | nil => rw [hp] at h1; simp [Model.startsWithSlash] at h1
  | cons t ts =>
    by_cases h0 : r.hostToks = 0
    · rw [hp, h0] at h1; simp only [List.drop_zero] at h1
      have : headSlash (t :: ts, r) = true := by cases t <;> simp_all [headSlash, Model.startsWithSlash]
      simp [this, h0]
    · obtain ⟨k, hk⟩ := Nat.exists_eq_succ_of_ne_zero h0
      rw [hp, hk] at h2
      simp [Model.noSlashTok] at h2
      have : headSlash (t :: ts, r) = false := by
        cases t <;> simp_all [headSlash] <;> (intro e; exact h2.1 e.symm)
      simp [this, h0]

theorem filter_headSlash_sufsOf {rs : List Route} (h : ∀ r ∈ rs, splitOk r = true) :
    (sufsOf rs).filter headSlash = sufsOf (rs.filter fun r => !isHostRoute r) := by
  rw [sufsOf_filter]; unfold flt
  apply List.filter_congr
  intro sr hsr
  obtain ⟨s, r⟩ := sr
  obtain ⟨hr, rfl⟩ := mem_sufsOf.1 hsr
  exact headSlash_eq_not_host (h r hr)

theorem filter_not_headSlash_sufsOf {rs : List Route} (h : ∀ r ∈ rs, splitOk r = true) :
    (sufsOf rs).filter (fun sr => !headSlash sr) = sufsOf (rs.filter isHostRoute) := by
  rw [sufsOf_filter]; unfold flt
  apply List.filter_congr
  intro sr hsr
  obtain ⟨s, r⟩ := sr
  obtain ⟨hr, rfl⟩ := mem_sufsOf.1 hsr
  simp [headSlash_eq_not_host (h r hr)]

theorem hostOnly_eq (H : List Route) (h path : Bytes) :
    hostOnlyS (sufsOf H) h path [] =
      (first (specHost (sufsOf H) h path []) false).orElse fun _ =>
        bestTsr H path (fun rs p => specHost (sufsOf rs) h p []) := by
  unfold hostOnlyS bestTsr
  congr 1
  funext _
  cases adjust path with
  | none => rfl
  | some x =>
    obtain ⟨p', added⟩ := x
    cases added <;> simp [sufsOf_filter]

theorem sufsOf_eq_nil {rs : List Route} : sufsOf rs = [] ↔ rs = [] := by simp [sufsOf]

/-- for routes whose recorded split is the first literal '/', the suffix-set form of the specification (used by the
    refinement theorem) is `Spec.route` -/
theorem routeS_sufsOf {rs : List Route} (h : ∀ r ∈ rs, splitOk r = true) (hostPort path : Bytes) :
    routeS (sufsOf rs) hostPort path = route rs hostPort path := by
  unfold routeS route
  simp only [filter_headSlash_sufsOf h, filter_not_headSlash_sufsOf h, ← pathOnly_eq, hostOnly_eq, sufsOf_eq_nil]

/-! ### 5. invariants of the sequential map that routing needs -/

/-- no two patterns registered for the same method conflict -/
def NoConflict (s : Store) : Prop :=
  ∀ e1 ∈ s, ∀ e2 ∈ s, e1.1 = e2.1 → conflictWith e1.2.pattern e2.2.pattern = false

/-- every stored route has its host/path split in front of its first literal '/' -/
def SplitOk (s : Store) : Prop := ∀ e ∈ s, splitOk e.2 = true

theorem mem_routesOf {s : Store} {m : Bytes} {r : Route} : r ∈ s.routesOf m ↔ (m, r) ∈ s := by
  simp only [Store.routesOf, List.mem_map, List.mem_filter, beq_iff_eq]
  constructor
  · rintro ⟨⟨m', r'⟩, ⟨he, rfl⟩, rfl⟩; exact he
  · intro h; exact ⟨(m, r), ⟨h, rfl⟩, rfl⟩

theorem NoConflict.routesOf {s : Store} (h : NoConflict s) (m : Bytes) : NoConfl (s.routesOf m) :=
  fun r1 h1 r2 h2 => h _ (mem_routesOf.1 h1) _ (mem_routesOf.1 h2) rfl

theorem SplitOk.routesOf {s : Store} (h : SplitOk s) (m : Bytes) : ∀ r ∈ s.routesOf m, splitOk r = true :=
  fun r hr => h _ (mem_routesOf.1 hr)

theorem nodup_map_inj {α β} {f : α → β} {l : List α} (h : (l.map f).Nodup) {a b : α} (ha : a ∈ l) (hb : b ∈ l)
    (e : f a = f b) : a = b := by
  induction l with
  | nil => cases ha
  | cons x xs ih =>
    simp only [List.map_cons, List.nodup_cons, List.mem_map, not_exists, not_and] at h
    rcases List.mem_cons.1 ha with rfl | ha' <;> rcases List.mem_cons.1 hb with rfl | hb'
    · rfl
    · exact absurd e.symm (h.1 b hb')
    · exact absurd e (h.1 a ha')
    · exact ih h.2 ha' hb'

theorem patInj_routesOf {s : Store} (h : C02.StoreOk s) (m : Bytes) : PatInj (s.routesOf m) := by
  intro r1 h1 r2 h2 hp
  have := nodup_map_inj h (mem_routesOf.1 h1) (mem_routesOf.1 h2) (by simp [hp])
  simpa using this

theorem conflicts_nil {s : Store} {m : Bytes} {pat : List Tok} (h : s.conflicts m pat = []) :
    ∀ e ∈ s, e.1 = m → conflictWith e.2.pattern pat = false := by
  intro e he hm
  unfold Store.conflicts at h
  simp only [List.map_eq_nil_iff, List.filter_eq_nil_iff] at h
  have := h e he
  simpa [hm] using this

theorem NoConflict.handle {s : Store} (h : NoConflict s) (m : Bytes) (r : Route) : NoConflict (s.handle m r).1 := by
  unfold Store.handle
  split
  · exact h
  · split
    · rename_i hcf
      have hn := conflicts_nil hcf
      intro e1 h1 e2 h2 hm
      simp only [List.mem_append, List.mem_singleton] at h1 h2
      rcases h1 with h1 | rfl <;> rcases h2 with h2 | rfl
      · exact h e1 h1 e2 h2 hm
      · exact hn e1 h1 hm
      · rw [conflictWith_symm]; exact hn e2 h2 hm.symm
      · exact conflictWith_self _
    · exact h

theorem SplitOk.handle {s : Store} (h : SplitOk s) (m : Bytes) {r : Route} (hr : splitOk r = true) :
    SplitOk (s.handle m r).1 := by
  unfold Store.handle
  split
  · exact h
  · split
    · intro e he
      simp only [List.mem_append, List.mem_singleton] at he
      rcases he with he | rfl
      · exact h e he
      · exact hr
    · exact h

theorem update_key (m : Bytes) (r : Route) (e : Bytes × Route) :
    (if e.1 == m && e.2.pattern == r.pattern then (m, r) else e).1 = e.1 ∧
    (if e.1 == m && e.2.pattern == r.pattern then (m, r) else e).2.pattern = e.2.pattern := by
  by_cases hc : (e.1 == m && e.2.pattern == r.pattern) = true
  · rw [if_pos hc]
    simp only [Bool.and_eq_true, beq_iff_eq] at hc
    exact ⟨hc.1.symm, hc.2.symm⟩
  · rw [if_neg hc]; exact ⟨rfl, rfl⟩

theorem NoConflict.update {s : Store} (h : NoConflict s) (m : Bytes) (r : Route) : NoConflict (s.update m r).1 := by
  unfold Store.update
  split
  · exact h
  · intro e1 h1 e2 h2 hm
    simp only [List.mem_map] at h1 h2
    obtain ⟨a1, ha1, rfl⟩ := h1
    obtain ⟨a2, ha2, rfl⟩ := h2
    rw [(update_key m r a1).2, (update_key m r a2).2]
    rw [(update_key m r a1).1, (update_key m r a2).1] at hm
    exact h a1 ha1 a2 ha2 hm

theorem SplitOk.update {s : Store} (h : SplitOk s) (m : Bytes) {r : Route} (hr : splitOk r = true) :
    SplitOk (s.update m r).1 := by
  unfold Store.update
  split
  · exact h
  · intro e he
    simp only [List.mem_map] at he
    obtain ⟨a, ha, rfl⟩ := he
    split
    · exact hr
    · exact h a ha

theorem NoConflict.sub {s s' : Store} (h : NoConflict s) (hs : ∀ e ∈ s', e ∈ s) : NoConflict s' :=
  fun e1 h1 e2 h2 => h e1 (hs _ h1) e2 (hs _ h2)

theorem SplitOk.sub {s s' : Store} (h : SplitOk s) (hs : ∀ e ∈ s', e ∈ s) : SplitOk s' :=
  fun e he => h e (hs _ he)

theorem delete_sub (s : Store) (m : Bytes) (pat : List Tok) : ∀ e ∈ (s.delete m pat).1, e ∈ s := by
  unfold Store.delete
  split
  · exact fun e he => he
  · exact fun e he => (List.mem_filter.1 he).1

theorem truncate_sub (s : Store) (ms : List Bytes) : ∀ e ∈ s.truncate ms, e ∈ s := by
  unfold Store.truncate
  split
  · intro e he; simp at he
  · exact fun e he => (List.mem_filter.1 he).1

end Fox.Spec
