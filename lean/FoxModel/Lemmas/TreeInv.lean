import FoxModel.Model.WF
import FoxModel.Spec.Store
/-
  FoxModel.Lemmas.TreeInv — helper lemmas about the radix-tree mutations (`insertNode`, `updateNode`,
  `removeNode`), the representation invariant `wfNode`/`wfRoot` and the suffix sets `sufsNode`.
-/
set_option linter.unusedSimpArgs false
set_option linter.unusedVariables false
namespace Fox.Model
open Fox

@[simp] theorem Node.key_mk (k : List Tok) (r : Option Route) (cs : List Node) : (Node.mk k r cs).key = k := rfl
@[simp] theorem Node.route_mk (k : List Tok) (r : Option Route) (cs : List Node) : (Node.mk k r cs).route = r := rfl
@[simp] theorem Node.children_mk (k : List Tok) (r : Option Route) (cs : List Node) :
    (Node.mk k r cs).children = cs := rfl

/-! ### the mutually defined list functions as list combinators -/

theorem kindsOf_eq_map (cs : List Node) : kindsOf cs = cs.map (fun c => kindOf c.key) := by
  induction cs with
  | nil => simp [kindsOf]
  | cons c cs ih => cases c; simp [kindsOf, ih, Node.key]

theorem wfKids_eq_all (cs : List Node) : wfKids cs = cs.all wfNode := by
  induction cs with
  | nil => simp [wfKids]
  | cons c cs ih => simp [wfKids, ih]

theorem allSlash_eq_all (cs : List Node) : allSlash cs = cs.all (fun c => startsWithSlash c.key) := by
  induction cs with
  | nil => simp [allSlash]
  | cons c cs ih => cases c; simp [allSlash, ih, Node.key]

theorem sufsKids_eq_flatMap (cs : List Node) : sufsKids cs = cs.flatMap sufsNode := by
  induction cs with
  | nil => simp [sufsKids]
  | cons c cs ih => simp [sufsKids, ih]

theorem routesKids_eq_flatMap (cs : List Node) : routesKids cs = cs.flatMap routesNode := by
  induction cs with
  | nil => simp [routesKids]
  | cons c cs ih => simp [routesKids, ih]

theorem nodupB_iff {α} [BEq α] [LawfulBEq α] (l : List α) : nodupB l = true ↔ l.Nodup := by
  induction l with
  | nil => simp [nodupB]
  | cons x xs ih => simp [nodupB, ih]

example (cs : List Node) : nodupB (kindsOf cs) = true ↔ (kindsOf cs).Nodup := nodupB_iff _
example (rs : Roots) : nodupB (rs.map (·.1)) = true ↔ (rs.map (·.1)).Nodup := nodupB_iff _

/-! ### sorting only permutes -/

theorem insertSorted_perm (c : Node) (cs : List Node) : (insertSorted c cs).Perm (c :: cs) := by
  induction cs with
  | nil => simp [insertSorted]
  | cons d ds ih =>
    simp only [insertSorted]
    split
    · exact List.Perm.refl _
    · exact (List.Perm.cons d ih).trans (List.Perm.swap c d ds)

theorem sortKids_perm (cs : List Node) : (sortKids cs).Perm cs := by
  induction cs with
  | nil => simp [sortKids]
  | cons c cs ih =>
    have : sortKids (c :: cs) = insertSorted c (sortKids cs) := by simp [sortKids]
    rw [this]
    exact (insertSorted_perm c _).trans (List.Perm.cons c ih)

theorem kindsOf_perm {cs ds : List Node} (h : cs.Perm ds) : (kindsOf cs).Perm (kindsOf ds) := by
  rw [kindsOf_eq_map, kindsOf_eq_map]; exact h.map _

theorem wfKids_perm {cs ds : List Node} (h : cs.Perm ds) : wfKids cs = wfKids ds := by
  rw [wfKids_eq_all, wfKids_eq_all, Bool.eq_iff_iff]; simp only [List.all_eq_true]
  exact ⟨fun H x hx => H x (h.mem_iff.mpr hx), fun H x hx => H x (h.mem_iff.mp hx)⟩

theorem allSlash_perm {cs ds : List Node} (h : cs.Perm ds) : allSlash cs = allSlash ds := by
  rw [allSlash_eq_all, allSlash_eq_all, Bool.eq_iff_iff]; simp only [List.all_eq_true]
  exact ⟨fun H x hx => H x (h.mem_iff.mpr hx), fun H x hx => H x (h.mem_iff.mp hx)⟩

theorem nodupB_perm {α} [BEq α] [LawfulBEq α] {l l' : List α} (h : l.Perm l') : nodupB l = nodupB l' := by
  rw [Bool.eq_iff_iff, nodupB_iff, nodupB_iff]; exact h.nodup_iff

theorem sufsKids_perm {cs ds : List Node} (h : cs.Perm ds) : (sufsKids cs).Perm (sufsKids ds) := by
  rw [sufsKids_eq_flatMap, sufsKids_eq_flatMap]; exact h.flatMap_right _

theorem kindsOf_sortKids (cs : List Node) : (kindsOf (sortKids cs)).Perm (kindsOf cs) :=
  kindsOf_perm (sortKids_perm cs)


/-! ### common prefix -/

def HeadsDiffer : List Tok → List Tok → Prop
  | x :: _, y :: _ => x ≠ y
  | _, _ => True

theorem cp_split (a b : List Tok) :
    ∃ a' b', a = commonPrefix a b ++ a' ∧ b = commonPrefix a b ++ b' ∧ HeadsDiffer a' b' := by
  induction a generalizing b with
  | nil => exact ⟨[], b, by simp [commonPrefix], by simp [commonPrefix], by simp [HeadsDiffer]⟩
  | cons x xs ih =>
    cases b with
    | nil => exact ⟨x :: xs, [], by simp [commonPrefix], by simp [commonPrefix], by simp [HeadsDiffer]⟩
    | cons y ys =>
      by_cases hxy : x = y
      · subst hxy
        obtain ⟨a', b', h1, h2, h3⟩ := ih ys
        refine ⟨a', b', ?_, ?_, h3⟩
        · simp only [commonPrefix, if_true, List.cons_append]; rw [← h1]
        · simp only [commonPrefix, if_true, List.cons_append]; rw [← h2]
      · exact ⟨x :: xs, y :: ys, by simp [commonPrefix, hxy], by simp [commonPrefix, hxy], by simpa [HeadsDiffer] using hxy⟩

theorem commonPrefix_append (p a b : List Tok) (h : HeadsDiffer a b) : commonPrefix (p ++ a) (p ++ b) = p := by
  induction p with
  | nil =>
    cases a with
    | nil => simp [commonPrefix]
    | cons x xs =>
      cases b with
      | nil => simp [commonPrefix]
      | cons y ys => simp only [HeadsDiffer] at h; simp [commonPrefix, h]
  | cons t p ih => simp [commonPrefix, ih]

theorem insertNode_exact (p route cs isRoot consumed d r) :
    insertNode (.mk p route cs) isRoot consumed d p r =
      (match route with
       | some e => .error (.exist e)
       | none => .ok ⟨.mk p (some r) cs, 0, .exact⟩) := by
  have h := commonPrefix_append p [] [] (by simp [HeadsDiffer])
  simp only [List.append_nil] at h
  unfold insertNode
  simp only []
  split <;> rename_i h1 h2 <;> (try simp only [h, List.drop_length, List.drop_left, reduceCtorEq] at h1 h2)
  all_goals (try cases h1)
  all_goals (try cases h2)
  all_goals (try simp only [h, List.drop_left, List.drop_length])
  all_goals (try (first | rfl |
    (generalize insertKids cs _ _ _ _ = x; rcases x with _ | ⟨e | ⟨cs', dep, c⟩⟩ <;> rfl)))

theorem insertNode_keyEnd (p k ks route cs isRoot consumed d r) :
    insertNode (.mk (p ++ k :: ks) route cs) isRoot consumed d p r =
      .ok ⟨newNode p (some r) [.mk (k :: ks) route cs], d + 1, .keyEndMidEdge⟩ := by
  have h := commonPrefix_append p (k :: ks) [] (by simp [HeadsDiffer])
  simp only [List.append_nil] at h
  unfold insertNode
  simp only []
  split <;> rename_i h1 h2 <;> simp only [h, List.drop_length, List.drop_left, reduceCtorEq] at h1 h2
  simp only [h, List.drop_left]

theorem insertNode_descend (p t ts route cs isRoot consumed d r) :
    insertNode (.mk p route cs) isRoot consumed d (p ++ t :: ts) r =
      (match insertKids cs (consumed + p.length) (d + 1) (t :: ts) r with
       | some (.error e) => .error e
       | some (.ok (cs', dep, c)) => .ok ⟨.mk p route cs', dep, c⟩
       | none =>
         .ok ⟨newNode p route (cs ++ [(newLeaf r (consumed + p.length) (t :: ts)).1]),
              d + (if (newLeaf r (consumed + p.length) (t :: ts)).2 then 2 else 1),
              if (newLeaf r (consumed + p.length) (t :: ts)).2 then .toEndOfEdgeHostSplit else .toEndOfEdge⟩) := by
  have h := commonPrefix_append p [] (t :: ts) (by simp [HeadsDiffer])
  simp only [List.append_nil] at h
  unfold insertNode
  simp only []
  split <;> rename_i h1 h2 <;> (try simp only [h, List.drop_length, List.drop_left, reduceCtorEq] at h1 h2)
  all_goals (try cases h1)
  all_goals (try cases h2)
  all_goals (try simp only [h, List.drop_left, List.drop_length])
  all_goals (try (first | rfl |
    (generalize insertKids cs _ _ _ _ = x; rcases x with _ | ⟨e | ⟨cs', dep, c⟩⟩ <;> rfl)))

theorem insertNode_split (p a as b bs route cs isRoot consumed d r) (hab : a ≠ b) :
    insertNode (.mk (p ++ a :: as) route cs) isRoot consumed d (p ++ b :: bs) r =
      (if isRoot then .error (.conflict [])
       else if isWildSame a b then .error (.conflict (routesNode (.mk (p ++ a :: as) route cs)))
       else
         .ok ⟨newNode p none [(newLeaf r (consumed + p.length) (b :: bs)).1, .mk (a :: as) route cs],
              d + (if (newLeaf r (consumed + p.length) (b :: bs)).2 then 2 else 1),
              if (newLeaf r (consumed + p.length) (b :: bs)).2 then .middleOfEdgeHostSplit else .middleOfEdge⟩) := by
  have h := commonPrefix_append p (a :: as) (b :: bs) (by simpa [HeadsDiffer] using hab)
  unfold insertNode
  simp only []
  split <;> rename_i h1 h2 <;> (try simp only [h, List.drop_length, List.drop_left, reduceCtorEq] at h1 h2)
  all_goals (try cases h1)
  all_goals (try cases h2)
  all_goals (try simp only [h, List.drop_left, List.drop_length])
  all_goals (try (first | rfl |
    (generalize insertKids cs _ _ _ _ = x; rcases x with _ | ⟨e | ⟨cs', dep, c⟩⟩ <;> rfl)))


/-! ### keys: kinds, `keyOk`, catch-all ends -/

theorem kindOf_append {k : List Tok} (x : List Tok) (h : k ≠ []) : kindOf (k ++ x) = kindOf k := by
  cases k with
  | nil => exact absurd rfl h
  | cons t ts => cases t <;> simp [kindOf]

theorem startsWithSlash_append {k : List Tok} (x : List Tok) (h : k ≠ []) :
    startsWithSlash (k ++ x) = startsWithSlash k := by
  cases k with
  | nil => exact absurd rfl h
  | cons t ts => cases t <;> simp [startsWithSlash]

theorem startsWithSlash_ne_nil {k : List Tok} (h : startsWithSlash k = true) : k ≠ [] := by
  cases k with
  | nil => simp [startsWithSlash] at h
  | cons t ts => simp

theorem endsWithCatchAll_nil : endsWithCatchAll [] = false := by simp [endsWithCatchAll]

theorem endsWithCatchAll_append (a : List Tok) {b : List Tok} (h : b ≠ []) :
    endsWithCatchAll (a ++ b) = endsWithCatchAll b := by
  have : ∃ x, b.getLast? = some x := by
    cases hb : b.getLast? with
    | none => exact absurd (List.getLast?_eq_none_iff.mp hb) h
    | some x => exact ⟨x, rfl⟩
  obtain ⟨x, hx⟩ := this
  simp [endsWithCatchAll, hx]

theorem keyOk_append_right : ∀ (a b : List Tok), keyOk (a ++ b) = true → keyOk b = true
  | [], b, h => by simpa using h
  | .lit c :: a, b, h => by
    simp only [List.cons_append, keyOk, Bool.and_eq_true] at h; exact keyOk_append_right a b h.2
  | .param n :: a, b, h => by
    simp only [List.cons_append, keyOk] at h; exact keyOk_append_right a b h
  | .catchAll n :: a, b, h => by
    simp only [List.cons_append, keyOk, Bool.and_eq_true] at h; exact keyOk_append_right a b h.2

theorem keyOk_append_left : ∀ (a b : List Tok), keyOk (a ++ b) = true → keyOk a = true
  | [], b, h => by simp [keyOk]
  | .lit c :: a, b, h => by
    simp only [List.cons_append, keyOk, Bool.and_eq_true] at h ⊢; exact ⟨h.1, keyOk_append_left a b h.2⟩
  | .param n :: a, b, h => by
    simp only [List.cons_append, keyOk] at h ⊢; exact keyOk_append_left a b h
  | .catchAll n :: a, b, h => by
    simp only [List.cons_append, keyOk, Bool.and_eq_true] at h ⊢
    refine ⟨?_, keyOk_append_left a b h.2⟩
    cases a with
    | nil => rfl
    | cons t ts => simpa using h.1

/-- inside a well-formed key a catch-all is followed by a slash -/
theorem keyOk_catch_slash : ∀ (a b : List Tok), keyOk (a ++ b) = true → endsWithCatchAll a = true → b ≠ [] →
    startsWithSlash b = true
  | [], b, _, h, _ => by simp [endsWithCatchAll] at h
  | [t], b, h, he, hb => by
    cases t with
    | lit c => simp [endsWithCatchAll] at he
    | param n => simp [endsWithCatchAll] at he
    | catchAll n =>
      cases b with
      | nil => exact absurd rfl hb
      | cons u us =>
        simp only [List.cons_append, List.nil_append, keyOk, Bool.and_eq_true, beq_iff_eq] at h
        obtain ⟨rfl, _⟩ := h; simp [startsWithSlash]
  | t :: u :: a, b, h, he, hb => by
    have he' : endsWithCatchAll (u :: a) = true := by
      rw [← he]; exact (endsWithCatchAll_append [t] (by simp)).symm
    have h' : keyOk ((u :: a) ++ b) = true := keyOk_append_right [t] _ (by simpa using h)
    exact keyOk_catch_slash (u :: a) b h' he' hb

theorem keyOk_append : ∀ (a b : List Tok), keyOk a = true → keyOk b = true →
    (endsWithCatchAll a = true → b ≠ [] → startsWithSlash b = true) → keyOk (a ++ b) = true
  | [], b, _, hb, _ => by simpa using hb
  | [t], b, ha, hb, hc => by
    cases t with
    | lit c => simp only [keyOk, Bool.and_eq_true] at ha; simp [keyOk, ha.1, hb]
    | param n => simp [keyOk, hb]
    | catchAll n =>
      cases b with
      | nil => simp [keyOk]
      | cons u us =>
        have := hc (by simp [endsWithCatchAll]) (by simp)
        cases u with
        | lit c =>
          simp only [startsWithSlash, beq_iff_eq] at this
          subst this
          simp only [keyOk, Bool.and_eq_true] at hb
          simp [keyOk, hb]
        | param n => simp [startsWithSlash] at this
        | catchAll n => simp [startsWithSlash] at this
  | t :: u :: a, b, ha, hb, hc => by
    have ha' : keyOk (u :: a) = true := keyOk_append_right [t] _ (by simpa using ha)
    have ih := keyOk_append (u :: a) b ha' hb (by
      intro he; apply hc; rw [← he]; exact endsWithCatchAll_append [t] (by simp))
    cases t with
    | lit c => simp only [keyOk, Bool.and_eq_true] at ha; simp only [List.cons_append, keyOk, Bool.and_eq_true]; exact ⟨ha.1, by simpa using ih⟩
    | param n => simp only [List.cons_append, keyOk]; simpa using ih
    | catchAll n =>
      simp only [keyOk, Bool.and_eq_true] at ha
      simp only [List.cons_append, keyOk, Bool.and_eq_true]
      exact ⟨ha.1, by simpa using ih⟩

/-- `getEdge` compares first bytes; on well-formed keys that is the comparison of kinds -/
theorem firstByte_eq_iff {k k' : List Tok} (h1 : k ≠ []) (h2 : k' ≠ []) (o1 : keyOk k = true) (o2 : keyOk k' = true) :
    firstByte k = firstByte k' ↔ kindOf k = kindOf k' := by
  cases k with
  | nil => exact absurd rfl h1
  | cons t ts =>
    cases k' with
    | nil => exact absurd rfl h2
    | cons u us =>
      cases t <;> cases u <;>
        simp_all [firstByte, kindOf, keyOk, LBR, STAR, bne_iff_ne] <;>
        (first | (intro h; simp_all) | skip)

theorem kind_ne_of_ne {a b : Tok} (as bs : List Tok) (hab : a ≠ b) (hw : isWildSame a b = false) :
    kindOf (a :: as) ≠ kindOf (b :: bs) := by
  cases a <;> cases b <;> simp_all [kindOf, isWildSame]

theorem sortKids_nil : sortKids [] = [] := rfl
theorem sortKids_single (x : Node) : sortKids [x] = [x] := rfl

theorem wfNode_iff (k : List Tok) (r : Option Route) (cs : List Node) : wfNode (.mk k r cs) = true ↔
    k ≠ [] ∧ keyOk k = true ∧ (kindsOf cs).Nodup ∧
      (endsWithCatchAll k = true → r.isSome = true ∧ allSlash cs = true) ∧ wfKids cs = true := by
  conv => lhs; unfold wfNode
  simp only [Bool.and_eq_true, Bool.or_eq_true, Bool.not_eq_true', nodupB_iff, List.isEmpty_eq_false_iff]
  constructor
  · rintro ⟨⟨⟨⟨a, b⟩, c⟩, d⟩, e⟩
    refine ⟨a, b, c, ?_, e⟩
    intro h; rcases d with d | d
    · rw [h] at d; cases d
    · exact d
  · rintro ⟨a, b, c, d, e⟩
    refine ⟨⟨⟨⟨a, b⟩, c⟩, ?_⟩, e⟩
    cases h : endsWithCatchAll k
    · exact Or.inl rfl
    · exact Or.inr (d h)

theorem wfNode_newNode (k : List Tok) (r : Option Route) (cs : List Node) :
    wfNode (newNode k r cs) = wfNode (.mk k r cs) := by
  rw [Bool.eq_iff_iff, newNode, wfNode_iff, wfNode_iff, (kindsOf_sortKids cs).nodup_iff,
    allSlash_perm (sortKids_perm cs), wfKids_perm (sortKids_perm cs)]

/-- what `newLeaf` needs to know about the position of the inserted suffix relative to the hostname part -/
def HostOk (r : Route) (consumed : Nat) (toks : List Tok) : Prop :=
  consumed < r.hostToks →
    r.hostToks - consumed < toks.length ∧ endsWithCatchAll (toks.take (r.hostToks - consumed)) = false

theorem HostOk_advance {r : Route} {c : Nat} (p ta : List Tok) (h : HostOk r c (p ++ ta)) :
    HostOk r (c + p.length) ta := by
  intro hlt
  obtain ⟨h1, h2⟩ := h (by omega)
  simp only [List.length_append] at h1
  refine ⟨by omega, ?_⟩
  rw [List.take_append] at h2
  have e1 : List.take (r.hostToks - c) p = p := List.take_of_length_le (by omega)
  have e2 : r.hostToks - c - p.length = r.hostToks - (c + p.length) := by omega
  rw [e1, e2] at h2
  rwa [endsWithCatchAll_append] at h2
  intro hnil
  have := congrArg List.length hnil
  simp only [List.length_take, List.length_nil] at this
  omega

theorem wf_newLeaf (r : Route) (c : Nat) (suf : List Tok) (h1 : suf ≠ []) (h2 : keyOk suf = true)
    (hpos : HostOk r c suf) :
    wfNode (newLeaf r c suf).1 = true ∧ kindOf (newLeaf r c suf).1.key = kindOf suf := by
  unfold newLeaf
  split
  · rename_i hc
    obtain ⟨hlen, hcatch⟩ := hpos hc.2
    have hsplit : suf = suf.take (r.hostToks - c) ++ suf.drop (r.hostToks - c) := (List.take_append_drop _ _).symm
    have htake : suf.take (r.hostToks - c) ≠ [] := by
      intro hnil; have := congrArg List.length hnil
      simp only [List.length_take, List.length_nil] at this
      have : suf.length ≠ 0 := by simpa using h1
      omega
    have hdrop : suf.drop (r.hostToks - c) ≠ [] := by
      intro hnil; have := congrArg List.length hnil
      simp only [List.length_drop, List.length_nil] at this
      omega
    have ok1 : keyOk (suf.take (r.hostToks - c)) = true := keyOk_append_left _ _ (by rw [← hsplit]; exact h2)
    have ok2 : keyOk (suf.drop (r.hostToks - c)) = true := keyOk_append_right _ _ (by rw [← hsplit]; exact h2)
    constructor
    · simp only [wfNode_newNode, wfNode_iff]
      refine ⟨htake, ok1, ?_, ?_, ?_⟩
      · simp [kindsOf_eq_map]
      · rw [hcatch]; intro hh; cases hh
      · simp only [wfKids, Bool.and_true, wfNode_newNode, wfNode_iff]
        refine ⟨hdrop, ok2, by simp [kindsOf], ?_, by simp [wfKids]⟩
        intro _; simp [allSlash]
    · show kindOf (suf.take (r.hostToks - c)) = kindOf suf
      conv => rhs; rw [hsplit]
      exact (kindOf_append _ htake).symm
  · constructor
    · simp only [wfNode_newNode, wfNode_iff]
      exact ⟨h1, h2, by simp [kindsOf], by intro _; simp [allSlash], by simp [wfKids]⟩
    · rfl


theorem startsWithSlash_iff_kind (k : List Tok) : startsWithSlash k = true ↔ kindOf k = some (.static SLASH) := by
  cases k with
  | nil => simp [startsWithSlash, kindOf]
  | cons t ts => cases t <;> simp [startsWithSlash, kindOf]

theorem startsWithSlash_cons_iff (a : Tok) (as : List Tok) : startsWithSlash (a :: as) = true ↔ a = .lit SLASH := by
  cases a <;> simp [startsWithSlash]

theorem allSlash_iff_kinds (cs : List Node) : allSlash cs = true ↔ ∀ k ∈ kindsOf cs, k = some (.static SLASH) := by
  rw [allSlash_eq_all, kindsOf_eq_map]
  simp [startsWithSlash_iff_kind]

theorem allSlash_congr {cs ds : List Node} (h : kindsOf cs = kindsOf ds) : allSlash cs = allSlash ds := by
  rw [Bool.eq_iff_iff, allSlash_iff_kinds, allSlash_iff_kinds, h]

/-! ### `insertNode` preserves the invariant -/

theorem insertKids_none (r : Route) : ∀ (cs : List Node) (consumed d : Nat) (toks : List Tok),
    wfKids cs = true → toks ≠ [] → keyOk toks = true → insertKids cs consumed d toks r = none →
    kindOf toks ∉ kindsOf cs
  | [], _, _, _, _, _, _, _ => by simp [kindsOf]
  | .mk k ro ks :: cs, consumed, d, toks, hwf, hne, hok, h => by
    simp only [wfKids, Bool.and_eq_true] at hwf
    obtain ⟨hc, hcs⟩ := hwf
    rw [wfNode_iff] at hc
    unfold insertKids at h
    simp only [Node.key_mk] at h
    by_cases hfb : firstByte k = firstByte toks
    · simp only [hfb, if_true] at h
      cases hi : insertNode (.mk k ro ks) false consumed d toks r <;> rw [hi] at h <;> simp at h
    · simp only [hfb, if_false] at h
      cases hk : insertKids cs consumed d toks r with
      | none =>
        have ih := insertKids_none r cs consumed d toks hcs hne hok hk
        simp only [kindsOf, List.mem_cons, not_or]
        exact ⟨fun e => hfb ((firstByte_eq_iff hc.1 hne hc.2.1 hok).mpr e.symm), ih⟩
      | some x => rw [hk] at h; rcases x with e | ⟨a, b, c⟩ <;> simp at h

mutual
theorem wf_insertNode (r : Route) : ∀ (n : Node) (consumed d : Nat) (toks : List Tok) (res : InsOk),
    wfNode n = true → toks ≠ [] → keyOk toks = true → kindOf n.key = kindOf toks → HostOk r consumed toks →
    insertNode n false consumed d toks r = .ok res →
    wfNode res.node = true ∧ kindOf res.node.key = kindOf n.key
  | .mk key route cs, consumed, d, toks, res, hwf, hne, hok, hkind, hpos, h => by
    obtain ⟨ka, ta, hk, ht, hd⟩ := cp_split key toks
    generalize commonPrefix key toks = p at hk ht
    subst hk ht
    rw [wfNode_iff] at hwf
    obtain ⟨hkne, hkok, hnd, hcatch, hkids⟩ := hwf
    simp only [Node.key_mk] at hkind ⊢
    cases ka with
    | nil =>
      simp only [List.append_nil] at hkne hkok hcatch hkind h ⊢
      cases ta with
      | nil =>
        simp only [List.append_nil] at h
        rw [insertNode_exact] at h
        cases route with
        | some e => simp at h
        | none =>
          simp only [Except.ok.injEq] at h; subst h
          refine ⟨?_, rfl⟩
          rw [wfNode_iff]
          exact ⟨hkne, hkok, hnd, fun hc => ⟨rfl, (hcatch hc).2⟩, hkids⟩
      | cons t ts =>
        rw [insertNode_descend] at h
        have hpos' := HostOk_advance p (t :: ts) hpos
        have hok' : keyOk (t :: ts) = true := keyOk_append_right p _ hok
        cases hk : insertKids cs (consumed + p.length) (d + 1) (t :: ts) r with
        | none =>
          rw [hk] at h; simp only [Except.ok.injEq] at h; subst h
          have hnot := insertKids_none r cs _ _ _ hkids (by simp) hok' hk
          obtain ⟨hlw, hlk⟩ := wf_newLeaf r (consumed + p.length) (t :: ts) (by simp) hok' hpos'
          refine ⟨?_, rfl⟩
          simp only [wfNode_newNode, wfNode_iff]
          refine ⟨hkne, hkok, ?_, ?_, ?_⟩
          · rw [kindsOf_eq_map] at hnd hnot ⊢
            simp only [List.map_append, List.map_cons, List.map_nil]
            rw [List.nodup_append]
            refine ⟨hnd, by simp, ?_⟩
            intro a ha b hb
            simp only [List.mem_singleton] at hb
            subst hb
            rw [hlk]; intro e; subst e; exact hnot ha
          · intro hc
            obtain ⟨h1, h2⟩ := hcatch hc
            refine ⟨h1, ?_⟩
            have hs := keyOk_catch_slash p (t :: ts) hok hc (by simp)
            rw [allSlash_eq_all] at h2 ⊢
            simp only [List.all_append, Bool.and_eq_true, h2, true_and, List.all_cons, List.all_nil, Bool.and_true]
            rw [startsWithSlash_iff_kind] at hs ⊢
            rw [hlk, hs]
          · rw [wfKids_eq_all] at hkids ⊢
            simp only [List.all_append, Bool.and_eq_true, hkids, true_and, List.all_cons, List.all_nil, Bool.and_true]
            exact hlw
        | some x =>
          rw [hk] at h
          rcases x with e | ⟨cs', dep, c⟩
          · simp at h
          · simp only [Except.ok.injEq] at h; subst h
            obtain ⟨hw', hk'⟩ := wf_insertKids r cs _ _ _ cs' dep c hkids (by simp) hok' hpos' hk
            refine ⟨?_, rfl⟩
            rw [wfNode_iff]
            refine ⟨hkne, hkok, hk' ▸ hnd, fun hc => ⟨(hcatch hc).1, ?_⟩, hw'⟩
            rw [allSlash_congr hk']; exact (hcatch hc).2
    | cons a as =>
      cases ta with
      | nil =>
        simp only [List.append_nil] at hne hok hkind h hpos
        rw [insertNode_keyEnd] at h
        simp only [Except.ok.injEq] at h; subst h
        refine ⟨?_, (kindOf_append _ hne).symm⟩
        simp only [wfNode_newNode, wfNode_iff]
        refine ⟨hne, hok, by simp [kindsOf], ?_, ?_⟩
        · intro hc
          refine ⟨rfl, ?_⟩
          simp only [allSlash, Bool.and_true]
          exact keyOk_catch_slash p (a :: as) hkok hc (by simp)
        · simp only [wfKids, Bool.and_true, wfNode_iff]
          refine ⟨by simp, keyOk_append_right p _ hkok, hnd, ?_, hkids⟩
          intro hc; apply hcatch
          rw [endsWithCatchAll_append p (by simp)]; exact hc
      | cons b bs =>
        simp only [HeadsDiffer] at hd
        rw [insertNode_split _ _ _ _ _ _ _ _ _ _ _ hd] at h
        simp only [Bool.false_eq_true, if_false] at h
        cases hw : isWildSame a b with
        | true => simp [hw] at h
        | false =>
          simp only [hw, Bool.false_eq_true, if_false, Except.ok.injEq] at h; subst h
          have hpne : p ≠ [] := by
            intro hp; subst hp
            exact kind_ne_of_ne as bs hd hw hkind
          have hpos' := HostOk_advance p (b :: bs) hpos
          have hok' : keyOk (b :: bs) = true := keyOk_append_right p _ hok
          obtain ⟨hlw, hlk⟩ := wf_newLeaf r (consumed + p.length) (b :: bs) (by simp) hok' hpos'
          refine ⟨?_, (kindOf_append _ hpne).symm⟩
          simp only [wfNode_newNode, wfNode_iff]
          refine ⟨hpne, keyOk_append_left p _ hok, ?_, ?_, ?_⟩
          · rw [kindsOf_eq_map]
            simp only [List.map_cons, List.map_nil, Node.key_mk, List.nodup_cons, List.mem_singleton,
              List.not_mem_nil, not_false_eq_true, List.nodup_nil, and_true]
            rw [hlk]; exact fun e => kind_ne_of_ne as bs hd hw e.symm
          · intro hc
            have h1 := keyOk_catch_slash p (a :: as) hkok hc (by simp)
            have h2 := keyOk_catch_slash p (b :: bs) hok hc (by simp)
            rw [startsWithSlash_cons_iff] at h1 h2
            exact absurd (h1.trans h2.symm) hd
          · simp only [wfKids, Bool.and_true, Bool.and_eq_true, wfNode_iff]
            refine ⟨hlw, by simp, keyOk_append_right p _ hkok, hnd, ?_, hkids⟩
            intro hc; apply hcatch
            rw [endsWithCatchAll_append p (by simp)]; exact hc
theorem wf_insertKids (r : Route) : ∀ (cs : List Node) (consumed d : Nat) (toks : List Tok)
    (cs' : List Node) (dep : Nat) (cse : InsCase),
    wfKids cs = true → toks ≠ [] → keyOk toks = true → HostOk r consumed toks →
    insertKids cs consumed d toks r = some (.ok (cs', dep, cse)) →
    wfKids cs' = true ∧ kindsOf cs' = kindsOf cs
  | [], _, _, _, _, _, _, _, _, _, _, h => by simp [insertKids] at h
  | .mk k ro ks :: cs, consumed, d, toks, cs', dep, cse, hwf, hne, hok, hpos, h => by
    simp only [wfKids, Bool.and_eq_true] at hwf
    obtain ⟨hc, hcs⟩ := hwf
    have hc' := (wfNode_iff _ _ _).mp hc
    unfold insertKids at h
    simp only [Node.key_mk] at h
    by_cases hfb : firstByte k = firstByte toks
    · simp only [hfb, if_true] at h
      cases hi : insertNode (.mk k ro ks) false consumed d toks r with
      | error e => rw [hi] at h; simp at h
      | ok res =>
        rw [hi] at h
        obtain ⟨c', dep', cse'⟩ := res
        simp only [Option.some.injEq, Except.ok.injEq, Prod.mk.injEq] at h
        obtain ⟨rfl, rfl, rfl⟩ := h
        obtain ⟨hw', hk'⟩ := wf_insertNode r (.mk k ro ks) consumed d toks _ hc hne hok
          ((firstByte_eq_iff hc'.1 hne hc'.2.1 hok).mp hfb) hpos hi
        refine ⟨by simp only [wfKids, Bool.and_eq_true]; exact ⟨hw', hcs⟩, ?_⟩
        simp only [kindsOf_eq_map, List.map_cons] at hk' ⊢
        rw [hk']
    · simp only [hfb, if_false] at h
      cases hk : insertKids cs consumed d toks r with
      | none => rw [hk] at h; simp at h
      | some x =>
        rw [hk] at h
        rcases x with e | ⟨cs'', dep', cse'⟩
        · simp at h
        · simp only [Option.some.injEq, Except.ok.injEq, Prod.mk.injEq] at h
          obtain ⟨rfl, rfl, rfl⟩ := h
          obtain ⟨hw', hk'⟩ := wf_insertKids r cs consumed d toks cs'' _ _ hcs hne hok hpos hk
          refine ⟨by simp only [wfKids, Bool.and_eq_true]; exact ⟨hc, hw'⟩, ?_⟩
          simp only [kindsOf_eq_map, List.map_cons] at hk' ⊢
          rw [hk']
end


theorem wf_insertRoot (r : Route) (root : Node) (toks : List Tok) (res : InsOk)
    (hwf : wfRoot root = true) (hne : toks ≠ []) (hok : keyOk toks = true) (hpos : HostOk r 0 toks)
    (h : insertNode root true 0 0 toks r = .ok res) : wfRoot res.node = true := by
  obtain ⟨key, route, cs⟩ := root
  simp only [wfRoot, Node.key_mk, Node.route_mk, Node.children_mk, Bool.and_eq_true, List.isEmpty_iff,
    Option.isNone_iff_eq_none, nodupB_iff] at hwf
  obtain ⟨⟨⟨rfl, rfl⟩, hnd⟩, hkids⟩ := hwf
  cases toks with
  | nil => exact absurd rfl hne
  | cons t ts =>
    have h' := insertNode_descend [] t ts none cs true 0 0 r
    simp only [List.nil_append, List.length_nil, Nat.add_zero, Nat.zero_add] at h'
    rw [h'] at h
    cases hk : insertKids cs 0 1 (t :: ts) r with
    | none =>
      rw [hk] at h; simp only [Except.ok.injEq] at h; subst h
      have hnot := insertKids_none r cs _ _ _ hkids (by simp) hok hk
      obtain ⟨hlw, hlk⟩ := wf_newLeaf r 0 (t :: ts) (by simp) hok hpos
      simp only [wfRoot, newNode, Node.key_mk, Node.route_mk, Node.children_mk, Bool.and_eq_true,
        List.isEmpty_nil, Option.isNone_none, true_and, nodupB_iff]
      rw [(kindsOf_sortKids _).nodup_iff, wfKids_perm (sortKids_perm _)]
      constructor
      · rw [kindsOf_eq_map] at hnd hnot ⊢
        simp only [List.map_append, List.map_cons, List.map_nil]
        rw [List.nodup_append]
        refine ⟨hnd, by simp, ?_⟩
        intro a ha b hb
        simp only [List.mem_singleton] at hb
        subst hb
        rw [hlk]; intro e; subst e; exact hnot ha
      · rw [wfKids_eq_all] at hkids ⊢
        simp only [List.all_append, Bool.and_eq_true, hkids, true_and, List.all_cons, List.all_nil, Bool.and_true]
        exact hlw
    | some x =>
      rw [hk] at h
      rcases x with e | ⟨cs', dep, c⟩
      · simp at h
      · simp only [Except.ok.injEq] at h; subst h
        obtain ⟨hw', hk'⟩ := wf_insertKids r cs _ _ _ cs' dep c hkids (by simp) hok hpos hk
        simp only [wfRoot, Node.key_mk, Node.route_mk, Node.children_mk, Bool.and_eq_true,
          List.isEmpty_nil, Option.isNone_none, true_and, nodupB_iff]
        exact ⟨hk' ▸ hnd, hw'⟩

/-! ### suffix sets: what `insertNode` adds -/

def pre (p : List Tok) (sr : List Tok × Route) : List Tok × Route := (p ++ sr.1, sr.2)

def own (k : List Tok) : Option Route → Spec.SufSet
  | some r => [(k, r)]
  | none => []

theorem sufsNode_own (k : List Tok) (r : Option Route) (cs : List Node) :
    sufsNode (.mk k r cs) = own k r ++ (sufsKids cs).map (pre k) := by
  conv => lhs; unfold sufsNode
  cases r <;> rfl

theorem pre_pre (p q : List Tok) : pre p ∘ pre q = pre (p ++ q) := by
  funext sr; simp [pre]

theorem sufs_lower (p ka : List Tok) (route : Option Route) (cs : List Node) :
    (sufsNode (.mk ka route cs)).map (pre p) = sufsNode (.mk (p ++ ka) route cs) := by
  simp only [sufsNode_own, List.map_append, List.map_map, pre_pre]
  cases route <;> simp [own, pre]

theorem sufsNode_newNode (k : List Tok) (r : Option Route) (cs : List Node) :
    (sufsNode (newNode k r cs)).Perm (sufsNode (.mk k r cs)) := by
  simp only [newNode, sufsNode_own]
  exact List.Perm.append_left _ ((sufsKids_perm (sortKids_perm cs)).map _)

theorem sufs_newLeaf (r : Route) (c : Nat) (suf : List Tok) : sufsNode (newLeaf r c suf).1 = [(suf, r)] := by
  unfold newLeaf
  split
  · simp [newNode, sortKids_single, sortKids_nil, sufsNode_own, sufsKids, own, pre]
  · simp [newNode, sortKids_nil, sufsNode_own, sufsKids, own]

mutual
theorem sufs_insertNode (r : Route) : ∀ (n : Node) (isRoot : Bool) (consumed d : Nat) (toks : List Tok) (res : InsOk),
    insertNode n isRoot consumed d toks r = .ok res → (sufsNode res.node).Perm ((toks, r) :: sufsNode n)
  | .mk key route cs, isRoot, consumed, d, toks, res, h => by
    obtain ⟨ka, ta, hk, ht, hd⟩ := cp_split key toks
    generalize commonPrefix key toks = p at hk ht
    subst hk ht
    cases ka with
    | nil =>
      simp only [List.append_nil] at h ⊢
      cases ta with
      | nil =>
        simp only [List.append_nil] at h ⊢
        rw [insertNode_exact] at h
        cases route with
        | some e => simp at h
        | none =>
          simp only [Except.ok.injEq] at h; subst h
          simp [sufsNode_own, own]
      | cons t ts =>
        rw [insertNode_descend] at h
        cases hk : insertKids cs (consumed + p.length) (d + 1) (t :: ts) r with
        | none =>
          rw [hk] at h; simp only [Except.ok.injEq] at h; subst h
          refine (sufsNode_newNode _ _ _).trans ?_
          simp only [sufsNode_own, sufsKids_eq_flatMap, List.flatMap_append, List.flatMap_cons, List.flatMap_nil,
            List.append_nil, sufs_newLeaf, List.map_append, List.map_cons, List.map_nil]
          rw [← List.append_assoc]
          exact List.perm_append_singleton _ _
        | some x =>
          rw [hk] at h
          rcases x with e | ⟨cs', dep, c⟩
          · simp at h
          · simp only [Except.ok.injEq] at h; subst h
            have ih := sufs_insertKids r cs _ _ _ cs' dep c hk
            simp only [sufsNode_own]
            refine (List.Perm.append_left _ (ih.map (pre p))).trans ?_
            simp only [List.map_cons]
            exact List.perm_middle
    | cons a as =>
      cases ta with
      | nil =>
        simp only [List.append_nil] at h ⊢
        rw [insertNode_keyEnd] at h
        simp only [Except.ok.injEq] at h; subst h
        refine (sufsNode_newNode _ _ _).trans ?_
        rw [← sufs_lower p (a :: as) route cs]
        simp [sufsNode_own p, own, sufsKids]
      | cons b bs =>
        simp only [HeadsDiffer] at hd
        rw [insertNode_split _ _ _ _ _ _ _ _ _ _ _ hd] at h
        split at h
        · simp at h
        · split at h
          · simp at h
          · simp only [Except.ok.injEq] at h; subst h
            refine (sufsNode_newNode _ _ _).trans ?_
            rw [← sufs_lower p (a :: as) route cs]
            simp [sufsNode_own p, own, sufsKids, sufs_newLeaf, pre]
theorem sufs_insertKids (r : Route) : ∀ (cs : List Node) (consumed d : Nat) (toks : List Tok)
    (cs' : List Node) (dep : Nat) (cse : InsCase),
    insertKids cs consumed d toks r = some (.ok (cs', dep, cse)) →
    (sufsKids cs').Perm ((toks, r) :: sufsKids cs)
  | [], _, _, _, _, _, _, h => by simp [insertKids] at h
  | c :: cs, consumed, d, toks, cs', dep, cse, h => by
    unfold insertKids at h
    by_cases hfb : firstByte c.key = firstByte toks
    · simp only [hfb, if_true] at h
      cases hi : insertNode c false consumed d toks r with
      | error e => rw [hi] at h; simp at h
      | ok res =>
        rw [hi] at h
        obtain ⟨c', dep', cse'⟩ := res
        simp only [Option.some.injEq, Except.ok.injEq, Prod.mk.injEq] at h
        obtain ⟨rfl, rfl, rfl⟩ := h
        have ih := sufs_insertNode r c false consumed d toks _ hi
        simp only [sufsKids]
        exact ih.append_right _
    · simp only [hfb, if_false] at h
      cases hk : insertKids cs consumed d toks r with
      | none => rw [hk] at h; simp at h
      | some x =>
        rw [hk] at h
        rcases x with e | ⟨cs'', dep', cse'⟩
        · simp at h
        · simp only [Option.some.injEq, Except.ok.injEq, Prod.mk.injEq] at h
          obtain ⟨rfl, rfl, rfl⟩ := h
          have ih := sufs_insertKids r cs consumed d toks cs'' _ _ hk
          simp only [sufsKids]
          exact (List.Perm.append_left _ ih).trans List.perm_middle
end


/-! ### the conflict rule on suffix sets -/

open Fox.Spec (conflictWith dropCommon)

theorem dropCommon_append (p a b : List Tok) : dropCommon (p ++ a) (p ++ b) = dropCommon a b := by
  induction p with
  | nil => rfl
  | cons t p ih => simp [dropCommon, ih]

theorem conflictWith_append (p a b : List Tok) : conflictWith (p ++ a) (p ++ b) = conflictWith a b := by
  simp [conflictWith, dropCommon_append]

theorem conflictWith_nil_left (b : List Tok) : conflictWith [] b = false := by
  cases b <;> simp [conflictWith, dropCommon]

theorem conflictWith_nil_right (a : List Tok) : conflictWith a [] = false := by
  cases a with
  | nil => simp [conflictWith, dropCommon]
  | cons x xs => cases x <;> simp [conflictWith, dropCommon]

theorem conflictWith_cons_ne {x y : Tok} (a b : List Tok) (h : x ≠ y) :
    conflictWith (x :: a) (y :: b) = isWildSame x y := by
  cases x <;> cases y <;> simp_all [conflictWith, dropCommon, isWildSame]

theorem conflictWith_kind_ne {a b : List Tok} (h : kindOf a ≠ kindOf b) : conflictWith a b = false := by
  cases a with
  | nil => exact conflictWith_nil_left b
  | cons x xs =>
    cases b with
    | nil => exact conflictWith_nil_right _
    | cons y ys =>
      have hxy : x ≠ y := by intro e; subst e; cases x <;> simp [kindOf] at h
      rw [conflictWith_cons_ne _ _ hxy]
      cases x <;> cases y <;> simp_all [kindOf, isWildSame]

/-- the routes of a suffix set whose suffix conflicts with `toks` -/
def conflictsIn (S : Spec.SufSet) (toks : List Tok) : List Route :=
  (S.filter (fun sr => conflictWith sr.1 toks)).map (·.2)

def confOf : Option InsErr → List Route
  | some (.conflict cs) => cs
  | _ => []

/-- what the error of an insertion of `toks` says about the suffix set `S` of the visited subtree -/
def ErrSpec (S : Spec.SufSet) (toks : List Tok) (e : Option InsErr) : Prop :=
  conflictsIn S toks = confOf e ∧
  (match e with
   | some (.exist x) => (toks, x) ∈ S
   | _ => ∀ sr ∈ S, sr.1 ≠ toks)

def errOf {α} : Except InsErr α → Option InsErr
  | .error e => some e
  | .ok _ => none

def errOfK {α} : Option (Except InsErr α) → Option InsErr
  | some (.error e) => some e
  | _ => none

theorem conflictsIn_append (S T : Spec.SufSet) (toks : List Tok) :
    conflictsIn (S ++ T) toks = conflictsIn S toks ++ conflictsIn T toks := by
  simp [conflictsIn]

theorem conflictsIn_map_pre (p : List Tok) (K : Spec.SufSet) (ta : List Tok) :
    conflictsIn (K.map (pre p)) (p ++ ta) = conflictsIn K ta := by
  simp only [conflictsIn, List.filter_map, List.map_map]
  congr 1
  apply List.filter_congr
  intro sr _
  simp [pre, conflictWith_append]

theorem ErrSpec_append_right {S T : Spec.SufSet} {toks : List Tok} {e : Option InsErr}
    (h1 : ErrSpec S toks e) (h2 : ErrSpec T toks none) : ErrSpec (S ++ T) toks e := by
  obtain ⟨c1, m1⟩ := h1
  obtain ⟨c2, m2⟩ := h2
  refine ⟨by rw [conflictsIn_append, c1, c2]; simp [confOf], ?_⟩
  rcases e with _ | (x | cs)
  · intro sr hsr; rcases List.mem_append.mp hsr with h | h
    · exact m1 sr h
    · exact m2 sr h
  · exact List.mem_append_left _ m1
  · intro sr hsr; rcases List.mem_append.mp hsr with h | h
    · exact m1 sr h
    · exact m2 sr h

theorem ErrSpec_append_left {S T : Spec.SufSet} {toks : List Tok} {e : Option InsErr}
    (h1 : ErrSpec S toks none) (h2 : ErrSpec T toks e) : ErrSpec (S ++ T) toks e := by
  obtain ⟨c1, m1⟩ := h1
  obtain ⟨c2, m2⟩ := h2
  refine ⟨by rw [conflictsIn_append, c1, c2]; simp [confOf], ?_⟩
  rcases e with _ | (x | cs)
  · intro sr hsr; rcases List.mem_append.mp hsr with h | h
    · exact m1 sr h
    · exact m2 sr h
  · exact List.mem_append_right _ m2
  · intro sr hsr; rcases List.mem_append.mp hsr with h | h
    · exact m1 sr h
    · exact m2 sr h

theorem ErrSpec_map_pre (p : List Tok) {K : Spec.SufSet} {ta : List Tok} {e : Option InsErr}
    (h : ErrSpec K ta e) : ErrSpec (K.map (pre p)) (p ++ ta) e := by
  obtain ⟨c, m⟩ := h
  refine ⟨by rw [conflictsIn_map_pre, c], ?_⟩
  rcases e with _ | (x | cs)
  · intro sr hsr
    obtain ⟨sr', h', rfl⟩ := List.mem_map.mp hsr
    simp only [pre, ne_eq, List.append_cancel_left_eq]; exact m sr' h'
  · exact List.mem_map.mpr ⟨(ta, x), m, rfl⟩
  · intro sr hsr
    obtain ⟨sr', h', rfl⟩ := List.mem_map.mp hsr
    simp only [pre, ne_eq, List.append_cancel_left_eq]; exact m sr' h'

/-- a suffix set none of whose members equals or conflicts with `toks` -/
theorem ErrSpec_none_of {S : Spec.SufSet} {toks : List Tok}
    (h : ∀ sr ∈ S, sr.1 ≠ toks ∧ conflictWith sr.1 toks = false) : ErrSpec S toks none := by
  refine ⟨?_, fun sr hsr => (h sr hsr).1⟩
  simp only [conflictsIn, confOf, List.map_eq_nil_iff, List.filter_eq_nil_iff]
  intro sr hsr; simp [(h sr hsr).2]

theorem sufs_kind {k : List Tok} {r : Option Route} {cs : List Node} (hk : k ≠ []) :
    ∀ sr ∈ sufsNode (.mk k r cs), kindOf sr.1 = kindOf k := by
  intro sr hsr
  rw [sufsNode_own] at hsr
  rcases List.mem_append.mp hsr with h | h
  · cases r with
    | none => simp [own] at h
    | some x => simp only [own, List.mem_singleton] at h; subst h; rfl
  · obtain ⟨sr', _, rfl⟩ := List.mem_map.mp h
    exact kindOf_append _ hk

theorem sufsKids_kind {cs : List Node} (hwf : wfKids cs = true) :
    ∀ sr ∈ sufsKids cs, kindOf sr.1 ∈ kindsOf cs := by
  intro sr hsr
  rw [sufsKids_eq_flatMap] at hsr
  obtain ⟨c, hc, hs⟩ := List.mem_flatMap.mp hsr
  rw [wfKids_eq_all, List.all_eq_true] at hwf
  have hcw := hwf c hc
  obtain ⟨k, ro, ks⟩ := c
  rw [wfNode_iff] at hcw
  rw [sufs_kind hcw.1 sr hs, kindsOf_eq_map]
  exact List.mem_map.mpr ⟨_, hc, rfl⟩

theorem sufsKids_ne_nil {cs : List Node} (hwf : wfKids cs = true) : ∀ sr ∈ sufsKids cs, sr.1 ≠ [] := by
  intro sr hsr hnil
  have := sufsKids_kind hwf sr hsr
  rw [hnil, kindsOf_eq_map] at this
  obtain ⟨c, hc, hk⟩ := List.mem_map.mp this
  rw [wfKids_eq_all, List.all_eq_true] at hwf
  have hcw := hwf c hc
  obtain ⟨k, ro, ks⟩ := c
  rw [wfNode_iff] at hcw
  cases k with
  | nil => exact hcw.1 rfl
  | cons t ts => cases t <;> simp [kindOf] at hk

theorem ErrSpec_other_kind {S : Spec.SufSet} {toks : List Tok} (h : ∀ sr ∈ S, kindOf sr.1 ≠ kindOf toks) :
    ErrSpec S toks none :=
  ErrSpec_none_of fun sr hsr =>
    ⟨fun e => h sr hsr (by rw [e]), conflictWith_kind_ne (h sr hsr)⟩

mutual
theorem routesNode_eq : ∀ n : Node, routesNode n = (sufsNode n).map (·.2)
  | .mk k r cs => by
    rw [sufsNode_own]; unfold routesNode; rw [routesKids_eq cs]
    cases r <;> simp [own, List.map_map, pre, Function.comp_def]
theorem routesKids_eq : ∀ cs : List Node, routesKids cs = (sufsKids cs).map (·.2)
  | [] => by simp [routesKids, sufsKids]
  | c :: cs => by simp [routesKids, sufsKids, routesNode_eq c, routesKids_eq cs]
end

mutual
theorem err_insertNode (r : Route) : ∀ (n : Node) (consumed d : Nat) (toks : List Tok),
    wfNode n = true → toks ≠ [] → keyOk toks = true → kindOf n.key = kindOf toks →
    ErrSpec (sufsNode n) toks (errOf (insertNode n false consumed d toks r))
  | .mk key route cs, consumed, d, toks, hwf, hne, hok, hkind => by
    obtain ⟨ka, ta, hk, ht, hd⟩ := cp_split key toks
    generalize commonPrefix key toks = p at hk ht
    subst hk ht
    rw [wfNode_iff] at hwf
    obtain ⟨hkne, hkok, hnd, hcatch, hkids⟩ := hwf
    simp only [Node.key_mk] at hkind
    cases ka with
    | nil =>
      simp only [List.append_nil] at hkne hkok hcatch hkind ⊢
      cases ta with
      | nil =>
        simp only [List.append_nil] at hne ⊢
        rw [insertNode_exact, sufsNode_own]
        have hK : ErrSpec ((sufsKids cs).map (pre p)) p none := by
          have := ErrSpec_map_pre p (K := sufsKids cs) (ta := []) (e := none)
            (ErrSpec_none_of fun sr hsr => ⟨sufsKids_ne_nil hkids sr hsr, conflictWith_nil_right _⟩)
          simpa using this
        cases route with
        | some e =>
          refine ErrSpec_append_right ?_ hK
          refine ⟨?_, by simp [errOf, own]⟩
          have := conflictWith_append p [] []
          simp only [List.append_nil] at this
          simp [conflictsIn, own, errOf, confOf, this, conflictWith_nil_left]
        | none =>
          simpa [own, errOf] using hK
      | cons t ts =>
        rw [insertNode_descend, sufsNode_own]
        have hok' : keyOk (t :: ts) = true := keyOk_append_right p _ hok
        have hown : ErrSpec (own p route) (p ++ t :: ts) none := by
          apply ErrSpec_none_of
          intro sr hsr
          cases route with
          | none => simp [own] at hsr
          | some x =>
            simp only [own, List.mem_singleton] at hsr; subst hsr
            refine ⟨by simp, ?_⟩
            have := conflictWith_append p [] (t :: ts)
            simp only [List.append_nil] at this
            rw [this]; exact conflictWith_nil_left _
        have ih := err_insertKids r cs (consumed + p.length) (d + 1) (t :: ts) hkids hnd (by simp) hok'
        have ih' := ErrSpec_map_pre p ih
        have := ErrSpec_append_left hown ih'
        cases hk : insertKids cs (consumed + p.length) (d + 1) (t :: ts) r with
        | none => rw [hk] at this; simpa [errOf, errOfK] using this
        | some x =>
          rw [hk] at this
          rcases x with e | ⟨cs', dep, c⟩ <;> simpa [errOf, errOfK] using this
    | cons a as =>
      have hall : ∀ sr ∈ sufsNode (.mk (p ++ a :: as) route cs), ∃ s', sr.1 = p ++ a :: s' := by
        intro sr hsr
        rw [sufsNode_own] at hsr
        rcases List.mem_append.mp hsr with h | h
        · cases route with
          | none => simp [own] at h
          | some x => simp only [own, List.mem_singleton] at h; subst h; exact ⟨as, rfl⟩
        · obtain ⟨sr', _, rfl⟩ := List.mem_map.mp h
          exact ⟨as ++ sr'.1, by simp [pre]⟩
      cases ta with
      | nil =>
        simp only [List.append_nil] at hne ⊢
        rw [insertNode_keyEnd]
        apply ErrSpec_none_of
        intro sr hsr
        obtain ⟨s', hs'⟩ := hall sr hsr
        rw [hs']
        refine ⟨by simp, ?_⟩
        have := conflictWith_append p (a :: s') []
        simp only [List.append_nil] at this
        rw [this]; exact conflictWith_nil_right _
      | cons b bs =>
        simp only [HeadsDiffer] at hd
        rw [insertNode_split _ _ _ _ _ _ _ _ _ _ _ hd]
        simp only [Bool.false_eq_true, if_false]
        have hcw : ∀ sr ∈ sufsNode (.mk (p ++ a :: as) route cs),
            sr.1 ≠ p ++ b :: bs ∧ conflictWith sr.1 (p ++ b :: bs) = isWildSame a b := by
          intro sr hsr
          obtain ⟨s', hs'⟩ := hall sr hsr
          rw [hs']
          refine ⟨by simp [hd], ?_⟩
          rw [conflictWith_append, conflictWith_cons_ne _ _ hd]
        cases hw : isWildSame a b with
        | true =>
          simp only [if_true, errOf]
          refine ⟨?_, fun sr hsr => (hcw sr hsr).1⟩
          simp only [conflictsIn, confOf]
          have : (sufsNode (.mk (p ++ a :: as) route cs)).filter (fun sr => conflictWith sr.1 (p ++ b :: bs)) =
              sufsNode (.mk (p ++ a :: as) route cs) := by
            rw [List.filter_eq_self]; intro sr hsr; rw [(hcw sr hsr).2, hw]
          rw [this, routesNode_eq]
        | false =>
          simp only [Bool.false_eq_true, if_false, errOf]
          apply ErrSpec_none_of
          intro sr hsr
          exact ⟨(hcw sr hsr).1, by rw [(hcw sr hsr).2, hw]⟩
theorem err_insertKids (r : Route) : ∀ (cs : List Node) (consumed d : Nat) (toks : List Tok),
    wfKids cs = true → (kindsOf cs).Nodup → toks ≠ [] → keyOk toks = true →
    ErrSpec (sufsKids cs) toks (errOfK (insertKids cs consumed d toks r))
  | [], _, _, _, _, _, _, _ => by
    simp only [sufsKids, insertKids, errOfK]
    exact ErrSpec_none_of (by simp)
  | .mk k ro ks :: cs, consumed, d, toks, hwf, hnd, hne, hok => by
    simp only [wfKids, Bool.and_eq_true] at hwf
    obtain ⟨hc, hcs⟩ := hwf
    have hc' := (wfNode_iff _ _ _).mp hc
    simp only [kindsOf, List.nodup_cons] at hnd
    unfold insertKids
    simp only [Node.key_mk, sufsKids]
    by_cases hfb : firstByte k = firstByte toks
    · simp only [hfb, if_true]
      have hkind := (firstByte_eq_iff hc'.1 hne hc'.2.1 hok).mp hfb
      have ih := err_insertNode r (.mk k ro ks) consumed d toks hc hne hok hkind
      have hrest : ErrSpec (sufsKids cs) toks none := by
        apply ErrSpec_other_kind
        intro sr hsr e
        have := sufsKids_kind hcs sr hsr
        rw [e, ← hkind] at this
        exact hnd.1 this
      have := ErrSpec_append_right ih hrest
      cases hi : insertNode (.mk k ro ks) false consumed d toks r with
      | error e => rw [hi] at this; simpa [errOf, errOfK] using this
      | ok res => rw [hi] at this; obtain ⟨c', dep', cse'⟩ := res; simpa [errOf, errOfK] using this
    · simp only [hfb, if_false]
      have hkind : kindOf k ≠ kindOf toks := fun e => hfb ((firstByte_eq_iff hc'.1 hne hc'.2.1 hok).mpr e)
      have hfirst : ErrSpec (sufsNode (.mk k ro ks)) toks none := by
        apply ErrSpec_other_kind
        intro sr hsr
        rw [sufs_kind hc'.1 sr hsr]; exact hkind
      have ih := err_insertKids r cs consumed d toks hcs hnd.2 hne hok
      have := ErrSpec_append_left hfirst ih
      cases hk : insertKids cs consumed d toks r with
      | none => rw [hk] at this; simpa [errOfK] using this
      | some x =>
        rw [hk] at this
        rcases x with e | ⟨cs'', dep', cse'⟩ <;> simpa [errOfK] using this
end


theorem err_insertRoot (r : Route) (root : Node) (toks : List Tok)
    (hwf : wfRoot root = true) (hne : toks ≠ []) (hok : keyOk toks = true) :
    ErrSpec (sufsNode root) toks (errOf (insertNode root true 0 0 toks r)) := by
  obtain ⟨key, route, cs⟩ := root
  simp only [wfRoot, Node.key_mk, Node.route_mk, Node.children_mk, Bool.and_eq_true, List.isEmpty_iff,
    Option.isNone_iff_eq_none, nodupB_iff] at hwf
  obtain ⟨⟨⟨rfl, rfl⟩, hnd⟩, hkids⟩ := hwf
  cases toks with
  | nil => exact absurd rfl hne
  | cons t ts =>
    have h' := insertNode_descend [] t ts none cs true 0 0 r
    simp only [List.nil_append, List.length_nil, Nat.add_zero, Nat.zero_add] at h'
    rw [h', sufsNode_own]
    have ih := ErrSpec_map_pre [] (err_insertKids r cs 0 1 (t :: ts) hkids hnd (by simp) hok)
    simp only [List.nil_append] at ih
    cases hk : insertKids cs 0 1 (t :: ts) r with
    | none => rw [hk] at ih; simpa [own, errOf, errOfK] using ih
    | some x =>
      rw [hk] at ih
      rcases x with e | ⟨cs', dep, c⟩ <;> simpa [own, errOf, errOfK] using ih

/-! ### `updateNode` and `removeNode`: equations -/

theorem updateNode_miss (p : List Tok) (a : Tok) (as ta : List Tok) (route : Option Route) (cs : List Node)
    (r : Route) (hd : HeadsDiffer (a :: as) ta) :
    updateNode (.mk (p ++ a :: as) route cs) (p ++ ta) r = none := by
  unfold updateNode
  simp [commonPrefix_append p (a :: as) ta hd]

theorem updateNode_hit (p ta : List Tok) (route : Option Route) (cs : List Node) (r : Route) :
    updateNode (.mk p route cs) (p ++ ta) r =
      (match ta with
       | [] => (match route with | none => none | some _ => some (.mk p (some r) cs))
       | t :: ts => (updateKids cs (t :: ts) r).map (.mk p route ·)) := by
  have h := commonPrefix_append p [] ta (by cases ta <;> simp [HeadsDiffer])
  simp only [List.append_nil] at h
  unfold updateNode
  simp only [h, Nat.lt_irrefl, if_false, List.drop_left]
  cases ta <;> rfl

theorem removeNode_miss (p : List Tok) (a : Tok) (as ta : List Tok) (route : Option Route) (cs : List Node)
    (isRoot : Bool) (hd : HeadsDiffer (a :: as) ta) :
    removeNode (.mk (p ++ a :: as) route cs) isRoot (p ++ ta) = none := by
  unfold removeNode
  simp [commonPrefix_append p (a :: as) ta hd]

theorem removeNode_hit_nil (p : List Tok) (route : Option Route) (cs : List Node) (isRoot : Bool) :
    removeNode (.mk p route cs) isRoot p =
      (match route with
       | none => none
       | some r =>
         match cs with
         | [] => some (.vanished, r, .dropLeaf)
         | [c] => some (.replaced (.mk (p ++ c.key) c.route c.children), r, .mergeChild)
         | _ => some (.replaced (.mk p none cs), r, .keepBranch)) := by
  have h := commonPrefix_append p [] [] (by simp [HeadsDiffer])
  simp only [List.append_nil] at h
  unfold removeNode
  simp only [h, Nat.lt_irrefl, if_false, List.drop_length]
  rcases route with _ | r
  · rfl
  · rcases cs with _ | ⟨c, _ | ⟨c2, cs⟩⟩ <;> rfl

theorem removeNode_hit_cons (p : List Tok) (t : Tok) (ts : List Tok) (route : Option Route) (cs : List Node)
    (isRoot : Bool) :
    removeNode (.mk p route cs) isRoot (p ++ t :: ts) =
      (match removeKids cs 0 (t :: ts) with
        | none => none
        | some (i, res, r, cse) =>
          match res with
          | .replaced c' => some (.replaced (.mk p route (cs.set i c')), r, cse)
          | .vanished =>
            let edges := removeFrom cs i
            if edges.isEmpty && route.isNone && !isRoot then some (.vanishedHost, r, .dropHost)
            else
              (match edges with
               | [e] =>
                 if route.isNone && !isRoot then
                   some (.replaced (.mk (p ++ e.key) e.route e.children), r, .mergeParent)
                 else some (.replaced (newNode p route edges), r, cse)
               | _ => some (.replaced (newNode p route edges), r, cse))
          | .vanishedHost =>
            let edges := removeFrom cs i
            (match edges with
             | [e] =>
               if route.isNone && !startsWithSlash e.key && !isRoot then
                 some (.replaced (.mk (p ++ e.key) e.route e.children), r, .mergeGrandParent)
               else some (.replaced (newNode p route edges), r, cse)
             | _ => some (.replaced (newNode p route edges), r, cse))) := by
  have h := commonPrefix_append p [] (t :: ts) (by simp [HeadsDiffer])
  simp only [List.append_nil] at h
  unfold removeNode
  simp only [h, Nat.lt_irrefl, if_false, List.drop_left]
  generalize removeKids cs 0 (t :: ts) = x
  rcases x with _ | ⟨i, res, r, cse⟩
  · rfl
  · cases res
    · rfl
    · simp only []
      split
      · rfl
      · generalize removeFrom cs i = edges
        rcases edges with _ | ⟨e, _ | ⟨e2, es⟩⟩ <;> rfl
    · simp only []
      generalize removeFrom cs i = edges
      rcases edges with _ | ⟨e, _ | ⟨e2, es⟩⟩ <;> rfl


/-! ### induction over nodes, and the child selected by `getEdge` -/

mutual
theorem Node.ind_aux (P : Node → Prop) (h : ∀ k r cs, (∀ c ∈ cs, P c) → P (.mk k r cs)) : ∀ n : Node, P n
  | .mk k r cs => h k r cs (Node.ind_kids P h cs)
theorem Node.ind_kids (P : Node → Prop) (h : ∀ k r cs, (∀ c ∈ cs, P c) → P (.mk k r cs)) :
    ∀ (cs : List Node), ∀ c ∈ cs, P c
  | [], _, hc => by cases hc
  | d :: ds, c, hc =>
    (List.mem_cons.mp hc).elim (fun e => e ▸ Node.ind_aux P h d) (fun h' => Node.ind_kids P h ds c h')
end

/-- structural induction on radix-tree nodes -/
theorem Node.ind {P : Node → Prop} (h : ∀ k r cs, (∀ c ∈ cs, P c) → P (.mk k r cs)) (n : Node) : P n :=
  Node.ind_aux P h n

/-- the first child whose key starts with the same byte as `toks` (what `getEdge` returns), with its siblings -/
def pickKid (toks : List Tok) : List Node → Option (List Node × Node × List Node)
  | [] => none
  | c :: cs =>
    if firstByte c.key = firstByte toks then some ([], c, cs)
    else (pickKid toks cs).map fun x => (c :: x.1, x.2.1, x.2.2)

theorem pick_some {toks : List Tok} : ∀ {cs pre c post}, pickKid toks cs = some (pre, c, post) →
    cs = pre ++ c :: post ∧ firstByte c.key = firstByte toks ∧ ∀ x ∈ pre, firstByte x.key ≠ firstByte toks
  | [], _, _, _, h => by simp [pickKid] at h
  | d :: ds, pre, c, post, h => by
    simp only [pickKid] at h
    split at h
    · simp only [Option.some.injEq, Prod.mk.injEq] at h
      obtain ⟨rfl, rfl, rfl⟩ := h
      exact ⟨rfl, ‹_›, by simp⟩
    · rename_i hne
      cases hp : pickKid toks ds with
      | none => rw [hp] at h; simp at h
      | some x =>
        obtain ⟨pre', c', post'⟩ := x
        rw [hp] at h
        simp only [Option.map_some, Option.some.injEq, Prod.mk.injEq] at h
        obtain ⟨rfl, rfl, rfl⟩ := h
        obtain ⟨h1, h2, h3⟩ := pick_some hp
        refine ⟨by rw [h1]; rfl, h2, ?_⟩
        intro x hx
        rcases List.mem_cons.mp hx with rfl | hx
        · exact hne
        · exact h3 x hx

theorem pick_none {toks : List Tok} : ∀ {cs}, pickKid toks cs = none → ∀ x ∈ cs, firstByte x.key ≠ firstByte toks
  | [], _ => by simp
  | d :: ds, h => by
    simp only [pickKid] at h
    split at h
    · simp at h
    · rename_i hne
      simp only [Option.map_eq_none_iff] at h
      intro x hx
      rcases List.mem_cons.mp hx with rfl | hx
      · exact hne
      · exact pick_none h x hx

theorem insertKids_pick (r : Route) (consumed d : Nat) (toks : List Tok) : ∀ cs : List Node,
    insertKids cs consumed d toks r =
      (match pickKid toks cs with
       | none => none
       | some (pre, c, post) =>
         some (match insertNode c false consumed d toks r with
               | .error e => .error e
               | .ok ⟨c', dep, cse⟩ => .ok (pre ++ c' :: post, dep, cse)))
  | [] => by simp [insertKids, pickKid]
  | c :: cs => by
    unfold insertKids
    simp only [pickKid]
    split
    · simp only [List.nil_append]
      cases insertNode c false consumed d toks r <;> rfl
    · rw [insertKids_pick r consumed d toks cs]
      cases hp : pickKid toks cs with
      | none => rfl
      | some x =>
        obtain ⟨pre, c', post⟩ := x
        simp only [Option.map_some, List.cons_append]
        cases insertNode c' false consumed d toks r <;> rfl

theorem updateKids_pick (r : Route) (toks : List Tok) : ∀ cs : List Node,
    updateKids cs toks r =
      (match pickKid toks cs with
       | none => none
       | some (pre, c, post) => (updateNode c toks r).map fun c' => pre ++ c' :: post)
  | [] => by simp [updateKids, pickKid]
  | c :: cs => by
    unfold updateKids
    simp only [pickKid]
    split
    · simp only [List.nil_append]
    · rw [updateKids_pick r toks cs]
      cases hp : pickKid toks cs with
      | none => rfl
      | some x =>
        obtain ⟨pre, c', post⟩ := x
        simp only [Option.map_some, List.cons_append, Option.map_map]
        rfl

theorem removeKids_pick (toks : List Tok) : ∀ (cs : List Node) (j : Nat),
    removeKids cs j toks =
      (match pickKid toks cs with
       | none => none
       | some (pre, c, _) => (removeNode c false toks).map fun x => (j + pre.length, x))
  | [], _ => by simp [removeKids, pickKid]
  | c :: cs, j => by
    unfold removeKids
    simp only [pickKid]
    split
    · simp only [List.length_nil, Nat.add_zero]
      cases removeNode c false toks with
      | none => rfl
      | some x => obtain ⟨a, b, c⟩ := x; rfl
    · rw [removeKids_pick toks cs (j + 1)]
      cases hp : pickKid toks cs with
      | none => rfl
      | some x =>
        obtain ⟨pre, c', post⟩ := x
        simp only [Option.map_some, List.length_cons]
        have : j + 1 + pre.length = j + (pre.length + 1) := by omega
        rw [this]

/-- on a well-formed child list `pickKid` selects the unique child of the same kind -/
theorem pick_kind {toks : List Tok} {cs pre post : List Node} {c : Node}
    (hwf : wfKids cs = true) (hnd : (kindsOf cs).Nodup) (hne : toks ≠ []) (hok : keyOk toks = true)
    (hp : pickKid toks cs = some (pre, c, post)) :
    kindOf c.key = kindOf toks ∧ (∀ x ∈ pre, kindOf x.key ≠ kindOf toks) ∧ (∀ x ∈ post, kindOf x.key ≠ kindOf toks) := by
  obtain ⟨rfl, hfb, hpre⟩ := pick_some hp
  rw [wfKids_eq_all, List.all_eq_true] at hwf
  have key : ∀ x ∈ pre ++ c :: post, (firstByte x.key = firstByte toks ↔ kindOf x.key = kindOf toks) := by
    intro x hx
    have hxw := hwf x hx
    obtain ⟨k, ro, ks⟩ := x
    rw [wfNode_iff] at hxw
    exact firstByte_eq_iff hxw.1 hne hxw.2.1 hok
  have hck := (key c (by simp)).mp hfb
  refine ⟨hck, fun x hx e => hpre x hx ((key x (by simp [hx])).mpr e), ?_⟩
  intro x hx e
  rw [kindsOf_eq_map, List.map_append, List.map_cons, List.nodup_append] at hnd
  have := (List.nodup_cons.mp hnd.2.1).1
  apply this
  rw [hck, ← e]
  exact List.mem_map_of_mem hx

theorem pick_none_kind {toks : List Tok} {cs : List Node}
    (hwf : wfKids cs = true) (hne : toks ≠ []) (hok : keyOk toks = true) (hp : pickKid toks cs = none) :
    ∀ x ∈ cs, kindOf x.key ≠ kindOf toks := by
  intro x hx e
  rw [wfKids_eq_all, List.all_eq_true] at hwf
  have hxw := hwf x hx
  obtain ⟨k, ro, ks⟩ := x
  rw [wfNode_iff] at hxw
  exact pick_none hp _ hx ((firstByte_eq_iff hxw.1 hne hxw.2.1 hok).mpr e)

/-- a suffix registered below a well-formed child list is found in the child that `pickKid` selects -/
theorem pick_of_mem {toks : List Tok} {cs : List Node} {x : Route}
    (hwf : wfKids cs = true) (hnd : (kindsOf cs).Nodup) (hok : keyOk toks = true)
    (hm : (toks, x) ∈ sufsKids cs) :
    ∃ pre c post, pickKid toks cs = some (pre, c, post) ∧ (toks, x) ∈ sufsNode c := by
  have hne : toks ≠ [] := sufsKids_ne_nil hwf _ hm
  rw [sufsKids_eq_flatMap] at hm
  obtain ⟨c0, hc0, hs⟩ := List.mem_flatMap.mp hm
  have hwf' := hwf
  rw [wfKids_eq_all, List.all_eq_true] at hwf'
  have hk0 : kindOf c0.key = kindOf toks := by
    have hcw := hwf' c0 hc0
    obtain ⟨k, ro, ks⟩ := c0
    rw [wfNode_iff] at hcw
    exact (sufs_kind hcw.1 _ hs).symm
  cases hp : pickKid toks cs with
  | none => exact absurd hk0 (pick_none_kind hwf hne hok hp c0 hc0)
  | some y =>
    obtain ⟨pre, c, post⟩ := y
    refine ⟨pre, c, post, rfl, ?_⟩
    obtain ⟨hck, hpre, hpost⟩ := pick_kind hwf hnd hne hok hp
    obtain ⟨rfl, _, _⟩ := pick_some hp
    rcases List.mem_append.mp hc0 with h | h
    · exact absurd hk0 (hpre c0 h)
    · rcases List.mem_cons.mp h with rfl | h
      · exact hs
      · exact absurd hk0 (hpost c0 h)

end Fox.Model

namespace Fox.Model
open Fox

/-! ### `updateNode` -/

theorem updateNode_inv {key : List Tok} {route : Option Route} {cs : List Node} {toks : List Tok} {r : Route}
    {n' : Node} (h : updateNode (.mk key route cs) toks r = some n') :
    (∃ old, toks = key ∧ route = some old ∧ n' = .mk key (some r) cs) ∨
    (∃ t ts pre c post c', toks = key ++ t :: ts ∧ pickKid (t :: ts) cs = some (pre, c, post) ∧
      updateNode c (t :: ts) r = some c' ∧ n' = .mk key route (pre ++ c' :: post)) := by
  obtain ⟨ka, ta, hk, ht, hd⟩ := cp_split key toks
  generalize commonPrefix key toks = p at hk ht
  subst hk ht
  cases ka with
  | cons a as => rw [updateNode_miss _ _ _ _ _ _ _ hd] at h; cases h
  | nil =>
    simp only [List.append_nil] at h ⊢
    rw [updateNode_hit] at h
    cases ta with
    | nil =>
      left
      cases route with
      | none => simp at h
      | some old => simp only [Option.some.injEq] at h; exact ⟨old, by simp, rfl, h.symm⟩
    | cons t ts =>
      right
      simp only [updateKids_pick] at h
      cases hp : pickKid (t :: ts) cs with
      | none => rw [hp] at h; simp at h
      | some x =>
        obtain ⟨pre, c, post⟩ := x
        rw [hp] at h
        simp only [Option.map_map] at h
        cases hu : updateNode c (t :: ts) r with
        | none => rw [hu] at h; simp at h
        | some c' =>
          rw [hu] at h
          simp only [Option.map_some, Option.some.injEq, Function.comp] at h
          exact ⟨t, ts, pre, c, post, c', rfl, hp, hu, h.symm⟩

theorem wf_updateNode (r : Route) (n : Node) : ∀ (toks : List Tok) (n' : Node), wfNode n = true →
    updateNode n toks r = some n' → wfNode n' = true ∧ n'.key = n.key := by
  induction n using Node.ind with
  | h key route cs ih =>
    intro toks n' hwf h
    rw [wfNode_iff] at hwf
    obtain ⟨hkne, hkok, hnd, hcatch, hkids⟩ := hwf
    rcases updateNode_inv h with ⟨old, rfl, rfl, rfl⟩ | ⟨t, ts, pre, c, post, c', rfl, hp, hu, rfl⟩
    · refine ⟨?_, rfl⟩
      rw [wfNode_iff]; exact ⟨hkne, hkok, hnd, fun hc => ⟨rfl, (hcatch hc).2⟩, hkids⟩
    · refine ⟨?_, rfl⟩
      obtain ⟨rfl, _, _⟩ := pick_some hp
      rw [wfKids_eq_all, List.all_eq_true] at hkids
      obtain ⟨hw', hk'⟩ := ih c (by simp) _ _ (hkids c (by simp)) hu
      have hkinds : kindsOf (pre ++ c' :: post) = kindsOf (pre ++ c :: post) := by
        simp only [kindsOf_eq_map, List.map_append, List.map_cons, hk']
      rw [wfNode_iff]
      refine ⟨hkne, hkok, hkinds ▸ hnd, fun hc => ⟨(hcatch hc).1, ?_⟩, ?_⟩
      · rw [allSlash_congr hkinds]; exact (hcatch hc).2
      · rw [wfKids_eq_all, List.all_eq_true]
        intro x hx
        rcases List.mem_append.mp hx with h1 | h1
        · exact hkids x (by simp [h1])
        · rcases List.mem_cons.mp h1 with rfl | h1
          · exact hw'
          · exact hkids x (by simp [h1])

/-- an update replaces the route of exactly one suffix-set entry, the one for `toks` -/
theorem sufs_updateNode (r : Route) (n : Node) : ∀ (toks : List Tok) (n' : Node),
    updateNode n toks r = some n' →
    ∃ old X, (sufsNode n).Perm ((toks, old) :: X) ∧ (sufsNode n').Perm ((toks, r) :: X) := by
  induction n using Node.ind with
  | h key route cs ih =>
    intro toks n' h
    rcases updateNode_inv h with ⟨old, rfl, rfl, rfl⟩ | ⟨t, ts, pre, c, post, c', rfl, hp, hu, rfl⟩
    · exact ⟨old, (sufsKids cs).map (pre toks), by simp [sufsNode_own, own], by simp [sufsNode_own, own]⟩
    · obtain ⟨rfl, _, _⟩ := pick_some hp
      obtain ⟨old, X, h1, h2⟩ := ih c (by simp) _ _ hu
      refine ⟨old, own key route ++ (sufsKids pre ++ X ++ sufsKids post).map (Fox.Model.pre key), ?_, ?_⟩
      · simp only [sufsNode_own, sufsKids_eq_flatMap, List.flatMap_append, List.flatMap_cons]
        simp only [← sufsKids_eq_flatMap]
        have : (sufsKids pre ++ (sufsNode c ++ sufsKids post)).Perm
            ((t :: ts, old) :: (sufsKids pre ++ X ++ sufsKids post)) := by
          refine ((List.Perm.append_left _ (h1.append_right _)).trans ?_)
          simp only [List.cons_append, List.append_assoc]
          exact List.perm_middle
        refine (List.Perm.append_left _ (this.map _)).trans ?_
        simp only [List.map_cons]
        exact List.perm_middle
      · simp only [sufsNode_own, sufsKids_eq_flatMap, List.flatMap_append, List.flatMap_cons]
        simp only [← sufsKids_eq_flatMap]
        have : (sufsKids pre ++ (sufsNode c' ++ sufsKids post)).Perm
            ((t :: ts, r) :: (sufsKids pre ++ X ++ sufsKids post)) := by
          refine ((List.Perm.append_left _ (h2.append_right _)).trans ?_)
          simp only [List.cons_append, List.append_assoc]
          exact List.perm_middle
        refine (List.Perm.append_left _ (this.map _)).trans ?_
        simp only [List.map_cons]
        exact List.perm_middle

/-- a registered suffix is found by `updateNode` -/
theorem found_updateNode (r : Route) (n : Node) : ∀ (toks : List Tok) (x : Route), wfNode n = true →
    keyOk toks = true → (toks, x) ∈ sufsNode n → (updateNode n toks r).isSome = true := by
  induction n using Node.ind with
  | h key route cs ih =>
    intro toks x hwf hok hm
    rw [wfNode_iff] at hwf
    obtain ⟨hkne, hkok, hnd, hcatch, hkids⟩ := hwf
    rw [sufsNode_own] at hm
    rcases List.mem_append.mp hm with hm | hm
    · cases route with
      | none => simp [own] at hm
      | some old =>
        simp only [own, List.mem_singleton, Prod.mk.injEq] at hm
        obtain ⟨rfl, rfl⟩ := hm
        have := updateNode_hit toks [] (some x) cs r
        simp only [List.append_nil] at this
        rw [this]; rfl
    · obtain ⟨sr, hsr, he⟩ := List.mem_map.mp hm
      obtain ⟨s, x'⟩ := sr
      simp only [pre, Prod.mk.injEq] at he
      obtain ⟨rfl, rfl⟩ := he
      have hsne : s ≠ [] := sufsKids_ne_nil hkids _ hsr
      have hoks : keyOk s = true := keyOk_append_right key s hok
      obtain ⟨pre, c, post, hp, hmc⟩ := pick_of_mem hkids hnd hoks hsr
      obtain ⟨rfl, _, _⟩ := pick_some hp
      rw [wfKids_eq_all, List.all_eq_true] at hkids
      have ihc := ih c (by simp) s x' (hkids c (by simp)) hoks hmc
      rw [updateNode_hit]
      cases s with
      | nil => exact absurd rfl hsne
      | cons t ts =>
        simp only [updateKids_pick, hp]
        cases hu : updateNode c (t :: ts) r with
        | none => rw [hu] at ihc; cases ihc
        | some c' => rfl


/-! ### `removeNode` -/

theorem set_mid (pre : List Node) (c c' : Node) (post : List Node) :
    (pre ++ c :: post).set pre.length c' = pre ++ c' :: post := by
  induction pre with
  | nil => rfl
  | cons x xs ih => simp [ih]

theorem erase_mid (pre : List Node) (c : Node) (post : List Node) :
    (pre ++ c :: post).eraseIdx pre.length = pre ++ post := by
  induction pre with
  | nil => rfl
  | cons x xs ih => simp [ih]

/-- how a node absorbs the result of a removal below its child `c` (siblings `pre`, `post`) -/
def remUp (key : List Tok) (route : Option Route) (isRoot : Bool) (pre post : List Node)
    (resc : Rem) (cse : RemCase) : Rem × RemCase :=
  match resc with
  | .replaced c' => (.replaced (.mk key route (pre ++ c' :: post)), cse)
  | .vanished =>
    if (pre ++ post).isEmpty && route.isNone && !isRoot then (.vanishedHost, .dropHost)
    else
      (match pre ++ post with
       | [e] =>
         if route.isNone && !isRoot then (.replaced (.mk (key ++ e.key) e.route e.children), .mergeParent)
         else (.replaced (newNode key route (pre ++ post)), cse)
       | _ => (.replaced (newNode key route (pre ++ post)), cse))
  | .vanishedHost =>
    (match pre ++ post with
     | [e] =>
       if route.isNone && !startsWithSlash e.key && !isRoot then
         (.replaced (.mk (key ++ e.key) e.route e.children), .mergeGrandParent)
       else (.replaced (newNode key route (pre ++ post)), cse)
     | _ => (.replaced (newNode key route (pre ++ post)), cse))

theorem removeNode_descend {key : List Tok} {route : Option Route} {cs : List Node} {isRoot : Bool}
    {t : Tok} {ts : List Tok} {pre post : List Node} {c : Node}
    (hp : pickKid (t :: ts) cs = some (pre, c, post)) :
    removeNode (.mk key route cs) isRoot (key ++ t :: ts) =
      (removeNode c false (t :: ts)).map fun x =>
        ((remUp key route isRoot pre post x.1 x.2.2).1, x.2.1, (remUp key route isRoot pre post x.1 x.2.2).2) := by
  obtain ⟨rfl, _, _⟩ := pick_some hp
  rw [removeNode_hit_cons, removeKids_pick, hp]
  simp only [Nat.zero_add]
  cases hr : removeNode c false (t :: ts) with
  | none => rfl
  | some x =>
    obtain ⟨resc, r, cse⟩ := x
    simp only [Option.map_some, removeFrom, set_mid, erase_mid, remUp]
    cases resc with
    | replaced c' => rfl
    | vanished =>
      simp only []
      split
      · rfl
      · generalize pre ++ post = edges
        rcases edges with _ | ⟨e, _ | ⟨e2, es⟩⟩
        · rfl
        · simp only []; split <;> rfl
        · rfl
    | vanishedHost =>
      simp only []
      generalize pre ++ post = edges
      rcases edges with _ | ⟨e, _ | ⟨e2, es⟩⟩
      · rfl
      · simp only []; split <;> rfl
      · rfl

/-- what the node itself becomes when its own route is removed -/
def remHere (key : List Tok) (cs : List Node) : Rem :=
  match cs with
  | [] => .vanished
  | [c] => .replaced (.mk (key ++ c.key) c.route c.children)
  | _ => .replaced (.mk key none cs)

theorem removeNode_inv {key : List Tok} {route : Option Route} {cs : List Node} {isRoot : Bool}
    {toks : List Tok} {res : Rem} {r : Route} {cse : RemCase}
    (h : removeNode (.mk key route cs) isRoot toks = some (res, r, cse)) :
    (toks = key ∧ route = some r ∧ res = remHere key cs) ∨
    (∃ t ts pre c post resc csec, toks = key ++ t :: ts ∧ pickKid (t :: ts) cs = some (pre, c, post) ∧
      removeNode c false (t :: ts) = some (resc, r, csec) ∧ res = (remUp key route isRoot pre post resc csec).1) := by
  obtain ⟨ka, ta, hk, ht, hd⟩ := cp_split key toks
  generalize commonPrefix key toks = p at hk ht
  subst hk ht
  cases ka with
  | cons a as => rw [removeNode_miss _ _ _ _ _ _ _ hd] at h; cases h
  | nil =>
    simp only [List.append_nil] at h ⊢
    cases ta with
    | nil =>
      left
      simp only [List.append_nil] at h ⊢
      rw [removeNode_hit_nil] at h
      cases route with
      | none => simp at h
      | some old =>
        simp only [] at h
        rcases cs with _ | ⟨c, _ | ⟨c2, cs⟩⟩ <;>
          simp only [Option.some.injEq, Prod.mk.injEq] at h <;>
          obtain ⟨rfl, rfl, rfl⟩ := h <;> (first | exact ⟨trivial, rfl, rfl⟩ | exact ⟨rfl, rfl, rfl⟩)
    | cons t ts =>
      right
      cases hp : pickKid (t :: ts) cs with
      | none =>
        rw [removeNode_hit_cons, removeKids_pick, hp] at h; simp at h
      | some x =>
        obtain ⟨pre, c, post⟩ := x
        rw [removeNode_descend hp] at h
        cases hr : removeNode c false (t :: ts) with
        | none => rw [hr] at h; simp at h
        | some y =>
          obtain ⟨resc, r', csec⟩ := y
          rw [hr] at h
          simp only [Option.map_some, Option.some.injEq, Prod.mk.injEq] at h
          obtain ⟨rfl, rfl, rfl⟩ := h
          exact ⟨t, ts, pre, c, post, resc, csec, rfl, hp, hr, rfl⟩

/-- invariant of a node in the role it plays: method root or inner node -/
def wfN (isRoot : Bool) (n : Node) : Bool := if isRoot then wfRoot n else wfNode n

theorem wfRoot_iff (k : List Tok) (r : Option Route) (cs : List Node) : wfRoot (.mk k r cs) = true ↔
    k = [] ∧ r = none ∧ (kindsOf cs).Nodup ∧ wfKids cs = true := by
  simp only [wfRoot, Node.key_mk, Node.route_mk, Node.children_mk, Bool.and_eq_true, List.isEmpty_iff,
    Option.isNone_iff_eq_none, nodupB_iff, and_assoc]

theorem allSlash_nodup_le_one {cs : List Node} (h1 : allSlash cs = true) (h2 : (kindsOf cs).Nodup) :
    cs.length ≤ 1 := by
  rw [allSlash_iff_kinds] at h1
  rcases cs with _ | ⟨c, _ | ⟨c2, cs⟩⟩
  · simp
  · simp
  · exfalso
    simp only [kindsOf_eq_map, List.map_cons, List.mem_cons, forall_eq_or_imp, List.nodup_cons, not_or] at h1 h2
    exact h2.1.1 (h1.1.trans h1.2.1.symm)

theorem wfKids_mem {cs : List Node} (h : wfKids cs = true) {c : Node} (hc : c ∈ cs) : wfNode c = true := by
  rw [wfKids_eq_all, List.all_eq_true] at h; exact h c hc

theorem wfKids_of_forall {cs : List Node} (h : ∀ c ∈ cs, wfNode c = true) : wfKids cs = true := by
  rw [wfKids_eq_all, List.all_eq_true]; exact h

/-- merging a node into its only remaining child -/
theorem wf_merge {key : List Tok} {e : Node} (hkne : key ≠ []) (hkok : keyOk key = true)
    (hcatch : endsWithCatchAll key = true → startsWithSlash e.key = true) (he : wfNode e = true) :
    wfNode (.mk (key ++ e.key) e.route e.children) = true := by
  obtain ⟨k, ro, ks⟩ := e
  rw [wfNode_iff] at he
  simp only [Node.key_mk, Node.route_mk, Node.children_mk] at hcatch ⊢
  rw [wfNode_iff]
  refine ⟨by simp [hkne], keyOk_append _ _ hkok he.2.1 (fun h _ => hcatch h), he.2.2.1, ?_, he.2.2.2.2⟩
  rw [endsWithCatchAll_append _ he.1]; exact he.2.2.2.1

theorem wf_removeNode (n : Node) : ∀ (isRoot : Bool) (toks : List Tok) (res : Rem) (r : Route) (cse : RemCase),
    wfN isRoot n = true → removeNode n isRoot toks = some (res, r, cse) →
    ∀ n', res = .replaced n' → wfN isRoot n' = true ∧ (isRoot = false → kindOf n'.key = kindOf n.key) := by
  induction n using Node.ind with
  | h key route cs ih =>
    intro isRoot toks res r cse hwf h n' hres
    have hnd : (kindsOf cs).Nodup := by
      cases isRoot
      · exact ((wfNode_iff _ _ _).mp hwf).2.2.1
      · exact ((wfRoot_iff _ _ _).mp hwf).2.2.1
    have hkids : wfKids cs = true := by
      cases isRoot
      · exact ((wfNode_iff _ _ _).mp hwf).2.2.2.2
      · exact ((wfRoot_iff _ _ _).mp hwf).2.2.2
    -- rebuilding the node over a sub-multiset of its children with the same route
    have hsub : ∀ ds : List Node, (kindsOf ds).Sublist (kindsOf cs) → (∀ d ∈ ds, wfNode d = true) →
        wfN isRoot (newNode key route ds) = true ∧ wfN isRoot (.mk key route ds) = true := by
      intro ds hs hd
      have hnd' : (kindsOf ds).Nodup := hnd.sublist hs
      have hall : allSlash cs = true → allSlash ds = true := by
        rw [allSlash_iff_kinds, allSlash_iff_kinds]; exact fun H k hk => H k (hs.subset hk)
      cases isRoot
      · obtain ⟨a, b, _, d, _⟩ := (wfNode_iff _ _ _).mp hwf
        have : wfNode (.mk key route ds) = true := by
          rw [wfNode_iff]; exact ⟨a, b, hnd', fun hc => ⟨(d hc).1, hall (d hc).2⟩, wfKids_of_forall hd⟩
        exact ⟨by simp only [wfN, Bool.false_eq_true, if_false, wfNode_newNode]; exact this,
               by simpa [wfN] using this⟩
      · obtain ⟨a, b, _, _⟩ := (wfRoot_iff _ _ _).mp hwf
        have : wfRoot (.mk key route ds) = true := by
          rw [wfRoot_iff]; exact ⟨a, b, hnd', wfKids_of_forall hd⟩
        refine ⟨?_, by simpa [wfN] using this⟩
        simp only [wfN, if_true, newNode, wfRoot_iff]
        exact ⟨a, b, (kindsOf_sortKids ds).nodup_iff.mpr hnd',
          by rw [wfKids_perm (sortKids_perm ds)]; exact wfKids_of_forall hd⟩
    rcases removeNode_inv h with ⟨rfl, rfl, rfl⟩ | ⟨t, ts, pre, c, post, resc, csec, rfl, hp, hr, rfl⟩
    · -- the node's own route
      have hir : isRoot = false := by
        cases isRoot
        · rfl
        · obtain ⟨_, b, _⟩ := (wfRoot_iff _ _ _).mp hwf; cases b
      subst hir
      obtain ⟨a, b, _, d, _⟩ := (wfNode_iff _ _ _).mp hwf
      rcases cs with _ | ⟨c, _ | ⟨c2, cs⟩⟩
      · cases hres
      · simp only [remHere, Rem.replaced.injEq] at hres; subst hres
        have hcw := wfKids_mem hkids (c := c) (by simp)
        refine ⟨?_, fun _ => ?_⟩
        · simp only [wfN, Bool.false_eq_true, if_false]
          apply wf_merge a b _ hcw
          intro hc; have := (d hc).2
          simpa [allSlash_eq_all] using this
        · exact kindOf_append _ a
      · simp only [remHere, Rem.replaced.injEq] at hres; subst hres
        refine ⟨?_, fun _ => rfl⟩
        simp only [wfN, Bool.false_eq_true, if_false, wfNode_iff]
        refine ⟨a, b, hnd, ?_, hkids⟩
        intro hc
        have := allSlash_nodup_le_one (d hc).2 hnd
        simp at this
    · -- below a child
      obtain ⟨rfl, _, _⟩ := pick_some hp
      have hcw := wfKids_mem hkids (c := c) (by simp)
      have hsubl : (kindsOf (pre ++ post)).Sublist (kindsOf (pre ++ c :: post)) := by
        simp only [kindsOf_eq_map]
        exact (List.Sublist.append_left (List.sublist_cons_self c post) pre).map _
      have hsubw : ∀ d ∈ pre ++ post, wfNode d = true := by
        intro d hd; apply wfKids_mem hkids
        rcases List.mem_append.mp hd with h1 | h1 <;> simp [h1]
      have hmerge : ∀ e : Node, pre ++ post = [e] → route = none → isRoot = false →
          wfN isRoot (.mk (key ++ e.key) e.route e.children) = true ∧
            (isRoot = false → kindOf (key ++ e.key) = kindOf key) := by
        intro e he hro hir
        subst hir
        obtain ⟨a, b, _, d, _⟩ := (wfNode_iff _ _ _).mp hwf
        refine ⟨?_, fun _ => kindOf_append _ a⟩
        simp only [wfN, Bool.false_eq_true, if_false]
        apply wf_merge a b _ (hsubw e (by rw [he]; simp))
        intro hc; have := (d hc).1; rw [hro] at this; cases this
      have hkeep : (isRoot = false → kindOf (newNode key route (pre ++ post)).key = kindOf key) := fun _ => rfl
      cases resc with
      | replaced c' =>
        simp only [remUp, Rem.replaced.injEq] at hres; subst hres
        obtain ⟨hw', hk'⟩ := ih c (by simp) false _ _ _ _ hcw hr c' rfl
        have hk' := hk' rfl
        simp only [wfN, Bool.false_eq_true, if_false] at hw'
        have hkinds : kindsOf (pre ++ c' :: post) = kindsOf (pre ++ c :: post) := by
          simp only [kindsOf_eq_map, List.map_append, List.map_cons, hk']
        refine ⟨(hsub (pre ++ c' :: post) (by rw [hkinds]; exact List.Sublist.refl _) ?_).2, fun _ => rfl⟩
        intro x hx
        rcases List.mem_append.mp hx with h1 | h1
        · exact wfKids_mem hkids (by simp [h1])
        · rcases List.mem_cons.mp h1 with rfl | h1
          · exact hw'
          · exact wfKids_mem hkids (by simp [h1])
      | vanished =>
        simp only [remUp] at hres
        split at hres
        · cases hres
        · split at hres
          · rename_i e he
            split at hres
            · rename_i hcond
              simp only [Rem.replaced.injEq] at hres; subst hres
              simp only [Bool.and_eq_true, Option.isNone_iff_eq_none, Bool.not_eq_true'] at hcond
              exact hmerge e he hcond.1 hcond.2
            · simp only [Rem.replaced.injEq] at hres; subst hres
              exact ⟨(hsub _ hsubl hsubw).1, hkeep⟩
          · simp only [Rem.replaced.injEq] at hres; subst hres
            exact ⟨(hsub _ hsubl hsubw).1, hkeep⟩
      | vanishedHost =>
        simp only [remUp] at hres
        split at hres
        · rename_i e he
          split at hres
          · rename_i hcond
            simp only [Rem.replaced.injEq] at hres; subst hres
            simp only [Bool.and_eq_true, Option.isNone_iff_eq_none, Bool.not_eq_true'] at hcond
            exact hmerge e he hcond.1.1 hcond.2
          · simp only [Rem.replaced.injEq] at hres; subst hres
            exact ⟨(hsub _ hsubl hsubw).1, hkeep⟩
        · simp only [Rem.replaced.injEq] at hres; subst hres
          exact ⟨(hsub _ hsubl hsubw).1, hkeep⟩


/-- suffix set of what is left after a removal -/
def sufsRem : Rem → Spec.SufSet
  | .replaced n => sufsNode n
  | _ => []

theorem sufsKids_append (a b : List Node) : sufsKids (a ++ b) = sufsKids a ++ sufsKids b := by
  simp [sufsKids_eq_flatMap]

theorem sufsKids_cons (c : Node) (cs : List Node) : sufsKids (c :: cs) = sufsNode c ++ sufsKids cs := by
  simp [sufsKids]

theorem sufsNode_eta (key : List Tok) (e : Node) :
    sufsNode (.mk (key ++ e.key) e.route e.children) = (sufsNode e).map (pre key) := by
  obtain ⟨k, ro, ks⟩ := e
  simp only [Node.key_mk, Node.route_mk, Node.children_mk, sufs_lower]

/-- the cases of `remUp` -/
theorem remUp_cases (key : List Tok) (route : Option Route) (isRoot : Bool) (pre post : List Node)
    (resc : Rem) (cse : RemCase) :
    (∃ c', resc = .replaced c' ∧
      (remUp key route isRoot pre post resc cse).1 = .replaced (.mk key route (pre ++ c' :: post))) ∨
    (resc = .vanished ∧ pre ++ post = [] ∧ route = none ∧ isRoot = false ∧
      (remUp key route isRoot pre post resc cse).1 = .vanishedHost) ∨
    (∃ e, pre ++ post = [e] ∧ route = none ∧ isRoot = false ∧
      (resc = .vanished ∨ (resc = .vanishedHost ∧ startsWithSlash e.key = false)) ∧
      (remUp key route isRoot pre post resc cse).1 = .replaced (.mk (key ++ e.key) e.route e.children)) ∨
    ((remUp key route isRoot pre post resc cse).1 = .replaced (newNode key route (pre ++ post)) ∧
      ((resc = .vanished ∧ ¬(route = none ∧ isRoot = false ∧ (pre ++ post).length ≤ 1)) ∨
       (resc = .vanishedHost ∧ ¬(route = none ∧ isRoot = false ∧ ∃ e, pre ++ post = [e] ∧ startsWithSlash e.key = false)))) := by
  cases resc with
  | replaced c' => left; exact ⟨c', rfl, rfl⟩
  | vanished =>
    right
    rcases hedges : pre ++ post with _ | ⟨e, _ | ⟨e2, es⟩⟩
    · by_cases hc : route = none ∧ isRoot = false
      · left; obtain ⟨rfl, rfl⟩ := hc; simp [remUp, hedges]
      · right; right
        refine ⟨?_, Or.inl ⟨rfl, fun h => hc ⟨h.1, h.2.1⟩⟩⟩
        have : ((([] : List Node).isEmpty && route.isNone && !isRoot) = true) = False := by
          simp only [List.isEmpty_nil, Bool.true_and, Bool.and_eq_true, Option.isNone_iff_eq_none,
            Bool.not_eq_true', eq_iff_iff, iff_false]
          exact hc
        simp only [remUp, hedges, this, if_false]
    · right
      by_cases hc : route = none ∧ isRoot = false
      · left; obtain ⟨rfl, rfl⟩ := hc; exact ⟨e, rfl, rfl, rfl, Or.inl rfl, by simp [remUp, hedges]⟩
      · right
        refine ⟨?_, Or.inl ⟨rfl, fun h => hc ⟨h.1, h.2.1⟩⟩⟩
        have : ((route.isNone && !isRoot) = true) = False := by
          simp only [Bool.and_eq_true, Option.isNone_iff_eq_none, Bool.not_eq_true', eq_iff_iff, iff_false]
          exact hc
        simp [remUp, hedges, this]
    · right; right
      exact ⟨by simp [remUp, hedges], Or.inl ⟨rfl, by simp⟩⟩
  | vanishedHost =>
    right; right
    rcases hedges : pre ++ post with _ | ⟨e, _ | ⟨e2, es⟩⟩
    · right; exact ⟨by simp [remUp, hedges], Or.inr ⟨rfl, by simp⟩⟩
    · by_cases hc : route = none ∧ startsWithSlash e.key = false ∧ isRoot = false
      · left; obtain ⟨rfl, hs, rfl⟩ := hc
        exact ⟨e, rfl, rfl, rfl, Or.inr ⟨rfl, hs⟩, by simp [remUp, hedges, hs]⟩
      · right
        refine ⟨?_, Or.inr ⟨rfl, ?_⟩⟩
        · have : ((route.isNone && !startsWithSlash e.key && !isRoot) = true) = False := by
            simp only [Bool.and_eq_true, Option.isNone_iff_eq_none, Bool.not_eq_true', eq_iff_iff, iff_false,
              and_assoc]
            exact hc
          simp [remUp, hedges, this]
        · rintro ⟨h1, h2, e', he', hs⟩
          simp only [List.cons.injEq, and_true] at he'; subst he'
          exact hc ⟨h1, hs, h2⟩
    · right; exact ⟨by simp [remUp, hedges], Or.inr ⟨rfl, by simp⟩⟩

theorem sufs_remUp {key : List Tok} {route : Option Route} {isRoot : Bool} {pre post : List Node} {c : Node}
    {resc : Rem} {cse : RemCase} {ts' : List Tok} {r : Route}
    (hc : (sufsNode c).Perm ((ts', r) :: sufsRem resc)) :
    (sufsNode (.mk key route (pre ++ c :: post))).Perm
      ((key ++ ts', r) :: sufsRem (remUp key route isRoot pre post resc cse).1) := by
  have h1 : (sufsNode (.mk key route (pre ++ c :: post))).Perm
      ((key ++ ts', r) :: (own key route ++ (sufsRem resc ++ sufsKids (pre ++ post)).map (Fox.Model.pre key))) := by
    simp only [sufsNode_own, sufsKids_append, sufsKids_cons]
    have : (sufsKids pre ++ (sufsNode c ++ sufsKids post)).Perm
        ((ts', r) :: (sufsRem resc ++ (sufsKids pre ++ sufsKids post))) := by
      refine (List.Perm.append_left _ (hc.append_right _)).trans ?_
      simp only [List.cons_append]
      refine List.perm_middle.trans (List.Perm.cons _ ?_)
      simp only [← List.append_assoc]
      exact List.Perm.append_right _ List.perm_append_comm
    refine (List.Perm.append_left _ (this.map _)).trans ?_
    simp only [List.map_cons]
    exact List.perm_middle
  refine h1.trans (List.Perm.cons _ ?_)
  rcases remUp_cases key route isRoot pre post resc cse with
    ⟨c', rfl, he⟩ | ⟨rfl, hed, rfl, rfl, he⟩ | ⟨e, hed, rfl, rfl, hor, he⟩ | ⟨he, hor⟩
  · rw [he]
    simp only [sufsRem, sufsNode_own, sufsKids_append, sufsKids_cons]
    refine List.Perm.append_left _ (List.Perm.map _ ?_)
    simp only [← List.append_assoc]
    exact List.Perm.append_right _ List.perm_append_comm
  · rw [he, hed]; simp [own, sufsKids, sufsRem]
  · have hr : sufsRem resc = [] := by rcases hor with rfl | ⟨rfl, _⟩ <;> rfl
    rw [he, hed, hr]
    simp only [sufsRem, sufsNode_eta]
    simp [own, sufsKids]
  · have hr : sufsRem resc = [] := by rcases hor with ⟨rfl, _⟩ | ⟨rfl, _⟩ <;> rfl
    rw [he, hr]
    simp only [sufsRem, List.nil_append]
    refine List.Perm.symm ((sufsNode_newNode _ _ _).trans ?_)
    rw [sufsNode_own]

/-- a removal takes exactly one entry, the one for `toks`, out of the suffix set -/
theorem sufs_removeNode (n : Node) : ∀ (isRoot : Bool) (toks : List Tok) (res : Rem) (r : Route) (cse : RemCase),
    removeNode n isRoot toks = some (res, r, cse) → (sufsNode n).Perm ((toks, r) :: sufsRem res) := by
  induction n using Node.ind with
  | h key route cs ih =>
    intro isRoot toks res r cse h
    rcases removeNode_inv h with ⟨rfl, rfl, rfl⟩ | ⟨t, ts, pre, c, post, resc, csec, rfl, hp, hr, rfl⟩
    · rcases cs with _ | ⟨c, _ | ⟨c2, cs⟩⟩
      · simp [remHere, sufsRem, sufsNode_own, own, sufsKids]
      · simp only [remHere, sufsRem, sufsNode_eta]
        simp [sufsNode_own toks, own, sufsKids]
      · simp [remHere, sufsRem, sufsNode_own, own]
    · obtain ⟨rfl, _, _⟩ := pick_some hp
      exact sufs_remUp (ih c (by simp) false _ _ _ _ hr)

/-- a registered suffix is found by `removeNode` -/
theorem found_removeNode (n : Node) : ∀ (isRoot : Bool) (toks : List Tok) (x : Route), wfN isRoot n = true →
    keyOk toks = true → (toks, x) ∈ sufsNode n → (removeNode n isRoot toks).isSome = true := by
  induction n using Node.ind with
  | h key route cs ih =>
    intro isRoot toks x hwf hok hm
    have hnd : (kindsOf cs).Nodup := by
      cases isRoot
      · exact ((wfNode_iff _ _ _).mp hwf).2.2.1
      · exact ((wfRoot_iff _ _ _).mp hwf).2.2.1
    have hkids : wfKids cs = true := by
      cases isRoot
      · exact ((wfNode_iff _ _ _).mp hwf).2.2.2.2
      · exact ((wfRoot_iff _ _ _).mp hwf).2.2.2
    rw [sufsNode_own] at hm
    rcases List.mem_append.mp hm with hm | hm
    · cases route with
      | none => simp [own] at hm
      | some old =>
        simp only [own, List.mem_singleton, Prod.mk.injEq] at hm
        obtain ⟨rfl, rfl⟩ := hm
        rw [removeNode_hit_nil]
        rcases cs with _ | ⟨c, _ | ⟨c2, cs⟩⟩ <;> rfl
    · obtain ⟨sr, hsr, he⟩ := List.mem_map.mp hm
      obtain ⟨s, x'⟩ := sr
      simp only [pre, Prod.mk.injEq] at he
      obtain ⟨rfl, rfl⟩ := he
      have hsne : s ≠ [] := sufsKids_ne_nil hkids _ hsr
      have hoks : keyOk s = true := keyOk_append_right key s hok
      obtain ⟨pre, c, post, hp, hmc⟩ := pick_of_mem hkids hnd hoks hsr
      cases s with
      | nil => exact absurd rfl hsne
      | cons t ts =>
        rw [removeNode_descend hp]
        obtain ⟨rfl, _, _⟩ := pick_some hp
        have ihc := ih c (by simp) false (t :: ts) x' (by simpa [wfN] using wfKids_mem hkids (c := c) (by simp)) hoks hmc
        cases hr : removeNode c false (t :: ts) with
        | none => rw [hr] at ihc; cases ihc
        | some y => rfl

end Fox.Model

namespace Fox.Model
open Fox

/-! ### `insertNode`: inversion -/

theorem insertNode_ok_inv {key : List Tok} {route : Option Route} {cs : List Node} {isRoot : Bool}
    {consumed d : Nat} {toks : List Tok} {r : Route} {res : InsOk}
    (h : insertNode (.mk key route cs) isRoot consumed d toks r = .ok res) :
    (toks = key ∧ route = none ∧ res.node = .mk key (some r) cs) ∨
    (∃ a as, key = toks ++ a :: as ∧ res.node = newNode toks (some r) [.mk (a :: as) route cs]) ∨
    (∃ t ts pre c post cres, toks = key ++ t :: ts ∧ pickKid (t :: ts) cs = some (pre, c, post) ∧
      insertNode c false (consumed + key.length) (d + 1) (t :: ts) r = .ok cres ∧
      res.node = .mk key route (pre ++ cres.node :: post)) ∨
    (∃ t ts, toks = key ++ t :: ts ∧ pickKid (t :: ts) cs = none ∧
      res.node = newNode key route (cs ++ [(newLeaf r (consumed + key.length) (t :: ts)).1])) ∨
    (∃ p a as b bs, key = p ++ a :: as ∧ toks = p ++ b :: bs ∧ a ≠ b ∧ isRoot = false ∧ isWildSame a b = false ∧
      res.node = newNode p none [(newLeaf r (consumed + p.length) (b :: bs)).1, .mk (a :: as) route cs]) := by
  obtain ⟨ka, ta, hk, ht, hd⟩ := cp_split key toks
  generalize commonPrefix key toks = p at hk ht
  subst hk ht
  cases ka with
  | nil =>
    simp only [List.append_nil] at h ⊢
    cases ta with
    | nil =>
      simp only [List.append_nil] at h ⊢
      rw [insertNode_exact] at h
      cases route with
      | some e => simp at h
      | none => simp only [Except.ok.injEq] at h; subst h; exact Or.inl ⟨by simp, rfl, rfl⟩
    | cons t ts =>
      rw [insertNode_descend, insertKids_pick] at h
      cases hp : pickKid (t :: ts) cs with
      | none =>
        rw [hp] at h; simp only [Except.ok.injEq] at h; subst h
        exact Or.inr (Or.inr (Or.inr (Or.inl ⟨t, ts, rfl, hp, rfl⟩)))
      | some x =>
        obtain ⟨pre, c, post⟩ := x
        rw [hp] at h
        simp only [] at h
        cases hi : insertNode c false (consumed + p.length) (d + 1) (t :: ts) r with
        | error e => rw [hi] at h; simp at h
        | ok cres =>
          rw [hi] at h
          obtain ⟨c', dep, cse⟩ := cres
          simp only [Except.ok.injEq] at h; subst h
          exact Or.inr (Or.inr (Or.inl ⟨t, ts, pre, c, post, _, rfl, hp, hi, rfl⟩))
  | cons a as =>
    cases ta with
    | nil =>
      simp only [List.append_nil] at h ⊢
      rw [insertNode_keyEnd] at h
      simp only [Except.ok.injEq] at h; subst h
      exact Or.inr (Or.inl ⟨a, as, rfl, rfl⟩)
    | cons b bs =>
      simp only [HeadsDiffer] at hd
      rw [insertNode_split _ _ _ _ _ _ _ _ _ _ _ hd] at h
      cases isRoot with
      | true => simp at h
      | false =>
        cases hw : isWildSame a b with
        | true => simp [hw] at h
        | false =>
          simp only [hw, Bool.false_eq_true, if_false, Except.ok.injEq] at h; subst h
          exact Or.inr (Or.inr (Or.inr (Or.inr ⟨p, a, as, b, bs, rfl, rfl, hd, rfl, hw, rfl⟩)))

theorem insertNode_err_inv {key : List Tok} {route : Option Route} {cs : List Node}
    {consumed d : Nat} {toks : List Tok} {r : Route} {e : InsErr}
    (h : insertNode (.mk key route cs) false consumed d toks r = .error e) :
    (∃ x, toks = key ∧ route = some x ∧ e = .exist x) ∨
    (∃ t ts pre c post, toks = key ++ t :: ts ∧ pickKid (t :: ts) cs = some (pre, c, post) ∧
      insertNode c false (consumed + key.length) (d + 1) (t :: ts) r = .error e) ∨
    (e = .conflict (routesNode (.mk key route cs))) := by
  obtain ⟨ka, ta, hk, ht, hd⟩ := cp_split key toks
  generalize commonPrefix key toks = p at hk ht
  subst hk ht
  cases ka with
  | nil =>
    simp only [List.append_nil] at h ⊢
    cases ta with
    | nil =>
      simp only [List.append_nil] at h ⊢
      rw [insertNode_exact] at h
      cases route with
      | some x => simp only [Except.error.injEq] at h; exact Or.inl ⟨x, by simp, rfl, h.symm⟩
      | none => simp at h
    | cons t ts =>
      rw [insertNode_descend, insertKids_pick] at h
      cases hp : pickKid (t :: ts) cs with
      | none => rw [hp] at h; simp at h
      | some x =>
        obtain ⟨pre, c, post⟩ := x
        rw [hp] at h
        simp only [] at h
        cases hi : insertNode c false (consumed + p.length) (d + 1) (t :: ts) r with
        | error e' =>
          rw [hi] at h; simp only [Except.error.injEq] at h; subst h
          exact Or.inr (Or.inl ⟨t, ts, pre, c, post, rfl, hp, hi⟩)
        | ok cres => rw [hi] at h; obtain ⟨c', dep, cse⟩ := cres; simp at h
  | cons a as =>
    cases ta with
    | nil =>
      simp only [List.append_nil] at h
      rw [insertNode_keyEnd] at h; simp at h
    | cons b bs =>
      simp only [HeadsDiffer] at hd
      rw [insertNode_split _ _ _ _ _ _ _ _ _ _ _ hd] at h
      cases hw : isWildSame a b with
      | true => simp only [hw, Bool.false_eq_true, if_false, if_true, Except.error.injEq] at h; exact Or.inr (Or.inr h.symm)
      | false => simp [hw] at h

/-! ### the shape invariant: hostname region, path region, no dead branches -/

mutual
/-- path region: every node carries a route or branches -/
def pathNode : Node → Bool
  | .mk _ r cs => (r.isSome || decide (2 ≤ cs.length)) && pathKids cs
def pathKids : List Node → Bool
  | [] => true
  | c :: cs => pathNode c && pathKids cs
end

mutual
/-- a node reached from a method root through keys without '/': either it starts the path part (then it and
    everything below is in the path region), or it is part of a hostname: no '/', no route, and it branches
    or has the path part as its only child -/
def shapeNode : Node → Bool
  | .mk k r cs =>
    if startsWithSlash k then (r.isSome || decide (2 ≤ cs.length)) && pathKids cs
    else noSlashTok k && r.isNone && (decide (2 ≤ cs.length) || (cs.length == 1 && allSlash cs)) && shapeKids cs
def shapeKids : List Node → Bool
  | [] => true
  | c :: cs => shapeNode c && shapeKids cs
end

theorem pathKids_eq_all (cs : List Node) : pathKids cs = cs.all pathNode := by
  induction cs with
  | nil => simp [pathKids]
  | cons c cs ih => simp [pathKids, ih]

theorem shapeKids_eq_all (cs : List Node) : shapeKids cs = cs.all shapeNode := by
  induction cs with
  | nil => simp [shapeKids]
  | cons c cs ih => simp [shapeKids, ih]

theorem pathKids_iff (cs : List Node) : pathKids cs = true ↔ ∀ c ∈ cs, pathNode c = true := by
  rw [pathKids_eq_all, List.all_eq_true]

theorem shapeKids_iff (cs : List Node) : shapeKids cs = true ↔ ∀ c ∈ cs, shapeNode c = true := by
  rw [shapeKids_eq_all, List.all_eq_true]

theorem pathNode_iff (k : List Tok) (r : Option Route) (cs : List Node) : pathNode (.mk k r cs) = true ↔
    (r.isSome = true ∨ 2 ≤ cs.length) ∧ ∀ c ∈ cs, pathNode c = true := by
  conv => lhs; unfold pathNode
  simp only [Bool.and_eq_true, Bool.or_eq_true, decide_eq_true_eq, pathKids_iff]

theorem shapeNode_iff (k : List Tok) (r : Option Route) (cs : List Node) : shapeNode (.mk k r cs) = true ↔
    (startsWithSlash k = true ∧ pathNode (.mk k r cs) = true) ∨
    (startsWithSlash k = false ∧ noSlashTok k = true ∧ r = none ∧
      (2 ≤ cs.length ∨ (cs.length = 1 ∧ allSlash cs = true)) ∧ ∀ c ∈ cs, shapeNode c = true) := by
  conv => lhs; unfold shapeNode
  cases hs : startsWithSlash k
  · simp only [Bool.false_eq_true, if_false, false_and, false_or, true_and, Bool.and_eq_true, Bool.or_eq_true,
      decide_eq_true_eq, shapeKids_iff, Option.isNone_iff_eq_none, beq_iff_eq, and_assoc]
  · simp only [if_true, true_and, Bool.true_eq_false, false_and, or_false, pathNode_iff, Bool.and_eq_true,
      Bool.or_eq_true, decide_eq_true_eq, pathKids_iff]

theorem pathNode_newNode (k : List Tok) (r : Option Route) (cs : List Node) :
    pathNode (newNode k r cs) = pathNode (.mk k r cs) := by
  rw [Bool.eq_iff_iff, newNode, pathNode_iff, pathNode_iff, (sortKids_perm cs).length_eq]
  exact and_congr Iff.rfl ⟨fun H c hc => H c ((sortKids_perm cs).mem_iff.mpr hc),
    fun H c hc => H c ((sortKids_perm cs).mem_iff.mp hc)⟩

theorem shapeNode_newNode (k : List Tok) (r : Option Route) (cs : List Node) :
    shapeNode (newNode k r cs) = shapeNode (.mk k r cs) := by
  have hp : pathNode (.mk k r (sortKids cs)) = pathNode (.mk k r cs) := pathNode_newNode k r cs
  rw [Bool.eq_iff_iff, newNode, shapeNode_iff, shapeNode_iff, hp, (sortKids_perm cs).length_eq,
    allSlash_perm (sortKids_perm cs)]
  have : (∀ c ∈ sortKids cs, shapeNode c = true) ↔ (∀ c ∈ cs, shapeNode c = true) :=
    ⟨fun H c hc => H c ((sortKids_perm cs).mem_iff.mpr hc), fun H c hc => H c ((sortKids_perm cs).mem_iff.mp hc)⟩
  rw [this]

theorem noSlashTok_append (a b : List Tok) : noSlashTok (a ++ b) = (noSlashTok a && noSlashTok b) := by
  simp [noSlashTok, Bool.not_or]

theorem noSlash_not_starts {k : List Tok} (h : noSlashTok k = true) : startsWithSlash k = false := by
  cases k with
  | nil => rfl
  | cons t ts =>
    cases hs : startsWithSlash (t :: ts)
    · rfl
    · rw [startsWithSlash_cons_iff] at hs; subst hs
      simp [noSlashTok] at h

theorem noSlash_drop_not_starts {k : List Tok} (h : noSlashTok k = true) (n : Nat) :
    startsWithSlash (k.drop n) = false := by
  apply noSlash_not_starts
  have := noSlashTok_append (k.take n) (k.drop n)
  rw [List.take_append_drop, h] at this
  simp only [Bool.true_eq, Bool.and_eq_true] at this
  exact this.2


/-- position of the inserted suffix while the walk is still in the hostname region -/
def HostPos (r : Route) (consumed : Nat) (toks : List Tok) : Prop :=
  consumed ≤ r.hostToks ∧ noSlashTok (toks.take (r.hostToks - consumed)) = true ∧
    startsWithSlash (toks.drop (r.hostToks - consumed)) = true

theorem HostPos_advance {r : Route} {c : Nat} (p ta : List Tok) (h : HostPos r c (p ++ ta))
    (hp : noSlashTok p = true) : HostPos r (c + p.length) ta := by
  obtain ⟨h1, h2, h3⟩ := h
  have hle : p.length ≤ r.hostToks - c := by
    apply Nat.le_of_not_lt
    intro hlt
    rw [List.drop_append] at h3
    have hne : p.drop (r.hostToks - c) ≠ [] := by
      intro e; have := congrArg List.length e
      simp only [List.length_drop, List.length_nil] at this; omega
    rw [startsWithSlash_append _ hne, noSlash_drop_not_starts hp] at h3
    cases h3
  refine ⟨by omega, ?_, ?_⟩
  · rw [List.take_append, noSlashTok_append] at h2
    simp only [Bool.and_eq_true] at h2
    have e : r.hostToks - c - p.length = r.hostToks - (c + p.length) := by omega
    rw [← e]; exact h2.2
  · rw [List.drop_append, List.drop_of_length_le hle, List.nil_append] at h3
    have e : r.hostToks - c - p.length = r.hostToks - (c + p.length) := by omega
    rw [← e]; exact h3

theorem HostPos_slash {r : Route} {c : Nat} {toks : List Tok} (h : HostPos r c toks)
    (hs : startsWithSlash toks = true) : r.hostToks ≤ c := by
  obtain ⟨h1, h2, h3⟩ := h
  apply Nat.le_of_not_lt
  intro hlt
  cases toks with
  | nil => simp [startsWithSlash] at hs
  | cons t ts =>
    have : r.hostToks - c = (r.hostToks - c - 1) + 1 := by omega
    rw [this, List.take_succ_cons] at h2
    have := noSlash_not_starts h2
    rw [startsWithSlash_cons_iff] at hs
    subst hs
    simp [startsWithSlash] at this

theorem path_newLeaf (r : Route) (c : Nat) (suf : List Tok) (h : r.hostToks ≤ c) :
    pathNode (newLeaf r c suf).1 = true := by
  unfold newLeaf
  rw [if_neg (by omega)]
  simp [pathNode_newNode, pathNode_iff]

theorem shape_newLeaf (r : Route) (c : Nat) (suf : List Tok) (h : HostPos r c suf) :
    shapeNode (newLeaf r c suf).1 = true := by
  obtain ⟨h1, h2, h3⟩ := h
  unfold newLeaf
  split
  · rw [shapeNode_newNode, shapeNode_iff]
    right
    refine ⟨noSlash_not_starts h2, h2, rfl, Or.inr ⟨by simp, by simpa [allSlash, newNode] using h3⟩, ?_⟩
    intro x hx
    simp only [List.mem_singleton] at hx; subst hx
    rw [shapeNode_newNode, shapeNode_iff]
    left
    exact ⟨h3, by simp [pathNode_iff]⟩
  · rename_i hc
    have : r.hostToks - c = 0 := by omega
    rw [this, List.drop_zero] at h3
    rw [shapeNode_newNode, shapeNode_iff]
    left
    exact ⟨h3, by simp [pathNode_iff]⟩

theorem path_insertNode (r : Route) (n : Node) : ∀ (consumed d : Nat) (toks : List Tok) (res : InsOk),
    pathNode n = true → r.hostToks ≤ consumed → insertNode n false consumed d toks r = .ok res →
    pathNode res.node = true := by
  induction n using Node.ind with
  | h key route cs ih =>
    intro consumed d toks res hpn hpos h
    rw [pathNode_iff] at hpn
    obtain ⟨hown, hkids⟩ := hpn
    rcases insertNode_ok_inv h with ⟨rfl, rfl, hn⟩ | ⟨a, as, rfl, hn⟩ |
      ⟨t, ts, pre, c, post, cres, rfl, hp, hi, hn⟩ | ⟨t, ts, rfl, hp, hn⟩ |
      ⟨p, a, as, b, bs, rfl, rfl, hab, _, hw, hn⟩ <;> rw [hn]
    · rw [pathNode_iff]; exact ⟨Or.inl rfl, hkids⟩
    · rw [pathNode_newNode, pathNode_iff]
      refine ⟨Or.inl rfl, ?_⟩
      intro x hx; simp only [List.mem_singleton] at hx; subst hx
      rw [pathNode_iff]; exact ⟨hown, hkids⟩
    · obtain ⟨rfl, _, _⟩ := pick_some hp
      have hc' := ih c (by simp) _ _ _ _ (hkids c (by simp)) (by omega) hi
      rw [pathNode_iff]
      refine ⟨by simpa using hown, ?_⟩
      intro x hx
      rcases List.mem_append.mp hx with h1 | h1
      · exact hkids x (by simp [h1])
      · rcases List.mem_cons.mp h1 with rfl | h1
        · exact hc'
        · exact hkids x (by simp [h1])
    · rw [pathNode_newNode, pathNode_iff]
      refine ⟨by rcases hown with h1 | h1; exact Or.inl h1; right; simp; omega, ?_⟩
      intro x hx
      rcases List.mem_append.mp hx with h1 | h1
      · exact hkids x h1
      · simp only [List.mem_singleton] at h1; subst h1
        exact path_newLeaf r _ _ (by omega)
    · rw [pathNode_newNode, pathNode_iff]
      refine ⟨Or.inr (by simp), ?_⟩
      intro x hx
      simp only [List.mem_cons, List.not_mem_nil, or_false] at hx
      rcases hx with rfl | rfl
      · exact path_newLeaf r _ _ (by omega)
      · rw [pathNode_iff]; exact ⟨hown, hkids⟩

theorem shape_insertNode (r : Route) (n : Node) : ∀ (consumed d : Nat) (toks : List Tok) (res : InsOk),
    shapeNode n = true → wfNode n = true → toks ≠ [] → keyOk toks = true → kindOf n.key = kindOf toks →
    HostOk r consumed toks → HostPos r consumed toks →
    insertNode n false consumed d toks r = .ok res → shapeNode res.node = true := by
  induction n using Node.ind with
  | h key route cs ih =>
    intro consumed d toks res hsh hwf hne hok hkind hho hpos h
    obtain ⟨hwf', hkind'⟩ := wf_insertNode r _ consumed d toks res hwf hne hok hkind hho h
    simp only [Node.key_mk] at hkind hkind'
    rw [shapeNode_iff] at hsh
    rcases hsh with ⟨hs, hpn⟩ | ⟨hs, hns, rfl, hcnt, hkids⟩
    · -- the path part starts here
      have hs' : startsWithSlash toks = true := by
        rw [startsWithSlash_iff_kind] at hs ⊢; rw [← hkind]; exact hs
      have := path_insertNode r _ consumed d toks res hpn (HostPos_slash hpos hs') h
      generalize hrn : res.node = nn at this hkind' ⊢
      obtain ⟨k', r', cs'⟩ := nn
      simp only [Node.key_mk] at hkind'
      rw [shapeNode_iff]
      left
      refine ⟨?_, this⟩
      rw [startsWithSlash_iff_kind] at hs ⊢
      rw [← hs]; exact hkind'
    · -- inside the hostname
      rw [wfNode_iff] at hwf
      obtain ⟨hkne, hkok, hnd, hcatch, hwk⟩ := hwf
      rcases insertNode_ok_inv h with ⟨rfl, _, hn⟩ | ⟨a, as, rfl, hn⟩ |
        ⟨t, ts, pre, c, post, cres, rfl, hp, hi, hn⟩ | ⟨t, ts, rfl, hp, hn⟩ |
        ⟨p, a, as, b, bs, rfl, rfl, hab, _, hw, hn⟩
      · exfalso
        have := noSlash_drop_not_starts hns (r.hostToks - consumed)
        rw [hpos.2.2] at this; cases this
      · exfalso
        rw [noSlashTok_append, Bool.and_eq_true] at hns
        have := noSlash_drop_not_starts hns.1 (r.hostToks - consumed)
        rw [hpos.2.2] at this; cases this
      · rw [hn]
        have hok' : keyOk (t :: ts) = true := keyOk_append_right key _ hok
        obtain ⟨hck, _, _⟩ := pick_kind hwk hnd (by simp) hok' hp
        obtain ⟨rfl, _, _⟩ := pick_some hp
        have hcw := wfKids_mem hwk (c := c) (by simp)
        have hho' := HostOk_advance key (t :: ts) hho
        have hpos' := HostPos_advance key (t :: ts) hpos hns
        have hc' := ih c (by simp) _ _ _ _ (hkids c (by simp)) hcw (by simp) hok' hck hho' hpos' hi
        obtain ⟨_, hk'⟩ := wf_insertNode r c _ _ _ _ hcw (by simp) hok' hck hho' hi
        have hkinds : kindsOf (pre ++ cres.node :: post) = kindsOf (pre ++ c :: post) := by
          simp only [kindsOf_eq_map, List.map_append, List.map_cons, hk']
        rw [shapeNode_iff]
        right
        refine ⟨hs, hns, rfl, ?_, ?_⟩
        · rw [allSlash_congr hkinds]; simpa using hcnt
        · intro x hx
          rcases List.mem_append.mp hx with h1 | h1
          · exact hkids x (by simp [h1])
          · rcases List.mem_cons.mp h1 with rfl | h1
            · exact hc'
            · exact hkids x (by simp [h1])
      · rw [hn, shapeNode_newNode, shapeNode_iff]
        right
        have hpos' := HostPos_advance key (t :: ts) hpos hns
        refine ⟨hs, hns, rfl, Or.inl ?_, ?_⟩
        · simp only [List.length_append, List.length_cons, List.length_nil]
          rcases hcnt with h1 | ⟨h1, _⟩ <;> omega
        · intro x hx
          rcases List.mem_append.mp hx with h1 | h1
          · exact hkids x h1
          · simp only [List.mem_singleton] at h1; subst h1
            exact shape_newLeaf r _ _ hpos'
      · rw [hn, shapeNode_newNode, shapeNode_iff]
        right
        rw [noSlashTok_append, Bool.and_eq_true] at hns
        have hpos' := HostPos_advance p (b :: bs) hpos hns.1
        refine ⟨noSlash_not_starts hns.1, hns.1, rfl, Or.inl (by simp), ?_⟩
        intro x hx
        simp only [List.mem_cons, List.not_mem_nil, or_false] at hx
        rcases hx with rfl | rfl
        · exact shape_newLeaf r _ _ hpos'
        · rw [shapeNode_iff]
          right
          exact ⟨noSlash_not_starts hns.2, hns.2, rfl, hcnt, hkids⟩


theorem shape_insertRoot (r : Route) (root : Node) (toks : List Tok) (res : InsOk)
    (hwf : wfRoot root = true) (hsh : shapeKids root.children = true) (hne : toks ≠ []) (hok : keyOk toks = true)
    (hho : HostOk r 0 toks) (hpos : HostPos r 0 toks)
    (h : insertNode root true 0 0 toks r = .ok res) : shapeKids res.node.children = true := by
  obtain ⟨key, route, cs⟩ := root
  obtain ⟨rfl, rfl, hnd, hwk⟩ := (wfRoot_iff _ _ _).mp hwf
  simp only [Node.children_mk, shapeKids_iff] at hsh
  rw [shapeKids_iff]
  rcases insertNode_ok_inv h with ⟨rfl, _, hn⟩ | ⟨a, as, he, hn⟩ |
    ⟨t, ts, pre, c, post, cres, rfl, hp, hi, hn⟩ | ⟨t, ts, rfl, hp, hn⟩ |
    ⟨p, a, as, b, bs, he, _, hab, _, hw, hn⟩
  · exact absurd rfl hne
  · simp at he
  · rw [hn]
    simp only [List.nil_append, List.length_nil, Nat.add_zero, Nat.zero_add] at hi hok hho hpos
    obtain ⟨hck, _, _⟩ := pick_kind hwk hnd (by simp) hok hp
    obtain ⟨rfl, _, _⟩ := pick_some hp
    have hcw := wfKids_mem hwk (c := c) (by simp)
    have hc' := shape_insertNode r c _ _ _ _ (hsh c (by simp)) hcw (by simp) hok hck hho hpos hi
    intro x hx
    simp only [Node.children_mk] at hx
    rcases List.mem_append.mp hx with h1 | h1
    · exact hsh x (by simp [h1])
    · rcases List.mem_cons.mp h1 with rfl | h1
      · exact hc'
      · exact hsh x (by simp [h1])
  · rw [hn]
    simp only [List.nil_append, List.length_nil, Nat.add_zero] at hpos ⊢
    intro x hx
    simp only [newNode, Node.children_mk] at hx
    have hx := (sortKids_perm _).mem_iff.mp hx
    rcases List.mem_append.mp hx with h1 | h1
    · exact hsh x h1
    · simp only [List.mem_singleton] at h1; subst h1
      exact shape_newLeaf r _ _ hpos
  · simp at he

/-! ### `updateNode` keeps the shape -/

theorem updateNode_key {n n' : Node} {toks : List Tok} {r : Route} (h : updateNode n toks r = some n') :
    n'.key = n.key := by
  obtain ⟨key, route, cs⟩ := n
  rcases updateNode_inv h with ⟨old, rfl, rfl, rfl⟩ | ⟨t, ts, pre, c, post, c', rfl, hp, hu, rfl⟩ <;> rfl

theorem path_updateNode (r : Route) (n : Node) : ∀ (toks : List Tok) (n' : Node), pathNode n = true →
    updateNode n toks r = some n' → pathNode n' = true := by
  induction n using Node.ind with
  | h key route cs ih =>
    intro toks n' hpn h
    rw [pathNode_iff] at hpn
    obtain ⟨hown, hkids⟩ := hpn
    rcases updateNode_inv h with ⟨old, rfl, rfl, rfl⟩ | ⟨t, ts, pre, c, post, c', rfl, hp, hu, rfl⟩
    · rw [pathNode_iff]; exact ⟨Or.inl rfl, hkids⟩
    · obtain ⟨rfl, _, _⟩ := pick_some hp
      have hc' := ih c (by simp) _ _ (hkids c (by simp)) hu
      rw [pathNode_iff]
      refine ⟨by simpa using hown, ?_⟩
      intro x hx
      rcases List.mem_append.mp hx with h1 | h1
      · exact hkids x (by simp [h1])
      · rcases List.mem_cons.mp h1 with rfl | h1
        · exact hc'
        · exact hkids x (by simp [h1])

theorem shape_updateNode (r : Route) (n : Node) : ∀ (toks : List Tok) (n' : Node), shapeNode n = true →
    updateNode n toks r = some n' → shapeNode n' = true := by
  induction n using Node.ind with
  | h key route cs ih =>
    intro toks n' hsh h
    have hkey := updateNode_key h
    rw [shapeNode_iff] at hsh
    rcases hsh with ⟨hs, hpn⟩ | ⟨hs, hns, rfl, hcnt, hkids⟩
    · have := path_updateNode r _ _ _ hpn h
      obtain ⟨k', r', cs'⟩ := n'
      simp only [Node.key_mk] at hkey; subst hkey
      rw [shapeNode_iff]; exact Or.inl ⟨hs, this⟩
    · rcases updateNode_inv h with ⟨old, _, he, _⟩ | ⟨t, ts, pre, c, post, c', rfl, hp, hu, rfl⟩
      · cases he
      · obtain ⟨rfl, _, _⟩ := pick_some hp
        have hc' := ih c (by simp) _ _ (hkids c (by simp)) hu
        have hkinds : kindsOf (pre ++ c' :: post) = kindsOf (pre ++ c :: post) := by
          simp only [kindsOf_eq_map, List.map_append, List.map_cons, updateNode_key hu]
        rw [shapeNode_iff]
        right
        refine ⟨hs, hns, rfl, ?_, ?_⟩
        · rw [allSlash_congr hkinds]; simpa using hcnt
        · intro x hx
          rcases List.mem_append.mp hx with h1 | h1
          · exact hkids x (by simp [h1])
          · rcases List.mem_cons.mp h1 with rfl | h1
            · exact hc'
            · exact hkids x (by simp [h1])

/-! ### `removeNode` keeps the shape -/

theorem pathNode_eta {key : List Tok} {e : Node} (h : pathNode e = true) :
    pathNode (.mk (key ++ e.key) e.route e.children) = true := by
  obtain ⟨k, ro, ks⟩ := e
  rw [pathNode_iff] at h ⊢
  exact h

theorem path_removeNode (n : Node) : ∀ (toks : List Tok) (res : Rem) (r : Route) (cse : RemCase),
    pathNode n = true → removeNode n false toks = some (res, r, cse) →
    (∀ n', res = .replaced n' → pathNode n' = true) ∧ res ≠ .vanishedHost := by
  induction n using Node.ind with
  | h key route cs ih =>
    intro toks res r cse hpn h
    rw [pathNode_iff] at hpn
    obtain ⟨hown, hkids⟩ := hpn
    rcases removeNode_inv h with ⟨rfl, rfl, rfl⟩ | ⟨t, ts, pre, c, post, resc, csec, rfl, hp, hr, rfl⟩
    · rcases cs with _ | ⟨c, _ | ⟨c2, cs⟩⟩
      · simp [remHere]
      · simp only [remHere, Rem.replaced.injEq, ne_eq, reduceCtorEq, not_false_eq_true, and_true]
        rintro n' rfl
        exact pathNode_eta (hkids c (by simp))
      · simp only [remHere, Rem.replaced.injEq, ne_eq, reduceCtorEq, not_false_eq_true, and_true]
        rintro n' rfl
        rw [pathNode_iff]; exact ⟨Or.inr (by simp), hkids⟩
    · obtain ⟨rfl, _, _⟩ := pick_some hp
      obtain ⟨ihr, ihv⟩ := ih c (by simp) _ _ _ _ (hkids c (by simp)) hr
      have hkids' : ∀ x ∈ pre ++ post, pathNode x = true := by
        intro x hx; apply hkids
        rcases List.mem_append.mp hx with h1 | h1 <;> simp [h1]
      rcases remUp_cases key route false pre post resc csec with
        ⟨c', rfl, he⟩ | ⟨rfl, hed, rfl, _, he⟩ | ⟨e, hed, rfl, _, hor, he⟩ | ⟨he, hor⟩ <;> rw [he]
      · simp only [Rem.replaced.injEq, ne_eq, reduceCtorEq, not_false_eq_true, and_true]
        rintro n' rfl
        rw [pathNode_iff]
        refine ⟨by simpa using hown, ?_⟩
        intro x hx
        rcases List.mem_append.mp hx with h1 | h1
        · exact hkids x (by simp [h1])
        · rcases List.mem_cons.mp h1 with rfl | h1
          · exact ihr _ rfl
          · exact hkids x (by simp [h1])
      · exfalso
        have : (pre ++ post).length = 0 := by rw [hed]; rfl
        simp only [List.length_append, List.length_cons] at hown this
        rcases hown with h1 | h1
        · cases h1
        · omega
      · simp only [Rem.replaced.injEq, ne_eq, reduceCtorEq, not_false_eq_true, and_true]
        rintro n' rfl
        exact pathNode_eta (hkids' e (by rw [hed]; simp))
      · simp only [Rem.replaced.injEq, ne_eq, reduceCtorEq, not_false_eq_true, and_true]
        rintro n' rfl
        rw [pathNode_newNode, pathNode_iff]
        refine ⟨?_, hkids'⟩
        rcases hor with ⟨_, hnot⟩ | ⟨rfl, _⟩
        · cases hro : route with
          | some x => exact Or.inl rfl
          | none =>
            right
            apply Nat.lt_of_not_le
            intro hle
            exact hnot ⟨hro, rfl, hle⟩
        · exact absurd rfl ihv

theorem shape_removeNode (n : Node) : ∀ (toks : List Tok) (res : Rem) (r : Route) (cse : RemCase),
    shapeNode n = true → wfNode n = true → removeNode n false toks = some (res, r, cse) →
    (∀ n', res = .replaced n' → shapeNode n' = true) ∧
    (res = .vanishedHost → startsWithSlash n.key = false) ∧
    (res = .vanished → startsWithSlash n.key = true) := by
  induction n using Node.ind with
  | h key route cs ih =>
    intro toks res r cse hsh hwf h
    have hwfr := wf_removeNode _ false toks res r cse (by simpa [wfN] using hwf) h
    simp only [Node.key_mk]
    rw [shapeNode_iff] at hsh
    rcases hsh with ⟨hs, hpn⟩ | ⟨hs, hns, rfl, hcnt, hkids⟩
    · obtain ⟨h1, h2⟩ := path_removeNode _ toks res r cse hpn h
      refine ⟨?_, fun e => absurd e h2, fun _ => hs⟩
      intro n' hn'
      have hk := (hwfr n' hn').2 rfl
      have hp' := h1 n' hn'
      obtain ⟨k', r', cs'⟩ := n'
      simp only [Node.key_mk] at hk
      rw [shapeNode_iff]
      left
      refine ⟨?_, hp'⟩
      rw [startsWithSlash_iff_kind] at hs ⊢
      rw [hk]; exact hs
    · rw [wfNode_iff] at hwf
      obtain ⟨hkne, hkok, hnd, hcatch, hwk⟩ := hwf
      rcases removeNode_inv h with ⟨_, he, _⟩ | ⟨t, ts, pre, c, post, resc, csec, rfl, hp, hr, rfl⟩
      · cases he
      · obtain ⟨rfl, _, _⟩ := pick_some hp
        have hcw := wfKids_mem hwk (c := c) (by simp)
        obtain ⟨ihr, ihvh, ihv⟩ := ih c (by simp) _ _ _ _ (hkids c (by simp)) hcw hr
        have hkids' : ∀ x ∈ pre ++ post, shapeNode x = true := by
          intro x hx; apply hkids
          rcases List.mem_append.mp hx with h1 | h1 <;> simp [h1]
        -- a sibling of `c` has another kind
        have hsib : ∀ e ∈ pre ++ post, kindOf e.key ≠ kindOf c.key := by
          intro e hee heq
          rw [kindsOf_eq_map, List.map_append, List.map_cons, List.nodup_append] at hnd
          rcases List.mem_append.mp hee with h1 | h1
          · exact hnd.2.2 _ (List.mem_map_of_mem h1) _ (by simp) heq
          · exact (List.nodup_cons.mp hnd.2.1).1 (by rw [← heq]; exact List.mem_map_of_mem h1)
        rcases remUp_cases key none false pre post resc csec with
          ⟨c', rfl, he⟩ | ⟨rfl, hed, _, _, he⟩ | ⟨e, hed, _, _, hor, he⟩ | ⟨he, hor⟩ <;> rw [he]
        · refine ⟨?_, by simp, by simp⟩
          rintro n' hn'
          simp only [Rem.replaced.injEq] at hn'; subst hn'
          have hk' := (wf_removeNode c false _ _ _ _ (by simpa [wfN] using hcw) hr c' rfl).2 rfl
          have hkinds : kindsOf (pre ++ c' :: post) = kindsOf (pre ++ c :: post) := by
            simp only [kindsOf_eq_map, List.map_append, List.map_cons, hk']
          rw [shapeNode_iff]
          right
          refine ⟨hs, hns, rfl, ?_, ?_⟩
          · rw [allSlash_congr hkinds]; simpa using hcnt
          · intro x hx
            rcases List.mem_append.mp hx with h1 | h1
            · exact hkids x (by simp [h1])
            · rcases List.mem_cons.mp h1 with rfl | h1
              · exact ihr _ rfl
              · exact hkids x (by simp [h1])
        · exact ⟨by simp, fun _ => hs, by simp⟩
        · refine ⟨?_, by simp, by simp⟩
          rintro n' hn'
          simp only [Rem.replaced.injEq] at hn'; subst hn'
          have hee : e ∈ pre ++ post := by rw [hed]; simp
          have hens : startsWithSlash e.key = false := by
            rcases hor with rfl | ⟨_, h2⟩
            · have hcs := ihv rfl
              cases hes : startsWithSlash e.key
              · rfl
              · exfalso
                rw [startsWithSlash_iff_kind] at hcs hes
                exact hsib e hee (hes.trans hcs.symm)
            · exact h2
          have hesh := hkids' e hee
          obtain ⟨ke, re, cse'⟩ := e
          simp only [Node.key_mk, Node.route_mk, Node.children_mk] at hens ⊢
          rw [shapeNode_iff] at hesh ⊢
          rcases hesh with ⟨h1, _⟩ | ⟨_, h2, h3, h4, h5⟩
          · rw [hens] at h1; cases h1
          · right
            have : noSlashTok (key ++ ke) = true := by rw [noSlashTok_append, hns, h2]; rfl
            exact ⟨noSlash_not_starts this, this, h3, h4, h5⟩
        · refine ⟨?_, by simp, by simp⟩
          rintro n' hn'
          simp only [Rem.replaced.injEq] at hn'; subst hn'
          rw [shapeNode_newNode, shapeNode_iff]
          right
          refine ⟨hs, hns, rfl, ?_, hkids'⟩
          rcases hor with ⟨_, hnot⟩ | ⟨rfl, hnot⟩
          · left
            apply Nat.lt_of_not_le
            intro hle
            exact hnot ⟨rfl, rfl, hle⟩
          · have hcns := ihvh rfl
            have hlen : 2 ≤ (pre ++ c :: post).length := by
              rcases hcnt with h1 | ⟨h1, h2⟩
              · exact h1
              · exfalso
                rw [allSlash_eq_all, List.all_eq_true] at h2
                have := h2 c (by simp)
                rw [hcns] at this; cases this
            simp only [List.length_append, List.length_cons] at hlen
            rcases hedges : pre ++ post with _ | ⟨e, _ | ⟨e2, es⟩⟩
            · have := congrArg List.length hedges
              simp only [List.length_append, List.length_nil] at this; omega
            · right
              refine ⟨rfl, ?_⟩
              cases hes : startsWithSlash e.key
              · exact absurd ⟨rfl, rfl, e, hedges, hes⟩ hnot
              · simp [allSlash_eq_all, hes]
            · left; simp


theorem shape_removeRoot (root : Node) (toks : List Tok) (res : Rem) (r : Route) (cse : RemCase)
    (hwf : wfRoot root = true) (hsh : shapeKids root.children = true)
    (h : removeNode root true toks = some (res, r, cse)) :
    ∃ root', res = .replaced root' ∧ shapeKids root'.children = true := by
  obtain ⟨key, route, cs⟩ := root
  obtain ⟨rfl, rfl, hnd, hwk⟩ := (wfRoot_iff _ _ _).mp hwf
  simp only [Node.children_mk, shapeKids_iff] at hsh
  rcases removeNode_inv h with ⟨_, he, _⟩ | ⟨t, ts, pre, c, post, resc, csec, rfl, hp, hr, rfl⟩
  · cases he
  · obtain ⟨rfl, _, _⟩ := pick_some hp
    have hcw := wfKids_mem hwk (c := c) (by simp)
    obtain ⟨ihr, _, _⟩ := shape_removeNode c _ _ _ _ (hsh c (by simp)) hcw hr
    have hkids' : ∀ x ∈ pre ++ post, shapeNode x = true := by
      intro x hx; apply hsh
      rcases List.mem_append.mp hx with h1 | h1 <;> simp [h1]
    rcases remUp_cases [] none true pre post resc csec with
      ⟨c', rfl, he⟩ | ⟨_, _, _, hf, _⟩ | ⟨e, _, _, hf, _⟩ | ⟨he, _⟩
    · refine ⟨_, he, ?_⟩
      rw [shapeKids_iff]
      intro x hx
      simp only [Node.children_mk] at hx
      rcases List.mem_append.mp hx with h1 | h1
      · exact hsh x (by simp [h1])
      · rcases List.mem_cons.mp h1 with rfl | h1
        · exact ihr _ rfl
        · exact hsh x (by simp [h1])
    · cases hf
    · cases hf
    · refine ⟨_, he, ?_⟩
      rw [shapeKids_iff]
      intro x hx
      simp only [newNode, Node.children_mk] at hx
      exact hkids' x ((sortKids_perm _).mem_iff.mp hx)

/-! ### the shape invariant implies the hostname invariant of `Model/WF.lean` -/

theorem hostOkKids_iff (cs : List Node) : hostOkKids cs = true ↔ ∀ c ∈ cs, hostOkNode c = true := by
  induction cs with
  | nil => simp [hostOkKids]
  | cons c cs ih => simp [hostOkKids, ih]

theorem hostOk_of_shape (n : Node) : shapeNode n = true → hostOkNode n = true := by
  induction n using Node.ind with
  | h key route cs ih =>
    intro hsh
    rw [shapeNode_iff] at hsh
    unfold hostOkNode
    rcases hsh with ⟨hs, _⟩ | ⟨_, hns, _, _, hkids⟩
    · simp [hs]
    · simp only [hns, Bool.true_and, Bool.or_eq_true, hostOkKids_iff]
      exact Or.inr fun c hc => ih c hc (hkids c hc)

theorem hostOkKids_of_shape {cs : List Node} (h : shapeKids cs = true) : hostOkKids cs = true := by
  rw [shapeKids_iff] at h
  rw [hostOkKids_iff]
  exact fun c hc => hostOk_of_shape c (h c hc)

/-! ### no dead branches: a reported conflict names at least one route -/

theorem routes_ne_nil_of_path (n : Node) : pathNode n = true → routesNode n ≠ [] := by
  induction n using Node.ind with
  | h key route cs ih =>
    intro hpn
    rw [pathNode_iff] at hpn
    obtain ⟨hown, hkids⟩ := hpn
    unfold routesNode
    cases route with
    | some x => simp
    | none =>
      rcases hown with h1 | h1
      · cases h1
      · rcases cs with _ | ⟨c, cs⟩
        · simp at h1
        · have := ih c (by simp) (hkids c (by simp))
          simp [routesKids, this]

theorem routes_ne_nil_of_shape (n : Node) : shapeNode n = true → routesNode n ≠ [] := by
  induction n using Node.ind with
  | h key route cs ih =>
    intro hsh
    rw [shapeNode_iff] at hsh
    rcases hsh with ⟨_, hpn⟩ | ⟨_, _, _, hcnt, hkids⟩
    · exact routes_ne_nil_of_path _ hpn
    · unfold routesNode
      rcases cs with _ | ⟨c, cs⟩
      · simp at hcnt
      · have := ih c (by simp) (hkids c (by simp))
        simp [routesKids, this]

theorem conflict_ne_nil (r : Route) (n : Node) : ∀ (consumed d : Nat) (toks : List Tok) (cs' : List Route),
    (pathNode n = true ∨ shapeNode n = true) →
    insertNode n false consumed d toks r = .error (.conflict cs') → cs' ≠ [] := by
  induction n using Node.ind with
  | h key route cs ih =>
    intro consumed d toks cs' hinv h
    rcases insertNode_err_inv h with ⟨x, _, _, he⟩ | ⟨t, ts, pre, c, post, rfl, hp, hi⟩ | he
    · cases he
    · obtain ⟨rfl, _, _⟩ := pick_some hp
      refine ih c (by simp) _ _ _ _ ?_ hi
      rcases hinv with h1 | h1
      · exact Or.inl (((pathNode_iff _ _ _).mp h1).2 c (by simp))
      · rcases (shapeNode_iff _ _ _).mp h1 with ⟨_, h2⟩ | ⟨_, _, _, _, h2⟩
        · exact Or.inl (((pathNode_iff _ _ _).mp h2).2 c (by simp))
        · exact Or.inr (h2 c (by simp))
    · simp only [InsErr.conflict.injEq] at he; subst he
      rcases hinv with h1 | h1
      · exact routes_ne_nil_of_path _ h1
      · exact routes_ne_nil_of_shape _ h1

theorem conflict_ne_nil_root (r : Route) (root : Node) (toks : List Tok) (cs' : List Route)
    (hwf : wfRoot root = true) (hsh : shapeKids root.children = true) (hne : toks ≠ [])
    (h : insertNode root true 0 0 toks r = .error (.conflict cs')) : cs' ≠ [] := by
  obtain ⟨key, route, cs⟩ := root
  obtain ⟨rfl, rfl, hnd, hwk⟩ := (wfRoot_iff _ _ _).mp hwf
  simp only [Node.children_mk, shapeKids_iff] at hsh
  cases toks with
  | nil => exact absurd rfl hne
  | cons t ts =>
    have h' := insertNode_descend [] t ts none cs true 0 0 r
    simp only [List.nil_append, List.length_nil, Nat.add_zero, Nat.zero_add] at h'
    rw [h', insertKids_pick] at h
    cases hp : pickKid (t :: ts) cs with
    | none => rw [hp] at h; simp at h
    | some x =>
      obtain ⟨pre, c, post⟩ := x
      rw [hp] at h
      simp only [] at h
      obtain ⟨rfl, _, _⟩ := pick_some hp
      cases hi : insertNode c false 0 1 (t :: ts) r with
      | error e =>
        rw [hi] at h; simp only [Except.error.injEq] at h; subst h
        exact conflict_ne_nil r c _ _ _ _ (Or.inr (hsh c (by simp))) hi
      | ok cres => rw [hi] at h; obtain ⟨c', dep, cse⟩ := cres; simp at h


/-! ### `updateNode` at a method root -/

theorem update_root_inv {root root' : Node} {toks : List Tok} {r : Route} (hwf : wfRoot root = true)
    (h : updateNode root toks r = some root') :
    ∃ t ts pre c post c', toks = t :: ts ∧ root = .mk [] none (pre ++ c :: post) ∧
      root' = .mk [] none (pre ++ c' :: post) ∧ updateNode c (t :: ts) r = some c' := by
  obtain ⟨key, route, cs⟩ := root
  obtain ⟨rfl, rfl, hnd, hwk⟩ := (wfRoot_iff _ _ _).mp hwf
  rcases updateNode_inv h with ⟨old, _, he, _⟩ | ⟨t, ts, pre, c, post, c', rfl, hp, hu, rfl⟩
  · cases he
  · obtain ⟨rfl, _, _⟩ := pick_some hp
    exact ⟨t, ts, pre, c, post, c', rfl, rfl, rfl, hu⟩

theorem wf_updateRoot {root root' : Node} {toks : List Tok} {r : Route} (hwf : wfRoot root = true)
    (h : updateNode root toks r = some root') : wfRoot root' = true := by
  obtain ⟨t, ts, pre, c, post, c', rfl, rfl, rfl, hu⟩ := update_root_inv hwf h
  obtain ⟨_, _, hnd, hwk⟩ := (wfRoot_iff _ _ _).mp hwf
  obtain ⟨hw', hk'⟩ := wf_updateNode r c _ _ (wfKids_mem hwk (by simp)) hu
  have hkinds : kindsOf (pre ++ c' :: post) = kindsOf (pre ++ c :: post) := by
    simp only [kindsOf_eq_map, List.map_append, List.map_cons, hk']
  rw [wfRoot_iff]
  refine ⟨rfl, rfl, hkinds ▸ hnd, wfKids_of_forall ?_⟩
  intro x hx
  rcases List.mem_append.mp hx with h1 | h1
  · exact wfKids_mem hwk (by simp [h1])
  · rcases List.mem_cons.mp h1 with rfl | h1
    · exact hw'
    · exact wfKids_mem hwk (by simp [h1])

theorem shape_updateRoot {root root' : Node} {toks : List Tok} {r : Route} (hwf : wfRoot root = true)
    (hsh : shapeKids root.children = true) (h : updateNode root toks r = some root') :
    shapeKids root'.children = true := by
  obtain ⟨t, ts, pre, c, post, c', rfl, rfl, rfl, hu⟩ := update_root_inv hwf h
  simp only [Node.children_mk, shapeKids_iff] at hsh ⊢
  have hc' := shape_updateNode r c _ _ (hsh c (by simp)) hu
  intro x hx
  rcases List.mem_append.mp hx with h1 | h1
  · exact hsh x (by simp [h1])
  · rcases List.mem_cons.mp h1 with rfl | h1
    · exact hc'
    · exact hsh x (by simp [h1])

theorem found_updateRoot (r : Route) {root : Node} {toks : List Tok} {x : Route} (hwf : wfRoot root = true)
    (hok : keyOk toks = true) (hm : (toks, x) ∈ sufsNode root) : (updateNode root toks r).isSome = true := by
  obtain ⟨key, route, cs⟩ := root
  obtain ⟨rfl, rfl, hnd, hwk⟩ := (wfRoot_iff _ _ _).mp hwf
  rw [sufsNode_own] at hm
  simp only [own, List.nil_append, List.mem_map] at hm
  obtain ⟨sr, hsr, he⟩ := hm
  obtain ⟨s, x'⟩ := sr
  simp only [pre, List.nil_append, Prod.mk.injEq] at he
  obtain ⟨rfl, rfl⟩ := he
  have hsne : s ≠ [] := sufsKids_ne_nil hwk _ hsr
  obtain ⟨pre, c, post, hp, hmc⟩ := pick_of_mem hwk hnd hok hsr
  obtain ⟨rfl, _, _⟩ := pick_some hp
  have ihc := found_updateNode r c s x' (wfKids_mem hwk (by simp)) hok hmc
  have := updateNode_hit [] s none (pre ++ c :: post) r
  simp only [List.nil_append] at this
  rw [this]
  cases s with
  | nil => exact absurd rfl hsne
  | cons t ts =>
    simp only [updateKids_pick, hp]
    cases hu : updateNode c (t :: ts) r with
    | none => rw [hu] at ihc; cases ihc
    | some c' => rfl

end Fox.Model

namespace Fox.C02
open Fox Fox.Model Fox.Spec

/-! ### hypotheses and invariants -/

/-- what `insert` needs to know about a parsed route: literal tokens are not wildcard delimiters and a catch-all
    is followed by '/' (`keyOk`); `hostToks` is the index of the first literal '/' (the tokens before it contain
    no '/', the token at it is '/'); the hostname part does not end with a catch-all (fox rejects catch-alls in
    hostnames altogether). -/
def validPattern (r : Route) : Bool :=
  keyOk r.pattern && startsWithSlash (r.pattern.drop r.hostToks) && noSlashTok (r.pattern.take r.hostToks)
    && !endsWithCatchAll (r.pattern.take r.hostToks)

theorem validPattern_iff (r : Route) : validPattern r = true ↔
    keyOk r.pattern = true ∧ startsWithSlash (r.pattern.drop r.hostToks) = true ∧
      noSlashTok (r.pattern.take r.hostToks) = true ∧ endsWithCatchAll (r.pattern.take r.hostToks) = false := by
  simp [validPattern, and_assoc]

theorem validPattern_ne_nil {r : Route} (h : validPattern r = true) : r.pattern ≠ [] := by
  intro e
  have := ((validPattern_iff r).mp h).2.1
  rw [e] at this; simp [startsWithSlash] at this

theorem validPattern_hostOk {r : Route} (h : validPattern r = true) : HostOk r 0 r.pattern := by
  obtain ⟨_, h2, _, h4⟩ := (validPattern_iff r).mp h
  intro _
  refine ⟨?_, h4⟩
  have hne := startsWithSlash_ne_nil h2
  have : (r.pattern.drop r.hostToks).length ≠ 0 := fun e => hne (List.length_eq_zero_iff.mp e)
  simp only [List.length_drop] at this
  omega

theorem validPattern_hostPos {r : Route} (h : validPattern r = true) : HostPos r 0 r.pattern := by
  obtain ⟨_, h2, h3, _⟩ := (validPattern_iff r).mp h
  exact ⟨Nat.zero_le _, h3, h2⟩

/-- everything the proofs need to know about one method root -/
structure RootOk (n : Node) : Prop where
  wf : wfRoot n = true
  shape : shapeKids n.children = true
  pats : ∀ sr ∈ sufsNode n, sr.1 = sr.2.pattern ∧ keyOk sr.1 = true

/-- the invariant of reachable trees -/
structure Good (t : Tree) : Prop where
  roots : ∀ x ∈ t.roots, RootOk x.2
  nodup : (t.roots.map (·.1)).Nodup

theorem Good.wfRoots {t : Tree} (h : Good t) : wfRoots t.roots = true := by
  simp only [Model.wfRoots, Bool.and_eq_true, List.all_eq_true, nodupB_iff]
  exact ⟨fun x hx => (h.roots x hx).wf, h.nodup⟩

theorem Good.hostOkRoots {t : Tree} (h : Good t) : hostOkRoots t.roots = true := by
  simp only [Model.hostOkRoots, List.all_eq_true]
  exact fun x hx => hostOkKids_of_shape (h.roots x hx).shape

theorem rootOk_empty : RootOk emptyNode := by
  refine ⟨by decide, by decide, ?_⟩
  simp [emptyNode, sufsNode_own, own, sufsKids]

/-! ### method roots -/

theorem methodRoot_some {rs : Roots} {m : Bytes} {n : Node} (h : methodRoot rs m = some n) : (m, n) ∈ rs := by
  simp only [methodRoot, Option.map_eq_some_iff] at h
  obtain ⟨x, hx, rfl⟩ := h
  have h1 := List.mem_of_find?_eq_some hx
  have h2 := List.find?_some hx
  simp only [beq_iff_eq] at h2
  obtain ⟨a, b⟩ := x
  simp only at h2; subst h2; exact h1

theorem methodRoot_of_mem {rs : Roots} {m : Bytes} {n : Node} (hnd : (rs.map (·.1)).Nodup) (h : (m, n) ∈ rs) :
    methodRoot rs m = some n := by
  induction rs with
  | nil => cases h
  | cons x xs ih =>
    simp only [List.map_cons, List.nodup_cons] at hnd
    simp only [methodRoot, List.find?_cons]
    rcases List.mem_cons.mp h with rfl | h'
    · simp
    · have : (x.1 == m) = false := by
        apply beq_false_of_ne
        intro e; apply hnd.1; rw [e]
        exact List.mem_map_of_mem (f := (·.1)) h'
      rw [this]
      exact ih hnd.2 h'

theorem methodRoot_none {rs : Roots} {m : Bytes} (h : methodRoot rs m = none) : ∀ x ∈ rs, x.1 ≠ m := by
  simp only [methodRoot, Option.map_eq_none_iff, List.find?_eq_none] at h
  intro x hx e; exact h x hx (by simp [e])

theorem methodRoot_setRoot_same {rs : Roots} {m : Bytes} {n n' : Node} (h : methodRoot rs m = some n) :
    methodRoot (setRoot rs m n') m = some n' := by
  induction rs with
  | nil => simp [methodRoot] at h
  | cons x xs ih =>
    simp only [methodRoot, List.find?_cons, setRoot, List.map_cons] at h ⊢
    cases hx : x.1 == m
    · simp only [hx, Bool.false_eq_true, if_false] at h ⊢
      exact ih h
    · simp

theorem methodRoot_setRoot_other {rs : Roots} {m m' : Bytes} {n' : Node} (h : m' ≠ m) :
    methodRoot (setRoot rs m n') m' = methodRoot rs m' := by
  induction rs with
  | nil => rfl
  | cons x xs ih =>
    simp only [methodRoot, List.find?_cons, setRoot, List.map_cons] at ih ⊢
    cases hx : x.1 == m
    · simp only [Bool.false_eq_true, if_false]
      cases hx' : x.1 == m'
      · exact ih
      · rfl
    · simp only [if_true]
      have e1 : (m == m') = false := beq_false_of_ne (Ne.symm h)
      have e2 : (x.1 == m') = false := by
        simp only [beq_iff_eq] at hx; rw [hx]; exact e1
      rw [e1, e2]; exact ih

theorem setRoot_names (rs : Roots) (m : Bytes) (n' : Node) : (setRoot rs m n').map (·.1) = rs.map (·.1) := by
  induction rs with
  | nil => rfl
  | cons x xs ih =>
    simp only [setRoot, List.map_cons, List.map_map] at ih ⊢
    rw [ih]
    cases hx : x.1 == m
    · simp
    · simp only [beq_iff_eq] at hx; simp [hx]

theorem mem_setRoot {rs : Roots} {m : Bytes} {n' : Node} {x : Bytes × Node} (h : x ∈ setRoot rs m n') :
    x ∈ rs ∨ x = (m, n') := by
  simp only [setRoot, List.mem_map] at h
  obtain ⟨y, hy, rfl⟩ := h
  split
  · exact Or.inr rfl
  · exact Or.inl hy

theorem methodRoot_filter_same (rs : Roots) (m : Bytes) : methodRoot (rs.filter fun x => x.1 != m) m = none := by
  simp only [methodRoot, Option.map_eq_none_iff, List.find?_eq_none, List.mem_filter]
  rintro x ⟨_, hx⟩
  simpa using hx

theorem methodRoot_filter_other (rs : Roots) {m m' : Bytes} (h : m' ≠ m) :
    methodRoot (rs.filter fun x => x.1 != m) m' = methodRoot rs m' := by
  induction rs with
  | nil => rfl
  | cons x xs ih =>
    simp only [methodRoot, List.filter_cons] at ih ⊢
    cases hx : x.1 == m
    · simp only [bne, hx, Bool.not_false, if_true, List.find?_cons]
      cases hx' : x.1 == m'
      · exact ih
      · rfl
    · simp only [bne, hx, Bool.not_true, Bool.false_eq_true, if_false, List.find?_cons]
      have e2 : (x.1 == m') = false := by
        simp only [beq_iff_eq] at hx; rw [hx]; exact beq_false_of_ne (Ne.symm h)
      rw [e2]; exact ih

theorem methodRoot_append_same {rs : Roots} {m : Bytes} (n : Node) (h : methodRoot rs m = none) :
    methodRoot (rs ++ [(m, n)]) m = some n := by
  simp only [methodRoot, Option.map_eq_none_iff] at h
  simp [methodRoot, List.find?_append, h]

theorem methodRoot_append_other (rs : Roots) {m m' : Bytes} (n : Node) (h : m' ≠ m) :
    methodRoot (rs ++ [(m, n)]) m' = methodRoot rs m' := by
  simp only [methodRoot, List.find?_append, List.find?_cons, List.find?_nil]
  have : (m == m') = false := beq_false_of_ne (Ne.symm h)
  simp [this]

theorem good_setRoot {t : Tree} (h : Good t) (m : Bytes) {n' : Node} (hn : RootOk n') (sz mp dp : Nat) :
    Good ⟨setRoot t.roots m n', sz, mp, dp⟩ := by
  refine ⟨?_, by simpa only [setRoot_names] using h.nodup⟩
  intro x hx
  rcases mem_setRoot hx with h1 | rfl
  · exact h.roots x h1
  · exact hn


/-! ### the registered routes of a tree -/

/-- suffix set (pattern tokens, route) held for method `m` -/
def sufsOf (t : Tree) (m : Bytes) : SufSet :=
  match methodRoot t.roots m with
  | some root => sufsNode root
  | none => []

/-- the routes registered for method `m`, in iteration order -/
def routesOf (t : Tree) (m : Bytes) : List Route :=
  match methodRoot t.roots m with
  | some root => routesNode root
  | none => []

theorem routesOf_eq (t : Tree) (m : Bytes) : routesOf t m = (sufsOf t m).map (·.2) := by
  unfold routesOf sufsOf
  cases methodRoot t.roots m with
  | none => rfl
  | some root => exact routesNode_eq root

theorem Good.pats {t : Tree} (h : Good t) (m : Bytes) : ∀ sr ∈ sufsOf t m, sr.1 = sr.2.pattern ∧ keyOk sr.1 = true := by
  unfold sufsOf
  cases hm : methodRoot t.roots m with
  | none => simp
  | some root => exact (h.roots _ (methodRoot_some hm)).pats

/-- one insertion below a method root -/
theorem insert_core {rs : Roots} {sz mp dp : Nat} {m : Bytes} {root : Node} {r : Route}
    (hg : Good ⟨rs, sz, mp, dp⟩) (hroot : methodRoot rs m = some root) (hv : validPattern r = true) :
    match insertNode root true 0 0 r.pattern r with
    | .ok res => (∀ sz' mp' dp', Good ⟨setRoot rs m res.node, sz', mp', dp'⟩) ∧
        (sufsNode res.node).Perm ((r.pattern, r) :: sufsNode root) ∧ ErrSpec (sufsNode root) r.pattern none
    | .error e => ErrSpec (sufsNode root) r.pattern (some e) ∧ (∀ cs, e = .conflict cs → cs ≠ []) := by
  have hro := hg.roots _ (methodRoot_some hroot)
  have hne := validPattern_ne_nil hv
  have hok := ((validPattern_iff r).mp hv).1
  have herr := err_insertRoot r root r.pattern hro.wf hne hok
  cases hi : insertNode root true 0 0 r.pattern r with
  | error e =>
    rw [hi] at herr
    refine ⟨herr, ?_⟩
    rintro cs rfl
    exact conflict_ne_nil_root r root r.pattern cs hro.wf hro.shape hne hi
  | ok res =>
    rw [hi] at herr
    have hperm := sufs_insertNode r root true 0 0 r.pattern res hi
    refine ⟨?_, hperm, herr⟩
    intro sz' mp' dp'
    apply good_setRoot hg
    refine ⟨wf_insertRoot r root r.pattern res hro.wf hne hok (validPattern_hostOk hv) hi,
      shape_insertRoot r root r.pattern res hro.wf hro.shape hne hok (validPattern_hostOk hv)
        (validPattern_hostPos hv) hi, ?_⟩
    intro sr hsr
    rcases List.mem_cons.mp (hperm.mem_iff.mp hsr) with rfl | h1
    · exact ⟨rfl, hok⟩
    · exact hro.pats sr h1

theorem sufsOf_setRoot_same {rs : Roots} {sz mp dp : Nat} {m : Bytes} {n n' : Node}
    (h : methodRoot rs m = some n) (sz' mp' dp' : Nat) :
    sufsOf ⟨setRoot rs m n', sz', mp', dp'⟩ m = sufsNode n' := by
  simp only [sufsOf, methodRoot_setRoot_same h]

theorem sufsOf_setRoot_other {rs : Roots} {m m' : Bytes} {n' : Node} (h : m' ≠ m) (sz mp dp sz' mp' dp' : Nat) :
    sufsOf ⟨setRoot rs m n', sz', mp', dp'⟩ m' = sufsOf ⟨rs, sz, mp, dp⟩ m' := by
  simp only [sufsOf, methodRoot_setRoot_other h]

/-- what `Tree.insert` does, in terms of suffix sets -/
theorem insert_spec {t : Tree} {m : Bytes} {r : Route} (hg : Good t) (hv : validPattern r = true) :
    match t.insert m r with
    | .ok (t', _) => Good t' ∧ t'.size = t.size + 1 ∧
        (sufsOf t' m).Perm ((r.pattern, r) :: sufsOf t m) ∧ (∀ m', m' ≠ m → sufsOf t' m' = sufsOf t m') ∧
        ErrSpec (sufsOf t m) r.pattern none
    | .error e => ErrSpec (sufsOf t m) r.pattern (some e) ∧ (∀ cs, e = .conflict cs → cs ≠ []) := by
  obtain ⟨roots, sz, mp, dp⟩ := t
  unfold Tree.insert
  simp only []
  cases hm : methodRoot roots m with
  | some root =>
    simp only [hm]
    have hc := insert_core hg hm hv
    cases hi : insertNode root true 0 0 r.pattern r with
    | error e => rw [hi] at hc; simpa [sufsOf, hm] using hc
    | ok res =>
      rw [hi] at hc
      obtain ⟨h1, h2, h3⟩ := hc
      obtain ⟨root', dep, cse⟩ := res
      simp only []
      refine ⟨h1 _ _ _, trivial, ?_, ?_, ?_⟩
      · rw [sufsOf_setRoot_same (sz := sz) (mp := mp) (dp := dp) hm]; simpa [sufsOf, hm] using h2
      · intro m' hm'; exact sufsOf_setRoot_other hm' _ _ _ _ _ _
      · simpa [sufsOf, hm] using h3
  | none =>
    have hm2 : methodRoot (roots ++ [(m, emptyNode)]) m = some emptyNode := methodRoot_append_same _ hm
    simp only [hm2]
    have hg2 : Good ⟨roots ++ [(m, emptyNode)], sz, mp, dp⟩ := by
      refine ⟨?_, ?_⟩
      · intro x hx
        rcases List.mem_append.mp hx with h1 | h1
        · exact hg.roots x h1
        · simp only [List.mem_singleton] at h1; subst h1; exact rootOk_empty
      · simp only [List.map_append, List.map_cons, List.map_nil]
        rw [List.nodup_append]
        refine ⟨hg.nodup, by simp, ?_⟩
        intro a ha b hb
        simp only [List.mem_singleton] at hb; subst hb
        obtain ⟨x, hx, rfl⟩ := List.mem_map.mp ha
        exact methodRoot_none hm x hx
    have hc := insert_core hg2 hm2 hv
    have hempty : sufsNode emptyNode = [] := by simp [emptyNode, sufsNode_own, own, sufsKids]
    have hother : ∀ m', m' ≠ m → ∀ sz' mp' dp' n', sufsOf ⟨setRoot (roots ++ [(m, emptyNode)]) m n', sz', mp', dp'⟩ m' =
        sufsOf ⟨roots, sz, mp, dp⟩ m' := by
      intro m' hm' sz' mp' dp' n'
      rw [sufsOf_setRoot_other hm' sz mp dp]
      simp only [sufsOf, methodRoot_append_other _ _ hm']
    cases hi : insertNode emptyNode true 0 0 r.pattern r with
    | error e => rw [hi] at hc; simpa [sufsOf, hm, hempty] using hc
    | ok res =>
      rw [hi] at hc
      obtain ⟨h1, h2, h3⟩ := hc
      obtain ⟨root', dep, cse⟩ := res
      simp only []
      refine ⟨h1 _ _ _, trivial, ?_, ?_, ?_⟩
      · rw [sufsOf_setRoot_same (sz := sz) (mp := mp) (dp := dp) hm2]; simpa [sufsOf, hm, hempty] using h2
      · intro m' hm'; exact hother m' hm' _ _ _ _
      · simpa [sufsOf, hm, hempty] using h3


/-- what `Tree.update` does, in terms of suffix sets -/
theorem update_spec {t : Tree} {m : Bytes} {r : Route} (hg : Good t) :
    match t.update m r with
    | some t' => Good t' ∧ t'.size = t.size ∧
        (∃ old X, (sufsOf t m).Perm ((r.pattern, old) :: X) ∧ (sufsOf t' m).Perm ((r.pattern, r) :: X)) ∧
        (∀ m', m' ≠ m → sufsOf t' m' = sufsOf t m')
    | none => ∀ sr ∈ sufsOf t m, sr.1 ≠ r.pattern := by
  obtain ⟨roots, sz, mp, dp⟩ := t
  unfold Tree.update
  simp only []
  cases hm : methodRoot roots m with
  | none => simp [sufsOf, hm]
  | some root =>
    simp only []
    have hro := hg.roots _ (methodRoot_some hm)
    cases hu : updateNode root r.pattern r with
    | none =>
      simp only [sufsOf, hm]
      intro sr hsr e
      have hk := (hro.pats sr hsr).2
      obtain ⟨s, x⟩ := sr
      simp only at e hk; subst e
      have := found_updateRoot r hro.wf hk hsr
      rw [hu] at this; cases this
    | some root' =>
      simp only []
      obtain ⟨old, X, h1, h2⟩ := sufs_updateNode r root _ _ hu
      have hkold : keyOk r.pattern = true :=
        (hro.pats (r.pattern, old) (h1.mem_iff.mpr (by simp))).2
      refine ⟨?_, trivial, ⟨old, X, ?_, ?_⟩, ?_⟩
      · apply good_setRoot hg
        refine ⟨wf_updateRoot hro.wf hu, shape_updateRoot hro.wf hro.shape hu, ?_⟩
        intro sr hsr
        rcases List.mem_cons.mp (h2.mem_iff.mp hsr) with rfl | h3
        · exact ⟨rfl, hkold⟩
        · exact hro.pats sr (h1.mem_iff.mpr (List.mem_cons_of_mem _ h3))
      · simpa [sufsOf, hm] using h1
      · rw [sufsOf_setRoot_same (sz := sz) (mp := mp) (dp := dp) hm]; exact h2
      · intro m' hm'; exact sufsOf_setRoot_other hm' _ _ _ _ _ _

theorem sufsNode_no_children {n : Node} (hwf : wfRoot n = true) (hc : n.children.isEmpty = true) :
    sufsNode n = [] := by
  obtain ⟨k, ro, cs⟩ := n
  obtain ⟨rfl, rfl, _, _⟩ := (wfRoot_iff _ _ _).mp hwf
  simp only [Node.children_mk, List.isEmpty_iff] at hc; subst hc
  simp [sufsNode_own, own, sufsKids]

/-- what `Tree.remove` does, in terms of suffix sets -/
theorem remove_spec {t : Tree} {m : Bytes} {toks : List Tok} (hg : Good t) :
    match t.remove m toks with
    | some (t', old, _) => Good t' ∧ t'.size = t.size - 1 ∧
        (sufsOf t m).Perm ((toks, old) :: sufsOf t' m) ∧ (∀ m', m' ≠ m → sufsOf t' m' = sufsOf t m')
    | none => ∀ sr ∈ sufsOf t m, sr.1 ≠ toks := by
  obtain ⟨roots, sz, mp, dp⟩ := t
  unfold Tree.remove
  simp only []
  cases hm : methodRoot roots m with
  | none => simp [sufsOf, hm]
  | some root =>
    simp only []
    have hro := hg.roots _ (methodRoot_some hm)
    cases hr : removeNode root true toks with
    | none =>
      simp only [sufsOf, hm]
      intro sr hsr e
      have hk := (hro.pats sr hsr).2
      obtain ⟨s, x⟩ := sr
      simp only at e hk; subst e
      have := found_removeNode root true s x (by simpa [wfN] using hro.wf) hk hsr
      rw [hr] at this; cases this
    | some y =>
      obtain ⟨res, old, cse⟩ := y
      obtain ⟨root', rfl, hsh'⟩ := shape_removeRoot root toks res old cse hro.wf hro.shape hr
      have hwf' : wfRoot root' = true := by
        have := (wf_removeNode root true toks _ old cse (by simpa [wfN] using hro.wf) hr root' rfl).1
        simpa [wfN] using this
      have hperm := sufs_removeNode root true toks _ old cse hr
      simp only [sufsRem] at hperm
      have hro' : RootOk root' :=
        ⟨hwf', hsh', fun sr hsr => hro.pats sr (hperm.mem_iff.mpr (List.mem_cons_of_mem _ hsr))⟩
      simp only []
      cases hcond : (root'.children.isEmpty && isRemovable m) with
      | true =>
        simp only [if_true]
        simp only [Bool.and_eq_true] at hcond
        refine ⟨?_, trivial, ?_, ?_⟩
        · refine ⟨fun x hx => hg.roots x (List.mem_filter.mp hx).1, ?_⟩
          exact hg.nodup.sublist (List.Sublist.map _ List.filter_sublist)
        · simp only [sufsOf, hm, methodRoot_filter_same]
          rw [sufsNode_no_children hwf' hcond.1] at hperm
          exact hperm
        · intro m' hm'
          simp only [sufsOf, methodRoot_filter_other _ hm']
      | false =>
        simp only [Bool.false_eq_true, if_false]
        refine ⟨good_setRoot hg m hro' _ _ _, trivial, ?_, ?_⟩
        · rw [sufsOf_setRoot_same (sz := sz) (mp := mp) (dp := dp) hm]
          simpa [sufsOf, hm] using hperm
        · intro m' hm'; exact sufsOf_setRoot_other hm' _ _ _ _ _ _


/-! ### the specification store -/

/-- no two entries of the store have the same key (method, pattern) -/
def StoreOk (s : Store) : Prop := (s.map fun e => (e.1, e.2.pattern)).Nodup

theorem store_get_eq (s : Store) (m : Bytes) (pat : List Tok) :
    s.get m pat = (s.routesOf m).find? (fun r => r.pattern == pat) := by
  simp only [Store.get, Store.routesOf, List.find?_map, List.find?_filter]
  congr 2
  funext e
  simp only [Function.comp, Bool.decide_and, Bool.decide_eq_true]

theorem store_conflicts_eq (s : Store) (m : Bytes) (pat : List Tok) :
    s.conflicts m pat = (s.routesOf m).filter (fun r => conflictWith r.pattern pat) := by
  simp only [Store.conflicts, Store.routesOf, List.filter_map, List.filter_filter]
  congr 1
  apply List.filter_congr
  intro e _
  simp [Bool.and_comm]

theorem store_routesOf_patterns_nodup {s : Store} (h : StoreOk s) (m : Bytes) :
    ((s.routesOf m).map (·.pattern)).Nodup := by
  unfold StoreOk at h
  simp only [Store.routesOf, List.map_map]
  rw [List.Nodup, List.pairwise_map] at h ⊢
  refine (h.sublist List.filter_sublist).imp_of_mem ?_
  intro a b ha hb hab e
  simp only [List.mem_filter, beq_iff_eq] at ha hb
  apply hab
  simp only [Function.comp] at e
  rw [Prod.mk.injEq]; exact ⟨ha.2.trans hb.2.symm, e⟩

theorem filter_length_split {α} (p : α → Bool) (l : List α) :
    (l.filter p).length + (l.filter fun x => !p x).length = l.length := by
  induction l with
  | nil => rfl
  | cons x xs ih =>
    cases hp : p x <;> simp [List.filter_cons, hp] <;> omega

theorem store_routesOf_filter_ne_same (s : Store) (m : Bytes) :
    Store.routesOf (s.filter fun e => e.1 != m) m = [] := by
  simp only [Store.routesOf, List.filter_filter, List.map_eq_nil_iff, List.filter_eq_nil_iff]
  intro e _; simp

theorem store_routesOf_filter_ne_other (s : Store) {m m' : Bytes} (h : m' ≠ m) :
    Store.routesOf (s.filter fun e => e.1 != m) m' = s.routesOf m' := by
  simp only [Store.routesOf, List.filter_filter]
  congr 1
  apply List.filter_congr
  intro e _
  cases he : e.1 == m'
  · simp
  · simp only [beq_iff_eq] at he; subst he; simp [h]

/-- the tree holds the same (method, route) pairs as the store, and counts them -/
def abs (t : Tree) (s : Store) : Prop :=
  (∀ m, (routesOf t m).Perm (s.routesOf m)) ∧ t.size = s.length

theorem conflictsIn_eq_filter {S : SufSet} (h : ∀ sr ∈ S, sr.1 = sr.2.pattern ∧ keyOk sr.1 = true) (pat : List Tok) :
    conflictsIn S pat = (S.map (·.2)).filter (fun r => conflictWith r.pattern pat) := by
  simp only [conflictsIn, List.filter_map]
  congr 1
  apply List.filter_congr
  intro sr hsr
  simp [Function.comp, (h sr hsr).1]

end Fox.C02
