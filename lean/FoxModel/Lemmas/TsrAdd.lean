import FoxModel.Lemmas.TsrRemove
import FoxModel.Lemmas.SpecF
/-
  Trailing-slash candidates, "add the slash" direction: for a request path `q` (not ending in '/', no empty segment)
  that no route matches directly, the candidates recorded by the walk are, in order and up to repetition, the direct
  matches of `q ++ "/"` among the routes whose pattern ends with a literal '/'.
-/
namespace Fox.Model
open Fox Fox.Spec

/-- routes whose pattern ends with a literal '/' -/
abbrev F (S : SufSet) : SufSet := flt endsWithLitSlash S

/-- every non-empty suffix stored in the set ends like the pattern of its route -/
def LastOK (S : SufSet) : Prop := ∀ sr ∈ S, sr.1 ≠ [] → sr.1.getLast? = sr.2.pattern.getLast?

theorem LastOK.append_left {S T : SufSet} (h : LastOK (S ++ T)) : LastOK S :=
  fun sr hsr => h sr (List.mem_append_left _ hsr)
theorem LastOK.append_right {S T : SufSet} (h : LastOK (S ++ T)) : LastOK T :=
  fun sr hsr => h sr (List.mem_append_right _ hsr)

theorem LastOK.tails {S : SufSet} (h : LastOK S) : LastOK (tails S) := by
  intro sr hsr hne
  simp only [Spec.tails, List.mem_map] at hsr
  obtain ⟨x, hx, rfl⟩ := hsr
  simp only at hne ⊢
  have hx1 : x.1 ≠ [] := by intro h0; rw [h0] at hne; exact hne rfl
  rw [← h x hx hx1]
  cases hx' : x.1 with
  | nil => exact absurd hx' hx1
  | cons t s' =>
    rw [hx'] at hne
    simp only [List.tail_cons] at hne ⊢
    cases s' with
    | nil => exact absurd rfl hne
    | cons u s'' => simp [List.getLast?_cons_cons]

theorem LastOK.of_map_prefix {S : SufSet} {k : List Tok}
    (h : LastOK (S.map fun sr => (k ++ sr.1, sr.2))) (hne : ∀ sr ∈ S, sr.1 ≠ []) : LastOK S := by
  intro sr hsr hn
  have := h (k ++ sr.1, sr.2) (List.mem_map.mpr ⟨sr, hsr, rfl⟩) (by simp [hn])
  simp only at this
  rw [← this, List.getLast?_append]
  cases hx : sr.1 with
  | nil => exact absurd hx hn
  | cons a as =>
    have : (a :: as).getLast?.isSome = true := by simp
    cases hg : (a :: as).getLast? with
    | none => rw [hg] at this; cases this
    | some v => simp

theorem sufsKids_nonempty {cs : List Node} (hw : wfKids cs = true) : ∀ sr ∈ sufsKids cs, sr.1 ≠ [] := by
  induction cs with
  | nil => intro sr h; simp at h
  | cons c cs ih =>
    have hw' := wfKids_cons.mp hw
    intro sr hsr
    rw [sufsKids_cons, List.mem_append] at hsr
    rcases hsr with h | h
    · obtain ⟨t, k', _, hh⟩ := wfNode_head hw'.1
      obtain ⟨s', hs⟩ := hh sr h
      rw [hs]; simp
    · exact ih hw'.2 sr h

/-- from the set of a node to the set of its children -/
theorem LastOK.kids {n : Node} {k : List Tok} (h : LastOK (sufsFrom n k)) (hw : wfKids n.children = true) :
    LastOK (sufsKids n.children) := by
  rw [sufsFrom_eq] at h
  exact h.append_right.of_map_prefix (sufsKids_nonempty hw)

theorem LastOK.child {cs : List Node} (h : LastOK (sufsKids cs)) {c : Node} (hc : c ∈ cs) : LastOK (sufsNode c) := by
  induction cs with
  | nil => cases hc
  | cons x xs ih =>
    rw [sufsKids_cons] at h
    cases hc with
    | head => exact h.append_left
    | tail _ h' => exact ih h.append_right h'

theorem LastOK.step {n : Node} {t : Tok} {k : List Tok} (h : LastOK (sufsFrom n (t :: k))) : LastOK (sufsFrom n k) := by
  have := h.tails
  rwa [tails_sufsFrom] at this

/-- a suffix catch-all route is never among the routes ending in a literal '/' -/
theorem suffixCatch_F {S : SufSet} (h : LastOK S) (p ps) : suffixCatch (F S) p ps = [] := by
  unfold suffixCatch
  rw [List.filterMap_eq_nil_iff]
  intro sr hsr
  have hmem := (List.mem_filter.mp hsr)
  have hS : sr ∈ S := hmem.1
  have hp : endsWithLitSlash sr.2 = true := hmem.2
  split
  · rename_i n heq
    exfalso
    have := h sr hS (by rw [heq]; simp)
    rw [heq] at this
    simp only [List.getLast?_singleton] at this
    unfold endsWithLitSlash at hp
    rw [← this] at hp
    simp at hp
  · rfl

theorem endsHere_allNonempty {S : SufSet} (h : ∀ sr ∈ S, sr.1 ≠ []) (ps) : endsHere S ps = [] := by
  unfold endsHere
  rw [List.filterMap_eq_nil_iff]
  intro sr hsr
  simp [h sr hsr]

/-- the value of "exactly '/' of the key is left and the node is a leaf" -/
def slashLeaf (n : Node) (k : List Tok) (ps : Binds) : Res :=
  if k = [Tok.lit SLASH] then (match n.route with | some r => [(r, ps)] | none => []) else []

/-- **SL**: with exactly "/" of the path left inside a node's key, the filtered specification finds the node's own route
    iff exactly "/" of the key is left -/
theorem spec_slash_key (n : Node) (t : Tok) (k' : List Tok) (ps : Binds)
    (hw : wfKids n.children = true) (hL : LastOK (sufsFrom n (t :: k'))) :
    specAll (F (sufsFrom n (t :: k'))) [SLASH] ps = slashLeaf n (t :: k') ps := by
  have hh : AllHead t (F (sufsFrom n (t :: k'))) := (allHead_sufsFrom n t k').flt _
  unfold slashLeaf
  cases t with
  | lit c =>
    rw [specAll_lit hh, tails_flt_sufsFrom]
    by_cases hc : c = SLASH
    · subst hc
      simp only [if_true]
      cases k' with
      | nil =>
        simp only [if_true]
        -- endsHere: the route's own (empty) suffix, if the route ends with '/'
        unfold specAll
        rw [sufsFrom_flt, endsHere_append]
        have hk : endsHere ((flt endsWithLitSlash (sufsKids n.children)).map fun sr => (([] : List Tok) ++ sr.1, sr.2)) ps = [] := by
          apply endsHere_allNonempty
          intro sr hsr
          simp only [List.nil_append, List.mem_map] at hsr
          obtain ⟨x, hx, rfl⟩ := hsr
          exact sufsKids_nonempty hw x (List.mem_filter.mp hx).1
        rw [hk, List.append_nil]
        cases hr : n.route with
        | none => simp [routeSuf]
        | some r =>
          have hin : ([Tok.lit SLASH], r) ∈ sufsFrom n [Tok.lit SLASH] := by
            rw [sufsFrom_eq, hr]; simp [routeSuf]
          have := hL _ hin (by simp)
          simp only [List.getLast?_singleton] at this
          have hp : endsWithLitSlash r = true := by unfold endsWithLitSlash; rw [← this]; simp
          simp [routeSuf, flt, hp, endsHere]
      | cons u k'' =>
        have : ¬ (Tok.lit SLASH :: u :: k'' = [Tok.lit SLASH]) := by simp
        simp only [this, if_false]
        exact specAll_head_nil ((allHead_sufsFrom n u k'').flt _) ps
    · have : ¬ (Tok.lit c :: k' = [Tok.lit SLASH]) := by
        intro h; injection h with h1 _; injection h1 with h1; exact hc h1
      simp [hc, this]
  | param nm =>
    rw [specAll_param hh]
    simp [segEnd]
  | catchAll nm =>
    rw [specAll_cons, advLit_allHead_other hh (by intro c; simp),
      paramPart_of_advParam_nil (advParam_allHead_other hh (by intro m; simp)), suffixCatch_F hL]
    simp [infixPart, specAll_nil]

theorem spec_slash_node {c : Node} (hwc : wfNode c = true) (hL : LastOK (sufsNode c)) (ps : Binds) :
    specAll (F (sufsNode c)) [SLASH] ps = slashLeaf c c.key ps := by
  obtain ⟨t, k', hk, _⟩ := wfNode_head hwc
  rw [sufsNode_eq] at hL ⊢
  rw [hk] at hL ⊢
  exact spec_slash_key c t k' ps (wfNode_leafcond hwc).1 hL

theorem slashLeaf_of_not_slash {c : Node} (h : startsWithSlash c.key = false) (ps) : slashLeaf c c.key ps = [] := by
  unfold slashLeaf
  have : ¬ c.key = [Tok.lit SLASH] := by intro hk; rw [hk] at h; simp [startsWithSlash] at h
  simp [this]

theorem flatMap_slashLeaf_none {cs : List Node} (ps) (h : ∀ c ∈ cs, startsWithSlash c.key = false) :
    cs.flatMap (fun c => slashLeaf c c.key ps) = [] := by
  rw [List.flatMap_eq_nil_iff]
  intro c hc; exact slashLeaf_of_not_slash (h c hc) ps

/-- with exactly "/" left at the end of a node's key: only the leaf child "/" can match -/
theorem spec_kids_slash {cs : List Node} (hw : wfKids cs = true) (hd : nodupB (kindsOf cs) = true)
    (hL : LastOK (sufsKids cs)) (ps : Binds) :
    specAll (F (sufsKids cs)) [SLASH] ps =
      (match cs.find? (fun c => startsWithSlash c.key) with
       | some c => slashLeaf c c.key ps
       | none => []) := by
  rw [specAll_kids_f hw hd]
  have hval : ∀ c ∈ cs, specAll (F (sufsNode c)) [SLASH] ps = slashLeaf c c.key ps :=
    fun c hc => spec_slash_node (mem_wfKids hw hc) (hL.child hc) ps
  have hrew : ∀ (sel : Sel),
      (cs.filter (fun c => sel.matches c.key)).flatMap (fun c => specAll (F (sufsNode c)) [SLASH] ps) =
      (cs.filter (fun c => sel.matches c.key)).flatMap (fun c => slashLeaf c c.key ps) := by
    intro sel
    have : ∀ (l : List Node), (∀ c ∈ l, c ∈ cs) →
        l.flatMap (fun c => specAll (F (sufsNode c)) [SLASH] ps) = l.flatMap (fun c => slashLeaf c c.key ps) := by
      intro l
      induction l with
      | nil => intro _; rfl
      | cons x xs ih =>
        intro hm
        simp only [List.flatMap_cons]
        rw [hval x (hm x (by simp)), ih (fun c hc => hm c (by simp [hc]))]
    exact this _ (fun c hc => (List.mem_filter.mp hc).1)
  rw [hrew, hrew, hrew]
  have hp : (cs.filter (fun c => Sel.param.matches c.key)).flatMap (fun c => slashLeaf c c.key ps) = [] := by
    apply flatMap_slashLeaf_none
    intro c hc
    have := (sel_matches_iff _ _).mp (List.mem_filter.mp hc).2
    cases hs : startsWithSlash c.key with
    | false => rfl
    | true => rw [kindOf_of_startsWithSlash hs] at this; cases this
  have hc' : (cs.filter (fun c => Sel.catchAll.matches c.key)).flatMap (fun c => slashLeaf c c.key ps) = [] := by
    apply flatMap_slashLeaf_none
    intro c hc
    have := (sel_matches_iff _ _).mp (List.mem_filter.mp hc).2
    cases hs : startsWithSlash c.key with
    | false => rfl
    | true => rw [kindOf_of_startsWithSlash hs] at this; cases this
  rw [hp, hc', List.append_nil, List.append_nil]
  -- the static '/' children: at most one
  clear hval hrew hp hc' hL
  induction cs with
  | nil => rfl
  | cons c cs ih =>
    have hw' := wfKids_cons.mp hw
    rw [List.filter_cons, List.find?_cons]
    by_cases hs : startsWithSlash c.key = true
    · have hk := kindOf_of_startsWithSlash hs
      have hothers := nodup_others hd hk
      simp [(sel_matches_iff _ _).mpr hk, hs, filter_none hothers]
    · have hs' : startsWithSlash c.key = false := by simpa using hs
      have hm : (Sel.static SLASH).matches c.key = false := by
        apply matches_false
        intro hk; exact hs (startsWithSlash_iff.mpr hk)
      simp only [hm, hs', Bool.false_eq_true, if_false]
      exact ih hw'.2 (nodup_tail hd)

end Fox.Model

namespace Fox.Model
open Fox Fox.Spec

/-- no two consecutive slashes (no empty segment inside the path) -/
def noDbl : Bytes → Bool
  | a :: b :: rest => !(a == SLASH && b == SLASH) && noDbl (b :: rest)
  | _ => true

theorem noDbl_tail {a : UInt8} {q : Bytes} (h : noDbl (a :: q) = true) : noDbl q = true := by
  cases q with
  | nil => rfl
  | cons b rest => simp only [noDbl, Bool.and_eq_true] at h; exact h.2

theorem noDbl_drop {q : Bytes} (h : noDbl q = true) (e : Nat) : noDbl (q.drop e) = true := by
  induction e generalizing q with
  | zero => simpa using h
  | succ e ih =>
    cases q with
    | nil => rfl
    | cons a q' => simp only [List.drop_succ_cons]; exact ih (noDbl_tail h)

theorem noDbl_append_right {a q : Bytes} (h : noDbl (a ++ q) = true) : noDbl q = true := by
  have := noDbl_drop h a.length
  simpa using this

theorem noDbl_slash_slash {acc rest : Bytes} (ha : acc.getLast? = some SLASH) (h : noDbl (acc ++ SLASH :: rest) = true) : False := by
  induction acc with
  | nil => simp at ha
  | cons a as ih =>
    cases as with
    | nil =>
      simp only [List.getLast?_singleton, Option.some.injEq] at ha
      subst ha
      simp [noDbl] at h
    | cons b bs =>
      apply ih
      · simpa [List.getLast?_cons_cons] using ha
      · exact noDbl_tail h

theorem getLast?_tail_ne {b : UInt8} {rest : Bytes} (h : (b :: rest).getLast? ≠ some SLASH) : rest.getLast? ≠ some SLASH := by
  cases rest with
  | nil => simp
  | cons c r => simpa [List.getLast?_cons_cons] using h

theorem getLast?_drop_ne {q : Bytes} (h : q.getLast? ≠ some SLASH) (e : Nat) : (q.drop e).getLast? ≠ some SLASH := by
  induction e generalizing q with
  | zero => simpa using h
  | succ e ih =>
    cases q with
    | nil => simp
    | cons a q' => simp only [List.drop_succ_cons]; exact ih (getLast?_tail_ne h)

theorem getLast?_append_cons (acc : Bytes) (c : UInt8) (rest : Bytes) :
    (acc ++ c :: rest).getLast? = (c :: rest).getLast? := by
  rw [List.getLast?_append]
  cases hg : (c :: rest).getLast? with
  | none => simp at hg
  | some v => simp

theorem key_eq_slash {k : List Tok} (h1 : startsWithSlash k = true) (h2 : (k.length == 1) = true) : k = [Tok.lit SLASH] := by
  cases k with
  | nil => simp [startsWithSlash] at h1
  | cons t k' =>
    cases k' with
    | nil =>
      cases t with
      | lit b => simp [startsWithSlash] at h1; simp [h1]
      | param n => simp [startsWithSlash] at h1
      | catchAll n => simp [startsWithSlash] at h1
    | cons u k'' => simp at h2

theorem key_ne_slash {k : List Tok} (h2 : ¬ (k.length == 1) = true) : k ≠ [Tok.lit SLASH] := by
  intro h; rw [h] at h2; simp at h2

theorem walk_nil_cons_eq (n pre t k' pr es ps) :
    walk n pre (t :: k') pr es [] ps = midKeyEnd n pre (t :: k') pr es ps := by
  cases t <;> (unfold walk; rfl)

theorem tsrs_midKeyEnd_false (n pre k pr ps) : tsrs (midKeyEnd n pre k pr false ps) = slashLeaf n k ps := by
  unfold midKeyEnd slashLeaf
  simp only [Bool.false_eq_true, if_false]
  cases n.route with
  | none => simp
  | some r =>
    by_cases hk : k = [Tok.lit SLASH]
    · simp [hk]
    · have : (k == [Tok.lit SLASH]) = false := by simpa using hk
      simp [hk, this]

theorem walk_nil_cons_tsrs' (n pre pr es b rest ps) (h : ¬ (rest = [] ∧ b = SLASH)) :
    tsrs (walk n pre [] pr es (b :: rest) ps) =
      tsrs (if b == STAR then [] else walkKids (.static b) n.children n.route es (b :: rest) ps)
      ++ tsrs (walkKids .param n.children n.route es (b :: rest) ps)
      ++ tsrs (walkKids .catchAll n.children n.route es (b :: rest) ps) := by
  unfold walk
  rw [tsrs_append, tsrs_append, tsrs_append]
  cases hr : n.route with
  | none => simp
  | some r => simp [h]

theorem walk_catch_infix_false_tsrs (n : Node) (pre nm t k'' pr b p ps) :
    tsrs (walk n pre (Tok.catchAll nm :: t :: k'') pr false (b :: p) ps) =
      if b = SLASH then [] else
        tsrs (walkInfix (.mk (t :: k'') n.route n.children) nm [b] p false ps)
          ++ slashLeaf n (t :: k'') (ps ++ [(nm, b :: p)]) := by
  conv => lhs; unfold walk
  rw [tsrs_append]
  by_cases hb : b = SLASH
  · simp [hb]
  · simp only [hb, if_false]
    congr 1
    unfold slashLeaf
    cases n.route with
    | none => simp
    | some r =>
      by_cases hk : (t :: k'') = [Tok.lit SLASH]
      · simp [hk]
      · have : ((t :: k'') == [Tok.lit SLASH]) = false := by simpa using hk
        simp [hk, this]

theorem walk_catch_infix_false_directs (n : Node) (pre nm t k'' pr b p ps) :
    directs (walk n pre (Tok.catchAll nm :: t :: k'') pr false (b :: p) ps) =
      if b = SLASH then [] else directs (walkInfix (.mk (t :: k'') n.route n.children) nm [b] p false ps) := by
  obtain ⟨X, e, hd, _⟩ := walk_catch_infix n pre nm t k'' pr false b p ps
  rw [e, directs_append, hd, List.append_nil]
  split <;> rfl

/-- the candidate produced when an infix catch-all has swallowed the whole rest and exactly "/" of the key is left -/
def FT (inode : Node) (nm acc rest : Bytes) (ps : Binds) : Res :=
  if (acc ++ rest).getLast? = some SLASH then []
  else specAll (F (sufsNode inode)) [SLASH] (ps ++ [(nm, acc ++ rest)])

theorem specInfix_nil_rest (S nm acc ps) : specInfix S nm acc [] ps = [] := by unfold specInfix; rfl

theorem specInfix_slash (S nm acc r ps) :
    specInfix S nm acc (SLASH :: r) ps =
      if acc.getLast? = some SLASH then []
      else specAll S (SLASH :: r) (ps ++ [(nm, acc)]) ++ specInfix S nm (acc ++ [SLASH]) r ps := by
  conv => lhs; unfold specInfix
  simp

theorem specInfix_other (S nm acc b r ps) (hb : ¬ b = SLASH) :
    specInfix S nm acc (b :: r) ps = specInfix S nm (acc ++ [b]) r ps := by
  conv => lhs; unfold specInfix
  simp [hb]

def A1 (n : Node) (pre k : List Tok) (pr : Option Route) (q : Bytes) (ps : Binds) : Prop :=
  wfKids n.children = true → nodupB (kindsOf n.children) = true →
  (endsWithCatchAll k = true → n.route.isSome = true ∧ allSlash n.children = true) →
  LastOK (sufsFrom n k) → q.getLast? ≠ some SLASH → noDbl q = true →
  directs (walk n pre k pr false q ps) = [] →
  Sim (tsrs (walk n pre k pr false q ps)) (specAll (F (sufsFrom n k)) (q ++ [SLASH]) ps)

def A2 (inode : Node) (nm acc rest : Bytes) (ps : Binds) : Prop :=
  wfKids inode.children = true → nodupB (kindsOf inode.children) = true → inode.key ≠ [] →
  (endsWithCatchAll inode.key = true → inode.route.isSome = true ∧ allSlash inode.children = true) →
  LastOK (sufsNode inode) → (acc ++ rest).getLast? ≠ some SLASH → noDbl (acc ++ rest) = true → acc ≠ [] →
  directs (walkInfix inode nm acc rest false ps) = [] →
  Sim (tsrs (walkInfix inode nm acc rest false ps) ++ FT inode nm acc rest ps)
      (specInfix (F (sufsNode inode)) nm acc (rest ++ [SLASH]) ps)

def A3 (sel : Sel) (cs : List Node) (pr : Option Route) (q : Bytes) (ps : Binds) : Prop :=
  wfKids cs = true → LastOK (sufsKids cs) → q ≠ [] → q.getLast? ≠ some SLASH → noDbl q = true →
  directs (walkKids sel cs pr false q ps) = [] →
  Sim (tsrs (walkKids sel cs pr false q ps))
      ((cs.filter (fun c => sel.matches c.key)).flatMap (fun c => specAll (F (sufsNode c)) (q ++ [SLASH]) ps))

theorem hc_step {n : Node} {t : Tok} {k' : List Tok}
    (hc : endsWithCatchAll (t :: k') = true → n.route.isSome = true ∧ allSlash n.children = true) :
    endsWithCatchAll k' = true → n.route.isSome = true ∧ allSlash n.children = true := by
  intro h; apply hc
  cases k' with
  | nil => simp [endsWithCatchAll] at h
  | cons u k'' => rw [endsWithCatchAll_cons]; exact h

theorem wfNode_full {c : Node} (h : wfNode c = true) :
    wfKids c.children = true ∧ nodupB (kindsOf c.children) = true ∧ c.key ≠ [] ∧
      (endsWithCatchAll c.key = true → c.route.isSome = true ∧ allSlash c.children = true) := by
  obtain ⟨t, k', hk, _⟩ := wfNode_head h
  cases c with
  | mk ck cr ccs =>
    have := wfNode_kids h
    simp only [Node.key] at hk
    subst hk
    exact ⟨this.1, this.2.1, by simp [Node.key], this.2.2⟩

theorem tsr_add_all :
    (∀ n pre k pr q ps, A1 n pre k pr q ps) ∧
    (∀ inode nm acc rest ps, A2 inode nm acc rest ps) ∧
    (∀ sel cs pr q ps, A3 sel cs pr q ps) := by
  apply walk.mutual_induct false A1 A2 A3
  -- k = [], q = []
  · intro n pre pr ps p hr _ _ _ _ _ _ hX
    exfalso
    have : directs (walk n pre [] pr false [] ps) = [(p, ps)] := by unfold walk; simp [hr]
    rw [this] at hX; cases hX
  · intro n pre ps _ hes; cases hes
  · intro n pre ps _ hes; cases hes
  · intro n pre ps _ hes; cases hes
  · intro n pre pr ps hr _ c hc p hcr hlen hw hd _ hL _ _ _
    have hT : tsrs (walk n pre [] pr false [] ps) = [(p, ps)] := by unfold walk; simp [hr, hc, hcr, hlen]
    rw [hT, List.nil_append, sufsFrom_nil_cons_f, spec_kids_slash hw hd (hL.kids hw), hc]
    have hs : startsWithSlash c.key = true := by simpa using List.find?_some hc
    simp only [slashLeaf, key_eq_slash hs hlen, hcr, if_true]
    exact Sim.refl _
  · intro n pre pr ps hr _ c hc p hcr hlen hw hd _ hL _ _ _
    have hT : tsrs (walk n pre [] pr false [] ps) = [] := by unfold walk; simp [hr, hc, hcr, hlen]
    rw [hT, List.nil_append, sufsFrom_nil_cons_f, spec_kids_slash hw hd (hL.kids hw), hc]
    simp only [slashLeaf, key_ne_slash hlen, if_false]
    exact Sim.nil
  · intro n pre pr ps hr _ c hc hcr hw hd _ hL _ _ _
    have hT : tsrs (walk n pre [] pr false [] ps) = [] := by unfold walk; simp [hr, hc, hcr]
    rw [hT, List.nil_append, sufsFrom_nil_cons_f, spec_kids_slash hw hd (hL.kids hw), hc]
    simp only [slashLeaf, hcr]
    split <;> exact Sim.nil
  · intro n pre pr ps hr _ hc hw hd _ hL _ _ _
    have hT : tsrs (walk n pre [] pr false [] ps) = [] := by unfold walk; simp [hr, hc]
    rw [hT, List.nil_append, sufsFrom_nil_cons_f, spec_kids_slash hw hd (hL.kids hw), hc]
    exact Sim.nil
  -- k = [], q = b :: rest
  · intro n pre pr ps b rest ih1 ih2 ih3 hw hd _ hL hq hn hX
    unfold A3 at ih1 ih2 ih3
    have hLk := hL.kids hw
    simp only [List.cons_append] at ih1 ih2 ih3 ⊢
    rw [walk_nil_cons_directs] at hX
    rw [walk_nil_cons_tsrs' _ _ _ _ _ _ _ (by
      rintro ⟨h1, h2⟩; subst h1; subst h2; exact hq (by simp))]
    rw [sufsFrom_nil_cons_f, specAll_kids_f hw hd]
    simp only [append_nil_iff] at hX
    refine Sim.append (Sim.append ?_ (ih2 hw hLk (by simp) hq hn hX.1.2)) (ih3 hw hLk (by simp) hq hn hX.2)
    by_cases hb : (b == STAR) = true
    · have hbe : b = STAR := by simpa using hb
      subst hbe
      simp only [hb, if_true, tsrs_nil]
      rw [filter_none (kids_no_star hw)]
      exact Sim.nil
    · simp only [hb] at hX ⊢
      exact ih1 hw hLk (by simp) hq hn hX.1.1
  -- literal token
  · intro n pre pr ps c k' hw _ _ hL _ _ _
    rw [walk_nil_cons_eq, tsrs_midKeyEnd_false, List.nil_append, spec_slash_key n _ _ ps hw hL]
    exact Sim.refl _
  · intro n pre pr ps k' b rest ih hw hd hc hL hq hn hX
    unfold A1 at ih
    simp only [List.cons_append]
    rw [walk_lit_eq] at hX ⊢
    rw [specAll_lit ((allHead_sufsFrom n _ _).flt _), tails_flt_sufsFrom]
    simp only [if_true]
    exact ih hw hd (hc_step hc) hL.step (getLast?_tail_ne hq) (noDbl_tail hn) hX
  · intro n pre pr ps c k' b rest hcb _ _ _ _ _ _ _
    simp only [List.cons_append]
    rw [walk_lit_ne _ _ _ _ _ _ _ _ _ hcb, specAll_lit ((allHead_sufsFrom n _ _).flt _)]
    simp only [hcb, if_false]
    exact Sim.nil
  -- parameter token
  · intro n pre pr ps nm k' hw _ _ hL _ _ _
    rw [walk_nil_cons_eq, tsrs_midKeyEnd_false, List.nil_append, spec_slash_key n _ _ ps hw hL]
    exact Sim.refl _
  · intro n pre pr ps nm k' b rest he _ _ _ _ _ _ _
    have he' : segEnd SLASH (b :: (rest ++ [SLASH])) = 0 := by
      have := segEnd_append_slash (b :: rest); simp only [List.cons_append] at this; rw [this]; exact he
    simp only [List.cons_append]
    rw [walk_param_zero _ _ _ _ _ _ _ _ _ he, specAll_param ((allHead_sufsFrom n _ _).flt _)]
    simp only [he', if_true]
    exact Sim.nil
  · intro n pre pr ps nm k' b rest he ih hw hd hc hL hq hn hX
    unfold A1 at ih
    have hs : segEnd SLASH (b :: (rest ++ [SLASH])) = segEnd SLASH (b :: rest) := by
      have := segEnd_append_slash (b :: rest); simpa only [List.cons_append] using this
    have hdr : (b :: (rest ++ [SLASH])).drop (segEnd SLASH (b :: rest)) =
        (b :: rest).drop (segEnd SLASH (b :: rest)) ++ [SLASH] := by
      have := drop_append_slash (b :: rest); simpa only [List.cons_append] using this
    have ht : (b :: (rest ++ [SLASH])).take (segEnd SLASH (b :: rest)) =
        (b :: rest).take (segEnd SLASH (b :: rest)) := by
      have := take_append_slash (b :: rest); simpa only [List.cons_append] using this
    simp only [List.cons_append]
    rw [walk_param_step _ _ _ _ _ _ _ _ _ he] at hX ⊢
    rw [specAll_param ((allHead_sufsFrom n _ _).flt _), tails_flt_sufsFrom, hs, hdr, ht]
    simp only [he, if_false]
    exact ih hw hd (hc_step hc) hL.step (getLast?_drop_ne hq _) (noDbl_drop hn _) hX
  -- catch-all token
  · intro n pre pr ps nm k' hw _ _ hL _ _ _
    rw [walk_nil_cons_eq, tsrs_midKeyEnd_false, List.nil_append, spec_slash_key n _ _ ps hw hL]
    exact Sim.refl _
  · intro n pre pr ps nm b rest hcs p hr _ _ _ _ _ _ hX
    exfalso
    rw [walk_catch_leaf_some hcs hr] at hX
    simp at hX
  · intro n pre pr ps nm b rest _ hr _ _ hc _ _ _ _
    exfalso
    have := (hc (by simp [endsWithCatchAll])).1
    rw [hr] at this; cases this
  · intro n pre pr ps nm b rest c tail hcs _ _ _ hc _ _ _ hX
    exfalso
    cases hr : n.route with
    | some r =>
      rw [walk_catch_child_some hcs hr, directs_append] at hX
      simp at hX
    | none =>
      have := (hc (by simp [endsWithCatchAll])).1
      rw [hr] at this; cases this
  · intro n pre pr ps nm b rest t k'' ih hw hd hc hL hq hn hX
    unfold A2 at ih
    simp only [List.cons_append]
    rw [walk_catch_infix_false_tsrs]
    rw [walk_catch_infix_false_directs] at hX
    rw [specAll_infix ((allInfix_sufsFrom n nm t k'').flt _), tails_flt_sufsFrom]
    by_cases hb : b = SLASH
    · simp only [hb, if_true]; exact Sim.nil
    · simp only [hb, if_false] at hX ⊢
      have hLi : LastOK (sufsNode (Node.mk (t :: k'') n.route n.children)) := by
        rw [sufsNode_mk, sufsFrom_congr (.mk (t :: k'') n.route n.children) n (t :: k'') rfl rfl]
        exact hL.step
      have := ih (by simpa [Node.children] using hw) (by simpa [Node.children] using hd) (by simp [Node.key])
        (by
          intro h
          simp only [Node.route, Node.children]
          apply hc; rw [endsWithCatchAll_cons]; exact h)
        hLi (by simpa using hq) (by simpa using hn) (by simp) hX
      rw [sufsNode_mk, sufsFrom_congr (.mk (t :: k'') n.route n.children) n (t :: k'') rfl rfl] at this
      -- the fall-through candidate is the one the specification finds at the final slash
      have hFT : FT (Node.mk (t :: k'') n.route n.children) nm [b] rest ps =
          slashLeaf n (t :: k'') (ps ++ [(nm, b :: rest)]) := by
        unfold FT
        have hq' : ¬ ([b] ++ rest).getLast? = some SLASH := by simpa using hq
        simp only [hq', if_false]
        rw [sufsNode_mk, sufsFrom_congr (.mk (t :: k'') n.route n.children) n (t :: k'') rfl rfl]
        rw [spec_slash_key n t k'' _ hw hL.step]
        rfl
      rw [hFT] at this
      exact this
  -- walkInfix
  · intro inode nm acc ps _ _ _ _ _ _ _ _ _
    simp only [List.nil_append]
    rw [walkInfix_nil, tsrs_nil, List.nil_append, specInfix_slash, specInfix_nil_rest, List.append_nil]
    unfold FT
    simp only [List.append_nil]
    exact Sim.refl _
  · intro inode nm acc ps rest hacc _ _ _ _ _ _ hn _ _
    exact absurd (noDbl_slash_slash hacc hn) id
  · intro inode nm acc ps rest hacc ih1 ih2 hw hd hk hc hL hq hn _ hX
    unfold A1 at ih1
    unfold A2 at ih2
    simp only [List.cons_append] at ih1 ⊢
    rw [walkInfix_slash_go _ _ _ _ _ _ hacc] at hX ⊢
    rw [directs_append] at hX
    simp only [append_nil_iff] at hX
    rw [specInfix_slash]
    simp only [hacc, if_false]
    rw [tsrs_append, List.append_assoc]
    have hassoc : acc ++ [SLASH] ++ rest = acc ++ SLASH :: rest := by simp
    have h1 := ih1 hw hd hc (by rw [← sufsNode_eq]; exact hL)
      (by rw [← getLast?_append_cons acc SLASH rest]; exact hq) (noDbl_append_right hn) hX.1
    rw [← sufsNode_eq] at h1
    have h2 := ih2 hw hd hk hc hL (by rw [hassoc]; exact hq) (by rw [hassoc]; exact hn) (by simp) hX.2
    have hFT : FT inode nm (acc ++ [SLASH]) rest ps = FT inode nm acc (SLASH :: rest) ps := by
      unfold FT; rw [hassoc]
    rw [hFT] at h2
    exact Sim.append h1 h2
  · intro inode nm acc ps b rest hb ih hw hd hk hc hL hq hn _ hX
    unfold A2 at ih
    simp only [List.cons_append]
    rw [walkInfix_other _ _ _ _ _ _ _ hb] at hX ⊢
    rw [specInfix_other _ _ _ _ _ _ hb]
    have hassoc : acc ++ [b] ++ rest = acc ++ b :: rest := by simp
    have h2 := ih hw hd hk hc hL (by rw [hassoc]; exact hq) (by rw [hassoc]; exact hn) (by simp) hX
    have hFT : FT inode nm (acc ++ [b]) rest ps = FT inode nm acc (b :: rest) ps := by
      unfold FT; rw [hassoc]
    rw [hFT] at h2
    exact h2
  -- walkKids
  · intro sel pr path ps _ _ _ _ _ _
    rw [walkKids_nil]; exact Sim.nil
  · intro sel pr path ps c cs' ih1 ih3 hw hL hq0 hq hn hX
    unfold A1 at ih1
    unfold A3 at ih3
    have hw' := wfKids_cons.mp hw
    rw [sufsKids_cons] at hL
    rw [walkKids_cons] at hX ⊢
    rw [directs_append] at hX
    simp only [append_nil_iff] at hX
    rw [tsrs_append, List.filter_cons]
    have hf := wfNode_full hw'.1
    by_cases hm : sel.matches c.key = true
    · simp only [hm, if_true, List.flatMap_cons] at hX ⊢
      refine Sim.append ?_ (ih3 hw'.2 hL.append_right hq0 hq hn hX.2)
      have := ih1 hf.1 hf.2.1 hf.2.2.2 (by rw [← sufsNode_eq]; exact hL.append_left) hq hn hX.1
      rw [← sufsNode_eq] at this
      exact this
    · simp only [hm, Bool.false_eq_true, if_false, tsrs_nil, List.nil_append]
      exact ih3 hw'.2 hL.append_right hq0 hq hn hX.2

end Fox.Model
