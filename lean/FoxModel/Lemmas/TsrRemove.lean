import FoxModel.Lemmas.Pick
/-
  Trailing-slash candidates, "remove the slash" direction: for a request path `q ++ "/"` that no route matches directly,
  the trailing-slash candidates recorded by the walk are (up to repetitions) the direct matches of `q`, in the same
  order. Hence the candidate the Go code keeps (the first one) is the best direct match of the path without its slash.
-/
namespace Fox.Model
open Fox Fox.Spec

/-- the trailing-slash events of an event list -/
def tsrs : List Ev → Res
  | [] => []
  | .tsr r ps :: evs => (r, ps) :: tsrs evs
  | _ :: evs => tsrs evs

@[simp] theorem tsrs_nil : tsrs [] = [] := rfl
@[simp] theorem tsrs_tsr (r ps evs) : tsrs (.tsr r ps :: evs) = (r, ps) :: tsrs evs := rfl
@[simp] theorem tsrs_direct (r ps evs) : tsrs (.direct r ps :: evs) = tsrs evs := rfl
@[simp] theorem tsrs_bad (evs) : tsrs (.bad :: evs) = tsrs evs := rfl

theorem tsrs_append (a b : List Ev) : tsrs (a ++ b) = tsrs a ++ tsrs b := by
  induction a with
  | nil => simp
  | cons e a ih => cases e <;> simp [ih]

theorem firstTsr_eq (evs : List Ev) :
    firstTsr evs = (match tsrs evs with | (r, ps) :: _ => Result.found r ps true | [] => Result.none) := by
  induction evs with
  | nil => rfl
  | cons e evs ih => cases e <;> simp [firstTsr, ih]

/-- same emptiness and same first element (all that "keep the first candidate" can observe) -/
def Sim (T D : Res) : Prop := (T = [] ↔ D = []) ∧ T.head? = D.head?

theorem Sim.nil : Sim [] [] := ⟨Iff.rfl, rfl⟩
theorem Sim.refl (T : Res) : Sim T T := ⟨Iff.rfl, rfl⟩

theorem Sim.append {T1 D1 T2 D2 : Res} (h1 : Sim T1 D1) (h2 : Sim T2 D2) : Sim (T1 ++ T2) (D1 ++ D2) := by
  constructor
  · simp only [List.append_eq_nil_iff]; rw [h1.1, h2.1]
  · cases T1 with
    | nil =>
      have : D1 = [] := h1.1.mp rfl
      subst this; simpa using h2.2
    | cons x xs =>
      cases D1 with
      | nil => exact absurd (h1.1.mpr rfl) (by simp)
      | cons y ys => simpa using h1.2

theorem Sim.cons_left (x : Route × Binds) (T D : Res) : Sim (x :: T) (x :: D) := ⟨by simp, by simp⟩
theorem Sim.cons_left' (x : Route × Binds) (T : Res) : Sim (x :: T) [x] := ⟨by simp, by simp⟩

/-! ### the walk on the single byte "/" from the start of a node never reports a candidate without a leaf parent -/

theorem tsrs_midKeyEnd_es_none (n pre k ps) : tsrs (midKeyEnd n pre k none true ps) = [] := by
  unfold midKeyEnd; simp

theorem tsrs_midKeyEnd_es_pre {n pre k pr ps} (h : (pre == [Tok.lit SLASH]) = false) :
    tsrs (midKeyEnd n pre k pr true ps) = [] := by
  unfold midKeyEnd
  simp only [if_true]
  cases pr with
  | none => rfl
  | some p => simp [h]

theorem directs_walk_nil_cons (n pre t k pr es ps) : directs (walk n pre (t :: k) pr es [] ps) = [] := by
  cases t <;> (unfold walk; exact directs_midKeyEnd _ _ _ _ _ _)

/-- the events of `walk` at the end of the path inside/at the end of a key, for es = true, without leaf parent -/
theorem tsrs_walk_nil_es (n pre k ps) (pr : Option Route) (hp : pr = none ∨ (pre == [Tok.lit SLASH]) = false) :
    tsrs (walk n pre k pr true [] ps) = [] := by
  cases k with
  | nil =>
    unfold walk
    cases hr : n.route with
    | some r => simp
    | none =>
      simp only [if_true]
      cases pr with
      | none => rfl
      | some p =>
        rcases hp with h | h
        · cases h
        · simp [h]
  | cons t k' =>
    have : walk n pre (t :: k') pr true [] ps = midKeyEnd n pre (t :: k') pr true ps := by
      cases t <;> (unfold walk; rfl)
    rw [this]
    rcases hp with h | h
    · subst h; exact tsrs_midKeyEnd_es_none _ _ _ _
    · exact tsrs_midKeyEnd_es_pre h

/-- L0: entering a node (non-empty key) with exactly "/" left: no candidate unless the parent is a leaf -/
theorem tsrs_enter_slash (n : Node) (k : List Tok) (hk : k ≠ []) (ps : Binds) (pre : List Tok)
    (pr : Option Route) (hp : pr = none ∨ pre ≠ []) :
    tsrs (walk n pre k pr true [SLASH] ps) = [] := by
  cases k with
  | nil => exact absurd rfl hk
  | cons t k' =>
    cases t with
    | lit c =>
      unfold walk
      by_cases hc : c = SLASH
      · simp only [hc, if_true]
        apply tsrs_walk_nil_es
        rcases hp with h | h
        · exact Or.inl h
        · right
          cases pre with
          | nil => exact absurd rfl h
          | cons x xs => simp
      · simp [hc]
    | param nm =>
      unfold walk
      simp [segEnd]
    | catchAll nm =>
      unfold walk
      simp only
      split
      · split <;> simp
      · simp only [if_true, List.nil_append]
        split <;> simp
      · simp

theorem tsrs_kids_slash {cs : List Node} (hw : wfKids cs = true) (sel : Sel) (ps : Binds) :
    tsrs (walkKids sel cs none true [SLASH] ps) = [] := by
  induction cs with
  | nil => unfold walkKids; rfl
  | cons c cs ih =>
    have hw' := wfKids_cons.mp hw
    unfold walkKids
    rw [tsrs_append, ih hw'.2]
    split
    · obtain ⟨t, k', hk, _⟩ := wfNode_head hw'.1
      rw [tsrs_enter_slash c c.key (by rw [hk]; simp) ps [] none (Or.inl rfl)]; rfl
    · rfl

end Fox.Model

namespace Fox.Model
open Fox Fox.Spec

theorem segEnd_append_slash (q : Bytes) : segEnd SLASH (q ++ [SLASH]) = segEnd SLASH q := by
  induction q with
  | nil => simp [segEnd]
  | cons x xs ih =>
    simp only [List.cons_append, segEnd]
    split <;> simp [ih]

theorem drop_append_slash (q : Bytes) :
    (q ++ [SLASH]).drop (segEnd SLASH q) = q.drop (segEnd SLASH q) ++ [SLASH] :=
  List.drop_append_of_le_length (segEnd_le SLASH q)

theorem take_append_slash (q : Bytes) :
    (q ++ [SLASH]).take (segEnd SLASH q) = q.take (segEnd SLASH q) :=
  List.take_append_of_le_length (segEnd_le SLASH q)

/-- motive for `walk`: `q` is the path without its final slash -/
def N1 (n : Node) (pre k : List Tok) (pr : Option Route) (q : Bytes) (ps : Binds) : Prop :=
  wfKids n.children = true →
  (q = [] → pre ≠ [] ∨ pr = none) →
  directs (walk n pre k pr true (q ++ [SLASH]) ps) = [] →
  Sim (tsrs (walk n pre k pr true (q ++ [SLASH]) ps)) (directs (walk n pre k pr false q ps))

def N2 (inode : Node) (nm acc rest : Bytes) (ps : Binds) : Prop :=
  wfKids inode.children = true → inode.key ≠ [] →
  directs (walkInfix inode nm acc (rest ++ [SLASH]) true ps) = [] →
  Sim (tsrs (walkInfix inode nm acc (rest ++ [SLASH]) true ps)) (directs (walkInfix inode nm acc rest false ps))

def N3 (sel : Sel) (cs : List Node) (pr : Option Route) (q : Bytes) (ps : Binds) : Prop :=
  wfKids cs = true → q ≠ [] →
  directs (walkKids sel cs pr true (q ++ [SLASH]) ps) = [] →
  Sim (tsrs (walkKids sel cs pr true (q ++ [SLASH]) ps)) (directs (walkKids sel cs pr false q ps))

theorem tsrs_nonleaf_slash {n : Node} (hr : n.route = none) (hw : wfKids n.children = true) (pre pr ps) :
    tsrs (walk n pre [] pr true [SLASH] ps) = [] := by
  unfold walk
  simp only [hr, tsrs_append, List.nil_append, tsrs_nil]
  rw [tsrs_kids_slash hw, tsrs_kids_slash hw]
  split
  · rfl
  · rw [tsrs_kids_slash hw]; rfl

theorem directs_nonleaf_nil {n : Node} (hr : n.route = none) (pre pr es ps) :
    directs (walk n pre [] pr es [] ps) = [] := by
  unfold walk
  simp only [hr]
  split
  · split
    · split <;> simp
    · simp
  · split
    · split
      · split <;> simp
      · simp
    · simp

theorem walk_nil_cons_directs (n pre pr es b rest ps) :
    directs (walk n pre [] pr es (b :: rest) ps) =
      directs (if b == STAR then [] else walkKids (.static b) n.children n.route es (b :: rest) ps)
      ++ directs (walkKids .param n.children n.route es (b :: rest) ps)
      ++ directs (walkKids .catchAll n.children n.route es (b :: rest) ps) := by
  unfold walk
  rw [directs_append, directs_append, directs_append]
  cases hr : n.route with
  | none => simp
  | some r => simp only []; split <;> simp

theorem walk_nil_cons_tsrs (n pre pr es b rest ps) (h : rest ≠ []) :
    tsrs (walk n pre [] pr es (b :: rest) ps) =
      tsrs (if b == STAR then [] else walkKids (.static b) n.children n.route es (b :: rest) ps)
      ++ tsrs (walkKids .param n.children n.route es (b :: rest) ps)
      ++ tsrs (walkKids .catchAll n.children n.route es (b :: rest) ps) := by
  unfold walk
  rw [tsrs_append, tsrs_append, tsrs_append]
  cases hr : n.route with
  | none => simp
  | some r =>
    have : (rest == []) = false := by cases rest <;> simp_all
    simp [this]

theorem walk_lit_eq (n pre b k' pr es p ps) :
    walk n pre (Tok.lit b :: k') pr es (b :: p) ps = walk n (pre ++ [Tok.lit b]) k' pr es p ps := by
  conv => lhs; unfold walk
  simp

theorem walk_lit_ne (n pre c k' pr es b p ps) (h : ¬ c = b) :
    walk n pre (Tok.lit c :: k') pr es (b :: p) ps = [] := by
  conv => lhs; unfold walk
  simp [h]

theorem walk_param_zero (n pre nm k' pr es b p ps) (h : segEnd SLASH (b :: p) = 0) :
    walk n pre (Tok.param nm :: k') pr es (b :: p) ps = [] := by
  conv => lhs; unfold walk
  simp [h]

theorem walk_param_step (n pre nm k' pr es b p ps) (h : ¬ segEnd SLASH (b :: p) = 0) :
    walk n pre (Tok.param nm :: k') pr es (b :: p) ps =
      walk n (pre ++ [Tok.param nm]) k' pr es ((b :: p).drop (segEnd SLASH (b :: p)))
        (ps ++ [(nm, (b :: p).take (segEnd SLASH (b :: p)))]) := by
  conv => lhs; unfold walk
  simp [h]

theorem walk_catch_leaf_some {n : Node} (hcs : n.children = []) {r : Route} (hr : n.route = some r) (pre nm pr es b p ps) :
    walk n pre [Tok.catchAll nm] pr es (b :: p) ps = [Ev.direct r (ps ++ [(nm, b :: p)])] := by
  conv => lhs; unfold walk
  simp [hcs, hr]

theorem walk_catch_leaf_none {n : Node} (hcs : n.children = []) (hr : n.route = none) (pre nm pr es b p ps) :
    walk n pre [Tok.catchAll nm] pr es (b :: p) ps = [Ev.bad] := by
  conv => lhs; unfold walk
  simp [hcs, hr]

theorem walk_catch_child_some {n c : Node} {tail : List Node} (hcs : n.children = c :: tail) {r : Route}
    (hr : n.route = some r) (pre nm pr es b p ps) :
    walk n pre [Tok.catchAll nm] pr es (b :: p) ps =
      (if b = SLASH then [] else walkInfix c nm [b] p es ps) ++ [Ev.direct r (ps ++ [(nm, b :: p)])] := by
  conv => lhs; unfold walk
  simp [hcs, hr]

theorem walk_catch_child_none {n c : Node} {tail : List Node} (hcs : n.children = c :: tail)
    (hr : n.route = none) (pre nm pr es b p ps) :
    walk n pre [Tok.catchAll nm] pr es (b :: p) ps =
      (if b = SLASH then [] else walkInfix c nm [b] p es ps) ++ [Ev.bad] := by
  conv => lhs; unfold walk
  simp [hcs, hr]

theorem walk_catch_infix (n : Node) (pre nm t k'' pr es b p ps) :
    ∃ X, walk n pre (Tok.catchAll nm :: t :: k'') pr es (b :: p) ps =
        (if b = SLASH then [] else walkInfix (.mk (t :: k'') n.route n.children) nm [b] p es ps) ++ X
      ∧ directs X = [] ∧ (es = true → tsrs X = []) := by
  refine ⟨_, by conv => lhs; unfold walk, ?_, ?_⟩
  · split
    · rfl
    · split
      · split <;> simp
      · rfl
  · intro hes
    subst hes
    split
    · rfl
    · split
      · simp
      · rfl

theorem walkInfix_nil (inode nm acc es ps) : walkInfix inode nm acc [] es ps = [] := by
  unfold walkInfix; rfl

theorem walkInfix_slash_stop (inode nm acc r es ps) (h : acc.getLast? = some SLASH) :
    walkInfix inode nm acc (SLASH :: r) es ps = [] := by
  conv => lhs; unfold walkInfix
  simp [h]

theorem walkInfix_slash_go (inode nm acc r es ps) (h : ¬ acc.getLast? = some SLASH) :
    walkInfix inode nm acc (SLASH :: r) es ps =
      walk inode [] inode.key none es (SLASH :: r) (ps ++ [(nm, acc)]) ++ walkInfix inode nm (acc ++ [SLASH]) r es ps := by
  conv => lhs; unfold walkInfix
  simp [h]

theorem walkInfix_other (inode nm acc b r es ps) (hb : ¬ b = SLASH) :
    walkInfix inode nm acc (b :: r) es ps = walkInfix inode nm (acc ++ [b]) r es ps := by
  conv => lhs; unfold walkInfix
  simp [hb]

theorem walkKids_nil (sel pr es path ps) : walkKids sel [] pr es path ps = [] := by
  unfold walkKids; rfl

theorem walkKids_cons (sel c cs pr es path ps) :
    walkKids sel (c :: cs) pr es path ps =
      (if sel.matches c.key then walk c [] c.key pr es path ps else []) ++ walkKids sel cs pr es path ps := by
  conv => lhs; unfold walkKids

theorem append_nil_iff {α} {a b : List α} : a ++ b = [] ↔ a = [] ∧ b = [] := List.append_eq_nil_iff

theorem tsr_remove_all :
    (∀ n pre k pr q ps, N1 n pre k pr q ps) ∧
    (∀ inode nm acc rest ps, N2 inode nm acc rest ps) ∧
    (∀ sel cs pr q ps, N3 sel cs pr q ps) := by
  apply walk.mutual_induct false N1 N2 N3
  -- k = [], q = [] : the path without its slash ends exactly at the end of this node's key
  · intro n pre pr ps p hr _ _ _
    have hD : directs (walk n pre [] pr false [] ps) = [(p, ps)] := by unfold walk; simp [hr]
    rw [hD]
    have hT : tsrs (walk n pre [] pr true ([] ++ [SLASH]) ps) =
        (p, ps) :: (tsrs (walkKids (.static SLASH) n.children n.route true [SLASH] ps)
          ++ tsrs (walkKids .param n.children n.route true [SLASH] ps)
          ++ tsrs (walkKids .catchAll n.children n.route true [SLASH] ps)) := by
      simp only [List.nil_append]
      unfold walk
      simp [hr, tsrs_append, SLASH, STAR]
    rw [hT]
    exact Sim.cons_left' _ _
  · intro n pre ps _ hes; cases hes
  · intro n pre ps _ hes; cases hes
  · intro n pre ps _ hes; cases hes
  · intro n pre pr ps hr _ c _ p _ _ hw _ _
    rw [directs_nonleaf_nil hr, List.nil_append, tsrs_nonleaf_slash hr hw]; exact Sim.nil
  · intro n pre pr ps hr _ c _ p _ _ hw _ _
    rw [directs_nonleaf_nil hr, List.nil_append, tsrs_nonleaf_slash hr hw]; exact Sim.nil
  · intro n pre pr ps hr _ c _ _ hw _ _
    rw [directs_nonleaf_nil hr, List.nil_append, tsrs_nonleaf_slash hr hw]; exact Sim.nil
  · intro n pre pr ps hr _ _ hw _ _
    rw [directs_nonleaf_nil hr, List.nil_append, tsrs_nonleaf_slash hr hw]; exact Sim.nil
  -- k = [], q = b :: rest : the three alternatives over the children
  · intro n pre pr ps b rest ih1 ih2 ih3 hw _ hX
    unfold N3 at ih1 ih2 ih3
    simp only [List.cons_append] at ih1 ih2 ih3 hX ⊢
    rw [walk_nil_cons_directs] at hX ⊢
    rw [walk_nil_cons_tsrs _ _ _ _ _ _ _ (by simp)]
    simp only [append_nil_iff] at hX
    refine Sim.append (Sim.append ?_ (ih2 hw (by simp) hX.1.2)) (ih3 hw (by simp) hX.2)
    by_cases hb : (b == STAR) = true
    · simp only [hb, if_true]; exact Sim.nil
    · simp only [hb] at hX ⊢
      exact ih1 hw (by simp) hX.1.1
  -- literal token
  · intro n pre pr ps c k' _ hq _
    rw [directs_walk_nil_cons, List.nil_append,
      tsrs_enter_slash n _ (by simp) ps pre pr ((hq rfl).symm)]
    exact Sim.nil
  · intro n pre pr ps k' b rest ih hw _ hX
    unfold N1 at ih
    simp only [List.cons_append] at hX ⊢
    rw [walk_lit_eq] at hX ⊢
    rw [walk_lit_eq]
    exact ih hw (fun _ => Or.inl (by simp)) hX
  · intro n pre pr ps c k' b rest hcb _ _ _
    simp only [List.cons_append]
    rw [walk_lit_ne _ _ _ _ _ _ _ _ _ hcb, walk_lit_ne _ _ _ _ _ _ _ _ _ hcb]
    exact Sim.nil
  -- parameter token
  · intro n pre pr ps nm k' _ hq _
    rw [directs_walk_nil_cons, List.nil_append,
      tsrs_enter_slash n _ (by simp) ps pre pr ((hq rfl).symm)]
    exact Sim.nil
  · intro n pre pr ps nm k' b rest he _ _ _
    have he' : segEnd SLASH (b :: (rest ++ [SLASH])) = 0 := by
      have := segEnd_append_slash (b :: rest); simp only [List.cons_append] at this; rw [this]; exact he
    simp only [List.cons_append]
    rw [walk_param_zero _ _ _ _ _ _ _ _ _ he', walk_param_zero _ _ _ _ _ _ _ _ _ he]
    exact Sim.nil
  · intro n pre pr ps nm k' b rest he ih hw _ hX
    unfold N1 at ih
    have hs : segEnd SLASH (b :: (rest ++ [SLASH])) = segEnd SLASH (b :: rest) := by
      have := segEnd_append_slash (b :: rest); simpa only [List.cons_append] using this
    have hd : (b :: (rest ++ [SLASH])).drop (segEnd SLASH (b :: rest)) =
        (b :: rest).drop (segEnd SLASH (b :: rest)) ++ [SLASH] := by
      have := drop_append_slash (b :: rest); simpa only [List.cons_append] using this
    have ht : (b :: (rest ++ [SLASH])).take (segEnd SLASH (b :: rest)) =
        (b :: rest).take (segEnd SLASH (b :: rest)) := by
      have := take_append_slash (b :: rest); simpa only [List.cons_append] using this
    simp only [List.cons_append] at hX ⊢
    rw [walk_param_step _ _ _ _ _ _ _ _ _ (by rw [hs]; exact he), hs, hd, ht] at hX ⊢
    rw [walk_param_step _ _ _ _ _ _ _ _ _ he]
    exact ih hw (fun _ => Or.inl (by simp)) hX
  -- catch-all token
  · intro n pre pr ps nm k' _ hq _
    rw [directs_walk_nil_cons, List.nil_append,
      tsrs_enter_slash n _ (by simp) ps pre pr ((hq rfl).symm)]
    exact Sim.nil
  · intro n pre pr ps nm b rest hcs p hr _ _ hX
    exfalso
    simp only [List.cons_append] at hX
    rw [walk_catch_leaf_some hcs hr] at hX
    simp at hX
  · intro n pre pr ps nm b rest hcs hr _ _ _
    simp only [List.cons_append]
    rw [walk_catch_leaf_none hcs hr, walk_catch_leaf_none hcs hr]
    exact Sim.nil
  · intro n pre pr ps nm b rest c tail hcs ih hw _ hX
    unfold N2 at ih
    simp only [List.cons_append] at hX ⊢
    rw [hcs] at hw
    have hwc := (wfKids_cons.mp hw).1
    obtain ⟨t, k', hck, _⟩ := wfNode_head hwc
    have hcw := (wfNode_leafcond hwc).1
    cases hr : n.route with
    | some r =>
      exfalso
      rw [walk_catch_child_some hcs hr, directs_append] at hX
      simp at hX
    | none =>
      rw [walk_catch_child_none hcs hr] at hX ⊢
      rw [walk_catch_child_none hcs hr]
      rw [directs_append] at hX
      rw [tsrs_append, directs_append]
      simp only [append_nil_iff] at hX
      simp only [tsrs_bad, tsrs_nil, directs_bad, directs_nil, List.append_nil]
      by_cases hb : b = SLASH
      · simp only [hb, if_true]; exact Sim.nil
      · simp only [hb, if_false] at hX ⊢
        exact ih hcw (by rw [hck]; simp) hX.1
  · intro n pre pr ps nm b rest t k'' ih hw _ hX
    unfold N2 at ih
    simp only [List.cons_append] at hX ⊢
    obtain ⟨X1, e1, hd1, ht1⟩ := walk_catch_infix n pre nm t k'' pr true b (rest ++ [SLASH]) ps
    obtain ⟨X2, e2, hd2, _⟩ := walk_catch_infix n pre nm t k'' pr false b rest ps
    rw [e1] at hX ⊢
    rw [e2]
    rw [directs_append] at hX
    rw [tsrs_append, directs_append, ht1 rfl, hd2]
    simp only [append_nil_iff] at hX
    simp only [List.append_nil]
    by_cases hb : b = SLASH
    · simp only [hb, if_true]; exact Sim.nil
    · simp only [hb, if_false] at hX ⊢
      exact ih (by simpa [Node.children] using hw) (by simp [Node.key]) hX.1
  -- walkInfix
  · intro inode nm acc ps _ hk _
    simp only [List.nil_append]
    rw [walkInfix_nil]
    by_cases hacc : acc.getLast? = some SLASH
    · rw [walkInfix_slash_stop _ _ _ _ _ _ hacc]; exact Sim.nil
    · rw [walkInfix_slash_go _ _ _ _ _ _ hacc, walkInfix_nil, List.append_nil,
        tsrs_enter_slash inode _ hk _ [] none (Or.inl rfl)]
      exact Sim.nil
  · intro inode nm acc ps rest hacc _ _ _
    simp only [List.cons_append]
    rw [walkInfix_slash_stop _ _ _ _ _ _ hacc, walkInfix_slash_stop _ _ _ _ _ _ hacc]
    exact Sim.nil
  · intro inode nm acc ps rest hacc ih1 ih2 hw hk hX
    unfold N1 at ih1
    unfold N2 at ih2
    simp only [List.cons_append] at hX ih1 ⊢
    rw [walkInfix_slash_go _ _ _ _ _ _ hacc] at hX ⊢
    rw [walkInfix_slash_go _ _ _ _ _ _ hacc]
    rw [directs_append] at hX
    rw [tsrs_append, directs_append]
    simp only [append_nil_iff] at hX
    exact Sim.append (ih1 hw (by simp) hX.1) (ih2 hw hk hX.2)
  · intro inode nm acc ps b rest hb ih hw hk hX
    unfold N2 at ih
    simp only [List.cons_append] at hX ⊢
    rw [walkInfix_other _ _ _ _ _ _ _ hb] at hX ⊢
    rw [walkInfix_other _ _ _ _ _ _ _ hb]
    exact ih hw hk hX
  -- walkKids
  · intro sel pr path ps _ _ _
    rw [walkKids_nil, walkKids_nil]; exact Sim.nil
  · intro sel pr path ps c cs' ih1 ih3 hw hq hX
    unfold N1 at ih1
    unfold N3 at ih3
    have hw' := wfKids_cons.mp hw
    rw [walkKids_cons] at hX ⊢
    rw [walkKids_cons]
    rw [directs_append] at hX
    rw [tsrs_append, directs_append]
    simp only [append_nil_iff] at hX
    refine Sim.append ?_ (ih3 hw'.2 hq hX.2)
    by_cases hm : sel.matches c.key = true
    · simp only [hm, if_true] at hX ⊢
      exact ih1 (wfNode_leafcond hw'.1).1 (fun h => absurd h hq) hX.1
    · simp only [hm]; exact Sim.nil

end Fox.Model

namespace Fox.Model
open Fox Fox.Spec

/-- **remove-slash candidates = direct matches of the path without its slash** (path stage). If no registered route
    below `c` matches `q ++ "/"` directly, the candidate kept by `lookupByPath` is the best direct match of `q`, with the
    parameters of that match; and there is none exactly when `q` has no direct match. -/
theorem pathLookup_tsr_remove {c : Node} (h : wfNode c = true) (q : Bytes)
    (hX : specAll (sufsNode c) (q ++ [SLASH]) [] = []) :
    firstTsr (pathEvents c (q ++ [SLASH]) []) =
      (match specAll (sufsNode c) q [] with
       | (r, ps) :: _ => Result.found r ps true
       | [] => Result.none) := by
  have hes : endsWithSlash (q ++ [SLASH]) = true := by simp [endsWithSlash]
  have hp := wfNode_parts h
  have hD1 : directs (walk c [] c.key none true (q ++ [SLASH]) []) = [] := by
    rw [(walk_refines_all true).1 c [] c.key none _ [] hp.1 hp.2.1 hp.2.2, ← sufsNode_eq]; exact hX
  have hD2 : directs (walk c [] c.key none false q []) = specAll (sufsNode c) q [] := by
    rw [(walk_refines_all false).1 c [] c.key none _ [] hp.1 hp.2.1 hp.2.2, ← sufsNode_eq]
  have hsim := tsr_remove_all.1 c [] c.key none q [] hp.1 (fun _ => Or.inr rfl) hD1
  rw [hD2] at hsim
  unfold pathEvents
  rw [hes, firstTsr_eq]
  cases hT : tsrs (walk c [] c.key none true (q ++ [SLASH]) []) with
  | nil =>
    rw [hT] at hsim
    have : specAll (sufsNode c) q [] = [] := hsim.1.mp rfl
    rw [this]
  | cons x xs =>
    rw [hT] at hsim
    cases hS : specAll (sufsNode c) q [] with
    | nil => rw [hS] at hsim; exact absurd (hsim.1.mpr rfl) (by simp)
    | cons y ys =>
      rw [hS] at hsim
      have : x = y := by simpa using hsim.2
      subst this
      rfl

end Fox.Model
