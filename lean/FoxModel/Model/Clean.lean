import FoxModel.Basic
/-
  FoxModel.Model.Clean — model of `CleanPath` (/repo/path.go), branch by branch.

  Go                                   model
  -----------------------------------  ---------------------------------------------------------------
  p string, n = len(p)                 `p : Bytes`, `p.length`
  r, w                                 `r w : Nat`
  buf []byte with len(buf) == 0        `Buf = Option Bytes`: `none` = nothing materialised yet (the result is
  until the first differing byte         still a prefix of p), `some b` = a zero-initialised slice of fixed length
  bufApp(&buf, p, w, c)                `bufApp`
  p[i], buf[i], s[:w]                  `p[i]?`, `setAt`, `slice`: out of range = `none` = a Go run-time panic
  for w > 1 && x[w] != '/' { w-- }     `scanBack`
  for r < n && p[r] != '/' { … }       `copyElem`
  the `switch` of the main loop        `classify` (evaluation order of the `&&`/`||` chains kept: p[r+1] is read
                                         only after p[r] == '.', p[r+2] only after r+2 != n) + `loop`

  The 128-byte threshold (`stackBufSize`) only selects whether the zero-initialised buffer of the same length lives on
  the stack or on the heap; both have the same contents, so it does not appear in the functions below (the driver
  prints it as a coverage tag, Props/C17 ties the constant to the regenerated fact).
-/
namespace Fox.Model.Clean
open Fox

inductive Outcome where
  | ok (b : Bytes)
  | panic
deriving DecidableEq, Repr, Inhabited

def stackBufSize : Nat := 128

/-- `none`: `len(buf) == 0` -/
abbrev Buf := Option Bytes

/-- what the '..' scan and the final slicing read from -/
def view (p : Bytes) : Buf → Bytes
  | none => p
  | some b => b

/-- `b[w] = c` -/
def setAt (b : Bytes) (w : Nat) (c : UInt8) : Option Bytes :=
  if w < b.length then some (b.set w c) else none

/-- `x[:w]` -/
def slice (x : Bytes) (w : Nat) : Option Bytes :=
  if w ≤ x.length then some (x.take w) else none

/-- `bufApp(&buf, p, w, c)` -/
def bufApp (p : Bytes) (buf : Buf) (w : Nat) (c : UInt8) : Option Buf :=
  match buf with
  | some b => (setAt b w c).map some
  | none =>
    match p[w]? with
    | none => none                                   -- s[w] out of range
    | some x =>
      if x = c then some none                        -- still a prefix of p: no buffer needed
      else
        -- stack buffer re-sliced to len(s) or make([]byte, len(s)); copy(b, s[:w]); b[w] = c
        (setAt (p.take w ++ List.replicate (p.length - w) 0) w c).map some

/-- `for w > 1 && x[w] != '/' { w-- }` -/
def scanBack (x : Bytes) : Nat → Option Nat
  | 0 => some 0
  | 1 => some 1
  | w + 2 =>
    match x[w + 2]? with
    | none => none
    | some c => if c = SLASH then some (w + 2) else scanBack x (w + 1)

/-- the body of the '..' case after `r += 3` -/
def backtrack (p : Bytes) (buf : Buf) (w : Nat) : Option Nat :=
  if w > 1 then scanBack (view p buf) (w - 1) else some w

/-- `if w > 1 { bufApp(&buf, p, w, '/'); w++ }` -/
def addSlash (p : Bytes) (buf : Buf) (w : Nat) : Option (Nat × Buf) :=
  if w > 1 then
    match bufApp p buf w SLASH with
    | none => none
    | some b => some (w + 1, b)
  else some (w, buf)

/-- `for r < n && p[r] != '/' { bufApp(&buf, p, w, p[r]); w++; r++ }` -/
def copyElem (p : Bytes) (r w : Nat) (buf : Buf) : Option (Nat × Nat × Buf) :=
  if h : r < p.length then
    if p[r] = SLASH then some (r, w, buf)
    else
      match bufApp p buf w p[r] with
      | none => none
      | some b => copyElem p (r + 1) (w + 1) b
  else some (r, w, buf)
termination_by p.length - r

inductive Branch where
  | slash | dotEnd | dot | dotdot | elem
deriving DecidableEq, Repr

/-- which case of the `switch` is taken at `r` (only called with `r < n`) -/
def classify (p : Bytes) (r : Nat) : Option Branch :=
  match p[r]? with
  | none => none
  | some c =>
    if c = SLASH then some .slash
    else if c ≠ DOT then some .elem
    else if r + 1 = p.length then some .dotEnd
    else
      match p[r + 1]? with
      | none => none
      | some c1 =>
        if c1 = SLASH then some .dot
        else if c1 ≠ DOT then some .elem
        else if r + 2 = p.length then some .dotdot
        else
          match p[r + 2]? with
          | none => none
          | some c2 => if c2 = SLASH then some .dotdot else some .elem

theorem copyElem_ge {p : Bytes} {r w : Nat} {buf : Buf} {r' w' : Nat} {buf' : Buf}
    (h : copyElem p r w buf = some (r', w', buf')) : r ≤ r' := by
  induction r, w, buf using copyElem.induct (p := p) with
  | case1 r w buf hr hs =>
    rw [copyElem, dif_pos hr, if_pos hs] at h
    simp at h; omega
  | case2 r w buf hr hs hb =>
    rw [copyElem, dif_pos hr, if_neg hs, hb] at h
    simp at h
  | case3 r w buf hr hs b hb ih =>
    rw [copyElem, dif_pos hr, if_neg hs, hb] at h
    have := ih h
    omega
  | case4 r w buf hr =>
    rw [copyElem, dif_neg hr] at h
    simp at h; omega

theorem classify_elem_ne_slash {p : Bytes} {r : Nat} (hr : r < p.length) (h : classify p r = some .elem) :
    p[r] ≠ SLASH := by
  intro hs
  unfold classify at h
  rw [List.getElem?_eq_getElem hr] at h
  simp [hs] at h

theorem copyElem_adv {p : Bytes} {r w : Nat} {buf : Buf} {r' w' : Nat} {buf' : Buf}
    (hr : r < p.length) (hc : classify p r = some .elem)
    (h : copyElem p r w buf = some (r', w', buf')) : r < r' := by
  have hs := classify_elem_ne_slash hr hc
  rw [copyElem, dif_pos hr, if_neg hs] at h
  split at h
  · simp at h
  · have := copyElem_ge h
    omega

/-- the main loop `for r < n { switch … }`; result: final `w`, buffer and `trailing` -/
def loop (p : Bytes) (r w : Nat) (buf : Buf) (tr : Bool) : Option (Nat × Buf × Bool) :=
  if hr : r < p.length then
    match hc : classify p r with
    | none => none
    | some .slash => loop p (r + 1) w buf tr
    | some .dotEnd => loop p (r + 1) w buf true
    | some .dot => loop p (r + 2) w buf tr
    | some .dotdot =>
      match backtrack p buf w with
      | none => none
      | some w' => loop p (r + 3) w' buf tr
    | some .elem =>
      match addSlash p buf w with
      | none => none
      | some (w1, buf1) =>
        match he : copyElem p r w1 buf1 with
        | none => none
        | some (r', w', buf') => loop p r' w' buf' tr
  else some (w, buf, tr)
termination_by p.length - r
decreasing_by
  all_goals simp_wf
  · omega
  · omega
  · omega
  · omega
  · have := copyElem_adv hr hc he
    omega

/-- `r`, `w`, `buf` before the loop (`p` non-empty) -/
def start (p : Bytes) : Option (Nat × Nat × Buf) :=
  match p[0]? with
  | none => none
  | some c0 =>
    if c0 = SLASH then some (1, 1, none)
    else
      -- buf = make([]byte, n+1) or stack[:n+1]; buf[0] = '/'
      match setAt (List.replicate (p.length + 1) 0) 0 SLASH with
      | none => none
      | some b => some (0, 1, some b)

/-- `trailing := n > 1 && p[n-1] == '/'` -/
def initTrailing (p : Bytes) : Option Bool :=
  if p.length > 1 then
    match p[p.length - 1]? with
    | none => none
    | some c => some (c == SLASH)
  else some false

/-- re-append the trailing slash and slice the result -/
def finish (p : Bytes) (w : Nat) (buf : Buf) (tr : Bool) : Option Bytes :=
  if tr ∧ w > 1 then
    match bufApp p buf w SLASH with
    | none => none
    | some b => slice (view p b) (w + 1)
  else slice (view p buf) w

def cleanPathO (p : Bytes) : Option Bytes :=
  if p = [] then some [SLASH]
  else
    match start p with
    | none => none
    | some (r, w, buf) =>
      match initTrailing p with
      | none => none
      | some tr =>
        match loop p r w buf tr with
        | none => none
        | some (w', buf', tr') => finish p w' buf' tr'

/-- `fox.CleanPath(p)` -/
def cleanPath (p : Bytes) : Outcome :=
  match cleanPathO p with
  | some b => .ok b
  | none => .panic

end Fox.Model.Clean
