import FoxModel.Basic
import FoxModel.Generated.ClientIP
/-
  FoxModel.Model.ClientIP — executable model of `clientip/clientip.go`, `clientip/options.go`,
  `internal/iterutil` (SplitStringSeq, BackwardSplitStringSeq, Take, At) and `internal/netutil.SplitHostZone`,
  following the Go code function by function (property C18). Core Lean only.

  Lazy iterators (`iter.Seq`) are rendered as the list of the values they yield, in yield order; a consumer that
  stops early is a function that looks only at a prefix of that list. Re-implemented standard library functions
  (agreement with Go only sampled by the `clientip` stream): `strings.TrimSpace`, `strings.EqualFold(_, "for")`,
  `net.SplitHostPort`, `net.ParseIP` (netip.ParseAddr: v4, v6, v4-in-v6), `IP.IsUnspecified`, `IPNet.Contains`.
-/
namespace Fox.Model.ClientIP
open Fox

def COMMA : UInt8 := 44
def SEMI  : UInt8 := 59
def EQUAL : UInt8 := 61
def PCT   : UInt8 := 37
def LSQ   : UInt8 := 91
def RSQ   : UInt8 := 93
def QUOTE : UInt8 := 34

/-! ### iterutil -/

/-- `i := strings.Index(s, sep)` with the two slices the callers take: `(s[:i], some s[i+1:])`, or `(s, none)` when
    `sep` does not occur -/
def cut (sep : UInt8) : Bytes → Bytes × Option Bytes
  | [] => ([], none)
  | b :: bs =>
    if b = sep then ([], some bs)
    else match cut sep bs with
      | (h, r) => (b :: h, r)

theorem cut_some_length {sep : UInt8} {s h r : Bytes} (e : cut sep s = (h, some r)) : r.length < s.length := by
  induction s generalizing h with
  | nil => simp [cut] at e
  | cons b bs ih =>
    simp only [cut] at e
    split at e
    · simp at e; obtain ⟨_, rfl⟩ := e; simp
    · cases hc : cut sep bs with
      | mk h' r' =>
        rw [hc] at e; simp at e; obtain ⟨_, rfl⟩ := e
        have := ih hc; simp; omega

/-- `iterutil.SplitStringSeq(s, sep)` (single-byte separator): fragments in yield order -/
def splitFwd (sep : UInt8) (s : Bytes) : List Bytes :=
  match h : cut sep s with
  | (_, none) => [s]                                  -- i < 0: break; yield(s)
  | (frag, some rest) => frag :: splitFwd sep rest    -- yield(s[:i]); s = s[i+len(sep):]
termination_by s.length
decreasing_by exact cut_some_length h

/-- `i := strings.LastIndex(s, sep)`: `some (s[:i], s[i+1:])` -/
def cutLast (sep : UInt8) (s : Bytes) : Option (Bytes × Bytes) :=
  match cut sep s.reverse with
  | (_, none) => none
  | (h, some r) => some (r.reverse, h.reverse)

theorem cutLast_length {sep : UInt8} {s p f : Bytes} (e : cutLast sep s = some (p, f)) : p.length < s.length := by
  unfold cutLast at e
  cases hc : cut sep s.reverse with
  | mk h r =>
    rw [hc] at e
    cases r with
    | none => simp at e
    | some r =>
      simp at e; obtain ⟨rfl, _⟩ := e
      have := cut_some_length hc; simpa using this

/-- `iterutil.BackwardSplitStringSeq(s, sep)`: fragments in yield order (last fragment first) -/
def splitBwd (sep : UInt8) (s : Bytes) : List Bytes :=
  match h : cutLast sep s with
  | none => [s]                                       -- i < 0: break; yield(s)
  | some (pre, frag) => frag :: splitBwd sep pre      -- yield(s[i+len(sep):]); s = s[:i]
termination_by s.length
decreasing_by exact cutLast_length h

/-- `iterutil.Take(seq, count)`: yields while `count > 0` -/
def take {α : Type} (count : Nat) (seq : List α) : List α := seq.take count

/-- `iterutil.At(seq, n)`: skips while `0 < n`, then returns the element; `none` = `ok == false` -/
def at? {α : Type} : List α → Nat → Option α
  | [], _ => none
  | v :: _, 0 => some v
  | _ :: r, n + 1 => at? r n

/-! ### strings -/

/-- byte sequences that `unicode.IsSpace` accepts after UTF-8 decoding (ASCII, U+0085, U+00A0, U+1680,
    U+2000–U+200A, U+2028, U+2029, U+202F, U+205F, U+3000) -/
def spaceRunes : List Bytes :=
  [[9], [10], [11], [12], [13], [32], [0xC2, 0x85], [0xC2, 0xA0], [0xE1, 0x9A, 0x80],
   [0xE2, 0x80, 0x80], [0xE2, 0x80, 0x81], [0xE2, 0x80, 0x82], [0xE2, 0x80, 0x83], [0xE2, 0x80, 0x84],
   [0xE2, 0x80, 0x85], [0xE2, 0x80, 0x86], [0xE2, 0x80, 0x87], [0xE2, 0x80, 0x88], [0xE2, 0x80, 0x89],
   [0xE2, 0x80, 0x8A], [0xE2, 0x80, 0xA8], [0xE2, 0x80, 0xA9], [0xE2, 0x80, 0xAF], [0xE2, 0x81, 0x9F],
   [0xE3, 0x80, 0x80]]

def dropRune (pats : List Bytes) (s : Bytes) : Option Bytes :=
  pats.findSome? fun p => if p.isPrefixOf s then some (s.drop p.length) else none

def trimRunes (pats : List Bytes) : Nat → Bytes → Bytes
  | 0, s => s
  | f + 1, s =>
    match dropRune pats s with
    | some r => trimRunes pats f r
    | none => s

/-- `strings.TrimSpace` -/
def trimSpace (s : Bytes) : Bytes :=
  let l := trimRunes spaceRunes s.length s
  (trimRunes (spaceRunes.map List.reverse) l.length l.reverse).reverse

def lower (b : UInt8) : UInt8 := if 65 ≤ b ∧ b ≤ 90 then b + 32 else b

/-- `strings.EqualFold(s, "for")` (no non-ASCII rune folds to `f`, `o` or `r`) -/
def equalFoldFor (s : Bytes) : Bool := s.map lower == [102, 111, 114]

/-- `trimMatchedEnds(s, chars)` with `chars = [first, last]` -/
def trimMatchedEnds (s : Bytes) (first last : UInt8) : Bytes :=
  if s.length < 2 then s
  else if s.head? ≠ some first then s
  else if s.getLast? ≠ some last then s
  else s.tail.dropLast

/-- `netutil.SplitHostZone` -/
def splitHostZone (s : Bytes) : Bytes × Bytes :=
  match cutLast PCT s with
  | some (host, zone) => if host.length > 0 then (host, zone) else (s, [])
  | none => (s, [])

/-! ### net -/

/-- `net.SplitHostPort`: the host, `none` = any error -/
def splitHostPort (hp : Bytes) : Option Bytes :=
  match cutLast COLON hp with
  | none => none                                             -- missing port
  | some (beforeLast, _) =>                                  -- i = beforeLast.length
    if hp.head? = some LSQ then
      match cut RSQ hp with
      | (_, none) => none                                    -- missing ']'
      | (pre, some afterEnd) =>                              -- end = pre.length
        if afterEnd = [] then none                           -- end+1 == len: missing port
        else if pre.length + 1 = beforeLast.length then      -- end+1 == i
          if (hp.drop 1).contains LSQ then none
          else if afterEnd.contains RSQ then none
          else some (pre.drop 1)
        else none                                            -- too many colons / missing port
    else
      if beforeLast.contains COLON then none                 -- too many colons
      else if hp.contains LSQ then none
      else if hp.contains RSQ then none
      else some beforeLast

def isDigit (c : UInt8) : Bool := 48 ≤ c && c ≤ 57
def isHexDigit (c : UInt8) : Bool := isDigit c || (97 ≤ c && c ≤ 102) || (65 ≤ c && c ≤ 70)
def hexDigitVal (c : UInt8) : Nat :=
  if isDigit c then c.toNat - 48 else if 97 ≤ c then c.toNat - 87 else c.toNat - 55

/-- `netip.parseIPv4Fields` over all of `s`; state `val`, `digLen`, fields so far (`pos = fields.length`) -/
def v4Fields : Bytes → Nat → Nat → List Nat → Option (List Nat)
  | [], val, _, fields => if fields.length < 3 then none else some (fields ++ [val])
  | c :: r, val, digLen, fields =>
    if isDigit c then
      if digLen = 1 ∧ val = 0 then none                      -- leading zero
      else
        let v := val * 10 + (c.toNat - 48)
        if v > 255 then none else v4Fields r v (digLen + 1) fields
    else if c = DOT then
      if digLen = 0 ∨ r = [] then none                       -- i == 0 || s[i-1] == '.' || i == len(s)-1
      else if fields.length = 3 then none                    -- too long
      else v4Fields r 0 0 (fields ++ [val])
    else none

def bytesToNat (bs : List Nat) : Nat := bs.foldl (fun a b => a * 256 + b) 0

/-- the `for i < 16` loop of `netip.parseIPv6`: each iteration stores two bytes, so 8 iterations exhaust it.
    Result: remaining text, bytes stored so far, ellipsis position. -/
def v6Loop : Nat → Bytes → List Nat → Option Nat → Option (Bytes × List Nat × Option Nat)
  | 0, s, ip, ell => some (s, ip, ell)
  | f + 1, s, ip, ell =>
    let digits := s.takeWhile isHexDigit
    if digits.length > 4 then none
    else if digits.length = 0 then none
    else
      let rest := s.drop digits.length
      if rest.head? = some DOT then
        if ell.isNone ∧ ip.length ≠ 12 then none
        else if ip.length + 4 > 16 then none
        else match v4Fields s 0 0 [] with
          | none => none
          | some fs => some ([], ip ++ fs, ell)
      else
        let acc := digits.foldl (fun a c => a * 16 + hexDigitVal c) 0
        let ip := ip ++ [acc / 256, acc % 256]
        if rest = [] then some ([], ip, ell)
        else if rest.head? ≠ some COLON then none
        else if rest.length = 1 then none
        else
          let s1 := rest.drop 1
          if s1.head? = some COLON then
            if ell.isSome then none
            else
              let s2 := s1.drop 1
              if s2 = [] then some ([], ip, some ip.length) else v6Loop f s2 ip (some ip.length)
          else v6Loop f s1 ip ell

/-- `netip.parseIPv6` for a text without `%` -/
def parseIPv6 (s : Bytes) : Option Nat :=
  let lead := s.take 2 == [COLON, COLON]
  let s' := if lead then s.drop 2 else s
  if lead ∧ s' = [] then some 0
  else match v6Loop 8 s' [] (if lead then some 0 else none) with
    | none => none
    | some (rest, ip, ell) =>
      if rest ≠ [] then none
      else if ip.length < 16 then
        match ell with
        | none => none
        | some e => some (bytesToNat (ip.take e ++ List.replicate (16 - ip.length) 0 ++ ip.drop e))
      else if ell.isSome then none
      else some (bytesToNat ip)

def firstSpecial : Bytes → Option UInt8
  | [] => none
  | c :: r => if c = DOT ∨ c = COLON ∨ c = PCT then some c else firstSpecial r

/-- `net.ParseIP`: the 16-byte form as a number (IPv4 as `::ffff:a.b.c.d`). `netip.ParseAddr` dispatches on the first
    of `.`, `:`, `%`; `net.ParseIP` rejects every result that carries a zone, so any `%` means failure. -/
def parseIP (s : Bytes) : Option Nat :=
  if s.contains PCT then none
  else match firstSpecial s with
    | none => none
    | some c =>
      if c = DOT then (v4Fields s 0 0 []).map fun fs => 0xffff * 2 ^ 32 + bytesToNat fs
      else parseIPv6 s

structure Addr where
  ip : Nat
  zone : Bytes
deriving DecidableEq, Repr

inductive ErrKind where
  | invalid | unspecified | remoteInvalid | remoteUnspecified | singleMissing | leftmost | nonPrivate
  | countFew | countInvalid | range | rangeResolver
deriving DecidableEq, Repr

/-- a resolver result: an address, errors (joined in a chain), a constructor error, or `(nil, nil)` -/
inductive Res where
  | ok (a : Addr)
  | err (ks : List ErrKind)
  | cfgErr
  | nilNil
deriving DecidableEq, Repr

def Res.toOption : Res → Option Addr
  | .ok a => some a
  | _ => none

/-- `IP.IsUnspecified` on the 16-byte form: `::` or `::ffff:0.0.0.0` -/
def isUnspecified (ip : Nat) : Bool := ip == 0 || ip == 0xffff * 2 ^ 32

/-- `ParseIPAddr` -/
def parseIPAddr (s : Bytes) : Except ErrKind Addr :=
  let ip := match splitHostPort s with
    | some host => host
    | none => s
  let ip := trimMatchedEnds ip LSQ RSQ
  let (ipStr, zone) := splitHostZone ip
  match parseIP ipStr with
  | none => .error .invalid
  | some a => if isUnspecified a then .error .unspecified else .ok ⟨a, zone⟩

def parseIPAddr? (s : Bytes) : Option Addr :=
  match parseIPAddr s with
  | .ok a => some a
  | .error _ => none

/-- `strings.SplitN(fp, "=", 2)` with two results -/
def splitEq (fp : Bytes) : Option (Bytes × Bytes) :=
  match cut EQUAL fp with
  | (k, some v) => some (k, v)
  | (_, none) => none

/-- the `for fp := range Take(SplitStringSeq(fwd, ";"), 4)` loop: the value of the first `for=` part -/
def findFor : List Bytes → Bytes
  | [] => []
  | fp :: rest =>
    match splitEq (trimSpace fp) with
    | none => findFor rest
    | some (k, v) => if equalFoldFor k then v else findFor rest

/-- `parseForwardedListItem` -/
def parseForwardedListItem (fwd : Bytes) : Option Addr :=
  let forPart := findFor (take 4 (splitFwd SEMI fwd))
  let forPart := trimSpace forPart
  let forPart := trimMatchedEnds forPart QUOTE QUOTE
  if forPart = [] then none else parseIPAddr? forPart

inductive HKey where
  | xff | fwd
deriving DecidableEq, Repr

/-- what both iterators do with one trimmed list item -/
def parseItem (k : HKey) (raw : Bytes) : Option Addr :=
  match k with
  | .fwd => parseForwardedListItem raw
  | .xff => parseIPAddr? raw

/-- `ipAddrSeq(values, headerName)`: yielded values in order -/
def ipAddrSeq (k : HKey) (values : List Bytes) : List (Option Addr) :=
  values.flatMap fun v => (splitFwd COMMA v).map fun raw => parseItem k (trimSpace raw)

/-- `backwardIpAddrSeq(values, headerName)`: yielded values in order (last item of the last line first) -/
def backwardIpAddrSeq (k : HKey) (values : List Bytes) : List (Option Addr) :=
  values.reverse.flatMap fun v => (splitBwd COMMA v).map fun raw => parseItem k (trimSpace raw)

/-! ### ranges -/

structure Cidr where
  fam : Nat
  addr : Nat
  len : Nat
deriving DecidableEq, Repr

def Cidr.ofTriple (t : Nat × Nat × Nat) : Cidr := ⟨t.1, t.2.1, t.2.2⟩

def isV4Mapped (ip : Nat) : Bool := ip / 2 ^ 32 == 0xffff

/-- `IPNet.Contains` for a network made by `net.ParseCIDR` (4-byte network and mask for IPv4 text, 16-byte ones
    otherwise) and an address in 16-byte form -/
def contains (c : Cidr) (ip : Nat) : Bool :=
  if c.fam = 4 then
    isV4Mapped ip && (ip % 2 ^ 32) >>> (32 - c.len) == c.addr >>> (32 - c.len)
  else if isV4Mapped c.addr then
    -- `networkNumberAndMask` shortens the network to 4 bytes; the 16-byte mask fits only if it starts with 12 × 0xff
    decide (96 ≤ c.len) && isV4Mapped ip && ip >>> (128 - c.len) == c.addr >>> (128 - c.len)
  else
    -- `ip.To4()` shortens the address, the lengths differ
    !isV4Mapped ip && ip >>> (128 - c.len) == c.addr >>> (128 - c.len)

/-- `isIPContainedInRanges` -/
def inRanges (rs : List Cidr) (ip : Nat) : Bool := rs.any fun r => contains r ip

def tbl (t : List (Nat × Nat × Nat)) : List Cidr := t.map Cidr.ofTriple

inductive RangeOpt where
  | loopback (enable : Bool) | linkLocal (enable : Bool) | privateNet (enable : Bool)
deriving DecidableEq, Repr

/-- `opt.applyRight(cfg)` / `opt.applyLeft(cfg)` (options.go) -/
def applyOpt (cfg : List Cidr) : RangeOpt → List Cidr
  | .loopback e => if e then cfg ++ tbl Generated.loopbackRanges else cfg
  | .linkLocal e => if e then cfg ++ tbl Generated.linkLocalRanges else cfg
  | .privateNet e => if e then cfg ++ tbl Generated.privateRange else cfg

/-- `orSlice(cfg.ipRanges, privateAndLocalRanges)` after applying the options -/
def configuredRanges (opts : List RangeOpt) : List Cidr :=
  let cfg := opts.foldl applyOpt []
  if cfg.length > 0 then cfg else tbl Generated.privateAndLocalRanges

/-! ### strategies -/

structure Req where
  headers : List (Bytes × List Bytes)   -- canonical name ↦ values
  remoteAddr : Bytes

def Req.values (r : Req) (name : Bytes) : List Bytes :=
  match r.headers.find? (fun h => h.1 == name) with
  | some h => h.2
  | none => []

def hdrName : HKey → Bytes
  | .xff => Generated.xForwardedForHdr.map UInt8.ofNat
  | .fwd => Generated.forwardedHdr.map UInt8.ofNat

/-- `RemoteAddr.ClientIP` -/
def remoteAddr (remote : Bytes) : Res :=
  match parseIPAddr remote with
  | .ok a => .ok a
  | .error .unspecified => .err [.remoteUnspecified]
  | .error _ => .err [.remoteInvalid]

/-- `SingleIPHeader.ClientIP` (`lastHeader` inlined) -/
def singleIPHeader (values : List Bytes) : Res :=
  let ipStr := match values.getLast? with
    | some v => v
    | none => []
  if ipStr = [] then .err [.singleMissing]
  else match parseIPAddr ipStr with
    | .ok a => .ok a
    | .error k => .err [k]

/-- the loop of `LeftmostNonPrivate.ClientIP` / `RightmostNonPrivate.ClientIP` over the yielded values -/
def firstOutside (ranges : List Cidr) (e : ErrKind) : List (Option Addr) → Res
  | [] => .err [e]
  | none :: r => firstOutside ranges e r
  | some a :: r => if !inRanges ranges a.ip then .ok a else firstOutside ranges e r

/-- `LeftmostNonPrivate.ClientIP` -/
def leftmostNonPrivate (k : HKey) (limit : Nat) (ranges : List Cidr) (values : List Bytes) : Res :=
  if values.length > 0 then firstOutside ranges .leftmost (take limit (ipAddrSeq k values))
  else .err [.leftmost]

/-- `RightmostNonPrivate.ClientIP` -/
def rightmostNonPrivate (k : HKey) (ranges : List Cidr) (values : List Bytes) : Res :=
  if values.length > 0 then firstOutside ranges .nonPrivate (backwardIpAddrSeq k values)
  else .err [.nonPrivate]

/-- `RightmostTrustedCount.ClientIP` (`trustedCount ≥ 1` is enforced by the constructor) -/
def rightmostTrustedCount (k : HKey) (trustedCount : Nat) (values : List Bytes) : Res :=
  match at? (backwardIpAddrSeq k values) (trustedCount - 1) with
  | none => .err [.countFew]
  | some none => .err [.countInvalid]
  | some (some a) => .ok a

/-- the loop of `RightmostTrustedRange.ClientIP` -/
def firstUntrusted (ranges : List Cidr) : List (Option Addr) → Res
  | [] => .err [.range]
  | some a :: r => if inRanges ranges a.ip then firstUntrusted ranges r else .ok a
  | none :: _ => .err [.range]

/-- `RightmostTrustedRange.ClientIP`; `none` = the `TrustedIPRange` resolver failed -/
def rightmostTrustedRange (k : HKey) (ranges : Option (List Cidr)) (values : List Bytes) : Res :=
  match ranges with
  | none => .err [.rangeResolver]
  | some rs => firstUntrusted rs (backwardIpAddrSeq k values)

inductive Resolver where
  | remote
  | single (name : Bytes)
  | leftmost (k : HKey) (limit : Nat) (opts : List RangeOpt)
  | nonPrivate (k : HKey) (opts : List RangeOpt)
  | count (k : HKey) (n : Nat)
  | range (k : HKey) (ranges : Option (List Cidr))
deriving Repr

/-- constructor followed by `ClientIP` -/
def resolve (req : Req) : Resolver → Res
  | .remote => remoteAddr req.remoteAddr
  | .single name => singleIPHeader (req.values name)
  | .leftmost k limit opts =>
    if limit = 0 then .cfgErr else leftmostNonPrivate k limit (configuredRanges opts) (req.values (hdrName k))
  | .nonPrivate k opts => rightmostNonPrivate k (configuredRanges opts) (req.values (hdrName k))
  | .count k n => if n = 0 then .cfgErr else rightmostTrustedCount k n (req.values (hdrName k))
  | .range k ranges => rightmostTrustedRange k ranges (req.values (hdrName k))

/-- the loop of `Chain.ClientIP` over the results of the sub-resolvers; `errs` = errors joined so far
    (`none` = nil). An empty chain returns `(nil, nil)`. -/
def chainLoop : List Res → Option (List ErrKind) → Res
  | [], none => .nilNil
  | [], some ks => .err ks
  | .ok a :: _, _ => .ok a
  | .err ks :: r, errs => chainLoop r (some (errs.getD [] ++ ks))
  | .nilNil :: _, _ => .nilNil            -- err == nil: return ipAddr, nil
  | .cfgErr :: _, _ => .cfgErr            -- not constructible (see `chain`)

/-- `NewChain(...)` over successfully constructed resolvers, then `ClientIP`; a failing constructor is reported as such -/
def chain (req : Req) (rs : List Resolver) : Res :=
  let results := rs.map (resolve req)
  if results.any (· == .cfgErr) then .cfgErr else chainLoop results none

end Fox.Model.ClientIP
