import FoxModel.Basic
/-
  FoxModel.Model.Context — the pooled request context `cTx` (context.go reset / resetNil / resetWithWriter / Clone /
  CloneWith / Close, fox.go ServeHTTP + Lookup, txn.go Lookup, tree.go allocateContext). Core Lean only.

  A context is a record of fields; the two parameter buffers are *ids* into a heap of buffers so that aliasing between a
  context and its clones can be stated. A context taken from the pool holds ARBITRARY stale values in every field and
  buffer (the theorems quantify over them); `tree` and `fox` are never reassigned and are left out.
-/
namespace Fox.Model.Ctx
open Fox

abbrev BufId := Nat

/-- contents of the parameter buffers -/
structure Heap where
  get : BufId → Binds

def Heap.set (h : Heap) (i : BufId) (v : Binds) : Heap := ⟨fun j => if j = i then v else h.get j⟩

/-- whose `Header()` map a writer hands out -/
inductive HdrSrc where
  | none
  | http (id : Nat)          -- the http.ResponseWriter passed to ServeHTTP
  | fox (id : Nat)           -- a fox.ResponseWriter passed to Lookup / CloneWith
  | copyOf (s : HdrSrc)      -- `Header().Clone()` held by the noopWriter of a clone
deriving DecidableEq, Repr, Inhabited

/-- the embedded `recorder` -/
structure Rec where
  under : HdrSrc := .none    -- the embedded http.ResponseWriter
  status : Nat := 0
  size : Int := 0            -- `notWritten` = -1
  hijacked : Bool := false
deriving DecidableEq, Repr, Inhabited

def notWritten : Int := -1

/-- `c.w` -/
inductive WRef where
  | nil
  | own                      -- `&c.rec`
  | ext (id : Nat)           -- a caller supplied fox.ResponseWriter
  | discard                  -- `noUnwrap{&cp.rec}` of a clone
deriving DecidableEq, Repr, Inhabited

structure Ctx where
  w : WRef
  req : Option Nat           -- `*http.Request`, identified by the request it is (clones of a request keep the id)
  params : BufId
  tsrParams : BufId
  skipNds : List Nat
  route : Option Nat
  cachedQuery : Option Nat   -- `some q`: the parsed query of request `q` is cached
  rcd : Rec                  -- the embedded recorder `c.rec`
  scope : Nat
  tsr : Bool
deriving Repr, Inhabited

def RouteHandler : Nat := 128
def NoRouteHandler : Nat := 64
def NoMethodHandler : Nat := 32
def RedirectHandler : Nat := 16
def OptionsHandler : Nat := 8

/-! ### what the getters return -/

/-- state of caller supplied writers (outside the context) -/
structure Env where
  extStatus : Nat → Nat
  extSize : Nat → Nat
  extWritten : Nat → Bool

structure WView where
  present : Bool
  discard : Bool             -- writes panic with ErrDiscardedResponseWriter
  hdr : HdrSrc
  status : Nat
  size : Nat
  written : Bool
  hijacked : Bool
deriving DecidableEq, Repr, Inhabited

def recView (r : Rec) (discard : Bool) : WView :=
  { present := true, discard := discard, hdr := r.under, status := r.status,
    size := if r.size < 0 then 0 else r.size.toNat, written := r.size != notWritten, hijacked := r.hijacked }

/-- `Writer()` and everything reachable through it: Header(), Status(), Size(), Written(), write behaviour -/
def wview (env : Env) (c : Ctx) : WView :=
  match c.w with
  | .nil => { present := false, discard := false, hdr := .none, status := 0, size := 0, written := false, hijacked := false }
  | .own => recView c.rcd false
  | .discard => recView c.rcd true
  | .ext id => { present := true, discard := false, hdr := .fox id, status := env.extStatus id, size := env.extSize id,
                 written := env.extWritten id, hijacked := false }

/-- everything the getters of `Context` return: Request / Method / Path / Host / Header (the request), Writer (above),
    Params / Param (the buffer selected by `tsr`), Route / Pattern / ClientIP's resolver choice (the route), QueryParams /
    QueryParam (the cached query, else the one of the request), Scope -/
structure View where
  req : Option Nat
  w : WView
  params : Binds
  route : Option Nat
  query : Option Nat
  scope : Nat
deriving DecidableEq, Repr, Inhabited

def view (env : Env) (H : Heap) (c : Ctx) : View :=
  { req := c.req
    w := wview env c
    params := H.get (if c.tsr then c.tsrParams else c.params)
    route := c.route
    query := match c.cachedQuery with | some q => some q | none => c.req
    scope := c.scope }

/-! ### reset variants (context.go) -/

/-- `recorder.reset(w)` -/
def Rec.reset (_ : Rec) (w : Nat) : Rec := { under := .http w, size := notWritten, status := 200, hijacked := false }

/-- `reset(w, r)`: route and tsr are NOT assigned here ("ServeHTTP is managing the reset of c.route and c.tsr") -/
def reset (w r : Nat) (H : Heap) (c : Ctx) : Heap × Ctx :=
  (H.set c.params [], { c with rcd := c.rcd.reset w, req := some r, w := .own, cachedQuery := none, scope := RouteHandler })

def resetNil (H : Heap) (c : Ctx) : Heap × Ctx :=
  (H.set c.params [], { c with req := none, w := .nil, cachedQuery := none, route := none })

def resetWithWriter (w r : Nat) (H : Heap) (c : Ctx) : Heap × Ctx :=
  (H.set c.params [], { c with req := some r, w := .ext w, tsr := false, cachedQuery := none, route := none, scope := RouteHandler })

/-! ### tree lookup as far as the context is concerned (node.go) -/

/-- what one walk of the tree found; it is a function of the tree and the request only -/
structure LookupOut where
  found : Option Nat := none      -- the route of the node returned
  tsr : Bool := false
  viaHost : Bool := false         -- the node was reached through the hostname walk: segments are appended to the buffer
  params : Binds := []            -- wildcard segments recorded
  tsrParams : Binds := []         -- what a trailing-slash recommendation records besides them
  skip : List Nat := []           -- what is left on the skipped-nodes stack
deriving Repr, Inhabited

/-- `lookup(..., c, lazy = false)`: the hostname walk appends to `*c.params` as it finds it; the path fallback truncates
    first and clears `c.tsr`; `*c.tsrParams` is rewritten only when a trailing-slash recommendation is made; the
    skipped-nodes stack is truncated on entry -/
def lookup (o : LookupOut) (H : Heap) (c : Ctx) : Heap × Ctx :=
  let base := if o.viaHost then H.get c.params else []
  let H1 := H.set c.params (base ++ o.params)
  let H2 := if o.tsr then H1.set c.tsrParams (base ++ o.params ++ o.tsrParams) else H1
  (H2, { c with skipNds := o.skip, tsr := if o.viaHost then c.tsr else false })

/-- `lookup(..., c, lazy = true)` (Allow header loops): nothing is recorded; the path fallback still truncates the
    buffer and clears `c.tsr` -/
def lookupLazy (o : LookupOut) (H : Heap) (c : Ctx) : Heap × Ctx :=
  ((if o.viaHost then H else H.set c.params []), { c with skipNds := o.skip, tsr := if o.viaHost then c.tsr else false })

def lookupLazies : List LookupOut → Heap → Ctx → Heap × Ctx
  | [], H, c => (H, c)
  | o :: os, H, c => let (H', c') := lookupLazy o H c; lookupLazies os H' c'

/-! ### ServeHTTP (fox.go): the state in which each branch calls its handler -/

inductive Branch where
  | direct | ignoredSlash | redirect | options | noMethod | noRoute
deriving DecidableEq, Repr, Inhabited

/-- the assignments of a branch between the lookup and the handler call; `lz` are the lazy lookups of the Allow loops -/
def branchAssign (b : Branch) (o : LookupOut) (lz : List LookupOut) (H : Heap) (c : Ctx) : Heap × Ctx :=
  match b with
  | .direct => (H, { c with route := o.found, tsr := false })
  | .ignoredSlash => (H, { c with route := o.found, tsr := true })
  | .redirect => (H.set c.params [], { c with route := none, tsr := false, scope := RedirectHandler })
  | .options =>
    let (H', c') := lookupLazies lz (H.set c.params []) { c with route := none, tsr := false }
    (H', { c' with scope := OptionsHandler })
  | .noMethod =>
    let (H', c') := lookupLazies lz (H.set c.params []) { c with route := none, tsr := false }
    (H', { c' with scope := NoMethodHandler })
  | .noRoute =>
    let (H', c') := lookupLazies lz (H.set c.params []) { c with route := none, tsr := false }
    (H', { c' with scope := NoRouteHandler })

/-- `c := pool.Get(); c.reset(w, r); lookup; <branch>`: the context as the handler of the branch receives it -/
def serve (b : Branch) (w r : Nat) (o : LookupOut) (lz : List LookupOut) (H : Heap) (c : Ctx) : Heap × Ctx :=
  let (H1, c1) := reset w r H c
  let (H2, c2) := lookup o H1 c1
  branchAssign b o lz H2 c2

/-- `Router.Lookup` / `Txn.Lookup` when a route is found (otherwise the context goes back to the pool) -/
def lookupEntry (w r : Nat) (o : LookupOut) (H : Heap) (c : Ctx) : Heap × Ctx :=
  let (H1, c1) := resetWithWriter w r H c
  let (H2, c2) := lookup o H1 c1
  (H2, { c2 with route := o.found, tsr := o.tsr })

/-! ### CloneWith / Clone / Close (context.go) -/

/-- `CloneWith(w, r)`: `cp` comes from the pool (stale), the selected buffer is copied into cp's own buffer -/
def cloneWith (w r : Nat) (c : Ctx) (H : Heap) (cp : Ctx) : Heap × Ctx :=
  let cp' := { cp with req := some r, w := .ext w, route := c.route, scope := c.scope, cachedQuery := none, tsr := c.tsr }
  if !c.tsr then (H.set cp.params (H.get c.params), cp') else (H.set cp.tsrParams (H.get c.tsrParams), cp')

/-- header source of `c.w.Header()` -/
def hdrOf (c : Ctx) : HdrSrc :=
  match c.w with
  | .nil => .none
  | .own | .discard => c.rcd.under
  | .ext id => .fox id

/-- `Clone()`: a fresh `cTx` whose zero-valued recorder takes header copy, status, size from the *current writer* `c.w`
    (nothing of the recycled embedded recorder `c.rec` is copied); the selected buffer is copied into a freshly allocated
    one (`fresh`), the other stays nil (`nilBuf`) -/
def clone (env : Env) (fresh nilBuf : BufId) (c : Ctx) (H : Heap) : Heap × Ctx :=
  let wv := wview env c
  let rec' : Rec := { under := .copyOf (hdrOf c), status := wv.status,
                      size := if wv.written then (wv.size : Int) else notWritten, hijacked := false }
  let cp : Ctx := { w := .discard, req := c.req, params := nilBuf, tsrParams := nilBuf, skipNds := [], route := c.route,
                    cachedQuery := none, rcd := rec', scope := c.scope, tsr := c.tsr }
  if !c.tsr then (H.set fresh (H.get c.params), { cp with params := fresh })
  else (H.set fresh (H.get c.tsrParams), { cp with tsrParams := fresh })

/-- `Close()`: the context goes back to the pool as it is -/
def close (c : Ctx) : Ctx := c

/-- `allocateContext`: two distinct fresh buffers -/
def allocate (p t : BufId) : Ctx :=
  { w := .nil, req := none, params := p, tsrParams := t, skipNds := [], route := none, cachedQuery := none, rcd := {},
    scope := 0, tsr := false }

end Fox.Model.Ctx
