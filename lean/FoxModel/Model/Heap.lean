import FoxModel.Basic
import FoxModel.Model.Tree
/-
  FoxModel.Model.Heap — aliasing model of a write transaction (tree.go: tXn, copyOnWriteSearch, node.clone,
  node.updateEdge, updateRoot, snapshot/clone/commit) for property C03 "a published routing state never changes".

  Nodes live in a heap of cells addressed by their index. A transaction distinguishes the cells that existed when the
  last snapshot was taken (ids `< frozen`: reachable from published trees, iterators, read-only transactions, snapshots)
  from the cells it allocated itself since then. The only in-place write of the Go code is `updateEdge` (one child slot
  of one cell); everything else allocates. `cow` is `copyOnWriteSearch`; `Mut` is what insert / update / remove do after
  the search: allocate new nodes, then replace one child slot of `p`, `pp` or `ppp`, or install a new root slice.
-/
namespace Fox.Heap
open Fox

structure Cell where
  key : List Tok
  route : Option Route
  children : List Nat
deriving Repr, BEq, Inhabited

structure St where
  heap : List Cell
  /-- cells with id < frozen may be shared with published trees and snapshots -/
  frozen : Nat
  /-- the writable-node LRU of the transaction, most recently used first -/
  writable : List Nat
  roots : List (Bytes × Nat)
  cache : Bool := true
  cap : Nat := 4096
deriving Repr

/-- allocate a cell; its id is the old heap size -/
def alloc (st : St) (c : Cell) : St × Nat := ({ st with heap := st.heap ++ [c] }, st.heap.length)

/-- `updateEdge`: overwrite child slot `idx` of cell `p` (the only in-place write) -/
def setChild (heap : List Cell) (p idx child : Nat) : List Cell :=
  match heap[p]? with
  | some c => heap.set p { c with children := c.children.set idx child }
  | none => heap

/-- `t.writable.Add(cp, nil)` when the transaction caches its clones; the LRU evicts its oldest entry when full -/
def addWritable (st : St) (id : Nat) : St :=
  if st.cache then { st with writable := (id :: st.writable).take st.cap } else st

/-- `updateRoot`: a new roots slice with the entry of method `m` replaced -/
def setRoot (st : St) (m : Bytes) (id : Nat) : St :=
  { st with roots := st.roots.map fun x => if x.1 == m then (m, id) else x }

/-- `getEdge`: the child of cell `id` whose key starts with the byte `b`, with its slot index -/
def getEdge (heap : List Cell) (id : Nat) (b : UInt8) : Option (Nat × Nat) :=
  match heap[id]? with
  | none => none
  | some c =>
    let rec go (cs : List Nat) (i : Nat) : Option (Nat × Nat) :=
      match cs with
      | [] => none
      | x :: xs =>
        match heap[x]? with
        | some cx => if Model.firstByte cx.key == b then some (i, x) else go xs (i + 1)
        | none => go xs (i + 1)
    go c.children 0

structure Found where
  matched : Nat
  p : Option Nat := none
  pp : Option Nat := none
  ppp : Option Nat := none
  /-- in-place writes performed by the search (ghost): the cells whose child slot was overwritten -/
  writes : List Nat := []
deriving Repr

/-- how many leading tokens of `key` the path matches -/
def matchLen : List Tok → List Tok → Nat
  | k :: ks, t :: ts => if k == t then 1 + matchLen ks ts else 0
  | _, _ => 0

/-- `p.clone()` followed by `t.writable.Add(cp)`: a new cell with the same content, remembered as private -/
def cloneOf (st : St) (current : Nat) : St × Nat :=
  (addWritable (alloc st (st.heap.getD current default)).1 st.heap.length, st.heap.length)

/-- link the clone `cp` into its parent `par` (child slot `pslot`), or into a fresh roots slice for a root -/
def link (m : Bytes) (st : St) (par : Option Nat) (pslot cp : Nat) (writes : List Nat) : St × List Nat :=
  match par with
  | none => (setRoot st m cp, writes)
  | some q => ({ st with heap := setChild st.heap q pslot cp }, q :: writes)

/-- first visit of `current` as a future parent: clone it unless it is in the writable cache (a hit moves it to the
    front of the recency order), and link the clone -/
def visit (m : Bytes) (st : St) (current pslot : Nat) (par : Option Nat) (writes : List Nat) : St × Nat × List Nat :=
  if st.writable.contains current then
    -- `t.writable.Get(p)` hit: the entry becomes the most recently used (Model/LRU.get; Props/C03LRU.heap_visit_is_cache_get)
    ({ st with writable := current :: st.writable.filter (· != current) }, current, writes)
  else ((link m (cloneOf st current).1 par pslot (cloneOf st current).2 writes).1, (cloneOf st current).2,
        (link m (cloneOf st current).1 par pslot (cloneOf st current).2 writes).2)

/-- `copyOnWriteSearch`: walk from `current` along `path`; every node left behind on the way (the future parents) is
    cloned on its first visit. `pslot` is the child slot through which `current` was reached from `p`. -/
def cow (fuel : Nat) (m : Bytes) (st : St) (current pslot : Nat) (p pp ppp : Option Nat) (path : List Tok)
    (writes : List Nat) : St × Found :=
  match fuel with
  | 0 => (st, { matched := current, p := p, pp := pp, ppp := ppp, writes := writes })
  | fuel + 1 =>
    match path with
    | [] => (st, { matched := current, p := p, pp := pp, ppp := ppp, writes := writes })
    | t :: _ =>
      match getEdge st.heap current (Model.firstByte [t]) with
      | none => (st, { matched := current, p := p, pp := pp, ppp := ppp, writes := writes })
      | some (slot, next) =>
        let v := visit m st current pslot p writes
        let nextKey := ((v.1.heap[next]?).map (·.key)).getD []
        let k := matchLen nextKey path
        if k < nextKey.length then
          (v.1, { matched := next, p := some v.2.1, pp := p, ppp := pp, writes := v.2.2 })
        else
          cow fuel m v.1 next slot (some v.2.1) p pp (path.drop k) v.2.2

/-- what insert / update / remove do after the search -/
inductive Mut where
  /-- allocate a new node (`newNode`, `newNodeFromRef`): its children are ids that already exist -/
  | allocNode (c : Cell)
  /-- `target.updateEdge(n)`: overwrite one child slot of `target` -/
  | updateEdge (target slot child : Nat)
  /-- `updateRoot` / `addRoot` / `removeRoot` / truncate: a new roots slice -/
  | newRoots (rs : List (Bytes × Nat))
  /-- `t.writable.Add(n)` for a freshly built root node -/
  | addWritable (id : Nat)

def applyMut (st : St) : Mut → St
  | .allocNode c => (alloc st c).1
  | .updateEdge t s c => { st with heap := setChild st.heap t s c }
  | .newRoots rs => { st with roots := rs }
  | .addWritable id => addWritable st id

/-- `snapshot()` / `clone()` / `commit()` / beginning a transaction: everything allocated so far may now be shared -/
def freeze (st : St) : St := { st with frozen := st.heap.length, writable := [] }

/-- the cells a snapshot can reach are among the frozen ones -/
def frozenPart (st : St) : List Cell := st.heap.take st.frozen

end Fox.Heap
