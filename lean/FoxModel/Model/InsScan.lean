import FoxModel.Model.Tree
/-
  FoxModel.Model.InsScan — what `tXn.insert` computes at the node where `copyOnWriteSearch` stopped, on the *bytes* of
  the node key and of the pattern, with the Go string operations:

      charsMatchedInNodeFound                        = length of the common prefix of key and path-from-the-node   (inner loop of the search)
      result.classify()                              : exactMatch | keyEndMidEdge | incompleteMatchToEndOfEdge | incompleteMatchToMiddleOfEdge
      cPrefix := commonPrefix(keyCharsFromStartOfNodeFound, result.matched.key)
      the conflict rule                              : backwards from the end of cPrefix to the previous '/' ('.' in the hostname part,
                                                       unless cPrefix ends with '}'): a '{' (or '*') is a conflict
      suffixFromExistingEdge := strings.TrimPrefix(result.matched.key, cPrefix)
      keySuffix := path[result.charsMatched:]
      host, p := keySuffix[:route.hostSplit-result.charsMatched], keySuffix[route.hostSplit-result.charsMatched:]

  `stepT` is what the token-level model (`Model.insertNode`) computes at the same node. `Lemmas/InsScan.lean` proves that
  on keys and patterns of the grammar the byte-level results are the renderings of the token-level ones: the split
  never falls inside a wildcard unless the conflict rule fires, and it fires exactly when the token model says so.
-/
namespace Fox.Model.InsScan
open Fox Fox.Model

/-- tree.go `commonPrefix`, as a length -/
def lcpB : Bytes → Bytes → Nat
  | a :: as, b :: bs => if a = b then lcpB as bs + 1 else 0
  | _, _ => 0

/-- the inner loop of `copyOnWriteSearch` on the key of the node just entered:

        for i := 0; charsMatched < len(path); i++ {
            if i >= len(current.key) { break }
            if current.key[i] != path[charsMatched] { break STOP }
            charsMatched++ ; charsMatchedInNodeFound++
        }

    `key` = the key bytes from index i on, `rest` = path[charsMatched:]; result: bytes matched in this node, and whether the
    search stops here (`break STOP`: a byte differs) -/
def cowInner : Bytes → Bytes → Nat × Bool
  | _, [] => (0, false)                      -- the path is used up
  | [], _ :: _ => (0, false)                 -- the key is used up: the outer loop goes on with getEdge
  | k :: ks, b :: bs =>
    if k ≠ b then (0, true)
    else ((cowInner ks bs).1 + 1, (cowInner ks bs).2)

inductive Class where
  | exactMatch | keyEndMidEdge | toEndOfEdge | toMiddleOfEdge
deriving DecidableEq, Repr

/-- `searchResult.classify` at a non-root node; `n` = charsMatchedInNodeFound, `restLen` = len(path) - (charsMatched - n) -/
def classify (keyLen restLen n : Nat) : Class :=
  if n = restLen then (if n = keyLen then .exactMatch else .keyEndMidEdge)
  else if n = keyLen then .toEndOfEdge else .toMiddleOfEdge

/-- `for i := len(cPrefix)-1; i >= 0; i-- { if cPrefix[i] == '/' { break }; if cPrefix[i] == '{' || cPrefix[i] == '*' { conflict } }`,
    on the reversed prefix -/
def scanPathRev : Bytes → Bool
  | [] => false
  | b :: r => if b = SLASH then false else if b = LBR ∨ b = STAR then true else scanPathRev r

def conflictPath (cPrefix : Bytes) : Bool := scanPathRev cPrefix.reverse

/-- `for … { if cPrefix[i] == '.' { break }; if cPrefix[i] == '{' { conflict } }` -/
def scanHostRev : Bytes → Bool
  | [] => false
  | b :: r => if b = DOT then false else if b = LBR then true else scanHostRev r

/-- `else if !strings.HasSuffix(cPrefix, "}") { … }` -/
def conflictHost (cPrefix : Bytes) : Bool := if cPrefix.getLast? = some RBR then false else scanHostRev cPrefix.reverse

/-- `strings.TrimPrefix` -/
def trimPrefix (s pre : Bytes) : Bytes := if pre.isPrefixOf s then s.drop pre.length else s

structure StepB where
  cls : Class
  conflict : Bool
  cPrefix : Bytes
  sufEdge : Bytes
  keySuffix : Bytes
deriving DecidableEq, Repr

/-- the byte-level computations at the matched node: `keyB` = matched.key, `restB` = path[charsMatched-charsMatchedInNodeFound:],
    `isHostname` = charsMatched <= route.hostSplit -/
def stepB (keyB restB : Bytes) (isHostname : Bool) : StepB :=
  let n := lcpB restB keyB
  let cPrefix := restB.take n
  { cls := classify keyB.length restB.length n,
    conflict := if isHostname then conflictHost cPrefix else conflictPath cPrefix,
    cPrefix := cPrefix,
    sufEdge := trimPrefix keyB cPrefix,
    keySuffix := restB.drop n }

structure StepT where
  cls : Class
  conflict : Bool
  cp : List Tok
  sufEdge : List Tok
  keySuffix : List Tok
deriving DecidableEq, Repr

/-- the same node step in `Model.insertNode` -/
def stepT (key toks : List Tok) : StepT :=
  let cp := commonPrefix key toks
  let kr := key.drop cp.length
  let tr := toks.drop cp.length
  { cls := match kr, tr with
      | [], [] => .exactMatch
      | _ :: _, [] => .keyEndMidEdge
      | [], _ :: _ => .toEndOfEdge
      | _ :: _, _ :: _ => .toMiddleOfEdge,
    conflict := match kr, tr with
      | a :: _, b :: _ => isWildSame a b
      | _, _ => false,
    cp := cp, sufEdge := kr, keySuffix := tr }

/-- the new leaf of a hostname route whose hostname is not consumed yet: `keySuffix[:hostSplit-charsMatched]`, `keySuffix[hostSplit-charsMatched:]` -/
def leafSplitB (keySuffix : Bytes) (hostSplit charsMatched : Nat) : Bytes × Bytes :=
  (keySuffix.take (hostSplit - charsMatched), keySuffix.drop (hostSplit - charsMatched))

/-! ### keys and patterns of the grammar (hypotheses of the theorems of `Lemmas/InsScan`) -/

/-- a wildcard name as the parser accepts it: no '}', '/', '{', '*' -/
def nameOk (n : Bytes) : Bool := n.all fun b => b != RBR && b != SLASH && b != LBR && b != STAR

def tokOk : Tok → Bool
  | .lit b => b != LBR && b != STAR
  | .param n => nameOk n
  | .catchAll n => nameOk n

def toksOk (k : List Tok) : Bool := k.all tokOk

/-- in a path, a wildcard is the last thing of its segment: what follows it (if anything) is '/' -/
def fragOkPath : List Tok → Bool
  | [] => true
  | t :: rest => (!isWild t || (match rest with | [] => true | x :: _ => x == .lit SLASH)) && fragOkPath rest

/-- a hostname fragment: literal text without '}' , parameters (no catch-all) whose names have no '.', and a parameter is
    the last thing of its label: what follows it (if anything) is '.' -/
def fragOkHost : List Tok → Bool
  | [] => true
  | t :: rest =>
    (match t with
     | .lit c => c != RBR
     | .param n => n.all (· != DOT) && (match rest with | [] => true | x :: _ => x == .lit DOT)
     | .catchAll _ => false) && fragOkHost rest


mutual
/-- every key of the (sub)tree is made of grammar tokens and has its wildcards at the end of a segment (path part) /
    of a label (hostname part); `inPath` = the node lies below the first '/' -/
def fragOkNode (inPath : Bool) : Node → Bool
  | .mk k _ cs =>
    let p := inPath || startsWithSlash k
    toksOk k && (if p then fragOkPath k else fragOkHost k) && fragOkKids p cs
def fragOkKids (inPath : Bool) : List Node → Bool
  | [] => true
  | c :: cs => fragOkNode inPath c && fragOkKids inPath cs
end

/-- the hypotheses of `Fox.C02.Bytes.*` hold for every key of the forest (evaluated by the driver on every model tree) -/
def fragOkRoots (rs : Roots) : Bool := rs.all fun x => fragOkKids false x.2.children

end Fox.Model.InsScan
