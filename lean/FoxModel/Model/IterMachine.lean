import FoxModel.Basic
import FoxModel.Model.Lookup
import FoxModel.Model.Tree
/-
  FoxModel.Model.IterMachine — the explicit-stack traversal of iter.go, as the Go code runs it.

  `rawIterator.hasNext` (used for the conflict list of `tXn.insert`) and the inner loop of `Iter.Prefix` (hence of
  `Iter.All`) are the same loop over a stack of frames `stack{edges []*node}`:

      last := stack[n-1]; elem := last.edges[0]
      if len(last.edges) > 1 { stack[n-1].edges = last.edges[1:] } else { stack = stack[:n-1] }
      if len(elem.children) > 0 { stack = append(stack, stack{edges: elem.children}) }
      if elem.isLeaf() { … yield / return true … }

  The tree model lists the routes below a node by structural recursion (`routesNode`, pre-order). Here the loop is a
  state machine on the stack (top of the stack = head of the list): `next` runs it up to the next leaf. A frame with no
  edges, on which `last.edges[0]` would panic, is a result of its own (`panic`); it is never reached (Lemmas/IterMachine).
-/
namespace Fox.Model.IterMachine
open Fox Fox.Model

abbrev Stack := List (List Node)

mutual
def nsize : Node → Nat
  | .mk _ _ cs => 1 + ksize cs
def ksize : List Node → Nat
  | [] => 0
  | c :: cs => nsize c + ksize cs
end

def weight : Stack → Nat
  | [] => 0
  | f :: rest => ksize f + weight rest

inductive Res where
  | done                                  -- the stack is empty: `return false` / the loop ends
  | panic                                 -- `last.edges[0]` on an empty frame
  | item (r : Route) (stk : Stack)        -- `return true` / `yield(method, elem.route)` with the stack left behind
deriving Inhabited

/-- pop the element, shrink or drop its frame, push its children -/
def advance (e : Node) (es : List Node) (rest : Stack) : Stack :=
  let stk1 := if es.isEmpty then rest else es :: rest
  if e.children.isEmpty then stk1 else e.children :: stk1

theorem ksize_children_lt (e : Node) : ksize e.children < nsize e := by
  cases e with | mk k r cs => simp only [nsize, Node.children]; omega

theorem weight_advance (e : Node) (es : List Node) (rest : Stack) :
    weight (advance e es rest) < weight ((e :: es) :: rest) := by
  have h := ksize_children_lt e
  unfold advance
  cases hes : es.isEmpty <;> cases hc : e.children.isEmpty <;>
    simp only [weight, ksize, Bool.false_eq_true, if_false, if_true]
  · omega
  · rw [List.isEmpty_iff] at hc; rw [hc] at h; simp only [ksize] at h; omega
  · rw [List.isEmpty_iff] at hes; subst hes; simp only [ksize]; omega
  · rw [List.isEmpty_iff] at hes; subst hes; simp only [ksize]; omega

/-- the loop up to the next leaf -/
def next : Stack → Res
  | [] => .done
  | [] :: _ => .panic
  | (e :: es) :: rest =>
    match e.route with
    | some r => .item r (advance e es rest)
    | none => next (advance e es rest)
termination_by stk => weight stk
decreasing_by exact weight_advance e es rest

/-- everything the loop still has to yield: the routes below the pending edges, frame by frame from the top -/
def pending (stk : Stack) : List Route := stk.flatMap routesKids

/-- run the loop to the end, collecting what it yields (`fuel` bounds the number of yields) -/
def drain : Nat → Stack → Option (List Route)
  | 0, _ => some []
  | fuel + 1, stk =>
    match next stk with
    | .done => some []
    | .panic => none
    | .item r stk' => (drain fuel stk').map (r :: ·)

/-- frames are never empty: the loop only pushes `elem.children` when there are some and drops a frame with its last edge -/
def FramesOk (stk : Stack) : Prop := ∀ f ∈ stk, f ≠ []

end Fox.Model.IterMachine
