import FoxModel.Model.Machine
import FoxModel.Model.Parse
/-
  FoxModel.Model.KeyScan — the inner loop of `lookupByPath` on the *bytes* of a node key, with the Go index arithmetic:

      for i := 0; charsMatched < len(path); i++ {
          if i >= len(current.key) { break }
          if current.key[i] != path[charsMatched] || path[charsMatched] == '{' || path[charsMatched] == '*' {
              if current.key[i] == '{' {
                  idx := strings.IndexByte(path[charsMatched:], '/') …            // the segment
                  idx = current.params[paramKeyCnt].end - charsMatchedInNodeFound   // jump over "{name}" in the key
                  if idx >= 0 { i += idx - 1; charsMatchedInNodeFound += idx } else { … to the end of the key … }
                  if !lazy { paramCnt++; append } ; paramKeyCnt++ ; continue
              }
              if current.key[i] == '*' { … }            // catch-all block (Machine.infixLoop)
              break Walk
          }
          charsMatched++ ; charsMatchedInNodeFound++
      }

  `scanB` runs this loop on `key : Bytes` and `current.params` (what `parseWildcard` returned when the node was built)
  up to the point where the token-level machine (`Machine.keyLoop`) takes a branch other than "advance"; `scanT` is that
  advancing part of `Machine.keyLoop` on tokens. `Lemmas/KeyScan.lean` proves that they agree: the byte offsets
  (`i` = `charsMatchedInNodeFound`, `paramKeyCnt`, `params[k].end`) are the token split `pre | k` of the key.
-/
namespace Fox.Model.KeyScan
open Fox Fox.Model Fox.Model.Machine

inductive Stop where
  | pathEnd      -- `charsMatched < len(path)` is false
  | keyEnd       -- `i >= len(current.key)`
  | mismatch     -- `break Walk`
  | emptySeg     -- `break Walk` (the segment of a {param} is empty)
  | catchAll     -- `current.key[i] == '*'`
  | panic        -- index out of range (never, on keys the router builds)
deriving DecidableEq, Repr

structure BOut where
  stop : Stop
  i : Nat          -- index in the key bytes (`i` and `charsMatchedInNodeFound` coincide)
  pk : Nat         -- `paramKeyCnt`
  cm : Nat         -- `charsMatched`
  pc : Nat         -- `paramCnt`
  ps : Binds       -- `*c.params`
deriving DecidableEq, Repr

/-- the jump over a wildcard in the key: `idx = params[k].end - charsMatchedInNodeFound; if idx >= 0 { += idx } else { to len(key) }` -/
def jump (keyLen i : Nat) (e : Int) : Nat :=
  if e - (i : Int) ≥ 0 then i + (e - (i : Int)).toNat else keyLen

def scanB (key : Bytes) (wp : List WParam) (path : Bytes) (lz : Bool) (i pk cm pc : Nat) (ps : Binds) : BOut :=
  match hp : path.drop cm with
  | [] => ⟨.pathEnd, i, pk, cm, pc, ps⟩
  | b :: rest =>
    match key[i]? with
    | none => ⟨.keyEnd, i, pk, cm, pc, ps⟩
    | some kb =>
      if kb ≠ b ∨ b = LBR ∨ b = STAR then
        if kb = LBR then
          if segEnd SLASH (b :: rest) = 0 then ⟨.emptySeg, i, pk, cm, pc, ps⟩
          else
            match wp[pk]? with
            | none => ⟨.panic, i, pk, cm, pc, ps⟩
            | some w =>
              scanB key wp path lz (jump key.length i w.end) (pk + 1) (cm + segEnd SLASH (b :: rest)) (inc lz pc)
                (rec lz ps [(w.key, (b :: rest).take (segEnd SLASH (b :: rest)))])
        else if kb = STAR then ⟨.catchAll, i, pk, cm, pc, ps⟩
        else ⟨.mismatch, i, pk, cm, pc, ps⟩
      else scanB key wp path lz (i + 1) pk (cm + 1) pc ps
termination_by path.length - cm
decreasing_by
  all_goals (have hlen := drop_cons_lt hp)
  all_goals omega

structure TOut where
  stop : Stop
  pre : List Tok
  k : List Tok
  cm : Nat
  pc : Nat
  ps : Binds
deriving DecidableEq, Repr

/-- the advancing part of `Machine.keyLoop`: literal and {param} tokens are consumed until something else happens -/
def scanT (pre k : List Tok) (rest : Bytes) (lz : Bool) (cm pc : Nat) (ps : Binds) : TOut :=
  match rest with
  | [] => ⟨.pathEnd, pre, k, cm, pc, ps⟩
  | b :: r =>
    match k with
    | [] => ⟨.keyEnd, pre, [], cm, pc, ps⟩
    | .lit c :: k' =>
      if c = b ∧ b ≠ LBR ∧ b ≠ STAR then scanT (pre ++ [.lit c]) k' r lz (cm + 1) pc ps
      else ⟨.mismatch, pre, .lit c :: k', cm, pc, ps⟩
    | .param nm :: k' =>
      if segEnd SLASH (b :: r) = 0 then ⟨.emptySeg, pre, .param nm :: k', cm, pc, ps⟩
      else
        scanT (pre ++ [.param nm]) k' ((b :: r).drop (segEnd SLASH (b :: r))) lz (cm + segEnd SLASH (b :: r)) (inc lz pc)
          (rec lz ps [(nm, (b :: r).take (segEnd SLASH (b :: r)))])
    | .catchAll nm :: k' => ⟨.catchAll, pre, .catchAll nm :: k', cm, pc, ps⟩
termination_by rest.length
decreasing_by
  all_goals simp_wf
  have := segEnd_le SLASH (b :: r)
  simp only [List.length_drop, List.length_cons] at *
  omega

end Fox.Model.KeyScan
