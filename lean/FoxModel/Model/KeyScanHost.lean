import FoxModel.Model.KeyScan
/-
  FoxModel.Model.KeyScanHost — the inner loop of `lookupByDomain` on the *bytes* of a node key, with the Go index
  arithmetic (the hostname counterpart of `Model/KeyScan`):

      for i := 0; charsMatched < len(host); i++ {
          if i >= len(current.key) { break }
          if current.key[i] != host[charsMatched] || host[charsMatched] == '{' {
              if current.key[i] == '{' {
                  idx = strings.IndexByte(host[charsMatched:], '.') …                 // the label part
                  idx = current.params[paramKeyCnt].end - charsMatchedInNodeFound       // jump over "{name}" in the key
                  if idx >= 0 { i += idx - 1; charsMatchedInNodeFound += idx } else { … to the end of the key … }
                  if !lazy { paramCnt++; append } ; paramKeyCnt++ ; continue
              }
              break Walk
          }
          charsMatched++ ; charsMatchedInNodeFound++
      }

  `scanBH` runs it on `key : Bytes` and `current.params`; `scanTH` is the advancing part of `Machine.hostKeyLoop` on tokens.
-/
namespace Fox.Model.KeyScan
open Fox Fox.Model Fox.Model.Machine

def scanBH (key : Bytes) (wp : List WParam) (host : Bytes) (lz : Bool) (i pk cm pc : Nat) (ps : Binds) : BOut :=
  match hp : host.drop cm with
  | [] => ⟨.pathEnd, i, pk, cm, pc, ps⟩
  | b :: rest =>
    match key[i]? with
    | none => ⟨.keyEnd, i, pk, cm, pc, ps⟩
    | some kb =>
      if kb ≠ b ∨ b = LBR then
        if kb = LBR then
          if segEnd DOT (b :: rest) = 0 then ⟨.emptySeg, i, pk, cm, pc, ps⟩
          else
            match wp[pk]? with
            | none => ⟨.panic, i, pk, cm, pc, ps⟩
            | some w =>
              scanBH key wp host lz (jump key.length i w.end) (pk + 1) (cm + segEnd DOT (b :: rest)) (inc lz pc)
                (rec lz ps [(w.key, (b :: rest).take (segEnd DOT (b :: rest)))])
        else ⟨.mismatch, i, pk, cm, pc, ps⟩
      else scanBH key wp host lz (i + 1) pk (cm + 1) pc ps
termination_by host.length - cm
decreasing_by
  all_goals (have hlen := drop_cons_lt hp)
  all_goals omega

/-- the advancing part of `Machine.hostKeyLoop`: literal and {param} tokens are consumed until something else happens
    (a catch-all token does not occur in hostname keys: the machine stops there, reported as a mismatch) -/
def scanTH (pre k : List Tok) (rest : Bytes) (lz : Bool) (cm pc : Nat) (ps : Binds) : TOut :=
  match rest with
  | [] => ⟨.pathEnd, pre, k, cm, pc, ps⟩
  | b :: r =>
    match k with
    | [] => ⟨.keyEnd, pre, [], cm, pc, ps⟩
    | .lit c :: k' =>
      if c = b ∧ b ≠ LBR then scanTH (pre ++ [.lit c]) k' r lz (cm + 1) pc ps
      else ⟨.mismatch, pre, .lit c :: k', cm, pc, ps⟩
    | .param nm :: k' =>
      if segEnd DOT (b :: r) = 0 then ⟨.emptySeg, pre, .param nm :: k', cm, pc, ps⟩
      else
        scanTH (pre ++ [.param nm]) k' ((b :: r).drop (segEnd DOT (b :: r))) lz (cm + segEnd DOT (b :: r)) (inc lz pc)
          (rec lz ps [(nm, (b :: r).take (segEnd DOT (b :: r)))])
    | .catchAll nm :: k' => ⟨.mismatch, pre, .catchAll nm :: k', cm, pc, ps⟩
termination_by rest.length
decreasing_by
  all_goals simp_wf
  have := segEnd_le DOT (b :: r)
  simp only [List.length_drop, List.length_cons] at *
  omega

end Fox.Model.KeyScan
