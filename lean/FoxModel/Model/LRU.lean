/-
  FoxModel.Model.LRU — internal/simplelru (lru.go over list.go), the cache in which a write transaction remembers
  the nodes it has cloned itself (`tXn.writable`): a node found there is written in place, any other node is cloned
  first (tree.go, copyOnWriteSearch). Property C03 therefore needs one thing of it: **`Get` answers "present" only for
  keys that were added to this cache** (since it was created or purged) - a false "present" lets a transaction write
  into a node that a published tree shares.

  Two levels:
  * `LRU` - the cache as a recency list (most recently used first) of (key, value) pairs with a capacity: what
    `Add`, `Get`, `Contains`, `Peek`, `Remove`, `RemoveOldest`, `Purge`, `Keys`, `Len`, `Resize` do;
  * `Ring` - the doubly linked ring with a sentinel of list.go (`insert`, `Remove`, `move`, `MoveToFront`,
    `PushFront`, `Back`) on a heap of cells addressed by index, plus the `items` map: the pointer surgery as the Go
    code performs it, one field assignment after the other. Lemmas/LRU proves that the ring operations refine the
    list operations.
  Core Lean only.
-/
namespace Fox.LRU

structure LRU where
  cap : Nat
  /-- most recently used first -/
  items : List (Nat × Nat)
deriving Repr, DecidableEq, Inhabited

def empty (cap : Nat) : LRU := ⟨cap, []⟩

def LRU.keysMRU (c : LRU) : List Nat := c.items.map (·.1)
def LRU.contains (c : LRU) (k : Nat) : Bool := c.keysMRU.contains k
def LRU.peek (c : LRU) (k : Nat) : Option Nat := (c.items.find? (·.1 == k)).map (·.2)
def LRU.len (c : LRU) : Nat := c.items.length
/-- `Keys()`: oldest first -/
def LRU.keys (c : LRU) : List Nat := c.keysMRU.reverse

def without (items : List (Nat × Nat)) (k : Nat) : List (Nat × Nat) := items.filter (·.1 != k)

/-- `Add`: an existing key is moved to the front with the new value; a new key is pushed in front and, if the list is
    then longer than the capacity, the oldest entry is removed (`evicted`) -/
def LRU.add (c : LRU) (k v : Nat) : LRU × Bool :=
  if c.contains k then ({ c with items := (k, v) :: without c.items k }, false)
  else
    let items := (k, v) :: c.items
    if items.length > c.cap then ({ c with items := items.dropLast }, true) else ({ c with items := items }, false)

/-- `Get`: the value, and the entry becomes the most recently used -/
def LRU.get (c : LRU) (k : Nat) : LRU × Option Nat :=
  match c.peek k with
  | some v => ({ c with items := (k, v) :: without c.items k }, some v)
  | none => (c, none)

def LRU.remove (c : LRU) (k : Nat) : LRU × Bool :=
  if c.contains k then ({ c with items := without c.items k }, true) else (c, false)

def LRU.removeOldest (c : LRU) : LRU × Option (Nat × Nat) :=
  match c.items.getLast? with
  | some e => ({ c with items := c.items.dropLast }, some e)
  | none => (c, none)

def LRU.purge (c : LRU) : LRU := { c with items := [] }

def LRU.resize (c : LRU) (n : Nat) : LRU × Nat :=
  ({ cap := n, items := c.items.take (min c.items.length n) }, c.items.length - n)

inductive Op where
  | add (k v : Nat) | get (k : Nat) | contains (k : Nat) | peek (k : Nat) | remove (k : Nat)
  | removeOldest | purge | keys | len | resize (n : Nat)
deriving Repr, DecidableEq, Inhabited

inductive Out where
  | bool (b : Bool) | val (v : Option Nat) | pair (p : Option (Nat × Nat)) | unit | list (l : List Nat) | nat (n : Nat)
deriving Repr, DecidableEq, Inhabited

def step (c : LRU) : Op → LRU × Out
  | .add k v => let r := c.add k v; (r.1, .bool r.2)
  | .get k => let r := c.get k; (r.1, .val r.2)
  | .contains k => (c, .bool (c.contains k))
  | .peek k => (c, .val (c.peek k))
  | .remove k => let r := c.remove k; (r.1, .bool r.2)
  | .removeOldest => let r := c.removeOldest; (r.1, .pair r.2)
  | .purge => (c.purge, .unit)
  | .keys => (c, .list c.keys)
  | .len => (c, .nat c.len)
  | .resize n => let r := c.resize n; (r.1, .nat r.2)

def run (c : LRU) : List Op → LRU × List Out
  | [] => (c, [])
  | op :: ops => let r := step c op; let rest := run r.1 ops; (rest.1, r.2 :: rest.2)

/-- the keys added since the cache was created or last purged (what a "present" answer may name) -/
def addedStep (acc : List Nat) : Op → List Nat
  | .add k _ => k :: acc
  | .purge => []
  | _ => acc

def added (ops : List Op) : List Nat := ops.foldl addedStep []

end Fox.LRU
