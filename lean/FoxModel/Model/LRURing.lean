import FoxModel.Model.LRU
/-
  FoxModel.Model.LRURing — internal/simplelru/list.go as the pointer structure it is: a doubly linked ring with a
  sentinel (`root`), entries addressed by index, `next` / `prev` pointers that may be nil, and the `items` map of lru.go
  from keys to entries. Every Go statement that reads or writes a pointer field is one step; reading a nil pointer (a
  panic in Go) makes the operation fail (`none`).

      insert(e, at):   e.prev = at; e.next = at.next; e.prev.next = e; e.next.prev = e; len++
      Remove(e):       e.prev.next = e.next; e.next.prev = e.prev; e.next = nil; e.prev = nil; len--
      move(e, at):     if e == at {return}; e.prev.next = e.next; e.next.prev = e.prev;
                       e.prev = at; e.next = at.next; e.prev.next = e; e.next.prev = e
      MoveToFront(e):  if l.root.next == e {return}; move(e, &l.root)
      PushFront(k, v): insert(&Entry{k, v}, &l.root)
      Back():          if len == 0 {nil} else root.prev

  Lemmas/LRURing proves that on a well-formed ring these are the list operations of `Model/LRU` (push in front, delete,
  move to the front, last element), and that `LRU.Add` / `LRU.Get` built from them refine `LRU.add` / `LRU.get`.
  Core Lean only.
-/
namespace Fox.LRU.Ring

structure Ring where
  next : Nat → Option Nat
  prev : Nat → Option Nat
  key : Nat → Nat
  val : Nat → Nat
  /-- the next unused entry index (`&Entry{…}` allocates it); index 0 is the sentinel `root` -/
  fresh : Nat
  len : Nat
  /-- `items map[K]*Entry`: key ↦ entry index -/
  items : List (Nat × Nat)
  cap : Nat

def upd {α} (f : Nat → α) (i : Nat) (v : α) : Nat → α := fun j => if j = i then v else f j

/-- `NewLRU(size)`: `root.next = root.prev = &root`, `len = 0`, an empty map -/
def new (cap : Nat) : Ring :=
  { next := upd (fun _ => none) 0 (some 0), prev := upd (fun _ => none) 0 (some 0), key := fun _ => 0, val := fun _ => 0,
    fresh := 1, len := 0, items := [], cap := cap }

/-- the last four statements of `insert` and of `move`: `e.prev = at; e.next = at.next; e.prev.next = e; e.next.prev = e` -/
def link (r : Ring) (e at_ : Nat) : Option Ring := do
  let r := { r with prev := upd r.prev e (some at_) }                    -- e.prev = at
  let an ← r.next at_
  let r := { r with next := upd r.next e (some an) }                     -- e.next = at.next
  let p ← r.prev e
  let r := { r with next := upd r.next p (some e) }                      -- e.prev.next = e
  let n ← r.next e
  let r := { r with prev := upd r.prev n (some e) }                      -- e.next.prev = e
  some r

/-- the first two statements of `Remove` and of `move`: `e.prev.next = e.next; e.next.prev = e.prev` -/
def unlink (r : Ring) (e : Nat) : Option Ring := do
  let p ← r.prev e
  let n ← r.next e
  let r := { r with next := upd r.next p (some n) }                      -- e.prev.next = e.next
  let n ← r.next e
  let p ← r.prev e
  let r := { r with prev := upd r.prev n (some p) }                      -- e.next.prev = e.prev
  some r

/-- `insert(e, at)` -/
def insert (r : Ring) (e at_ : Nat) : Option Ring := do
  let r ← link r e at_
  some { r with len := r.len + 1 }

/-- `Remove(e)` of list.go -/
def remove (r : Ring) (e : Nat) : Option Ring := do
  let r ← unlink r e
  let r := { r with next := upd r.next e none }                          -- e.next = nil
  let r := { r with prev := upd r.prev e none }                          -- e.prev = nil
  some { r with len := r.len - 1 }

/-- `move(e, at)` -/
def move (r : Ring) (e at_ : Nat) : Option Ring :=
  if e = at_ then some r else do
  let r ← unlink r e
  link r e at_

/-- `MoveToFront(e)` -/
def moveToFront (r : Ring) (e : Nat) : Option Ring := do
  let h ← r.next 0
  if h = e then some r else move r e 0

/-- `PushFront(k, v)`: a new entry, inserted after the sentinel; returns its index -/
def pushFront (r : Ring) (k v : Nat) : Option (Ring × Nat) := do
  let e := r.fresh
  let r := { r with key := upd r.key e k, val := upd r.val e v, fresh := r.fresh + 1 }
  let r ← insert r e 0
  some (r, e)

/-- `Back()` -/
def back (r : Ring) : Option (Option Nat) := if r.len = 0 then some none else (r.prev 0).map some

def lookup (items : List (Nat × Nat)) (k : Nat) : Option Nat := (items.find? (·.1 == k)).map (·.2)

/-- `removeElement(e)`: unlink, `delete(items, e.Key)` -/
def removeElement (r : Ring) (e : Nat) : Option Ring := do
  let r ← remove r e
  some { r with items := r.items.filter (·.1 != r.key e) }

/-- `LRU.Add` of lru.go -/
def add (r : Ring) (k v : Nat) : Option (Ring × Bool) :=
  match lookup r.items k with
  | some e => do
    let r ← moveToFront r e
    some ({ r with val := upd r.val e v }, false)
  | none => do
    let (r, e) ← pushFront r k v
    let r := { r with items := (k, e) :: r.items }
    if r.len > r.cap then do
      let b ← back r
      match b with
      | some e => (removeElement r e).map (·, true)
      | none => some (r, true)
    else some (r, false)

/-- `LRU.Get` of lru.go -/
def get (r : Ring) (k : Nat) : Option (Ring × Option Nat) :=
  match lookup r.items k with
  | some e => do
    let r ← moveToFront r e
    some (r, some (r.val e))
  | none => some (r, none)

/-- follow `next` from `a` for `n` steps -/
def walk (r : Ring) : Nat → Nat → Option (List Nat)
  | 0, _ => some []
  | n + 1, a => do
    let x ← r.next a
    let rest ← walk r n x
    some (x :: rest)

/-- the entries in recency order, as (key, value) pairs, read off the ring -/
def contents (r : Ring) : Option (List (Nat × Nat)) := (walk r r.len 0).map fun l => l.map fun i => (r.key i, r.val i)

/-- the operations a write transaction performs on its cache (tree.go: `t.writable.Get(p)`, `t.writable.Add(cp, nil)`) -/
inductive TOp where
  | add (k v : Nat) | get (k : Nat)
deriving Repr, DecidableEq

def TOp.toOp : TOp → Op
  | .add k v => .add k v
  | .get k => .get k

def step (r : Ring) : TOp → Option (Ring × Out)
  | .add k v => (add r k v).map fun p => (p.1, .bool p.2)
  | .get k => (get r k).map fun p => (p.1, .val p.2)

/-- run a sequence on the pointer structure; `none` = a nil pointer was dereferenced -/
def run (r : Ring) : List TOp → Option (Ring × List Out)
  | [] => some (r, [])
  | op :: ops => do
    let (r1, o) ← step r op
    let (r2, os) ← run r1 ops
    some (r2, o :: os)

end Fox.LRU.Ring
