import FoxModel.Spec.Clean
/-
  FoxModel.Model.Location — the `Location` header of the trailing-slash redirect (property C08), and an independent
  executable reading of RFC 3986 reference resolution to judge it against. Core Lean only (linked into `foxmodel`).

  Part 1 (`Fox.Model.Location`) follows the Go text:
      fox.go   defaultRedirectTrailingSlashHandler, localRedirect, hexEscapeNonASCII
      path.go  FixTrailingSlash
      path     Base (standard library)
  Part 2 (`Fox.RFC3986`) follows the RFC text and shares nothing with part 1 except the byte constants:
      Appendix B / §3 / §4.2   `parseRef`   (the five components of a URI reference)
      §5.2.4                   `removeDotSegments`
      §5.2.3                   `merge`
      §5.2.2                   `resolve`    (strict; the base is the request URL `http://host` ++ basePath [++ "?" ++ baseQuery])
-/
namespace Fox.Model.Location
open Fox

def QMARK   : UInt8 := 63   -- '?'
def HASH    : UInt8 := 35   -- '#'
def PERCENT : UInt8 := 37   -- '%'

/-! ### Go side -/

/-- path.go `FixTrailingSlash`: `if len(path) > 1 && path[len(path)-1] == '/' { return path[:len(path)-1] }; return path + "/"` -/
def fixTrailingSlash (p : Bytes) : Bytes :=
  if p.length > 1 ∧ p.getLast? = some SLASH then p.dropLast else p ++ [SLASH]

/-- `for len(path) > 0 && path[len(path)-1] == '/' { path = path[0 : len(path)-1] }` -/
def stripTrailingSlashes (p : Bytes) : Bytes := (p.reverse.dropWhile (· = SLASH)).reverse

/-- `if i := LastIndexByte(path, '/'); i >= 0 { path = path[i+1:] }` -/
def afterLastSlash (p : Bytes) : Bytes := (p.reverse.takeWhile (· ≠ SLASH)).reverse

/-- Go `path.Base`: "" ↦ ".", only slashes ↦ "/", else the last element (trailing slashes removed first) -/
def pathBase (p : Bytes) : Bytes :=
  if p = [] then [DOT]
  else if afterLastSlash (stripTrailingSlashes p) = [] then [SLASH]
  else afterLastSlash (stripTrailingSlashes p)

/-- the `"./"` repair of F08: `if strings.Contains(base, ":") { base = "./" + base }` -/
def guardColon (base : Bytes) : Bytes := if COLON ∈ base then [DOT, SLASH] ++ base else base

/-- `defaultRedirectTrailingSlashHandler`: the relative target handed to `localRedirect`, computed from
    `url := FixTrailingSlash(req.URL.EscapedPath())` -/
def redirectTarget (escPath : Bytes) : Bytes :=
  if (fixTrailingSlash escPath).getLast? = some SLASH then
    guardColon (pathBase (fixTrailingSlash escPath)) ++ [SLASH]
  else [DOT, DOT, SLASH] ++ pathBase (fixTrailingSlash escPath)

/-- `localRedirect`: `if q := r.URL.RawQuery; q != "" { path += "?" + q }` -/
def withQuery (target query : Bytes) : Bytes := if query = [] then target else target ++ QMARK :: query

/-- the string `localRedirect` passes to `hexEscapeNonASCII` (and to `htmlEscape` for the body) -/
def location (escPath query : Bytes) : Bytes := withQuery (redirectTarget escPath) query

/-- lower-case hexadecimal digit (`strconv.AppendInt(_, _, 16)`) -/
def hexDigit (n : UInt8) : UInt8 := if n < 10 then 48 + n else 87 + n

/-- one byte of `hexEscapeNonASCII`: bytes ≥ `utf8.RuneSelf` (0x80) become `%` and two hex digits -/
def hexEscapeByte (b : UInt8) : Bytes := if b ≥ 128 then [PERCENT, hexDigit (b >>> 4), hexDigit (b &&& 15)] else [b]

/-- fox.go `hexEscapeNonASCII` -/
def hexEscapeNonASCII (s : Bytes) : Bytes := s.flatMap hexEscapeByte

/-- the value of the `Location` header -/
def locationHeader (escPath query : Bytes) : Bytes := hexEscapeNonASCII (location escPath query)

def isASCII (s : Bytes) : Bool := s.all (· < 128)

/-! ### the request paths a redirect is issued for -/

/-- the elements of the path: `strings.Split(e, "/")` -/
def segments (e : Bytes) : List Bytes := Spec.Clean.splitSlash e

/-- two consecutive slashes -/
def hasDoubleSlash : Bytes → Bool
  | a :: b :: r => (a == SLASH && b == SLASH) || hasDoubleSlash (b :: r)
  | _ => false

/-- An escaped request path of a redirected request:
    (a) it starts with '/', (b) it is not "/", (c) it has no empty element ("//"), (d) it has no "." or ".." element,
    (e) it has neither '?' nor '#' (`URL.EscapedPath` escapes both). (a)–(d) say that the path is a fixed point of `CleanPath`
    other than the root (see `Fox.C08.cleanEscaped_iff_canonical`). -/
structure CleanEscaped (e : Bytes) : Prop where
  rooted : e.head? = some SLASH
  notRoot : e ≠ [SLASH]
  noEmpty : hasDoubleSlash e = false
  noDot : [DOT] ∉ segments e
  noDotDot : [DOT, DOT] ∉ segments e
  noQuery : QMARK ∉ e
  noFragment : HASH ∉ e

instance (e : Bytes) : Decidable (CleanEscaped e) :=
  if h : e.head? = some SLASH ∧ e ≠ [SLASH] ∧ hasDoubleSlash e = false ∧ [DOT] ∉ segments e ∧ [DOT, DOT] ∉ segments e ∧
      QMARK ∉ e ∧ HASH ∉ e
  then isTrue ⟨h.1, h.2.1, h.2.2.1, h.2.2.2.1, h.2.2.2.2.1, h.2.2.2.2.2.1, h.2.2.2.2.2.2⟩
  else isFalse fun c => h ⟨c.1, c.2, c.3, c.4, c.5, c.6, c.7⟩

end Fox.Model.Location

/-! ### RFC 3986 -/
namespace Fox.RFC3986
open Fox

/- the only things shared with the Go half are the byte constants -/
open Fox.Model.Location (QMARK HASH)

def isAlpha (c : UInt8) : Bool := (65 ≤ c && c ≤ 90) || (97 ≤ c && c ≤ 122)
def isDigit (c : UInt8) : Bool := 48 ≤ c && c ≤ 57
/-- §3.1: `ALPHA / DIGIT / "+" / "-" / "."` -/
def isSchemeChar (c : UInt8) : Bool := isAlpha c || isDigit c || c == 43 || c == 45 || c == 46
/-- §3.1: `scheme = ALPHA *( ALPHA / DIGIT / "+" / "-" / "." )` -/
def isScheme : Bytes → Bool
  | [] => false
  | c :: cs => isAlpha c && cs.all isSchemeChar

/-- the five components of Appendix B; `none` = undefined (absent), `some []` = present and empty -/
structure Ref where
  scheme : Option Bytes
  authority : Option Bytes
  path : Bytes
  query : Option Bytes
  fragment : Option Bytes
deriving DecidableEq, Repr

/- Appendix B: `^(([^:/?#]+):)?(//([^/?#]*))?([^?#]*)(\?([^#]*))?(#(.*))?`, one pair of functions per group
   (the component, and what is left of the input). -/

/-- `[^:/?#]` -/
def notGenDelim (c : UInt8) : Bool := !(c == COLON || c == SLASH || c == QMARK || c == HASH)
/-- `[^/?#]` -/
def notPathEnd (c : UInt8) : Bool := !(c == SLASH || c == QMARK || c == HASH)
/-- `[^?#]` -/
def notQueryStart (c : UInt8) : Bool := !(c == QMARK || c == HASH)
/-- `[^#]` -/
def notHash (c : UInt8) : Bool := !(c == HASH)

/-- the first path segment of a relative reference, as a scheme detector sees it: everything before the first of `: / ? #` -/
def firstSegment (s : Bytes) : Bytes := s.takeWhile notGenDelim

/-- group 2: the bytes before the first of `: / ? #`, when a ':' follows and they form a scheme name (§3.1). This is the
    ambiguity of §4.2: "a path segment that contains a colon character (e.g. "this:that") cannot be used as the first segment
    of a relative-path reference, as it would be mistaken for a scheme name". -/
def schemeOf (s : Bytes) : Option Bytes :=
  if isScheme (firstSegment s) = true ∧ (s.drop (firstSegment s).length).head? = some COLON then some (firstSegment s) else none

def afterScheme (s : Bytes) : Bytes :=
  match schemeOf s with
  | some sc => s.drop (sc.length + 1)
  | none => s

/-- the same with the liberal scheme of the Appendix B expression (`[^:/?#]+`, any non-empty run) -/
def looseSchemeOf (s : Bytes) : Option Bytes :=
  if firstSegment s ≠ [] ∧ (s.drop (firstSegment s).length).head? = some COLON then some (firstSegment s) else none

/-- group 4 -/
def authorityOf (s : Bytes) : Option Bytes :=
  if [SLASH, SLASH].isPrefixOf s then some ((s.drop 2).takeWhile notPathEnd) else none

def afterAuthority (s : Bytes) : Bytes :=
  match authorityOf s with
  | some a => s.drop (2 + a.length)
  | none => s

/-- group 5 -/
def pathOf (s : Bytes) : Bytes := s.takeWhile notQueryStart
def afterPath (s : Bytes) : Bytes := s.dropWhile notQueryStart

/-- group 7 -/
def queryOf : Bytes → Option Bytes
  | c :: r => if c = QMARK then some (r.takeWhile notHash) else none
  | [] => none

def afterQuery : Bytes → Bytes
  | c :: r => if c = QMARK then r.dropWhile notHash else c :: r
  | [] => []

/-- group 9 -/
def fragmentOf : Bytes → Option Bytes
  | c :: r => if c = HASH then some r else none
  | [] => none

def parseRef (s : Bytes) : Ref where
  scheme := schemeOf s
  authority := authorityOf (afterScheme s)
  path := pathOf (afterAuthority (afterScheme s))
  query := queryOf (afterPath (afterAuthority (afterScheme s)))
  fragment := fragmentOf (afterQuery (afterPath (afterAuthority (afterScheme s))))

/-! #### §5.2.4 remove_dot_segments -/

/-- 2C: "removing the last segment and its preceding "/" (if any) from the output buffer" -/
def removeLastSegment (out : Bytes) : Bytes := (out.reverse.dropWhile (· ≠ SLASH)).tail.reverse

/-- 2E: length of "the first path segment in the input buffer […], including the initial "/" character (if any) and any
    subsequent characters up to, but not including, the next "/" character or the end of the input buffer" -/
def firstSegLen : Bytes → Nat
  | [] => 0
  | _ :: r => 1 + (r.takeWhile (· ≠ SLASH)).length

/-- one round of the loop of step 2: (input buffer, output buffer) ↦ (input buffer, output buffer) -/
def rdsStep (inp out : Bytes) : Bytes × Bytes :=
  -- A. If the input buffer begins with a prefix of "../" or "./", then remove that prefix from the input buffer
  if [DOT, DOT, SLASH].isPrefixOf inp then (inp.drop 3, out)
  else if [DOT, SLASH].isPrefixOf inp then (inp.drop 2, out)
  -- B. if the input buffer begins with a prefix of "/./" or "/.", where "." is a complete path segment, then replace that
  --    prefix with "/" in the input buffer
  else if [SLASH, DOT, SLASH].isPrefixOf inp then (SLASH :: inp.drop 3, out)
  else if inp = [SLASH, DOT] then ([SLASH], out)
  -- C. if the input buffer begins with a prefix of "/../" or "/..", where ".." is a complete path segment, then replace that
  --    prefix with "/" in the input buffer and remove the last segment and its preceding "/" (if any) from the output buffer
  else if [SLASH, DOT, DOT, SLASH].isPrefixOf inp then (SLASH :: inp.drop 4, removeLastSegment out)
  else if inp = [SLASH, DOT, DOT] then ([SLASH], removeLastSegment out)
  -- D. if the input buffer consists only of "." or "..", then remove that from the input buffer
  else if inp = [DOT] ∨ inp = [DOT, DOT] then ([], out)
  -- E. move the first path segment in the input buffer to the end of the output buffer
  else (inp.drop (firstSegLen inp), out ++ inp.take (firstSegLen inp))

/-- step 2, "while the input buffer is not empty, loop", with fuel (every round shortens the input buffer:
    `Fox.C08.Loc.rdsStep_length_lt`, so `inp.length` rounds are enough: `Fox.C08.Loc.rdsLoop_fuel`) -/
def rdsLoop : Nat → Bytes → Bytes → Bytes
  | 0, _, out => out
  | n + 1, inp, out => if inp = [] then out else rdsLoop n (rdsStep inp out).1 (rdsStep inp out).2

/-- §5.2.4: steps 1 (input buffer := path, output buffer := ""), 2 and 3 (return the output buffer) -/
def removeDotSegments (p : Bytes) : Bytes := rdsLoop p.length p []

/-! #### §5.2.3 merge -/

/-- "all but the last segment of the base URI's path (i.e., excluding any characters after the right-most "/" in the base URI
    path, or excluding the entire base URI path if it does not contain any "/" characters)" -/
def dropLastSegment (p : Bytes) : Bytes := (p.reverse.dropWhile (· ≠ SLASH)).reverse

/-- §5.2.3 -/
def merge (baseHasAuthority : Bool) (basePath refPath : Bytes) : Bytes :=
  if baseHasAuthority = true ∧ basePath = [] then SLASH :: refPath
  else dropLastSegment basePath ++ refPath

/-! #### §5.2.2 transform references -/

/-- the target URI, relative to a base `scheme://authority` ++ basePath ++ ["?" ++ baseQuery]:
    `sameOrigin` = the target's scheme and authority are the base's (the reference defines neither) -/
structure Target where
  sameOrigin : Bool
  path : Bytes
  query : Option Bytes
  fragment : Option Bytes
deriving DecidableEq, Repr

/-- §5.2.2 (strict parser) against a base URI that has a scheme and an authority -/
def resolveRef (basePath : Bytes) (baseQuery : Option Bytes) (R : Ref) : Target :=
  if R.scheme.isSome then
    { sameOrigin := false, path := removeDotSegments R.path, query := R.query, fragment := R.fragment }
  else if R.authority.isSome then
    { sameOrigin := false, path := removeDotSegments R.path, query := R.query, fragment := R.fragment }
  else if R.path = [] then
    { sameOrigin := true, path := basePath, query := if R.query.isSome then R.query else baseQuery, fragment := R.fragment }
  else if R.path.head? = some SLASH then
    { sameOrigin := true, path := removeDotSegments R.path, query := R.query, fragment := R.fragment }
  else
    { sameOrigin := true, path := removeDotSegments (merge true basePath R.path), query := R.query, fragment := R.fragment }

def resolve (basePath : Bytes) (baseQuery : Option Bytes) (ref : Bytes) : Target :=
  resolveRef basePath baseQuery (parseRef ref)

end Fox.RFC3986
