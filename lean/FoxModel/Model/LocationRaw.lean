import FoxModel.Model.Location
/-
  FoxModel.Model.LocationRaw — which string the redirect handler feeds to `FixTrailingSlash` (fox.go
  defaultRedirectTrailingSlashHandler, after the repair of the raw-path finding):

      p := req.URL.EscapedPath()
      if raw := req.URL.RawPath; raw != "" && raw != p { p = escapeRawPath(raw) }

  `EscapedPath` is the standard library's: it returns RawPath when that is a valid encoding of Path and the default
  encoding of Path otherwise. Its value is an input of the model (`esc`), supplied by the harness from net/url.
  Core Lean only.
-/
namespace Fox.Model.Location
open Fox

def isHexDigit (c : UInt8) : Bool := (48 ≤ c && c ≤ 57) || (97 ≤ c && c ≤ 102) || (65 ≤ c && c ≤ 70)
def upperHex (n : UInt8) : UInt8 := if n < 10 then 48 + n else 55 + n

/-- bytes that may appear literally in a URL path: unreserved, sub-delims, ':', '@', '/' -/
def pathLiteral (c : UInt8) : Bool :=
  (97 ≤ c && c ≤ 122) || (65 ≤ c && c ≤ 90) || (48 ≤ c && c ≤ 57) ||
  [45, 46, 95, 126, 33, 36, 38, 39, 40, 41, 42, 43, 44, 59, 61, 58, 64, 47].contains c   -- -._~!$&'()*+,;=:@/

/-- fox.go `escapeRawPath`: keep the raw path's own `%XX` escapes, percent-encode every other byte that may not appear
    literally in a path -/
def encByte (c : UInt8) : Bytes :=
  if pathLiteral c then [c] else [PERCENT, upperHex (c >>> 4), upperHex (c &&& 15)]

def escapeRawPath : Bytes → Bytes
  | [] => []
  | c :: h1 :: h2 :: rest =>
    if c == PERCENT && isHexDigit h1 && isHexDigit h2 then PERCENT :: h1 :: h2 :: escapeRawPath rest
    else encByte c ++ escapeRawPath (h1 :: h2 :: rest)
  | c :: rest => encByte c ++ escapeRawPath rest
termination_by l => l.length
decreasing_by all_goals simp_wf <;> omega

/-- the string the handler passes to `FixTrailingSlash`: `raw` = URL.RawPath, `esc` = URL.EscapedPath() -/
def handlerSource (raw esc : Bytes) : Bytes :=
  if raw ≠ [] ∧ raw ≠ esc then escapeRawPath raw else esc

/-- the `Location` header of the trailing-slash redirect for a request with the given RawPath, EscapedPath and RawQuery -/
def redirectLocation (raw esc query : Bytes) : Bytes := locationHeader (handlerSource raw esc) query

end Fox.Model.Location
