import FoxModel.Basic
import FoxModel.Spec.Logger
/-
  FoxModel.Model.Logger — model of the Logger middleware (/repo/logger.go), of `level`, and of the parts of the context
  it reads: `Context.ClientIP` / `RemoteIP` (context.go) and the response recorder's status bookkeeping
  (response_writer.go, only what is needed to know which status is recorded).

  Go                                             model
  ---------------------------------------------  ----------------------------------------------------------------
  handler body: WriteHeader / Write / Header()   `Op` list run by `runOps` over `HState` (recorder + the events that
    .Set("Location") / panic                       reach the underlying http.ResponseWriter)
  next(c) ; everything after it                  `logger`: if `next` panicked nothing else runs (no defer/recover in
                                                   the middleware); otherwise exactly one `LogAttrs`
  level(status)                                  `level` over `levelTable` (first matching case, `default` last)
  c.ClientIP()                                   `clientIP`: `c.route == nil` selects the router's resolver
  errors.Is(err, ErrNoClientIPResolver)          `IPResult.isNoResolver`
-/
namespace Fox.Model.Logger
open Fox Fox.Spec.Logger

/-! ### `level` -/

structure Bound where
  lo : Int
  hi : Option Int     -- exclusive; `none`: no upper bound
  lvl : Level
deriving DecidableEq, Repr

/-- the `case` clauses of `func level(status int) slog.Level`, in source order -/
def levelTable : List Bound :=
  [⟨200, some 300, .info⟩, ⟨300, some 400, .debug⟩, ⟨400, some 500, .warn⟩, ⟨500, none, .error⟩]

/-- the `default:` clause -/
def levelDefault : Level := .info

def Bound.matches (b : Bound) (s : Int) : Bool :=
  decide (b.lo ≤ s) && (match b.hi with
    | some h => decide (s < h)
    | none => true)

def levelIn (tbl : List Bound) (dflt : Level) (s : Int) : Level :=
  match tbl.find? (·.matches s) with
  | some b => b.lvl
  | none => dflt

def level (s : Int) : Level := levelIn levelTable levelDefault s

/-- numeric value of the slog level constant -/
def slogValue : Level → Int
  | .debug => -4 | .info => 0 | .warn => 4 | .error => 8

/-! ### the response recorder and a handler body -/

inductive Op where
  | header (code : Int)      -- c.Writer().WriteHeader(code)
  | body                     -- c.Writer().Write(non-empty)
  | setLoc (v : Bytes)       -- c.Writer().Header().Set("Location", v)
  | flush                    -- c.Writer().FlushError(): commits the pending header first
  | panic
deriving DecidableEq, Repr

structure HState where
  status : Int := 200          -- recorder.status after reset
  written : Bool := false      -- recorder.size != notWritten
  loc : Bytes := []            -- Location header ([] = unset)
  events : List String := []   -- calls that reach the underlying http.ResponseWriter
  panicked : Bool := false
deriving Repr

def stepOp (s : HState) : Op → HState
  | .header code =>
    if s.written then s                                   -- superfluous WriteHeader: logged to stderr, ignored
    else if 100 ≤ code ∧ code ≤ 199 ∧ code ≠ 101 then
      { s with events := s.events ++ ["h" ++ toString code] }   -- informational: forwarded, not recorded
    else { s with status := code, written := true, events := s.events ++ ["h" ++ toString code] }
  | .body =>
    if s.written then { s with events := s.events ++ ["b"] }
    else { s with written := true, events := s.events ++ ["h" ++ toString s.status, "b"] }
  | .setLoc v => { s with loc := v }
  | .flush =>
    if s.written then { s with events := s.events ++ ["f"] }
    else { s with written := true, events := s.events ++ ["h" ++ toString s.status, "f"] }
  | .panic => { s with panicked := true }

/-- run a handler body; nothing after a panic executes -/
def runOps (s : HState) : List Op → HState
  | [] => s
  | op :: rest =>
    let s' := stepOp s op
    if s'.panicked then s' else runOps s' rest

/-! ### the context as the Logger sees it -/

/-- result of `ClientIPResolver.ClientIP(c)` -/
inductive IPResult where
  | ok (ip : Bytes)            -- err == nil; ip.String()
  | errNoResolver              -- ErrNoClientIPResolver itself (noClientIPResolver)
  | errWrapsNoResolver         -- an error for which errors.Is(err, ErrNoClientIPResolver) holds
  | errOther
deriving DecidableEq, Repr

structure Ctx where
  routeMatched : Bool          -- c.route != nil (only inside a route handler)
  routeResolver : IPResult     -- what c.route.clientip answers for this request
  routerResolver : IPResult    -- what c.fox.clientip answers
  remoteIP : Bytes             -- c.RemoteIP().String()
  method : String
  host : Bytes
  path : Bytes                 -- c.Path() = req.URL.Path

/-- `Context.ClientIP` -/
def clientIP (c : Ctx) : IPResult :=
  if !c.routeMatched then c.routerResolver else c.routeResolver

/-! ### the middleware -/

/-- the message argument of LogAttrs -/
def ipStr (c : Ctx) : Bytes :=
  match clientIP c with
  | .ok ip => ip
  | .errNoResolver | .errWrapsNoResolver => c.remoteIP
  | .errOther => Spec.Logger.unknown

/-- `LoggerWithHandler(h)(next)(c)`: the state after `next` and the records handed to the slog handler -/
def logger (next : HState → HState) (c : Ctx) (s : HState) : HState × List Record :=
  let s' := next s
  if s'.panicked then (s', [])
  else
    let lvl := level s'.status
    let location : Bytes := if lvl = .debug then s'.loc else []
    let msg := ipStr c
    if location = [] then
      (s', [{ level := lvl, msg := msg, status := s'.status, method := c.method, host := c.host, path := c.path,
              location := none }])
    else
      (s', [{ level := lvl, msg := msg, status := s'.status, method := c.method, host := c.host, path := c.path,
              location := some location }])

/-- the resolver's answer in the vocabulary of the specification -/
def resolutionOf : IPResult → Resolution
  | .ok ip => .ok ip
  | .errNoResolver | .errWrapsNoResolver => .noResolver
  | .errOther => .failed

/-- what the specification needs to know about the same request -/
def happened (c : Ctx) (s' : HState) : Happened :=
  { panicked := s'.panicked, status := s'.status, location := s'.loc,
    resolution := resolutionOf (clientIP c),
    remoteIP := c.remoteIP, method := c.method, host := c.host, path := c.path }

end Fox.Model.Logger
