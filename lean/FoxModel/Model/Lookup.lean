import FoxModel.Basic
import FoxModel.Spec.Route
/-
  FoxModel.Model.Lookup — executable model of fox's matcher (node.go: roots.lookup, lookupByDomain,
  lookupByPath), at token level.

  The Go code walks the radix tree with an explicit stack of skipped alternatives; here every alternative is a
  branch of a recursive function and the branches are concatenated in exactly the order in which the Go code
  would reach them (static child, then `{param}` child, then `*{catch-all}` child; for a catch-all the
  continuations at every following '/' left to right, then the capture of the whole rest). The result of the Go
  function is "the first direct match, else the first trailing-slash candidate" of that enumeration (`pick`).

  Every trailing-slash detection site of lookupByPath is a separately commented branch.
-/
namespace Fox.Model
open Fox

inductive Ev where
  | direct (r : Route) (ps : Binds)
  | tsr (r : Route) (ps : Binds)
  /-- the Go code would return a node without route (nil dereference later); excluded by the tree invariant -/
  | bad
deriving Repr, BEq, DecidableEq

inductive Sel where
  | static (b : UInt8)
  | param
  | catchAll
deriving DecidableEq, Repr

def Sel.matches : Sel → List Tok → Bool
  | .static b, .lit c :: _ => c == b
  | .param, .param _ :: _ => true
  | .catchAll, .catchAll _ :: _ => true
  | _, _ => false

def startsWithSlash (k : List Tok) : Bool := match k with | .lit c :: _ => c == SLASH | _ => false

/-- the path is used up in the middle of node `n`'s key (`pre` consumed, `k ≠ []` left):
    node.go "key end mid-edge" sites and the "intermediate node" site -/
def midKeyEnd (n : Node) (pre k : List Tok) (pr : Option Route) (es : Bool) (ps : Binds) : List Ev :=
  if es then
    -- remove the slash: the consumed part of this node is exactly "/" and the parent is a leaf
    match pr with
    | some p => if pre == [.lit SLASH] then [.tsr p ps] else []
    | none => []
  else
    -- add a slash: this node is a leaf and exactly "/" of its key is left
    match n.route with
    | some r => if k == [.lit SLASH] then [.tsr r ps] else []
    | none => []

mutual
/-- walk node `n`: `pre` = consumed part of its key, `k` = rest of its key, `pr` = route of the parent node if
    the parent is a leaf, `es` = the (sub-)lookup's path ends with '/', `path` = unread rest, `ps` = params so far -/
def walk (n : Node) (pre k : List Tok) (pr : Option Route) (es : Bool) (path : Bytes) (ps : Binds) : List Ev :=
  match k with
  | [] =>
    match path with
    | [] =>
      -- the path ends exactly at the end of this node's key
      match n.route with
      | some r => [.direct r ps]
      | none =>
        if es then
          -- intermediate node: the consumed key is exactly "/" and the parent is a leaf ⇒ remove the slash
          (match pr with
           | some p => if pre == [.lit SLASH] then [.tsr p ps] else []
           | none => [])
        else
          -- the path ends on an intermediate node with a leaf child "/" ⇒ add the slash
          (match n.children.find? (fun c => startsWithSlash c.key) with
           | some c => (match c.route with
                        | some r => if c.key.length == 1 then [.tsr r ps] else []
                        | none => [])
           | none => [])
    | b :: rest =>
      -- a leaf with exactly "/" left ⇒ remove the slash (detected before descending)
      (match n.route with
       | some r => if rest == [] && b == SLASH then [.tsr r ps] else []
       | none => [])
      ++ (if b == STAR then [] else walkKids (.static b) n.children n.route es (b :: rest) ps)
      ++ walkKids .param n.children n.route es (b :: rest) ps
      ++ walkKids .catchAll n.children n.route es (b :: rest) ps
  | .lit c :: k' =>
    match path with
    | [] => midKeyEnd n pre (.lit c :: k') pr es ps
    | b :: rest => if c = b then walk n (pre ++ [.lit c]) k' pr es rest ps else []
  | .param nm :: k' =>
    match path with
    | [] => midKeyEnd n pre (.param nm :: k') pr es ps
    | b :: rest =>
      if segEnd SLASH (b :: rest) = 0 then [] else
        walk n (pre ++ [.param nm]) k' pr es ((b :: rest).drop (segEnd SLASH (b :: rest)))
          (ps ++ [(nm, (b :: rest).take (segEnd SLASH (b :: rest)))])
  | .catchAll nm :: k' =>
    match path with
    | [] => midKeyEnd n pre (.catchAll nm :: k') pr es ps
    | b :: rest =>
      match k', n.children with
      | [], [] =>
        -- ending catch-all without children: direct match of the whole rest
        (match n.route with
         | some r => [.direct r (ps ++ [(nm, b :: rest)])]
         | none => [.bad])
      | [], c :: _ =>
        -- ending catch-all with a child (which starts with '/'): continuations first, then the whole rest
        (if b = SLASH then [] else walkInfix c nm [b] rest es ps)
        ++ (match n.route with
            | some r => [.direct r (ps ++ [(nm, b :: rest)])]
            | none => [.bad])
      | t :: k'', cs =>
        -- infix catch-all: the precomputed sub-node is this node with the key after the catch-all
        (if b = SLASH then [] else walkInfix (.mk (t :: k'') n.route cs) nm [b] rest es ps)
        ++ (if b = SLASH then []     -- an infix catch-all never captures an empty leading segment
            else
              -- whole rest captured, key continues with exactly "/" on a leaf ⇒ add the slash
              match n.route with
              | some r => if !es && (t :: k'') == [.lit SLASH] then [.tsr r (ps ++ [(nm, b :: rest)])] else []
              | none => [])
termination_by (path.length, 0, sizeOf n, k.length + 1)
decreasing_by
  all_goals simp_wf
  all_goals (try cases n)
  all_goals (try (have := segEnd_le SLASH (b :: rest)))
  all_goals simp [Node.children, Prod.lex_def] at * <;> omega

/-- the children of a node selected by `sel` (at most one in a well-formed tree), entered with their full key -/
def walkKids (sel : Sel) (cs : List Node) (pr : Option Route) (es : Bool) (path : Bytes) (ps : Binds) : List Ev :=
  match cs with
  | [] => []
  | c :: cs' =>
    (if sel.matches c.key then walk c [] c.key pr es path ps else []) ++ walkKids sel cs' pr es path ps
termination_by (path.length, 0, sizeOf cs, 0)
decreasing_by
  all_goals simp_wf
  all_goals simp [Prod.lex_def] <;> omega

/-- the catch-all `nm` has captured `acc`; at every following '/' start a fresh sub-lookup on `inode` -/
def walkInfix (inode : Node) (nm : Bytes) (acc : Bytes) (rest : Bytes) (es : Bool) (ps : Binds) : List Ev :=
  match rest with
  | [] => []
  | c :: rest' =>
    if c = SLASH then
      if acc.getLast? = some SLASH then []
      else walk inode [] inode.key none es (c :: rest') (ps ++ [(nm, acc)])
           ++ walkInfix inode nm (acc ++ [c]) rest' es ps
    else walkInfix inode nm (acc ++ [c]) rest' es ps
termination_by (rest.length, 1, 0, 0)
decreasing_by
  all_goals simp_wf
  all_goals simp [Prod.lex_def]
end

/-- lookupByPath on the node `target` -/
def pathEvents (target : Node) (path : Bytes) (ps : Binds) : List Ev :=
  walk target [] target.key none (endsWithSlash path) path ps

mutual
/-- lookupByDomain: `k` = rest of node `n`'s key; at the end of the host, continue with the path below the "/" child -/
def hostWalk (n : Node) (k : List Tok) (host path : Bytes) (ps : Binds) : List Ev :=
  match k with
  | [] =>
    match host with
    | [] =>
      (match n.children.find? (fun c => startsWithSlash c.key) with
       | some c => pathEvents c path ps
       | none => [])
    | b :: rest =>
      hostKids (.static b) n.children (b :: rest) path ps ++ hostKids .param n.children (b :: rest) path ps
  | .lit c :: k' =>
    match host with
    | [] => []
    | b :: rest => if c = b then hostWalk n k' rest path ps else []
  | .param nm :: k' =>
    match host with
    | [] => []
    | b :: rest =>
      if segEnd DOT (b :: rest) = 0 then [] else
        hostWalk n k' ((b :: rest).drop (segEnd DOT (b :: rest))) path
          (ps ++ [(nm, (b :: rest).take (segEnd DOT (b :: rest)))])
  | .catchAll _ :: _ => []
termination_by (sizeOf n, k.length + 1)
decreasing_by
  all_goals simp_wf
  all_goals (try cases n)
  all_goals simp [Node.children, Prod.lex_def] <;> omega

def hostKids (sel : Sel) (cs : List Node) (host path : Bytes) (ps : Binds) : List Ev :=
  match cs with
  | [] => []
  | c :: cs' =>
    (if sel.matches c.key then hostWalk c c.key host path ps else []) ++ hostKids sel cs' host path ps
termination_by (sizeOf cs, 0)
decreasing_by
  all_goals simp_wf
  all_goals simp [Prod.lex_def] <;> omega
end

inductive Result where
  | none
  | found (r : Route) (ps : Binds) (tsr : Bool)
  | bad
deriving Repr, BEq, DecidableEq

def firstTsr : List Ev → Result
  | [] => .none
  | .tsr r ps :: _ => .found r ps true
  | _ :: evs => firstTsr evs

def nonTsr : Ev → Bool
  | .tsr _ _ => false
  | _ => true

/-- "return on the first direct match; otherwise the first trailing-slash candidate" -/
def pick (evs : List Ev) : Result :=
  match evs.find? nonTsr with
  | some (.direct r ps) => .found r ps false
  | some _ => .bad
  | none => firstTsr evs

abbrev Roots := List (Bytes × Node)

def methodRoot (rs : Roots) (m : Bytes) : Option Node := (rs.find? (fun x => x.1 == m)).map (·.2)

/-- roots.lookup -/
def lookup (rs : Roots) (m hostPort path : Bytes) : Result :=
  match methodRoot rs m with
  | none => .none
  | some root =>
    match root.children with
    | [] => .none
    | cs =>
      let slashChild := cs.find? (fun c => startsWithSlash c.key)
      let byPath : Result := match slashChild with
        | some c => pick (pathEvents c path [])
        | none => .none
      if cs.length == 1 && slashChild.isSome then byPath
      else
        let h := Spec.stripHostPort hostPort
        let byHost : Result := if h == [] then .none else pick (hostWalk root [] h path [])
        match byHost with
        | .none => byPath
        | r => r

end Fox.Model
