import FoxModel.Basic
import FoxModel.Model.Lookup
import FoxModel.Model.Tree
/-
  FoxModel.Model.Machine — the matcher of node.go as the *state machine the Go code is*: `lookupByPath` with its
  registers (`current`, `parent`, `charsMatched`, the position inside the node key, `paramCnt`), the explicit stack of
  skipped alternatives (`*c.skipNds`: node, path index, parameter count, child), the parameter buffer `*c.params`
  that is truncated on backtracking, the "first trailing-slash candidate wins" register pair (`n`, `tsr`,
  `*c.tsrParams`), early return on the first direct match, and the recursive sub-lookups of infix catch-alls.

  One Lean function per label / loop of the Go function:

    keyLoop    the inner `for i` loop over `current.key`          (node.go "for i := 0; charsMatched < len(path); i++")
    infixLoop  the `for { idx = strings.IndexByte(path[charsMatched:], '/') … }` loop of a catch-all
    nodeEnd    child selection after the key is used up           ("if charsMatched < len(path) { … linear search … }")
    afterLoop  the trailing-slash analysis after the `Walk` loop   ("if !current.isLeaf() { … }  …  Incomplete match")
    backtrack  the `Backtrack:` label

  `Model.Lookup.walk` (the enumeration the refinement theorems of C01/C08/C09 speak about) is related to this machine
  by `Lemmas/MachineRefine.lean`: on every well-formed node the machine returns `pick` of the enumeration.
  Keys stay token lists (as everywhere in the model): the byte offsets `params[i].end`, `i`, `charsMatchedInNodeFound`
  are the split of the key into the consumed tokens `pre` and the remaining tokens `k`.
-/
namespace Fox.Model.Machine
open Fox Fox.Model

/-- `skippedNode{n, pathIndex, paramCnt, childIndex}`; the child is resolved when the entry is pushed (the tree is
    immutable during a lookup) -/
structure Frame where
  n : Node
  child : Node
  pathIndex : Nat
  paramCnt : Nat
deriving Repr

/-- what survives a backtrack: `*c.skipNds` (top first), `*c.params`, and (`n`, `tsr`, `*c.tsrParams`) -/
structure Regs where
  skipNds : List Frame := []
  params : Binds := []
  tsr : Option (Route × Binds) := none
deriving Repr

/-- `current.children[current.paramChildIndex]` -/
def paramChild (n : Node) : Option Node := n.children.find? (fun c => Sel.param.matches c.key)
/-- `current.children[current.wildcardChildIndex]` -/
def wildChild (n : Node) : Option Node := n.children.find? (fun c => Sel.catchAll.matches c.key)
/-- the linear search over `current.childKeys`; it never runs for a path byte '*' -/
def staticChild (n : Node) (b : UInt8) : Option Node :=
  if b == STAR then none else n.children.find? (fun c => firstByte c.key == b)

/-- `return current, false` -/
def ret (o : Option Route) (ps : Binds) : Result :=
  match o with
  | some r => .found r ps false
  | none => .bad

/-- `if !tsr { tsr = true; n = …; copy the params }` -/
def setTsr (R : Regs) (o : Option Route) (ps : Binds) : Regs :=
  match R.tsr, o with
  | none, some r => { R with tsr := some (r, ps) }
  | _, _ => R

def parentLeafRoute (parent : Option Node) : Option Route := parent.bind (·.route)

/-- `if !lazy { *c.params = append(*c.params, …) }`: a lazy lookup (Reverse, Iter.Reverse, the Allow-header loops) records nothing -/
def rec (lz : Bool) (ps x : Binds) : Binds := if lz then ps else ps ++ x
/-- `if !lazy { paramCnt++ }` -/
def inc (lz : Bool) (n : Nat) : Nat := if lz then n else n + 1

@[simp] theorem rec_false (ps x : Binds) : rec false ps x = ps ++ x := rfl
@[simp] theorem rec_true (ps x : Binds) : rec true ps x = ps := rfl
@[simp] theorem inc_false (n : Nat) : inc false n = n + 1 := rfl
@[simp] theorem inc_true (n : Nat) : inc true n = n := rfl

@[simp] theorem setTsr_skipNds (R : Regs) (o : Option Route) (ps : Binds) : (setTsr R o ps).skipNds = R.skipNds := by
  unfold setTsr; split <;> rfl
@[simp] theorem setTsr_params (R : Regs) (o : Option Route) (ps : Binds) : (setTsr R o ps).params = R.params := by
  unfold setTsr; split <;> rfl

/-- "remove the extra trailing slash (got an exact match on a leaf)", detected before going deeper -/
def earlyCand (cur : Node) (cm : Nat) (b : UInt8) (rest : Bytes) : Option Route :=
  if cur.isLeaf && rest.isEmpty && b == SLASH && decide (0 < cm) then cur.route else none

def earlyTsr (cur : Node) (cm : Nat) (b : UInt8) (rest : Bytes) (R : Regs) : Regs :=
  setTsr R (earlyCand cur cm b rest) R.params

@[simp] theorem earlyTsr_skipNds (cur cm b rest R) : (earlyTsr cur cm b rest R).skipNds = R.skipNds := by
  unfold earlyTsr; simp
@[simp] theorem earlyTsr_params (cur cm b rest R) : (earlyTsr cur cm b rest R).params = R.params := by
  unfold earlyTsr; simp

mutual
def nodeW : Node → Nat
  | .mk k _ cs => 2 + k.length + 2 * kidsW cs
def kidsW : List Node → Nat
  | [] => 0
  | c :: cs => nodeW c + kidsW cs
end

/-- work left at position `k` of node `cur` -/
def posW (cur : Node) (k : List Tok) : Nat := 1 + k.length + 2 * kidsW cur.children
def stackW : List Frame → Nat
  | [] => 0
  | f :: fs => nodeW f.child + stackW fs

theorem posW_key (c : Node) : posW c c.key + 1 = nodeW c := by
  cases c; simp [posW, nodeW, Node.key, Node.children]; omega

theorem nodeW_le_kidsW {cs : List Node} {c : Node} (h : c ∈ cs) : nodeW c ≤ kidsW cs := by
  induction cs with
  | nil => cases h
  | cons x xs ih =>
    simp only [kidsW]
    cases h with
    | head => omega
    | tail _ h' => have := ih h'; omega

theorem nodeW_find_le {cs : List Node} {f : Node → Bool} {c : Node} (h : cs.find? f = some c) : nodeW c ≤ kidsW cs :=
  nodeW_le_kidsW (List.mem_of_find?_eq_some h)

/-- two children found by predicates that exclude each other are different members of the list -/
theorem nodeW_find2_le {cs : List Node} {f g : Node → Bool} {a b : Node}
    (ha : cs.find? f = some a) (hb : cs.find? g = some b) (hfg : ∀ x, f x = true → g x = true → False) :
    nodeW a + nodeW b ≤ kidsW cs := by
  induction cs with
  | nil => simp at ha
  | cons x xs ih =>
    simp only [kidsW]
    by_cases hfx : f x = true
    · have hax : a = x := by simpa [List.find?_cons, hfx] using ha.symm
      have hgx : g x = false := by
        cases hg : g x with
        | false => rfl
        | true => exact (hfg x hfx hg).elim
      have hb' : xs.find? g = some b := by simpa [List.find?_cons, hgx] using hb
      have := nodeW_find_le hb'
      subst hax; omega
    · have hfx' : f x = false := by simpa using hfx
      have ha' : xs.find? f = some a := by simpa [List.find?_cons, hfx'] using ha
      by_cases hgx : g x = true
      · have hbx : b = x := by simpa [List.find?_cons, hgx] using hb.symm
        have := nodeW_find_le ha'
        subst hbx; omega
      · have hgx' : g x = false := by simpa using hgx
        have hb' : xs.find? g = some b := by simpa [List.find?_cons, hgx'] using hb
        have := ih ha' hb'
        omega

theorem param_catch_excl : ∀ x : Node, Sel.param.matches x.key = true → Sel.catchAll.matches x.key = true → False := by
  intro x h1 h2
  cases hk : x.key with
  | nil => simp [hk, Sel.matches] at h1
  | cons t k => cases t <;> simp [hk, Sel.matches] at h1 h2

/-- `skipNds` entries pushed before descending: the catch-all child first, then (above a static child) the param child -/
def pushWild (cur : Node) (cm paramCnt : Nat) (st : List Frame) : List Frame :=
  match wildChild cur with
  | some wc => { n := cur, child := wc, pathIndex := cm, paramCnt := paramCnt } :: st
  | none => st
def pushParam (cur : Node) (cm paramCnt : Nat) (st : List Frame) : List Frame :=
  match paramChild cur with
  | some pc => { n := cur, child := pc, pathIndex := cm, paramCnt := paramCnt } :: st
  | none => st

theorem stackW_pushWild (cur cm pcnt st) :
    stackW (pushWild cur cm pcnt st) = stackW st + (match wildChild cur with | some wc => nodeW wc | none => 0) := by
  unfold pushWild; cases wildChild cur <;> simp [stackW]; omega
theorem stackW_pushParam (cur cm pcnt st) :
    stackW (pushParam cur cm pcnt st) = stackW st + (match paramChild cur with | some pc => nodeW pc | none => 0) := by
  unfold pushParam; cases paramChild cur <;> simp [stackW]; omega

theorem wild_param_le (cur : Node) :
    (match wildChild cur with | some wc => nodeW wc | none => 0) + (match paramChild cur with | some pc => nodeW pc | none => 0)
      ≤ kidsW cur.children := by
  cases hw : wildChild cur with
  | none =>
    cases hp : paramChild cur with
    | none => simp
    | some pc => simpa using nodeW_find_le hp
  | some wc =>
    cases hp : paramChild cur with
    | none => simpa using nodeW_find_le hw
    | some pc =>
      have := nodeW_find2_le hp hw param_catch_excl
      simp; omega

theorem wild_le (cur : Node) : (match wildChild cur with | some wc => nodeW wc | none => 0) ≤ kidsW cur.children := by
  have := wild_param_le cur; omega

/-- the trailing-slash recommendation of the analysis after the `Walk` loop: the node whose route is recommended -/
def postCand (p : Bytes) (cur : Node) (pre k : List Tok) (parent : Option Node) (cm : Nat) : Option Route :=
  let es := endsWithSlash p
  let atEnd := (p.drop cm).isEmpty
  if !cur.isLeaf then
    if es && (parentLeafRoute parent).isSome && atEnd && pre == [.lit SLASH] then
      -- the intermediate node is exactly "/" below a leaf: remove the slash (`n = parent`)
      parentLeafRoute parent
    else if !es && atEnd && k.isEmpty then
      -- the path ends on an intermediate node with a leaf child "/": add the slash (`n = current.children[idx]`)
      match cur.children.find? (fun c => firstByte c.key == SLASH) with
      | some c => if c.isLeaf && c.key.length == 1 then c.route else none
      | none => none
    else none
  else if atEnd then
    -- key end mid-edge (the exact match has returned before)
    if es then (if (parentLeafRoute parent).isSome && pre == [.lit SLASH] then parentLeafRoute parent else none)
    else (if k == [.lit SLASH] then cur.route else none)
  else if k.isEmpty then
    -- incomplete match to end of edge: exactly "/" is left of the path (`n = current`)
    if p.drop cm == [SLASH] then cur.route else none
  else none                                                     -- incomplete match to middle of edge

/-- `if !tsr { … tsr = true; n = …; copyWithResize(c.tsrParams, c.params) }` after the `Walk` loop -/
def postTsr (p : Bytes) (cur : Node) (pre k : List Tok) (parent : Option Node) (cm : Nat) (R : Regs) : Regs :=
  setTsr R (postCand p cur pre k parent cm) R.params

@[simp] theorem postTsr_skipNds (p cur pre k parent cm R) : (postTsr p cur pre k parent cm R).skipNds = R.skipNds := by
  unfold postTsr; simp
@[simp] theorem postTsr_params (p cur pre k parent cm R) : (postTsr p cur pre k parent cm R).params = R.params := by
  unfold postTsr; simp

theorem drop_cons_lt {p : Bytes} {cm : Nat} {b : UInt8} {rest : Bytes} (hp : p.drop cm = b :: rest) : cm < p.length := by
  have := congrArg List.length hp; simp at this; omega

mutual
/-- the inner loop: match the rest `k` of `cur`'s key (`pre` already consumed) against `p[cm:]` -/
def keyLoop (lz : Bool) (p : Bytes) (cur : Node) (pre k : List Tok) (parent : Option Node) (cm paramCnt : Nat) (R : Regs) : Result :=
  match hp : p.drop cm with
  | [] => afterLoop lz p cur pre k parent cm R                      -- `charsMatched < len(path)` is false
  | b :: rest =>
    match k with
    | [] => nodeEnd lz p cur pre parent cm paramCnt b rest R         -- `i >= len(current.key)`: break, then select a child
    | .lit c :: k' =>
      if c = b ∧ b ≠ LBR ∧ b ≠ STAR then keyLoop lz p cur (pre ++ [.lit c]) k' parent (cm + 1) paramCnt R
      else afterLoop lz p cur pre (.lit c :: k') parent cm R         -- `break Walk`
    | .param nm :: k' =>
      -- idx := strings.IndexByte(path[charsMatched:], '/')
      if segEnd SLASH (b :: rest) = 0 then afterLoop lz p cur pre (.param nm :: k') parent cm R    -- segment is empty
      else
        keyLoop lz p cur (pre ++ [.param nm]) k' parent (cm + segEnd SLASH (b :: rest)) (inc lz paramCnt)
          { R with params := rec lz R.params [(nm, (b :: rest).take (segEnd SLASH (b :: rest)))] }
    | .catchAll nm :: k' =>
      match k', cur.children with
      | [], [] =>
        -- ending catch-all without child: direct match
        ret cur.route (rec lz R.params [(nm, b :: rest)])
      | [], c :: _ =>
        -- `inode = current.children[0]`
        infixLoop lz p cur (pre ++ [.catchAll nm]) [] nm parent c cm cm R
      | t :: k'', _ =>
        -- `inode = current.inode`: this node with the key that follows the catch-all
        infixLoop lz p cur (pre ++ [.catchAll nm]) (t :: k'') nm parent (.mk (t :: k'') cur.route cur.children) cm cm R
termination_by (p.length, posW cur k + stackW R.skipNds, 2)
decreasing_by
  all_goals simp_wf
  all_goals simp only [Prod.lex_def, posW, List.length_cons, List.length_nil]
  all_goals simp only [true_and, Nat.lt_irrefl, false_or]
  all_goals (first | omega | decide)

/-- bottom of the catch-all loop body: no further '/' (or an empty segment): the catch-all takes the whole rest -/
def infixTail (lz : Bool) (p : Bytes) (cur : Node) (pre k' : List Tok) (nm : Bytes) (parent : Option Node)
    (startPath cm : Nat) (R : Regs) : Result :=
  if k' = [] then ret cur.route (rec lz R.params [(nm, p.drop startPath)])    -- `end == -1`: ending catch-all
  else if (p.drop startPath).head? = some SLASH then
    -- an infix catch-all never captures an empty leading segment: `break Walk` where we are
    afterLoop lz p cur pre k' parent cm { R with params := rec lz R.params [(nm, p.drop startPath)] }
  else
    -- `charsMatched += len(path[charsMatched:])`, `break Walk`
    afterLoop lz p cur pre k' parent p.length { R with params := rec lz R.params [(nm, p.drop startPath)] }
termination_by (p.length, posW cur k' + stackW R.skipNds, 1)
decreasing_by
  all_goals simp_wf
  all_goals simp only [Prod.lex_def, true_and, Nat.lt_irrefl, false_or]
  all_goals omega

/-- the catch-all `nm` started capturing at `startPath`; try a sub-lookup on `inode` at every following '/' -/
def infixLoop (lz : Bool) (p : Bytes) (cur : Node) (pre k' : List Tok) (nm : Bytes) (parent : Option Node) (inode : Node)
    (startPath cm : Nat) (R : Regs) : Result :=
  match hp : p.drop cm with
  | [] => infixTail lz p cur pre k' nm parent startPath cm R
  | b :: rest =>
    if 0 < segEnd SLASH (b :: rest) ∧ segEnd SLASH (b :: rest) < (b :: rest).length then
      -- idx > 0: `charsMatched += idx`, sub-lookup on the rest (which starts with '/')
      match keyLoop false (p.drop (cm + segEnd SLASH (b :: rest))) inode [] inode.key none 0 0 {} with
      | .none => infixLoop lz p cur pre k' nm parent inode startPath (cm + segEnd SLASH (b :: rest) + 1) R
      | .found r sps true =>
        infixLoop lz p cur pre k' nm parent inode startPath (cm + segEnd SLASH (b :: rest) + 1)
          (setTsr R (some r) (rec lz (rec lz R.params [(nm, (p.drop startPath).take (cm + segEnd SLASH (b :: rest) - startPath))]) sps))
      | .found r sps false =>
        .found r (rec lz (rec lz R.params [(nm, (p.drop startPath).take (cm + segEnd SLASH (b :: rest) - startPath))]) sps) false
      | .bad => .bad
    else infixTail lz p cur pre k' nm parent startPath cm R
termination_by (p.length, posW cur k' + stackW R.skipNds, 2 + (p.length - cm))
decreasing_by
  all_goals simp_wf
  all_goals (try (have hlen := drop_cons_lt hp))
  all_goals simp only [Prod.lex_def, List.length_drop, setTsr_skipNds, true_and, Nat.lt_irrefl, false_or]
  all_goals omega

/-- the key of `cur` is used up and the path is not (`b :: rest = p[cm:]`): choose the next child -/
def nodeEnd (lz : Bool) (p : Bytes) (cur : Node) (pre : List Tok) (parent : Option Node) (cm paramCnt : Nat) (b : UInt8) (rest : Bytes)
    (R : Regs) : Result :=
  -- remove the extra trailing slash: exact match on a leaf, detected before going deeper
  let R1 := earlyTsr cur cm b rest R
  match hs : staticChild cur b with
  | none =>
    match hpc : paramChild cur with
    | some pc =>
      keyLoop lz p pc [] pc.key (some cur) cm paramCnt { R1 with skipNds := pushWild cur cm paramCnt R1.skipNds }
    | none =>
      match hwc : wildChild cur with
      | some wc => keyLoop lz p wc [] wc.key (some cur) cm paramCnt R1
      | none => afterLoop lz p cur pre [] parent cm R1              -- nothing more to evaluate: `break`
  | some sc =>
    keyLoop lz p sc [] sc.key (some cur) cm paramCnt
      { R1 with skipNds := pushParam cur cm paramCnt (pushWild cur cm paramCnt R1.skipNds) }
termination_by (p.length, posW cur [] + stackW R.skipNds, 1)
decreasing_by
  all_goals simp_wf
  all_goals simp only [Prod.lex_def, true_and, Nat.lt_irrefl, false_or, earlyTsr_skipNds, stackW_pushWild, stackW_pushParam]
  all_goals (have h4 : posW cur [] = 1 + 2 * kidsW cur.children := by simp [posW])
  · -- param child, catch-all child pushed
    have h1 := nodeW_find_le hpc
    have h2 := wild_param_le cur
    have h3 := posW_key pc
    rw [hpc] at h2
    simp only [] at h2
    omega
  · have h1 := nodeW_find_le hwc
    have h3 := posW_key wc
    omega
  · omega
  · have hs' : cur.children.find? (fun c => firstByte c.key == b) = some sc := by
      unfold staticChild at hs; split at hs
      · cases hs
      · exact hs
    have h1 := nodeW_find_le hs'
    have h2 := wild_param_le cur
    have h3 := posW_key sc
    omega

/-- after the `Walk` loop: trailing-slash recommendations, exact match, then `Backtrack` -/
def afterLoop (lz : Bool) (p : Bytes) (cur : Node) (pre k : List Tok) (parent : Option Node) (cm : Nat) (R : Regs) : Result :=
  if cur.isLeaf && (p.drop cm).isEmpty && k.isEmpty then ret cur.route R.params     -- exact match
  else backtrack lz p (postTsr p cur pre k parent cm R)
termination_by (p.length, posW cur k + stackW R.skipNds, 0)
decreasing_by
  all_goals simp_wf
  all_goals simp only [Prod.lex_def, postTsr_skipNds, posW, true_and, Nat.lt_irrefl, false_or]
  all_goals omega

/-- `Backtrack:` pop the most recent skipped alternative, or return the trailing-slash candidate -/
def backtrack (lz : Bool) (p : Bytes) (R : Regs) : Result :=
  match hst : R.skipNds with
  | [] =>
    (match R.tsr with
     | some (r, ps) => .found r ps true
     | none => .none)
  | f :: st =>
    keyLoop lz p f.child [] f.child.key (some f.n) f.pathIndex f.paramCnt
      { R with skipNds := st, params := R.params.take f.paramCnt }
termination_by (p.length, stackW R.skipNds, 3)
decreasing_by
  all_goals simp_wf
  all_goals simp only [Prod.lex_def, hst, stackW, true_and, Nat.lt_irrefl, false_or]
  have := posW_key f.child
  omega
end

/-- `lookupByPath(tree, target, path, c, lazy)` with `*c.params` holding `ps0` on entry (the Go callers pass an emptied buffer) -/
def lookupByPath (target : Node) (path : Bytes) (ps0 : Binds) (lz : Bool := false) : Result :=
  keyLoop lz path target [] target.key none 0 ps0.length { params := ps0 }

/-- the linear search over `childKeys` of lookupByDomain (no exception for '*') -/
def hostStaticChild (n : Node) (b : UInt8) : Option Node := n.children.find? (fun c => firstByte c.key == b)

theorem param_le (cur : Node) : (match paramChild cur with | some pc => nodeW pc | none => 0) ≤ kidsW cur.children := by
  have := wild_param_le cur; omega

mutual
/-- lookupByDomain, inner loop: match the rest `k` of `cur`'s key against `host[cm:]` -/
def hostKeyLoop (lz : Bool) (host path : Bytes) (cur : Node) (k : List Tok) (cm paramCnt : Nat) (R : Regs) : Result :=
  match host.drop cm with
  | [] => hostAfter lz host path cur k cm R
  | b :: rest =>
    match k with
    | [] => hostNodeEnd lz host path cur cm paramCnt b R
    | .lit c :: k' =>
      if c = b ∧ b ≠ LBR then hostKeyLoop lz host path cur k' (cm + 1) paramCnt R
      else hostAfter lz host path cur (.lit c :: k') cm R                                  -- `break Walk`
    | .param nm :: k' =>
      if segEnd DOT (b :: rest) = 0 then hostAfter lz host path cur (.param nm :: k') cm R   -- label part is empty
      else
        hostKeyLoop lz host path cur k' (cm + segEnd DOT (b :: rest)) (inc lz paramCnt)
          { R with params := rec lz R.params [(nm, (b :: rest).take (segEnd DOT (b :: rest)))] }
    | .catchAll nm :: k' => hostAfter lz host path cur (.catchAll nm :: k') cm R            -- no catch-all in hostnames
termination_by (posW cur k + stackW R.skipNds, 2)
decreasing_by
  all_goals simp_wf
  all_goals simp only [Prod.lex_def, posW, List.length_cons, List.length_nil, true_and, Nat.lt_irrefl, false_or]
  all_goals (first | omega | decide)

/-- the key of `cur` is used up and the host is not: static child first (a param child is saved for later), else the param child.
    The prologue of lookupByDomain is this step on the method root. -/
def hostNodeEnd (lz : Bool) (host path : Bytes) (cur : Node) (cm paramCnt : Nat) (b : UInt8) (R : Regs) : Result :=
  match hs : hostStaticChild cur b with
  | none =>
    match hpc : paramChild cur with
    | some pc => hostKeyLoop lz host path pc pc.key cm paramCnt R
    | none => hostAfter lz host path cur [] cm R                   -- nothing more to evaluate: `break`
  | some sc =>
    hostKeyLoop lz host path sc sc.key cm paramCnt { R with skipNds := pushParam cur cm paramCnt R.skipNds }
termination_by (posW cur [] + stackW R.skipNds, 1)
decreasing_by
  all_goals simp_wf
  all_goals simp only [Prod.lex_def, true_and, Nat.lt_irrefl, false_or, stackW_pushParam]
  all_goals (have h4 : posW cur [] = 1 + 2 * kidsW cur.children := by simp [posW])
  · have h1 := nodeW_find_le hpc
    have h3 := posW_key pc
    omega
  · omega
  · have h1 := nodeW_find_le hs
    have h2 := param_le cur
    have h3 := posW_key sc
    omega

/-- after the `Walk` loop: if host and key are both used up, look the path up below the "/" child -/
def hostAfter (lz : Bool) (host path : Bytes) (cur : Node) (k : List Tok) (cm : Nat) (R : Regs) : Result :=
  if (host.drop cm).isEmpty && k.isEmpty then
    match cur.children.find? (fun c => firstByte c.key == SLASH) with
    | none => hostBacktrack lz host path R
    | some c =>
      match lookupByPath c path [] lz with
      | .none => hostBacktrack lz host path R
      | .found r sps true => hostBacktrack lz host path (setTsr R (some r) (rec lz R.params sps))
      | .found r sps false => .found r (rec lz R.params sps) false
      | .bad => .bad
  else hostBacktrack lz host path R
termination_by (posW cur k + stackW R.skipNds, 0)
decreasing_by
  all_goals simp_wf
  all_goals simp only [Prod.lex_def, posW, setTsr_skipNds, true_and, Nat.lt_irrefl, false_or]
  all_goals omega

def hostBacktrack (lz : Bool) (host path : Bytes) (R : Regs) : Result :=
  match hst : R.skipNds with
  | [] =>
    (match R.tsr with
     | some (r, ps) => .found r ps true
     | none => .none)
  | f :: st =>
    hostKeyLoop lz host path f.child f.child.key f.pathIndex f.paramCnt
      { R with skipNds := st, params := R.params.take f.paramCnt }
termination_by (stackW R.skipNds, 3)
decreasing_by
  all_goals simp_wf
  all_goals simp only [Prod.lex_def, hst, stackW, true_and, Nat.lt_irrefl, false_or]
  have := posW_key f.child
  omega
end

/-- `lookupByDomain(tree, target, host, path, c, lazy)` (host non-empty) -/
def lookupByDomain (target : Node) (host path : Bytes) (lz : Bool := false) : Result :=
  match host with
  | [] => .none
  | b :: _ => hostNodeEnd lz host path target 0 0 b {}

/-- `roots.lookup` -/
def lookup (rs : Roots) (m hostPort path : Bytes) (lz : Bool := false) : Result :=
  match methodRoot rs m with
  | none => .none
  | some root =>
    match root.children with
    | [] => .none
    | c0 :: cs =>
      -- the tree for this method only has paths registered
      if cs.isEmpty && firstByte c0.key == SLASH then lookupByPath c0 path [] lz
      else
        let host := Spec.stripHostPort hostPort
        let byHost := if host.isEmpty then Result.none else lookupByDomain root host path lz
        match byHost with
        | .none =>
          -- fallback by path
          (match (c0 :: cs).find? (fun c => firstByte c.key == SLASH) with
           | some c => lookupByPath c path [] lz
           | none => .none)
        | r => r

end Fox.Model.Machine
