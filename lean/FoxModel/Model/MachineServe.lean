import FoxModel.Model.Machine
import FoxModel.Model.Serve
/-
  FoxModel.Model.MachineServe — the serving decision of `Router.ServeHTTP` on top of the matcher *as the Go code runs
  it*: the request itself is looked up with the recording state machine (`lazy = false`), the Allow-header loops of the
  automatic-OPTIONS and 405 branches look every other method up lazily (`lazy = true`), exactly as fox.go does.
  `Lemmas/MachineServe.lean` proves it equal to `Model.serve`, which Props/C08Serve relates to the specification.
-/
namespace Fox.Model.Machine
open Fox Fox.Model

/-- `if n, tsr := tree.lookup(method, host, path, c, true); n != nil && (!tsr || n.route.ignoreTrailingSlash)` -/
def allows (rs : Roots) (m host path : Bytes) : Bool × Bool :=
  match lookup rs m host path true with
  | .found r _ tsr => (!tsr || r.ignoreTS, tsr && r.ignoreTS && m == CONNECT)
  | _ => (false, false)

def optionsHits (rs : Roots) (host path : Bytes) : List (Bytes × Bool) :=
  if path == [STAR] then
    (rs.filter fun x => x.1 != OPTIONS && !x.2.children.isEmpty).map fun x => (x.1, false)
  else
    rs.filterMap fun x => let a := allows rs x.1 host path; if a.1 then some (x.1, a.2) else none

def noMethodHits (rs : Roots) (m host path : Bytes) : List (Bytes × Bool) :=
  rs.filterMap fun x =>
    if x.1 == m then none else
    let a := allows rs x.1 host path; if a.1 then some (x.1, a.2) else none

def special (cfg : Cfg) (rs : Roots) (m host path : Bytes) : Outcome :=
  if m == OPTIONS && cfg.autoOptions then optionsOutcome (optionsHits rs host path)
  else if cfg.noMethod then noMethodOutcome cfg (noMethodHits rs m host path)
  else { kind := .noRoute }

def onTsr (cfg : Cfg) (rs : Roots) (m host path urlPath : Bytes) (r : Route) (ps : Binds) : Outcome :=
  if m != CONNECT && urlPath != [SLASH] then
    if r.ignoreTS then { kind := .route, route := some r, params := ps, tags := ["ignore-ts"] }
    else if r.redirectTS && path == cleanRef path then
      { kind := .redirect, code := if m == GET then 301 else 308, route := some r, tags := ["redirect-ts"] }
    else { special cfg rs m host path with tags := (special cfg rs m host path).tags ++ ["tsr-unserved"] }
  else { special cfg rs m host path with tags := (special cfg rs m host path).tags ++ ["tsr-guarded"] }

/-- `ServeHTTP` -/
def serve (cfg : Cfg) (rs : Roots) (m host path urlPath : Bytes) : Outcome :=
  match lookup rs m host path false with
  | .bad => { kind := .bad }
  | .found r ps false => { kind := .route, route := some r, params := ps, tags := ["direct"] }
  | .found r ps true => onTsr cfg rs m host path urlPath r ps
  | .none => special cfg rs m host path

end Fox.Model.Machine
