import FoxModel.Basic
/-
  FoxModel.Model.Middleware — middleware chains of fox (fox.go New / applyMiddleware / applyRouteMiddleware / NewRoute,
  options.go WithMiddleware / WithMiddlewareFor / DefaultOptions). Core Lean only.

  * a middleware is an entry `{id, scope, g}` of `Router.mws` / `Route.mws`; how it wraps a handler is a parameter `app`
    of the chain builders (Go: `mws[i].m(m)`), so the same builders are used with the trace semantics of the theorems
    (`wrap`: log `enter i`, call next, log `exit i`) and with the observation semantics of the driver (panics, Recovery, Logger);
  * `Router.mws` as a Go slice (backing array id, len, cap) over an explicit heap, to state that creating a route writes
    no cell another route can reach.
-/
namespace Fox.Model.MW

/-- HandlerScope bit values (tied to fox.go by `Fox.C13.consts_tie`) -/
def cRouteHandler : Nat := 128
def cNoRouteHandler : Nat := 64
def cNoMethodHandler : Nat := 32
def cRedirectHandler : Nat := 16
def cOptionsHandler : Nat := 8
def cAllHandlers : Nat := 248

/-- the five kinds of handler the router invokes -/
inductive Kind where
  | route | noRoute | noMethod | redirect | options
deriving DecidableEq, Repr, Inhabited

def Kind.bit : Kind → Nat
  | .route => cRouteHandler | .noRoute => cNoRouteHandler | .noMethod => cNoMethodHandler
  | .redirect => cRedirectHandler | .options => cOptionsHandler

/-- position of the kind's bit in the `uint8` scope mask -/
def Kind.idx : Kind → Nat
  | .route => 7 | .noRoute => 6 | .noMethod => 5 | .redirect => 4 | .options => 3

/-- `type middleware struct { m; scope; g }`: `id` stands for the function value `m` -/
structure Mw where
  id : Nat
  scope : Nat
  g : Bool
deriving DecidableEq, Repr, Inhabited

/-- ids standing for the two middleware installed by DefaultOptions -/
def recoveryId : Nat := 1000
def loggerId : Nat := 1001

/-- Go: `mws[i].scope&scope != 0` -/
def Mw.hits (m : Mw) (scope : Nat) : Bool := m.scope &&& scope != 0

/-- fox.go applyMiddleware: `for i := len(mws)-1; i >= 0; i-- { if mws[i].scope&scope != 0 { m = mws[i].m(m) } }` -/
def applyMiddleware {H : Type} (app : Mw → H → H) (scope : Nat) (mws : List Mw) (h : H) : H :=
  mws.reverse.foldl (fun m mw => if mw.hits scope then app mw m else m) h

/-- fox.go applyRouteMiddleware: returns (rte = route-specific chain, all = full chain) -/
def applyRouteMiddleware {H : Type} (app : Mw → H → H) (mws : List Mw) (base : H) : H × H :=
  mws.reverse.foldl (fun (acc : H × H) mw =>
    if mw.hits cRouteHandler then
      let all := app mw acc.2
      let rte := if !mw.g then app mw acc.1 else acc.1
      (rte, all)
    else acc) (base, base)

/-! ### trace semantics -/

inductive Ev where
  | enter (i : Nat)
  | exit (i : Nat)
  | handler (tag : Nat)
deriving DecidableEq, Repr, Inhabited

abbrev Trace := List Ev

/-- middleware `i` = the wrapper that logs `enter i`, calls next, logs `exit i` -/
def wrap (m : Mw) (next : Trace) : Trace := .enter m.id :: next ++ [.exit m.id]

/-! ### router construction (the middleware related part of `New`) -/

/-- global options that touch the middleware list or the switches deciding which special handler runs; `none` in an
    id list is a nil `MiddlewareFunc` -/
inductive GOpt where
  | middleware (ms : List (Option Nat))                    -- WithMiddleware(ms...)
  | middlewareFor (scope : Nat) (ms : List (Option Nat))   -- WithMiddlewareFor(scope, ms...)
  | defaults                                               -- DefaultOptions()
  | autoOptions (b : Bool)                                 -- WithAutoOptions(b)
  | noMethod (b : Bool)                                    -- WithNoMethod(b)
deriving DecidableEq, Repr, Inhabited

structure MwCfg where
  mws : List Mw := []
  handleOptions : Bool := false
  handleNoMethod : Bool := false
deriving DecidableEq, Repr, Inhabited

/-- `for i := range m { if m[i] == nil { return ErrInvalidConfig }; mws = append(mws, middleware{m[i], scope, g}) }`;
    `none` = the option returned ErrInvalidConfig -/
def appendMws (scope : Nat) (g : Bool) : List Mw → List (Option Nat) → Option (List Mw)
  | acc, [] => some acc
  | _, none :: _ => none
  | acc, some i :: rest => appendMws scope g (acc ++ [⟨i, scope, g⟩]) rest

def applyG (c : MwCfg) : GOpt → Option MwCfg
  | .middleware ms => (appendMws cAllHandlers true c.mws ms).map fun m => { c with mws := m }
  | .middlewareFor s ms => (appendMws s true c.mws ms).map fun m => { c with mws := m }
  | .defaults => some { c with mws := ⟨recoveryId, cRouteHandler, true⟩ :: ⟨loggerId, cAllHandlers, true⟩ :: c.mws,
                               handleOptions := true }
  | .autoOptions b => some { c with handleOptions := b }
  | .noMethod b => some { c with handleNoMethod := b }

/-- `New`: options applied in order, the first error aborts (`none` = ErrInvalidConfig) -/
def newRouter : MwCfg → List GOpt → Option MwCfg
  | c, [] => some c
  | c, o :: os => match applyG c o with
    | none => none
    | some c' => newRouter c' os

/-- the four special chains composed once by `New` -/
def specialChain {H : Type} (app : Mw → H → H) (c : MwCfg) (k : Kind) (base : H) : H :=
  applyMiddleware app k.bit c.mws base

/-! ### route construction (the middleware related part of `NewRoute`) -/

/-- `mws: slices.Clone(fox.mws)` then every route `WithMiddleware` appends `{m, RouteHandler, false}` -/
def routeMws (globals : List Mw) (own : List Nat) : List Mw :=
  globals ++ own.map fun i => ⟨i, cRouteHandler, false⟩

structure RouteChains (H : Type) where
  hbase : H
  hself : H
  hall : H

def newRouteChains {H : Type} (app : Mw → H → H) (globals : List Mw) (own : List Nat) (handler : H) : RouteChains H :=
  let (rte, all) := applyRouteMiddleware app (routeMws globals own) handler
  { hbase := handler, hself := rte, hall := all }

/-! ### `mws` as a Go slice over a heap of backing arrays -/

structure Slice where
  arr : Nat
  len : Nat
  cap : Nat
deriving DecidableEq, Repr, Inhabited

/-- `arrs[a]` = the cells of backing array `a` (its length is the capacity of the allocation) -/
structure Heap where
  arrs : List (List Mw) := []
deriving Repr, Inhabited

def junk : Mw := ⟨0, 0, false⟩

def Heap.cells (h : Heap) (a : Nat) : List Mw := h.arrs.getD a []

/-- the elements a slice denotes -/
def Heap.read (h : Heap) (s : Slice) : List Mw := (h.cells s.arr).take s.len

def Heap.alloc (h : Heap) (cells : List Mw) : Heap × Nat := ({ arrs := h.arrs ++ [cells] }, h.arrs.length)

def Heap.write (h : Heap) (a i : Nat) (x : Mw) : Heap :=
  { arrs := h.arrs.set a ((h.cells a).set i x) }

/-- Go `append(s, x)`: in place when `len < cap` (a write into the shared backing array), otherwise a new array
    of capacity `grow (len+1)`; `grow` is the allocator's rounding, any function with `grow n ≥ n` -/
def Heap.append (grow : Nat → Nat) (h : Heap) (s : Slice) (x : Mw) : Heap × Slice :=
  if s.len < s.cap then
    (h.write s.arr s.len x, { s with len := s.len + 1 })
  else
    let c := max (grow (s.len + 1)) (s.len + 1)
    let (h', a) := h.alloc (h.read s ++ [x] ++ List.replicate (c - (s.len + 1)) junk)
    (h', { arr := a, len := s.len + 1, cap := c })

def Heap.appendAll (grow : Nat → Nat) (h : Heap) (s : Slice) : List Mw → Heap × Slice
  | [] => (h, s)
  | x :: xs => let (h', s') := h.append grow s x; Heap.appendAll grow h' s' xs

/-- `slices.Clone(s)`: always a fresh array (capacity `grow len ≥ len`) -/
def Heap.clone (grow : Nat → Nat) (h : Heap) (s : Slice) : Heap × Slice :=
  let c := max (grow s.len) s.len
  let (h', a) := h.alloc (h.read s ++ List.replicate (c - s.len) junk)
  (h', { arr := a, len := s.len, cap := c })

/-- the form of the `mws:` initialiser in `NewRoute` (regenerated fact `Generated.newRouteMwsCopied`) -/
inductive MwsInit where
  | copied    -- slices.Clone(fox.mws)
  | shared    -- fox.mws
deriving DecidableEq, Repr, Inhabited

/-- `NewRoute` on the heap: initialise `rte.mws`, then append the route's own middleware -/
def newRouteS (init : MwsInit) (grow : Nat → Nat) (h : Heap) (router : Slice) (own : List Nat) : Heap × Slice :=
  let (h1, s1) := match init with
    | .copied => h.clone grow router
    | .shared => (h, router)
  Heap.appendAll grow h1 s1 (own.map fun i => ⟨i, cRouteHandler, false⟩)

end Fox.Model.MW
