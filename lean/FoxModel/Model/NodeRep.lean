import FoxModel.Basic
import FoxModel.Model.Lookup
import FoxModel.Model.Tree
/-
  FoxModel.Model.NodeRep — the derived fields of a node and the searches on them, as node.go computes them.

  Besides `key`, `route` and `children` a Go node carries `childKeys` (the first byte of every child's key, in the
  order of `children`), `paramChildIndex` and `wildcardChildIndex` (the positions of the child whose key starts
  with '{' resp. '*', or -1). `newNode` sorts the children by key before it fills these fields; `newNodeFromRef`
  (clone, update, merge) takes them over from a node with the same children. `getEdge` / `updateEdge` - the child
  lookup of the *write* path (copyOnWriteSearch, roots.search, the in-place edge replacement) - search `childKeys`
  linearly up to 50 children and by bisection above; the matcher always searches it linearly and reads the two
  index fields. The tree model (Model/Tree, Model/Machine) finds children with `List.find?` on the child list; this
  file is the layer in between, so that "the child found by the Go search on the derived fields" = "the child
  found by the model" becomes a theorem (Props/C02Rep) instead of a modelling convention.

  Index arithmetic is Go's (`int`, here `Int`: no overflow can occur below 2^62 children); indexing out of range,
  which panics in Go, makes the functions return `none`.
-/
namespace Fox.Model.NodeRep
open Fox Fox.Model

/-- `childKeys[i] = children[i].key[0]` -/
def childKeys (cs : List Node) : List UInt8 := cs.map fun c => firstByte c.key

/-- `linearSearch`: first index of `s`, or -1 -/
def linearFrom : List UInt8 → UInt8 → Nat → Int
  | [], _, _ => -1
  | k :: ks, s, i => if k = s then (i : Int) else linearFrom ks s (i + 1)

def linearSearch (keys : List UInt8) (s : UInt8) : Int := linearFrom keys s 0

/-- the loop of `binarySearch`: `mid := int(uint(low+high) >> 1)`, three-way `compare`, `-(low+1)` when the
    interval is empty. `none` = the index expression `keys[mid]` would panic (or `low+high` is negative, which the
    conversion to `uint` would turn into a huge index). -/
def bsLoop (keys : List UInt8) (s : UInt8) (low high : Int) : Option Int :=
  if h : low ≤ high then
    if low + high < 0 then none else
    let mid := (low + high) / 2
    match keys[mid.toNat]? with
    | none => none
    | some k =>
      if k < s then bsLoop keys s (mid + 1) high
      else if s < k then bsLoop keys s low (mid - 1)
      else some mid
  else some (-(low + 1))
termination_by (high + 1 - low).toNat
decreasing_by all_goals omega

/-- `binarySearch(keys, s)`: `low, high := 0, len(keys)-1` -/
def binarySearch (keys : List UInt8) (s : UInt8) : Option Int := bsLoop keys s 0 ((keys.length : Int) - 1)

/-- the threshold of `getEdge` / `updateEdge` -/
def linearMax : Nat := 50

/-- the index `getEdge` and `updateEdge` compute for the byte `s` (negative: no such child) -/
def edgeIndex (cs : List Node) (s : UInt8) : Option Int :=
  if cs.length ≤ linearMax then some (linearSearch (childKeys cs) s) else binarySearch (childKeys cs) s

/-- `getEdge(s)`: outer `none` = a panic, `some none` = `nil` -/
def getEdge (cs : List Node) (s : UInt8) : Option (Option Node) :=
  match edgeIndex cs s with
  | none => none
  | some id => if id < 0 then some none else (cs[id.toNat]?).map some

/-- `updateEdge(n)`: replace the child whose key starts like `n`'s; `none` = the explicit panic
    "cannot update the edge with this node" (or an index panic) -/
def updateEdge (cs : List Node) (n : Node) : Option (List Node) :=
  match edgeIndex cs (firstByte n.key) with
  | none => none
  | some id => if id < 0 then none else if id.toNat < cs.length then some (cs.set id.toNat n) else none

/-- the loop of `newNode` that fills `paramChildIndex` and `wildcardChildIndex` (the last child whose key has the
    prefix "{" resp. "*"; -1 when there is none) -/
def indexLoop : List Node → Nat → Int → Int → Int × Int
  | [], _, p, w => (p, w)
  | c :: cs, i, p, w =>
    if firstByte c.key = LBR then indexLoop cs (i + 1) i w
    else if firstByte c.key = STAR then indexLoop cs (i + 1) p i
    else indexLoop cs (i + 1) p w

def paramChildIndex (cs : List Node) : Int := (indexLoop cs 0 (-1) (-1)).1
def wildcardChildIndex (cs : List Node) : Int := (indexLoop cs 0 (-1) (-1)).2

/-- `current.children[current.paramChildIndex]` guarded by `paramChildIndex >= 0` -/
def childAt (cs : List Node) (i : Int) : Option Node := if i < 0 then none else cs[i.toNat]?

/-- first byte of a child as a number (the sort key when first bytes are distinct) -/
def fb (c : Node) : Nat := (firstByte c.key).toNat

def fbs (cs : List Node) : List Nat := cs.map fb

mutual
/-- at every node the children are in strictly ascending order of their first byte (what `newNode`'s sort
    establishes and `newNodeFromRef` / `updateEdge` rely on) -/
def srtNode : Node → Bool
  | .mk _ _ cs => decide ((fbs cs).Pairwise (· < ·)) && srtKids cs
def srtKids : List Node → Bool
  | [] => true
  | c :: cs => srtNode c && srtKids cs
end

def srtRoots (rs : Roots) : Bool := rs.all fun x => srtNode x.2

end Fox.Model.NodeRep
