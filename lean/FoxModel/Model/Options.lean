import FoxModel.Basic
import FoxModel.Model.Middleware
/-
  FoxModel.Model.Options — router and route configuration (options.go, fox.go New / NewRoute, txn.go Handle / Update,
  route.go accessors, context.go ClientIP). Core Lean only.

  A resolver is `Option Nat`: `none` = `noClientIPResolver{}`, `some k` = the user's resolver number `k`.
  `reflect` is not modelled: whether an annotation key can be a map key is an input bit of the key.
-/
namespace Fox.Model.Opt
open Fox Fox.Model.MW

/-- result of a constructor: a value, one of the two documented errors, or a Go panic -/
inductive Outcome (α : Type) where
  | ok (a : α)
  | invalidConfig
  | invalidRoute
  | panic
deriving Repr, DecidableEq, Inhabited

/-! ### global options -/

structure RouterCfg where
  mws : List Mw := []
  handleOptions : Bool := false
  handleNoMethod : Bool := false
  redirectTS : Bool := false
  ignoreTS : Bool := false
  clientip : Option Nat := none
deriving Repr, DecidableEq, Inhabited

inductive GlobalOpt where
  | middleware (ms : List (Option Nat))
  | middlewareFor (scope : Nat) (ms : List (Option Nat))
  | defaults
  | autoOptions (b : Bool)
  | noMethod (b : Bool)
  | redirectTS (b : Bool)
  | ignoreTS (b : Bool)
  | clientIP (r : Option Nat)                 -- `none` = WithClientIPResolver(nil)
  | noRouteHandler (isNil : Bool)
  | noMethodHandler (isNil : Bool)
  | optionsHandler (isNil : Bool)
deriving Repr, DecidableEq, Inhabited

def ofAppend {α : Type} (r : Option (List Mw)) (k : List Mw → α) : Outcome α :=
  match r with
  | none => .invalidConfig
  | some m => .ok (k m)

/-- options.go, the `s.router != nil` halves -/
def applyGlobal (c : RouterCfg) : GlobalOpt → Outcome RouterCfg
  | .middleware ms => ofAppend (appendMws cAllHandlers true c.mws ms) fun m => { c with mws := m }
  | .middlewareFor s ms => ofAppend (appendMws s true c.mws ms) fun m => { c with mws := m }
  | .defaults => .ok { c with mws := ⟨recoveryId, cRouteHandler, true⟩ :: ⟨loggerId, cAllHandlers, true⟩ :: c.mws,
                              handleOptions := true }
  | .autoOptions b => .ok { c with handleOptions := b }
  | .noMethod b => .ok { c with handleNoMethod := b }
  | .redirectTS b => .ok { c with redirectTS := b, ignoreTS := if b then false else c.ignoreTS }
  | .ignoreTS b => .ok { c with ignoreTS := b, redirectTS := if b then false else c.redirectTS }
  -- `if s.router != nil && resolver != nil`: a nil resolver leaves the router's resolver as it is
  | .clientIP r => .ok (match r with | none => c | some k => { c with clientip := some k })
  | .noRouteHandler isNil => if isNil then .invalidConfig else .ok c
  | .noMethodHandler isNil => if isNil then .invalidConfig else .ok { c with handleNoMethod := true }
  | .optionsHandler isNil => if isNil then .invalidConfig else .ok { c with handleOptions := true }

/-- `New`: defaults, then the options in order; the first error is returned -/
def newRouterFrom : RouterCfg → List GlobalOpt → Outcome RouterCfg
  | c, [] => .ok c
  | c, o :: os => match applyGlobal c o with
    | .ok c' => newRouterFrom c' os
    | .invalidConfig => .invalidConfig
    | .invalidRoute => .invalidRoute
    | .panic => .panic

def newRouter (opts : List GlobalOpt) : Outcome RouterCfg := newRouterFrom {} opts

/-! ### route options -/

/-- an annotation key: `(cls, n)` is its identity; `isNil`: the nil interface; `hashable`: inserting it into a
    `map[any]any` does not panic (input bit standing for `reflect.ValueOf(key).Comparable()`); `reflexive`: `key == key`
    (false for NaN) -/
structure AnnKey where
  cls : Nat
  n : Nat
  isNil : Bool
  hashable : Bool
  reflexive : Bool
deriving Repr, DecidableEq, Inhabited

inductive RouteOpt where
  | middleware (ms : List (Option Nat))
  | redirectTS (b : Bool)
  | ignoreTS (b : Bool)
  | clientIP (r : Option Nat)                 -- `none` = nil resolver ⇒ no resolver for this route
  | annotation (k : AnnKey) (v : Nat)
deriving Repr, DecidableEq, Inhabited

structure RouteCfg where
  pattern : Bytes
  toks : List Tok
  hostToks : Nat
  mws : List Mw
  redirectTS : Bool
  ignoreTS : Bool
  clientip : Option Nat
  /-- `map[any]any` as an association list, newest binding of a key replaces the old one -/
  annots : List (AnnKey × Nat) := []
deriving Repr, DecidableEq, Inhabited

/-- Go map assignment `m[k] = v`: replaces the entry with an equal key; an irreflexive key (NaN) never equals an
    existing one, so it always adds an entry -/
def mapSet (m : List (AnnKey × Nat)) (k : AnnKey) (v : Nat) : List (AnnKey × Nat) :=
  if k.reflexive then (m.filter fun e => e.1 != k) ++ [(k, v)] else m ++ [(k, v)]

/-- Go map read `m[k]` (`none` = nil) -/
def mapGet (m : List (AnnKey × Nat)) (k : AnnKey) : Option Nat :=
  if k.reflexive then (m.find? fun e => e.1 == k).map (·.2) else none

/-- options.go, the `s.route != nil` halves -/
def applyRoute (r : RouteCfg) : RouteOpt → Outcome RouteCfg
  | .middleware ms => ofAppend (appendMws cRouteHandler false r.mws ms) fun m => { r with mws := m }
  | .redirectTS b => .ok { r with redirectTS := b, ignoreTS := if b then false else r.ignoreTS }
  | .ignoreTS b => .ok { r with ignoreTS := b, redirectTS := if b then false else r.redirectTS }
  -- `cmp.Or(resolver, ClientIPResolver(noClientIPResolver{}))`
  | .clientIP o => .ok { r with clientip := o }
  -- `if key == nil || !reflect.ValueOf(key).Comparable() { return ErrInvalidConfig }`
  | .annotation k v => if k.isNil || !k.hashable then .invalidConfig else .ok { r with annots := mapSet r.annots k v }

def applyRouteOpts : RouteCfg → List RouteOpt → Outcome RouteCfg
  | r, [] => .ok r
  | r, o :: os => match applyRoute r o with
    | .ok r' => applyRouteOpts r' os
    | .invalidConfig => .invalidConfig
    | .invalidRoute => .invalidRoute
    | .panic => .panic

/-- the part of `parseRoute` this model needs (validation itself is property C10): the pattern tokenizes and has a
    slash; the host part ends at the first `/` -/
def parsePattern (p : Bytes) : Option (List Tok × Nat) :=
  match tokenize p with
  | none => none
  | some toks => if toks.contains (.lit SLASH) then some (toks, toks.findIdx (· == .lit SLASH)) else none

/-- the route as initialised by `NewRoute` from the router's configuration at that moment -/
def routeDefaults (cfg : RouterCfg) (p : Bytes) (toks : List Tok) (hostToks : Nat) : RouteCfg :=
  { pattern := p, toks := toks, hostToks := hostToks, mws := cfg.mws, redirectTS := cfg.redirectTS,
    ignoreTS := cfg.ignoreTS, clientip := cfg.clientip }

/-- fox.go NewRoute -/
def newRoute (cfg : RouterCfg) (p : Bytes) (handlerNil : Bool) (opts : List RouteOpt) : Outcome RouteCfg :=
  if handlerNil then .invalidRoute else
  match parsePattern p with
  | none => .invalidRoute
  | some (toks, h) => applyRouteOpts (routeDefaults cfg p toks h) opts

/-- txn.go Handle / Update: nil handler and method checks come first -/
def handle (cfg : RouterCfg) (methodOk : Bool) (p : Bytes) (handlerNil : Bool) (opts : List RouteOpt) : Outcome RouteCfg :=
  if handlerNil then .invalidRoute
  else if !methodOk then .invalidRoute
  else newRoute cfg p handlerNil opts

/-! ### accessors (route.go) -/

def RouteCfg.asRoute (r : RouteCfg) : Fox.Route := { hid := 0, pattern := r.toks, hostToks := r.hostToks }
def RouteCfg.hostname (r : RouteCfg) : Bytes := render r.asRoute.hostPart
def RouteCfg.path (r : RouteCfg) : Bytes := render r.asRoute.pathPart
def RouteCfg.paramsLen (r : RouteCfg) : Nat := r.asRoute.psLen
def RouteCfg.annotation (r : RouteCfg) (k : AnnKey) : Option Nat := mapGet r.annots k
/-- ids of the route's own middleware (the entries `NewRoute` appended) -/
def RouteCfg.own (r : RouteCfg) : List Nat := (r.mws.filter fun m => !m.g).map (·.id)

/-! ### Context.ClientIP -/

/-- context.go ClientIP: `if c.route == nil { c.fox.clientip } else { c.route.clientip }` -/
def clientIPResolver (cfg : RouterCfg) (ctxRoute : Option RouteCfg) : Option Nat :=
  match ctxRoute with
  | none => cfg.clientip
  | some r => r.clientip

/-- `c.route` as ServeHTTP leaves it before calling a handler of the given kind (fox.go: the matched route on the two
    route branches, nil on every other branch; see Model.Context.serveAssign) -/
def ctxRouteFor (k : Kind) (matched : RouteCfg) : Option RouteCfg :=
  match k with
  | .route => some matched
  | _ => none

end Fox.Model.Opt
